/-
  Helper development for `Props/MemoSafe.lean`, second part: the per-rule comparison (L2) for the
  CODE-SPAN rule, whose verdict reads a cache (`st.backticks`) that differs between the witness state
  `st0` and the later state `s`.

  The cache has two parts with different status:
    * the closer table (`scanned`, `scannedFrom`, `scannedTo`, `max`) only saves work
      (`CodePair.cache_transparent`, under `CacheInv` and "no `pos_max` cuts a run of backticks");
    * `insideFailed` is part of the rule's MEANING: a call at a remembered position answers `None`
      whatever the text says (`CodePair.inside_hit`).
  So two caches give the same verdict at `pos` as soon as they agree on `insideFailed.contains pos`
  (`CodePair.run_cache_indep`) — and NO invariant `B src cache` that holds for the empty cache and is kept
  by the rule can give more: `back_L2_needs_inside` shows two caches, both reachable from the empty one,
  with different verdicts at a position strictly inside a run of backticks.

    * `BInv`                   — `CacheInv ∧ InsideInv`; `BInv.empty`, `backOK_BInv : BackOK BInv`;
    * `back_L2`                — the analogue of `flat_L2`, with the hypothesis `hins` on `insideFailed`;
    * `inside_agree_of_not_interior` — `hins` holds (both sides `false`) at every position that is not
                                 strictly inside a run of backticks;
    * `ruleBackticks_inside_mono` — `insideFailed` only grows.
-/
import MdIt.Lemmas.MemoSafeLamFlat

/-! ## `MdIt.CodePair`: the verdict across caches -/

namespace MdIt.CodePair

/-- **two caches, same verdict**: both satisfy the invariant of the closer table, `posMax` cuts no run
    (or is the `pos_max` the table was filled under), and they agree on whether `pos` is remembered as
    lying inside a failed opener -/
theorem run_cache_indep (v : Variant) (hr : v.ranged = true) (hck : v.checked = true) (m : Char)
    (hm1 : m.utf8Size = 1) (src : List Char) (pos posMax : Nat) (prev silent : Bool) (c d : Cache)
    (hc : CacheInv m src c) (hd : CacheInv m src d)
    (hcc : posMax = c.scannedTo ∨ NoCut m src posMax) (hcd : posMax = d.scannedTo ∨ NoCut m src posMax)
    (hin : c.insideFailed.contains pos = d.insideFailed.contains pos) :
    (run v m src pos posMax prev silent c).map Prod.fst =
      (run v m src pos posMax prev silent d).map Prod.fst := by
  rw [cache_transparent v hr hck m hm1 src pos posMax prev silent c hc hcc,
    cache_transparent v hr hck m hm1 src pos posMax prev silent d hd hcd]
  cases hu : slice src pos posMax with
  | none => simp [run, hu]
  | some u =>
    cases u with
    | nil => simp [run, hu]
    | cons ch rest =>
      by_cases hch : ch = m
      · subst hch
        obtain ⟨x, T, Z, _, hT, _, _, f⟩ := run_frame hm1 hu
        rw [run_marker v ch prev silent _ hu, run_marker v ch prev silent _ hu]
        have hnc : ∀ e : Cache, consultable v pos posMax { e with scanned := false } = false := by
          intro e; simp [consultable]
        simp only [hnc, Bool.false_eq_true, if_false, hin]
        split
        · rfl
        · split
          · rfl
          · exact scan_verdict_indep v ch hm1 src pos _ posMax (1 + runLen ch rest) silent _ Z T [] _ _ _ f
      · rw [run_other v m prev silent _ hu hch, run_other v m prev silent _ hu hch]; rfl

/-- `insideFailed` only grows -/
theorem run_inside_mono (v : Variant) (m : Char) (hm1 : m.utf8Size = 1) (src : List Char)
    (pos posMax : Nat) (prev silent : Bool) (c : Cache) (r : Option Outcome) (c' : Cache)
    (h : run v m src pos posMax prev silent c = .ok (r, c')) :
    ∀ q ∈ c.insideFailed, q ∈ c'.insideFailed := by
  have hmark : ∀ (a b : Nat) (e : Cache), ∀ q ∈ e.insideFailed, q ∈ (markInside v a b e).insideFailed := by
    intro a b e q hq
    unfold markInside
    split
    · simp [hq]
    · exact hq
  cases run_path h with
  | other _ _ _ _ _ hc => subst hc; exact fun q hq => hq
  | prevGuard _ _ _ _ _ hc => subst hc; exact fun q hq => hq
  | inside _ _ _ _ _ hc => subst hc; exact fun q hq => hq
  | consult rest _ hu _ _ _ _ hr hc => subst hc; exact hmark _ _ _
  | scanned rest hu _ hs =>
    obtain ⟨x, T, Z, _, hT, hx, hsrc, f⟩ := run_frame hm1 hu
    cases r with
    | some o =>
      obtain ⟨_, _, _, _, _, _, hc', _⟩ :=
        scan_some v m hm1 src pos _ posMax _ silent _ Z T [] _ c o c' f hT hs
      rw [hc']; exact fun q hq => hq
    | none =>
      obtain ⟨mx, hc', _, _⟩ := scan_none v m hm1 src pos _ posMax _ silent _ Z T [] _ c c' f hT hs
      intro q hq
      rw [hc', insideFailed_done]
      exact hmark _ _ _ q hq

end MdIt.CodePair

/-! ## the code-span rule of the inline parser -/

namespace MdIt.Inline
open MdIt.InlineOps (Srcmap getSourcePosFor getMap byteLen slice)
open MdIt.C05 (WFMap byteLen_append slice_ok_iff)

/-- the invariant of the code-span cache: the closer table is sound, and every remembered position lies
    strictly inside a run of backticks -/
def BInv (src : List Char) (c : CodePair.Cache) : Prop :=
  CodePair.CacheInv '`' src c ∧ CodePair.InsideInv '`' src c

theorem BInv.empty (src : List Char) : BInv src CodePair.Cache.empty :=
  ⟨CodePair.CacheInv.empty _ _, CodePair.InsideInv.empty _ _⟩

/-- the cache a call of `ruleBackticks` leaves is the cache `CodePair.run` leaves -/
theorem ruleBackticks_run {st : IState} {silent : Bool} {o : Option Nat} {st' : IState}
    (h : ruleBackticks st silent = .ok (o, st')) :
    st'.src = st.src ∧ ∃ oc, CodePair.run CodePair.Variant.current '`' st.src st.pos st.posMax false
      silent st.backticks = .ok (oc, st'.backticks) ∧ o = oc.map (·.len) := by
  unfold ruleBackticks at h
  split at h
  · simp at h
  · next c hrun =>
    simp only [Except.ok.injEq, Prod.mk.injEq] at h
    obtain ⟨rfl, rfl⟩ := h
    exact ⟨rfl, none, hrun, rfl⟩
  · next oc c hrun =>
    split at h
    · simp only [Except.ok.injEq, Prod.mk.injEq] at h
      obtain ⟨rfl, rfl⟩ := h
      exact ⟨rfl, some oc, hrun, rfl⟩
    · split at h
      · simp at h
      · split at h
        · simp at h
        · simp only [Except.ok.injEq, Prod.mk.injEq] at h
          obtain ⟨rfl, rfl⟩ := h
          exact ⟨rfl, some oc, hrun, rfl⟩

/-- **`BInv` is kept by the code-span rule, both modes, every state** -/
theorem backOK_BInv : BackOK BInv := by
  intro st silent o st' h hb
  obtain ⟨hsrc, oc, hrun, _⟩ := ruleBackticks_run h
  rw [hsrc]
  exact ⟨CodePair.cacheInv_run _ rfl rfl '`' backtick_size _ _ _ _ _ _ _ _ hb.1 hrun,
    (CodePair.insideInv_run _ '`' backtick_size _ _ _ _ _ _ _ _ hb.2 hrun).1⟩

/-- `insideFailed` only grows -/
theorem ruleBackticks_inside_mono {st : IState} {silent : Bool} {o : Option Nat} {st' : IState}
    (h : ruleBackticks st silent = .ok (o, st')) :
    ∀ q ∈ st.backticks.insideFailed, q ∈ st'.backticks.insideFailed := by
  obtain ⟨_, oc, hrun, _⟩ := ruleBackticks_run h
  exact CodePair.run_inside_mono _ '`' backtick_size _ _ _ _ _ _ _ _ hrun

/-- the look-ahead verdict of the code-span rule as a function of `(src, pos, posMax, cache)` -/
def backV (src : List Char) (pos posMax : Nat) (c : CodePair.Cache) :
    Except CodePair.Panic (Option Nat) :=
  (CodePair.run CodePair.Variant.current '`' src pos posMax false true c).map
    (fun r => r.1.map (·.len))

theorem ruleBackticks_silent_V (st : IState) (o : Option Nat) :
    (∃ s1, ruleBackticks st true = .ok (o, s1)) ↔
      backV st.src st.pos st.posMax st.backticks = .ok o := by
  unfold backV
  constructor
  · rintro ⟨s1, h⟩
    obtain ⟨_, oc, hrun, ho⟩ := ruleBackticks_run h
    rw [hrun, ho]; rfl
  · intro h
    cases hrun : CodePair.run CodePair.Variant.current '`' st.src st.pos st.posMax false true
        st.backticks with
    | error e => rw [hrun] at h; simp [Except.map] at h
    | ok r =>
      obtain ⟨oc, c⟩ := r
      rw [hrun] at h
      simp only [Except.map, Except.ok.injEq] at h
      unfold ruleBackticks
      rw [hrun]
      cases oc with
      | none => simp only [Option.map_none] at h; exact ⟨_, by rw [← h]⟩
      | some o1 =>
        have hn := run_silent_node _ _ _ _ _ _ _ _ _ hrun
        simp only [hn]
        simp only [Option.map_some] at h
        exact ⟨_, by rw [← h]⟩

theorem backV_some_iff (src : List Char) (pos posMax : Nat) (c : CodePair.Cache) (n : Nat) :
    backV src pos posMax c = .ok (some n) ↔
      ∃ c', CodePair.run CodePair.Variant.current '`' src pos posMax false true c
        = .ok (some ⟨n, none⟩, c') := by
  unfold backV
  constructor
  · intro h
    cases hrun : CodePair.run CodePair.Variant.current '`' src pos posMax false true c with
    | error e => rw [hrun] at h; simp [Except.map] at h
    | ok r =>
      obtain ⟨oc, c'⟩ := r
      rw [hrun] at h
      simp only [Except.map, Except.ok.injEq] at h
      cases oc with
      | none => simp at h
      | some o1 =>
        have hn := run_silent_node _ _ _ _ _ _ _ _ _ hrun
        simp only [Option.map_some, Option.some.injEq] at h
        obtain ⟨len, node⟩ := o1
        simp only at hn h
        subst hn h
        exact ⟨c', rfl⟩
  · rintro ⟨c', h⟩
    rw [h]; rfl

/-- `pos_max = M'` cuts no run of backticks: the character there is `]`, or `M'` is the outer `pos_max` -/
theorem WinHyp.noCut {st : IState} {M' : Nat} (h : WinHyp st M')
    (hnc : CodePair.NoCut '`' st.src st.posMax) : CodePair.NoCut '`' st.src M' := by
  rcases h.cut with e | ⟨r, hr⟩
  · rw [e]; exact hnc
  · rintro ⟨_, _, hc⟩
    obtain ⟨p, q, e, l1, _⟩ := (slice_ok_iff _ _ _ _).mp hr
    have hat : CodePair.charAt st.src M' = some ']' := by
      have := CodePair.charAt_append_add p (']' :: r ++ q) 0
      rw [CodePair.charAt_zero, codeByteLen_eq, l1] at this
      rw [e, List.append_assoc]
      simpa using this
    rw [hat] at hc
    exact absurd hc (by decide)

/-- window independence of the code-span verdict, on one cache -/
theorem backV_window {st : IState} {M' : Nat} (h : WinHyp st M') {c : CodePair.Cache}
    (hinv : CodePair.CacheInv '`' st.src c) (hnc : CodePair.NoCut '`' st.src st.posMax) (n : Nat) :
    (backV st.src st.pos st.posMax c = .ok (some n) ∧ st.pos + n ≤ M') ↔
      backV st.src st.pos M' c = .ok (some n) := by
  rw [backV_some_iff, backV_some_iff]
  obtain ⟨_, w', _, _, _, hw'len, hsl'⟩ := slice_of_boundaries h.bpos h.bcut (Nat.le_of_lt h.lt)
  obtain ⟨_, S, _, _, _, hSlen, hslS⟩ := slice_of_boundaries h.bcut h.bmax h.le
  have hne : w' ≠ [] := by
    intro e; subst e; have := h.lt; simp only [byteLen] at hw'len; omega
  have hS : S.head? ≠ some '`' := by
    rcases h.cut with e | ⟨r, hr⟩
    · have : S = [] := byteLen_eq_zero (by omega)
      subst this; simp
    · rw [hslS] at hr
      simp only [Except.ok.injEq] at hr
      subst hr; simp
  exact CodePair.run_window CodePair.Variant.current rfl rfl '`' backtick_size st.src st.pos st.posMax M'
    false c hinv (.inr hnc) (.inr (h.noCut hnc)) ((codeSlice_eq _ _ _ _).mpr hsl') hne
    ((codeSlice_eq _ _ _ _).mpr hslS) hS ⟨n, none⟩

/-- the code-span verdict on two caches that agree on `insideFailed.contains pos` -/
theorem backV_cache_indep {src : List Char} {pos posMax : Nat} {c d : CodePair.Cache}
    (hc : CodePair.CacheInv '`' src c) (hd : CodePair.CacheInv '`' src d)
    (hnc : CodePair.NoCut '`' src posMax)
    (hin : c.insideFailed.contains pos = d.insideFailed.contains pos) :
    backV src pos posMax c = backV src pos posMax d := by
  have := CodePair.run_cache_indep CodePair.Variant.current rfl rfl '`' backtick_size src pos posMax
    false true c d hc hd (.inr hnc) (.inr hnc) hin
  unfold backV
  cases h1 : CodePair.run CodePair.Variant.current '`' src pos posMax false true c with
  | error e1 =>
    cases h2 : CodePair.run CodePair.Variant.current '`' src pos posMax false true d with
    | error e2 => rw [h1, h2] at this; simp only [Except.map, Except.error.injEq] at this ⊢; exact this
    | ok r2 => rw [h1, h2] at this; simp [Except.map] at this
  | ok r1 =>
    cases h2 : CodePair.run CodePair.Variant.current '`' src pos posMax false true d with
    | error e2 => rw [h1, h2] at this; simp [Except.map] at this
    | ok r2 =>
      rw [h1, h2] at this
      simp only [Except.map, Except.ok.injEq] at this ⊢
      rw [this]

/-- **L2 for the code-span rule**: look-ahead verdict at the witness state `st0` (cache
    `st0.backticks`, the top `pos_max`, which cuts no run of backticks) against the REAL verdict at `s`
    (cache `s.backticks`, `s.posMax ≤ st0.posMax` with `]` there), both caches satisfying `BInv`.
    `hins`: the two caches agree on whether the position is remembered as lying inside a failed opener
    (automatic off the interior of a run of backticks: `inside_agree_of_not_interior`; needed inside one:
    `back_L2_needs_inside`). -/
theorem back_L2 {st0 s : IState} (h : WinHyp st0 s.posMax) (hsrc : s.src = st0.src)
    (hpos : s.pos = st0.pos) (hb0 : BInv st0.src st0.backticks) (hb1 : BInv s.src s.backticks)
    (hnc : CodePair.NoCut '`' st0.src st0.posMax)
    (hins : st0.backticks.insideFailed.contains st0.pos = s.backticks.insideFailed.contains s.pos) :
    ∀ o0 st0' o s', ruleBackticks st0 true = .ok (o0, st0') → ruleBackticks s false = .ok (o, s') →
      (o0 = none → o = none) ∧ (∀ n, o0 = some n → st0.pos + n ≤ s.posMax → o = some n) := by
  intro o0 st0' o s' h0 h1
  have hv0 := (ruleBackticks_silent_V st0 o0).mp ⟨st0', h0⟩
  have hv1 := (ruleBackticks_silent_V s o).mp (ruleBackticks_real_silent h1)
  rw [hsrc, hpos] at hv1
  rw [hsrc] at hb1
  rw [hpos] at hins
  -- the verdict at `s` is the verdict of the witness cache under the small `pos_max`
  have hv2 : backV st0.src st0.pos s.posMax st0.backticks = .ok o := by
    rw [backV_cache_indep hb0.1 hb1.1 (h.noCut hnc) hins]; exact hv1
  cases o with
  | none =>
    refine ⟨fun _ => rfl, ?_⟩
    intro n hn hle
    subst hn
    have := (backV_window h hb0.1 hnc n).mp ⟨hv0, hle⟩
    rw [hv2] at this
    simp at this
  | some m =>
    obtain ⟨hm, _⟩ := (backV_window h hb0.1 hnc m).mpr hv2
    rw [hv0] at hm
    simp only [Except.ok.injEq] at hm
    subst hm
    exact ⟨fun h => by simp at h, fun n hn _ => hn⟩

/-- a remembered position: the rule declines, whatever the mode -/
theorem ruleBackticks_inside_declines {s : IState} {silent : Bool} {o : Option Nat} {s' : IState}
    (hmem : s.backticks.insideFailed.contains s.pos = true)
    (h : ruleBackticks s silent = .ok (o, s')) : o = none := by
  obtain ⟨_, oc, hrun, ho⟩ := ruleBackticks_run h
  have := (CodePair.inside_hit _ rfl '`' _ _ _ _ _ _ _ _ hmem hrun).1
  rw [ho, this]; rfl

/-- **the `None` half of `back_L2` needs only that `insideFailed` grew** from the witness cache to the
    later one (`ruleBackticks_inside_mono`): a look-ahead `None` at `st0` is a real `None` at `s` -/
theorem back_L2_none {st0 s : IState} (h : WinHyp st0 s.posMax) (hsrc : s.src = st0.src)
    (hpos : s.pos = st0.pos) (hb0 : BInv st0.src st0.backticks) (hb1 : BInv s.src s.backticks)
    (hnc : CodePair.NoCut '`' st0.src st0.posMax)
    (hsub : st0.backticks.insideFailed.contains st0.pos = true →
      s.backticks.insideFailed.contains s.pos = true) :
    ∀ st0' o s', ruleBackticks st0 true = .ok (none, st0') → ruleBackticks s false = .ok (o, s') →
      o = none := by
  intro st0' o s' h0 h1
  cases hc : s.backticks.insideFailed.contains s.pos with
  | true => exact ruleBackticks_inside_declines hc h1
  | false =>
    have hins : st0.backticks.insideFailed.contains st0.pos = s.backticks.insideFailed.contains s.pos := by
      cases hc0 : st0.backticks.insideFailed.contains st0.pos with
      | true => rw [hsub hc0] at hc; cases hc
      | false => rw [hc]
    exact (back_L2 h hsrc hpos hb0 hb1 hnc hins none st0' o s' h0 h1).1 rfl

/-- the same through `runRule` (the shape of `flat_L2`) -/
theorem back_L2_runRule {cfg : Cfg} {skip tok skip' tok' : IState → Except Panic IState}
    {fuel fuel' : Nat} {st0 s : IState} (h : WinHyp st0 s.posMax) (hsrc : s.src = st0.src)
    (hpos : s.pos = st0.pos) (hb0 : BInv st0.src st0.backticks) (hb1 : BInv s.src s.backticks)
    (hnc : CodePair.NoCut '`' st0.src st0.posMax)
    (hins : st0.backticks.insideFailed.contains st0.pos = s.backticks.insideFailed.contains s.pos) :
    ∀ o0 st0' o s', runRule cfg skip tok fuel .backticks st0 true = .ok (o0, st0') →
      runRule cfg skip' tok' fuel' .backticks s false = .ok (o, s') →
      (o0 = none → o = none) ∧ (∀ n, o0 = some n → st0.pos + n ≤ s.posMax → o = some n) := by
  intro o0 st0' o s' h0 h1
  unfold runRule at h0 h1
  exact back_L2 h hsrc hpos hb0 hb1 hnc hins o0 st0' o s' (liftR_ok.mp h0) (liftR_ok.mp h1)

/-- `hins` holds, both sides `false`, at every position that is not strictly inside a run of backticks
    (no backtick before it, or none at it) -/
theorem inside_agree_of_not_interior {src : List Char} {pos : Nat} {c d : CodePair.Cache}
    (hc : BInv src c) (hd : BInv src d)
    (hni : ¬ (0 < pos ∧ CodePair.charAt src (pos - 1) = some '`' ∧ CodePair.charAt src pos = some '`')) :
    c.insideFailed.contains pos = d.insideFailed.contains pos := by
  have key : ∀ e : CodePair.Cache, BInv src e → e.insideFailed.contains pos = false := by
    intro e he
    cases hcon : e.insideFailed.contains pos with
    | false => rfl
    | true =>
      exfalso
      exact hni (he.2 pos (by simpa using hcon))
  rw [key c hc, key d hd]

/-! ### no invariant of `(src, cache)` alone can do without `hins` -/

/-- **negation witness**: text ``` ``a` ```.  The empty cache `c0` and the cache `c1` left by a (failed)
    look-ahead call at position 0 both satisfy every invariant that holds for the empty cache and is kept
    by the rule; at position 1 (strictly inside the run of two backticks) `c0` answers `Some(3)` (opener
    `` ` `` at 1, closer at 3) and `c1` answers `None` (position 1 is remembered as lying inside the failed
    opener at 0).  The verdict at an interior position depends on whether the run's start was tried before
    WITH THE SAME CACHE — a fact about the history of the run, not about `(src, cache)`. -/
theorem back_L2_needs_inside :
    let src := ['`', '`', 'a', '`']
    let st0 := exState src 0 4
    ∃ c1, (∃ o, (ruleBackticks st0 true).map (fun r => (r.1, r.2.backticks)) = .ok (o, c1)) ∧
      verdictOf (ruleBackticks (exState src 1 4) true) = some (some 3) ∧
      verdictOf (ruleBackticks { exState src 1 4 with backticks := c1 } true) = some none := by
  refine ⟨⟨true, 0, 4, [0, 3], [1]⟩, ⟨none, by decide +kernel⟩, by decide +kernel, by decide +kernel⟩

end MdIt.Inline
