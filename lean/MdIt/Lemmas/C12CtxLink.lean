/-
  C12 "context agreement", link contexts: what the link scanners (`Link.angleLoop`, `Link.titleLoop`,
  `Link.parseInlineTail`, `Block.refParse`) make of a valid character reference / backslash escape
  `R` (`Entity.Denotes lookup R X`) placed in

    (b) an inline destination   `(</R>)`
    (c) an inline title         `(/u "R")`
    (d) a definition line       `[k]: </R> "R"`

  In all three the scanners run over `R` as a unit (the escapes `\<`, `\>`, `\"`, `\\` go through the
  scanners' own backslash case) and `unescape_all` of the raw slice is `X` resp. `/X`.
-/
import MdIt.Props.C12Doc

namespace MdIt.Link.C12X
open MdIt.Entity (Denotes)

variable {lookup : List Char → Option (List Char)} {R X : List Char}

/-! ## the characters of a reference -/

/-- the characters a character reference is made of -/
def entCh (c : Char) : Bool := Entity.isAlnum c || c == '&' || c == '#' || c == ';'

theorem isAlnum_lt {c : Char} (h : Entity.isAlnum c = true) : c.toNat < 128 := by
  simp [Entity.isAlnum, Entity.isAlpha, Entity.isDigit] at h
  omega

theorem entCh_cases {c : Char} (h : entCh c = true) :
    Entity.isAlnum c = true ∨ c = '&' ∨ c = '#' ∨ c = ';' := by
  simpa [entCh, or_assoc] using h

theorem entCh_clen {c : Char} (h : entCh c = true) : Link.clen c = 1 := by
  rcases entCh_cases h with h | rfl | rfl | rfl
  · have := isAlnum_lt h
    simp [Link.clen, this]
  · decide
  · decide
  · decide

theorem entCh_ne {c : Char} (h : entCh c = true) (d : Char) (hd : entCh d = false) : c ≠ d := by
  intro he; subst he; rw [h] at hd; cases hd

/-- `R` is a run of reference characters, or one escape -/
theorem denotes_shape (h : Denotes lookup R X) :
    (∀ c ∈ R, entCh c = true) ∨ ∃ c, c ∈ Entity.escapable ∧ R = ['\\', c] := by
  cases h with
  | named n cs hn hl =>
    obtain ⟨c, t, rfl, hc, ht, _, _⟩ := Entity.namedSyntax_parts n hn
    left
    intro x hx
    simp only [List.cons_append, List.mem_cons, List.mem_append, List.not_mem_nil, or_false] at hx
    rcases hx with rfl | rfl | hx | rfl
    · decide
    · simp [entCh, Entity.isAlnum, hc]
    · simp [entCh, ht x hx]
    · decide
  | numeric cap hcap =>
    obtain ⟨ha, _, _⟩ := Entity.numericBody_alnum cap hcap
    left
    intro x hx
    simp only [List.mem_cons, List.mem_append, List.not_mem_nil, or_false] at hx
    rcases hx with rfl | rfl | hx | rfl
    · decide
    · decide
    · simp [entCh, ha x hx]
    · decide
  | escape c hc => exact .inr ⟨c, hc, rfl⟩

theorem escapable_clen {c : Char} (h : c ∈ Entity.escapable) : Link.clen c = 1 := by
  revert c; decide

theorem escapable_ne_nl {c : Char} (h : c ∈ Entity.escapable) : c ≠ '\n' := by
  intro he; subst he; revert h; decide

theorem denotes_clen (h : Denotes lookup R X) : ∀ c ∈ R, Link.clen c = 1 := by
  rcases denotes_shape h with hR | ⟨c, hc, rfl⟩
  · exact fun c hc => entCh_clen (hR c hc)
  · intro x hx
    simp only [List.mem_cons, List.not_mem_nil, or_false] at hx
    rcases hx with rfl | rfl
    · decide
    · exact escapable_clen hc

theorem byteLen_of_clen (L : List Char) (h : ∀ c ∈ L, Link.clen c = 1) : Link.byteLen L = L.length := by
  induction L with
  | nil => rfl
  | cons c r ih =>
    simp only [Link.byteLen, List.length_cons, h c (by simp), ih (fun x hx => h x (by simp [hx]))]
    omega

theorem denotes_byteLen (h : Denotes lookup R X) : Link.byteLen R = R.length :=
  byteLen_of_clen R (denotes_clen h)

/-! ## `unescape_all` -/

theorem denotes_head (h : Denotes lookup R X) : ∃ c0 R', R = c0 :: R' ∧ (c0 = '&' ∨ c0 = '\\') := by
  cases h with
  | named n cs hn hl => exact ⟨_, _, rfl, .inl rfl⟩
  | numeric cap hcap => exact ⟨_, _, rfl, .inl rfl⟩
  | escape c hc => exact ⟨_, _, rfl, .inr rfl⟩

theorem unescapeAll_denotes (h : Denotes lookup R X) (hno : ∀ s, lookup ('&' :: '#' :: s) = none) :
    Entity.unescapeAll lookup R = X := by
  obtain ⟨c0, R', hR, hc0⟩ := denotes_head h
  have hcont : (!R.contains '\\' && !R.contains '&') = false := by
    rcases hc0 with rfl | rfl <;> simp [hR]
  have := h.unescape hno []
  rw [List.append_nil, Entity.unescapeScan_nil, List.append_nil] at this
  unfold Entity.unescapeAll
  rw [hcont]
  simpa using this

theorem unescapeAll_slash_denotes (h : Denotes lookup R X) (hno : ∀ s, lookup ('&' :: '#' :: s) = none) :
    Entity.unescapeAll lookup ('/' :: R) = '/' :: X := by
  obtain ⟨c0, R', hR, hc0⟩ := denotes_head h
  have hcont : (!('/' :: R).contains '\\' && !('/' :: R).contains '&') = false := by
    rcases hc0 with rfl | rfl <;> simp [hR]
  have hnm : Entity.matchUnescapeAllRe ('/' :: R) = none := by
    simp [Entity.matchUnescapeAllRe, Entity.matchEscapeRe, Entity.matchEntityRe]
  have := h.unescape hno []
  rw [List.append_nil, Entity.unescapeScan_nil, List.append_nil] at this
  unfold Entity.unescapeAll
  rw [hcont]
  simp only [Bool.false_eq_true, if_false]
  rw [Entity.unescapeScan_nomatch _ _ _ hnm, this]

/-! ## `validate_link` -/

theorem utf8_slash (Y : List Char) : Link.utf8 ('/' :: Y) = 47 :: Link.utf8 Y := by
  simp [Link.utf8, Link.utf8Char]

theorem normalize_slash (bs : List Nat) : ∃ t, Link.normalizeLink (47 :: bs) = 47 :: t := by
  unfold Link.normalizeLink
  rw [Url.encodeL_keep_plain _ _ _ (by omega)]
  have : Url.encByte Link.linkSafe 47 = [47] := by decide +kernel
  rw [this]
  exact ⟨_, rfl⟩

/-- a url that starts with `/` is never rejected -/
theorem validate_slash (Y : List Char) :
    Link.validateLink (Link.normalizeLink (Link.utf8 ('/' :: Y))) = true := by
  rw [utf8_slash]
  obtain ⟨t, ht⟩ := normalize_slash (Link.utf8 Y)
  rw [ht]
  simp [Link.validateLink, Link.badProto, Link.startsCI, Link.sVbscript, Link.sJavascript, Link.sFile,
    Link.sData, Link.lower]

/-! ## the scanners run over `R` -/

theorem angleLoop_plain (c : Char) (cs : List Char) (pos : Nat) (h1 : c ≠ '\n') (h2 : c ≠ '<')
    (h3 : c ≠ '>') (h4 : c ≠ '\\') :
    Link.angleLoop (c :: cs) pos = Link.angleLoop cs (pos + Link.clen c) := by
  conv => lhs; rw [Link.angleLoop.eq_def]
  simp [h1, h2, h3, h4]

theorem angleLoop_esc (x : Char) (cs : List Char) (pos : Nat) (h1 : x ≠ '\n') :
    Link.angleLoop ('\\' :: x :: cs) pos = Link.angleLoop cs (pos + 1 + Link.clen x) := by
  rw [Link.angleLoop]; simp [h1]

theorem titleLoop_plain (c : Char) (cs : List Char) (pos lines : Nat) (h1 : c ≠ '\n')
    (h2 : c ≠ '"') (h4 : c ≠ '\\') :
    Link.titleLoop '"' (c :: cs) pos lines = Link.titleLoop '"' cs (pos + Link.clen c) lines := by
  conv => lhs; rw [Link.titleLoop.eq_def]
  simp [h1, h2, h4]

theorem titleLoop_esc (x : Char) (cs : List Char) (pos lines : Nat) (h1 : x ≠ '\n') :
    Link.titleLoop '"' ('\\' :: x :: cs) pos lines =
      Link.titleLoop '"' cs (pos + 1 + Link.clen x) lines := by
  rw [Link.titleLoop]; simp [h1]

theorem angleLoop_run (L rest : List Char) (pos : Nat) (h : ∀ c ∈ L, entCh c = true) :
    Link.angleLoop (L ++ rest) pos = Link.angleLoop rest (pos + L.length) := by
  induction L generalizing pos with
  | nil => rfl
  | cons c r ih =>
    have hc := h c (by simp)
    rw [List.cons_append, angleLoop_plain c _ pos (entCh_ne hc _ (by decide))
      (entCh_ne hc _ (by decide)) (entCh_ne hc _ (by decide)) (entCh_ne hc _ (by decide)),
      ih _ (fun x hx => h x (by simp [hx])), entCh_clen hc, List.length_cons]
    congr 1; omega

theorem angleLoop_skip (h : Denotes lookup R X) (rest : List Char) (pos : Nat) :
    Link.angleLoop (R ++ rest) pos = Link.angleLoop rest (pos + R.length) := by
  rcases denotes_shape h with hR | ⟨c, hc, rfl⟩
  · exact angleLoop_run R rest pos hR
  · rw [List.cons_append, List.cons_append, List.nil_append,
      angleLoop_esc c rest pos (escapable_ne_nl hc), escapable_clen hc]
    rfl

theorem titleLoop_run (L rest : List Char) (pos lines : Nat) (h : ∀ c ∈ L, entCh c = true) :
    Link.titleLoop '"' (L ++ rest) pos lines = Link.titleLoop '"' rest (pos + L.length) lines := by
  induction L generalizing pos with
  | nil => rfl
  | cons c r ih =>
    have hc := h c (by simp)
    rw [List.cons_append, titleLoop_plain c _ pos lines (entCh_ne hc _ (by decide))
      (entCh_ne hc _ (by decide)) (entCh_ne hc _ (by decide)),
      ih _ (fun x hx => h x (by simp [hx])), entCh_clen hc, List.length_cons]
    congr 1; omega

theorem titleLoop_skip (h : Denotes lookup R X) (rest : List Char) (pos lines : Nat) :
    Link.titleLoop '"' (R ++ rest) pos lines = Link.titleLoop '"' rest (pos + R.length) lines := by
  rcases denotes_shape h with hR | ⟨c, hc, rfl⟩
  · exact titleLoop_run R rest pos lines hR
  · rw [List.cons_append, List.cons_append, List.nil_append,
      titleLoop_esc c rest pos lines (escapable_ne_nl hc), escapable_clen hc]
    rfl

/-! ## evaluation of the link parsers: helpers -/

theorem slice_at (src pre mid post : List Char) (a b : Nat) (hs : src = pre ++ (mid ++ post))
    (ha : Link.byteLen pre = a) (hb : b = a + Link.byteLen mid) : Link.slice src a b = .ok mid :=
  (Link.slice_ok_iff _ _ _ _).mpr ⟨pre, post, by rw [hs, List.append_assoc], ha, hb⟩

theorem bare_u (rest : List Char) (pos : Nat) :
    Link.bareLoop ('/' :: 'u' :: ' ' :: rest) pos 0 = some (pos + 2, 0) := by
  have h3 : Link.bareLoop (' ' :: rest) (pos + 1 + 1) 0 = some (pos + 2, 0) := by
    rw [Link.bareLoop.eq_def]; simp [Link.isBareStop]
  have h2 : Link.bareLoop ('u' :: ' ' :: rest) (pos + 1) 0 = some (pos + 2, 0) := by
    rw [Link.bareLoop.eq_def]; simp [Link.isBareStop, Link.clen, h3]
  rw [Link.bareLoop.eq_def]; simp [Link.isBareStop, Link.clen, h2]

theorem dest_u : Link.inlineDest (Entity.unescapeAll lookup) ['/', 'u'] = some [47, 117] := by
  have h1 : Entity.unescapeAll lookup ['/', 'u'] = ['/', 'u'] := by simp [Entity.unescapeAll]
  have h2 : Link.normalizeLink (Link.utf8 ['/', 'u']) = [47, 117] := by decide +kernel
  have h3 : Link.validateLink [47, 117] = true := by decide
  simp [Link.inlineDest, h1, h2, h3]

/-! generic evaluation lemmas: every slice is a hypothesis -/

theorem pld_bare (src cs raw : List Char) (start max pos : Nat)
    (h1 : Link.slice src start max = .ok ('/' :: cs))
    (h2 : Link.bareLoop ('/' :: cs) start 0 = some (pos, 0)) (h3 : Link.slice src start pos = .ok raw) :
    Link.parseLinkDestination src start max = .ok (some ⟨pos, 0, raw⟩) := by
  unfold Link.parseLinkDestination
  rw [h1]
  simp [h2, h3]

theorem pld_angle (src rest raw : List Char) (start max pos : Nat)
    (h1 : Link.slice src start max = .ok ('<' :: rest))
    (h2 : Link.angleLoop rest (start + 1) = some pos)
    (h3 : Link.slice src (start + 1) pos = .ok raw) :
    Link.parseLinkDestination src start max = .ok (some ⟨pos + 1, 0, raw⟩) := by
  unfold Link.parseLinkDestination
  rw [h1]
  simp only [h2, h3]

theorem plt_ok (src rest raw : List Char) (start max pos lines : Nat)
    (h1 : Link.slice src start max = .ok ('"' :: rest))
    (h2 : Link.titleLoop '"' rest (start + 1) 0 = some (pos, lines))
    (h3 : Link.slice src (start + 1) pos = .ok raw) :
    Link.parseLinkTitle src start max = .ok (some ⟨pos + 1, lines, raw⟩) := by
  unfold Link.parseLinkTitle
  rw [h1]
  have hm : Link.titleMarker '"' = some '"' := by decide
  simp only [hm, h2, h3]

theorem plt_none (src rest : List Char) (c : Char) (start max : Nat)
    (h1 : Link.slice src start max = .ok (c :: rest)) (h2 : Link.titleMarker c = none) :
    Link.parseLinkTitle src start max = .ok none := by
  unfold Link.parseLinkTitle
  rw [h1]
  simp only [h2]

theorem itp_title (dec : List Char → List Char) (src chars chars' raw : List Char)
    (href : Option (List Nat)) (max pos p1 p2 p3 l : Nat)
    (h1 : Link.slice src pos max = .ok chars) (h2 : Link.skipWs chars pos = p1)
    (h3 : Link.parseLinkTitle src p1 max = .ok (some ⟨p2, l, raw⟩))
    (h4 : Link.slice src p2 max = .ok chars') (h5 : Link.skipWs chars' p2 = p3) :
    Link.inlineTitlePart dec src max href pos = .ok (href, some (dec raw), p3) := by
  unfold Link.inlineTitlePart
  rw [h1]
  simp only [h2, h3, h4, h5]

theorem itp_none (dec : List Char → List Char) (src chars : List Char)
    (href : Option (List Nat)) (max pos p1 : Nat)
    (h1 : Link.slice src pos max = .ok chars) (h2 : Link.skipWs chars pos = p1)
    (h3 : Link.parseLinkTitle src p1 max = .ok none) :
    Link.inlineTitlePart dec src max href pos = .ok (href, none, p1) := by
  unfold Link.inlineTitlePart
  rw [h1]
  simp only [h2, h3]

theorem pit_ok (dec : List Char → List Char) (src rest tl : List Char) (res : Link.Frag)
    (href : Option (List Nat)) (title : Option (List Char)) (pos max p1 p2 : Nat)
    (h0 : Link.slice src pos max = .ok ('(' :: rest)) (h1 : Link.skipWs rest (pos + 1) = p1)
    (h2 : Link.parseLinkDestination src p1 max = .ok (some res))
    (h3 : Link.inlineAfterDest dec src p1 max res = .ok (href, title, p2))
    (h4 : Link.slice src p2 max = .ok (')' :: tl)) :
    Link.parseInlineTail dec src pos max = .ok (some ⟨href, title, p2 + 1⟩) := by
  unfold Link.parseInlineTail
  rw [h0]
  simp only [h1, h2, h3, h4]


/-! ## (c) the inline title -/

theorem skipWs_stop (c : Char) (cs : List Char) (pos : Nat) (h : Link.isWs c = false) :
    Link.skipWs (c :: cs) pos = pos := by
  simp [Link.skipWs, h]

/-- (c) inline link tail `(/u "R")` behind any prefix P (P = "[x]" in the use) -/
theorem parseInlineTail_title (h : Denotes lookup R X) (hno : ∀ s, lookup ('&' :: '#' :: s) = none)
    (P : List Char) :
    Link.parseInlineTail (Entity.unescapeAll lookup)
      (P ++ '(' :: '/' :: 'u' :: ' ' :: '"' :: (R ++ ['"', ')'])) (Link.byteLen P)
      (Link.byteLen (P ++ '(' :: '/' :: 'u' :: ' ' :: '"' :: (R ++ ['"', ')']))) =
    .ok (some ⟨some [47, 117], some X, Link.byteLen (P ++ '(' :: '/' :: 'u' :: ' ' :: '"' :: (R ++ ['"', ')']))⟩) := by
  have hR := denotes_byteLen h
  generalize hsrc : P ++ '(' :: '/' :: 'u' :: ' ' :: '"' :: (R ++ ['"', ')']) = src
  generalize hn : Link.byteLen P = n
  have hmax : Link.byteLen src = n + R.length + 6 + 1 := by
    rw [← hsrc]; simp [Link.byteLen_append, Link.byteLen, Link.clen, hR, hn]; omega
  rw [hmax]
  have hbl : ∀ (l : List Char) (k : Nat), Link.byteLen l = k → Link.byteLen (P ++ l) = n + k := by
    intro l k hk; rw [Link.byteLen_append, hn, hk]
  have S0 : Link.slice src n (n + R.length + 6 + 1) =
      .ok ('(' :: '/' :: 'u' :: ' ' :: '"' :: (R ++ ['"', ')'])) :=
    slice_at src P _ [] _ _ (by simp [← hsrc]) hn
      (by simp [Link.byteLen_append, Link.byteLen, Link.clen, hR]; omega)
  have S1 : Link.slice src (n + 1) (n + R.length + 6 + 1) =
      .ok ('/' :: 'u' :: ' ' :: '"' :: (R ++ ['"', ')'])) :=
    slice_at src (P ++ ['(']) _ [] _ _ (by simp [← hsrc]) (hbl ['('] 1 (by decide))
      (by simp [Link.byteLen_append, Link.byteLen, Link.clen, hR]; omega)
  have S2 : Link.slice src (n + 1) (n + 3) = .ok ['/', 'u'] :=
    slice_at src (P ++ ['(']) _ (' ' :: '"' :: (R ++ ['"', ')'])) _ _ (by simp [← hsrc])
      (hbl ['('] 1 (by decide)) (by simp [Link.byteLen, Link.clen])
  have S3 : Link.slice src (n + 3) (n + R.length + 6 + 1) = .ok (' ' :: '"' :: (R ++ ['"', ')'])) :=
    slice_at src (P ++ ['(', '/', 'u']) _ [] _ _ (by simp [← hsrc]) (hbl ['(', '/', 'u'] 3 (by decide))
      (by simp [Link.byteLen_append, Link.byteLen, Link.clen, hR]; omega)
  have S4 : Link.slice src (n + 4) (n + R.length + 6 + 1) = .ok ('"' :: (R ++ ['"', ')'])) :=
    slice_at src (P ++ ['(', '/', 'u', ' ']) _ [] _ _ (by simp [← hsrc])
      (hbl ['(', '/', 'u', ' '] 4 (by decide))
      (by simp [Link.byteLen_append, Link.byteLen, Link.clen, hR]; omega)
  have S5 : Link.slice src (n + 4 + 1) (n + R.length + 5) = .ok R :=
    slice_at src (P ++ ['(', '/', 'u', ' ', '"']) _ ['"', ')'] _ _ (by simp [← hsrc])
      (hbl ['(', '/', 'u', ' ', '"'] 5 (by decide)) (by rw [hR]; omega)
  have S6 : Link.slice src (n + R.length + 6) (n + R.length + 6 + 1) = .ok [')'] :=
    slice_at src (P ++ '(' :: '/' :: 'u' :: ' ' :: '"' :: (R ++ ['"'])) _ [] _ _ (by simp [← hsrc])
      (by simp [Link.byteLen_append, Link.byteLen, Link.clen, hR, hn]; omega)
      (by simp [Link.byteLen, Link.clen])
  have hT : Link.titleLoop '"' (R ++ ['"', ')']) (n + 4 + 1) 0 = some (n + R.length + 5, 0) := by
    rw [titleLoop_skip h, Link.titleLoop]
    simp; omega
  have hdest : Link.parseLinkDestination src (n + 1) (n + R.length + 6 + 1) =
      .ok (some ⟨n + 3, 0, ['/', 'u']⟩) :=
    pld_bare src _ _ _ _ _ S1 (by rw [bare_u]) S2
  have htitle : Link.parseLinkTitle src (n + 4) (n + R.length + 6 + 1) =
      .ok (some ⟨n + R.length + 5 + 1, 0, R⟩) :=
    plt_ok src _ _ _ _ _ _ S4 hT S5
  have hafter : Link.inlineAfterDest (Entity.unescapeAll lookup) src (n + 1) (n + R.length + 6 + 1)
      ⟨n + 3, 0, ['/', 'u']⟩ = .ok (some [47, 117], some X, n + R.length + 6) := by
    unfold Link.inlineAfterDest
    simp only [dest_u]
    rw [← unescapeAll_denotes h hno]
    exact itp_title _ src _ _ R _ _ _ (n + 4) _ _ _ S3
      (by simp [Link.skipWs, Link.isWs]) htitle S6 (skipWs_stop _ _ _ (by decide))
  exact pit_ok _ src _ _ _ _ _ _ _ _ _ S0 (skipWs_stop _ _ _ (by decide)) hdest hafter S6

example : Link.parseInlineTail
    (Entity.unescapeAll (fun s => if s = ['&', 'a', 'm', 'p', ';'] then some ['&'] else none))
    ['[', 'x', ']', '(', '/', 'u', ' ', '"', '&', 'a', 'm', 'p', ';', '"', ')'] 3 15 =
    .ok (some ⟨some [47, 117], some ['&'], 15⟩) := by decide +kernel

example : Link.parseInlineTail (Entity.unescapeAll (fun _ => none))
    ['[', 'x', ']', '(', '/', 'u', ' ', '"', '\\', '"', '"', ')'] 3 12 =
    .ok (some ⟨some [47, 117], some ['"'], 12⟩) := by decide +kernel

/-! ## (b) the inline destination -/

theorem dest_slash (h : Denotes lookup R X) (hno : ∀ s, lookup ('&' :: '#' :: s) = none) :
    Link.inlineDest (Entity.unescapeAll lookup) ('/' :: R) =
      some (Link.normalizeLink (Link.utf8 ('/' :: X))) := by
  simp only [Link.inlineDest, unescapeAll_slash_denotes h hno, validate_slash, if_true]

/-- (b) inline link tail `(</R>)` -/
theorem parseInlineTail_dest (h : Denotes lookup R X) (hno : ∀ s, lookup ('&' :: '#' :: s) = none)
    (P : List Char) :
    Link.parseInlineTail (Entity.unescapeAll lookup)
      (P ++ '(' :: '<' :: '/' :: (R ++ ['>', ')'])) (Link.byteLen P)
      (Link.byteLen (P ++ '(' :: '<' :: '/' :: (R ++ ['>', ')']))) =
    .ok (some ⟨some (Link.normalizeLink (Link.utf8 ('/' :: X))), none,
      Link.byteLen (P ++ '(' :: '<' :: '/' :: (R ++ ['>', ')']))⟩) := by
  have hR := denotes_byteLen h
  generalize hsrc : P ++ '(' :: '<' :: '/' :: (R ++ ['>', ')']) = src
  generalize hn : Link.byteLen P = n
  have hmax : Link.byteLen src = n + R.length + 3 + 1 + 1 := by
    rw [← hsrc]; simp [Link.byteLen_append, Link.byteLen, Link.clen, hR, hn]; omega
  rw [hmax]
  have hbl : ∀ (l : List Char) (k : Nat), Link.byteLen l = k → Link.byteLen (P ++ l) = n + k := by
    intro l k hk; rw [Link.byteLen_append, hn, hk]
  have S0 : Link.slice src n (n + R.length + 3 + 1 + 1) = .ok ('(' :: '<' :: '/' :: (R ++ ['>', ')'])) :=
    slice_at src P _ [] _ _ (by simp [← hsrc]) hn
      (by simp [Link.byteLen_append, Link.byteLen, Link.clen, hR]; omega)
  have S1 : Link.slice src (n + 1) (n + R.length + 3 + 1 + 1) = .ok ('<' :: '/' :: (R ++ ['>', ')'])) :=
    slice_at src (P ++ ['(']) _ [] _ _ (by simp [← hsrc]) (hbl ['('] 1 (by decide))
      (by simp [Link.byteLen_append, Link.byteLen, Link.clen, hR]; omega)
  have S2 : Link.slice src (n + 1 + 1) (n + R.length + 3) = .ok ('/' :: R) :=
    slice_at src (P ++ ['(', '<']) _ ['>', ')'] _ _ (by simp [← hsrc]) (hbl ['(', '<'] 2 (by decide))
      (by simp [Link.byteLen, Link.clen, hR]; omega)
  have S6 : Link.slice src (n + R.length + 3 + 1) (n + R.length + 3 + 1 + 1) = .ok [')'] :=
    slice_at src (P ++ '(' :: '<' :: '/' :: (R ++ ['>'])) _ [] _ _ (by simp [← hsrc])
      (by simp [Link.byteLen_append, Link.byteLen, Link.clen, hR, hn]; omega)
      (by simp [Link.byteLen, Link.clen])
  have hA : Link.angleLoop ('/' :: (R ++ ['>', ')'])) (n + 1 + 1) = some (n + R.length + 3) := by
    rw [angleLoop_plain _ _ _ (by decide) (by decide) (by decide) (by decide), angleLoop_skip h,
      Link.angleLoop]
    simp [Link.clen]; omega
  have hdest : Link.parseLinkDestination src (n + 1) (n + R.length + 3 + 1 + 1) =
      .ok (some ⟨n + R.length + 3 + 1, 0, '/' :: R⟩) :=
    pld_angle src _ _ _ _ _ S1 hA S2
  have hnt : Link.parseLinkTitle src (n + R.length + 3 + 1) (n + R.length + 3 + 1 + 1) = .ok none :=
    plt_none src _ _ _ _ S6 (by decide)
  have hafter : Link.inlineAfterDest (Entity.unescapeAll lookup) src (n + 1) (n + R.length + 3 + 1 + 1)
      ⟨n + R.length + 3 + 1, 0, '/' :: R⟩ =
      .ok (some (Link.normalizeLink (Link.utf8 ('/' :: X))), none, n + R.length + 3 + 1) := by
    unfold Link.inlineAfterDest
    simp only [dest_slash h hno]
    exact itp_none _ src _ _ _ _ _ S6 (skipWs_stop _ _ _ (by decide)) hnt
  exact pit_ok _ src _ _ _ _ _ _ _ _ _ S0 (skipWs_stop _ _ _ (by decide)) hdest hafter S6

example : Link.parseInlineTail
    (Entity.unescapeAll (fun s => if s = ['&', 'a', 'm', 'p', ';'] then some ['&'] else none))
    ['[', 'x', ']', '(', '<', '/', '&', 'a', 'm', 'p', ';', '>', ')'] 3 13 =
    .ok (some ⟨some [47, 38], none, 13⟩) := by decide +kernel

example : Link.parseInlineTail (Entity.unescapeAll (fun _ => none))
    ['[', 'x', ']', '(', '<', '/', '\\', '>', '>', ')'] 3 10 =
    .ok (some ⟨some [47, 37, 51, 69], none, 10⟩) := by decide +kernel

/-! ## (d) the definition line -/

/-- (d) the definition line  [k]: </R> "R"  -/
def defLine (R : List Char) : List Char :=
  '[' :: 'k' :: ']' :: ':' :: ' ' :: '<' :: '/' :: (R ++ '>' :: ' ' :: '"' :: (R ++ ['"']))

theorem refParse_defLine (cfg : Block.Cfg) (h : Denotes cfg.lookup R X)
    (hno : ∀ s, cfg.lookup ('&' :: '#' :: s) = none) :
    Block.refParse cfg (defLine R) =
      .ok (some ([107], Link.normalizeLink (Link.utf8 ('/' :: X)), some (X.map Char.toNat), 0)) := by
  have hR := denotes_byteLen h
  generalize hs : defLine R = str
  have hstr : str = '[' :: 'k' :: ']' :: ':' :: ' ' :: '<' :: '/' :: (R ++ '>' :: ' ' :: '"' :: (R ++ ['"'])) :=
    hs.symm
  have hlen : Link.byteLen str = R.length + R.length + 11 := by
    simp [hstr, Link.byteLen_append, Link.byteLen, Link.clen, hR]; omega
  have hlabel : Block.labelScan false ('k' :: ']' :: ':' :: ' ' :: '<' :: '/' :: (R ++ '>' :: ' ' :: '"' :: (R ++ ['"'])))
      (Link.clen '[') 0 =
      some (2, 0, ':' :: ' ' :: '<' :: '/' :: (R ++ '>' :: ' ' :: '"' :: (R ++ ['"']))) := by
    simp [Block.labelScan, Link.clen]
  have hws1 : Block.wsScan (' ' :: '<' :: '/' :: (R ++ '>' :: ' ' :: '"' :: (R ++ ['"']))) (2 + 2) 0 =
      (5, 0) := by
    simp [Block.wsScan]
  -- the slices
  have S1 : Link.slice str 5 (R.length + R.length + 11) =
      .ok ('<' :: '/' :: (R ++ '>' :: ' ' :: '"' :: (R ++ ['"']))) :=
    slice_at str ['[', 'k', ']', ':', ' '] _ [] _ _ (by simp [hstr]) (by decide)
      (by simp [Link.byteLen_append, Link.byteLen, Link.clen, hR]; omega)
  have S2 : Link.slice str (5 + 1) (R.length + 7) = .ok ('/' :: R) :=
    slice_at str ['[', 'k', ']', ':', ' ', '<'] _ ('>' :: ' ' :: '"' :: (R ++ ['"'])) _ _
      (by simp [hstr]) (by decide) (by simp [Link.byteLen, Link.clen, hR]; omega)
  have S3 : Link.slice str (R.length + 7 + 1) (R.length + R.length + 11) =
      .ok (' ' :: '"' :: (R ++ ['"'])) :=
    slice_at str ('[' :: 'k' :: ']' :: ':' :: ' ' :: '<' :: '/' :: (R ++ ['>'])) _ [] _ _
      (by simp [hstr]) (by simp [Link.byteLen_append, Link.byteLen, Link.clen, hR]; omega)
      (by simp [Link.byteLen_append, Link.byteLen, Link.clen, hR]; omega)
  have S4 : Link.slice str (R.length + 9) (R.length + R.length + 11) = .ok ('"' :: (R ++ ['"'])) :=
    slice_at str ('[' :: 'k' :: ']' :: ':' :: ' ' :: '<' :: '/' :: (R ++ ['>', ' '])) _ [] _ _
      (by simp [hstr]) (by simp [Link.byteLen_append, Link.byteLen, Link.clen, hR]; omega)
      (by simp [Link.byteLen_append, Link.byteLen, Link.clen, hR]; omega)
  have S5 : Link.slice str (R.length + 9 + 1) (R.length + R.length + 10) = .ok R :=
    slice_at str ('[' :: 'k' :: ']' :: ':' :: ' ' :: '<' :: '/' :: (R ++ ['>', ' ', '"'])) _ ['"'] _ _
      (by simp [hstr]) (by simp [Link.byteLen_append, Link.byteLen, Link.clen, hR]; omega)
      (by rw [hR]; omega)
  have S6 : Link.slice str (R.length + R.length + 10 + 1) (R.length + R.length + 11) = .ok [] :=
    slice_at str str _ [] _ _ (by simp) (by rw [hlen]) (by simp [Link.byteLen])
  have S7 : Link.slice str 1 2 = .ok ['k'] :=
    slice_at str ['['] _ (']' :: ':' :: ' ' :: '<' :: '/' :: (R ++ '>' :: ' ' :: '"' :: (R ++ ['"']))) _ _
      (by simp [hstr]) (by decide) (by decide)
  have hA : Link.angleLoop ('/' :: (R ++ '>' :: ' ' :: '"' :: (R ++ ['"']))) (5 + 1) =
      some (R.length + 7) := by
    rw [angleLoop_plain _ _ _ (by decide) (by decide) (by decide) (by decide), angleLoop_skip h,
      Link.angleLoop]
    simp [Link.clen]; omega
  have hdest : Link.parseLinkDestination str 5 (R.length + R.length + 11) =
      .ok (some ⟨R.length + 7 + 1, 0, '/' :: R⟩) :=
    pld_angle str _ _ _ _ _ S1 hA S2
  have hT : Link.titleLoop '"' (R ++ ['"']) (R.length + 9 + 1) 0 = some (R.length + R.length + 10, 0) := by
    rw [titleLoop_skip h, Link.titleLoop]
    simp; omega
  have htitle : Link.parseLinkTitle str (R.length + 9) (R.length + R.length + 11) =
      .ok (some ⟨R.length + R.length + 10 + 1, 0, R⟩) :=
    plt_ok str _ _ _ _ _ _ S4 hT S5
  have hws2 : Block.wsScan (' ' :: '"' :: (R ++ ['"'])) (R.length + 7 + 1) 0 = (R.length + 9, 0) := by
    simp [Block.wsScan]
  have hrt : Block.refTitle cfg str (R.length + R.length + 11) (R.length + 7 + 1) (R.length + 9) 0
      (R.length + 7 + 1) 0 = .ok (some X, R.length + R.length + 10 + 1, 0) := by
    unfold Block.refTitle
    rw [if_pos (by omega), htitle]
    simp [Block.liftK, unescapeAll_denotes h hno, bind, Except.bind, pure, Except.pure]
  have htr : Block.refTrail str (R.length + R.length + 11) (some X) (R.length + R.length + 10 + 1) 0
      (R.length + 7 + 1) 0 = .ok (some (some X, 0)) := by
    unfold Block.refTrail
    rw [S6]
    simp [Block.liftK, Block.trailGo, bind, Except.bind, pure, Except.pure]
  unfold Block.refParse
  rw [hlen]
  simp only [hstr, List.tail_cons, hlabel, hws1]
  simp only [← hstr]
  simp only [hdest, Block.liftK, bind, Except.bind]
  rw [if_neg (by omega), unescapeAll_slash_denotes h hno, validate_slash]
  simp only [not_true_eq_false, if_false, S3, hws2, Nat.add_zero, hrt, htr, S7, pure, Except.pure,
    List.map_cons, List.map_nil, Option.map_some]
  rfl

theorem defLine_noTerm (h : Denotes lookup R X) : Lines.NoTerm (defLine R) := by
  have hR := h.noTerm
  intro c hc
  simp only [defLine, List.mem_cons, List.mem_append, List.not_mem_nil, or_false] at hc
  rcases hc with rfl | rfl | rfl | rfl | rfl | rfl | rfl | hc | rfl | rfl | rfl | hc | rfl
  all_goals first | exact hR c hc | exact ⟨by decide, by decide⟩

theorem defLine_quick (R : List Char) : Block.refQuick false (defLine R).tail = true := by
  simp [defLine, Block.refQuick]

theorem dropWhile_head {α : Type} (p : α → Bool) (c : α) (l : List α) (h : p c = false) :
    (c :: l).dropWhile p = c :: l := by
  simp [h]

theorem defLine_trim (R : List Char) : Block.trimStr (defLine R) = defLine R := by
  have h1 : Block.isWsChar '[' = false := by decide
  have h2 : Block.isWsChar '"' = false := by decide
  have hrev : (defLine R).reverse =
      '"' :: ('[' :: 'k' :: ']' :: ':' :: ' ' :: '<' :: '/' :: (R ++ '>' :: ' ' :: '"' :: R)).reverse := by
    simp [defLine]
  unfold Block.trimStr
  rw [show (defLine R).dropWhile Block.isWsChar = defLine R from dropWhile_head _ _ _ h1, hrev,
    dropWhile_head _ _ _ h2, ← hrev, List.reverse_reverse]

example : Block.refParse ⟨100, [], fun s => if s = ['&', 'a', 'm', 'p', ';'] then some ['&'] else none,
      fun n => [n], fun n => [n]⟩ (defLine ['&', 'a', 'm', 'p', ';']) =
    .ok (some ([107], [47, 38], some [38], 0)) := by decide +kernel

example : Block.refParse ⟨100, [], fun _ => none, fun n => [n], fun n => [n]⟩ (defLine ['\\', '"']) =
    .ok (some ([107], [47, 37, 50, 50], some [34], 0)) := by decide +kernel

/-! ## variants: bare destination, the other title delimiters -/

theorem entCh_notStop {c : Char} (h : entCh c = true) : Link.isBareStop c = false := by
  rcases entCh_cases h with h | rfl | rfl | rfl
  · simp [Entity.isAlnum, Entity.isAlpha, Entity.isDigit] at h
    simp [Link.isBareStop]; omega
  · decide
  · decide
  · decide

theorem escapable_notStop {c : Char} (h : c ∈ Entity.escapable) : Link.isBareStop c = false := by
  revert c; decide

theorem bareLoop_plain (c : Char) (cs : List Char) (pos level : Nat) (h0 : Link.isBareStop c = false)
    (h1 : c ≠ '\\') (h2 : c ≠ '(') (h3 : c ≠ ')') :
    Link.bareLoop (c :: cs) pos level = Link.bareLoop cs (pos + Link.clen c) level := by
  conv => lhs; rw [Link.bareLoop.eq_def]
  simp [h0, h1, h2, h3]

theorem bareLoop_esc (x : Char) (cs : List Char) (pos level : Nat) (h0 : Link.isBareStop x = false) :
    Link.bareLoop ('\\' :: x :: cs) pos level = Link.bareLoop cs (pos + 1 + Link.clen x) level := by
  have hb : Link.isBareStop '\\' = false := by decide
  rw [Link.bareLoop]; simp [h0, hb]

theorem bareLoop_run (L rest : List Char) (pos level : Nat) (h : ∀ c ∈ L, entCh c = true) :
    Link.bareLoop (L ++ rest) pos level = Link.bareLoop rest (pos + L.length) level := by
  induction L generalizing pos with
  | nil => rfl
  | cons c r ih =>
    have hc := h c (by simp)
    rw [List.cons_append, bareLoop_plain c _ pos level (entCh_notStop hc) (entCh_ne hc _ (by decide))
      (entCh_ne hc _ (by decide)) (entCh_ne hc _ (by decide)),
      ih _ (fun x hx => h x (by simp [hx])), entCh_clen hc, List.length_cons]
    congr 1; omega

/-- the bare-destination scanner runs over R (escapes go through its backslash case: no escapable
    character is a bare stop) -/
theorem bareLoop_skip (h : Denotes lookup R X) (rest : List Char) (pos level : Nat) :
    Link.bareLoop (R ++ rest) pos level = Link.bareLoop rest (pos + R.length) level := by
  rcases denotes_shape h with hR | ⟨c, hc, rfl⟩
  · exact bareLoop_run R rest pos level hR
  · rw [List.cons_append, List.cons_append, List.nil_append,
      bareLoop_esc c rest pos level (escapable_notStop hc), escapable_clen hc]
    rfl

theorem titleLoop_plain_any (m c : Char) (cs : List Char) (pos lines : Nat) (h1 : c ≠ '\n')
    (h2 : c ≠ m) (h3 : c ≠ '(') (h4 : c ≠ '\\') :
    Link.titleLoop m (c :: cs) pos lines = Link.titleLoop m cs (pos + Link.clen c) lines := by
  conv => lhs; rw [Link.titleLoop.eq_def]
  simp [h1, h2, h3, h4]

theorem titleLoop_esc_any (m x : Char) (cs : List Char) (pos lines : Nat) (hm : m ≠ '\\')
    (h1 : x ≠ '\n') :
    Link.titleLoop m ('\\' :: x :: cs) pos lines =
      Link.titleLoop m cs (pos + 1 + Link.clen x) lines := by
  rw [Link.titleLoop]; simp [h1, Ne.symm hm]

theorem titleLoop_run_any (m : Char) (hm : entCh m = false) (L rest : List Char) (pos lines : Nat)
    (h : ∀ c ∈ L, entCh c = true) :
    Link.titleLoop m (L ++ rest) pos lines = Link.titleLoop m rest (pos + L.length) lines := by
  induction L generalizing pos with
  | nil => rfl
  | cons c r ih =>
    have hc := h c (by simp)
    rw [List.cons_append, titleLoop_plain_any m c _ pos lines (entCh_ne hc _ (by decide))
      (entCh_ne hc _ hm) (entCh_ne hc _ (by decide)) (entCh_ne hc _ (by decide)),
      ih _ (fun x hx => h x (by simp [hx])), entCh_clen hc, List.length_cons]
    congr 1; omega

/-- title scanner, any of the three closing markers `"` `'` `)` -/
theorem titleLoop_skip_any (h : Denotes lookup R X) (m : Char) (hm : m = '"' ∨ m = '\'' ∨ m = ')')
    (rest : List Char) (pos lines : Nat) :
    Link.titleLoop m (R ++ rest) pos lines = Link.titleLoop m rest (pos + R.length) lines := by
  have hm1 : entCh m = false := by rcases hm with rfl | rfl | rfl <;> decide
  have hm2 : m ≠ '\\' := by rcases hm with rfl | rfl | rfl <;> decide
  rcases denotes_shape h with hR | ⟨c, hc, rfl⟩
  · exact titleLoop_run_any m hm1 R rest pos lines hR
  · rw [List.cons_append, List.cons_append, List.nil_append,
      titleLoop_esc_any m c rest pos lines hm2 (escapable_ne_nl hc), escapable_clen hc]
    rfl


theorem plt_ok_any (src rest raw : List Char) (o m : Char) (start max pos lines : Nat)
    (hom : Link.titleMarker o = some m)
    (h1 : Link.slice src start max = .ok (o :: rest))
    (h2 : Link.titleLoop m rest (start + 1) 0 = some (pos, lines))
    (h3 : Link.slice src (start + 1) pos = .ok raw) :
    Link.parseLinkTitle src start max = .ok (some ⟨pos + 1, lines, raw⟩) := by
  unfold Link.parseLinkTitle
  rw [h1]
  simp only [hom, h2, h3]

/-- (b') inline link tail `(/R)` : bare destination -/
theorem parseInlineTail_bare (h : Denotes lookup R X) (hno : ∀ s, lookup ('&' :: '#' :: s) = none)
    (P : List Char) :
    Link.parseInlineTail (Entity.unescapeAll lookup)
      (P ++ '(' :: '/' :: (R ++ [')'])) (Link.byteLen P)
      (Link.byteLen (P ++ '(' :: '/' :: (R ++ [')']))) =
    .ok (some ⟨some (Link.normalizeLink (Link.utf8 ('/' :: X))), none,
      Link.byteLen (P ++ '(' :: '/' :: (R ++ [')']))⟩) := by
  have hR := denotes_byteLen h
  generalize hsrc : P ++ '(' :: '/' :: (R ++ [')']) = src
  generalize hn : Link.byteLen P = n
  have hmax : Link.byteLen src = n + R.length + 2 + 1 := by
    rw [← hsrc]; simp [Link.byteLen_append, Link.byteLen, Link.clen, hR, hn]; omega
  rw [hmax]
  have hbl : ∀ (l : List Char) (k : Nat), Link.byteLen l = k → Link.byteLen (P ++ l) = n + k := by
    intro l k hk; rw [Link.byteLen_append, hn, hk]
  have S0 : Link.slice src n (n + R.length + 2 + 1) = .ok ('(' :: '/' :: (R ++ [')'])) :=
    slice_at src P _ [] _ _ (by simp [← hsrc]) hn
      (by simp [Link.byteLen_append, Link.byteLen, Link.clen, hR]; omega)
  have S1 : Link.slice src (n + 1) (n + R.length + 2 + 1) = .ok ('/' :: (R ++ [')'])) :=
    slice_at src (P ++ ['(']) _ [] _ _ (by simp [← hsrc]) (hbl ['('] 1 (by decide))
      (by simp [Link.byteLen_append, Link.byteLen, Link.clen, hR]; omega)
  have S2 : Link.slice src (n + 1) (n + R.length + 2) = .ok ('/' :: R) :=
    slice_at src (P ++ ['(']) _ [')'] _ _ (by simp [← hsrc]) (hbl ['('] 1 (by decide))
      (by simp [Link.byteLen, Link.clen, hR]; omega)
  have S6 : Link.slice src (n + R.length + 2) (n + R.length + 2 + 1) = .ok [')'] :=
    slice_at src (P ++ '(' :: '/' :: R) _ [] _ _ (by simp [← hsrc])
      (by simp [Link.byteLen_append, Link.byteLen, Link.clen, hR, hn]; omega)
      (by simp [Link.byteLen, Link.clen])
  have hB : Link.bareLoop ('/' :: (R ++ [')'])) (n + 1) 0 = some (n + R.length + 2, 0) := by
    rw [bareLoop_plain _ _ _ _ (by decide) (by decide) (by decide) (by decide), bareLoop_skip h,
      Link.bareLoop]
    have : Link.isBareStop ')' = false := by decide
    simp [Link.clen, this]; omega
  have hdest : Link.parseLinkDestination src (n + 1) (n + R.length + 2 + 1) =
      .ok (some ⟨n + R.length + 2, 0, '/' :: R⟩) :=
    pld_bare src _ _ _ _ _ S1 hB S2
  have hnt : Link.parseLinkTitle src (n + R.length + 2) (n + R.length + 2 + 1) = .ok none :=
    plt_none src _ _ _ _ S6 (by decide)
  have hafter : Link.inlineAfterDest (Entity.unescapeAll lookup) src (n + 1) (n + R.length + 2 + 1)
      ⟨n + R.length + 2, 0, '/' :: R⟩ =
      .ok (some (Link.normalizeLink (Link.utf8 ('/' :: X))), none, n + R.length + 2) := by
    unfold Link.inlineAfterDest
    simp only [dest_slash h hno]
    exact itp_none _ src _ _ _ _ _ S6 (skipWs_stop _ _ _ (by decide)) hnt
  exact pit_ok _ src _ _ _ _ _ _ _ _ _ S0 (skipWs_stop _ _ _ (by decide)) hdest hafter S6

set_option linter.unusedSimpArgs false in
/-- (c') inline link tail `(/u oRm)` for the delimiter pairs (o, m) = (", "), (', '), ((, )) -/
theorem parseInlineTail_title_any (h : Denotes lookup R X) (hno : ∀ s, lookup ('&' :: '#' :: s) = none)
    (o m : Char) (hom : (o = '"' ∧ m = '"') ∨ (o = '\'' ∧ m = '\'') ∨ (o = '(' ∧ m = ')'))
    (P : List Char) :
    Link.parseInlineTail (Entity.unescapeAll lookup)
      (P ++ '(' :: '/' :: 'u' :: ' ' :: o :: (R ++ [m, ')'])) (Link.byteLen P)
      (Link.byteLen (P ++ '(' :: '/' :: 'u' :: ' ' :: o :: (R ++ [m, ')']))) =
    .ok (some ⟨some [47, 117], some X,
      Link.byteLen (P ++ '(' :: '/' :: 'u' :: ' ' :: o :: (R ++ [m, ')']))⟩) := by
  have hR := denotes_byteLen h
  have c1 : Link.clen '(' = 1 := by decide
  have c2 : Link.clen '/' = 1 := by decide
  have c3 : Link.clen 'u' = 1 := by decide
  have c4 : Link.clen ' ' = 1 := by decide
  have c5 : Link.clen ')' = 1 := by decide
  have ho : Link.clen o = 1 := by rcases hom with ⟨rfl, rfl⟩ | ⟨rfl, rfl⟩ | ⟨rfl, rfl⟩ <;> decide
  have hmc : Link.clen m = 1 := by rcases hom with ⟨rfl, rfl⟩ | ⟨rfl, rfl⟩ | ⟨rfl, rfl⟩ <;> decide
  have hows : Link.isWs o = false := by rcases hom with ⟨rfl, rfl⟩ | ⟨rfl, rfl⟩ | ⟨rfl, rfl⟩ <;> decide
  have hmk : Link.titleMarker o = some m := by
    rcases hom with ⟨rfl, rfl⟩ | ⟨rfl, rfl⟩ | ⟨rfl, rfl⟩ <;> decide
  have hm : m = '"' ∨ m = '\'' ∨ m = ')' := by
    rcases hom with ⟨_, rfl⟩ | ⟨_, rfl⟩ | ⟨_, rfl⟩ <;> simp
  generalize hsrc : P ++ '(' :: '/' :: 'u' :: ' ' :: o :: (R ++ [m, ')']) = src
  generalize hn : Link.byteLen P = n
  have hmax : Link.byteLen src = n + R.length + 6 + 1 := by
    rw [← hsrc]; simp [Link.byteLen_append, Link.byteLen, c1, c2, c3, c4, c5, hR, hn, ho, hmc]; omega
  rw [hmax]
  have hbl : ∀ (l : List Char) (k : Nat), Link.byteLen l = k → Link.byteLen (P ++ l) = n + k := by
    intro l k hk; rw [Link.byteLen_append, hn, hk]
  have S0 : Link.slice src n (n + R.length + 6 + 1) =
      .ok ('(' :: '/' :: 'u' :: ' ' :: o :: (R ++ [m, ')'])) :=
    slice_at src P _ [] _ _ (by simp [← hsrc]) hn
      (by simp [Link.byteLen_append, Link.byteLen, c1, c2, c3, c4, c5, hR, ho, hmc]; omega)
  have S1 : Link.slice src (n + 1) (n + R.length + 6 + 1) =
      .ok ('/' :: 'u' :: ' ' :: o :: (R ++ [m, ')'])) :=
    slice_at src (P ++ ['(']) _ [] _ _ (by simp [← hsrc]) (hbl ['('] 1 (by decide))
      (by simp [Link.byteLen_append, Link.byteLen, c1, c2, c3, c4, c5, hR, ho, hmc]; omega)
  have S2 : Link.slice src (n + 1) (n + 3) = .ok ['/', 'u'] :=
    slice_at src (P ++ ['(']) _ (' ' :: o :: (R ++ [m, ')'])) _ _ (by simp [← hsrc])
      (hbl ['('] 1 (by decide)) (by simp [Link.byteLen, Link.clen])
  have S3 : Link.slice src (n + 3) (n + R.length + 6 + 1) = .ok (' ' :: o :: (R ++ [m, ')'])) :=
    slice_at src (P ++ ['(', '/', 'u']) _ [] _ _ (by simp [← hsrc]) (hbl ['(', '/', 'u'] 3 (by decide))
      (by simp [Link.byteLen_append, Link.byteLen, c1, c2, c3, c4, c5, hR, ho, hmc]; omega)
  have S4 : Link.slice src (n + 4) (n + R.length + 6 + 1) = .ok (o :: (R ++ [m, ')'])) :=
    slice_at src (P ++ ['(', '/', 'u', ' ']) _ [] _ _ (by simp [← hsrc])
      (hbl ['(', '/', 'u', ' '] 4 (by decide))
      (by simp [Link.byteLen_append, Link.byteLen, c1, c2, c3, c4, c5, hR, ho, hmc]; omega)
  have S5 : Link.slice src (n + 4 + 1) (n + R.length + 5) = .ok R :=
    slice_at src (P ++ ['(', '/', 'u', ' ', o]) _ [m, ')'] _ _ (by simp [← hsrc])
      (hbl ['(', '/', 'u', ' ', o] 5 (by simp [Link.byteLen, c1, c2, c3, c4, ho])) (by rw [hR]; omega)
  have S6 : Link.slice src (n + R.length + 6) (n + R.length + 6 + 1) = .ok [')'] :=
    slice_at src (P ++ '(' :: '/' :: 'u' :: ' ' :: o :: (R ++ [m])) _ [] _ _ (by simp [← hsrc])
      (by simp [Link.byteLen_append, Link.byteLen, c1, c2, c3, c4, c5, hR, hn, ho, hmc]; omega)
      (by simp [Link.byteLen, Link.clen])
  have hT : Link.titleLoop m (R ++ [m, ')']) (n + 4 + 1) 0 = some (n + R.length + 5, 0) := by
    rw [titleLoop_skip_any h m hm, Link.titleLoop]
    simp; omega
  have hdest : Link.parseLinkDestination src (n + 1) (n + R.length + 6 + 1) =
      .ok (some ⟨n + 3, 0, ['/', 'u']⟩) :=
    pld_bare src _ _ _ _ _ S1 (by rw [bare_u]) S2
  have htitle : Link.parseLinkTitle src (n + 4) (n + R.length + 6 + 1) =
      .ok (some ⟨n + R.length + 5 + 1, 0, R⟩) :=
    plt_ok_any src _ _ o m _ _ _ _ hmk S4 hT S5
  have hsk : Link.skipWs (' ' :: o :: (R ++ [m, ')'])) (n + 3) = n + 4 := by
    have : Link.isWs ' ' = true := by decide
    rw [Link.skipWs, if_pos this, skipWs_stop _ _ _ hows]
  have hafter : Link.inlineAfterDest (Entity.unescapeAll lookup) src (n + 1) (n + R.length + 6 + 1)
      ⟨n + 3, 0, ['/', 'u']⟩ = .ok (some [47, 117], some X, n + R.length + 6) := by
    unfold Link.inlineAfterDest
    simp only [dest_u]
    rw [← unescapeAll_denotes h hno]
    exact itp_title _ src _ _ R _ _ _ (n + 4) _ _ _ S3
      hsk htitle S6 (skipWs_stop _ _ _ (by decide))
  exact pit_ok _ src _ _ _ _ _ _ _ _ _ S0 (skipWs_stop _ _ _ (by decide)) hdest hafter S6

/-- `[x](/u (\)))`: the escaped `)` inside a parenthesised title -/
example : Link.parseInlineTail (Entity.unescapeAll (fun _ => none))
    ['[', 'x', ']', '(', '/', 'u', ' ', '(', '\\', ')', ')', ')'] 3 12 =
    .ok (some ⟨some [47, 117], some [')'], 12⟩) := by decide +kernel

/-- `[x](/\()`: the escaped `(` in a bare destination does not open a level -/
example : Link.parseInlineTail (Entity.unescapeAll (fun _ => none))
    ['[', 'x', ']', '(', '/', '\\', '(', ')'] 3 8 =
    .ok (some ⟨some [47, 40], none, 8⟩) := by decide +kernel

/-- `[x](/u '&amp;')` and `[x](/&amp;)` -/
example : Link.parseInlineTail
    (Entity.unescapeAll (fun s => if s = ['&', 'a', 'm', 'p', ';'] then some ['&'] else none))
    ['[', 'x', ']', '(', '/', 'u', ' ', '\'', '&', 'a', 'm', 'p', ';', '\'', ')'] 3 15 =
    .ok (some ⟨some [47, 117], some ['&'], 15⟩) := by decide +kernel

example : Link.parseInlineTail
    (Entity.unescapeAll (fun s => if s = ['&', 'a', 'm', 'p', ';'] then some ['&'] else none))
    ['[', 'x', ']', '(', '/', '&', 'a', 'm', 'p', ';', ')'] 3 11 =
    .ok (some ⟨some [47, 38], none, 11⟩) := by decide +kernel

end MdIt.Link.C12X
