/-
  Helper development for `Props/MemoSafe.lean`, second part: the whole document.

  `doc_total_of_inline` (`Props/InlineTotal.lean`: the block pass, the splice walk, the join and
  sourcepos passes and both serializers are total once every `md.inline.parse` call returns) +
  `Pipeline.doc_placeholder_tables` (`Props/C05Inline.lean`: the per-paragraph tables) + `NoSplitTab`
  (`Props/C05Rest.lean`: no table has a virtual-space entry, so every table is `MapOK`) + the inline
  totality theorems of `Lemmas/MemoSafeLamFinal.lean`.
-/
import MdIt.Lemmas.MemoSafeLamFinal
import MdIt.Props.InlineTotal
import MdIt.Props.C05Rest

namespace MdIt.Pipeline
open MdIt

theorem allInl_and {Q1 Q2 Q3 : List Char → List (Nat × Nat) → Prop}
    (h : ∀ c m, Q1 c m → Q2 c m → Q3 c m) {n : Block.BNode} (h1 : Block.AllInl Q1 n)
    (h2 : Block.AllInl Q2 n) : Block.AllInl Q3 n := by
  induction h1 with
  | mk n a _ ih =>
    cases h2 with
    | mk _ a2 b2 =>
      exact .mk n (fun c m hk hr => h c m (a c m hk hr) (a2 c m hk hr)) (fun c hc => ih c hc (b2 c hc))

/-- a claim at every placeholder in the sense of `Block.AllInl` (placeholders have no range) is a claim at
    every placeholder in the sense of `Placeholders` -/
theorem placeholders_of_allInl (Q : List Char → List (Nat × Nat) → Prop) :
    ∀ n : Nat,
      (∀ b : Block.BNode, sizeOf b ≤ n → Block.AllInl Q b → InlNoRange b → Placeholders Q b) ∧
      (∀ l : List Block.BNode, sizeOf l ≤ n → (∀ c ∈ l, Block.AllInl Q c) → (∀ c ∈ l, InlNoRange c) →
        PlaceholdersList Q l) := by
  intro n
  induction n with
  | zero =>
    constructor
    · intro b hb; cases b; simp at hb
    · intro l hl
      cases l with
      | nil => intro _ _; simp [PlaceholdersList]
      | cons c cs => simp at hl
  | succ n ih =>
    constructor
    · intro b hb ha hn
      match b, hb, ha, hn with
      | ⟨k, r, cs⟩, hb, ha, hn =>
        simp only [Placeholders]
        cases ha with
        | mk _ a1 a2 =>
          refine ⟨?_, ih.2 cs (by simp at hb; omega) a2 hn.child⟩
          cases k <;> first | trivial | exact a1 _ _ rfl (hn.at _ _ rfl)
    · intro l hl ha hn
      cases l with
      | nil => simp [PlaceholdersList]
      | cons c cs =>
        simp only [PlaceholdersList]
        simp at hl
        exact ⟨ih.1 c (by omega) (ha c (by simp)) (hn c (by simp)),
          ih.2 cs (by omega) (fun x hx => ha x (List.mem_cons_of_mem _ hx))
            (fun x hx => hn x (List.mem_cons_of_mem _ hx))⟩

/-- every placeholder of a document without split tab has a `MapOK` table -/
theorem doc_tables_mapOK (cfg : DocCfg) (src : List Char)
    (hsmall : 4 * Lines.byteLen src + 8 < 2147483648) (hpara : cfg.hasPara = true)
    (hnv : NoSplitTab cfg src) {root : Block.BNode} {refs : Refs.RefMap}
    (hb : Block.parseBlocks cfg.blockCfg src = .ok (root, refs)) :
    Block.AllInl (fun c m => Inline.MapOK c m) root :=
  allInl_and (fun _ _ ⟨_, _, h⟩ hv => h.2.2.2.2.1 hv) (doc_placeholder_tables cfg src hsmall hpara hb).2
    (hnv root refs hb)

/-- **C01, whole pipeline, chains without code spans**: for every configuration whose inline chain is
    `ChainCoherent` and has no code-span rule (link / image rules at most once), with the paragraph rule,
    `md.parse(src)` returns a tree and both renderers return a string, for every source in which no tab is
    split (in particular every tab-free source), within the `i32` size bound of the block pass. -/
theorem doc_total_nocode (cfg : DocCfg) (src : List Char)
    (hc : Inline.ChainCoherent (cfg.inlineCfg []) = true)
    (hnb : Inline.RuleId.backticks ∉ cfg.inlineChain)
    (hone : cfg.inlineChain.count .link ≤ 1 ∧ cfg.inlineChain.count .image ≤ 1)
    (hsmall : 4 * Lines.byteLen src + 8 < 2147483648) (hpara : cfg.hasPara = true)
    (hnv : NoSplitTab cfg src) :
    (∃ t, parseDoc cfg src = .ok t) ∧ ∀ x, ∃ html, renderDoc x cfg src = .ok html := by
  apply doc_total_of_inline
  intro root refs hb
  have hmap := doc_tables_mapOK cfg src hsmall hpara hnv hb
  have hall : Block.AllInl (fun c m => ∃ cs, Inline.parseInline (cfg.inlineCfg refs) c m = .ok cs) root :=
    allInl_and (Q2 := fun _ _ => True)
      (fun c m hm _ => Inline.parseInline_total_nocode (cfg.inlineCfg refs) hc hnb hone hm) hmap
      (allInl_and (fun _ _ _ _ => trivial) hmap hmap)
  exact (placeholders_of_allInl _ (sizeOf root)).1 root (Nat.le_refl _) hall
    (Block.parseBlocks_inlNoRange hb)

/-- no placeholder content of the document has two adjacent backticks -/
def DocNoDoubleTick (cfg : DocCfg) (src : List Char) : Prop :=
  ∀ root refs, Block.parseBlocks cfg.blockCfg src = .ok (root, refs) →
    Block.AllInl (fun c _ => Inline.NoDoubleTick c) root

/-- **C01, whole pipeline, EVERY coherent chain (the stock chain with strikethrough included)**, for
    documents whose paragraphs have no two adjacent backticks (single-backtick code spans only): `md.parse`
    returns a tree and both renderers return a string (no split tab, `i32` size bound, paragraph rule). -/
theorem doc_total_nodouble (cfg : DocCfg) (src : List Char)
    (hc : Inline.ChainCoherent (cfg.inlineCfg []) = true)
    (hone : cfg.inlineChain.count .link ≤ 1 ∧ cfg.inlineChain.count .image ≤ 1)
    (hsmall : 4 * Lines.byteLen src + 8 < 2147483648) (hpara : cfg.hasPara = true)
    (hnv : NoSplitTab cfg src) (hnd : DocNoDoubleTick cfg src) :
    (∃ t, parseDoc cfg src = .ok t) ∧ ∀ x, ∃ html, renderDoc x cfg src = .ok html := by
  apply doc_total_of_inline
  intro root refs hb
  have hmap := doc_tables_mapOK cfg src hsmall hpara hnv hb
  have hall : Block.AllInl (fun c m => ∃ cs, Inline.parseInline (cfg.inlineCfg refs) c m = .ok cs) root :=
    allInl_and (fun c m hm hd => Inline.parseInline_total_nodouble (cfg.inlineCfg refs) hc hone hm hd)
      hmap (hnd root refs hb)
  exact (placeholders_of_allInl _ (sizeOf root)).1 root (Nat.le_refl _) hall
    (Block.parseBlocks_inlNoRange hb)

/-! ## `DocNoDoubleTick` by evaluation of the block pass -/

mutual
def allNoDoubleB : Block.BNode → Bool
  | ⟨k, _, cs⟩ =>
    (match k with | .inlineRoot c _ => decide (Inline.NoDoubleTick c) | _ => true) && allNoDoubleBL cs
def allNoDoubleBL : List Block.BNode → Bool
  | [] => true
  | c :: r => allNoDoubleB c && allNoDoubleBL r
end

mutual
theorem allNoDoubleB_sound : ∀ (n : Block.BNode), allNoDoubleB n = true →
    Block.AllInl (fun c _ => Inline.NoDoubleTick c) n
  | ⟨k, r, cs⟩, h => by
    simp only [allNoDoubleB, Bool.and_eq_true] at h
    refine .mk _ ?_ (allNoDoubleBL_sound cs h.2)
    intro c m hk _
    simp only at hk
    subst hk
    simpa using h.1
theorem allNoDoubleBL_sound : ∀ (l : List Block.BNode), allNoDoubleBL l = true →
    ∀ c ∈ l, Block.AllInl (fun c _ => Inline.NoDoubleTick c) c
  | [], _ => by simp
  | x :: r, h => by
    simp only [allNoDoubleBL, Bool.and_eq_true] at h
    intro c hc
    have hx := allNoDoubleB_sound x h.1
    have hr := allNoDoubleBL_sound r h.2
    rcases List.mem_cons.mp hc with e | hc
    · rw [e]; exact hx
    · exact hr c hc
end

theorem docNoDoubleTick_of_check (cfg : DocCfg) (src : List Char)
    (h : (match Block.parseBlocks cfg.blockCfg src with
          | .ok (root, _) => allNoDoubleB root
          | .error _ => true) = true) : DocNoDoubleTick cfg src := by
  intro root refs hb
  rw [hb] at h
  exact allNoDoubleB_sound root h

/-! ## from the source: no two adjacent backticks in the document -/

/-- the content of a placeholder is a faithful excerpt of the document: two adjacent backticks of the
    content are two adjacent backticks of the source -/
theorem noDoubleTick_of_pfth {src c : List Char} {m : InlineOps.Srcmap} (hf : C05R.PFth src c m)
    (hw : C05.WFMap m) (hnd : Inline.NoDoubleTick src) : Inline.NoDoubleTick c := by
  rintro ⟨s, t, e⟩
  obtain ⟨a, ha⟩ := C05.translate_total m hw (InlineOps.byteLen s)
  obtain ⟨b, hb⟩ := C05.translate_total m hw (InlineOps.byteLen s + InlineOps.byteLen ['`', '`'])
  have hcut : C05R.Cut c (InlineOps.byteLen s) (InlineOps.byteLen s + InlineOps.byteLen ['`', '`'])
      ['`', '`'] := ⟨s, t, e.symm, rfl, rfl⟩
  obtain ⟨p, q, hsrc, _, _⟩ := hf.copy _ _ _ a b hcut (by decide) ha hb
  exact hnd ⟨p, q, hsrc.symm⟩

/-- **a document without two adjacent backticks has no paragraph content with two adjacent backticks**
    (no split tab) -/
theorem docNoDoubleTick_of_src (cfg : DocCfg) (src : List Char)
    (hsmall : 4 * Lines.byteLen src + 8 < 2147483648) (hpara : cfg.hasPara = true)
    (hnv : NoSplitTab cfg src) (hnd : Inline.NoDoubleTick src) : DocNoDoubleTick cfg src := by
  intro root refs hb
  obtain ⟨_, hg⟩ := Block.parseBlocks_geo3 (cfg := cfg.blockCfg) hpara (Block.inlSpec3_pfullV src) hsmall hb
  have hall : Block.AllInl (fun c m => ∃ a b, Block.PFullV src c m a b) root :=
    hg.allInl (fun c m a b h => ⟨a, b, h⟩) (by
      intro c m _ hnone
      have := (Block.parseBlocks_geo3 (cfg := cfg.blockCfg) hpara (Block.inlSpec3_pfullV src) hsmall hb).1
      rw [this] at hnone
      cases hnone)
  exact allInl_and (fun c m ⟨_, _, h⟩ hv => noDoubleTick_of_pfth (h.2.1 hv) h.1.1 hnd) hall
    (hnv root refs hb)

/-- **C01, whole pipeline, every coherent chain — hypotheses on the SOURCE only**: no tab, no two
    adjacent backticks, the `i32` size bound; paragraph rule configured -/
theorem doc_total_src (cfg : DocCfg) (src : List Char)
    (hc : Inline.ChainCoherent (cfg.inlineCfg []) = true)
    (hone : cfg.inlineChain.count .link ≤ 1 ∧ cfg.inlineChain.count .image ≤ 1)
    (hsmall : 4 * Lines.byteLen src + 8 < 2147483648) (hpara : cfg.hasPara = true)
    (htab : '\t' ∉ src) (hnd : Inline.NoDoubleTick src) :
    (∃ t, parseDoc cfg src = .ok t) ∧ ∀ x, ∃ html, renderDoc x cfg src = .ok html :=
  doc_total_nodouble cfg src hc hone hsmall hpara (noSplitTab_of_tabFree cfg src hsmall hpara htab)
    (docNoDoubleTick_of_src cfg src hsmall hpara (noSplitTab_of_tabFree cfg src hsmall hpara htab) hnd)

end MdIt.Pipeline
