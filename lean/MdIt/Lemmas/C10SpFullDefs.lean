/-
  C10 with the sourcepos plugin, full version: the interface between the exact inline simulation
  (`Lemmas/C10SpFullInline*.lean`) and its consumers (`Lemmas/C10SpFull*.lean`, Props/C10Sourcepos.lean).
-/
import MdIt.Model.Inline

namespace MdIt.C10SP
open MdIt.InlineOps (Srcmap getSourcePosFor byteLen)

/-- a character other than the line feed STARTS at byte `p` of `c` -/
def CharNotLf (c : List Char) (p : Nat) : Prop :=
  ∃ u ch w, c = u ++ ch :: w ∧ byteLen u = p ∧ ch ≠ '\n'

/-- the two ranges are the translations, under the two tables, of ONE stretch `[p, q]` of the inline
    text `c`, and the stretch starts at a character other than the line feed -/
def SameSpan (c : List Char) (m₁ m₂ : Srcmap) (r₁ r₂ : Option (Nat × Nat)) : Prop :=
  ∃ p q a₁ b₁ a₂ b₂, r₁ = some (a₁, b₁) ∧ r₂ = some (a₂, b₂) ∧ p ≤ q ∧ q ≤ byteLen c ∧ CharNotLf c p ∧
    getSourcePosFor m₁ p = .ok a₁ ∧ getSourcePosFor m₁ q = .ok b₁ ∧
    getSourcePosFor m₂ p = .ok a₂ ∧ getSourcePosFor m₂ q = .ok b₂

/-- the inline values whose `render` shows `node.attrs`: `CodeInline`, `Em` / `Strong` /
    `Strikethrough`, `Link`, `Image`, `Autolink` -/
def attrVal : Inline.Val → Bool
  | .codeInline _ _ => true
  | .wrap _ _ => true
  | .link _ _ => true
  | .image _ _ => true
  | .autolink _ => true
  | _ => false

mutual
/-- two inline trees of the same shape and values whose attribute-rendering nodes are `SameSpan` -/
def XN (c : List Char) (m₁ m₂ : Srcmap) : Inline.Node → Inline.Node → Prop
  | ⟨v₁, r₁, cs₁⟩, ⟨v₂, r₂, cs₂⟩ =>
    v₁ = v₂ ∧ (attrVal v₁ = true → SameSpan c m₁ m₂ r₁ r₂) ∧ XL c m₁ m₂ cs₁ cs₂
def XL (c : List Char) (m₁ m₂ : Srcmap) : List Inline.Node → List Inline.Node → Prop
  | [], [] => True
  | a :: as, b :: bs => XN c m₁ m₂ a b ∧ XL c m₁ m₂ as bs
  | _, _ => False
end

end MdIt.C10SP
