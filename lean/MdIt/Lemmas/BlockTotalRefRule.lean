/-
  No-panic lemma of the reference rule, given the totality of `refParse` on texts that start with a
  one-byte character (`MdIt/Lemmas/BlockTotalRef.lean`).  The text handed to `refParse` is
  `get_lines(start, next, blk_indent).trim()`; its first line is (virtual spaces ++ a suffix of the
  bytes in front of `first_nonspace` ++ the line's text `[…`), and the bytes in front of
  `first_nonspace` are one-byte characters (`BInv.ascii`), so the trimmed text starts with a one-byte
  character — which is what `refParse` needs for its blind `&str[1..label_end]`.
-/
import MdIt.Lemmas.BlockTotalLeaf
import MdIt.Lemmas.BlockTotalRef

namespace MdIt.Block
open MdIt.Lines (LineOffset)

theorem joinLines_cons (keep : Bool) (x : List Char) (xs : List (List Char)) :
    ∃ t, Lines.joinLines keep (x :: xs) = x ++ t := by
  cases xs with
  | nil => cases keep <;> simp [Lines.joinLines]
  | cons y r => exact ⟨_, by simp [Lines.joinLines]; rfl⟩

/-- the first line of `get_lines`: one-byte characters, then the text of the line -/
theorem getLines_head {s : BState} (hI : BInv s) {b e indent : Nat} {keep : Bool} {c : List Char}
    {m : List (Nat × Nat)} (h : s.getLines b e indent keep = .ok (c, m)) (hbe : b < e)
    (he : e ≤ s.offs.length) {line : List Char} (hline : s.getLine b = .ok line) :
    ∃ P t, c = P ++ line ++ t ∧ ∀ x ∈ P, x.utf8Size = 1 := by
  have h := liftL_eq_ok h
  obtain ⟨vs, hvl, hvs, _⟩ := views_of_tableOk hI.table (e - b) b (by omega)
  obtain ⟨m', hm'⟩ := Lines.get_lines_lf s.src s.offs b indent keep vs hvs
  rw [hvl, show b + (e - b) = e by omega, h] at hm'
  simp only [Except.ok.injEq, Prod.mk.injEq] at hm'
  cases vs with
  | nil => simp at hvl; omega
  | cons v0 vs' =>
    obtain ⟨o, ho, hw, ht, _⟩ := hvs 0 (by simp)
    simp only [Nat.add_zero, List.getElem_cons_zero] at ho hw ht
    have hline' := getLine_eq ho hline
    unfold Lines.lineText at ht
    have hv2 := slice_unique ht hline'
    obtain ⟨a, ha, hasc⟩ := hI.ascii b o ho
    unfold Lines.lineWs at hw
    have hv1 := slice_unique hw ha
    obtain ⟨t, ht'⟩ := joinLines_cons keep (Lines.viewPiece indent v0) (vs'.map (Lines.viewPiece indent))
    refine ⟨List.replicate (Lines.calcRightWs v0.1 (v0.2.2 - Lines.usizeAsI32 indent)).1 ' ' ++
      Lines.dropB v0.1 (Lines.calcRightWs v0.1 (v0.2.2 - Lines.usizeAsI32 indent)).2, t, ?_, ?_⟩
    · rw [hm'.1, List.map_cons, ht']
      simp [Lines.viewPiece, hv2]
    · intro x hx
      simp only [List.mem_append, List.mem_replicate] at hx
      rcases hx with ⟨_, rfl⟩ | hx
      · decide
      · exact hasc x (hv1 ▸ (Lines.dropB_suffix _ _).subset hx)

theorem reference_np {cfg : Cfg} {test : Test} (ht : TestPure test) (hto : TestOK test)
    {fuel : Nat} {s : BState} {silent : Bool} (hI : BInv s) (hl : s.line < s.lineMax) :
    NoPanic (referenceRule cfg test fuel s silent) := by
  have hlen := hI.lineMax
  intro e h
  unfold referenceRule at h
  crackE h
  · exact absurd_err h (lineIndent_total (by omega))
  · exact absurd_err h (getLine_total hI.table (by omega))
  · exact lazyScan_np ht hto _ _ _ _ hI e h
  all_goals (
    obtain ⟨h1, h2, h3, _⟩ := lazyScan_spec ht false _ _ _ _ ‹lazyScan _ _ _ _ _ = _›
    have h3 := h3 hl
    try simp only [h1] at h)
  · exact absurd_err h (getLines_total hI.table (by omega) (by omega))
  · have hgl := ‹BState.getLines _ _ _ _ _ = _›
    have hline := ‹BState.getLine _ _ = _›
    have hc : ¬ _ ≠ '[' := ‹_›
    simp only [ne_eq, Classical.not_not] at hc
    subst hc
    simp only [h1] at hgl
    obtain ⟨P, t, hcont, hP⟩ := getLines_head hI (c := _) (m := _) hgl (by omega) (by omega) hline
    rw [hcont] at h
    simp only [List.append_assoc, List.cons_append] at h
    exact absurd_err h (refParse_trim_ascii cfg P '[' _ hP (by decide) isWsChar_lbrack)

end MdIt.Block
