/-
  Helper development for `Props/C16Doc.lean` (property C16 over a whole run of the inline parser), part 1:
  THE NESTED LABEL FRAMES.

  The memo development of the inline-totality proof (`Lemmas/MemoSafeLamES{Def,Top,Nest,End,Final}.lean`,
  namespace `MdIt.Inline.ES`) proves, inside its induction, that the REAL step of the tokenizer at a
  position of a nested label frame ends where the `skip_token` memo entry of that position says — but it
  only exports the consequence it needs (guarded run = model run, `nested_step` / `nested_eq`).  Here the
  same induction is run once more with the C16 content as its conclusion:

    * `Arrives run rules st id x` — the real chain `rules`, run from `st`, arrives at the rule `id` with
      the state `x` (every rule in front of it declined);
    * `chain_arrives`  — along the real chain at a state of a nested frame every rule is called at a state
      that still is paired with a look-ahead witness state of the memo entry (`ES.Pair`);
    * `enter_core` / `enter_link` / `enter_image` — when the real link / image rule of a nested frame
      finds its label, the look-ahead inside it changed nothing at all (`st1 = x`), and the frame it is
      about to tokenize satisfies the invariant `ES.NF` again (this is how DEEPER frames are reached);
    * `marker_units`   — a run of emphasis markers on a label walk is covered by UNIT memo entries;
    * `nested_agree`   — **the real step at a state of a nested frame ends where the memo entry says, or
      is the emphasis rule taking a run of its marker that the memo covers by unit entries**.
-/
import MdIt.Lemmas.MemoSafeLamESFinal

namespace MdIt.Inline.ES.C16Doc
open MdIt.Inline
open MdIt.Inline.CS (Interior MK InsideSub MK.of_sub InsideSub.refl InsideSub.trans AgreeHyp
  insideSub_ruleBackticks not_interior_after_bracket not_interior_after_run)
open MdIt.InlineOps (Srcmap getSourcePosFor getMap byteLen slice)
open MdIt.C05 (WFMap MonoMap byteLen_append slice_ok_iff)

/-- the chain `rules`, run from `st` (each rule by `run`), ARRIVES at the rule `id` with the state `x`:
    every rule in front of `id` answered `None` (`firstRule` threads the state through the declining
    rules) -/
inductive Arrives (run : RuleId → IState → RuleRes) : List RuleId → IState → RuleId → IState → Prop
  | here (id : RuleId) (rs : List RuleId) (st : IState) : Arrives run (id :: rs) st id st
  | next {id0 : RuleId} {rs : List RuleId} {st st1 : IState} {id : RuleId} {x : IState} :
      run id0 st = .ok (none, st1) → Arrives run rs st1 id x → Arrives run (id0 :: rs) st id x

theorem Arrives.mem {run : RuleId → IState → RuleRes} {rules : List RuleId} {st : IState} {id : RuleId}
    {x : IState} (h : Arrives run rules st id x) : id ∈ rules := by
  induction h with
  | here id rs st => simp
  | next _ _ ih => exact List.mem_cons_of_mem _ ih

section
variable {cfg : Cfg} {B : List Char → CodePair.Cache → Prop} {src : List Char} {Mtop : Nat}
  {f : Nat} {skipG skipM tokG tokM : IState → Except Panic IState}
  {skip0 tok0 : IState → Except Panic IState} {f0 : Nat}
  {m : List (Nat × Nat)} {k le v : Nat} {ch : Char} {rest : List Char}

/-- what `ES.rule_L2` needs to know about the witness call of one rule -/
structure WitCall (cfg : Cfg) (B : List Char → CodePair.Cache → Prop) (src : List Char) (Mtop : Nat)
    (skip0 tok0 : IState → Except Panic IState) (f0 : Nat)
    (m : List (Nat × Nat)) (k le v : Nat) (ch : Char) (id : RuleId) (x : IState) : Prop where
  wit : ∃ (w : IState) (o1 : Option Nat) (w1 : IState), Pair cfg B src Mtop m k le ch w x ∧
    silentBumped (runRule cfg skip0 tok0 f0 id) w = .ok (o1, w1) ∧ LookupMono w1.cache m ∧
    ((id = .link ∧ ch = '[') ∨ (id = .image ∧ ch = '!') → o1 = none → v = k + 1) ∧
    (∀ n, o1 = some n → v = k + n)

/-- **along the real chain at a state of a nested frame every rule is called at a state that is paired
    with the look-ahead witness** (the induction of `ES.chain_L2`, with the calls as its conclusion) -/
theorem chain_arrives (H : NestHyps cfg B src Mtop) (C : Callees cfg B src Mtop f skipG skipM tokG tokM)
    (S : StepCtx src Mtop m k le v ch rest)
    (hq0 : CalmFn skip0) (hs0 : SkipHypT skip0) (hg0 : SkipGrowHyp skip0) :
    ∀ (rules : List RuleId), (∀ id ∈ rules, id ∈ cfg.chain) → rules.count .link ≤ 1 →
      rules.count .image ≤ 1 →
      ∀ (w x : IState), Pair cfg B src Mtop m k le ch w x →
      ∀ o0 w', firstRule (fun id s => silentBumped (runRule cfg skip0 tok0 f0 id) s) rules w
          = .ok (o0, w') →
        LookupMono w'.cache m → (o0 = none → v = k + ch.utf8Size) → (∀ n, o0 = some n → v = k + n) →
        ∀ id x2, Arrives (fun id s => runRule cfg skipM tokM f id s false) rules x id x2 →
          WitCall cfg B src Mtop skip0 tok0 f0 m k le v ch id x2 := by
  intro rules
  induction rules with
  | nil =>
    intro _ _ _ w x P o0 w' _ _ _ _ id x2 hA
    cases hA
  | cons id0 rs ih =>
    intro hall hcl hci w x P o0 w' hwit hmono hnone0 hsome0 id x2 hA
    have hid : id0 ∈ cfg.chain := hall id0 (by simp)
    have hwlt := P.wlt S
    have hepw : EPc cfg w.src w.pos := by rw [P.wsrc, P.wpos]; exact P.ep S
    obtain ⟨rest', hwx, hww, _⟩ := P.windows S
    unfold firstRule at hwit
    cases hr1 : silentBumped (runRule cfg skip0 tok0 f0 id0) w with
    | error e => rw [hr1] at hwit; simp at hwit
    | ok p1 =>
      obtain ⟨o1, w1⟩ := p1
      rw [hr1] at hwit
      obtain ⟨hi1, hs1, hm1, hp1⟩ := wit_step hq0 hs0 f0 id0 P.wi hwlt hr1
      have hw1 : w1.window = .ok (ch :: rest) := by
        rw [← hww]; exact window_congr hs1 hp1 hm1
      have hmono1 : LookupMono w1.cache m := by
        cases o1 with
        | some n =>
          simp only [Except.ok.injEq, Prod.mk.injEq] at hwit
          rw [hwit.2]; exact hmono
        | none =>
          simp only at hwit
          exact (wit_chain_grow hq0 hs0 hg0 f0 rs hi1 (by rw [hp1, hm1]; exact hwlt) hwit).mono.trans
            hmono
      have hnone1 : (id0 = .link ∧ ch = '[') ∨ (id0 = .image ∧ ch = '!') → o1 = none → v = k + 1 := by
        intro hcase ho1
        subst ho1
        simp only at hwit
        have hfire : ∀ id' ∈ rs, id'.firesAt ch = false := by
          intro id' hid'
          rcases hcase with ⟨rfl, rfl⟩ | ⟨rfl, rfl⟩
          · exact firesAt_bracket id' (fun e => not_mem_tail_of_count hcl (e ▸ hid'))
          · exact firesAt_bang id' (fun e => not_mem_tail_of_count hci (e ▸ hid'))
        have ho0 := chain_declines_of hq0 hs0 f0 rs hfire w1 hi1 hw1 _ _ hwit
        have := hnone0 ho0
        rcases hcase with ⟨_, rfl⟩ | ⟨_, rfl⟩
        · exact this
        · exact this
      have hsome1 : ∀ n, o1 = some n → v = k + n := by
        intro n ho1
        subst ho1
        simp only [Except.ok.injEq, Prod.mk.injEq] at hwit
        exact hsome0 n hwit.1.symm
      cases hA with
      | here =>
        exact ⟨w, o1, w1, P, hr1, hmono1, hnone1, hsome1⟩
      | next hrun hA' =>
        rename_i x1
        obtain ⟨eq1, post1⟩ := rule_L2 H C S P hq0 hs0 hg0 hid hr1 hmono1 hnone1 hsome1
        have hG : runRule cfg skipG tokG f id0 x false = .ok (none, x1) := eq1.trans hrun
        obtain ⟨a, b, c, d, d', e⟩ := post1 none x1 hG
        rcases e with ⟨_, e2, e3, e4⟩ | ⟨len, e1, _⟩ | ⟨n, e1, _⟩
        · subst e2
          simp only at hwit
          have P1 : Pair cfg B src Mtop m k le ch w1 x1 :=
            ⟨hi1, hs1.trans P.wsrc, hm1.trans P.wmax, hp1.trans P.wpos,
              fun hc => by subst hc; exact (wit_back H.hB P.wnocut hepw hww (P.wB rfl) hr1).1,
              fun hc hbt hi hne => by
                subst hc
                rw [hs1, hp1] at hi hne
                rw [hp1]
                exact (wit_back H.hB P.wnocut hepw hww (P.wB rfl) hr1).2 _ (P.wifp rfl hbt hi hne),
              P.nf.of_same a b c e3 d d' e4, e3.trans P.xpos, c.trans P.xmax, a.trans P.xcache⟩
          exact ih (fun id hid => hall id (List.mem_cons_of_mem _ hid))
            (count_tail_le hcl) (count_tail_le hci) w1 x1 P1 o0 w' hwit hmono hnone0 hsome0 id x2 hA'
        · simp at e1
        · simp at e1

/-- **the real link / image rule of a nested frame, at the point where it has found its label**: the
    look-ahead inside `parse_link` (label walks over the memo) returned the state it was given, and the
    nested state it is about to tokenize satisfies `ES.NF` (first half of `ES.linkRule_L2`) -/
theorem enter_core (C : Callees cfg B src Mtop f skipG skipM tokG tokM)
    (S : StepCtx src Mtop m k le v ch rest) {w x : IState} (P : Pair cfg B src Mtop m k le ch w x)
    (mk' : List Nat → Option (List Char) → Val) (en : Bool) (offset : Nat)
    (hpl : ParseLinkL2Part cfg B src Mtop offset en)
    (hshape : (offset = 0 ∧ en = false ∧ ∃ r, slice src k Mtop = .ok ('[' :: r)) ∨
      (offset = 1 ∧ en = true ∧ ∃ r, slice src k Mtop = .ok ('!' :: '[' :: r)))
    (hq0 : CalmFn skip0) (hs0 : SkipHypT skip0) (hg0 : SkipGrowHyp skip0)
    (hbx : Boundary x.src (x.pos + offset + 1)) (hlex : x.pos + offset + 1 ≤ x.posMax)
    (hbw : Boundary w.src (w.pos + offset + 1)) (hlew : w.pos + offset + 1 ≤ w.posMax)
    {o1 : Option Nat} {wb : IState}
    (hwit : linkRule cfg skip0 tok0 f0 mk' en offset { w with level := w.level + 1 } true
      = .ok (o1, wb))
    (hmono : LookupMono wb.cache m)
    (hnone : o1 = none → v = k + 1) (hsome : ∀ n, o1 = some n → v = k + n)
    {res : LinkRes} {st1 : IState}
    (hp : parseLink cfg skipM f x (x.pos + offset) en = .ok (some res, st1)) :
    st1 = x ∧ res.endPos = v ∧ NF cfg B src Mtop (nestedState x res) := by
  obtain ⟨r0, hpl0, hr0n, hr0s⟩ := linkRule_silent_inv hwit
  have hiB := P.wi.bump
  have hwbpos : wb.pos = w.pos := parseLink_pos (st := { w with level := w.level + 1 }) hpl0
  have hR := hpl skip0 f0 { w with level := w.level + 1 } wb r0 x v hq0 hs0 hg0 hiB
    P.wsrc P.wmax (P.wpos.trans P.xpos.symm) hpl0 (by rw [P.xcache]; exact hmono) P.nf.toNF (P.xlt S)
    (by rw [P.xcache, P.xpos]; exact S.lk) (by rw [P.xmax]; exact S.vle)
    (by rw [P.xpos]; exact hshape)
    (by intro h; rw [P.xpos]; exact hnone (hr0n h))
    (by
      intro res h
      obtain ⟨a, b⟩ := hr0s res h
      have := hsome _ b
      rw [hwbpos, P.wpos] at a this
      omega) f
  have hni : ¬ Interior src (k + offset + 1) ∧ esc src (k + offset + 1) = false := by
    rcases hshape with ⟨rfl, _, r, hr⟩ | ⟨rfl, _, r, hr⟩
    · exact ⟨not_interior_after_bracket hr, esc_after_bracket hr⟩
    · have := slice_drop_prefix (u := ['!']) (v := '[' :: r) hr
      have e1 : ('!' : Char).utf8Size = 1 := by decide
      simp only [byteLen, e1, Nat.add_zero] at this
      exact ⟨not_interior_after_bracket this, esc_after_bracket this⟩
  obtain ⟨R, hG, hM, hRr⟩ := pl_R C hR
  rw [hM] at hp
  cases R with
  | error e => simp at hp
  | ok r =>
    have hrr := hRr r rfl
    subst hrr
    simp only [Except.ok.injEq, Prod.mk.injEq] at hp
    obtain ⟨hr, rfl⟩ := hp
    subst hr
    have hplT := (parseLink_T (cfg := cfg) hq0 hs0 f0 _ _ en hiB hbw hlew).2 _ _ hpl0
    have hresT := hplT.2.2.2 res rfl
    obtain ⟨rb, hrb⟩ := hresT.bracket
    obtain ⟨hls, hrec⟩ :=
      parseLink_records (cfg := cfg) hq0 hs0 hg0 f0 _ _ en hiB hbw hlew res wb hpl0
    obtain ⟨hpe, ho1⟩ := hr0s res rfl
    have hv : res.endPos = v := by
      have := hsome _ ho1
      have h1 := hwbpos; have h2 := P.wpos
      omega
    obtain ⟨lo, hg⟩ := P.nf.good
    have hpG : parseLink cfg skipG f x (x.pos + offset) en = .ok (some res, x) := hG
    obtain ⟨lo2, hg2, hm2⟩ := nested_good C.calm C.skT hg P.nf.memoB hbx hlex hpG
    refine ⟨rfl, hv, ?_⟩
    show NF cfg B src Mtop (IState.mk x.src x.srcmap res.labelStart res.labelEnd
        (x.level + 1) (x.linkLevel + 1) x.cache x.backticks [] [])
    refine ⟨P.nf.ctx, P.nf.hsrc, P.nf.back, ⟨lo2, hg2⟩, ⟨rb, ?_⟩, ⟨en, f0, 1, Int.le_refl _, ?_⟩,
      P.nf.nocut, fun hbt => (P.nf.hmk hbt).of_sub rfl rfl (InsideSub.refl _), ?_, ?_⟩
    · show slice src res.labelEnd Mtop = .ok (']' :: rb)
      rw [← P.wsrc, ← P.wmax]; exact hrb
    · have := hrec x.cache (by rw [P.xcache]; exact hmono)
      show pwalk src Mtop x.cache en f0 1 res.labelStart = .done (some true) res.labelEnd
      rw [hls, ← P.wsrc, ← P.wmax]; exact this
    · intro _ hi _
      exfalso
      apply hni.1
      have hi' : Interior x.src res.labelStart := hi
      have hls' : res.labelStart = w.pos + offset + 1 := hls
      rw [P.nf.hsrc, hls', P.wpos] at hi'
      exact hi'
    · intro _ _
      have hls' : res.labelStart = w.pos + offset + 1 := hls
      show esc src res.labelStart = false
      rw [hls', P.wpos]
      exact hni.2

/-- `enter_core` for the link rule (`[`) and the image rule (`![`), from the data of `chain_arrives` -/
theorem enter_rule (H : NestHyps cfg B src Mtop) (C : Callees cfg B src Mtop f skipG skipM tokG tokM)
    (S : StepCtx src Mtop m k le v ch rest)
    (hq0 : CalmFn skip0) (hs0 : SkipHypT skip0) (hg0 : SkipGrowHyp skip0)
    {id : RuleId} (hid : id ∈ cfg.chain) {x : IState}
    (W : WitCall cfg B src Mtop skip0 tok0 f0 m k le v ch id x)
    {offset : Nat} {en : Bool}
    (hshape : (id = .link ∧ offset = 0 ∧ en = false ∧ ∃ r, x.window = .ok ('[' :: r)) ∨
      (id = .image ∧ offset = 1 ∧ en = true ∧ ∃ r, x.window = .ok ('!' :: '[' :: r)))
    {res : LinkRes} {st1 : IState}
    (hp : parseLink cfg skipM f x (x.pos + offset) en = .ok (some res, st1)) :
    st1 = x ∧ res.endPos = v ∧ NF cfg B src Mtop (nestedState x res) := by
  obtain ⟨w, o1, w1, P, hwit, hmono, hnone, hsome⟩ := W.wit
  obtain ⟨wb, hwb, rfl⟩ := silentBumped_ok hwit
  obtain ⟨rest', hwx, hww, hcut⟩ := P.windows S
  rcases hshape with ⟨rfl, rfl, rfl, r, hr⟩ | ⟨rfl, rfl, rfl, r, hr⟩
  · rw [hwx] at hr
    simp only [Except.ok.injEq, List.cons.injEq] at hr
    obtain ⟨rfl, _⟩ := hr
    have hwB : ({ w with level := w.level + 1 } : IState).window = .ok ('[' :: rest) := hww
    have hWr : runRule cfg skip0 tok0 f0 .link { w with level := w.level + 1 } true =
        linkRule cfg skip0 tok0 f0 Val.link false 0 { w with level := w.level + 1 } true := by
      unfold runRule
      simp only
      unfold ruleLink
      rw [hwB]
      simp only [liftR]
      rw [if_neg (by simp)]
    rw [hWr] at hwb
    obtain ⟨hbx, hlex⟩ := after_first (st := x) (by decide) (window_eq hwx)
    obtain ⟨hbw, hlew⟩ := after_first (st := w) (by decide) (window_eq hww)
    exact enter_core C S P Val.link false 0 (H.plLink hid) (.inl ⟨rfl, rfl, rest, S.sl⟩)
      hq0 hs0 hg0 hbx hlex hbw hlew hwb hmono (hnone (.inl ⟨rfl, rfl⟩)) hsome hp
  · rw [hwx] at hr
    simp only [Except.ok.injEq, List.cons.injEq] at hr
    obtain ⟨rfl, rfl⟩ := hr
    obtain ⟨t2, ht2⟩ : ∃ t2, rest = '[' :: t2 := by
      rcases hcut with e | ⟨r', e⟩
      · simp only [List.cons.injEq, true_and] at e
        exact ⟨r, e⟩
      · simp only [List.cons_append, List.cons.injEq, true_and] at e
        exact ⟨_, e⟩
    subst ht2
    have hwB : ({ w with level := w.level + 1 } : IState).window = .ok ('!' :: '[' :: t2) := hww
    have hWr : runRule cfg skip0 tok0 f0 .image { w with level := w.level + 1 } true =
        linkRule cfg skip0 tok0 f0 Val.image true 1 { w with level := w.level + 1 } true := by
      unfold runRule
      simp only
      unfold ruleImage
      rw [hwB]
      simp only [liftR]
    rw [hWr] at hwb
    obtain ⟨hbx, hlex⟩ := after_second (st := x) (by decide) (by decide) (window_eq hwx)
    obtain ⟨hbw, hlew⟩ := after_second (st := w) (by decide) (by decide) (window_eq hww)
    exact enter_core C S P Val.image true 1 (H.plImage hid) (.inr ⟨rfl, rfl, t2, S.sl⟩)
      hq0 hs0 hg0 hbx hlex hbw hlew hwb hmono (hnone (.inr ⟨rfl, rfl⟩)) hsome hp

end

/-! ## a delimiter run on a label walk is covered by unit memo entries -/

/-- **a run of `n` emphasis markers that starts on a label walk over the memo is covered by UNIT memo
    entries** (`k + i ↦ k + i + 1`): look-ahead never answers at a marker of a coherent chain
    (`skipStep_unit_at_marker`), so its tokens there are the single characters -/
theorem marker_units {cfg : Cfg} {B : List Char → CodePair.Cache → Prop} {src : List Char}
    {Mtop : Nat} (hcoh : ChainCoherent cfg = true) {m : List (Nat × Nat)}
    (hctx : Inline.NCtx cfg B src Mtop m) {le : Nat} (hle : le < Mtop) {ch : Char}
    (hmk : ∃ csw, RuleId.emph ch csw ∈ cfg.chain) {k : Nat} :
    ∀ n, Outer src Mtop m le k 1 → k + n ≤ le →
      (∀ i, i < n → ∃ r, slice src (k + i) le = .ok (ch :: r)) →
      ∀ i, i < n → m.lookup (k + i) = some (k + i + 1) := by
  have hf : ∀ a b, (a, b) ∈ m → a < b := fun a b h => (hctx.memo a b h).1
  intro n hO hn hall i hi
  have hOi : Outer src Mtop m le (k + i) 1 :=
    outer_marker_run hcoh hctx hle hmk i hO (by omega) (fun j hj => hall j (by omega))
  obtain ⟨r, hr⟩ := hall i hi
  obtain ⟨ch', rest', v', hsl, hlk, hkv, hvle, hOv, _⟩ := outer_step hf hOi (by omega)
  have hch : ch' = ch := by
    obtain ⟨r2, hr2⟩ := slice_head_shrink hsl (slice_boundaries hr).2.1 (by omega) (by omega)
    rw [hr] at hr2
    simp only [Except.ok.injEq, List.cons.injEq] at hr2
    exact hr2.1.symm
  subst hch
  rcases hctx.just _ _ (lookup_mem hlk) with hv | hJ
  · omega
  · obtain ⟨skip0, tok0, f0, st0, st0', hq0, hs0, _, hi0, hsrc0, hmax0, hpos0, _, _, _, hstep, hv, _⟩ :=
      hJ
    obtain ⟨csw, hcsw⟩ := hmk
    have hw0 : st0.window = .ok (ch' :: rest') := by
      unfold IState.window
      rw [hsrc0, hpos0, hmax0, hsl]
      rfl
    have := (skipStep_unit_at_marker hcoh hq0 hs0 f0 st0 hi0 hcsw hw0 st0' hstep).1
    have hv' : v' = k + i + 1 := by omega
    rw [hlk, hv']

/-! ## one real step of a nested frame against the memo -/

section
variable {cfg : Cfg} {B : List Char → CodePair.Cache → Prop} {src : List Char} {Mtop : Nat}
  {f : Nat} {skipG skipM tokG tokM : IState → Except Panic IState}

/-- how one real step from position `k` of a frame that ends at `le` relates to the memo `m`: it ends
    at `v` (the memo entry of `k`), or it is the emphasis rule of the chain taking a run of `n` of its
    marker `ch`, each character of which is a unit entry of the memo -/
def Agrees (cfg : Cfg) (src : List Char) (m : List (Nat × Nat)) (k le v : Nat) (p' : Nat) : Prop :=
  p' = v ∨ ∃ (ch : Char) (n : Nat), MarkerRun cfg src ch k le n ∧ p' = k + n ∧
    ∀ i, i < n → m.lookup (k + i) = some (k + i + 1)

/-- **one real step at a state of a nested label frame** (`ES.NF`; below the nesting limit, inside the
    frame), for the model callees at any fuel `f`:

    * the memo HAS an entry `s.pos ↦ v`, and it ends inside the frame (`s.pos < v ≤ s.posMax`);
    * if the step returns, it `Agrees` with that entry, left the memo alone, and `ES.NF` holds again;
    * every nested frame the link / image rule of this step enters satisfies `ES.NF`, was found by
      look-ahead that changed nothing (`st1 = x`), and the link ends at `v`. -/
theorem nested_agree (H : NestHyps cfg B src Mtop) (C : Callees cfg B src Mtop f skipG skipM tokG tokM)
    {s : IState} (hnf : NF cfg B src Mtop s) (hl : s.level < cfg.maxNesting)
    (hlt : s.pos < s.posMax) :
    ∃ v, s.cache.lookup s.pos = some v ∧ s.pos < v ∧ v ≤ s.posMax ∧
      (∀ s', tokStep cfg skipM tokM f s = .ok s' →
        Agrees cfg src s.cache s.pos s.posMax v s'.pos ∧ s'.cache = s.cache ∧ s'.posMax = s.posMax ∧
          s'.level = s.level ∧ NF cfg B src Mtop s') ∧
      (∀ id x offset en res st1,
        Arrives (fun id s => runRule cfg skipM tokM f id s false) cfg.chain s id x →
        ((id = .link ∧ offset = 0 ∧ en = false ∧ ∃ r, x.window = .ok ('[' :: r)) ∨
          (id = .image ∧ offset = 1 ∧ en = true ∧ ∃ r, x.window = .ok ('!' :: '[' :: r))) →
        parseLink cfg skipM f x (x.pos + offset) en = .ok (some res, st1) →
        st1 = x ∧ res.endPos = v ∧ NF cfg B src Mtop (nestedState x res)) := by
  have hf : ∀ k v, (k, v) ∈ s.cache → k < v := fun k v h => (hnf.ctx.memo k v h).1
  obtain ⟨ch, rest, v, hsl, hlk, hkv, hvle, hOv, _⟩ := outer_step hf hnf.outer hlt
  have htop := hnf.top_lt
  have S : StepCtx src Mtop s.cache s.pos s.posMax v ch rest := ⟨hsl, hlk, hvle, hlt⟩
  rcases hnf.ctx.just _ _ (lookup_mem hlk) with hvM | hJ
  · omega
  obtain ⟨skip0, tok0, f0, st0, o0, w', hq0, hs0, hg0, hi0, hsrc0, hmax0, hpos0, hB0, hifp0, hfr, hmono,
    hn0, hs0'⟩ := just_chain hJ hsl
  have P : Pair cfg B src Mtop s.cache s.pos s.posMax ch st0 s :=
    ⟨hi0, hsrc0, hmax0, hpos0, fun _ => hB0, fun _ => hifp0, hnf, rfl, rfl, rfl⟩
  refine ⟨v, hlk, hkv, hvle, ?_, ?_⟩
  · obtain ⟨eq1, post1⟩ := chain_L2 H C S hq0 hs0 hg0 cfg.chain (fun _ h => h) H.one.1 H.one.2 st0 s P
      o0 w' hfr hmono hn0 hs0'
    obtain ⟨eqS, postS⟩ := nested_step H C hnf hl hlt
    intro s' hM
    have h : tokStep cfg skipG tokG f s = .ok s' := eqS.trans hM
    obtain ⟨k1, k2, k3, _, k5⟩ := postS s' h
    obtain ⟨lo, hg⟩ := hnf.good
    have hT := tokStep_T (coherent_hsz H.coh) C.calm C.skT C.tokT C.rng f s hg hnf.memoB hlt
    obtain ⟨_, _, fr', _⟩ := hT.2 s' h
    refine ⟨?_, k1, k2, fr'.level, k5⟩
    unfold tokStep at h
    simp only [if_pos hl] at h
    cases hG : firstRule (fun id s => runRule cfg skipG tokG f id s false) cfg.chain s with
    | error e => rw [hG] at h; simp at h
    | ok p =>
      obtain ⟨o, x'⟩ := p
      rw [hG] at h
      obtain ⟨a, b, c, d, d', e⟩ := post1 o x' hG
      rcases e with ⟨e1, e2, e3, _⟩ | ⟨len, e1, _, e3⟩ | ⟨n, e1, e2, e3⟩
      · subst e1
        simp only at h
        obtain ⟨c', hfc, hp', hc', hb', hs', _, _⟩ := fallback_keeps h
        obtain ⟨rest', hwx, _, _⟩ := P.windows S
        have hwx' : x'.window = .ok (ch :: rest') := by
          rw [← hwx]; exact window_congr b e3 c
        unfold firstChar at hfc
        rw [hwx'] at hfc
        simp only [liftR, Except.ok.injEq] at hfc
        subst hfc
        have hv : v = s.pos + ch.utf8Size := hn0 e2
        exact .inl (by rw [hp', e3, ← hv])
      · subst e1
        simp only [Except.ok.injEq] at h
        subst h
        exact .inl e3
      · subst e1
        simp only [Except.ok.injEq] at h
        subst h
        refine .inr ⟨ch, n, e3, ?_, ?_⟩
        · show x'.pos + n = s.pos + n
          rw [e2]
        · obtain ⟨hmk, _, h2, h3⟩ := e3
          exact marker_units H.coh hnf.ctx.toNCtx htop hmk n hnf.outer h2 h3
  · intro id x offset en res st1 hA hshape hp
    have W := chain_arrives H C S hq0 hs0 hg0 cfg.chain (fun _ h => h) H.one.1 H.one.2 st0 s P
      o0 w' hfr hmono hn0 hs0' id x hA
    exact enter_rule H C S hq0 hs0 hg0 hA.mem W hshape hp

end

end MdIt.Inline.ES.C16Doc
