/-
  C10 with the sourcepos plugin, ALL sources, part 1: the per-line tables, virtual-space entries included.

    * `segT_of_getLines`, `inlSpec3_psegT`, `doc_placeholder_segsT`  EVERY placeholder `(c, m)` of the block
      tree is segmented by `C05T.tf_Seg` (a REAL entry: a LF-free stretch of `c` that is a copy of source
      bytes; a VIRTUAL entry: a run of spaces of `c` sitting on ONE source offset, that of its successor);
    * `tr_shiftT`   under such a table and its shifted copy EVERY position `p ≤ |c|` is translated to `a` and
                    `a + #LF before a` (inside a virtual segment both translations are clamped to the offset
                    the segment sits on);
    * `tr_onByteT`  a position at which a character other than LF and space starts lies in a real segment and
                    is translated to a byte that is not a line feed;
    * `mapT_shift`, `mle_shiftT`   the shifted table is as good a table (`C05T.MapT`).
-/
import MdIt.Props.C05Tabs
import MdIt.Lemmas.C10SpFullTables
import MdIt.Lemmas.C10SpTabsDefs

namespace MdIt.C05T
open MdIt.InlineOps (Srcmap getSourcePosFor byteLen)
open MdIt.Lines (LineOffset)
open MdIt.C05I (SegAll segAll_get)

/-- `tf_getLines_pfthV` stopped one step earlier -/
theorem segT_of_getLines {src : List Char} {offs : List LineOffset}
    (hT : ∀ (k : Nat) (o : LineOffset), offs[k]? = some o → Block.LineOk src o)
    (hord : Block.SortedS offs) (hterm : C05R.TermOk src offs)
    {b e indent : Nat} {c : List Char} {m : Srcmap} (hbe : b < e)
    (h : Lines.getLines src offs b e indent false = .ok (c, m)) : SegAll (tf_Seg src c) m := by
  have hlen : e ≤ offs.length := by
    unfold Lines.getLines at h
    rw [if_neg (by omega)] at h
    exact Lines.getLinesGo_ok_len h hbe
  obtain ⟨ovs, hvl, hv⟩ := C05R.fa_ovs_of_tableOk hT (e - b) b (by omega)
  obtain ⟨content, hget, hcontent, _⟩ :=
    Lines.get_lines_faithful src offs b indent false ovs (fun j hj => ⟨(hv j hj).1, (hv j hj).2.1⟩)
  rw [hvl, show b + (e - b) = e by omega, h] at hget
  simp only [Except.ok.injEq, Prod.mk.injEq] at hget
  obtain ⟨rfl, rfl⟩ := hget
  have hseg := tf_mapOf_seg src indent ovs [] (by
    intro ov hov
    obtain ⟨j, hj, rfl⟩ := List.getElem_of_mem hov
    exact (hv j hj).2) (by
    apply C05R.fa_chain_of
    intro j a a' ha ha'
    simp only [List.getElem?_map, Option.map_eq_some_iff] at ha ha'
    obtain ⟨x, hx, rfl⟩ := ha
    obtain ⟨y, hy, rfl⟩ := ha'
    obtain ⟨hj, rfl⟩ := List.getElem?_eq_some_iff.mp hx
    obtain ⟨hj', rfl⟩ := List.getElem?_eq_some_iff.mp hy
    have h1 := hord (b + j) (b + (j + 1)) _ _ (by omega) (hv j hj).1 (hv (j + 1) hj').1
    refine ⟨h1, ?_⟩
    rcases hterm _ _ (hv j hj).1 with h2 | h2
    · exfalso
      have := (hT _ _ (hv (j + 1) hj').1).bounds
      rw [C05I.linesLen_eq] at this
      omega
    · exact h2)
  simp only [List.nil_append, byteLen] at hseg
  rw [← hcontent] at hseg
  exact hseg

end MdIt.C05T

namespace MdIt.Block
open MdIt.Lines (LineOffset)

/-- `PTabsF`, and the table is segmented -/
def PSegT (src0 : List Char) : InlP := fun c m a b =>
  PTabsF src0 c m a b ∧ C05I.SegAll (C05T.tf_Seg src0 c) m

theorem inlSpec3_psegT (src0 : List Char) : InlSpec3 src0 (PSegT src0) := by
  refine ⟨?_, ?_⟩
  · intro s b e c m ob oe hg hgl hbe hob hoe hkept
    refine ⟨(inlSpec3_ptabsF src0).lines s b e c m ob oe hg hgl hbe hob hoe hkept, ?_⟩
    have := C05T.segT_of_getLines hg.g2.geo.table hg.g2.strict hg.term hbe (C05I.getLines_lift hgl)
    rw [hg.g2.srcEq] at this
    exact this
  · intro s o line content textPos textMax hg ho hline hcontent
    refine ⟨(inlSpec3_ptabsF src0).heading s o line content textPos textMax hg ho hline hcontent, ?_⟩
    have h1 : Lines.getLine s.src s.offs s.line = .ok line := liftL_ok5 hline
    unfold Lines.getLine at h1
    rw [ho] at h1
    simp only at h1
    obtain ⟨hc, hn⟩ := C05R.fa_heading_cut (hg.g2.geo.table _ _ ho) h1 (liftL_ok5 hcontent)
    rw [hg.g2.srcEq] at hc
    exact ⟨.inr ⟨[], content, [], by simp, rfl, hn, hc, rfl⟩, trivial⟩

end MdIt.Block

namespace MdIt.Pipeline
open MdIt.InlineOps (Srcmap getSourcePosFor byteLen)
open MdIt.C05R (Cut Bdy fa_Seg)
open MdIt.C05T
open MdIt.C05I (SegAll segAll_get KeysLFV)

/-- what is known of EVERY placeholder -/
structure TabT (src c : List Char) (m : Srcmap) : Prop where
  wf : C05.WFMap m
  monoV : C05.MonoMapV m
  keys : KeysLFV c m
  virt : VirtSp c m
  seg : SegAll (tf_Seg src c) m

theorem TabT.mapT {src c : List Char} {m : Srcmap} (h : TabT src c m) : MapT c m :=
  mapT_of_virt h.wf h.monoV h.keys h.virt

/-- **every placeholder of the block tree has a segmented table**, for every source -/
theorem doc_placeholder_segsT (cfg : DocCfg) (src : List Char)
    (hsmall : 4 * Lines.byteLen src + 8 < 2147483648) (hpara : cfg.hasPara = true)
    {root : Block.BNode} {refs : Refs.RefMap} (hb : Block.parseBlocks cfg.blockCfg src = .ok (root, refs)) :
    Block.AllInl (fun c m => TabT src c m) root := by
  obtain ⟨hr, hg⟩ := Block.parseBlocks_geo3 (cfg := cfg.blockCfg) hpara (Block.inlSpec3_psegT src) hsmall hb
  refine hg.allInl (Q := fun c m => TabT src c m) ?_ ?_
  · intro c m a b ⟨⟨⟨⟨hw, hv, hk, _⟩, _, hvs⟩, _, _⟩, hs⟩
    exact ⟨hw, hv, hk, hvs, hs⟩
  · intro c m hk hrg
    rw [hr] at hrg; cases hrg

/-! ## translation under the shifted table -/

/-- the two cases of `tf_locate`, for a position inside the text, with what each gives -/
theorem segT_locate {src c : List Char} {m : Srcmap} (h : TabT src c m) {p : Nat} (hp : p ≤ byteLen c) :
    ∃ i k v, InlineOps.lineOf m p = .ok i ∧ m[i]? = some (k, v) ∧ k ≤ p ∧
      ((∃ k', m[i + 1]? = some (k', v) ∧ p < k' ∧ getSourcePosFor m p = .ok v ∧
          ∃ pre n post, c = pre ++ List.replicate n ' ' ++ post ∧ byteLen pre = k ∧ k' = k + n) ∨
       (∃ t, p - k ≤ byteLen t ∧ getSourcePosFor m p = .ok (v + (p - k)) ∧ '\n' ∉ t ∧
          Cut src v (v + byteLen t) t ∧ (∀ k' v', m[i + 1]? = some (k', v') → v + byteLen t < v') ∧
          ∃ pre post, c = pre ++ t ++ post ∧ byteLen pre = k ∧ (post = [] ∨ ∃ post', post = '\n' :: post'))) := by
  obtain ⟨i, k, v, h1, h2, h3, h4⟩ := C05.lineOf_spec m h.wf p
  have hcl := C05.getSourcePosFor_of_line_clamp m p i k v h1 h2 h3
  refine ⟨i, k, v, h1, h2, h3, ?_⟩
  rcases segAll_get h.seg h2 with ⟨k', hn, _, hdata⟩ | hseg
  · left
    simp only at hn hdata
    have hpk := h4 (i + 1) k' v (by omega) hn
    refine ⟨k', hn, hpk, ?_, hdata⟩
    rw [hcl]
    unfold C05.clampNext
    rw [hn]
    simp only [Except.ok.injEq]
    omega
  · right
    obtain ⟨pre, t, post, hcc, hpre, hnt, hsrc, hnext⟩ := hseg
    simp only at hpre hsrc hnext
    have hd : p - k ≤ byteLen t := by
      cases hn : m[i + 1]? with
      | none =>
        rw [hn] at hnext
        subst hnext
        rw [hcc] at hp
        simp only [C05.byteLen_append, List.append_nil] at hp
        omega
      | some y =>
        rw [hn] at hnext
        obtain ⟨post', _, hk, _, _⟩ := hnext
        have := h4 (i + 1) y.1 y.2 (by omega) hn
        omega
    have hnx : ∀ k' v', m[i + 1]? = some (k', v') → v + byteLen t < v' := by
      intro k' v' hn
      rw [hn] at hnext
      obtain ⟨post', _, _, hv, _⟩ := hnext
      exact hv
    have hpost : post = [] ∨ ∃ post', post = '\n' :: post' := by
      cases hn : m[i + 1]? with
      | none => rw [hn] at hnext; exact .inl hnext
      | some y =>
        rw [hn] at hnext
        obtain ⟨post', hp', _⟩ := hnext
        exact .inr ⟨post', hp'⟩
    refine ⟨t, hd, ?_, hnt, hsrc, hnx, ⟨pre, post, hcc, hpre, hpost⟩⟩
    rw [hcl, C05.clampNext_eq]
    intro k' v' hn
    have := hnx k' v' hn
    omega

/-- **every position of the inline text is translated exactly**, virtual segments included -/
theorem tr_shiftT {src c : List Char} {m : Srcmap} (h : TabT src c m) {p a : Nat} (hp : p ≤ byteLen c)
    (ha : getSourcePosFor m p = .ok a) :
    getSourcePosFor (shiftMap src m) p = .ok (a + C10SP.lfBelow src a) := by
  obtain ⟨i, k, v, h1, h2, h3, hcase⟩ := segT_locate h hp
  have hl2 : InlineOps.lineOf (shiftMap src m) p = .ok i := by
    unfold InlineOps.lineOf at h1 ⊢
    rw [shiftMap_keys]; exact h1
  have hg2 : (shiftMap src m)[i]? = some (k, v + C10SP.lfBelow src v) := by
    rw [shiftMap_get, h2]; rfl
  have hcl := C05.getSourcePosFor_of_line_clamp (shiftMap src m) p i k _ hl2 hg2 h3
  rcases hcase with ⟨k', hn, hpk, htr, _⟩ | ⟨t, hd, htr, hnt, hcut, hnx, _⟩
  · rw [htr] at ha
    simp only [Except.ok.injEq] at ha
    subst ha
    rw [hcl]
    unfold C05.clampNext
    rw [shiftMap_get, hn]
    simp only [Option.map_some, Except.ok.injEq]
    omega
  · rw [htr] at ha
    simp only [Except.ok.injEq] at ha
    subst ha
    have hlf := lfBelow_cut hcut hnt (p - k) hd
    rw [hcl, C05.clampNext_eq, hlf]
    · congr 1; omega
    · intro k' v' hn
      rw [shiftMap_get] at hn
      cases hm : m[i + 1]? with
      | none => rw [hm] at hn; simp at hn
      | some y =>
        rw [hm] at hn
        simp only [Option.map_some, Option.some.injEq, Prod.mk.injEq] at hn
        obtain ⟨_, rfl⟩ := hn
        have := hnx y.1 y.2 (by rw [hm])
        have hmono := lfBelow_mono src (a := v) (b := y.2) (by omega)
        omega

theorem charSolid_lt {c : List Char} {p : Nat} (h : C10SP.CharSolid c p) : p < byteLen c := by
  obtain ⟨u, ch, w, rfl, rfl, _⟩ := h
  have := Char.utf8Size_pos ch
  simp only [C05.byteLen_append, byteLen]; omega

/-- a solid character is not one of the spaces of a virtual segment: it is translated to a byte of the
    document that is not a line feed -/
theorem tr_onByteT {src c : List Char} {m : Srcmap} (h : TabT src c m) {p a : Nat}
    (hc : C10SP.CharSolid c p) (ha : getSourcePosFor m p = .ok a) :
    ∃ u ch w, src = u ++ ch :: w ∧ byteLen u = a ∧ ch ≠ '\n' := by
  have hp := charSolid_lt hc
  obtain ⟨u, ch, w, hcc, hu, hch, hsp⟩ := hc
  obtain ⟨i, k, v, h1, h2, h3, hcase⟩ := segT_locate h (Nat.le_of_lt hp)
  rcases hcase with ⟨k', hn, hpk, _, pre, n, post, hcc', hpre, hk'⟩ |
    ⟨t, hd, htr, hnt, hcut, _, pre, post, hcc', hpre, hpost⟩
  · -- inside a run of spaces: impossible
    exfalso
    have hj : p - k < n := by omega
    have h1 : CharAt c p ' ' := by
      have := tb_charAt_replicate (pre := pre) (post := post) hj
      rw [← hcc', hpre] at this
      rwa [show k + (p - k) = p by omega] at this
    exact hsp (sh_charAt_unique ⟨u, w, hcc, hu⟩ h1)
  · rw [htr] at ha
    simp only [Except.ok.injEq] at ha
    subst ha
    -- split `c = pre ++ t ++ post = u ++ ch :: w` at `u = pre ++ x`
    have e : pre ++ (t ++ post) = u ++ (ch :: w) := by rw [← List.append_assoc, ← hcc', hcc]
    obtain ⟨x, hx1, hx2⟩ := Inline.append_prefix pre (t ++ post) u (ch :: w) e (by omega)
    have hxl : byteLen x = p - k := by
      have := congrArg byteLen hx1
      rw [C05.byteLen_append] at this; omega
    have hsub : ∃ t2, t = x ++ ch :: t2 := by
      by_cases hlt : byteLen x < byteLen t
      · obtain ⟨y, hy1, hy2⟩ := Inline.append_prefix x (ch :: w) t post hx2.symm (by omega)
        cases y with
        | nil =>
          simp only [List.append_nil] at hy1
          rw [hy1] at hlt; omega
        | cons y0 ys =>
          simp only [List.cons_append, List.cons.injEq] at hy2
          obtain ⟨rfl, _⟩ := hy2
          exact ⟨ys, hy1⟩
      · exfalso
        have hxt : byteLen x = byteLen t := by omega
        obtain ⟨_, e2⟩ := C05R.prefix_unique hx2.symm hxt
        rcases hpost with rfl | ⟨post', rfl⟩
        · cases e2
        · simp only [List.cons.injEq] at e2
          exact hch e2.1
    obtain ⟨t2, ht⟩ := hsub
    obtain ⟨P, Q, hs, hP, _⟩ := hcut
    refine ⟨P ++ x, ch, t2 ++ Q, ?_, ?_, hch⟩
    · rw [hs, ht]; simp [List.append_assoc]
    · rw [C05.byteLen_append]; omega

end MdIt.Pipeline
