/-
  C10 with the sourcepos plugin, full version, part 4: the two invariance theorems from ONE remaining
  ingredient, the exact inline simulation (`InlineExactThm`; `Lemmas/C10SpFullInline*.lean`).
-/
import MdIt.Lemmas.C10SpFullAssembly

namespace MdIt.Pipeline
open MdIt
open MdIt.InlineOps (Srcmap getSourcePosFor byteLen)
open MdIt.C05I (NoVirt)
open MdIt.Lines (lfToCrlf)

/-- the statement of the exact inline simulation for one inline configuration -/
def InlineExactThm (icfg : Inline.Cfg) : Prop :=
  ∀ (c : List Char) (m₁ m₂ : Srcmap), Inline.MapOK c m₁ → Inline.MapOK c m₂ → MLe m₁ m₂ →
    ∀ ns₁, Inline.parseInline icfg c m₁ = .ok ns₁ →
      ∃ ns₂, Inline.parseInline icfg c m₂ = .ok ns₂ ∧ C10SP.XL c m₁ m₂ ns₁ ns₂

theorem mle_refl (m : Srcmap) : MLe m m :=
  ⟨rfl, fun i k₁ v₁ k₂ v₂ h1 h2 => by rw [h1] at h2; simp only [Option.some.injEq, Prod.mk.injEq] at h2; omega⟩

/-- `InlineExact` at a placeholder with a segmented table -/
theorem inlineExact_of_tab {icfg : Inline.Cfg} (hx : InlineExactThm icfg) {src c : List Char} {m : Srcmap}
    (h : TabOK src c m) : InlineExact icfg (shiftOf src) c m (shiftMap src m) := by
  intro ns₁ ns₂ h₁ h₂
  obtain ⟨ns₂', h₂', hxl⟩ := hx c m (shiftMap src m) h.map (mapOK_shift h) (mle_shift src m) ns₁ h₁
  rw [h₂] at h₂'
  simp only [Except.ok.injEq] at h₂'
  subst h₂'
  exact xl_rmap h ns₁ ns₂ hxl

/-- the inline nodes of a placeholder with a segmented table are anchored -/
theorem inline_anchored {icfg : Inline.Cfg} (hx : InlineExactThm icfg) {src c : List Char} {m : Srcmap}
    (h : TabOK src c m) {ns : List Inline.Node} (hp : Inline.parseInline icfg c m = .ok ns) :
    ∀ n ∈ ofInlineList ns, Every (fun n => AnchK src n.kind n.range) n := by
  obtain ⟨ns₂, _, hxl⟩ := hx c m m h.map h.map (mle_refl m) ns hp
  exact xl_every h ns ns₂ hxl

/-- every placeholder of the block tree has a segmented table, in a document without split tab -/
theorem doc_tabOK (cfg : DocCfg) (src : List Char)
    (hsmall : 4 * Lines.byteLen src + 8 < 2147483648) (hpara : cfg.hasPara = true) (hnv : NoSplitTab cfg src)
    {root : Block.BNode} {refs : Refs.RefMap} (hb : Block.parseBlocks cfg.blockCfg src = .ok (root, refs)) :
    Block.AllInl (fun c m => TabOK src c m) root :=
  allInl_mp (doc_placeholder_segs cfg src hsmall hpara hb) (hnv root refs hb)

theorem onByteLf_of_onByte {src : List Char} {a : Nat} (h : Block.OnByte src a) : OnByteLf src a := by
  obtain ⟨p, c, q, h1, h2, h3, _⟩ := h
  exact ⟨p, c, q, h1, by rw [← C05I.linesLen_eq]; exact h2, h3⟩

/-- **every attribute-rendering node of the parsed tree starts at a byte that is not a line feed** -/
theorem doc_anchored (cfg : DocCfg) (src : List Char) (hsp : cfg.sourcepos = true)
    (hx : ∀ refs, InlineExactThm (cfg.inlineCfg refs))
    (hsmall : 4 * Lines.byteLen src + 8 < 2147483648) (hpara : cfg.hasPara = true) (hnv : NoSplitTab cfg src)
    {t : Node} (h : parseDoc cfg src = .ok t) : Every (fun n => AnchK src n.kind n.range) t := by
  unfold parseDoc at h
  split at h
  · cases h
  · rename_i root refs hb
    obtain ⟨hroot, _⟩ := Block.parseBlocks_wf hb
    have htab := doc_tabOK cfg src hsmall hpara hnv hb
    have hnr := Block.parseBlocks_inlNoRange hb
    have hanch := Block.parseBlocks_anchored cfg.blockCfg src hb
    rw [afterBlocks_sp cfg hsp] at h
    split at h
    · cases h
    · rename_i t0 hs
      simp only [Except.ok.injEq] at h
      subst h
      apply spPure_everyKR
      apply joined_everyK (fun k r hk => anchK_nr src k r hk)
      refine spliceNode_everyKR (Q := AnchK src)
        (Pb := fun _ r => ∀ a b, r = some (a, b) → a < b ∧ Block.OnByte src a)
        (Pi := fun c m => TabOK src c m) ?_ ?_ root t0 ?_ ?_ hs
      · intro k r hp _ a b hr
        exact onByteLf_of_onByte (hp a b hr).2
      · intro ct m ns hp hns
        exact inline_anchored (hx refs) hp hns
      · rw [hroot]; exact anchK_nr src _ _ rfl
      · exact bok_of_facts root hanch htab.child hnr.child

/-- **C10 with sourcepos, final newline**, from the exact inline simulation -/
theorem doc_final_newline_sp_of_inline (x : Bool) (cfg : DocCfg) (src : List Char) (hsp : cfg.sourcepos = true)
    (hlast : src.getLast? ≠ some '\n' ∧ src.getLast? ≠ some '\r')
    (hx : ∀ refs, InlineExactThm (cfg.inlineCfg refs))
    (hsmall : 4 * Lines.byteLen src + 8 < 2147483648) (hpara : cfg.hasPara = true)
    (hmk : C05R.AsciiMarkers cfg.inlineChain) (hnv : NoSplitTab cfg src) :
    renderDoc x cfg (src ++ ['\n']) = renderDoc x cfg src := by
  refine renderDoc_of_blocks_eq_sp x cfg _ _ hsp
    (Block.LE.parseBlocks_final_newline cfg.blockCfg src hlast (.inr (Block.parseBlocks_fuel _ _)))
    (insideB src) ?_ ?_
  · intro r h
    have hi : C10SP.Inside src r := by simpa [insideB] using h
    have h3 : C10SP.endOff r.2 + 1 ≤ SourceMap.byteLen src := by
      unfold C10SP.endOff; split <;> have := hi.1 <;> have := hi.2 <;> omega
    simp only [posAttr]
    rw [C10SP.runSt_append_left src ['\n'] 1 0 _ (by have := hi.1; omega) (.inl hlast.2),
      C10SP.runSt_append_left src ['\n'] 1 0 _ h3 (.inl hlast.2)]
  · intro t ht
    exact (checks_of_every (doc_anchored cfg src hsp hx hsmall hpara hnv ht)
      (doc_ranges_ok cfg src t hsmall hpara hmk hnv ht).2).1

/-- **C10 with sourcepos, LF ↦ CR LF**, from the exact inline simulation -/
theorem doc_crlf_sp_of_inline (x : Bool) (cfg : DocCfg) (src : List Char) (hsp : cfg.sourcepos = true)
    (hcr : '\r' ∉ src) (hinl : ∀ e, parseDoc cfg src ≠ .error (.inline e))
    (hx : ∀ refs, InlineExactThm (cfg.inlineCfg refs))
    (hsmall : 4 * Lines.byteLen src + 8 < 2147483648) (hpara : cfg.hasPara = true)
    (hmk : C05R.AsciiMarkers cfg.inlineChain) (hnv : NoSplitTab cfg src) :
    renderDoc x cfg (lfToCrlf src) = renderDoc x cfg src := by
  have hstrict := Block.LX.Y.parseBlocks_crlf_strict cfg.blockCfg src hcr
  have hle : Block.LE.BRes (C10SP.crlfRel src) (Block.parseBlocks cfg.blockCfg src)
      (Block.parseBlocks cfg.blockCfg (lfToCrlf src)) :=
    Block.LX.Y.BRes.toLE (fun x y h => h) (fun a b h => h) hstrict
  refine doc_crlf_sp_of_blocks_q x cfg src hsp hcr hle hinl ?_ (anchLeB src)
    (fun r h => posAttr_crlf_le src hcr r h) ?_
  · intro root₁ refs₁ root₂ refs₂ h1 h2
    rcases hstrict with ⟨a, b, e1, e2, _, hc, _⟩ | ⟨e, e1, _⟩
    · rw [h1] at e1; rw [h2] at e2
      simp only [Except.ok.injEq] at e1 e2
      subst e1 e2
      have htab := doc_tabOK cfg src hsmall hpara hnv h1
      have hnr := Block.parseBlocks_inlNoRange h1
      obtain ⟨k₁, r₁, c₁⟩ := root₁
      obtain ⟨k₂, r₂, c₂⟩ := root₂
      simp only [PlN2]
      exact plL2_of_nrelL (Q := fun c m => TabOK src c m)
        (fun c m hq => inlineExact_of_tab (hx refs₁) hq) c₁ c₂ hc htab.child hnr.child
    · rw [h1] at e1; cases e1
  · intro t ht
    exact (checks_of_every (doc_anchored cfg src hsp hx hsmall hpara hnv ht)
      (doc_ranges_ok cfg src t hsmall hpara hmk hnv ht).2).2

end MdIt.Pipeline
