/-
  Helper development for `Props/MemoSafe.lean` (the open memo lemma of C01's inline totality):
  shared definitions — what the `skip_token` memo looks like relative to ONE frame `[lo, M)`.

    * `Closed m a b`  — every memo entry that starts in `[a, b)` ends at or before `b`
                        (`Closed st.cache lo st.posMax` is what makes the guard of `skipTokenG`
                        unreachable in the frame `[lo, posMax)`: `closed_hit`);
    * `New M c c'`    — every entry of `c'` is an entry of `c` or ends at or before `M`
                        (what a look-ahead run inside a frame with `pos_max = M` does to the memo;
                        keeps `Closed _ _ M`: `Closed.of_new`);
    * `Laminar m`     — no two memo entries cross (`k ≤ k' < v → v' ≤ v`; unique keys included);
    * `Path m a b`    — `b` is reached from `a` by following memo entries (`lookup`);
    * `closed_of_path` — a path over a laminar memo is closed: the bridge from laminarity to the frame
                        entry condition.
-/
import MdIt.Lemmas.InlineTotalLoop

namespace MdIt.Inline
open MdIt.InlineOps (Srcmap getSourcePosFor getMap byteLen slice)

/-- every memo entry that starts in `[a, b)` ends at or before `b` -/
def Closed (m : List (Nat × Nat)) (a b : Nat) : Prop :=
  ∀ k v, (k, v) ∈ m → a ≤ k → k < b → v ≤ b

/-- every entry of `c'` is an entry of `c` or ends at or before `M` -/
def New (M : Nat) (c c' : List (Nat × Nat)) : Prop :=
  ∀ k v, (k, v) ∈ c' → (k, v) ∈ c ∨ v ≤ M

/-- no two memo entries cross, and no key has two different entries (`k = k'` gives `v' ≤ v` both ways) -/
def Laminar (m : List (Nat × Nat)) : Prop :=
  ∀ k v k' v', (k, v) ∈ m → (k', v') ∈ m → k ≤ k' → k' < v → v' ≤ v

/-- `b` is reached from `a` by following memo entries -/
inductive Path (m : List (Nat × Nat)) : Nat → Nat → Prop where
  | refl (a : Nat) : Path m a a
  | step {a b c : Nat} : m.lookup a = some b → Path m b c → Path m a c

theorem New.refl (M : Nat) (c : List (Nat × Nat)) : New M c c := fun _ _ h => .inl h

theorem New.trans {M : Nat} {a b c : List (Nat × Nat)} (h1 : New M a b) (h2 : New M b c) :
    New M a c := by
  intro k v h
  rcases h2 k v h with h | h
  · exact h1 k v h
  · exact .inr h

theorem New.mono {M M' : Nat} {a b : List (Nat × Nat)} (h : New M a b) (hle : M ≤ M') : New M' a b := by
  intro k v hkv
  rcases h k v hkv with h | h
  · exact .inl h
  · exact .inr (by omega)

theorem New.insert {M : Nat} {a b : List (Nat × Nat)} (h : New M a b) {k v : Nat} (hv : v ≤ M) :
    New M a (cacheInsert b k v) := by
  intro k' v' h'
  unfold cacheInsert at h'
  simp only [List.mem_cons, Prod.mk.injEq] at h'
  rcases h' with ⟨rfl, rfl⟩ | h'
  · exact .inr hv
  · exact h k' v' h'

/-- growth inside the frame keeps the frame closed -/
theorem Closed.of_new {c c' : List (Nat × Nat)} {lo M : Nat} (h : Closed c lo M) (hn : New M c c') :
    Closed c' lo M := by
  intro k v hkv hlo hlt
  rcases hn k v hkv with h' | h'
  · exact h k v h' hlo hlt
  · exact h'

theorem Closed.mono_lo {m : List (Nat × Nat)} {a a' b : Nat} (h : Closed m a b) (hle : a ≤ a') :
    Closed m a' b := fun k v hkv h1 h2 => h k v hkv (by omega) h2

theorem Closed.empty (m : List (Nat × Nat)) (a : Nat) : Closed m a a := by
  intro k v _ h1 h2; omega

theorem Closed.nil (a b : Nat) : Closed [] a b := by
  intro k v h; simp at h

/-- closed ranges concatenate -/
theorem Closed.append {m : List (Nat × Nat)} {a b c : Nat} (h1 : Closed m a b) (h2 : Closed m b c)
    (hbc : b ≤ c) : Closed m a c := by
  intro k v hkv hlo hlt
  by_cases hk : k < b
  · have := h1 k v hkv hlo hk; omega
  · exact h2 k v hkv (by omega) hlt

/-- **what `Closed` is for**: a memo hit at a position of the frame ends inside the frame, so the guard
    of `skipTokenG` does not trip -/
theorem closed_hit {st : IState} {lo x : Nat} (hc : Closed st.cache lo st.posMax) (hlo : lo ≤ st.pos)
    (hlt : st.pos < st.posMax) (hx : st.cache.lookup st.pos = some x) : x ≤ st.posMax :=
  hc _ _ (lookup_mem hx) hlo hlt

/-- one memo step over a laminar memo is closed -/
theorem closed_of_step {m : List (Nat × Nat)} (hl : Laminar m) {a b : Nat} (h : m.lookup a = some b) :
    Closed m a b := by
  intro k v hkv hlo hlt
  exact hl a b k v (lookup_mem h) hkv hlo hlt

/-- **a memo path over a laminar memo is closed** — with the `Path m ls le` left by the look-ahead walk
    of a label this is the frame entry condition `Closed m ls le` -/
theorem closed_of_path {m : List (Nat × Nat)} (hl : Laminar m)
    (hf : ∀ k v, (k, v) ∈ m → k < v) {a b : Nat} (h : Path m a b) : Closed m a b := by
  induction h with
  | refl a => exact Closed.empty m a
  | step hab _ ih =>
    refine Closed.append (closed_of_step hl hab) ih ?_
    -- the rest of the path goes forward
    rename_i a b c hbc
    clear ih hab
    induction hbc with
    | refl a => exact Nat.le_refl _
    | step h _ ih => have := hf _ _ (lookup_mem h); omega

theorem Path.le {m : List (Nat × Nat)} (hf : ∀ k v, (k, v) ∈ m → k < v) {a b : Nat}
    (h : Path m a b) : a ≤ b := by
  induction h with
  | refl a => exact Nat.le_refl _
  | step h _ ih => have := hf _ _ (lookup_mem h); omega

theorem Path.trans {m : List (Nat × Nat)} {a b c : Nat} (h1 : Path m a b) (h2 : Path m b c) :
    Path m a c := by
  induction h1 with
  | refl a => exact h2
  | step h _ ih => exact .step h (ih h2)


/-! ## growth of the memo as `lookup` sees it -/

/-- `c'` answers every `lookup` that `c` answers, the same way -/
def LookupMono (c c' : List (Nat × Nat)) : Prop := ∀ k v, c.lookup k = some v → c'.lookup k = some v

/-- what a look-ahead run that only visits positions `≥ p` inside a frame with `pos_max = M` does to
    the memo: old answers stay, keys below `p` are untouched, new entries end at or before `M` -/
structure Grow (p M : Nat) (c c' : List (Nat × Nat)) : Prop where
  new : New M c c'
  mono : LookupMono c c'
  low : ∀ k, k < p → c'.lookup k = c.lookup k

theorem LookupMono.refl (c : List (Nat × Nat)) : LookupMono c c := fun _ _ h => h

theorem LookupMono.trans {a b c : List (Nat × Nat)} (h1 : LookupMono a b) (h2 : LookupMono b c) :
    LookupMono a c := fun k v h => h2 k v (h1 k v h)

theorem Grow.refl (p M : Nat) (c : List (Nat × Nat)) : Grow p M c c :=
  ⟨New.refl M c, LookupMono.refl c, fun _ _ => rfl⟩

theorem Grow.trans {p M : Nat} {a b c : List (Nat × Nat)} (h1 : Grow p M a b) (h2 : Grow p M b c) :
    Grow p M a c :=
  ⟨h1.new.trans h2.new, h1.mono.trans h2.mono, fun k hk => (h2.low k hk).trans (h1.low k hk)⟩

theorem Grow.mono_lo {p p' M : Nat} {a b : List (Nat × Nat)} (h : Grow p M a b) (hle : p' ≤ p) :
    Grow p' M a b := ⟨h.new, h.mono, fun k hk => h.low k (by omega)⟩

theorem Grow.mono_max {p M M' : Nat} {a b : List (Nat × Nat)} (h : Grow p M a b) (hle : M ≤ M') :
    Grow p M' a b := ⟨h.new.mono hle, h.mono, h.low⟩

theorem lookup_cacheInsert (c : List (Nat × Nat)) (k v k' : Nat) :
    (cacheInsert c k v).lookup k' = if k' = k then some v else c.lookup k' := by
  unfold cacheInsert
  simp only [List.lookup_cons]
  by_cases h : k' = k
  · subst h; simp
  · have : (k' == k) = false := by simpa using h
    simp [this, h]

/-- the insertion behind a failed `lookup`, after a run that did not touch the key -/
theorem Grow.insert {p M : Nat} {a b : List (Nat × Nat)} (h : Grow (p + 1) M a b) {v : Nat}
    (hv : v ≤ M) (hmiss : a.lookup p = none) : Grow p M a (cacheInsert b p v) := by
  refine ⟨h.new.insert hv, ?_, ?_⟩
  · intro k w hk
    rw [lookup_cacheInsert]
    by_cases hkp : k = p
    · subst hkp; rw [hmiss] at hk; cases hk
    · rw [if_neg hkp]; exact h.mono k w hk
  · intro k hk
    rw [lookup_cacheInsert, if_neg (by omega)]
    exact h.low k (by omega)

theorem lookup_cacheInsert_self (c : List (Nat × Nat)) (k v : Nat) :
    (cacheInsert c k v).lookup k = some v := by
  rw [lookup_cacheInsert]; simp

/-- the state with a smaller `pos_max` (the window a nested frame / a replay sees) -/
def IState.shrink (st : IState) (M' : Nat) : IState := { st with posMax := M' }

end MdIt.Inline
