/-
  Helper development for `Props/TotalTabs.lean`, part 2 of the lock-step simulation
  (Lemmas/TotalTabsSim.lean): links (`labelLoop` … `linkRule`, with `skip_token` / `tokenize`
  abstracted), the chain in silent and in real mode, both loop bodies, the induction on fuel,
  `parseInline`.

  Look-ahead (`skip_token`, silent mode) never reads the table nor a range, so its simulation
  (`SimFnS`) needs no hypothesis about side 2.  Real mode (`SimFnT`) assumes the table of side 2 to be
  `C05T.MapT` and the frame invariant `C05T.tv_RInv` on side 2; they are re-established after every
  step from the `ok` result of side 2 by `C05T.tv_runRule` / `tv_firstRule` / `tv_tokStep` /
  `tv_rangesFn` (Lemmas/C05TabsRanges3.lean).
-/
import MdIt.Lemmas.TotalTabsSim

namespace MdIt.Inline.TT
open MdIt.Inline
open MdIt.InlineOps (Srcmap getSourcePosFor getMap byteLen slice)
open MdIt.C05T (MapT RIv tv_RInv tv_NlAct tv_StepRI tv_StepOK tv_RangesFn SolidMarkers tv_runRule
  tv_firstRule tv_tokStep tv_rangesFn tv_newline_declines)
open MdIt.C05 (WFMap)
set_option linter.unusedSimpArgs false
set_option linter.unusedVariables false

/-- a look-ahead call (silent mode) preserves the relation and does not fail on side 2 -/
def SimFnS (f : IState → Except Panic IState) : Prop :=
  ∀ a b a', IRel false a b → f a = .ok a' → Sim true (IRel false) a' (f b)

/-- a recursive `tokenize` call (real mode): side 2 does not fail when its table is `MapT` and its
    frame invariant holds -/
def SimFnT (cfg : Cfg) (f : IState → Except Panic IState) : Prop :=
  ∀ lo a b a', IRel false a b → MapT b.src b.srcmap → tv_RInv (tv_NlAct cfg b.level) lo b →
    f a = .ok a' → Sim true (IRel false) a' (f b)

/-! ## look-ahead (copies of the `_sim` lemmas of Lemmas/C10DocInline.lean, strict) -/

theorem labelLoop_simT {skip : IState → Except Panic IState} (hs : SimFnS skip) (en : Bool) :
    ∀ (n : Nat) (level : Int) (a b : IState) (r : Option Bool × IState), IRel false a b →
      labelLoop skip en n level a = .ok r → Sim true (PRel false) r (labelLoop skip en n level b) := by
  intro n
  induction n with
  | zero => intro level a b r rel h; simp [labelLoop] at h
  | succ n ih =>
    intro level a b r rel h
    unfold labelLoop at h ⊢
    rw [rel.window]
    split at h
    · simp at h
    · simp only [Except.ok.injEq] at h; subst h; exact ⟨rfl, rel⟩
    · next ch rest hw =>
      split at h
      · next hif => simp only [Except.ok.injEq] at h; subst h; rw [if_pos hif]; exact ⟨rfl, rel⟩
      · next hif =>
        rw [if_neg hif]
        simp only [] at h ⊢
        split at h
        · simp at h
        · next a1 hsk =>
          rcases (hs _ _ _ rel hsk).cases with ⟨b1, e2, rel1⟩ | ⟨hs', e, e2⟩
          · rw [e2]; simp only [rel1.pos, rel.pos]
            split at h
            · next hch =>
              rw [if_pos hch]
              split at h
              · simp at h
              · next h0 =>
                rw [if_neg h0]
                split at h
                · next hp => rw [if_pos hp]; exact ih _ _ _ _ rel1 h
                · next hp =>
                  rw [if_neg hp]
                  split at h
                  · next hen =>
                    rw [if_pos hen]
                    simp only [Except.ok.injEq] at h; subst h; exact ⟨rfl, rel1⟩
                  · next hen => rw [if_neg hen]; exact ih _ _ _ _ rel1 h
            · next hch => rw [if_neg hch]; exact ih _ _ _ _ rel1 h
          · rw [e2]; exact hs'

theorem parseLinkLabel_simT {skip : IState → Except Panic IState} (hs : SimFnS skip)
    {fuel : Nat} {a b : IState} {start : Nat} {en : Bool} {r : Option Nat × IState} (rel : IRel false a b)
    (h : parseLinkLabel skip fuel a start en = .ok r) :
    Sim true (PRel false) r (parseLinkLabel skip fuel b start en) := by
  unfold parseLinkLabel at h ⊢
  simp only [rel.pos] at h ⊢
  split at h
  · simp at h
  · next a1 hl =>
    simp only [Except.ok.injEq] at h; subst h
    rcases (labelLoop_simT hs en _ _ _ _ _ (rel.setPos (start + 1)) hl).cases with
      ⟨⟨o₂, b1⟩, e2, ho, rel1⟩ | ⟨hs', e, e2⟩
    · simp only [] at ho rel1; subst ho
      rw [e2]; exact ⟨rfl, rel1.setPos _⟩
    · rw [e2]; exact hs'
  · next found a1 hl =>
    simp only [Except.ok.injEq] at h; subst h
    rcases (labelLoop_simT hs en _ _ _ _ _ (rel.setPos (start + 1)) hl).cases with
      ⟨⟨o₂, b1⟩, e2, ho, rel1⟩ | ⟨hs', e, e2⟩
    · simp only [] at ho rel1; subst ho
      rw [e2]; exact ⟨by simp only [rel1.pos], rel1.setPos _⟩
    · rw [e2]; exact hs'

theorem parseLinkRef_simT {cfg : Cfg} {skip : IState → Except Panic IState} (hs : SimFnS skip)
    {fuel : Nat} {a b : IState} {ls le : Nat} {r : Option LinkRes × IState} (rel : IRel false a b)
    (h : parseLinkRef cfg skip fuel a ls le = .ok r) :
    Sim true (PRel false) r (parseLinkRef cfg skip fuel b ls le) := by
  unfold parseLinkRef at h ⊢
  simp only [rel.src, rel.posMax] at h ⊢
  split at h
  · simp at h
  · next w hw =>
    split at h
    · simp at h
    · next ml pos a1 hsec =>
      split at hsec
      · next tail =>
        split at hsec
        · simp at hsec
        · next x st' hpl =>
          rcases (parseLinkLabel_simT hs rel hpl).cases with ⟨⟨o₂, b1⟩, e2, ho, rel1⟩ | ⟨hs', e, e2⟩
          · simp only [] at ho rel1; subst ho; rw [e2]; simp only []
            split at hsec
            · simp at hsec
            · next l hl =>
              simp only [Except.ok.injEq, Prod.mk.injEq] at hsec; obtain ⟨rfl, rfl, rfl⟩ := hsec
              simp only []
              repeat' split at h
              all_goals try (simp at h; done)
              all_goals (simp only [Except.ok.injEq] at h; subst h; (try simp only [*]); exact ⟨rfl, rel1⟩)
          · rw [e2]; exact hs'
        · next st' hpl =>
          rcases (parseLinkLabel_simT hs rel hpl).cases with ⟨⟨o₂, b1⟩, e2, ho, rel1⟩ | ⟨hs', e, e2⟩
          · simp only [] at ho rel1; subst ho; rw [e2]; simp only []
            simp only [Except.ok.injEq, Prod.mk.injEq] at hsec; obtain ⟨rfl, rfl, rfl⟩ := hsec
            repeat' split at h
            all_goals try (simp at h; done)
            all_goals (simp only [Except.ok.injEq] at h; subst h; (try simp only [*]); exact ⟨rfl, rel1⟩)
          · rw [e2]; exact hs'
      · next hne =>
        simp only [Except.ok.injEq, Prod.mk.injEq] at hsec; obtain ⟨rfl, rfl, rfl⟩ := hsec
        simp only []
        repeat' split at h
        all_goals try (simp at h; done)
        all_goals (simp only [Except.ok.injEq] at h; subst h; (try simp only [*]); exact ⟨rfl, rel⟩)

theorem parseLink_simT {cfg : Cfg} {skip : IState → Except Panic IState} (hs : SimFnS skip)
    {fuel : Nat} {a b : IState} {pos : Nat} {en : Bool} {r : Option LinkRes × IState} (rel : IRel false a b)
    (h : parseLink cfg skip fuel a pos en = .ok r) :
    Sim true (PRel false) r (parseLink cfg skip fuel b pos en) := by
  unfold parseLink at h ⊢
  split at h
  · simp at h
  · next a1 hl =>
    simp only [Except.ok.injEq] at h; subst h
    rcases (parseLinkLabel_simT hs rel hl).cases with ⟨⟨o₂, b1⟩, e2, ho, rel1⟩ | ⟨hs', e, e2⟩
    · simp only [] at ho rel1; subst ho; rw [e2]; exact ⟨rfl, rel1⟩
    · rw [e2]; exact hs'
  · next le a1 hl =>
    rcases (parseLinkLabel_simT hs rel hl).cases with ⟨⟨o₂, b1⟩, e2, ho, rel1⟩ | ⟨hs', e, e2⟩
    · simp only [] at ho rel1; subst ho; rw [e2]
      simp only [rel1.src, rel1.posMax] at h ⊢
      split at h
      · simp at h
      · simp only [Except.ok.injEq] at h; subst h; exact ⟨rfl, rel1⟩
      · exact parseLinkRef_simT hs rel1 h
    · rw [e2]; exact hs'


/-! ## the link rule -/

theorem linkRule_simT {cfg : Cfg} {skip tok : IState → Except Panic IState} (hs : SimFnS skip)
    (hq : CalmFn skip) (ht : SimFnT cfg tok) (htr : tv_RangesFn cfg tok) {fuel : Nat}
    {mk : List Nat → Option (List Char) → Val} {en : Bool} {offset : Nat}
    {a b : IState} {silent : Bool} {r : Option Nat × IState} (rel : IRel false a b)
    (hreal : silent = false → MapT b.src b.srcmap)
    (h : linkRule cfg skip tok fuel mk en offset a silent = .ok r) :
    Sim true (ORel false) r (linkRule cfg skip tok fuel mk en offset b silent) := by
  unfold linkRule at h ⊢
  simp only [rel.pos] at h ⊢
  split at h
  · simp at h
  · next a1 hpl =>
    simp only [Except.ok.injEq] at h; subst h
    rcases (parseLink_simT hs rel hpl).cases with ⟨⟨o₂, b1⟩, e2, ho, rel1⟩ | ⟨hs', e, e2⟩
    · simp only [] at ho rel1; subst ho; rw [e2]; exact ⟨rfl, rel1⟩
    · rw [e2]; exact hs'
  · next res a1 hpl =>
    rcases (parseLink_simT hs rel hpl).cases with ⟨⟨o₂, b1⟩, e2, ho, rel1⟩ | ⟨hs', e, e2⟩
    · simp only [] at ho rel1; subst ho
      have hcalm := parseLink_calm hq e2
      rw [e2]
      simp only [rel1.pos, rel1.posMax, rel1.level, rel1.linkLevel, rel1.bottoms] at h ⊢
      split at h
      · next hsil =>
        rw [if_pos hsil]
        split at h
        · simp at h
        · next hu => rw [if_neg hu]; simp only [Except.ok.injEq] at h; subst h; exact ⟨rfl, rel1⟩
      · next hsil =>
        rw [if_neg hsil]
        have hm0 : MapT b.src b.srcmap := hreal (by simpa using hsil)
        have hm1 : MapT b1.src b1.srcmap := by rw [hcalm.src, hcalm.srcmap]; exact hm0
        have rel2 : IRel false
            { a1 with children := [], bottoms := [], linkLevel := a1.linkLevel + 1, level := a1.level + 1,
                      pos := res.labelStart, posMax := res.labelEnd }
            { b1 with children := [], bottoms := [], linkLevel := a1.linkLevel + 1, level := a1.level + 1,
                      pos := res.labelStart, posMax := res.labelEnd } := by
          exact IRel.of_eqs rel1.src rfl rfl rfl rfl rel1.cache rel1.backticks rfl rel1.map (by simp)
        -- the nested frame on side 2
        obtain ⟨lo', hlo'⟩ := C05.translate_total b1.srcmap hm1.wf res.labelStart
        have hnest : tv_RInv (tv_NlAct cfg (a1.level + 1)) lo'
            { b1 with children := [], bottoms := [], linkLevel := a1.linkLevel + 1, level := a1.level + 1,
                      pos := res.labelStart, posMax := res.labelEnd } :=
          ⟨⟨⟨lo', hlo', Nat.le_refl _⟩, trivial, markersOK_nil,
              by intro init last hcs; simp at hcs⟩,
            by intro _ init last hcs; simp at hcs⟩
        split at h
        · simp at h
        · next a3 htok =>
          rcases (ht lo' _ _ _ rel2 hm1 hnest htok).cases with ⟨b3, e3, rel3⟩ | ⟨hs', e, e3⟩
          · have hfr : b3.srcmap = b1.srcmap :=
              (htr lo' (IState.mk b1.src b1.srcmap res.labelStart res.labelEnd (a1.level + 1)
                (a1.linkLevel + 1) b1.cache b1.backticks [] []) b3 hm1 e3 hnest).2.1
            have hwf3 : WFMap b3.srcmap := by rw [hfr]; exact hm1.wf
            rw [e3]; simp only [rel3.level, rel3.pos, rel3.linkLevel]
            split at h
            · simp at h
            · next hlv =>
              rw [if_neg hlv]
              split at h
              · simp at h
              · next rr hg =>
                obtain ⟨m3, cs3, rfl, hm3, hc3⟩ := rel3.out
                rcases (getMapSt_simT (cs := cs3) hwf3 (liftR_ok.mp hg)).liftR.cases with
                  ⟨r₂, e4, hr⟩ | ⟨hs', e, e4⟩
                · rw [e4]; simp only []
                  split at h
                  · simp at h
                  · next hu =>
                    rw [if_neg hu]
                    simp only [Except.ok.injEq] at h; subst h
                    exact ⟨rfl, IRel.of_eqs rfl rfl rfl rfl rfl rfl rfl rfl hm3 (rel1.ch.snoc (NRel.mk' hr hc3))⟩
                · rw [e4]; exact hs'
          · rw [e3]; exact hs'
    · rw [e2]; exact hs'

/-! ## one rule -/

theorem ruleLink_simT {cfg : Cfg} {skip tok : IState → Except Panic IState} (hs : SimFnS skip)
    (hq : CalmFn skip) (ht : SimFnT cfg tok) (htr : tv_RangesFn cfg tok) {fuel : Nat} {a b : IState}
    {silent : Bool} {r : Option Nat × IState}
    (rel : IRel false a b) (hreal : silent = false → MapT b.src b.srcmap)
    (h : ruleLink cfg skip tok fuel a silent = .ok r) :
    Sim true (ORel false) r (ruleLink cfg skip tok fuel b silent) := by
  unfold ruleLink at h ⊢
  rw [rel.window]
  split at h
  · simp at h
  · simp at h
  · split at h
    · next hc => rw [if_pos hc]; simp only [Except.ok.injEq] at h; subst h; exact ⟨rfl, rel⟩
    · next hc => rw [if_neg hc]; exact linkRule_simT hs hq ht htr rel hreal h

theorem ruleImage_simT {cfg : Cfg} {skip tok : IState → Except Panic IState} (hs : SimFnS skip)
    (hq : CalmFn skip) (ht : SimFnT cfg tok) (htr : tv_RangesFn cfg tok) {fuel : Nat} {a b : IState}
    {silent : Bool} {r : Option Nat × IState}
    (rel : IRel false a b) (hreal : silent = false → MapT b.src b.srcmap)
    (h : ruleImage cfg skip tok fuel a silent = .ok r) :
    Sim true (ORel false) r (ruleImage cfg skip tok fuel b silent) := by
  unfold ruleImage at h ⊢
  rw [rel.window]
  split at h
  · simp at h
  · exact linkRule_simT hs hq ht htr rel hreal h
  · simp only [Except.ok.injEq] at h; subst h; exact ⟨rfl, rel⟩

/-- **one rule**, silent or real.  In real mode: the table of side 2 is `MapT`, its frame invariant
    holds, the newline rule runs only in a frame where it is active (`hnl`), the emphasis marker is
    solid (`hem`). -/
theorem runRule_simT {A : Prop} {cfg : Cfg} {skip tok : IState → Except Panic IState}
    (hs : SimFnS skip) (hq : CalmFn skip) (ht : SimFnT cfg tok) (htr : tv_RangesFn cfg tok)
    {fuel : Nat} {id : RuleId} {lo : Nat} {a b : IState} {silent : Bool}
    {r : Option Nat × IState} (rel : IRel false a b)
    (hreal : silent = false → MapT b.src b.srcmap ∧ tv_RInv A lo b)
    (hnl : silent = false → id = .newline → A)
    (hem : silent = false → ∀ mk csw, id = .emph mk csw → mk.utf8Size = 1 ∧ mk ≠ '\n' ∧ mk ≠ ' ')
    (h : runRule cfg skip tok fuel id a silent = .ok r) :
    Sim true (ORel false) r (runRule cfg skip tok fuel id b silent) := by
  have hwf : silent = false → WFMap b.srcmap := fun hsil => (hreal hsil).1.wf
  unfold runRule at h ⊢
  cases id with
  | text => exact liftR_sim (fun _ h' => ruleText_simT rel hwf h') h
  | newline =>
    exact liftR_sim (fun _ h' => ruleNewline_simT rel hwf
      (fun hsil => trailOKw_of (hreal hsil).1 (hreal hsil).2 (hnl hsil rfl)) h') h
  | escape => exact liftR_sim (fun _ h' => ruleEscape_simT rel hwf h') h
  | backticks => exact liftR_sim (fun _ h' => ruleBackticks_simT rel hwf h') h
  | emph mk csw =>
    exact liftR_sim (fun _ h' => ruleEmph_simT (A := A) (lo := lo) rel
      (fun hsil => ⟨(hreal hsil).1, (hreal hsil).2, hem hsil mk csw rfl⟩) h') h
  | link => exact ruleLink_simT hs hq ht htr rel (fun hsil => (hreal hsil).1) h
  | image => exact ruleImage_simT hs hq ht htr rel (fun hsil => (hreal hsil).1) h
  | linkEnd => simp only [Except.ok.injEq] at h; subst h; exact ⟨rfl, rel⟩
  | autolink => exact liftR_sim (fun _ h' => ruleAutolink_simT rel hwf h') h
  | entity => exact liftR_sim (fun _ h' => ruleEntity_simT rel hwf h') h

/-! ## the chain in silent mode (no hypothesis on side 2) -/

theorem firstRule_simT {run : RuleId → IState → RuleRes}
    (hrun : ∀ id a b r, IRel false a b → run id a = .ok r → Sim true (ORel false) r (run id b)) :
    ∀ (rules : List RuleId) (a b : IState) (r : Option Nat × IState), IRel false a b →
      firstRule run rules a = .ok r → Sim true (ORel false) r (firstRule run rules b) := by
  intro rules
  induction rules with
  | nil =>
    intro a b r rel h
    simp only [firstRule, Except.ok.injEq] at h ⊢; subst h; exact ⟨rfl, rel⟩
  | cons id rs ih =>
    intro a b r rel h
    unfold firstRule at h ⊢
    split at h
    · simp at h
    · next n a1 hr =>
      simp only [Except.ok.injEq] at h; subst h
      rcases (hrun _ _ _ _ rel hr).cases with ⟨⟨o₂, b1⟩, e2, ho, rel1⟩ | ⟨hs', e, e2⟩
      · simp only [] at ho rel1; subst ho; rw [e2]; exact ⟨rfl, rel1⟩
      · rw [e2]; exact hs'
    · next a1 hr =>
      rcases (hrun _ _ _ _ rel hr).cases with ⟨⟨o₂, b1⟩, e2, ho, rel1⟩ | ⟨hs', e, e2⟩
      · simp only [] at ho rel1; subst ho; rw [e2]; exact ih _ _ _ rel1 h
      · rw [e2]; exact hs'

theorem silentBumped_simT {run : IState → Bool → RuleRes}
    (hrun : ∀ a b r, IRel false a b → run a true = .ok r → Sim true (ORel false) r (run b true))
    {a b : IState} {r : Option Nat × IState} (rel : IRel false a b) (h : silentBumped run a = .ok r) :
    Sim true (ORel false) r (silentBumped run b) := by
  unfold silentBumped at h ⊢
  have rel0 : IRel false { a with level := a.level + 1 } { b with level := b.level + 1 } :=
    IRel.of_eqs rel.src rel.pos rel.posMax (by simp only [rel.level]) rel.linkLevel rel.cache
      rel.backticks rel.bottoms rel.map rel.ch
  split at h
  · simp at h
  · next o a1 hr =>
    rcases (hrun _ _ _ rel0 hr).cases with ⟨⟨o₂, b1⟩, e2, ho, rel1⟩ | ⟨hs', e, e2⟩
    · simp only [] at ho rel1; subst ho; rw [e2]; simp only [rel1.level]
      split at h
      · simp at h
      · next hl =>
        rw [if_neg hl]
        simp only [Except.ok.injEq] at h; subst h
        exact ⟨rfl, IRel.of_eqs rel1.src rel1.pos rel1.posMax rfl rel1.linkLevel rel1.cache
          rel1.backticks rel1.bottoms rel1.map rel1.ch⟩
    · rw [e2]; exact hs'


/-! ## the chain in real mode: the frame invariant of side 2 is re-established behind every rule that
       declines, from the `ok` result of side 2 (`tv_runRule`) -/

theorem firstRule_simR {A : Prop} {cfg : Cfg} {skip tok : IState → Except Panic IState}
    (hs : SimFnS skip) (hq : CalmFn skip) (ht : SimFnT cfg tok) (htr : tv_RangesFn cfg tok)
    {fuel : Nat} {lo : Nat} :
    ∀ (rules : List RuleId),
      (∀ id, id ∈ rules → (id = .newline → A) ∧
        ∀ mk csw, id = .emph mk csw → mk.utf8Size = 1 ∧ mk ≠ '\n' ∧ mk ≠ ' ') →
      ∀ (a b : IState) (r : Option Nat × IState), IRel false a b → MapT b.src b.srcmap →
        tv_RInv A lo b →
        firstRule (fun id s => runRule cfg skip tok fuel id s false) rules a = .ok r →
        Sim true (ORel false) r (firstRule (fun id s => runRule cfg skip tok fuel id s false) rules b) := by
  intro rules
  induction rules with
  | nil =>
    intro _ a b r rel _ _ h
    simp only [firstRule, Except.ok.injEq] at h ⊢; subst h; exact ⟨rfl, rel⟩
  | cons id rs ih =>
    intro hrules a b r rel hm hi h
    have hid := hrules id (by simp)
    have hone : ∀ r, runRule cfg skip tok fuel id a false = .ok r →
        Sim true (ORel false) r (runRule cfg skip tok fuel id b false) := fun r hr =>
      runRule_simT (A := A) (lo := lo) hs hq ht htr rel (fun _ => ⟨hm, hi⟩) (fun _ e => hid.1 e)
        (fun _ => hid.2) hr
    unfold firstRule at h ⊢
    split at h
    · simp at h
    · next n a1 hr =>
      simp only [Except.ok.injEq] at h; subst h
      rcases (hone _ hr).cases with ⟨⟨o₂, b1⟩, e2, ho, rel1⟩ | ⟨hs', e, e2⟩
      · simp only [] at ho rel1; subst ho; rw [e2]; exact ⟨rfl, rel1⟩
      · rw [e2]; exact hs'
    · next a1 hr =>
      rcases (hone _ hr).cases with ⟨⟨o₂, b1⟩, e2, ho, rel1⟩ | ⟨hs', e, e2⟩
      · simp only [] at ho rel1; subst ho
        have s1 := tv_runRule hq htr hid.1 hid.2 hm hi e2
        have hi1 : tv_RInv A lo b1 := by
          have := s1.ri
          simp only [Option.getD_none, Nat.add_zero] at this
          unfold tv_RInv; rw [s1.src, s1.srcmap]; exact this
        have hm1 : MapT b1.src b1.srcmap := by rw [s1.src, s1.srcmap]; exact hm
        rw [e2]
        exact ih (fun id hid' => hrules id (List.mem_cons_of_mem _ hid')) _ _ _ rel1 hm1 hi1 h
      · rw [e2]; exact hs'

/-! ## both loop bodies -/

theorem tokStep_simT {cfg : Cfg} {skip tok : IState → Except Panic IState} (hs : SimFnS skip)
    (hq : CalmFn skip) (ht : SimFnT cfg tok) (htr : tv_RangesFn cfg tok) (hmk : SolidMarkers cfg.chain)
    {fuel : Nat} {lo : Nat} {a b a' : IState} (rel : IRel false a b) (hm : MapT b.src b.srcmap)
    (hi : tv_RInv (tv_NlAct cfg b.level) lo b)
    (h : tokStep cfg skip tok fuel a = .ok a') : Sim true (IRel false) a' (tokStep cfg skip tok fuel b) := by
  have hlev : b.level = a.level := rel.level
  -- side 2: what an `ok` chain leaves behind
  have hfr : ∀ o b1, (if b.level < cfg.maxNesting then
        firstRule (fun id s => runRule cfg skip tok fuel id s false) cfg.chain b
      else .ok (none, b)) = .ok (o, b1) → b1.srcmap = b.srcmap := by
    intro o b1 hh
    split at hh
    · next hlt =>
      obtain ⟨s1, _⟩ := tv_firstRule (A := tv_NlAct cfg b.level) (lo := lo)
        (run := fun id s => runRule cfg skip tok fuel id s false)
        (fun s s' hr c rest hw => tv_newline_declines hr hw) cfg.chain
        (fun id hid s o s' hms his hr => tv_runRule hq htr (fun e => ⟨e ▸ hid, hlt⟩)
          (fun mk csw e => hmk mk csw (e ▸ hid)) hms his hr) _ _ _ hm hi hh
      exact s1.srcmap
    · simp only [Except.ok.injEq, Prod.mk.injEq] at hh; obtain ⟨_, rfl⟩ := hh; rfl
  unfold tokStep at h ⊢
  simp only [hlev] at h ⊢ hfr
  have hok : ∀ r, (if a.level < cfg.maxNesting then
        firstRule (fun id s => runRule cfg skip tok fuel id s false) cfg.chain a else .ok (none, a)) = .ok r →
      Sim true (ORel false) r (if a.level < cfg.maxNesting then
        firstRule (fun id s => runRule cfg skip tok fuel id s false) cfg.chain b else .ok (none, b)) := by
    intro r hr
    split at hr
    · next hl =>
      rw [if_pos hl]
      exact firstRule_simR (A := tv_NlAct cfg b.level) (lo := lo) hs hq ht htr cfg.chain
        (fun id hid => ⟨fun e => ⟨e ▸ hid, by rw [hlev]; exact hl⟩, fun mk csw e => hmk mk csw (e ▸ hid)⟩)
        _ _ _ rel hm hi hr
    · next hl =>
      rw [if_neg hl]
      simp only [Except.ok.injEq] at hr; subst hr; exact ⟨rfl, rel⟩
  split at h
  · simp at h
  · next len a1 hr =>
    simp only [Except.ok.injEq] at h; subst h
    rcases (hok _ hr).cases with ⟨⟨o₂, b1⟩, e2, ho, rel1⟩ | ⟨hs', e, e2⟩
    · simp only [] at ho rel1; subst ho; rw [e2]
      exact IRel.of_eqs rel1.src (by simp only [rel1.pos]) rel1.posMax rel1.level rel1.linkLevel rel1.cache
        rel1.backticks rel1.bottoms rel1.map rel1.ch
    · rw [e2]; exact hs'
  · next a1 hr =>
    rcases (hok _ hr).cases with ⟨⟨o₂, b1⟩, e2, ho, rel1⟩ | ⟨hs', e, e2⟩
    · simp only [] at ho rel1; subst ho
      have hwf1 : WFMap b1.srcmap := by rw [hfr _ _ e2]; exact hm.wf
      rw [e2]
      simp only [firstChar_rel rel1, rel1.pos]
      split at h
      · simp at h
      · next ch hch =>
        split at h
        · simp at h
        · next a2 hp =>
          simp only [Except.ok.injEq] at h; subst h
          rcases (pushText_simT rel1 hwf1 (liftR_ok.mp hp)).liftR.cases with ⟨b2, e3, rel2⟩ | ⟨hs', e, e3⟩
          · rw [e3]
            exact IRel.of_eqs rel2.src (by simp only [rel2.pos]) rel2.posMax rel2.level rel2.linkLevel
              rel2.cache rel2.backticks rel2.bottoms rel2.map rel2.ch
          · rw [e3]; exact hs'
    · rw [e2]; exact hs'

theorem skipStep_simT {cfg : Cfg} {skip tok : IState → Except Panic IState} (hs : SimFnS skip)
    (hq : CalmFn skip) (ht : SimFnT cfg tok) (htr : tv_RangesFn cfg tok)
    {fuel : Nat} {a b a' : IState} (rel : IRel false a b)
    (h : skipStep cfg skip tok fuel a = .ok a') : Sim true (IRel false) a' (skipStep cfg skip tok fuel b) := by
  unfold skipStep at h ⊢
  simp only [rel.pos] at h ⊢
  have hok := fun r => firstRule_simT
    (run := fun id s => silentBumped (runRule cfg skip tok fuel id) s)
    (fun id a b r rel h => silentBumped_simT (fun a b r rel h =>
      runRule_simT (A := True) (lo := 0) hs hq ht htr rel (fun hh => by cases hh) (fun hh => by cases hh)
        (fun hh => by cases hh) h) rel h)
    cfg.chain a b r rel
  split at h
  · simp at h
  · next len a1 hr =>
    simp only [Except.ok.injEq] at h; subst h
    rcases (hok _ hr).cases with ⟨⟨o₂, b1⟩, e2, ho, rel1⟩ | ⟨hs', e, e2⟩
    · simp only [] at ho rel1; subst ho; rw [e2]
      exact IRel.of_eqs rel1.src (by simp only [rel1.pos]) rel1.posMax rel1.level rel1.linkLevel
        (by simp only [rel1.cache, rel1.pos]) rel1.backticks rel1.bottoms rel1.map rel1.ch
    · rw [e2]; exact hs'
  · next a1 hr =>
    rcases (hok _ hr).cases with ⟨⟨o₂, b1⟩, e2, ho, rel1⟩ | ⟨hs', e, e2⟩
    · simp only [] at ho rel1; subst ho; rw [e2]
      simp only [firstChar_rel rel1]
      split at h
      · simp at h
      · next ch hch =>
        simp only [Except.ok.injEq] at h; subst h
        exact IRel.of_eqs rel1.src (by simp only [rel1.pos]) rel1.posMax rel1.level rel1.linkLevel
          (by simp only [rel1.cache, rel1.pos]) rel1.backticks rel1.bottoms rel1.map rel1.ch
    · rw [e2]; exact hs'

/-! ## the induction on fuel -/

/-- **the strict lock-step simulation through the whole tokenizer**, by induction on the fuel -/
theorem simT_induction (cfg : Cfg) (hmk : SolidMarkers cfg.chain) : ∀ fuel : Nat,
    SimFnS (fun st => skipToken cfg fuel st) ∧
    (∀ (e lo : Nat) (a b a' : IState), IRel false a b → MapT b.src b.srcmap →
      tv_RInv (tv_NlAct cfg b.level) lo b → tokLoop cfg fuel e a = .ok a' →
      Sim true (IRel false) a' (tokLoop cfg fuel e b)) := by
  intro fuel
  induction fuel with
  | zero =>
    constructor
    · intro a b a' rel h; simp [skipToken] at h
    · intro e lo a b a' rel _ _ h
      unfold tokLoop at h ⊢
      rw [rel.pos]
      split at h
      · simp at h
      · next hp => rw [if_neg hp]; simp only [Except.ok.injEq] at h; subst h; exact rel
  | succ f ih =>
    obtain ⟨ihS, ihT⟩ := ih
    have ht : SimFnT cfg (fun st => tokLoop cfg f st.posMax st) := by
      intro lo a b a' rel hm hi h
      have := ihT _ lo _ _ _ rel hm hi h
      simp only [rel.posMax]; exact this
    have hq := skipToken_calm cfg f
    have htr := tv_rangesFn cfg hmk f
    constructor
    · intro a b a' rel h
      simp only [] at h ⊢
      unfold skipToken at h ⊢
      simp only [rel.cache, rel.pos, rel.level, rel.posMax] at h ⊢
      split at h
      · next x hx =>
        simp only [Except.ok.injEq] at h; subst h
        exact IRel.of_eqs rel.src rfl rfl rfl rel.linkLevel rfl rel.backticks
          rel.bottoms rel.map rel.ch
      · next hx =>
        split at h
        · next hl => rw [if_pos hl]; exact skipStep_simT ihS hq ht htr rel h
        · next hl =>
          rw [if_neg hl]
          simp only [Except.ok.injEq] at h; subst h
          exact IRel.of_eqs rel.src rfl rfl rfl rel.linkLevel rfl
            rel.backticks rel.bottoms rel.map rel.ch
    · intro e lo a b a' rel hm hi h
      unfold tokLoop at h ⊢
      rw [rel.pos]
      split at h
      · next hp =>
        rw [if_pos hp]
        simp only [] at h ⊢
        split at h
        · simp at h
        · next a1 hstep =>
          rcases (tokStep_simT ihS hq ht htr hmk rel hm hi hstep).cases with ⟨b1, e2, rel1⟩ | ⟨hs', e', e2⟩
          · obtain ⟨f1, f2, f3, _, f5⟩ := tv_tokStep hq htr hmk hm hi e2
            have hm1 : MapT b1.src b1.srcmap := by rw [f1, f2]; exact hm
            rw [e2]
            exact ihT _ lo _ _ _ rel1 hm1 (by rw [f3]; exact f5) h
          · rw [e2]; exact hs'
      · next hp => rw [if_neg hp]; simp only [Except.ok.injEq] at h; subst h; exact rel

/-! ## `md.inline.parse` -/

/-- **the transfer**: when the inline parser succeeds under SOME table `m₁`, it succeeds under every
    `MapT` table `m₂` (solid emphasis markers), and the two results differ in their ranges only -/
theorem parseInline_simT (cfg : Cfg) (hmk : SolidMarkers cfg.chain) (content : List Char)
    {m₁ m₂ : Srcmap} (hm : MapT content m₂) {ns₁ : List Node}
    (h : parseInline cfg content m₁ = .ok ns₁) :
    Sim true (LRel false) ns₁ (parseInline cfg content m₂) := by
  unfold parseInline tokenize at h ⊢
  have rel0 : IRel false (IState.init content m₁) (IState.init content m₂) :=
    IRel.of_eqs rfl rfl rfl rfl rfl rfl rfl rfl (mrel_false _ _) (by simp [IState.init])
  obtain ⟨lo, hlo⟩ := C05.translate_total m₂ hm.wf (trimSrc content).1
  have hi0 : tv_RInv (tv_NlAct cfg (IState.init content m₂).level) lo (IState.init content m₂) :=
    ⟨⟨⟨lo, hlo, Nat.le_refl _⟩, trivial, markersOK_nil, by intro init last hcs; simp [IState.init] at hcs⟩,
      by intro _ init last hcs; simp [IState.init] at hcs⟩
  split at h
  · simp at h
  · next a' ha =>
    simp only [Except.ok.injEq] at h; subst h
    have hpm : (IState.init content m₂).posMax = (IState.init content m₁).posMax := rfl
    rcases ((simT_induction cfg hmk _).2 _ lo _ _ _ rel0 hm hi0 ha).cases with ⟨b', e2, rel1⟩ | ⟨hs', e, e2⟩
    · rw [hpm, e2]; exact rel1.ch
    · rw [hpm, e2]; exact hs'

end MdIt.Inline.TT
