/-
  C16 on the block side, part 5: THE LIST RULE AS A CALLER OF THE SWEEP (item termination).
  * `upd2` / `runRuleH_silent_congr2`: in look-ahead mode every shipped rule BUT THE LIST RULE reads neither
    the node kind nor the nesting level (nor tree / `tight` / reference map); the list rule reads the node
    kind: inside a list it never interrupts (`list_in_list`).
  * `listLoop_exit`, `listRule_ok`: how the list rule ends — the state it returns is the state `sL` at
    which its item loop stopped, with level / node kind restored and the list pushed; the loop stopped at
    the end of the frame or by `listContinue` ON `sL` (the termination test: the sweep is called on `sL`
    itself, at `sL.line`).
  * `step_after_accept'`: the iteration after an accepting chain, whenever it returns.
-/
import MdIt.Lemmas.C16BlockEng

namespace MdIt.BlockH.C16
open MdIt.Block
open MdIt.Lines (LineOffset)

/-- `s` with another tree, `tight`, reference map, NODE KIND and LEVEL -/
def upd2 (s : BState) (c : List BNode) (b : Bool) (m : Refs.RefMap) (k : Kind) (lv : Nat) : BState :=
  { s with children := c, tight := b, refs := m, nodeKind := k, level := lv }

@[simp] theorem upd2_lineIndent (s c b m k lv n) : (upd2 s c b m k lv).lineIndent n = s.lineIndent n := rfl
@[simp] theorem upd2_getLine (s c b m k lv n) : (upd2 s c b m k lv).getLine n = s.getLine n := rfl
@[simp] theorem upd2_line (s c b m k lv) : (upd2 s c b m k lv).line = s.line := rfl
@[simp] theorem upd2_off (s c b m k lv n) : (upd2 s c b m k lv).off n = s.off n := rfl

abbrev mp2 (c : List BNode) (b : Bool) (m : Refs.RefMap) (k : Kind) (lv : Nat) : Bool × BState → Bool × BState :=
  fun r => (r.1, upd2 r.2 c b m k lv)

syntax "congr_tac2" : tactic
macro_rules
| `(tactic| congr_tac2) => `(tactic|
  (simp only [upd2_lineIndent, upd2_getLine, upd2_line, upd2_off,
     bind, Except.bind, Except.map, pure, Except.pure, if_true, Bool.true_eq_false, if_false, true_and]
   repeat' (first | rfl | split)))

theorem silent_congr2_hr (s c b m k lv) : hrRule (upd2 s c b m k lv) true = Except.map (mp2 c b m k lv) (hrRule s true) := by
  unfold hrRule; congr_tac2
theorem silent_congr2_heading (s c b m k lv) :
    headingRule (upd2 s c b m k lv) true = Except.map (mp2 c b m k lv) (headingRule s true) := by
  unfold headingRule; congr_tac2
theorem silent_congr2_fence (s c b m k lv) :
    fenceRule (upd2 s c b m k lv) true = Except.map (mp2 c b m k lv) (fenceRule s true) := by
  unfold fenceRule; congr_tac2
theorem silent_congr2_blockquote (tok test fuel s c b m k lv) :
    blockquoteRule tok test fuel (upd2 s c b m k lv) true =
      Except.map (mp2 c b m k lv) (blockquoteRule tok test fuel s true) := by
  unfold blockquoteRule; congr_tac2
theorem silent_congr2_htmlBlock (s c b m k lv) : Html.htmlBlockRule (upd2 s c b m k lv) true =
    Except.map (fun r => (r.1, upd2 r.2.1 c b m k lv, r.2.2)) (Html.htmlBlockRule s true) := by
  unfold Html.htmlBlockRule; congr_tac2
theorem silent_congr2_html (s c b m k lv) :
    htmlRule (upd2 s c b m k lv) true = Except.map (mp2 c b m k lv) (htmlRule s true) := by
  unfold htmlRule
  rw [silent_congr2_htmlBlock]
  cases h : Html.htmlBlockRule s true with
  | error e => rfl
  | ok r =>
    obtain ⟨v, s', o⟩ := r
    obtain ⟨rfl, rfl⟩ := Html.html_block_silent_quiet h
    rfl

/-- **what look-ahead reads, second part**: every shipped rule but the list rule answers on `upd2 s …`
    what it answers on `s` -/
theorem runRuleH_silent_congr2 (cfg : Cfg) (tok : Tok) (test : Test) (fuel : Nat) (r : RuleIdH)
    (hr : r ≠ .base .list) (s c b m k lv) :
    runRuleH cfg tok test fuel r (upd2 s c b m k lv) true =
      Except.map (mp2 c b m k lv) (runRuleH cfg tok test fuel r s true) := by
  cases r with
  | html => exact silent_congr2_html ..
  | base r =>
    cases r with
    | code => rfl
    | fence => exact silent_congr2_fence ..
    | blockquote => exact silent_congr2_blockquote ..
    | hr => exact silent_congr2_hr ..
    | list => exact absurd rfl hr
    | reference => rfl
    | heading => exact silent_congr2_heading ..
    | lheading => rfl
    | paragraph => rfl

/-- inside a list the list rule never says yes in look-ahead mode -/
theorem list_in_list {ι : Type} (E : Eng ι) {f : Nat} {i : ι} {s : BState} (hi : E.base i = some .list)
    (hk : isListKind s.nodeKind = true) : E.rule f i s true = .ok (false, s) := by
  rw [E.rule_base f i _ hi]
  simp only [runRule, listRule, hk, and_self, if_true]
  rfl

/-- the second half of the contract: look-ahead of every member but the list rule reads neither node
    kind nor level -/
def Eng.OK2 {ι : Type} (E : Eng ι) : Prop :=
  ∀ f i s c b m k lv, E.base i ≠ some .list →
    E.rule f i (upd2 s c b m k lv) true = Except.map (mp2 c b m k lv) (E.rule f i s true)

theorem engH_ok2 (cfg : Cfg) (chain : List RuleIdH) : (engH cfg chain).OK2 := by
  intro f i s c b m k lv hi
  refine runRuleH_silent_congr2 _ _ _ _ i ?_ ..
  rintro rfl
  exact hi rfl

theorem engX_ok2 {X : BState → Bool → Res}
    (hX2 : ∀ s c b m k lv, X (upd2 s c b m k lv) true = Except.map (mp2 c b m k lv) (X s true))
    (cfg : Cfg) (chain : List RuleIdX) : (engX X cfg chain).OK2 := by
  intro f i s c b m k lv hi
  cases i with
  | custom => exact hX2 ..
  | std i =>
    refine runRuleH_silent_congr2 _ _ _ _ i ?_ ..
    rintro rfl
    exact hi rfl

/-! ## how the list rule ends -/

theorem listContinue_same {test : Test} (ht : TestQuiet test) {ordered : Bool} {mc : Char} {s s' : BState}
    {n : Nat} {o : Option Nat} (h : listContinue test ordered mc s n = .ok (o, s')) : s' = s := by
  unfold listContinue at h
  have key : ∀ (r : Bool × BState), test s = .ok r → ({ r.2 with line := s.line } : BState) = s :=
    fun r hr => ht _ _ _ hr
  crack h
  all_goals (try (have := key _ ‹test s = _›))
  all_goals simp_all

set_option maxHeartbeats 400000 in
theorem listItem_nodeKind {tok : Tok} {s s' : BState} {nl p : Nat} {pee tight pee' tight' : Bool}
    (h : listItem tok s nl p pee tight = .ok (s', tight', pee')) : s'.nodeKind = s.nodeKind := by
  unfold listItem at h
  crack h
  subst_vars
  rfl


set_option maxHeartbeats 400000 in
/-- **how the item loop ends**: at a state `sL` with the node kind it started with, `next_line = sL.line`,
    and either at the end of the frame or by the termination test `listContinue` ON `sL` at `sL.line`
    (which handed `sL` back: the model restores `line` after the sweep) -/
theorem listLoop_exit {tok : Tok} {test : Test} (ht : TestQuiet test) {ordered : Bool} {mc : Char} :
    ∀ (fuel : Nat) (s : BState) (nl p : Nat) (pee tight : Bool) (nl' : Nat) (tight' : Bool) (sL : BState),
      listLoop tok test ordered mc fuel s nl p pee tight = .ok (nl', tight', sL) → nl = s.line →
      sL.nodeKind = s.nodeKind ∧ nl' = sL.line ∧
      ((¬ sL.line < sL.lineMax) ∨ listContinue test ordered mc sL sL.line = .ok (none, sL)) := by
  intro fuel
  induction fuel with
  | zero => intro s nl p pee tight nl' tight' sL h; simp [listLoop] at h
  | succ f ih =>
    intro s nl p pee tight nl' tight' sL h hnl
    simp only [listLoop] at h
    split at h
    · rename_i hc
      simp only [Except.ok.injEq, Prod.mk.injEq] at h
      obtain ⟨rfl, _, rfl⟩ := h
      exact ⟨rfl, hnl, .inl (by rw [← hnl]; exact hc)⟩
    · obtain ⟨⟨s1, tight1, pee1⟩, hitem, h⟩ := bind_ok.mp h
      dsimp only at h
      obtain ⟨⟨cont, s2⟩, hcont, h⟩ := bind_ok.mp h
      dsimp only at h
      have h21 : s2 = s1 := listContinue_same ht hcont
      subst h21
      have hk := listItem_nodeKind hitem
      split at h
      · simp only [Except.ok.injEq, Prod.mk.injEq] at h
        obtain ⟨rfl, _, rfl⟩ := h
        exact ⟨hk, rfl, .inr hcont⟩
      · obtain ⟨h1, h2, h3⟩ := ih _ _ _ _ _ _ _ _ h rfl
        exact ⟨h1.trans hk, h2, h3⟩

set_option maxHeartbeats 400000 in
/-- **what the list rule does when it accepts**: it returns the state `sL` at which its item loop stopped
    — a state whose node kind is the list's —, with the level one lower, the old node kind and the list
    pushed -/
theorem listRule_ok {tok : Tok} {test : Test} (ht : TestQuiet test) {fuel : Nat} {s s1 : BState}
    (h : listRule tok test fuel s false = .ok (true, s1)) :
    ∃ (ordered : Bool) (mc : Char) (sL : BState) (lvl : Nat) (node : BNode),
      isListKind sL.nodeKind = true ∧
      ((¬ sL.line < sL.lineMax) ∨ listContinue test ordered mc sL sL.line = .ok (none, sL)) ∧
      s1 = { sL with level := lvl, nodeKind := s.nodeKind, children := s.children ++ [node] } := by
  unfold listRule at h
  crack h
  all_goals
    have hloop := ‹listLoop tok test _ _ fuel _ _ _ false true = Except.ok _›
    obtain ⟨hk, _, hex⟩ := listLoop_exit ht _ _ _ _ _ _ _ _ _ hloop rfl
    exact ⟨_, _, _, _, _, by rw [hk]; rfl, hex, rfl⟩

/-- **the iteration after an accepting chain, whenever it returns**: the progress `assert!` passed, and the
    loop goes round again at the state the chain returned (with `tight` recomputed) when its line is
    not blank -/
theorem step_after_accept' {ι : Type} {mn : Nat} {chain : List ι} {run : ι → BState → Bool → Res} {he : Bool}
    {s sE s1 : BState} (hR : RunsChain mn s sE) (hch : runChainG run chain sE false = .ok (true, s1))
    (hne : s1.isEmpty s1.line = false) {r : StepRes} (h : tokStepG mn chain run he s = .ok r) :
    sE.line < s1.line ∧ r = .next (he || s1.isEmpty (s1.line - 1)) { s1 with tight := !he } := by
  rw [tokStepG_runs hR, hch, ok_bind] at h
  unfold afterStep afterChain at h
  by_cases hlt : sE.line < s1.line
  · have hp : psub s1.line 1 = .ok (s1.line - 1) := by unfold psub; rw [if_pos (by omega)]
    have hne' : Lines.isEmpty s1.offs s1.line = false := hne
    simp only [if_true, gt_iff_lt, hlt, pure, Except.pure, ok_bind, hp, BState.isEmpty, hne',
      Bool.false_eq_true, and_false, if_false, Except.ok.injEq] at h
    exact ⟨hlt, h.symm⟩
  · simp only [if_true, gt_iff_lt, hlt, if_false] at h
    cases h

end MdIt.BlockH.C16
