/-
  Helper development for `Props/MemoSafe.lean`, second part: the invariant `NF` of the states of a NESTED
  label frame, and the statements of the per-rule comparison lemmas (L2) the nested induction
  (`Lemmas/MemoSafeLamNest.lean`) consumes — as `Prop`-valued definitions, so that the induction and the
  lemmas can be developed independently (`Lemmas/MemoSafeLamFlat.lean`, `MemoSafeLamLink.lean` prove them).

  Inside a nested frame the memo `m` is CONSTANT.  `Outer … p lev0`: the position `p` lies on a label
  walk over `m` (as recorded under the top `pos_max`) that finds the frame end `le`, at a bracket level
  `≥ lev0`.  The real tokenizer of the frame keeps `Outer … pos 1`: it walks along the entries of that
  label walk.
-/
import MdIt.Lemmas.MemoSafeLamDef

namespace MdIt.Inline
open MdIt.InlineOps (Srcmap getSourcePosFor getMap byteLen slice)

/-- the fixed data of a nested descent: the text, the top `pos_max`, the memo -/
structure NCtx (cfg : Cfg) (B : List Char → CodePair.Cache → Prop) (src : List Char) (Mtop : Nat)
    (m : List (Nat × Nat)) : Prop where
  bmax : Boundary src Mtop
  stop : EntStop src Mtop
  memo : ∀ k v, (k, v) ∈ m → k < v ∧ Boundary src v
  just : JustAll cfg B src Mtop m

/-- `p` lies on a label walk over `m` (under the top `pos_max`) that finds `le`, at bracket level `≥ lev0` -/
def Outer (src : List Char) (Mtop : Nat) (m : List (Nat × Nat)) (le p : Nat) (lev0 : Int) : Prop :=
  ∃ (en : Bool) (N : Nat) (l : Int), lev0 ≤ l ∧ pwalk src Mtop m en N l p = .done (some true) le

/-- **the invariant of a real state inside a nested label frame** `[·, s.posMax)` -/
structure NF (cfg : Cfg) (B : List Char → CodePair.Cache → Prop) (src : List Char) (Mtop : Nat)
    (s : IState) : Prop where
  ctx : NCtx cfg B src Mtop s.cache
  hsrc : s.src = src
  back : B s.src s.backticks
  good : ∃ lo, Good lo s
  cut : ∃ r, slice src s.posMax Mtop = .ok (']' :: r)
  outer : Outer src Mtop s.cache s.posMax s.pos 1

theorem NF.memoB {cfg : Cfg} {B : List Char → CodePair.Cache → Prop} {src : List Char} {Mtop : Nat}
    {s : IState} (h : NF cfg B src Mtop s) : MemoB s := by
  intro k v hkv
  rw [h.hsrc]; exact h.ctx.memo k v hkv

/-! ## the per-rule comparison statements (L2) -/

/-- flat rules without cache (`Lemmas/MemoSafeLamFlat.lean`: `flat_L2`) -/
def FlatL2 (cfg : Cfg) : Prop :=
  ∀ (skip tok skip' tok' : IState → Except Panic IState) (fuel fuel' : Nat) (id : RuleId),
    (id = .text ∨ id = .newline ∨ id = .escape ∨ id = .autolink ∨ id = .entity ∨ id = .linkEnd) →
    ∀ (st0 s : IState), WinHyp st0 s.posMax → EntStop st0.src st0.posMax → s.src = st0.src →
      s.pos = st0.pos →
      ∀ o0 st0' o s', runRule cfg skip tok fuel id st0 true = .ok (o0, st0') →
        runRule cfg skip' tok' fuel' id s false = .ok (o, s') →
        (o0 = none → o = none) ∧ (∀ n, o0 = some n → st0.pos + n ≤ s.posMax → o = some n)

/-- the code-span rule, across different caches (`Lemmas/MemoSafeLamBack.lean`) -/
def BackL2 (cfg : Cfg) (B : List Char → CodePair.Cache → Prop) (src : List Char) (Mtop : Nat) : Prop :=
  ∀ (skip tok skip' tok' : IState → Except Panic IState) (fuel fuel' : Nat) (st0 s : IState),
    WinHyp st0 s.posMax → st0.src = src → st0.posMax = Mtop → s.src = st0.src → s.pos = st0.pos →
    B st0.src st0.backticks → B s.src s.backticks →
    ∀ o0 st0' o s', runRule cfg skip tok fuel .backticks st0 true = .ok (o0, st0') →
      runRule cfg skip' tok' fuel' .backticks s false = .ok (o, s') →
      (o0 = none → o = none) ∧ (∀ n, o0 = some n → st0.pos + n ≤ s.posMax → o = some n)

/-- what every flat rule leaves alone in real mode (`real_keeps`, `runRule_backticks_unchanged`) -/
def RealKeeps (cfg : Cfg) : Prop :=
  ∀ (skip tok : IState → Except Panic IState) (fuel : Nat) (id : RuleId), id.isFlat = true →
    ∀ (s : IState) o s', runRule cfg skip tok fuel id s false = .ok (o, s') →
      s'.pos = s.pos ∧ s'.cache = s.cache ∧ s'.src = s.src ∧ s'.posMax = s.posMax ∧
      s'.level = s.level ∧ (id ≠ .backticks → s'.backticks = s.backticks)

/-- the emphasis rule in real mode (`emph_real_L2`) -/
def EmphL2 (cfg : Cfg) : Prop :=
  ∀ (mk : Char) (csw : Bool), mk.utf8Size = 1 → ∀ (s : IState) o s',
    ruleEmph cfg mk csw s false = .ok (o, s') →
    (∀ c rest, s.window = .ok (c :: rest) → c ≠ mk → o = none ∧ s' = s) ∧
    (∀ rest, s.window = .ok (mk :: rest) → ∃ n, o = some n ∧ 1 ≤ n ∧ s.pos + n ≤ s.posMax ∧
      ∀ i, i < n → ∃ r, slice s.src (s.pos + i) s.posMax = .ok (mk :: r))

/-- **L2 for `parse_link`** (`Lemmas/MemoSafeLamLink.lean`): the witness `w` ran `parse_link` at the
    position of the nested state `s` (look-ahead, top `pos_max`) with result `r0`; the memo entry at
    that position is `v` (`= pos + 1` when the witness declined, `= res.endPos` when it answered) and
    ends inside the frame.  Then `parse_link` at `s`, over ANY `skip_token` that follows memo hits, at
    any fuel `n`, is a fixed result `R` that does not depend on the `skip_token`, leaves the state
    alone, and — when it is not an error (out of fuel) — is the witness's result. -/
def ParseLinkL2 (cfg : Cfg) (B : List Char → CodePair.Cache → Prop) (src : List Char) (Mtop : Nat) : Prop :=
  ∀ (skip0 : IState → Except Panic IState) (f0 : Nat) (w w1 : IState) (offset : Nat) (en : Bool)
    (r0 : Option LinkRes) (s : IState) (v : Nat),
    CalmFn skip0 → SkipHypT skip0 → SkipGrowHyp skip0 →
    LInv w → w.src = src → w.posMax = Mtop → w.pos = s.pos →
    parseLink cfg skip0 f0 w (w.pos + offset) en = .ok (r0, w1) →
    LookupMono w1.cache s.cache →
    NF cfg B src Mtop s → s.pos < s.posMax →
    s.cache.lookup s.pos = some v → v ≤ s.posMax →
    ((offset = 0 ∧ en = false ∧ ∃ rest, slice src s.pos Mtop = .ok ('[' :: rest)) ∨
     (offset = 1 ∧ en = true ∧ ∃ rest, slice src s.pos Mtop = .ok ('!' :: '[' :: rest))) →
    (r0 = none → v = s.pos + 1) → (∀ res, r0 = some res → v = res.endPos) →
    ∀ n : Nat, ∃ R : Except Panic (Option LinkRes),
      (∀ skip, FollowsHits skip →
        parseLink cfg skip n s (s.pos + offset) en =
          match R with
          | .ok r => .ok (r, s)
          | .error e => .error e) ∧
      (∀ r, R = .ok r → r = r0)

/-- `ParseLinkL2` for ONE rule: the link rule (`offset = 0`, `en = false`, first character `[`) or the
    image rule (`offset = 1`, `en = true`, first characters `![`) -/
def ParseLinkL2Part (cfg : Cfg) (B : List Char → CodePair.Cache → Prop) (src : List Char) (Mtop : Nat)
    (offset : Nat) (en : Bool) : Prop :=
  ∀ (skip0 : IState → Except Panic IState) (f0 : Nat) (w w1 : IState)
    (r0 : Option LinkRes) (s : IState) (v : Nat),
    CalmFn skip0 → SkipHypT skip0 → SkipGrowHyp skip0 →
    LInv w → w.src = src → w.posMax = Mtop → w.pos = s.pos →
    parseLink cfg skip0 f0 w (w.pos + offset) en = .ok (r0, w1) →
    LookupMono w1.cache s.cache →
    NF cfg B src Mtop s → s.pos < s.posMax →
    s.cache.lookup s.pos = some v → v ≤ s.posMax →
    ((offset = 0 ∧ en = false ∧ ∃ rest, slice src s.pos Mtop = .ok ('[' :: rest)) ∨
     (offset = 1 ∧ en = true ∧ ∃ rest, slice src s.pos Mtop = .ok ('!' :: '[' :: rest))) →
    (r0 = none → v = s.pos + 1) → (∀ res, r0 = some res → v = res.endPos) →
    ∀ n : Nat, ∃ R : Except Panic (Option LinkRes),
      (∀ skip, FollowsHits skip →
        parseLink cfg skip n s (s.pos + offset) en =
          match R with
          | .ok r => .ok (r, s)
          | .error e => .error e) ∧
      (∀ r, R = .ok r → r = r0)

theorem ParseLinkL2.part {cfg : Cfg} {B : List Char → CodePair.Cache → Prop} {src : List Char}
    {Mtop : Nat} (h : ParseLinkL2 cfg B src Mtop) (offset : Nat) (en : Bool) :
    ParseLinkL2Part cfg B src Mtop offset en :=
  fun skip0 f0 w w1 r0 s v => h skip0 f0 w w1 offset en r0 s v

end MdIt.Inline
