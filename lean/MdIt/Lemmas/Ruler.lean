/-
  Generic helper lemmas for C09 (`Props/C09.lean`): `foldE` reasoning rules, the association-list
  `idhash`, `Vec::insert`, set / graph updates, and "a finite acyclic relation has a minimal element".
  Nothing here mentions the specification (`edge`, `greedy`, …).
-/
import MdIt.Model.Ruler

namespace MdIt.Ruler

/-! ### `foldE` -/

section FoldE
variable {σ α ε : Type}

theorem foldE_append (f : σ → α → Except ε σ) (s : σ) (l₁ l₂ : List α) :
    foldE f s (l₁ ++ l₂) =
      match foldE f s l₁ with
      | .error e => .error e
      | .ok s' => foldE f s' l₂ := by
  induction l₁ generalizing s with
  | nil => simp [foldE]
  | cons a l ih =>
    simp only [List.cons_append, foldE]
    cases f s a with
    | error e => simp
    | ok s' => simpa using ih s'

/-- partial correctness, invariant indexed by the processed prefix -/
theorem foldE_inv (f : σ → α → Except ε σ) (I : List α → σ → Prop) (l : List α) (s s' : σ)
    (h : foldE f s l = .ok s') (h0 : I [] s)
    (step : ∀ pre a t t', a ∈ l → I pre t → f t a = .ok t' → I (pre ++ [a]) t') : I l s' := by
  suffices H : ∀ (l : List α) (pre : List α) (s : σ), I pre s → foldE f s l = .ok s' →
      (∀ pre a t t', a ∈ l → I pre t → f t a = .ok t' → I (pre ++ [a]) t') → I (pre ++ l) s' by
    simpa using H l [] s h0 h step
  intro l
  induction l with
  | nil => intro pre s hI h _; simp [foldE] at h; subst h; simpa using hI
  | cons a l ih =>
    intro pre s hI h step
    simp only [foldE] at h
    cases hf : f s a with
    | error e => simp [hf] at h
    | ok t =>
      simp [hf] at h
      have := ih (pre ++ [a]) t (step pre a s t (by simp) hI hf) h
        (fun pre b u u' hb => step pre b u u' (by simp [hb]))
      simpa using this

/-- total correctness -/
theorem foldE_total (f : σ → α → Except ε σ) (I : List α → σ → Prop) (l : List α) (s : σ)
    (h0 : I [] s)
    (step : ∀ pre a t, a ∈ l → I pre t → ∃ t', f t a = .ok t' ∧ I (pre ++ [a]) t') :
    ∃ s', foldE f s l = .ok s' ∧ I l s' := by
  suffices H : ∀ (l : List α) (pre : List α) (s : σ), I pre s →
      (∀ pre a t, a ∈ l → I pre t → ∃ t', f t a = .ok t' ∧ I (pre ++ [a]) t') →
      ∃ s', foldE f s l = .ok s' ∧ I (pre ++ l) s' by
    simpa using H l [] s h0 step
  intro l
  induction l with
  | nil => intro pre s hI _; exact ⟨s, by simp [foldE], by simpa using hI⟩
  | cons a l ih =>
    intro pre s hI step
    obtain ⟨t, hf, hI'⟩ := step pre a s (by simp) hI
    obtain ⟨s', h1, h2⟩ := ih (pre ++ [a]) t hI' (fun pre b u hb => step pre b u (by simp [hb]))
    exact ⟨s', by simp [foldE, hf, h1], by simpa using h2⟩

/-- an error of the fold is the error of one step, reached through successful steps -/
theorem foldE_error (f : σ → α → Except ε σ) (l : List α) (s : σ) (e : ε)
    (h : foldE f s l = .error e) :
    ∃ pre a post t, l = pre ++ a :: post ∧ foldE f s pre = .ok t ∧ f t a = .error e := by
  induction l generalizing s with
  | nil => simp [foldE] at h
  | cons a l ih =>
    simp only [foldE] at h
    cases hf : f s a with
    | error e' =>
      simp [hf] at h; subst h
      exact ⟨[], a, l, s, by simp, by simp [foldE], hf⟩
    | ok t =>
      simp [hf] at h
      obtain ⟨pre, b, post, u, h1, h2, h3⟩ := ih t h
      exact ⟨a :: pre, b, post, u, by simp [h1], by simp [foldE, hf, h2], h3⟩

/-- nested loops = one loop over the flattened work list -/
theorem foldE_flatMap {β : Type} (f : σ → β → Except ε σ) (w : α → List β) (l : List α) (s : σ) :
    foldE (fun s a => foldE f s (w a)) s l = foldE f s (l.flatMap w) := by
  induction l generalizing s with
  | nil => simp [foldE]
  | cons a l ih =>
    simp only [foldE, List.flatMap_cons, foldE_append]
    cases foldE f s (w a) with
    | error e => simp
    | ok t => simpa using ih t

theorem foldE_map {β : Type} (f : σ → β → Except ε σ) (w : α → β) (l : List α) (s : σ) :
    foldE f s (l.map w) = foldE (fun s a => f s (w a)) s l := by
  induction l generalizing s with
  | nil => simp [foldE]
  | cons a l ih =>
    simp only [List.map_cons, foldE]
    cases f s (w a) with
    | error e => simp
    | ok t => simpa using ih t

end FoldE

/-! ### `idhash` -/

/-- the holders recorded for `m` (absent = none) -/
def Hd (h : IdHash) (m : Nat) : List Nat := (idGet h m).getD []

theorem idGet_idPush (h : IdHash) (m idx m' : Nat) :
    idGet (idPush h m idx) m' = if m = m' then some (Hd h m ++ [idx]) else idGet h m' := by
  induction h with
  | nil => simp [idPush, idGet, Hd]
  | cons kv t ih =>
    obtain ⟨k, v⟩ := kv
    by_cases hk : k = m
    · subst hk
      by_cases hm : k = m' <;> simp [idPush, idGet, Hd, hm]
    · by_cases hm : m = m'
      · subst hm; simp [idPush, idGet, Hd, hk] at ih ⊢; exact ih
      · simp [idPush, idGet, hk, hm] at ih ⊢
        split <;> simp_all

theorem idPush_foldl (marks : List Nat) (idx : Nat) (h : IdHash) (m : Nat) :
    (∀ x, x ∈ Hd (marks.foldl (fun h m => idPush h m idx) h) m ↔ x ∈ Hd h m ∨ (x = idx ∧ m ∈ marks))
    ∧ (idGet h m ≠ some [] → idGet (marks.foldl (fun h m => idPush h m idx) h) m ≠ some []) := by
  induction marks generalizing h with
  | nil => simp
  | cons a l ih =>
    simp only [List.foldl_cons]
    obtain ⟨h1, h2⟩ := ih (idPush h a idx)
    constructor
    · intro x
      rw [h1 x]
      by_cases ha : a = m
      · subst ha; simp [Hd, idGet_idPush]; grind
      · have : m ≠ a := fun h => ha h.symm
        simp [Hd, idGet_idPush, ha, this]
    · intro hne
      apply h2
      by_cases ha : a = m
      · subst ha; simp [idGet_idPush]
      · simpa [idGet_idPush, ha] using hne

/-! ### `Vec::insert` -/

theorem insertAt?_append (a b : List Nat) (x : Nat) :
    insertAt? (a ++ b) a.length x = some (a ++ x :: b) := by
  induction a with
  | nil => cases b <;> simp [insertAt?]
  | cons c a ih => simp [insertAt?, ih]

/-! ### sets and graph -/

theorem mem_setInsert (s : List Nat) (x y : Nat) : y ∈ setInsert s x ↔ y ∈ s ∨ y = x := by
  unfold setInsert
  split
  · rename_i h; simp at h; constructor
    · exact Or.inl
    · rintro (h' | h')
      · exact h'
      · subst h'; exact h
  · simp

/-- `x ∈ deps_graph[j]` -/
def G (g : Graph) (j x : Nat) : Prop := ∃ s, g[j]? = some s ∧ x ∈ s

theorem graphInsert_spec (g : Graph) (pos x : Nat) (hpos : pos < g.length) :
    ∃ g', graphInsert g pos x = .ok g' ∧ g'.length = g.length ∧
      ∀ j y, G g' j y ↔ G g j y ∨ (j = pos ∧ y = x) := by
  unfold graphInsert
  have hs : g[pos]? = some g[pos] := List.getElem?_eq_getElem hpos
  rw [hs]
  refine ⟨_, rfl, by simp, ?_⟩
  intro j y
  unfold G
  rw [List.getElem?_set]
  by_cases hj : pos = j
  · subst hj
    simp [hpos, mem_setInsert]
  · have : ¬ j = pos := fun h => hj h.symm
    simp [hj, this]

/-- `for depidx in hs { deps_graph[depidx].insert(idx) }` -/
theorem foldE_before_spec (idx : Nat) (hs : List Nat) (g : Graph) (hlt : ∀ d ∈ hs, d < g.length) :
    ∃ g', foldE (fun g depidx => graphInsert g depidx idx) g hs = .ok g' ∧ g'.length = g.length ∧
      ∀ j y, G g' j y ↔ G g j y ∨ (y = idx ∧ j ∈ hs) := by
  induction hs generalizing g with
  | nil => exact ⟨g, by simp [foldE], rfl, by simp⟩
  | cons d hs ih =>
    obtain ⟨g1, h1, hl1, hG1⟩ := graphInsert_spec g d idx (hlt d (by simp))
    obtain ⟨g2, h2, hl2, hG2⟩ := ih g1 (fun e he => by rw [hl1]; exact hlt e (by simp [he]))
    refine ⟨g2, by simp [foldE, h1, h2], by omega, ?_⟩
    intro j y
    rw [hG2, hG1]
    simp only [List.mem_cons]
    grind

/-- `for depidx in hs { deps_graph[idx].insert(depidx) }` -/
theorem foldE_after_spec (idx : Nat) (hs : List Nat) (g : Graph) (hidx : idx < g.length) :
    ∃ g', foldE (fun g depidx => graphInsert g idx depidx) g hs = .ok g' ∧ g'.length = g.length ∧
      ∀ j y, G g' j y ↔ G g j y ∨ (j = idx ∧ y ∈ hs) := by
  induction hs generalizing g with
  | nil => exact ⟨g, by simp [foldE], rfl, by simp⟩
  | cons d hs ih =>
    obtain ⟨g1, h1, hl1, hG1⟩ := graphInsert_spec g idx d hidx
    obtain ⟨g2, h2, hl2, hG2⟩ := ih g1 (by omega)
    refine ⟨g2, by simp [foldE, h1, h2], by omega, ?_⟩
    intro j y
    rw [hG2, hG1]
    simp only [List.mem_cons]
    grind

theorem G_graphRemove (g : Graph) (idx j x : Nat) :
    G (graphRemove g idx) j x ↔ G g j x ∧ x ≠ idx := by
  unfold G graphRemove
  rw [List.getElem?_map]
  cases g[j]? with
  | none => simp
  | some s => simp

/-! ### a finite acyclic relation has a minimal element in every non-empty finite set -/

theorem countP_lt_of_imp {α : Type} (p q : α → Bool) (l : List α)
    (himp : ∀ x ∈ l, p x = true → q x = true) (hex : ∃ x ∈ l, q x = true ∧ p x = false) :
    l.countP p < l.countP q := by
  induction l with
  | nil => simp at hex
  | cons a l ih =>
    obtain ⟨x, hx, hq, hp⟩ := hex
    have hmono : l.countP p ≤ l.countP q :=
      List.countP_mono_left (fun y hy => himp y (by simp [hy]))
    simp only [List.countP_cons]
    rcases List.mem_cons.1 hx with rfl | hx'
    · simp [hq, hp]; omega
    · have := ih (fun y hy => himp y (by simp [hy])) ⟨x, hx', hq, hp⟩
      have ha := himp a (by simp)
      by_cases hpa : p a = true
      · simp [hpa, ha hpa]; omega
      · by_cases hqa : q a = true <;> simp [hpa, hqa] <;> omega

open Relation in
theorem exists_minimal {α : Type} (R : α → α → Prop) (hac : ∀ a, ¬ TransGen R a a)
    (U : List α) (u : α) (hu : u ∈ U) : ∃ m ∈ U, ∀ x ∈ U, ¬ R x m := by
  classical
  let f : α → Nat := fun a => U.countP (fun x => decide (TransGen R x a))
  suffices H : ∀ k, ∀ u ∈ U, f u = k → ∃ m ∈ U, ∀ x ∈ U, ¬ R x m from H (f u) u hu rfl
  intro k
  induction k using Nat.strongRecOn with
  | _ k ih =>
    intro u hu hk
    by_cases hmin : ∀ x ∈ U, ¬ R x u
    · exact ⟨u, hu, hmin⟩
    · have hex : ∃ x, x ∈ U ∧ R x u :=
        Classical.byContradiction fun hne => hmin fun x hx hR => hne ⟨x, hx, hR⟩
      obtain ⟨x, hx, hR⟩ := hex
      have hlt : f x < f u := by
        apply countP_lt_of_imp
        · intro y _ hy
          simp only [decide_eq_true_eq] at hy ⊢
          exact TransGen.tail hy hR
        · exact ⟨x, hx, by simpa using TransGen.single hR, by simpa using hac x⟩
      exact ih (f x) (by omega) x hx rfl

end MdIt.Ruler
