/-
  Helper development for C10 (`MdIt/Props/C10.lean`) — reusable by C05/C06/C11.

  1. byte-indexed text: `byteLen`, `dropBytes`, `takeBytes`, `slice` as list decompositions.
  2. the loop of `generate_caches` line by line: `linesT` (lines with their terminators) and
     `offsetsOf` (running byte sums) with `splitLines_eq : splitLines s = offsetsOf 0 (linesT s)`.
  3. `pieces` / `dropFinalEmpty` versus `linesT`.
-/
import MdIt.Model.Lines

namespace MdIt.Lines

instance {ε α : Type} [DecidableEq ε] [DecidableEq α] : DecidableEq (Except ε α) := fun a b =>
  match a, b with
  | .ok x, .ok y => if h : x = y then isTrue (by rw [h]) else isFalse (fun h' => by cases h'; exact h rfl)
  | .error x, .error y =>
    if h : x = y then isTrue (by rw [h]) else isFalse (fun h' => by cases h'; exact h rfl)
  | .ok _, .error _ => isFalse (fun h => by cases h)
  | .error _, .ok _ => isFalse (fun h => by cases h)

theorem map_inj_of_injective {α β : Type} {f : α → β} (hf : Function.Injective f) :
    ∀ {a b : List α}, a.map f = b.map f → a = b
  | [], [], _ => rfl
  | [], _ :: _, h => by simp at h
  | _ :: _, [], h => by simp at h
  | x :: a, y :: b, h => by
    simp only [List.map_cons, List.cons.injEq] at h
    rw [hf h.1, map_inj_of_injective hf h.2]

/-! ### 1. bytes and slices -/

theorem utf8Size_pos' (c : Char) : 0 < c.utf8Size := Char.utf8Size_pos c

@[simp] theorem byteLen_nil : byteLen [] = 0 := rfl
@[simp] theorem byteLen_cons (c : Char) (r : List Char) : byteLen (c :: r) = c.utf8Size + byteLen r := rfl

@[simp] theorem byteLen_append (a b : List Char) : byteLen (a ++ b) = byteLen a + byteLen b := by
  induction a with
  | nil => simp
  | cons c r ih => simp [ih]; omega

@[simp] theorem byteLen_reverse (a : List Char) : byteLen a.reverse = byteLen a := by
  induction a with
  | nil => simp
  | cons c r ih => simp [ih]; omega

theorem byteLen_eq_zero {a : List Char} (h : byteLen a = 0) : a = [] := by
  cases a with
  | nil => rfl
  | cons c r => have := utf8Size_pos' c; simp at h; omega

theorem length_le_byteLen (a : List Char) : a.length ≤ byteLen a := by
  induction a with
  | nil => simp
  | cons c r ih => have := utf8Size_pos' c; simp; omega

@[simp] theorem dropBytes_zero (s : List Char) : dropBytes s 0 = some s := by
  cases s <;> simp [dropBytes]

@[simp] theorem takeBytes_zero (s : List Char) : takeBytes s 0 = some [] := by
  cases s <;> simp [takeBytes]

theorem dropBytes_append_left (p s : List Char) (n : Nat) :
    dropBytes (p ++ s) (byteLen p + n) = dropBytes s n := by
  induction p with
  | nil => simp
  | cons c r ih =>
    have := utf8Size_pos' c
    simp only [List.cons_append, byteLen_cons, dropBytes]
    rw [if_neg (by omega), if_neg (by omega)]
    rw [show c.utf8Size + byteLen r + n - c.utf8Size = byteLen r + n by omega]
    exact ih

theorem dropBytes_append (p s : List Char) : dropBytes (p ++ s) (byteLen p) = some s := by
  have := dropBytes_append_left p s 0
  simpa using this

theorem takeBytes_append (u q : List Char) : takeBytes (u ++ q) (byteLen u) = some u := by
  induction u with
  | nil => simp
  | cons c r ih =>
    have := utf8Size_pos' c
    simp only [List.cons_append, byteLen_cons, takeBytes]
    rw [if_neg (by omega), if_neg (by omega)]
    rw [show c.utf8Size + byteLen r - c.utf8Size = byteLen r by omega, ih]

theorem dropBytes_eq_some {s t : List Char} {n : Nat} (h : dropBytes s n = some t) :
    ∃ p, s = p ++ t ∧ byteLen p = n := by
  induction s generalizing n with
  | nil =>
    simp only [dropBytes] at h
    split at h
    · exact ⟨[], by simp_all⟩
    · cases h
  | cons c r ih =>
    simp only [dropBytes] at h
    split at h
    · exact ⟨[], by simp_all⟩
    · split at h
      · cases h
      · obtain ⟨p, hp, hn⟩ := ih h
        exact ⟨c :: p, by simp [hp], by simp; omega⟩

theorem takeBytes_eq_some {s u : List Char} {n : Nat} (h : takeBytes s n = some u) :
    ∃ q, s = u ++ q ∧ byteLen u = n := by
  induction s generalizing n u with
  | nil =>
    simp only [takeBytes] at h
    split at h
    · exact ⟨[], by simp_all⟩
    · cases h
  | cons c r ih =>
    simp only [takeBytes] at h
    split at h
    · exact ⟨c :: r, by simp_all⟩
    · split at h
      · cases h
      · split at h
        · cases h
        · rename_i t ht
          obtain ⟨q, hq, hn⟩ := ih ht
          cases h
          exact ⟨q, by simp [hq], by simp; omega⟩

theorem dropBytes_eq_some_iff {s t : List Char} {n : Nat} :
    dropBytes s n = some t ↔ ∃ p, s = p ++ t ∧ byteLen p = n ∧ (n = 0 → p = []) := by
  constructor
  · intro h
    obtain ⟨p, hp, hn⟩ := dropBytes_eq_some h
    exact ⟨p, hp, hn, fun h0 => byteLen_eq_zero (hn.trans h0)⟩
  · rintro ⟨p, rfl, rfl, _⟩
    exact dropBytes_append p t

/-- `&s[a..b]` succeeds exactly on a decomposition `s = p ++ u ++ q` at those byte offsets -/
theorem slice_eq_ok_iff {s u : List Char} {a b : Nat} :
    slice s a b = .ok u ↔ ∃ p q, s = p ++ u ++ q ∧ byteLen p = a ∧ a + byteLen u = b := by
  constructor
  · intro h
    unfold slice at h
    split at h
    · cases h
    · split at h
      · cases h
      · rename_i t ht
        split at h
        · cases h
        · rename_i u' hu
          cases h
          obtain ⟨p, hp, hn⟩ := dropBytes_eq_some ht
          obtain ⟨q, hq, hm⟩ := takeBytes_eq_some hu
          exact ⟨p, q, by simp [hp, hq], hn, by omega⟩
  · rintro ⟨p, q, rfl, rfl, rfl⟩
    unfold slice
    rw [if_neg (by omega)]
    have : dropBytes (p ++ u ++ q) (byteLen p) = some (u ++ q) := by
      rw [List.append_assoc]; exact dropBytes_append p (u ++ q)
    rw [this]
    simp only [show byteLen p + byteLen u - byteLen p = byteLen u by omega, takeBytes_append]

theorem slice_append (p u q : List Char) :
    slice (p ++ u ++ q) (byteLen p) (byteLen p + byteLen u) = .ok u :=
  slice_eq_ok_iff.mpr ⟨p, q, rfl, rfl, rfl⟩

/-- decompositions at equal byte offsets coincide (no character has zero width) -/
theorem append_inj_byteLen {p p' r r' : List Char} (h : p ++ r = p' ++ r')
    (hl : byteLen p = byteLen p') : p = p' ∧ r = r' := by
  induction p generalizing p' with
  | nil =>
    have : p' = [] := byteLen_eq_zero (by simpa using hl.symm)
    subst this; simpa using h
  | cons c t ih =>
    cases p' with
    | nil =>
      have := utf8Size_pos' c
      simp at hl; omega
    | cons c' t' =>
      simp only [List.cons_append, List.cons.injEq] at h
      obtain ⟨rfl, h⟩ := h
      have := ih h (by simp at hl; omega)
      simp [this.1, this.2]

theorem onBoundary_iff {s : List Char} {n : Nat} :
    onBoundary s n = true ↔ ∃ p q, s = p ++ q ∧ byteLen p = n := by
  unfold onBoundary
  rw [Option.isSome_iff_exists]
  constructor
  · rintro ⟨t, ht⟩
    obtain ⟨p, hp, hn⟩ := dropBytes_eq_some ht
    exact ⟨p, t, hp, hn⟩
  · rintro ⟨p, q, rfl, rfl⟩
    exact ⟨q, dropBytes_append p q⟩

/-- a slice between two boundaries in order never panics -/
theorem slice_ok_of_boundaries {s : List Char} {a b : Nat} (hab : a ≤ b)
    (ha : onBoundary s a = true) (hb : onBoundary s b = true) : ∃ u, slice s a b = .ok u := by
  obtain ⟨p, q, rfl, rfl⟩ := onBoundary_iff.mp ha
  obtain ⟨p', q', h, hb'⟩ := onBoundary_iff.mp hb
  -- p is a prefix of p'
  have key : ∀ (p p' q q' : List Char), p ++ q = p' ++ q' → byteLen p ≤ byteLen p' →
      ∃ u, p' = p ++ u := by
    intro p
    induction p with
    | nil => intro p' _ _ _ _; exact ⟨p', rfl⟩
    | cons c t ih =>
      intro p' q q' h hl
      cases p' with
      | nil => have := utf8Size_pos' c; simp at hl; omega
      | cons c' t' =>
        simp only [List.cons_append, List.cons.injEq] at h
        obtain ⟨rfl, h⟩ := h
        obtain ⟨u, hu⟩ := ih t' q q' h (by simp at hl; omega)
        exact ⟨u, by simp [hu]⟩
  obtain ⟨u, rfl⟩ := key p p' q q' h (by omega)
  refine ⟨u, slice_eq_ok_iff.mpr ⟨p, q', ?_, rfl, ?_⟩⟩
  · rw [h]
  · simp at hb'; omega

/-! ### 2. the loop of `generate_caches`, line by line -/

theorem mem_takeWhile_imp {α : Type} {p : α → Bool} {l : List α} {x : α}
    (h : x ∈ l.takeWhile p) : p x = true := by
  have := List.all_takeWhile (p := p) (l := l)
  rw [List.all_eq_true] at this
  exact this x h

theorem head_dropWhile {α : Type} {p : α → Bool} {l : List α} {c : α} {r : List α}
    (h : l.dropWhile p = c :: r) : p c = false := by
  have := List.head?_dropWhile_not p l
  rw [h] at this
  simpa using this

def NoTerm (l : List Char) : Prop := ∀ c ∈ l, c ≠ '\n' ∧ c ≠ '\r'
def AllBlank (l : List Char) : Prop := ∀ c ∈ l, c = ' ' ∨ c = '\t'

theorem NoTerm.tail {c : Char} {l : List Char} (h : NoTerm (c :: l)) : NoTerm l :=
  fun d hd => h d (List.mem_cons_of_mem _ hd)
theorem AllBlank.tail {c : Char} {l : List Char} (h : AllBlank (c :: l)) : AllBlank l :=
  fun d hd => h d (List.mem_cons_of_mem _ hd)

theorem AllBlank.byteLen {w : List Char} (h : AllBlank w) : byteLen w = w.length := by
  induction w with
  | nil => rfl
  | cons c r ih =>
    have hc := h c (by simp)
    have : c.utf8Size = 1 := by rcases hc with rfl | rfl <;> decide
    simp [ih h.tail, this]; omega

theorem AllBlank.noTerm {w : List Char} (h : AllBlank w) : NoTerm w := by
  intro c hc
  rcases h c hc with rfl | rfl <;> decide

theorem splitGo_nil (f : Bool) (i o start pos : Nat) :
    splitGo f i o start pos [] = [⟨start, pos, start + i, (o : Int)⟩] := by
  rw [splitGo]

/-- what the second arm (`'\n' | '\r'`) does -/
def termStep (line : LineOffset) (pos : Nat) (c : Char) (rest : List Char) : List LineOffset :=
  let crlf : Bool := c = '\r' ∧ rest.head? = some '\n'
  let rest' := if crlf then rest.tail else rest
  let pos' := if crlf then pos + 1 else pos
  if rest' = [] then [line] else line :: splitGo false 0 0 (pos' + 1) (pos' + 1) rest'

theorem splitGo_term {c : Char} (h : c = '\n' ∨ c = '\r') (f : Bool) (i o start pos : Nat)
    (rest : List Char) :
    splitGo f i o start pos (c :: rest) = termStep ⟨start, pos, start + i, (o : Int)⟩ pos c rest := by
  rw [splitGo]
  have h1 : ¬ ((c = ' ' ∨ c = '\t') ∧ f = false) := by
    rcases h with rfl | rfl <;> simp
  rw [if_neg h1, if_pos h]
  rfl

theorem splitGo_blank {c : Char} (h : c = ' ' ∨ c = '\t') (i o start pos : Nat) (rest : List Char) :
    splitGo false i o start pos (c :: rest) = splitGo false (i + 1) (colStep o c) start (pos + 1) rest := by
  rw [splitGo, if_pos ⟨h, rfl⟩]
  simp only [colStep]
  congr 1
  split <;> omega

theorem splitGo_other {c : Char} (h1 : ¬ (c = ' ' ∨ c = '\t')) (h2 : ¬ (c = '\n' ∨ c = '\r'))
    (f : Bool) (i o start pos : Nat) (rest : List Char) :
    splitGo f i o start pos (c :: rest) = splitGo true i o start (pos + c.utf8Size) rest := by
  rw [splitGo, if_neg (fun h => h1 h.1), if_neg h2]

theorem splitGo_found_step {c : Char} (h2 : ¬ (c = '\n' ∨ c = '\r'))
    (i o start pos : Nat) (rest : List Char) :
    splitGo true i o start pos (c :: rest) = splitGo true i o start (pos + c.utf8Size) rest := by
  rw [splitGo, if_neg (by simp), if_neg h2]

theorem splitGo_blanks (w : List Char) (hw : AllBlank w) (i o start pos : Nat) (rest : List Char) :
    splitGo false i o start pos (w ++ rest)
      = splitGo false (i + w.length) (widthFrom o w) start (pos + w.length) rest := by
  induction w generalizing i o pos with
  | nil => simp [widthFrom]
  | cons c r ih =>
    rw [List.cons_append, splitGo_blank (hw c (by simp)), ih hw.tail]
    simp only [widthFrom, List.foldl_cons, List.length_cons]
    congr 1 <;> omega

theorem splitGo_found (l : List Char) (hl : NoTerm l) (i o start pos : Nat) (rest : List Char) :
    splitGo true i o start pos (l ++ rest) = splitGo true i o start (pos + byteLen l) rest := by
  induction l generalizing pos with
  | nil => simp
  | cons c r ih =>
    have hc := hl c (by simp)
    rw [List.cons_append, splitGo_found_step (by simp [hc.1, hc.2]), ih hl.tail]
    simp only [byteLen_cons]
    congr 1; omega

/-- leading run of spaces / tabs -/
def lead (l : List Char) : List Char := l.takeWhile isBlank

theorem lead_allBlank (l : List Char) : AllBlank (lead l) := by
  intro c hc
  have := mem_takeWhile_imp hc
  simpa [isBlank] using this

theorem isBlank_iff {c : Char} : isBlank c = true ↔ (c = ' ' ∨ c = '\t') := by simp [isBlank]

/-- one whole line: the state in which the loop reaches the terminator (or the end) -/
theorem splitGo_line (l : List Char) (hl : NoTerm l) (start : Nat) (rest : List Char) :
    ∃ f, splitGo false 0 0 start start (l ++ rest)
      = splitGo f (lead l).length (indentWidth (lead l)) start (start + byteLen l) rest := by
  have hsplit : l = lead l ++ l.dropWhile isBlank := (List.takeWhile_append_dropWhile).symm
  have hb := lead_allBlank l
  generalize hd : l.dropWhile isBlank = d at hsplit
  have key : splitGo false 0 0 start start (l ++ rest)
      = splitGo false (lead l).length (indentWidth (lead l)) start (start + (lead l).length) (d ++ rest) := by
    conv => lhs; rw [hsplit, List.append_assoc]
    rw [splitGo_blanks _ hb]
    simp [indentWidth]
  have hlen : byteLen l = (lead l).length + byteLen d := by
    conv => lhs; rw [hsplit]
    simp [hb.byteLen]
  cases d with
  | nil => exact ⟨false, by rw [key]; simp at hlen ⊢; rw [hlen]⟩
  | cons c r =>
    have hcnb : ¬ (c = ' ' ∨ c = '\t') := by
      have := head_dropWhile hd
      intro h; rw [isBlank_iff.mpr h] at this; cases this
    have hmem : ∀ x ∈ c :: r, x ∈ l := by
      intro x hx; rw [hsplit]; exact List.mem_append_right _ hx
    have hcnt := hl c (hmem c (by simp))
    have hr : NoTerm r := fun x hx => hl x (hmem x (List.mem_cons_of_mem _ hx))
    refine ⟨true, ?_⟩
    rw [key, List.cons_append, splitGo_other hcnb (by simp [hcnt.1, hcnt.2]), splitGo_found r hr]
    simp only [byteLen_cons] at hlen
    congr 1; omega

def notTerm (c : Char) : Bool := !isTerm c

theorem notTerm_iff {c : Char} : notTerm c = true ↔ (c ≠ '\n' ∧ c ≠ '\r') := by
  simp [notTerm, isTerm]

/-- the first line of `s`, without its terminator -/
def lineOf (s : List Char) : List Char := s.takeWhile notTerm
/-- `s` from the first terminator on (`[]` if there is none) -/
def afterLine (s : List Char) : List Char := s.dropWhile notTerm

theorem lineOf_append_afterLine (s : List Char) : lineOf s ++ afterLine s = s :=
  List.takeWhile_append_dropWhile

theorem lineOf_noTerm (s : List Char) : NoTerm (lineOf s) := by
  intro c hc
  exact notTerm_iff.mp (mem_takeWhile_imp hc)

theorem afterLine_head (s : List Char) {c : Char} {r : List Char} (h : afterLine s = c :: r) :
    c = '\n' ∨ c = '\r' := by
  have := head_dropWhile (p := notTerm) h
  simp [notTerm, isTerm] at this
  by_cases h1 : c = '\n'
  · exact .inl h1
  · exact .inr (this h1)

/-- the terminator at the head of `x` (LF, CR, or CR LF) and what follows it -/
def termOf : List Char → List Char × List Char
  | [] => ([], [])
  | c :: r => if c = '\r' ∧ r.head? = some '\n' then (['\r', '\n'], r.tail) else ([c], r)

theorem termOf_append (x : List Char) : (termOf x).1 ++ (termOf x).2 = x := by
  cases x with
  | nil => rfl
  | cons c r =>
    simp only [termOf]
    split
    · rename_i h
      obtain ⟨rfl, h⟩ := h
      cases r with
      | nil => simp at h
      | cons d r' => simp at h; simp [h]
    · simp

theorem termOf_length (x : List Char) (h : (termOf x).2 ≠ []) : (termOf x).2.length < x.length := by
  have := congrArg List.length (termOf_append x)
  cases x with
  | nil => simp [termOf] at h
  | cons c r =>
    simp only [termOf] at this h ⊢
    split <;> simp_all <;> omega

/-- the lines of `s` with their terminators, as `generate_caches` cuts them: a final terminator
    does not open a new line -/
def linesT (s : List Char) : List (List Char × List Char) :=
  if (termOf (afterLine s)).2 = [] then [(lineOf s, (termOf (afterLine s)).1)]
  else (lineOf s, (termOf (afterLine s)).1) :: linesT (termOf (afterLine s)).2
termination_by s.length
decreasing_by
  rename_i h
  have h1 := termOf_length _ h
  have h2 : (afterLine s).length ≤ s.length := (List.dropWhile_suffix _).length_le
  omega

/-- offsets of consecutive (line, terminator) pairs starting at byte `start` -/
def offsetsOf (start : Nat) : List (List Char × List Char) → List LineOffset
  | [] => []
  | lt :: r =>
    ⟨start, start + byteLen lt.1, start + (lead lt.1).length, (indentWidth (lead lt.1) : Int)⟩
      :: offsetsOf (start + byteLen lt.1 + byteLen lt.2) r

theorem termStep_eq {c : Char} (hc : c = '\n' ∨ c = '\r') (line : LineOffset) (pos : Nat)
    (r : List Char) :
    termStep line pos c r =
      if (termOf (c :: r)).2 = [] then [line]
      else line :: splitGo false 0 0 (pos + byteLen (termOf (c :: r)).1)
        (pos + byteLen (termOf (c :: r)).1) (termOf (c :: r)).2 := by
  unfold termStep termOf
  have h1 : c.utf8Size = 1 := by rcases hc with rfl | rfl <;> decide
  by_cases h : c = '\r' ∧ r.head? = some '\n'
  · simp only [h, and_self, decide_true, if_true, byteLen_cons, byteLen_nil]
    simp [show '\r'.utf8Size = 1 by decide, show '\n'.utf8Size = 1 by decide]
  · simp only [h, decide_false, if_false, byteLen_cons, byteLen_nil, h1]
    simp

theorem splitGo_eq (s : List Char) :
    ∀ start, splitGo false 0 0 start start s = offsetsOf start (linesT s) := by
  fun_induction linesT s with
  | case1 s h =>
    intro start
    obtain ⟨f, hf⟩ := splitGo_line (lineOf s) (lineOf_noTerm s) start (afterLine s)
    rw [lineOf_append_afterLine] at hf
    rw [hf]
    cases hx : afterLine s with
    | nil => simp [splitGo_nil, offsetsOf]
    | cons c r =>
      have hc := afterLine_head s hx
      rw [hx] at h
      rw [splitGo_term hc, termStep_eq hc, if_pos h]
      simp [offsetsOf]
  | case2 s h ih =>
    intro start
    obtain ⟨f, hf⟩ := splitGo_line (lineOf s) (lineOf_noTerm s) start (afterLine s)
    rw [lineOf_append_afterLine] at hf
    rw [hf]
    cases hx : afterLine s with
    | nil => rw [hx] at h; simp [termOf] at h
    | cons c r =>
      have hc := afterLine_head s hx
      rw [hx] at h ih
      rw [splitGo_term hc, termStep_eq hc, if_neg h, ih]
      simp [offsetsOf, Nat.add_assoc]

theorem splitLines_eq (s : List Char) : splitLines s = offsetsOf 0 (linesT s) :=
  splitGo_eq s 0

/-! ### 3. `linesT`: shape facts, and `pieces` / `dropFinalEmpty` -/

def flat (L : List (List Char × List Char)) : List Char := L.flatMap (fun lt => lt.1 ++ lt.2)

@[simp] theorem flat_nil : flat [] = [] := rfl
@[simp] theorem flat_cons (lt : List Char × List Char) (L : List (List Char × List Char)) :
    flat (lt :: L) = lt.1 ++ lt.2 ++ flat L := by simp [flat]
@[simp] theorem flat_append (A B : List (List Char × List Char)) :
    flat (A ++ B) = flat A ++ flat B := by simp [flat]

theorem linesT_flat (s : List Char) : flat (linesT s) = s := by
  fun_induction linesT s with
  | case1 s h =>
    have := termOf_append (afterLine s)
    rw [h, List.append_nil] at this
    simp [this, lineOf_append_afterLine]
  | case2 s h ih =>
    simp only [flat_cons, ih, List.append_assoc, termOf_append, lineOf_append_afterLine]

theorem linesT_ne_nil (s : List Char) : linesT s ≠ [] := by
  rw [linesT]; split <;> simp

/-- a line terminator -/
def IsTerminator (t : List Char) : Prop := t = ['\n'] ∨ t = ['\r'] ∨ t = ['\r', '\n']

theorem termOf_isTerminator {c : Char} (hc : c = '\n' ∨ c = '\r') (r : List Char) :
    IsTerminator (termOf (c :: r)).1 := by
  simp only [termOf, IsTerminator]
  split
  · simp
  · rcases hc with rfl | rfl <;> simp

theorem termOf_afterLine (s : List Char) :
    (afterLine s = [] ∧ (termOf (afterLine s)).1 = []) ∨ IsTerminator (termOf (afterLine s)).1 := by
  cases hx : afterLine s with
  | nil => left; simp [termOf]
  | cons c r => right; exact termOf_isTerminator (afterLine_head s hx) r

/-- every line is terminator-free; every line but the last is followed by a terminator, the last by
    a terminator or by nothing -/
theorem linesT_shape (s : List Char) :
    ∀ i lt, (linesT s)[i]? = some lt →
      NoTerm lt.1 ∧ (IsTerminator lt.2 ∨ (lt.2 = [] ∧ i + 1 = (linesT s).length)) := by
  fun_induction linesT s with
  | case1 s h =>
    intro i lt hi
    cases i with
    | zero =>
      simp at hi; subst hi
      refine ⟨lineOf_noTerm s, ?_⟩
      rcases termOf_afterLine s with ⟨_, h2⟩ | h2
      · right; simp [h2]
      · left; exact h2
    | succ i => simp at hi
  | case2 s h ih =>
    intro i lt hi
    cases i with
    | zero =>
      simp at hi; subst hi
      refine ⟨lineOf_noTerm s, ?_⟩
      rcases termOf_afterLine s with ⟨h1, _⟩ | h2
      · rw [h1] at h; simp [termOf] at h
      · left; exact h2
    | succ i =>
      simp only [List.getElem?_cons_succ] at hi
      have := ih i lt hi
      simpa using this

theorem consHead_foldr (l p : List Char) (ps : List (List Char)) :
    l.foldr consHead (p :: ps) = (l ++ p) :: ps := by
  induction l with
  | nil => rfl
  | cons c r ih => simp [ih, consHead]

theorem pieces_nil : pieces [] = [[]] := by rw [pieces]

theorem pieces_lf (r : List Char) : pieces ('\n' :: r) = [] :: pieces r := by
  rw [pieces]; simp

theorem pieces_cr (r : List Char) : pieces ('\r' :: r) = [] :: pieces (dropLf r) := by
  rw [pieces]; simp

theorem pieces_other {c : Char} (h1 : c ≠ '\n') (h2 : c ≠ '\r') (r : List Char) :
    pieces (c :: r) = consHead c (pieces r) := by
  rw [pieces]; simp [h1, h2]

theorem pieces_noTerm_append (l : List Char) (hl : NoTerm l) (rest : List Char) :
    pieces (l ++ rest) = l.foldr consHead (pieces rest) := by
  induction l with
  | nil => rfl
  | cons c r ih =>
    have hc := hl c (by simp)
    rw [List.cons_append, pieces_other hc.1 hc.2, ih hl.tail]
    rfl

theorem dropLf_eq_termOf {r : List Char} : dropLf r = (termOf ('\r' :: r)).2 := by
  cases r with
  | nil => simp [dropLf, termOf]
  | cons d r' =>
    by_cases hd : d = '\n'
    · simp [dropLf, termOf, hd]
    · simp [dropLf, termOf, hd]

theorem pieces_term {c : Char} (hc : c = '\n' ∨ c = '\r') (r : List Char) :
    pieces (c :: r) = [] :: pieces (termOf (c :: r)).2 := by
  rcases hc with rfl | rfl
  · rw [pieces_lf]; simp [termOf]
  · rw [pieces_cr, dropLf_eq_termOf]

/-- `pieces`, one line at a time -/
theorem pieces_eq (s : List Char) :
    pieces s = lineOf s :: (if afterLine s = [] then [] else pieces (termOf (afterLine s)).2) := by
  conv => lhs; rw [← lineOf_append_afterLine s]
  rw [pieces_noTerm_append _ (lineOf_noTerm s)]
  cases hx : afterLine s with
  | nil => simp [pieces_nil, consHead_foldr]
  | cons c r =>
    rw [pieces_term (afterLine_head s hx), consHead_foldr]
    simp

theorem pieces_eq_singleton_nil {s : List Char} (h : pieces s = [[]]) : s = [] := by
  rw [pieces_eq] at h
  simp only [List.cons.injEq] at h
  obtain ⟨h1, h2⟩ := h
  have h3 : afterLine s = [] := by
    by_cases h3 : afterLine s = []
    · exact h3
    · rw [if_neg h3] at h2
      rw [pieces_eq] at h2
      cases h2
  rw [← lineOf_append_afterLine s, h1, h3]; rfl

theorem pieces_ne_nil (s : List Char) : pieces s ≠ [] := by
  rw [pieces_eq]; simp

theorem dropFinalEmpty_cons (p : List Char) {X : List (List Char)} (h1 : X ≠ []) (h2 : X ≠ [[]]) :
    dropFinalEmpty (p :: X) = p :: dropFinalEmpty X := by
  cases X with
  | nil => exact absurd rfl h1
  | cons q r =>
    rw [dropFinalEmpty, if_neg]
    rintro ⟨rfl, rfl⟩
    exact h2 rfl

/-- the lines `generate_caches` cuts are the pieces minus one final empty piece -/
theorem linesT_fst (s : List Char) : (linesT s).map Prod.fst = dropFinalEmpty (pieces s) := by
  fun_induction linesT s with
  | case1 s h =>
    rw [pieces_eq]
    by_cases h3 : afterLine s = []
    · simp [h3, dropFinalEmpty]
    · simp [h3, h, pieces_nil, dropFinalEmpty]
  | case2 s h ih =>
    rw [pieces_eq]
    have h3 : afterLine s ≠ [] := by
      intro h3; rw [h3] at h; simp [termOf] at h
    rw [if_neg h3]
    simp only [List.map_cons, ih]
    generalize hq : (termOf (afterLine s)).2 = x at *
    have hne := pieces_ne_nil x
    have hns : pieces x ≠ [[]] := fun hc => h (pieces_eq_singleton_nil hc)
    rw [dropFinalEmpty_cons _ hne hns]

/-! ### 4. `offsetsOf`: the i-th entry, its view, its bounds -/

def mkOff (start : Nat) (lt : List Char × List Char) : LineOffset :=
  ⟨start, start + byteLen lt.1, start + (lead lt.1).length, (indentWidth (lead lt.1) : Int)⟩

theorem offsetsOf_cons (start : Nat) (lt : List Char × List Char) (r : List (List Char × List Char)) :
    offsetsOf start (lt :: r) = mkOff start lt :: offsetsOf (start + byteLen lt.1 + byteLen lt.2) r := rfl

@[simp] theorem offsetsOf_length (start : Nat) (L : List (List Char × List Char)) :
    (offsetsOf start L).length = L.length := by
  induction L generalizing start with
  | nil => rfl
  | cons lt r ih => simp [offsetsOf_cons, ih]

theorem offsetsOf_getElem? {L : List (List Char × List Char)} {start i : Nat} {o : LineOffset}
    (h : (offsetsOf start L)[i]? = some o) :
    ∃ A lt B, L = A ++ lt :: B ∧ A.length = i ∧ o = mkOff (start + byteLen (flat A)) lt := by
  induction L generalizing start i with
  | nil => simp [offsetsOf] at h
  | cons lt0 r ih =>
    rw [offsetsOf_cons] at h
    cases i with
    | zero =>
      simp at h
      exact ⟨[], lt0, r, rfl, rfl, by simp [h]⟩
    | succ i =>
      simp only [List.getElem?_cons_succ] at h
      obtain ⟨A, lt, B, hL, hA, ho⟩ := ih h
      refine ⟨lt0 :: A, lt, B, by simp [hL], by simp [hA], ?_⟩
      rw [ho]; simp [Nat.add_assoc]

theorem offsetsOf_mem {L : List (List Char × List Char)} {start : Nat} {o : LineOffset}
    (h : o ∈ offsetsOf start L) :
    ∃ A lt B, L = A ++ lt :: B ∧ o = mkOff (start + byteLen (flat A)) lt := by
  obtain ⟨i, hi⟩ := List.getElem?_of_mem h
  obtain ⟨A, lt, B, h1, _, h3⟩ := offsetsOf_getElem? hi
  exact ⟨A, lt, B, h1, h3⟩

theorem lead_append_rest (l : List Char) : lead l ++ l.dropWhile isBlank = l :=
  List.takeWhile_append_dropWhile

theorem byteLen_lead (l : List Char) : byteLen (lead l) = (lead l).length :=
  (lead_allBlank l).byteLen

theorem lead_length_le (l : List Char) : (lead l).length ≤ byteLen l := by
  have := congrArg byteLen (lead_append_rest l)
  simp [byteLen_lead] at this
  omega

/-- the view of the entry made for line `l` sitting at `P ++ l ++ Q` -/
theorem mkOff_view (P l Q t : List Char) :
    view (P ++ l ++ Q) (mkOff (byteLen P) (l, t))
      = (.ok (lead l), .ok (l.dropWhile isBlank), (indentWidth (lead l) : Int)) := by
  have hl := lead_append_rest l
  simp only [view, lineWs, lineText, mkOff]
  refine Prod.ext ?_ (Prod.ext ?_ rfl)
  · refine slice_eq_ok_iff.mpr ⟨P, l.dropWhile isBlank ++ Q, ?_, rfl, by rw [byteLen_lead]⟩
    conv => lhs; rw [← hl]
    simp only [List.append_assoc]
  · refine slice_eq_ok_iff.mpr ⟨P ++ lead l, Q, ?_, ?_, ?_⟩
    · conv => lhs; rw [← hl]
      simp only [List.append_assoc]
    · simp [byteLen_lead]
    · have := congrArg byteLen hl
      simp only [byteLen_append, byteLen_lead] at this
      omega

/-- the views of a whole table -/
theorem offsetsOf_views (pre post : List Char) (L : List (List Char × List Char)) :
    (offsetsOf (byteLen pre) L).map (view (pre ++ flat L ++ post))
      = L.map fun lt => (.ok (lead lt.1), .ok (lt.1.dropWhile isBlank), (indentWidth (lead lt.1) : Int)) := by
  induction L generalizing pre with
  | nil => rfl
  | cons lt r ih =>
    rw [offsetsOf_cons, List.map_cons, List.map_cons]
    congr 1
    · have := mkOff_view pre lt.1 (lt.2 ++ flat r ++ post) lt.2
      simpa [List.append_assoc] using this
    · have := ih (pre ++ lt.1 ++ lt.2)
      simpa [List.append_assoc, Nat.add_assoc] using this

end MdIt.Lines
