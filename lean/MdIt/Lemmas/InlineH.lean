/-
  Lemmas for `MdIt/Props/InlineH.lean`: the inline parser with the raw-HTML rule in the chain —
  part 1: conservativity, the `link_level` reset, progress and fuel.

  What is reused VERBATIM.  Every per-rule lemma of the cmark rules (`Lemmas/InlineRules*.lean`,
  `Lemmas/InlineLink.lean`: `runRule_spec`, with `labelLoop_spec` … `linkRule_spec` behind it) is stated
  for arbitrary call-backs `skip` / `tok` under the contracts `SkipHyp` / `TokHyp`, so it applies to the
  new `skipTokenH` / `tokLoopH`.  `silentBumped_spec` is generic in the rule.

  What could NOT be reused as it is, and why.
   1. `Inline.tokStep` / `Inline.skipStep` / `Inline.firstRule` have `runRule` and `cfg.chain : List RuleId`
      baked in (in `Model/Block.lean` the loop takes the runner as a parameter, which is what made the
      one-element-chain re-indexing of `Lemmas/BlockH.lean` possible).  The chain layer is therefore
      re-proved for `firstRuleG` / `tokStepG` / `skipStepG` (`firstRuleG_specL`, `tokStepG_spec`,
      `skipStepG_spec`, `contractsH`): the proofs are those of `Lemmas/InlineLink.lean` /
      `Lemmas/InlineFuel.lean`, statement by statement.
   2. EVERY contract of the inline development contains `Inline.Frame`, which demands
      `linkLevel` UNCHANGED.  The html rule changes `link_level` in real mode, and `linkRule` over a
      tokenizer with the html rule no longer restores it (`[<a>](u)` leaves `link_level = 1`: the
      `+ 1` / `- 1` of `full_link::rule` bracket a run that is not neutral).  So `TokHyp` is FALSE for
      `tokLoopH`.  Way out, without copying the link development: no rule READS `linkLevel`
      (`linkRule` reads it only to write it back), so the per-rule lemmas are applied to

          resetLL tok  :=  `tok`, with `linkLevel` put back to its value at entry

      which does meet `TokHyp` when `tok` meets the `linkLevel`-free contract `TokHypL`, and the result
      is carried over by `runRule_reset`: `runRule … (resetLL tok) …` and `runRule … tok …` fail
      together and agree up to the `linkLevel` field.  The contracts are restated with
      `FrameL` = `Frame` minus `linkLevel` (`RuleSpecL`, `TokSpecL`); look-ahead mode keeps the full
      `Frame` (the html rule is pure there).
-/
import MdIt.Model.InlineH
import MdIt.Props.Inline
import MdIt.Props.Html

namespace MdIt.InlineH
open MdIt.Inline
open MdIt.InlineOps (Srcmap getSourcePosFor getMap byteLen slice)

/-! ## 1. the html rule as a chain member -/

theorem htmlRule_ok {st st' : IState} {silent : Bool} {o : Option Nat}
    (h : htmlRule st silent = .ok (o, st')) :
    ∃ s1 nd, Html.htmlInlineRule st silent = .ok (o, s1, nd) ∧
      ((nd = none ∧ st' = s1) ∨ (∃ n, nd = some n ∧ st' = s1.push (htmlNode n))) := by
  unfold htmlRule at h
  split at h
  · cases h
  · rename_i o1 s1 he
    simp only [Except.ok.injEq, Prod.mk.injEq] at h
    obtain ⟨rfl, rfl⟩ := h
    exact ⟨_, _, he, .inl ⟨rfl, rfl⟩⟩
  · rename_i o1 s1 n he
    simp only [Except.ok.injEq, Prod.mk.injEq] at h
    obtain ⟨rfl, rfl⟩ := h
    exact ⟨_, _, he, .inr ⟨n, rfl, rfl⟩⟩

/-- the rule never answers `Panic.fuel` -/
theorem htmlRule_nf (st : IState) (silent : Bool) : htmlRule st silent ≠ .error .fuel := by
  unfold htmlRule
  split
  · rename_i e _
    cases e <;> simp [ofIPanic]
  · simp
  · simp

/-- the three shapes of a successful call: declined; look-ahead success; real success (one node
    pushed, `link_level` moved by at most one) -/
theorem htmlRule_cases {st st' : IState} {silent : Bool} {o : Option Nat}
    (h : htmlRule st silent = .ok (o, st')) :
    (o = none ∧ st' = st) ∨
    (∃ n, o = some n ∧ silent = true ∧ st' = st) ∨
    (∃ n ll nd, o = some n ∧ silent = false ∧
      Html.htmlInlineRule st false = .ok (some n, { st with linkLevel := ll }, some nd) ∧
      st' = { st with linkLevel := ll, children := st.children ++ [htmlNode nd] }) := by
  obtain ⟨s1, nd, he, hc⟩ := htmlRule_ok h
  obtain ⟨c, rest, hw, hcase⟩ := Html.htmlInlineRule_ok he
  rcases hcase with ⟨rfl, rfl, rfl, _⟩ | ⟨r, _, _, _, ho, hmode⟩
  · rcases hc with ⟨_, rfl⟩ | ⟨n, hn, _⟩
    · exact .inl ⟨rfl, rfl⟩
    · cases hn
  · rcases hmode with ⟨rfl, rfl, rfl⟩ | ⟨rfl, ll, rg, _, _, rfl, rfl⟩
    · rcases hc with ⟨_, rfl⟩ | ⟨n, hn, _⟩
      · exact .inr (.inl ⟨_, ho, rfl, rfl⟩)
      · cases hn
    · rcases hc with ⟨hn, _⟩ | ⟨n, hn, rfl⟩
      · cases hn
      · cases hn
        subst ho
        exact .inr (.inr ⟨_, ll, _, rfl, rfl, he, rfl⟩)

/-- a match consumes at least one byte (no hypothesis on the state) -/
theorem htmlRule_pos {st st' : IState} {silent : Bool} {n : Nat}
    (h : htmlRule st silent = .ok (some n, st')) : 1 ≤ n := by
  obtain ⟨s1, nd, he, _⟩ := htmlRule_ok h
  obtain ⟨c, rest, hw, hcase⟩ := Html.htmlInlineRule_ok he
  rcases hcase with ⟨h0, _⟩ | ⟨r, _, _, hr, ho, _⟩
  · cases h0
  · obtain ⟨m, hm⟩ := Html.tagRest_spec hr
    have hb : byteLen (c :: rest) = byteLen ('<' :: m) + byteLen r := by
      rw [hm, ← C05.byteLen_append]
    have h1 : byteLen ('<' :: m) = 1 + byteLen m := by simp [byteLen, Html.byteLen_lt_one]
    injection ho with ho
    omega

/-- **the html member.**  Called as the tokenizer calls it (window non-empty, on boundaries,
    well-formed table) with `link_level` strictly inside `i32`, the rule does not panic, and when it fires
    it consumes at least one byte, stays inside `pos_max` and ends on a character boundary. -/
theorem htmlRule_fires {st : IState} (hi : InlineInv st) (silent : Bool)
    (hll : Html.i32Min < st.linkLevel ∧ st.linkLevel < Html.i32Max) :
    ∃ o st', htmlRule st silent = .ok (o, st') ∧ Advances st o := by
  obtain ⟨o, s1, nd, h, hadv⟩ := Html.inline_rule_progress_html hi silent hll
  unfold htmlRule
  rw [h]
  cases nd with
  | none => exact ⟨_, _, rfl, hadv⟩
  | some n => exact ⟨_, _, rfl, hadv⟩

/-- the extent of a match, from the window alone: at least one byte, inside `pos_max`, on a boundary -/
theorem htmlRule_advances {st st' : IState} {silent : Bool} {o : Option Nat}
    (h : htmlRule st silent = .ok (o, st')) : Advances st o := by
  obtain ⟨s1, nd, he, _⟩ := htmlRule_ok h
  obtain ⟨c, rest, hw, hcase⟩ := Html.htmlInlineRule_ok he
  rcases hcase with ⟨rfl, _⟩ | ⟨r, _, _, hr, ho, _⟩
  · intro len hl; cases hl
  · obtain ⟨m, hm⟩ := Html.tagRest_spec hr
    have hsl := window_eq hw
    have hb : byteLen (c :: rest) = byteLen ('<' :: m) + byteLen r := by
      rw [hm, ← C05.byteLen_append]
    have h1 : byteLen ('<' :: m) = 1 + byteLen m := by simp [byteLen, Html.byteLen_lt_one]
    have h2 := (slice_boundaries hsl).2.2
    intro len hl
    rw [ho] at hl
    injection hl with hl
    subst hl
    refine ⟨by omega, by omega, ?_⟩
    have : byteLen (c :: rest) - byteLen r = byteLen ('<' :: m) := by omega
    rw [this]
    exact boundary_in_slice (by rw [← hm]; exact hsl)

/-! ## 2. conservativity: a chain without `.html` -/

theorem firstRuleG_map {ι κ : Type} (f : κ → ι) (run : ι → IState → RuleRes) :
    ∀ (l : List κ) (st : IState), firstRuleG run (l.map f) st = firstRuleG (fun k => run (f k)) l st := by
  intro l
  induction l with
  | nil => intro st; rfl
  | cons k ks ih =>
    intro st
    simp only [List.map_cons, firstRuleG]
    split <;> simp_all

theorem firstRuleG_eq (run : RuleId → IState → RuleRes) :
    ∀ (l : List RuleId) (st : IState), firstRuleG run l st = firstRule run l st := by
  intro l
  induction l with
  | nil => intro st; rfl
  | cons k ks ih =>
    intro st
    simp only [firstRuleG, firstRule]
    split <;> simp_all

theorem tokStepG_base (cfg : Cfg) (skip tok : IState → Except Panic IState) (fuel : Nat) (st : IState) :
    tokStepG cfg.maxNesting (cfg.chain.map .base) (runRuleH cfg skip tok fuel) st =
      tokStep cfg skip tok fuel st := by
  unfold tokStepG tokStep
  rw [firstRuleG_map, firstRuleG_eq]
  rfl

theorem skipStepG_base (cfg : Cfg) (skip tok : IState → Except Panic IState) (fuel : Nat) (st : IState) :
    skipStepG (cfg.chain.map .base) (runRuleH cfg skip tok fuel) st = skipStep cfg skip tok fuel st := by
  unfold skipStepG skipStep
  rw [firstRuleG_map, firstRuleG_eq]
  rfl

theorem engineH_conservative (cfg : Cfg) : ∀ fuel : Nat,
    (∀ e st, tokLoopH cfg (cfg.chain.map .base) fuel e st = tokLoop cfg fuel e st) ∧
    (∀ st, skipTokenH cfg (cfg.chain.map .base) fuel st = skipToken cfg fuel st) := by
  intro fuel
  induction fuel with
  | zero =>
    refine ⟨fun e st => ?_, fun st => ?_⟩
    · unfold tokLoopH tokLoop; rfl
    · unfold skipTokenH skipToken; rfl
  | succ f ih =>
    have hs : (fun s => skipTokenH cfg (cfg.chain.map .base) f s) = (fun s => skipToken cfg f s) :=
      funext ih.2
    have ht : (fun s => tokLoopH cfg (cfg.chain.map .base) f s.posMax s) =
        (fun s => tokLoop cfg f s.posMax s) := funext (fun s => ih.1 _ s)
    refine ⟨fun e st => ?_, fun st => ?_⟩
    · unfold tokLoopH tokLoop
      simp only [hs, tokStepG_base, ih.1]
      rfl
    · unfold skipTokenH skipToken
      simp only [hs, ht, skipStepG_base]
      rfl

theorem filterMap_base_map (l : List RuleId) : (l.map RuleIdH.base).filterMap RuleIdH.base? = l := by
  induction l with
  | nil => rfl
  | cons a l ih => simp [RuleIdH.base?, ih]

theorem map_base_filterMap : ∀ (l : List RuleIdH), RuleIdH.html ∉ l →
    (l.filterMap RuleIdH.base?).map .base = l
  | [], _ => rfl
  | .base r :: l, h => by
    simp only [List.filterMap_cons, RuleIdH.base?, List.map_cons]
    rw [map_base_filterMap l (fun hm => h (List.mem_cons_of_mem _ hm))]
  | .html :: l, h => absurd (List.mem_cons_self) h

theorem base_ofCfg (cfg : Cfg) : (CfgH.ofCfg cfg).base = cfg := by
  unfold CfgH.ofCfg CfgH.base
  simp only [filterMap_base_map]

/-! ## 3. `FrameL`, the contracts without `linkLevel`, the reset -/

/-- `Inline.Frame` minus `linkLevel`: what no rule of the extended chain changes in the end -/
structure FrameL (a b : IState) : Prop where
  src : b.src = a.src
  srcmap : b.srcmap = a.srcmap
  posMax : b.posMax = a.posMax
  level : b.level = a.level

theorem FrameL.refl (a : IState) : FrameL a a := ⟨rfl, rfl, rfl, rfl⟩

theorem FrameL.trans {a b c : IState} (h1 : FrameL a b) (h2 : FrameL b c) : FrameL a c :=
  ⟨h2.src.trans h1.src, h2.srcmap.trans h1.srcmap, h2.posMax.trans h1.posMax, h2.level.trans h1.level⟩

theorem FrameL.ofFrame {a b : IState} (h : Frame a b) : FrameL a b := ⟨h.src, h.srcmap, h.posMax, h.level⟩

theorem FrameL.toFrame {a b : IState} (h : FrameL a b) (hl : b.linkLevel = a.linkLevel) : Frame a b :=
  ⟨h.src, h.srcmap, h.posMax, h.level, hl⟩

/-- `Inline.TokSpec` with `FrameL` -/
structure TokSpecL (st : IState) (r : Except Panic IState) : Prop where
  noFuel : r ≠ .error .fuel
  ok : ∀ st', r = .ok st' → FrameL st st' ∧ MemoInv st'

/-- `Inline.RuleSpec` with `FrameL`; look-ahead mode keeps `linkLevel` -/
structure RuleSpecL (st : IState) (silent : Bool) (r : RuleRes) : Prop where
  noFuel : r ≠ .error .fuel
  ok : ∀ o st', r = .ok (o, st') →
    FrameL st st' ∧ MemoInv st' ∧
    (silent = true → Quiet st st' ∧ st'.pos = st.pos ∧ st'.linkLevel = st.linkLevel) ∧
    (o = none → st'.pos = st.pos) ∧
    (∀ len, o = some len → st.pos < st'.pos + len)

def TokHypL (tok : IState → Except Panic IState) (lvl L : Nat) : Prop :=
  ∀ s, MemoInv s → s.level = lvl → s.posMax - s.pos ≤ L → TokSpecL s (tok s)

theorem RuleSpecL.ofSpec {st : IState} {silent : Bool} {r : RuleRes} (h : RuleSpec st silent r) :
    RuleSpecL st silent r :=
  ⟨h.noFuel, fun o st' hr => by
    obtain ⟨a, b, c, d, e⟩ := h.ok o st' hr
    exact ⟨FrameL.ofFrame a, b, fun hs => ⟨(c hs).1, (c hs).2, a.linkLevel⟩, d, e⟩⟩

/-- in look-ahead mode the two contracts coincide -/
theorem RuleSpecL.toSpec {st : IState} {r : RuleRes} (h : RuleSpecL st true r) : RuleSpec st true r :=
  ⟨h.noFuel, fun o st' hr => by
    obtain ⟨a, b, c, d, e⟩ := h.ok o st' hr
    exact ⟨a.toFrame (c rfl).2.2, b, fun _ => ⟨(c rfl).1, (c rfl).2.1⟩, d, e⟩⟩

/-- `tok` with `link_level` put back to its value at entry -/
def resetLL (tok : IState → Except Panic IState) : IState → Except Panic IState :=
  fun s =>
    match tok s with
    | .error e => .error e
    | .ok s' => .ok { s' with linkLevel := s.linkLevel }

theorem resetLL_tokHyp {tok : IState → Except Panic IState} {lvl L : Nat} (h : TokHypL tok lvl L) :
    TokHyp (resetLL tok) lvl L := by
  intro s hm hl hw
  have hs := h s hm hl hw
  unfold resetLL
  split
  · next e he =>
    refine ⟨?_, by intro st' h; simp at h⟩
    intro hh; simp only [Except.error.injEq] at hh; subst hh; exact hs.noFuel he
  · next s' he =>
    refine ⟨by simp, ?_⟩
    intro st' hh
    simp only [Except.ok.injEq] at hh; subst hh
    obtain ⟨a, b⟩ := hs.ok s' he
    exact ⟨⟨a.src, a.srcmap, a.posMax, a.level, rfl⟩, b⟩

/-- two results that fail together and agree up to the `linkLevel` field -/
def EqLL (r r' : RuleRes) : Prop :=
  (∀ e, r = .error e → r' = .error e) ∧
  (∀ o s, r = .ok (o, s) → ∃ l, r' = .ok (o, { s with linkLevel := l }))

theorem EqLL.rfl' (r : RuleRes) : EqLL r r :=
  ⟨fun _ h => h, fun o s h => ⟨s.linkLevel, by rw [h]⟩⟩

/-- **the link rule does not read `link_level`**: over a tokenizer that puts `link_level` back it fails
    with the same panic and returns the same result up to the `linkLevel` field -/
theorem linkRule_reset (cfg : Cfg) (skip tok : IState → Except Panic IState) (fuel : Nat)
    (mk : List Nat → Option (List Char) → Val) (en : Bool) (offset : Nat) (st : IState) (silent : Bool) :
    EqLL (linkRule cfg skip tok fuel mk en offset st silent)
      (linkRule cfg skip (resetLL tok) fuel mk en offset st silent) := by
  unfold linkRule
  simp only
  split
  · exact EqLL.rfl' _
  · exact EqLL.rfl' _
  · next res st1 he =>
    split
    · exact EqLL.rfl' _
    · unfold resetLL
      simp only
      split
      · next e he2 => simp only [he2]; exact EqLL.rfl' _
      · next st3 he3 =>
        simp only [he3]
        split
        · exact EqLL.rfl' _
        · have hg : ∀ a b l, IState.getMap { st3 with linkLevel := l } a b = IState.getMap st3 a b := by
            intro a b l; rfl
          simp only [hg]
          split
          · exact EqLL.rfl' _
          · split
            · exact EqLL.rfl' _
            · refine ⟨fun e h => by simp at h, ?_⟩
              intro o s h
              simp only [Except.ok.injEq, Prod.mk.injEq] at h
              obtain ⟨rfl, rfl⟩ := h
              exact ⟨_, rfl⟩

theorem runRule_reset (cfg : Cfg) (skip tok : IState → Except Panic IState) (fuel : Nat) (id : RuleId)
    (st : IState) (silent : Bool) :
    EqLL (runRule cfg skip tok fuel id st silent) (runRule cfg skip (resetLL tok) fuel id st silent) := by
  unfold runRule
  cases id with
  | link =>
    simp only
    unfold ruleLink
    split
    · exact EqLL.rfl' _
    · exact EqLL.rfl' _
    · split
      · exact EqLL.rfl' _
      · exact linkRule_reset ..
  | image =>
    simp only
    unfold ruleImage
    split
    · exact EqLL.rfl' _
    · exact linkRule_reset ..
    · exact EqLL.rfl' _
  | _ => exact EqLL.rfl' _

/-- transfer of a rule contract along `EqLL` -/
theorem RuleSpecL.ofEqLL {st : IState} {r r' : RuleRes} (he : EqLL r r') (h : RuleSpec st false r') :
    RuleSpecL st false r := by
  refine ⟨fun hf => h.noFuel (he.1 _ hf), ?_⟩
  intro o s hr
  obtain ⟨l, hr'⟩ := he.2 o s hr
  obtain ⟨a, b, _, d, e⟩ := h.ok _ _ hr'
  exact ⟨⟨a.src, a.srcmap, a.posMax, a.level⟩, b, fun hs => (by cases hs), d, e⟩

/-! ## 4. one rule, the chain, one step of each loop -/

theorem htmlRule_specL {st : IState} (hm : MemoInv st) (silent : Bool) :
    RuleSpecL st silent (htmlRule st silent) := by
  refine ⟨htmlRule_nf st silent, ?_⟩
  intro o st' h
  have hpos : ∀ n, o = some n → 1 ≤ n := fun n hn => htmlRule_pos (hn ▸ h)
  rcases htmlRule_cases h with ⟨rfl, rfl⟩ | ⟨n, rfl, _, rfl⟩ | ⟨n, ll, nd, rfl, hs, _, rfl⟩
  · exact ⟨FrameL.refl _, hm, fun _ => ⟨Quiet.refl _, rfl, rfl⟩, fun _ => rfl, by intro len h; simp at h⟩
  · refine ⟨FrameL.refl _, hm, fun _ => ⟨Quiet.refl _, rfl, rfl⟩, by intro h; simp at h, ?_⟩
    intro len hl; have := hpos len hl; omega
  · refine ⟨⟨rfl, rfl, rfl, rfl⟩, hm, (by intro h'; rw [hs] at h'; cases h'), (by intro h; simp at h), ?_⟩
    intro len hl; have := hpos len hl; simp only; omega

theorem runRuleH_specL {cfg : Cfg} {skip tok : IState → Except Panic IState} {lvl pm L : Nat}
    (hskip : SkipHyp skip lvl pm L) (fuel : Nat) (id : RuleIdH) (st : IState) (silent : Bool)
    (htok : silent = false → TokHypL tok (lvl + 1) L)
    (hm : MemoInv st) (hl : st.level = lvl) (hp : st.posMax = pm)
    (hn : pm - st.pos + 1 ≤ fuel) (hL : pm - st.pos ≤ L + 1) :
    RuleSpecL st silent (runRuleH cfg skip tok fuel id st silent) := by
  cases id with
  | html => exact htmlRule_specL hm silent
  | base r =>
    simp only [runRuleH]
    cases silent with
    | true =>
      exact RuleSpecL.ofSpec (runRule_spec hskip fuel r st true (by intro h; cases h) hm hl hp hn hL)
    | false =>
      exact RuleSpecL.ofEqLL (runRule_reset cfg skip tok fuel r st false)
        (runRule_spec hskip fuel r st false (fun _ => resetLL_tokHyp (htok rfl)) hm hl hp hn hL)

/-- the chain loop (`firstRule_spec` over any id type, with `FrameL`) -/
theorem firstRuleG_specL {ι : Type} {run : ι → IState → RuleRes} {silent : Bool} {lvl pm : Nat} {p0 : Nat}
    (hrun : ∀ id s, MemoInv s → s.level = lvl → s.posMax = pm → s.pos = p0 →
      RuleSpecL s silent (run id s)) :
    ∀ (rules : List ι) (st : IState), MemoInv st → st.level = lvl → st.posMax = pm →
      st.pos = p0 → RuleSpecL st silent (firstRuleG run rules st) := by
  intro rules
  induction rules with
  | nil =>
    intro st hm _ _ _
    refine ⟨by simp [firstRuleG], ?_⟩
    intro o st' h
    simp only [firstRuleG, Except.ok.injEq, Prod.mk.injEq] at h; obtain ⟨rfl, rfl⟩ := h
    exact ⟨FrameL.refl _, hm, fun _ => ⟨Quiet.refl _, rfl, rfl⟩, fun _ => rfl, by intro len h; simp at h⟩
  | cons r rs ih =>
    intro st hm hl hp hpos
    have h1 := hrun r st hm hl hp hpos
    unfold firstRuleG
    split
    · next e he =>
      refine ⟨?_, by intro o st' h; simp at h⟩
      intro h; simp only [Except.error.injEq] at h; subst h; exact h1.noFuel he
    · next n st1 he =>
      refine ⟨by simp, ?_⟩
      intro o st' h
      simp only [Except.ok.injEq, Prod.mk.injEq] at h; obtain ⟨rfl, rfl⟩ := h
      exact h1.ok _ _ he
    · next st1 he =>
      obtain ⟨a, b, c, d, _⟩ := h1.ok _ _ he
      have h2 := ih st1 b (by rw [a.level, hl]) (by rw [a.posMax, hp]) (by rw [d rfl, hpos])
      refine ⟨h2.noFuel, ?_⟩
      intro o st' h
      obtain ⟨a', b', c', d', e'⟩ := h2.ok _ _ h
      refine ⟨a.trans a', b', fun hs => ⟨(c hs).1.trans (c' hs).1, by rw [(c' hs).2.1, (c hs).2.1],
        by rw [(c' hs).2.2, (c hs).2.2]⟩, ?_, ?_⟩
      · intro ho; rw [d' ho, d rfl]
      · intro len hl'; have := e' len hl'; rw [d rfl] at this; exact this

/-- **one iteration of the tokenizer loop** (`tokStep_spec`): it either fails with a Rust panic or
    strictly increases `pos`, never running out of fuel -/
theorem tokStepG_spec {cfg : Cfg} {chain : List RuleIdH} {skip tok : IState → Except Panic IState} {L : Nat}
    (fuel : Nat) (st : IState)
    (hskip : st.level < cfg.maxNesting → SkipHyp skip st.level st.posMax L)
    (htok : st.level < cfg.maxNesting → TokHypL tok (st.level + 1) L)
    (hm : MemoInv st) (hn : st.posMax - st.pos + 1 ≤ fuel) (hL : st.posMax - st.pos ≤ L + 1) :
    tokStepG cfg.maxNesting chain (runRuleH cfg skip tok fuel) st ≠ .error .fuel ∧
    ∀ st', tokStepG cfg.maxNesting chain (runRuleH cfg skip tok fuel) st = .ok st' →
      FrameL st st' ∧ MemoInv st' ∧ st.pos < st'.pos := by
  have hok : RuleSpecL st false
      (if st.level < cfg.maxNesting then
        firstRuleG (fun id s => runRuleH cfg skip tok fuel id s false) chain st
       else .ok (none, st)) := by
    split
    · next hlt =>
      apply firstRuleG_specL (lvl := st.level) (pm := st.posMax) (p0 := st.pos) _ chain st hm rfl rfl rfl
      intro id s hms hls hps hpos
      exact runRuleH_specL (hskip hlt) fuel id s false (fun _ => htok hlt) hms hls hps
        (by rw [hpos]; exact hn) (by rw [hpos]; exact hL)
    · refine ⟨by simp, ?_⟩
      intro o st' h
      simp only [Except.ok.injEq, Prod.mk.injEq] at h; obtain ⟨rfl, rfl⟩ := h
      exact ⟨FrameL.refl _, hm, by intro h; simp at h, fun _ => rfl, by intro len h; simp at h⟩
  unfold tokStepG
  simp only
  split
  · next e he =>
    refine ⟨?_, by intro st' h; simp at h⟩
    intro h; simp only [Except.error.injEq] at h; subst h; exact hok.noFuel he
  · next len st1 he =>
    obtain ⟨a, b, _, _, e⟩ := hok.ok _ _ he
    refine ⟨by simp, ?_⟩
    intro st' h
    simp only [Except.ok.injEq] at h; subst h
    exact ⟨⟨a.src, a.srcmap, a.posMax, a.level⟩, b, e len rfl⟩
  · next st1 he =>
    obtain ⟨a, b, _, d, _⟩ := hok.ok _ _ he
    unfold firstChar
    split
    · next e2 he2 =>
      refine ⟨?_, by intro st' h; simp at h⟩
      intro h; simp only [Except.error.injEq] at h; subst h
      revert he2
      split <;> intro he2
      · next he3 => simp only [Except.error.injEq] at he2; subst he2; exact liftR_ne_fuel _ he3
      · simp at he2
      · simp at he2
    · next ch hch =>
      split
      · next e3 he3 =>
        refine ⟨?_, by intro st' h; simp at h⟩
        intro h; simp only [Except.error.injEq] at h; subst h; exact liftR_ne_fuel _ he3
      · next st2 he2 =>
        refine ⟨by simp, ?_⟩
        intro st' h
        simp only [Except.ok.injEq] at h; subst h
        obtain ⟨cs, _, rfl⟩ := pushText_eq (liftR_ok.mp he2)
        have hc := Char.utf8Size_pos ch
        refine ⟨⟨a.src, a.srcmap, a.posMax, a.level⟩, b, ?_⟩
        simp only; rw [d rfl]; omega

/-- one run of the chain in look-ahead mode inside `skip_token` (`skipStep_spec`) -/
theorem skipStepG_spec {cfg : Cfg} {chain : List RuleIdH} {skip tok : IState → Except Panic IState} {L : Nat}
    (fuel : Nat) (st : IState)
    (hskip : SkipHyp skip (st.level + 1) st.posMax L)
    (hm : MemoInv st) (hn : st.posMax - st.pos + 1 ≤ fuel) (hL : st.posMax - st.pos ≤ L + 1) :
    SkipSpec st (skipStepG chain (runRuleH cfg skip tok fuel) st) := by
  have hok : RuleSpec st true
      (firstRuleG (fun id s => silentBumped (runRuleH cfg skip tok fuel id) s) chain st) := by
    apply RuleSpecL.toSpec
    apply firstRuleG_specL (lvl := st.level) (pm := st.posMax) (p0 := st.pos) _ chain st hm rfl rfl rfl
    intro id s hms hls hps hpos
    apply RuleSpecL.ofSpec
    apply silentBumped_spec
    apply RuleSpecL.toSpec
    exact runRuleH_specL (lvl := st.level + 1) (pm := st.posMax) hskip fuel id _ true
      (by intro h; simp at h) hms (by simp only; rw [hls]) hps (by simp only; rw [hpos]; exact hn)
      (by simp only; rw [hpos]; exact hL)
  unfold skipStepG
  simp only
  split
  · next e he =>
    refine ⟨?_, by intro st' h; simp at h⟩
    intro h; simp only [Except.error.injEq] at h; subst h; exact hok.noFuel he
  · next len st1 he =>
    obtain ⟨a, b, c, _, e⟩ := hok.ok _ _ he
    refine ⟨by simp, ?_⟩
    intro st' h
    simp only [Except.ok.injEq] at h; subst h
    have hlt := e len rfl
    have hq := (c rfl).1
    exact ⟨⟨a.src, a.srcmap, a.posMax, a.level, a.linkLevel⟩, ⟨hq.children, hq.bottoms⟩,
      MemoInv.insert b hlt, hlt⟩
  · next st1 he =>
    obtain ⟨a, b, c, d, _⟩ := hok.ok _ _ he
    have hq := (c rfl).1
    unfold firstChar
    split
    · next e2 he2 =>
      refine ⟨?_, by intro st' h; simp at h⟩
      intro h; simp only [Except.error.injEq] at h; subst h
      revert he2
      split <;> intro he2
      · next he3 => simp only [Except.error.injEq] at he2; subst he2; exact liftR_ne_fuel _ he3
      · simp at he2
      · simp at he2
    · next ch hch =>
      refine ⟨by simp, ?_⟩
      intro st' h
      simp only [Except.ok.injEq] at h; subst h
      have hc := Char.utf8Size_pos ch
      have hlt : st.pos < st1.pos + ch.utf8Size := by rw [d rfl]; omega
      exact ⟨⟨a.src, a.srcmap, a.posMax, a.level, a.linkLevel⟩, ⟨hq.children, hq.bottoms⟩,
        MemoInv.insert b hlt, hlt⟩

/-! ## 5. the induction on fuel (`Inline.contracts`) -/

theorem contractsH (cfg : Cfg) (chain : List RuleIdH) : ∀ fuel : Nat,
    (∀ st : IState, MemoInv st → st.pos < st.posMax →
      (st.posMax - st.pos) + (cfg.maxNesting - st.level) + 2 ≤ fuel →
      SkipSpec st (skipTokenH cfg chain fuel st)) ∧
    (∀ st : IState, MemoInv st → need (st.posMax - st.pos) (cfg.maxNesting - st.level) ≤ fuel →
      TokSpecL st (tokLoopH cfg chain fuel st.posMax st)) := by
  intro fuel
  induction fuel with
  | zero =>
    refine ⟨fun st _ _ h => by omega, fun st _ h => ?_⟩
    have := need_ge (st.posMax - st.pos) (cfg.maxNesting - st.level); omega
  | succ f ih =>
    obtain ⟨ihS, ihT⟩ := ih
    have hSkipHyp : ∀ (lvl pm L : Nat), L + (cfg.maxNesting - lvl) + 2 ≤ f →
        SkipHyp (fun s => skipTokenH cfg chain f s) lvl pm L := by
      intro lvl pm L hf s hm hl hp hlt hw
      exact ihS s hm (by rw [hp]; exact hlt) (by rw [hp, hl]; omega)
    have hTokHyp : ∀ (lvl L : Nat), need L (cfg.maxNesting - lvl) ≤ f →
        TokHypL (fun s => tokLoopH cfg chain f s.posMax s) lvl L := by
      intro lvl L hf s hm hl hw
      exact ihT s hm (by rw [hl]; exact Nat.le_trans (need_mono hw _) hf)
    constructor
    · intro st hm hlt hfuel
      unfold skipTokenH
      split
      · next x hx =>
        refine ⟨by simp, ?_⟩
        intro st' h
        simp only [Except.ok.injEq] at h; subst h
        exact ⟨⟨rfl, rfl, rfl, rfl, rfl⟩, ⟨rfl, rfl⟩, hm, hm _ _ (lookup_mem hx)⟩
      · split
        · next hlev =>
          exact skipStepG_spec (L := st.posMax - st.pos) f st
            (hSkipHyp (st.level + 1) st.posMax (st.posMax - st.pos) (by omega)) hm (by omega) (by omega)
        · refine ⟨by simp, ?_⟩
          intro st' h
          simp only [Except.ok.injEq] at h; subst h
          exact ⟨⟨rfl, rfl, rfl, rfl, rfl⟩, ⟨rfl, rfl⟩, MemoInv.insert hm hlt, hlt⟩
    · intro st hm hfuel
      unfold tokLoopH
      split
      · next hlt =>
        simp only
        have hge := need_ge (st.posMax - st.pos) (cfg.maxNesting - st.level)
        have hstep := tokStepG_spec (cfg := cfg) (chain := chain) (skip := fun s => skipTokenH cfg chain f s)
          (tok := fun s => tokLoopH cfg chain f s.posMax s) (L := st.posMax - st.pos) f st
          (fun hlev => hSkipHyp st.level st.posMax (st.posMax - st.pos) (by
            have := need_ge' (st.posMax - st.pos) (d := cfg.maxNesting - st.level) (by omega)
            omega))
          (fun hlev => hTokHyp (st.level + 1) (st.posMax - st.pos) (by
            have : cfg.maxNesting - st.level = (cfg.maxNesting - (st.level + 1)) + 1 := by omega
            rw [this, need] at hfuel
            omega))
          hm (by omega) (by omega)
        split
        · next e he =>
          refine ⟨?_, by intro st' h; simp at h⟩
          intro h; simp only [Except.error.injEq] at h; subst h; exact hstep.1 he
        · next st1 he =>
          obtain ⟨a, b, c⟩ := hstep.2 st1 he
          have hrec := ihT st1 b (by
            rw [a.posMax, a.level]
            have := need_step (L' := st.posMax - st1.pos) (L := st.posMax - st.pos) (by omega)
              (cfg.maxNesting - st.level)
            omega)
          rw [a.posMax] at hrec
          refine ⟨hrec.noFuel, ?_⟩
          intro st' h
          obtain ⟨a', b'⟩ := hrec.ok st' h
          exact ⟨a.trans a', b'⟩
      · refine ⟨by simp, ?_⟩
        intro st' h
        simp only [Except.ok.injEq] at h; subst h
        exact ⟨FrameL.refl _, hm⟩

end MdIt.InlineH
