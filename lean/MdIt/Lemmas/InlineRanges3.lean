/-
  Helper development for `Props/Inline.lean`: source ranges, part 3 — the range lemma of every rule
  without look-ahead recursion other than emphasis, in real mode:
  `RInv lo st → rule st false = ok (o, st') → RI src srcmap lo (pos + len) st'.children`.
-/
import MdIt.Lemmas.InlineRanges2

namespace MdIt.Inline
open MdIt.InlineOps (Srcmap getSourcePosFor getMap byteLen slice)
open MdIt.C05 (WFMap MonoMap byteLen_append slice_ok_iff)

/-- what a rule leaves behind, seen from the state it started in: the children it produced satisfy
    the frame invariant at the position the tokenizer will continue from -/
def StepRI (lo : Nat) (st : IState) (o : Option Nat) (st' : IState) : Prop :=
  RI st.src st.srcmap lo (st'.pos + o.getD 0) st'.children

theorem stepRI_same {lo : Nat} {st : IState} (h : RInv lo st) : StepRI lo st none st := by
  unfold StepRI; simp only [Option.getD_none, Nat.add_zero]; exact h

theorem tr_mono {src : List Char} {m : Srcmap} (hm : MapOK src m) {p p' x y : Nat} (hle : p ≤ p')
    (hx : getSourcePosFor m p = .ok x) (hy : getSourcePosFor m p' = .ok y) : x ≤ y :=
  C05.translate_mono m hm.wf hm.mono p p' hle x y hx hy

/-! ## text -/

theorem ruleText_ranges {lo : Nat} {st st' : IState} {o : Option Nat}
    (hm : MapOK st.src st.srcmap) (hi : RInv lo st) (h : ruleText st false = .ok (o, st')) :
    StepRI lo st o st' := by
  unfold ruleText at h
  split at h
  · simp at h
  · simp only at h
    split at h
    · simp only [Except.ok.injEq, Prod.mk.injEq] at h; obtain ⟨rfl, rfl⟩ := h; exact stepRI_same hi
    · simp only [Bool.false_eq_true, if_false] at h
      split at h
      · simp at h
      · next st2 hp =>
        simp only [Except.ok.injEq, Prod.mk.injEq] at h; obtain ⟨rfl, rfl⟩ := h
        obtain ⟨cs, hcs, rfl⟩ := pushText_eq hp
        unfold StepRI
        simp only [Option.getD_some]
        exact RI.pushText hi hm (by omega) hcs

/-- the fall-back of the tokenizer loop: one character goes to the pending text -/
theorem fallback_ranges {lo : Nat} {st st' : IState} {n : Nat}
    (hm : MapOK st.src st.srcmap) (hi : RInv lo st) (h : st.pushText st.pos (st.pos + n) = .ok st') :
    RI st.src st.srcmap lo (st'.pos + n) st'.children := by
  obtain ⟨cs, hcs, rfl⟩ := pushText_eq h
  exact RI.pushText hi hm (Nat.le_add_right _ _) hcs

/-! ## escape, entity -/

theorem leaf_isText {v : Val} {r : Option (Nat × Nat)} (h : ∀ c, v ≠ .text c) :
    (Node.leaf v r).isText = false := by
  unfold Node.leaf Node.isText
  cases v <;> simp_all

theorem ruleEscape_ranges {lo : Nat} {st st' : IState} {o : Option Nat}
    (hm : MapOK st.src st.srcmap) (hi : RInv lo st) (h : ruleEscape st false = .ok (o, st')) :
    StepRI lo st o st' := by
  obtain ⟨hi0, hhi0, _⟩ := hi.ord
  unfold ruleEscape at h
  split at h
  · simp at h
  · split at h
    · simp at h
    · simp only [Except.ok.injEq, Prod.mk.injEq] at h; obtain ⟨rfl, rfl⟩ := h; exact stepRI_same hi
    · next len hc =>
      obtain ⟨w', _, hlen⟩ := escapeCore_hardbreak hc
      simp only [Bool.false_eq_true, if_false] at h
      split at h
      · simp at h
      · next r hr =>
        simp only [Except.ok.injEq, Prod.mk.injEq] at h; obtain ⟨rfl, rfl⟩ := h
        obtain ⟨rx, ry⟩ := r
        obtain ⟨e1, e2, _⟩ := getMap_eq hr
        obtain ⟨y, hy⟩ := C05.translate_total st.srcmap hm.wf (st.pos + len)
        unfold StepRI
        simp only [Option.getD_some, IState.push]
        rw [e1] at hhi0; simp only [Except.ok.injEq] at hhi0; subst hhi0
        exact RI.push hi e1 hy (n := Node.leaf .hardbreak (some (rx, ry))) rfl (Nat.le_refl _)
          (tr_mono hm (by omega) e1 e2) (tr_mono hm (by omega) e2 hy)
          (wellRanged_leaf (tr_mono hm (by omega) e1 e2)) rfl rfl
    · next sp hc =>
      simp only [Bool.false_eq_true, if_false] at h
      split at h
      · simp at h
      · next r hr =>
        simp only [Except.ok.injEq, Prod.mk.injEq] at h; obtain ⟨rfl, rfl⟩ := h
        obtain ⟨rx, ry⟩ := r
        obtain ⟨e1, e2, _⟩ := getMap_eq hr
        unfold StepRI
        simp only [Option.getD_some, IState.push]
        exact RI.push hi e1 e2 (n := Node.leaf _ (some (rx, ry))) rfl (Nat.le_refl _)
          (tr_mono hm (by omega) e1 e2) (Nat.le_refl _)
          (wellRanged_leaf (tr_mono hm (by omega) e1 e2)) rfl rfl

theorem ruleEntity_ranges {cfg : Cfg} {lo : Nat} {st st' : IState} {o : Option Nat}
    (hm : MapOK st.src st.srcmap) (hi : RInv lo st) (h : ruleEntity cfg st false = .ok (o, st')) :
    StepRI lo st o st' := by
  unfold ruleEntity at h
  split at h
  · simp at h
  · split at h
    · simp at h
    · split at h
      · simp only [Except.ok.injEq, Prod.mk.injEq] at h; obtain ⟨rfl, rfl⟩ := h; exact stepRI_same hi
      · split at h
        · simp at h
        · split at h
          · simp at h
          · simp only [Except.ok.injEq, Prod.mk.injEq] at h; obtain ⟨rfl, rfl⟩ := h
            exact stepRI_same hi
          · simp only [Bool.false_eq_true, if_false] at h
            split at h
            · simp at h
            · next r hr =>
              simp only [Except.ok.injEq, Prod.mk.injEq] at h; obtain ⟨rfl, rfl⟩ := h
              obtain ⟨rx, ry⟩ := r
              obtain ⟨e1, e2, _⟩ := getMap_eq hr
              unfold StepRI
              simp only [Option.getD_some, IState.push]
              exact RI.push hi e1 e2 (n := Node.leaf _ (some (rx, ry))) rfl (Nat.le_refl _)
                (tr_mono hm (by omega) e1 e2) (Nat.le_refl _)
                (wellRanged_leaf (tr_mono hm (by omega) e1 e2)) rfl rfl

/-! ## code spans, autolinks: a node with one text child -/

/-- a node whose only child is a text leaf inside its range -/
theorem wellRanged_oneText {v : Val} {a b c d : Nat} {ct : List Char} (h1 : a ≤ c) (h2 : c ≤ d)
    (h3 : d ≤ b) :
    WellRanged { val := v, range := some (a, b), children := [Node.newText ct (some (c, d))] } := by
  rw [WellRanged_eq]
  refine ⟨⟨a, b, rfl, by omega, ?_⟩, WellRangedList.single ?_⟩
  · exact orderedN_single (n := Node.newText ct (some (c, d))) rfl h1 h2 h3
  · exact wellRanged_leaf (v := .text ct) h2

theorem ruleBackticks_ranges {lo : Nat} {st st' : IState} {o : Option Nat}
    (hm : MapOK st.src st.srcmap) (hi : RInv lo st) (h : ruleBackticks st false = .ok (o, st')) :
    StepRI lo st o st' := by
  unfold ruleBackticks at h
  split at h
  · simp at h
  · simp only [Except.ok.injEq, Prod.mk.injEq] at h; obtain ⟨rfl, rfl⟩ := h
    unfold StepRI; simp only [Option.getD_none, Nat.add_zero]; exact hi
  · next oc c hrun =>
    split at h
    · next hnone =>
      simp only [Except.ok.injEq, Prod.mk.injEq] at h; obtain ⟨rfl, rfl⟩ := h
      -- real mode always builds the node
      exfalso
      have hsr := CodePair.codepair_silent_real CodePair.Variant.current '`' backtick_size st.src
        st.pos st.posMax false st.backticks
      rw [hrun] at hsr
      -- the node is absent only in look-ahead; derive a contradiction from the scan
      have : ∀ (v : CodePair.Variant) (m : Char) (src : List Char) (pos posMax n p matchEnd : Nat)
          (c : CodePair.Cache) (o : CodePair.Outcome) (c' : CodePair.Cache),
          CodePair.scan v m src pos posMax n p false matchEnd c = .ok (some o, c') → o.node ≠ none := by
        intro v m src pos posMax n p matchEnd c o c' hs
        fun_induction CodePair.scan v m src pos posMax n p false matchEnd c <;> simp_all
        all_goals (try (obtain ⟨rfl, _⟩ := hs; simp))
      have hrn : oc.node ≠ none := by
        unfold CodePair.run at hrun
        repeat' split at hrun
        all_goals first
          | exact this _ _ _ _ _ _ _ _ _ _ _ hrun
          | simp at hrun
      exact hrn hnone
    · next nd hnd =>
      split at h
      · simp at h
      · next r hr =>
        split at h
        · simp at h
        · next ri hri =>
          simp only [Except.ok.injEq, Prod.mk.injEq] at h; obtain ⟨rfl, rfl⟩ := h
          obtain ⟨rx, ry⟩ := r
          obtain ⟨ix, iy⟩ := ri
          obtain ⟨e1, e2, _⟩ := getMap_eq hr
          obtain ⟨f1, f2, _⟩ := getMap_eq hri
          obtain ⟨s1, s2, s3, s4, s5⟩ := run_node_shape _ _ _ _ _ _ _ _ _ _ nd hrun hnd
          rw [s1] at e1
          rw [s2] at e2
          unfold StepRI
          simp only [Option.getD_some]
          have a1 := tr_mono hm (by omega) e1 f1
          have a2 := tr_mono hm s4 f1 f2
          have a3 := tr_mono hm (by rw [s2] at s5; exact s5) f2 e2
          exact RI.push hi e1 e2 (n := Node.mk (.codeInline '`' nd.markerLen) (some (rx, ry))
              [Node.newText nd.content (some (ix, iy))]) rfl (Nat.le_refl _)
            (by omega) (Nat.le_refl _) (wellRanged_oneText a1 a2 a3) rfl rfl

theorem ruleAutolink_ranges {lo : Nat} {st st' : IState} {o : Option Nat}
    (hm : MapOK st.src st.srcmap) (hi : RInv lo st) (h : ruleAutolink st false = .ok (o, st')) :
    StepRI lo st o st' := by
  unfold ruleAutolink at h
  split at h
  · simp at h
  · simp at h
  · split at h
    · simp only [Except.ok.injEq, Prod.mk.injEq] at h; obtain ⟨rfl, rfl⟩ := h; exact stepRI_same hi
    · split at h
      · simp only [Except.ok.injEq, Prod.mk.injEq] at h; obtain ⟨rfl, rfl⟩ := h; exact stepRI_same hi
      · next p hscan =>
        obtain ⟨u, v, _, hp⟩ := autolinkScan_spec hscan
        split at h
        · simp at h
        · simp only at h
          split at h
          · simp only [Except.ok.injEq, Prod.mk.injEq] at h; obtain ⟨rfl, rfl⟩ := h
            exact stepRI_same hi
          · split at h
            · simp only [Except.ok.injEq, Prod.mk.injEq] at h; obtain ⟨rfl, rfl⟩ := h
              exact stepRI_same hi
            · simp only [Bool.false_eq_true, if_false] at h
              split at h
              · simp at h
              · next r hr =>
                split at h
                · simp at h
                · next ri hri =>
                  simp only [Except.ok.injEq, Prod.mk.injEq] at h; obtain ⟨rfl, rfl⟩ := h
                  obtain ⟨rx, ry⟩ := r
                  obtain ⟨ix, iy⟩ := ri
                  obtain ⟨e1, e2, _⟩ := getMap_eq hr
                  obtain ⟨f1, f2, _⟩ := getMap_eq hri
                  unfold StepRI
                  simp only [Option.getD_some, IState.push]
                  have e : st.pos + (p - st.pos) = p := by omega
                  rw [e]
                  have a1 := tr_mono hm (by omega) e1 f1
                  have a2 := tr_mono hm (by omega) f1 f2
                  have a3 := tr_mono hm (by omega) f2 e2
                  exact RI.push hi e1 e2 (n := Node.mk (.autolink _) (some (rx, ry))
                      [Node.newText _ (some (ix, iy))]) rfl (Nat.le_refl _)
                    (by omega) (Nat.le_refl _) (wellRanged_oneText a1 a2 a3) rfl rfl

end MdIt.Inline
