/-
  Block ranges start at a byte of their own, part 3b: the block quote in lock step on `LX.Y`-related
  states (copy of `MdIt/Lemmas/C10SourceposSimQuote.lean`).  New: the rule takes `Live s₁`,
  `TokSpec tok₁` and `TestPure test₁`; when `get_map(start_line, …)` is called the table has been
  restored to the one the rule started with (`bqScan_spec`, the frame of the nested tokenizer), so the
  start line is the non-empty line the tokenizer loop stopped on; the kind of the new node is
  `.blockquote` (frame), which the strict value relation `KRelS` needs.
-/
import MdIt.Lemmas.C10SpFullBlockLeaf

namespace MdIt.Block.LX.Y
open MdIt.Block.LE
open MdIt.Lines (LineOffset)
variable {τ : Nat × Nat → Nat × Nat → Prop} {ρ : Nat → Nat → Prop} {G : Geo}

/-! (the small helpers of the `LE` file are reused from there) -/

/-! ## `bqRewrite` -/

/-! ## the saved entries -/

/-! ## `restoreOffs` -/

/-- writing the saved entries back keeps the table relation -/
theorem restoreOffs_sim : ∀ (old₁ old₂ : List LineOffset) (i : Nat) (s₁ s₂ : BState), SRel τ ρ G s₁ s₂ →
    OldRel ρ G i old₁ old₂ →
    FRel (fun a b => SRel τ ρ G { s₁ with offs := a } { s₂ with offs := b })
      (restoreOffs s₁.offs i old₁) (restoreOffs s₂.offs i old₂)
  | [], [], _, _, _, S, _ => by
    simp only [restoreOffs]
    exact frel_ok S
  | [], _ :: _, _, _, _, _, h => by simp only [OldRel] at h
  | _ :: _, [], _, _, _, _, h => by simp only [OldRel] at h
  | a :: r₁, b :: r₂, i, s₁, s₂, S, h => by
    simp only [OldRel] at h
    obtain ⟨he, hg1, hg2, hr⟩ := h
    simp only [restoreOffs]
    have hs := S.setOff i he
      (fun o ho => by have := S.geoAt₁ ho; rw [hg1] at this; exact Option.some.inj this)
      (fun o ho => by have := S.geoAt₂ ho; rw [hg2] at this; exact Option.some.inj this)
    unfold BState.setOff at hs
    by_cases hi : i < s₁.offs.length
    · have hi2 : i < s₂.offs.length := by rw [S.len]; exact hi
      rw [if_pos hi, if_pos hi2] at hs ⊢
      obtain ⟨t, ht, S'⟩ := frel_ok_left hs
      cases ht
      exact restoreOffs_sim r₁ r₂ (i + 1) _ _ S' hr
    · have hi2 : ¬ i < s₂.offs.length := by rw [S.len]; exact hi
      rw [if_neg hi, if_neg hi2]
      exact frel_err _

/-! ## `bqScan` -/

theorem bqScan_sim {test₁ test₂ : Test} (TS : TestSim τ ρ G test₁ test₂) (start : Nat) :
    ∀ (f₁ f₂ : Nat), f₁ ≤ f₂ → ∀ (s₁ s₂ : BState) (nextLine : Nat) (old₁ old₂ : List LineOffset) (lastEmpty : Bool),
      SRel τ ρ G s₁ s₂ → OldRel ρ G start old₁ old₂ → nextLine = start + old₁.length →
      FRel (fun r₁ r₂ => r₁.1 = r₂.1 ∧ OldRel ρ G start r₁.2.1 r₂.2.1 ∧ SRel τ ρ G r₁.2.2 r₂.2.2)
        (bqScan test₁ f₁ s₁ nextLine old₁ lastEmpty) (bqScan test₂ f₂ s₂ nextLine old₂ lastEmpty) := by
  intro f₁
  induction f₁ with
  | zero => intro f₂ _ s₁ s₂ nextLine old₁ old₂ lastEmpty _ _ _; exact frel_fuel _
  | succ f₁ ih =>
    intro f₂ hf s₁ s₂ nextLine old₁ old₂ lastEmpty S O hnl
    obtain ⟨f₂, rfl⟩ : ∃ k, f₂ = k + 1 := ⟨f₂ - 1, by omega⟩
    simp only [bqScan]
    rw [S.lineMax, S.lineIndent, S.getLine]
    split
    · exact frel_ok ⟨rfl, O, S⟩
    refine frel_bind_same _ ?_
    intro ind _
    refine frel_bind_same _ ?_
    intro line _
    cases line with
    | nil => exact frel_ok ⟨rfl, O, S⟩
    | cons c rest =>
      simp only
      split
      · -- a `>` line
        refine frel_bind_eq (S.off nextLine) ?_
        intro o₁ o₂ ho1 ho2 he
        have hT1 := S.geoAt₁ (off_ok ho1)
        have hT2 := S.geoAt₂ (off_ok ho2)
        rw [S.src₁, S.src₂]
        refine frel_bind (bqRewrite_sim he rest) ?_
        rintro ⟨o₁', le₁⟩ ⟨o₂', le₂⟩ ⟨hE, hle, hg1, hg2⟩
        simp only at hE hle hg1 hg2 ⊢
        subst hle
        refine frel_bind (S.setOff nextLine hE ?_ ?_) ?_
        · intro o ho; rw [off_ok ho1] at ho; cases ho; exact hg1
        · intro o ho; rw [off_ok ho2] at ho; cases ho; exact hg2
        intro t₁ t₂ S'
        refine ih f₂ (by omega) t₁ t₂ (nextLine + 1) _ _ le₁ S' (O.push he ?_ ?_) (by simp; omega)
        · rw [← hnl]; exact hT1
        · rw [← hnl]; exact hT2
      · split
        · exact frel_ok ⟨rfl, O, S⟩
        refine frel_bind (TS _ _ (by srely_fields S; exact S.children)) ?_
        rintro ⟨b₁, t₁⟩ ⟨b₂, t₂⟩ ⟨hb, S'⟩
        simp only at hb S' ⊢
        subst hb
        rw [S'.blkIndent]
        split
        · split
          · refine frel_bind_eq (S'.off nextLine) ?_
            intro o₁ o₂ ho1 ho2 he
            have hT1 := S'.geoAt₁ (off_ok ho1)
            have hT2 := S'.geoAt₂ (off_ok ho2)
            rw [he.indent]
            refine frel_bind (S'.setOff nextLine (he.setIndent _) ?_ ?_) ?_
            · intro o ho; rw [off_ok ho1] at ho; cases ho; rfl
            · intro o ho; rw [off_ok ho2] at ho; cases ho; rfl
            intro u₁ u₂ S''
            refine frel_ok ⟨rfl, O.push he ?_ ?_, S''⟩
            · rw [← hnl]; exact hT1
            · rw [← hnl]; exact hT2
          · exact frel_ok ⟨rfl, O, S'⟩
        · refine frel_bind_eq (S'.off nextLine) ?_
          intro o₁ o₂ ho1 ho2 he
          have hT1 := S'.geoAt₁ (off_ok ho1)
          have hT2 := S'.geoAt₂ (off_ok ho2)
          refine frel_bind (S'.setOff nextLine (he.setIndent _) ?_ ?_) ?_
          · intro o ho; rw [off_ok ho1] at ho; cases ho; rfl
          · intro o ho; rw [off_ok ho2] at ho; cases ho; rfl
          intro u₁ u₂ S''
          refine ih f₂ (by omega) u₁ u₂ (nextLine + 1) _ _ lastEmpty S'' (O.push he ?_ ?_) (by simp; omega)
          · rw [← hnl]; exact hT1
          · rw [← hnl]; exact hT2

/-! ## the rule -/

theorem blockquote_sim (C : Ctx τ ρ G) {tok₁ tok₂ : Tok} (TK : TokSim τ ρ G tok₁ tok₂) (hk : TokSpec tok₁)
    {test₁ test₂ : Test} (TS : TestSim τ ρ G test₁ test₂) (hp : TestPure test₁) {f₁ f₂ : Nat} (hf : f₁ ≤ f₂)
    {s₁ s₂ : BState} (S : SRel τ ρ G s₁ s₂) (silent : Bool) (hne : silent = false → Live s₁) :
    FRel (ResRel τ ρ G) (blockquoteRule tok₁ test₁ f₁ s₁ silent) (blockquoteRule tok₂ test₂ f₂ s₂ silent) := by
  unfold blockquoteRule
  rw [S.line, S.lineIndent, S.getLine]
  refine frel_bind_same _ ?_
  intro ind _
  split
  · exact frel_pure ⟨rfl, S⟩
  refine frel_bind_same _ ?_
  intro line _
  split
  · exact frel_pure ⟨rfl, S⟩
  split
  · exact frel_pure ⟨rfl, S⟩
  have hlive := hne (silent_false ‹¬ silent = true›)
  refine frel_bind' (bqScan_sim TS s₁.line f₁ f₂ hf s₁ s₂ s₁.line [] [] false S (OldRel.nil _) (by simp)) ?_
  rintro ⟨nl₁, old₁, t₁⟩ ⟨nl₂, old₂, t₂⟩ hscan _ ⟨hnl, O, S'⟩
  simp only at hnl O S' ⊢
  subst hnl
  refine frel_bind' (TK _ _ ?_) ?_
  · srely_fields S'
    exact NRelL.nil
  intro u₁ u₂ htok _ S''
  have hfr := hk.frame _ _ htok
  rw [S''.level, S''.line]
  refine frel_bind_same _ ?_
  intro lvl _
  have W : SRel τ ρ G { u₁ with level := lvl, lineMax := t₁.lineMax, blkIndent := t₁.blkIndent }
      { u₂ with level := lvl, lineMax := t₂.lineMax, blkIndent := t₂.blkIndent, line := u₁.line } := by
    srely_fields S''
    · exact S'.blkIndent
    · exact S'.lineMax
    · exact S''.children
  have R := restoreOffs_sim old₁ old₂ s₁.line _ _ W O
  refine frel_bind' R ?_
  intro a b hrest _ X
  dsimp only at X hrest
  -- the table is again the one the rule started with
  have hoffs : a = s₁.offs := by
    obtain ⟨_, _, _, _, _, add, hadd, hr⟩ := bqScan_spec hp _ _ _ _ _ _ _ _ hscan
    simp only [List.nil_append] at hadd
    subst hadd
    have e := hfr.offs
    simp only at e hr
    rw [e, hr] at hrest
    cases hrest; rfl
  subst hoffs
  refine frel_bind_same _ ?_
  intro e _
  refine frel_bind (X.getMap C _ _ hlive.2) ?_
  intro r₁ r₂ hr
  refine frel_pure ⟨rfl, ?_⟩
  have hkk : KRelS ρ u₁.nodeKind u₂.nodeKind := by
    rw [S''.nodeKind, hfr.nodeKind]; exact KRelS.of_ne (by intro c m h; cases h)
  exact SRel.upd X ⟨rfl, rfl⟩ ⟨rfl, rfl⟩ S'.blkIndent rfl S'.lineMax S''.tight S''.listIndent rfl S'.nodeKind S''.refs
    (S'.children.push (NRel.mk hkk hr S''.children))

end MdIt.Block.LX.Y
