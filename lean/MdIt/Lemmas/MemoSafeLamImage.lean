/-
  Helper development for `Props/MemoSafe.lean`, second part: L2 for `parse_link` inside a nested frame,
  for EITHER rule (`parseLinkL2_core`), and the image rule (`parseLinkL2_image`, `![`).
-/
import MdIt.Lemmas.MemoSafeLamLink

namespace MdIt.Inline
open MdIt.InlineOps (Srcmap getSourcePosFor getMap byteLen slice)

variable {cfg : Cfg} {B : List Char → CodePair.Cache → Prop} {src : List Char} {Mtop : Nat}

set_option maxHeartbeats 400000 in
/-- the core of `ParseLinkL2`, for either rule: given that the first label walk has a verdict inside
    the frame (`hV1`) and that, when the witness declined, the second label walk has one too (`hV2f`) -/
theorem parseLinkL2_core (offset : Nat) (en : Bool)
    (skip0 : IState → Except Panic IState) (f0 : Nat) (w w1 : IState)
    (r0 : Option LinkRes) (s : IState) (v : Nat)
    (hq : CalmFn skip0) (hs : SkipHypT skip0) (hg : SkipGrowHyp skip0)
    (hiw : LInv w) (hwsrc : w.src = src) (hwmax : w.posMax = Mtop) (hwpos : w.pos = s.pos)
    (hwit : parseLink cfg skip0 f0 w (w.pos + offset) en = .ok (r0, w1))
    (hmono : LookupMono w1.cache s.cache)
    (hnf : NF cfg B src Mtop s) (hlt : s.pos < s.posMax)
    (hlk : s.cache.lookup s.pos = some v) (hv : v ≤ s.posMax)
    (hb1 : Boundary src (s.pos + offset + 1)) (hle1 : s.pos + offset + 1 ≤ Mtop)
    (hV1 : ∃ N r x, pwalk src Mtop s.cache en N 1 (s.pos + offset + 1) = .done r x ∧
      Inside s.posMax r x)
    (hV2f : r0 = none → ∀ x1,
      pwalk src Mtop s.cache en f0 1 (s.pos + offset + 1) = .done (some true) x1 → x1 < s.posMax →
      ∀ t0, slice src (x1 + 1) Mtop = .ok ('[' :: t0) → x1 + 1 < s.posMax →
      tailOf cfg src (x1 + 1) s.posMax = .ok none →
      ∃ N r2 x2, pwalk src Mtop s.cache false N 1 (x1 + 1 + 1) = .done r2 x2 ∧ Inside s.posMax r2 x2)
    (hsome : ∀ res, r0 = some res → v = res.endPos) (n : Nat) :
    ∃ R : Except Panic (Option LinkRes),
      (∀ skip, FollowsHits skip →
        parseLink cfg skip n s (s.pos + offset) en =
          match R with
          | .ok r => .ok (r, s)
          | .error e => .error e) ∧
      (∀ r, R = .ok r → r = r0) := by
  obtain ⟨rc, hcut⟩ := hnf.cut
  obtain ⟨hleM, hble⟩ := cut_facts hcut
  have hctx := hnf.ctx
  have hf : ∀ k v, (k, v) ∈ s.cache → k < v := fun k v h => (hctx.memo k v h).1
  have hsrc := hnf.hsrc
  have e1 : ('[' : Char).utf8Size = 1 := by decide
  rw [hwpos] at hwit
  -- the witness, on the memo of `s`
  obtain ⟨r1, x1, hw1, hWS⟩ := witness_summary (cfg := cfg) hq hs hg f0 w (s.pos + offset) en hiw
    (by rw [hwsrc]; exact hb1) (by rw [hwmax]; exact hle1) hwit hmono
  rw [hwsrc, hwmax] at hw1 hWS
  -- the first label: inside the frame
  obtain ⟨N1, r1', x1', hV1, hin1⟩ := hV1
  obtain ⟨rfl, rfl⟩ := pwalk_det hf hV1 hw1
  have h1le : pwalk src s.posMax s.cache en f0 1 (s.pos + offset + 1) = .done r1' x1' :=
    pwalk_shrink hf hble (by omega) en _ _ _ _ _ hw1 hin1
  -- the outer walk behind `s.pos`
  obtain ⟨ch, rest', v', g1, g2, g3, g4, g5, g6⟩ := outer_step hf hnf.outer hlt
  rw [hlk] at g2
  simp only [Option.some.injEq] at g2
  subst g2
  -- the second label: inside the frame, whenever the real rule gets there
  have hV2 : r1' = some true → ∀ t, slice src (x1' + 1) s.posMax = .ok ('[' :: t) →
      tailOf cfg src (x1' + 1) s.posMax = .ok none →
      ∃ N r2 x2, pwalk src Mtop s.cache false N 1 (x1' + 1 + 1) = .done r2 x2 ∧
        Inside s.posMax r2 x2 := by
    intro hr1 t hsm htl
    have hx1 : x1' < s.posMax := by
      rcases hin1 with ⟨_, h⟩ | ⟨h, _⟩
      · exact h
      · rw [hr1] at h; cases h
    -- the `]` at x1' and the `[` behind it, in the top window
    obtain ⟨rx, hrx⟩ := pwalk_found en _ _ _ _ (hr1 ▸ hw1)
    obtain ⟨hx1M, hbx1⟩ := after_bracket hrx
    have hlt2 : x1' + 1 < s.posMax := by
      have := (slice_boundaries hsm).2.2
      simp only [byteLen, e1] at this; omega
    obtain ⟨w0, hw0⟩ := slice_ok_of hbx1 hctx.bmax (by omega : x1' + 1 ≤ Mtop)
    obtain ⟨t0, rfl⟩ := (head_rel hcut (by omega) hsm hw0).mp ⟨t, rfl⟩
    -- `x1' + 1` lies on the outer walk (then BR), or the verdict is known directly
    have hBR : Outer src Mtop s.cache s.posMax (x1' + 1) 1 →
        ∃ N r2 x2, pwalk src Mtop s.cache false N 1 (x1' + 1 + 1) = .done r2 x2 ∧
          Inside s.posMax r2 x2 :=
      fun hout => walk_below_bracket hctx hcut hout hlt2 hw0 false
    cases hr0 : r0 with
    | none =>
      exact hV2f hr0 x1' (hr1 ▸ hw1) hx1 t0 hw0 hlt2 htl
    | some res =>
      have hve := hsome res hr0
      rcases hWS with ⟨_, h0⟩ | ⟨_, il, htl0, h0⟩ | ⟨_, htl0, w0', hw0', hcase⟩
      · rw [hr0] at h0; cases h0
      · -- the witness's tail answered: so does the real one, which it did not
        exfalso
        rw [hr0] at h0
        simp only [Option.some.injEq] at h0
        have : il.endPos ≤ s.posMax := by rw [h0] at hve; simp only at hve; omega
        have := (parseInlineTail_window (decOk_unescapeAll cfg.entity) hble hctx.bmax
          (by omega) il).mp ⟨htl0, this⟩
        rw [show Link.parseInlineTail (Entity.unescapeAll cfg.entity) src (x1' + 1) s.posMax
          = tailOf cfg src (x1' + 1) s.posMax from rfl, htl] at this
        cases this
      · rw [hw0] at hw0'
        simp only [Except.ok.injEq] at hw0'
        subst hw0'
        rcases hcase with ⟨hne, _⟩ | ⟨_, r2, x2, hw2, hc2⟩
        · exact absurd rfl (hne t0)
        · rcases hc2 with ⟨hr2, l, _, hfin⟩ | ⟨_, hfin⟩
          · -- found: the entry ends right behind the second label, which lies inside the frame
            have hres : res.endPos = x2 + 1 := by
              unfold refFinish at hfin
              rw [hr0] at hfin
              revert hfin
              cases cfg.refs with
              | none => simp
              | some refs =>
                simp only
                split
                · simp
                · split
                  · simp
                  · intro h
                    simp only [Except.ok.injEq, Option.some.injEq] at h
                    rw [← h]
            exact ⟨f0, r2, x2, hw2, .inl ⟨hr2, by omega⟩⟩
          · -- the entry ends at `x1' + 1`
            have : v = x1' + 1 := by
              have hres : res.endPos = x1' + 1 := by
                unfold refFinish at hfin
                rw [hr0] at hfin
                revert hfin
                cases cfg.refs with
                | none => simp
                | some refs =>
                  simp only
                  split
                  · simp
                  · split
                    · simp
                    · intro h
                      simp only [Except.ok.injEq, Option.some.injEq] at h
                      rw [← h]
              rw [hve, hres]
            rw [this] at g5
            exact hBR g5
  -- the real rule: a function of the memo
  have hhits : ∀ skip, FollowsHits skip →
      parseLink cfg skip n s (s.pos + offset) en = parseLinkP cfg n s (s.pos + offset) en := by
    intro skip hsk
    apply parseLink_hits hsk s (s.pos + offset) en n (by rw [hsrc]; exact h1le)
    intro lq t hsl hlab htl
    rw [hsrc] at hsl hlab htl ⊢
    have hd := labelOf_some hlab
    obtain ⟨hr1, rfl⟩ := pwalk_det hf h1le hd
    obtain ⟨N, r2, x2, hw2, hin2⟩ := hV2 hr1 t hsl htl
    exact ⟨N, r2, x2, pwalk_shrink hf hble (by omega) false _ _ _ _ _ hw2 hin2⟩
  refine ⟨match parseLinkP cfg n s (s.pos + offset) en with
    | .ok (r, _) => .ok r
    | .error e => .error e, ?_, ?_⟩
  · intro skip hsk
    rw [hhits skip hsk]
    cases hP : parseLinkP cfg n s (s.pos + offset) en with
    | error e => rfl
    | ok t =>
      obtain ⟨r, s'⟩ := t
      have := parseLinkP_state hP
      subst this
      rfl
  · intro r hR
    cases hP : parseLinkP cfg n s (s.pos + offset) en with
    | error e => rw [hP] at hR; cases hR
    | ok t =>
      obtain ⟨r', s'⟩ := t
      rw [hP] at hR
      simp only [Except.ok.injEq] at hR
      subst hR
      unfold parseLinkP at hP
      rw [hsrc] at hP
      cases hlab : labelOf (pwalk src s.posMax s.cache en n 1 (s.pos + offset + 1)) with
      | error e => rw [hlab] at hP; simp at hP
      | ok lab =>
        rw [hlab] at hP
        cases lab with
        | none =>
          simp only [Except.ok.injEq, Prod.mk.injEq] at hP
          obtain ⟨rfl, _⟩ := hP
          obtain ⟨ra, xa, hda, hna⟩ := labelOf_none hlab
          obtain ⟨rfl, rfl⟩ := pwalk_det hf h1le hda
          rcases hWS with ⟨_, h0⟩ | ⟨h, _⟩ | ⟨h, _⟩
          · exact h0.symm
          · exact absurd h hna
          · exact absurd h hna
        | some lq =>
          have hd := labelOf_some hlab
          obtain ⟨hr1, rfl⟩ := pwalk_det hf h1le hd
          have hx1 : x1' < s.posMax := by
            rcases hin1 with ⟨_, h⟩ | ⟨h, _⟩
            · exact h
            · rw [hr1] at h; cases h
          simp only at hP
          cases htl : tailOf cfg src (x1' + 1) s.posMax with
          | error e => rw [htl] at hP; simp at hP
          | ok tl =>
            rw [htl] at hP
            cases tl with
            | some il =>
              simp only [Except.ok.injEq, Prod.mk.injEq] at hP
              obtain ⟨rfl, _⟩ := hP
              obtain ⟨hbig, hend⟩ := (parseInlineTail_window (decOk_unescapeAll cfg.entity) hble
                hctx.bmax (by omega) il).mpr htl
              rcases hWS with ⟨h, _⟩ | ⟨_, il0, htl0, h0⟩ | ⟨_, htl0, _⟩
              · exact absurd hr1 h
              · rw [show tailOf cfg src (x1' + 1) Mtop = Link.parseInlineTail
                  (Entity.unescapeAll cfg.entity) src (x1' + 1) Mtop from rfl, hbig] at htl0
                simp only [Except.ok.injEq, Option.some.injEq] at htl0
                subst htl0
                exact h0.symm
              · rw [show tailOf cfg src (x1' + 1) Mtop = Link.parseInlineTail
                  (Entity.unescapeAll cfg.entity) src (x1' + 1) Mtop from rfl, hbig] at htl0
                cases htl0
            | none =>
              simp only at hP
              -- the witness's tail declined as well
              rcases hWS with ⟨h, _⟩ | ⟨_, il0, htl0, h0⟩ | ⟨_, htl0, w0, hw0, hcase⟩
              · exact absurd hr1 h
              · exfalso
                have hve := hsome _ h0
                simp only at hve
                have := (parseInlineTail_window (decOk_unescapeAll cfg.entity) hble hctx.bmax
                  (by omega) il0).mp ⟨htl0, by omega⟩
                rw [show Link.parseInlineTail (Entity.unescapeAll cfg.entity) src (x1' + 1) s.posMax
                  = tailOf cfg src (x1' + 1) s.posMax from rfl, htl] at this
                cases this
              · cases hsl : slice src (x1' + 1) s.posMax with
                | error e => rw [hsl] at hP; simp [liftOps, liftR] at hP
                | ok wr =>
                  rw [hsl] at hP
                  simp only [liftOps, liftR] at hP
                  have hrel := head_rel hcut (by omega) hsl hw0
                  by_cases hbr : ∃ t, wr = '[' :: t
                  · obtain ⟨t, rfl⟩ := hbr
                    obtain ⟨t0, rfl⟩ := hrel.mp ⟨t, rfl⟩
                    rcases hcase with ⟨hne, _⟩ | ⟨_, r2, x2, hw2, hc2⟩
                    · exact absurd rfl (hne t0)
                    · obtain ⟨N, r2', x2', hV, hin2⟩ := hV2 hr1 t hsl htl
                      obtain ⟨rfl, rfl⟩ := pwalk_det hf hV hw2
                      have h2le := pwalk_shrink hf hble (by omega) false _ _ _ _ _ hw2 hin2
                      simp only [refSecondP] at hP
                      rw [hsrc] at hP
                      cases hlab2 : labelOf (pwalk src s.posMax s.cache false n 1 (x1' + 1 + 1)) with
                      | error e => rw [hlab2] at hP; simp at hP
                      | ok lab2 =>
                        rw [hlab2] at hP
                        cases lab2 with
                        | none =>
                          simp only at hP
                          obtain ⟨rb, xb, hdb, hnb⟩ := labelOf_none hlab2
                          obtain ⟨rfl, rfl⟩ := pwalk_det hf h2le hdb
                          rcases hc2 with ⟨h, _⟩ | ⟨_, hfin⟩
                          · exact absurd h hnb
                          · rw [hfin] at hP
                            simp only [Except.ok.injEq, Prod.mk.injEq] at hP
                            exact hP.1.symm
                        | some xx =>
                          have hd2 := labelOf_some hlab2
                          obtain ⟨hr2, rfl⟩ := pwalk_det hf h2le hd2
                          simp only at hP
                          rcases hc2 with ⟨_, l, hl, hfin⟩ | ⟨h, _⟩
                          · rw [hl] at hP
                            simp only [liftOps, liftR] at hP
                            rw [hfin] at hP
                            simp only [Except.ok.injEq, Prod.mk.injEq] at hP
                            exact hP.1.symm
                          · exact absurd hr2 h
                  · have hne0 : ¬ ∃ t, w0 = '[' :: t := fun h => hbr (hrel.mpr h)
                    rcases hcase with ⟨_, hfin⟩ | ⟨h, _⟩
                    · have hsec : refSecondP s n x1' wr = .ok (none, x1' + 1, s) := by
                        unfold refSecondP
                        split
                        · exact absurd ⟨_, rfl⟩ hbr
                        · rfl
                      rw [hsec] at hP
                      simp only at hP
                      rw [hfin] at hP
                      simp only [Except.ok.injEq, Prod.mk.injEq] at hP
                      exact hP.1.symm
                    · exact absurd h hne0


/-! ## the `parse_link` call behind a link token of the memo -/

/-- what the chain in look-ahead mode leaves at a `[`: it declines, or the link rule answered through a
    `parse_link` call (exposed) whose memo the returned memo extends -/
def BracketCall (cfg : Cfg) (skip : IState → Except Panic IState) (fuel : Nat) (st : IState)
    (o : Option Nat) (st' : IState) : Prop :=
  o = none ∨ ∃ len wB wB1 res, o = some len ∧ LInv wB ∧ wB.src = st.src ∧ wB.posMax = st.posMax ∧
    wB.pos = st.pos ∧ parseLink cfg skip fuel wB (wB.pos + 0) false = .ok (some res, wB1) ∧
    LookupMono wB1.cache st'.cache ∧ st.pos + len = res.endPos

theorem bumped_bracket_call {skip tok : IState → Except Panic IState} (hq : CalmFn skip)
    (hs : SkipHypT skip) (fuel : Nat) (id : RuleId) (st : IState)
    (hi : LInv st) {rest : List Char} (hw : st.window = .ok ('[' :: rest)) :
    ∀ o st', silentBumped (runRule cfg skip tok fuel id) st = .ok (o, st') →
      BracketCall cfg skip fuel st o st' := by
  intro o st' hb
  have hlt := lt_of_window_cons hi hw
  have hiB : LInv { st with level := st.level + 1 } :=
    ⟨hi.le, hi.bpos, hi.bmax, hi.wf, hi.stop, hi.memo⟩
  have hwB : ({ st with level := st.level + 1 } : IState).window = .ok ('[' :: rest) := hw
  have hT := runRule_silent_T (cfg := cfg) (tok := tok) hq hs fuel id _ hiB hlt
  unfold silentBumped at hb
  split at hb
  · simp at hb
  · next r0 s0 he =>
    split at hb
    · simp at hb
    · simp only [Except.ok.injEq, Prod.mk.injEq] at hb
      obtain ⟨rfl, rfl⟩ := hb
      obtain ⟨a, b, c, _⟩ := hT.ok _ _ he
      by_cases hid : id = .link
      · subst hid
        unfold runRule at he
        simp only at he
        unfold ruleLink at he
        rw [hwB] at he
        simp only [liftR] at he
        rw [if_neg (by simp)] at he
        obtain ⟨hb1, hle1⟩ := after_first (st := { st with level := st.level + 1 }) (by decide)
          (window_eq hwB)
        unfold linkRule at he
        simp only at he
        split at he
        · simp at he
        · simp only [Except.ok.injEq, Prod.mk.injEq] at he
          exact .inl he.1.symm
        · next res s1 hpl =>
          simp only [if_true] at he
          split at he
          · simp at he
          · next hnu =>
            simp only [Except.ok.injEq, Prod.mk.injEq] at he
            obtain ⟨rfl, rfl⟩ := he
            refine .inr ⟨_, { st with level := st.level + 1 }, s1, res, rfl, hiB,
              rfl, rfl, rfl, hpl, LookupMono.refl _, ?_⟩
            simp only at c hnu ⊢; omega
      · exact .inl (silent_declines hwB (firesAt_bracket id hid) _ _ he)

theorem chain_bracket_call {skip tok : IState → Except Panic IState} (hq : CalmFn skip)
    (hs : SkipHypT skip) (hg : SkipGrowHyp skip) (fuel : Nat) {rest : List Char} :
    ∀ (rules : List RuleId) (st : IState), LInv st → st.window = .ok ('[' :: rest) →
      ∀ o st', firstRule (fun id s => silentBumped (runRule cfg skip tok fuel id) s) rules st
          = .ok (o, st') → BracketCall cfg skip fuel st o st' := by
  intro rules
  induction rules with
  | nil =>
    intro st _ hw o st' h
    simp only [firstRule, Except.ok.injEq, Prod.mk.injEq] at h
    exact .inl h.1.symm
  | cons r rs ih =>
    intro st hi hw o st' h
    unfold firstRule at h
    split at h
    · simp at h
    · next n st1 he =>
      simp only [Except.ok.injEq, Prod.mk.injEq] at h
      obtain ⟨rfl, rfl⟩ := h
      exact bumped_bracket_call hq hs fuel r st hi hw _ _ he
    · next st1 he =>
      obtain ⟨hi1, hw1, hp1, hs1, hm1, _⟩ := bumped_at_bracket hq hs hg fuel r st hi hw _ _ he
      rcases ih st1 hi1 hw1 o st' h with c | ⟨len, wB, wB1, res, c1, c2, c3, c4, c5, c6, c7, c8⟩
      · exact .inl c
      · exact .inr ⟨len, wB, wB1, res, c1, c2, by rw [c3, hs1], by rw [c4, hm1], by rw [c5, hp1], c6,
          c7, by rw [← hp1]; exact c8⟩

/-- **the `parse_link` call behind a link token of the memo**: the witness of an entry `q ↦ v` at a `[`
    is the single character, or exposes the successful `parse_link` call of the link rule -/
theorem just_link_call {m : List (Nat × Nat)} {q v : Nat} (h : Just cfg B src Mtop m q v)
    {rest : List Char} (hsl : slice src q Mtop = .ok ('[' :: rest)) :
    v = q + 1 ∨ ∃ (skipT : IState → Except Panic IState) (fT : Nat) (wT wT1 : IState) (resT : LinkRes),
      CalmFn skipT ∧ SkipHypT skipT ∧ SkipGrowHyp skipT ∧ LInv wT ∧ wT.src = src ∧
      wT.posMax = Mtop ∧ wT.pos = q ∧
      parseLink cfg skipT fT wT (wT.pos + 0) false = .ok (some resT, wT1) ∧
      LookupMono wT1.cache m ∧ v = resT.endPos := by
  obtain ⟨skip0, tok0, f0, st0, st0', a1, a2, a3, a4, a5, a6, a7, a8, _, a10, a11, a12, a13⟩ := h
  have hw : st0.window = .ok ('[' :: rest) := window_of_slice (by rw [a5, a6, a7]; exact hsl)
  have hlt := lt_of_window_cons a4 hw
  have hTrun : ∀ id s, LInv s → s.pos < s.posMax →
      SilT s (silentBumped (runRule cfg skip0 tok0 f0 id) s) := by
    intro id s his hls
    apply silentBumped_T
    exact runRule_silent_T a1 a2 f0 id _ ⟨his.le, his.bpos, his.bmax, his.wf, his.stop, his.memo⟩ hls
  have hGrun : ∀ id s, LInv s → s.pos < s.posMax → ∀ o s',
      silentBumped (runRule cfg skip0 tok0 f0 id) s = .ok (o, s') →
      Grow (s.pos + 1) s.posMax s.cache s'.cache := by
    intro id s his hls
    apply silentBumped_grow
    exact runRule_silent_grow a1 a2 a3 f0 id _
      ⟨his.le, his.bpos, his.bmax, his.wf, his.stop, his.memo⟩ hls
  unfold skipStep at a11
  simp only at a11
  split at a11
  · simp at a11
  · next len st1 he =>
    simp only [Except.ok.injEq] at a11
    subst a11
    have hgrow := firstRule_silent_grow hTrun hGrun cfg.chain st0 a4 hlt _ _ he
    obtain ⟨_, hp1, _⟩ := chain_at_bracket a1 a2 a3 f0 cfg.chain st0 a4 hw _ _ he
    rcases chain_bracket_call a1 a2 a3 f0 cfg.chain st0 a4 hw _ _ he with c | ⟨len', wB, wB1, res, c1,
      c2, c3, c4, c5, c6, c7, c8⟩
    · simp at c
    · simp only [Option.some.injEq] at c1
      subst c1
      right
      refine ⟨skip0, f0, wB, wB1, res, a1, a2, a3, c2, by rw [c3, a5], by rw [c4, a6],
        by rw [c5, a7], c6, ?_, ?_⟩
      · refine (LookupMono.trans c7 ?_).trans a13
        intro k v hk
        simp only
        rw [lookup_cacheInsert]
        by_cases hkp : k = st0.pos
        · subst hkp
          rw [hgrow.low _ (by omega), a7, a10] at hk
          cases hk
        · rw [if_neg hkp]; exact hk
      · simp only at a12
        rw [← a12, hp1, ← c8]
  · next st1 he =>
    obtain ⟨hw1, hp1, _⟩ := chain_at_bracket a1 a2 a3 f0 cfg.chain st0 a4 hw _ _ he
    unfold firstChar at a11
    rw [hw1] at a11
    simp only [liftR, Except.ok.injEq] at a11
    subst a11
    left
    simp only at a12
    rw [← a12, hp1, a7]
    rfl

theorem refFinish_endPos {ls le p : Nat} {ml : Option (List Char)} {res : LinkRes}
    (h : refFinish cfg src ls le ml p = .ok (some res)) : res.endPos = p := by
  unfold refFinish at h
  revert h
  cases cfg.refs with
  | none => simp
  | some refs =>
    simp only
    split
    · simp
    · split
      · simp
      · intro h
        simp only [Except.ok.injEq, Option.some.injEq] at h
        rw [← h]

/-! ## the image rule -/

theorem slice_tail_of_cons {p M : Nat} {c : Char} {r : List Char} (hc : c.utf8Size = 1)
    (h : slice src p M = .ok (c :: r)) : slice src (p + 1) M = .ok r := by
  obtain ⟨a, b, e, l1, l2⟩ := (C05.slice_ok_iff _ _ _ _).mp h
  refine (C05.slice_ok_iff _ _ _ _).mpr ⟨a ++ [c], b, by rw [e]; simp, ?_, ?_⟩
  · rw [C05.byteLen_append]; simp [byteLen, hc]; omega
  · simp only [byteLen, hc] at l2; omega

set_option maxHeartbeats 400000 in
/-- **`ParseLinkL2`, the image rule** (`offset = 1`, `en = true`, first characters `![`) -/
theorem parseLinkL2_image (skip0 : IState → Except Panic IState) (f0 : Nat) (w w1 : IState)
    (r0 : Option LinkRes) (s : IState) (v : Nat)
    (hq : CalmFn skip0) (hs : SkipHypT skip0) (hg : SkipGrowHyp skip0)
    (hiw : LInv w) (hwsrc : w.src = src) (hwmax : w.posMax = Mtop) (hwpos : w.pos = s.pos)
    (hwit : parseLink cfg skip0 f0 w (w.pos + 1) true = .ok (r0, w1))
    (hmono : LookupMono w1.cache s.cache)
    (hnf : NF cfg B src Mtop s) (hlt : s.pos < s.posMax)
    (hlk : s.cache.lookup s.pos = some v) (hv : v ≤ s.posMax)
    (hhead : ∃ rest, slice src s.pos Mtop = .ok ('!' :: '[' :: rest))
    (hnone : r0 = none → v = s.pos + 1) (hsome : ∀ res, r0 = some res → v = res.endPos) (n : Nat) :
    ∃ R : Except Panic (Option LinkRes),
      (∀ skip, FollowsHits skip →
        parseLink cfg skip n s (s.pos + 1) true =
          match R with
          | .ok r => .ok (r, s)
          | .error e => .error e) ∧
      (∀ r, R = .ok r → r = r0) := by
  obtain ⟨rest, hhead⟩ := hhead
  obtain ⟨rc, hcut⟩ := hnf.cut
  obtain ⟨hleM, hble⟩ := cut_facts hcut
  have hctx := hnf.ctx
  have hf : ∀ k v, (k, v) ∈ s.cache → k < v := fun k v h => (hctx.memo k v h).1
  have e1 : ('!' : Char).utf8Size = 1 := by decide
  have e2 : ('[' : Char).utf8Size = 1 := by decide
  have hb1 : Boundary src (s.pos + 1 + 1) := by
    have := boundary_in_slice (u := ['!', '[']) (v := rest) hhead
    simpa [byteLen, e1, e2, Nat.add_assoc] using this
  have hle1 : s.pos + 1 + 1 ≤ Mtop := by
    have := (slice_boundaries hhead).2.2
    simp only [byteLen, e1, e2] at this; omega
  have hbr1 : slice src (s.pos + 1) Mtop = .ok ('[' :: rest) := slice_tail_of_cons e1 hhead
  -- the outer walk behind `s.pos`
  obtain ⟨ch, rest', v', g1, g2, g3, g4, g5, _⟩ := outer_step hf hnf.outer hlt
  rw [hlk] at g2
  simp only [Option.some.injEq] at g2
  subst g2
  -- when the witness declined: the `[` at `pos + 1` lies on the outer walk
  have hfail : r0 = none → Outer src Mtop s.cache s.posMax (s.pos + 1) 1 ∧ s.pos + 1 < s.posMax := by
    intro hr0
    rw [hnone hr0] at g5
    refine ⟨g5, ?_⟩
    by_cases hEq : s.pos + 1 = s.posMax
    · rw [hEq, hcut] at hbr1
      simp at hbr1
    · omega
  refine parseLinkL2_core 1 true skip0 f0 w w1 r0 s v hq hs hg hiw hwsrc hwmax hwpos hwit hmono hnf hlt
    hlk hv hb1 hle1 ?_ ?_ hsome n
  · -- the first label
    cases hr0 : r0 with
    | some res =>
      have hve := hsome res hr0
      rw [hwpos] at hwit
      rw [hr0] at hwit
      obtain ⟨_, hrec⟩ := parseLink_records (cfg := cfg) hq hs hg f0 w (s.pos + 1) true hiw
        (by rw [hwsrc]; exact hb1) (by rw [hwmax]; exact hle1) res w1 hwit
      have hres := ((parseLink_T (cfg := cfg) hq hs f0 w (s.pos + 1) true hiw
        (by rw [hwsrc]; exact hb1) (by rw [hwmax]; exact hle1)).2 _ _ hwit).2.2.2 res rfl
      have := hrec s.cache hmono
      rw [hwsrc, hwmax] at this
      have h3 := hres.endGt
      exact ⟨f0, _, _, this, .inl ⟨rfl, by omega⟩⟩
    | none =>
      obtain ⟨ho, hl⟩ := hfail hr0
      exact walk_below_bracket hctx hcut ho hl hbr1 true
  · -- the second label when the witness declined
    intro hr0 x1 hx1w hx1 t0 hw0 hlt2 htl
    obtain ⟨ho, hl⟩ := hfail hr0
    have hBR : Outer src Mtop s.cache s.posMax (x1 + 1) 1 →
        ∃ N r2 x2, pwalk src Mtop s.cache false N 1 (x1 + 1 + 1) = .done r2 x2 ∧
          Inside s.posMax r2 x2 :=
      fun hout => walk_below_bracket hctx hcut hout hlt2 hw0 false
    obtain ⟨rx, hrx⟩ := pwalk_found true _ _ _ _ hx1w
    -- the entry at the `[`
    obtain ⟨ch2, rest2, w2, k1, k2, k3, k4, k5, k6⟩ := outer_step hf ho hl
    rw [hbr1] at k1
    simp only [Except.ok.injEq, List.cons.injEq] at k1
    obtain ⟨rfl, _⟩ := k1
    rcases hctx.just (s.pos + 1) w2 (lookup_mem k2) with hu | hj
    · omega
    · rcases just_link_call hj hbr1 with hunit | ⟨skipT, fT, wT, wT1, resT, b1, b2, b3, b4, b5, b6, b7,
        b8, b9, b10⟩
      · -- the `[` is a single character of the outer walk: go through the label end
        obtain ⟨enF, NF', l, hl2, hup⟩ := k6 rfl hunit
        rw [hunit] at hup
        obtain ⟨N', hN'⟩ := pwalk_through enF true NF' f0 l 1 (s.pos + 1 + 1) s.posMax x1
          (by omega) (by omega) hup hx1w
        have ho1 : Outer src Mtop s.cache s.posMax x1 1 := ⟨enF, N', _, by omega, hN'⟩
        obtain ⟨ch3, rest3, u, m1, m2, m3, m4, m5, _⟩ := outer_step hf ho1 hx1
        rw [hrx] at m1
        simp only [Except.ok.injEq, List.cons.injEq] at m1
        obtain ⟨rfl, _⟩ := m1
        rcases hctx.just x1 u (lookup_mem m2) with hu | hj2
        · omega
        · rw [just_unit_at_closer hj2 hrx] at m5
          exact hBR m5
      · -- the `[` is a link token of the memo: read its own `parse_link`
        rw [b7, Nat.add_zero] at b8
        obtain ⟨r1T, x1T, hw1T, hWST⟩ := witness_summary (cfg := cfg) b1 b2 b3 fT wT (s.pos + 1) false b4
          (by rw [b5]; exact hb1) (by rw [b6]; exact hle1) b8 b9
        rw [b5, b6] at hw1T hWST
        have hw2le : w2 ≤ s.posMax := k4
        rcases hWST with ⟨_, h0⟩ | ⟨hr, il, htl0, h0⟩ | ⟨hr, htl0, w0', hw0', hcase⟩
        · cases h0
        · -- its tail answered: then so does the real one
          exfalso
          subst hr
          obtain ⟨_, hx⟩ := pwalk_det hf (pwalk_en _ _ _ _ hw1T) hx1w
          subst hx
          simp only [Option.some.injEq] at h0
          have hend : il.endPos ≤ s.posMax := by rw [b10, h0] at hw2le; exact hw2le
          have := (parseInlineTail_window (decOk_unescapeAll cfg.entity) hble hctx.bmax
            (by omega) il).mp ⟨htl0, hend⟩
          rw [show Link.parseInlineTail (Entity.unescapeAll cfg.entity) src (x1T + 1) s.posMax
            = tailOf cfg src (x1T + 1) s.posMax from rfl, htl] at this
          cases this
        · subst hr
          obtain ⟨_, hx⟩ := pwalk_det hf (pwalk_en _ _ _ _ hw1T) hx1w
          subst hx
          rw [hw0] at hw0'
          simp only [Except.ok.injEq] at hw0'
          subst hw0'
          rcases hcase with ⟨hne, _⟩ | ⟨_, r2, x2, hw2, hc2⟩
          · exact absurd rfl (hne t0)
          · rcases hc2 with ⟨hr2, l, _, hfin⟩ | ⟨_, hfin⟩
            · have := refFinish_endPos hfin
              exact ⟨fT, r2, x2, hw2, .inl ⟨hr2, by omega⟩⟩
            · have := refFinish_endPos hfin
              rw [b10, this] at k5
              exact hBR k5

end MdIt.Inline
