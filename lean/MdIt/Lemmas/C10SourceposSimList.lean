/-
  C10 with the sourcepos plugin, block simulation part 3c: the list rule in lock step on `LX`-related
  states — a copy of `MdIt/Lemmas/C10DocList.lean` for an offset relation that is only closed under shifts
  inside a line (`MdIt/Lemmas/C10SourceposSimCore.lean`); the proofs are unchanged except that
  `get_map` / `get_lines` no longer take a `Shift ρ`.
-/
import MdIt.Lemmas.C10SourceposSimCore

namespace MdIt.Block.LX
open MdIt.Block.LE
open MdIt.Lines (LineOffset)
variable {ρ : Nat → Nat → Prop} {G : Geo}

/-! (the small helpers of the `LE` file are reused from there) -/

/-! ## `itemRewrite` -/

theorem itemRewrite_sim {o₁ o₂ : LineOffset} (he : ERel ρ G.src₁ G.src₂ o₁ o₂) (pos : Nat) :
    FRel (fun r₁ r₂ => ERel ρ G.src₁ G.src₂ r₁.1 r₂.1 ∧ r₁.2 = r₂.2 ∧ geom r₁.1 = geom o₁ ∧ geom r₂.1 = geom o₂)
      (itemRewrite G.src₁ o₁ pos) (itemRewrite G.src₂ o₂ pos) := by
  unfold itemRewrite
  obtain ⟨L, hL1, hL2, hl1, hl2⟩ := he.line
  have hn := he.nums
  have hp1 : psub (pos + o₂.firstNonspace) o₂.lineStart = psub (pos + o₁.firstNonspace) o₁.lineStart := by
    unfold psub
    rw [if_pos (by omega), if_pos (by omega)]
    congr 1; omega
  have hp2 : psub o₂.lineEnd o₂.lineStart = psub o₁.lineEnd o₁.lineStart := by
    unfold psub
    rw [if_pos (by omega), if_pos (by omega)]
    congr 1; omega
  rw [he.indent, hL1, hL2, hp1, hp2]
  split
  · exact frel_err _
  refine frel_bind_same _ ?_
  intro ltxt hlt
  cases hlt
  refine frel_bind_same _ ?_
  intro rel _
  refine frel_bind_same _ ?_
  intro p hp
  obtain ⟨ind, fn⟩ := p
  have hb := (Lines.find_indent_bounds _ _ _ _ (liftL_ok_c10l hp)).2.2.1
  refine frel_bind_same _ ?_
  intro lineLen _
  exact frel_pure ⟨he.rewrite hL1 hb _, rfl, rfl, rfl⟩

/-- `&state.line_offsets[n]`, remembering where the entries sit -/
theorem SRel.off_at {s₁ s₂ : BState} (S : SRel ρ G s₁ s₂) (n : Nat) :
    FRel (fun o₁ o₂ => ERel ρ G.src₁ G.src₂ o₁ o₂ ∧ s₁.offs[n]? = some o₁ ∧ s₂.offs[n]? = some o₂)
      (s₁.off n) (s₂.off n) := by
  unfold BState.off
  rcases S.get n with ⟨h1, h2⟩ | ⟨o₁, o₂, h1, h2, he⟩
  · rw [h1, h2]; exact frel_err _
  · rw [h1, h2]; exact frel_ok ⟨he, rfl, rfl⟩

/-! ## one list item -/

theorem listItemBody_sim {tok₁ tok₂ : Tok} (TK : TokSim ρ G tok₁ tok₂) {s₁ s₂ : BState} (S : SRel ρ G s₁ s₂)
    (nextLine : Nat) (reachedEnd : Bool) :
    FRel (SRel ρ G) (listItemBody tok₁ s₁ nextLine reachedEnd) (listItemBody tok₂ s₂ nextLine reachedEnd) := by
  unfold listItemBody
  rw [S.isEmpty, S.line, S.lineMax, S.level]
  split
  · refine frel_pure ?_
    srelx_fields S
    exact S.children
  · refine frel_bind (TK _ _ ?_) ?_
    · srelx_fields S
      exact S.children
    intro a b hab
    rw [hab.level]
    refine frel_bind_same _ ?_
    intro lvl _
    refine frel_pure ?_
    srelx_fields hab
    exact hab.children

theorem prevEmptyEndOf_eq {s₁ s₂ : BState} (S : SRel ρ G s₁ s₂) (n : Nat) :
    prevEmptyEndOf s₂ n = prevEmptyEndOf s₁ n := by
  unfold prevEmptyEndOf
  rw [S.line]
  simp only [S.isEmpty]

theorem listItem_sim (_C : Ctx ρ G) {tok₁ tok₂ : Tok} (TK : TokSim ρ G tok₁ tok₂) {s₁ s₂ : BState}
    (S : SRel ρ G s₁ s₂) (nextLine pos : Nat) (pe tight : Bool) :
    FRel (fun r₁ r₂ => r₁.2 = r₂.2 ∧ SRel ρ G r₁.1 r₂.1)
      (listItem tok₁ s₁ nextLine pos pe tight) (listItem tok₂ s₂ nextLine pos pe tight) := by
  unfold listItem
  refine frel_bind (S.off_at nextLine) ?_
  rintro o₁ o₂ ⟨he, ho1, ho2⟩
  have hir : FRel (fun r₁ r₂ => ERel ρ G.src₁ G.src₂ r₁.1 r₂.1 ∧ r₁.2 = r₂.2 ∧ geom r₁.1 = geom o₁ ∧
      geom r₂.1 = geom o₂) (itemRewrite s₁.src o₁ pos) (itemRewrite s₂.src o₂ pos) := by
    rw [S.src₁, S.src₂]; exact itemRewrite_sim he pos
  refine frel_bind hir ?_
  rintro ⟨o₁', ind₁, re₁⟩ ⟨o₂', ind₂, re₂⟩ ⟨he', h2, hg1, hg2⟩
  simp only [Prod.mk.injEq] at h2
  obtain ⟨rfl, rfl⟩ := h2
  dsimp only
  have SA : SRel ρ G
      { s₁ with nodeKind := .listItem, children := [], listIndent := some s₁.blkIndent, blkIndent := ind₁,
                tight := true }
      { s₂ with nodeKind := .listItem, children := [], listIndent := some s₂.blkIndent, blkIndent := ind₁,
                tight := true } := by
    srelx_fields S
    exact NRelL.nil
  refine frel_bind (SA.setOff nextLine he' ?_ ?_) ?_
  · intro o ho
    have : o = o₁ := Option.some.inj (ho.symm.trans ho1)
    rw [this]; exact hg1
  · intro o ho
    have : o = o₂ := Option.some.inj (ho.symm.trans ho2)
    rw [this]; exact hg2
  intro b₁ b₂ SB
  refine frel_bind (listItemBody_sim TK SB nextLine re₁) ?_
  intro c₁ c₂ SC
  rw [prevEmptyEndOf_eq SC, SC.listIndent]
  refine frel_bind_same _ ?_
  intro pe' _
  cases hli : c₁.listIndent with
  | none => exact frel_err _
  | some li =>
    dsimp only
    have SD : SRel ρ G { c₁ with blkIndent := li, listIndent := s₁.listIndent }
        { c₂ with blkIndent := li, listIndent := s₂.listIndent } := by
      srelx_fields SC
      · exact S.listIndent
      · exact SC.children
    refine frel_bind (SD.setOff nextLine he ?_ ?_) ?_
    · intro o ho
      exact c10l_geom_eq_of_map S.geo₁ SC.geo₁ ho1 ho
    · intro o ho
      exact c10l_geom_eq_of_map S.geo₂ SC.geo₂ ho2 ho
    intro e₁ e₂ SE
    rw [SE.line]
    refine frel_bind_same _ ?_
    intro e _
    refine frel_bind (SE.getMap nextLine e) ?_
    intro r₁ r₂ hr
    refine frel_pure ⟨by rw [SC.tight], ?_⟩
    srelx_fields SE
    · exact S.tight
    · exact S.nodeKind
    · exact S.children.push (NRel.mk (KRel.refl _) hr SE.children)

/-! ## is the list continued? -/

theorem listContinue_sim {test₁ test₂ : Test} (TS : TestSim ρ G test₁ test₂) (ordered : Bool) (mc : Char)
    {s₁ s₂ : BState} (S : SRel ρ G s₁ s₂) (nextLine : Nat) :
    FRel (fun r₁ r₂ => r₁.1 = r₂.1 ∧ SRel ρ G r₁.2 r₂.2)
      (listContinue test₁ ordered mc s₁ nextLine) (listContinue test₂ ordered mc s₂ nextLine) := by
  unfold listContinue
  rw [S.lineMax, S.lineIndent, S.line]
  split
  · exact frel_pure ⟨rfl, S⟩
  refine frel_bind_same _ ?_
  intro ind _
  split
  · exact frel_pure ⟨rfl, S⟩
  split
  · exact frel_pure ⟨rfl, S⟩
  refine frel_bind (TS _ _ S) ?_
  rintro ⟨t₁, a₁⟩ ⟨t₂, a₂⟩ ⟨ht, SA⟩
  dsimp only at ht SA ⊢
  subst ht
  have SB : SRel ρ G { a₁ with line := s₁.line } { a₂ with line := s₁.line } := SA.withLine _
  split
  · exact frel_pure ⟨rfl, SB⟩
  refine frel_bind (frel_of_eq (SB.getLine _)) ?_
  rintro cur _ rfl
  split
  · exact frel_pure ⟨rfl, SB⟩
  refine frel_bind_same _ ?_
  intro mc' _
  split
  · exact frel_pure ⟨rfl, SB⟩
  · exact frel_pure ⟨rfl, SB⟩

/-! ## the item loop -/

theorem listLoop_sim (C : Ctx ρ G) {tok₁ tok₂ : Tok} (TK : TokSim ρ G tok₁ tok₂) {test₁ test₂ : Test}
    (TS : TestSim ρ G test₁ test₂) (ordered : Bool) (mc : Char) :
    ∀ (f₁ f₂ : Nat), f₁ ≤ f₂ → ∀ {s₁ s₂ : BState}, SRel ρ G s₁ s₂ → ∀ (nextLine pos : Nat) (pe tight : Bool),
      FRel (fun r₁ r₂ => r₁.1 = r₂.1 ∧ r₁.2.1 = r₂.2.1 ∧ SRel ρ G r₁.2.2 r₂.2.2)
        (listLoop tok₁ test₁ ordered mc f₁ s₁ nextLine pos pe tight)
        (listLoop tok₂ test₂ ordered mc f₂ s₂ nextLine pos pe tight) := by
  intro f₁
  induction f₁ with
  | zero =>
    intro f₂ _ s₁ s₂ _ nextLine pos pe tight
    rw [listLoop]; exact frel_fuel _
  | succ f ih =>
    intro f₂ hf s₁ s₂ S nextLine pos pe tight
    obtain ⟨f₂', rfl⟩ : ∃ k, f₂ = k + 1 := ⟨f₂ - 1, by omega⟩
    rw [listLoop, listLoop, S.lineMax]
    split
    · exact frel_ok ⟨rfl, rfl, S⟩
    refine frel_bind (listItem_sim C TK S nextLine pos pe tight) ?_
    rintro ⟨a₁, t₁, p₁⟩ ⟨a₂, t₂, p₂⟩ ⟨h, SA⟩
    simp only [Prod.mk.injEq] at h
    obtain ⟨rfl, rfl⟩ := h
    dsimp only at SA ⊢
    rw [SA.line]
    refine frel_bind (listContinue_sim TS ordered mc SA _) ?_
    rintro ⟨c₁, b₁⟩ ⟨c₂, b₂⟩ ⟨h, SB⟩
    dsimp only at h SB ⊢
    subst h
    cases c₁ with
    | none => exact frel_ok ⟨rfl, rfl, SB⟩
    | some p => exact ih f₂' (by omega) SB _ _ _ _

/-! ## tight lists -/

/-! ## the rule -/

theorem listSpecial_eq {s₁ s₂ : BState} (S : SRel ρ G s₁ s₂) : listSpecial s₂ = listSpecial s₁ := by
  unfold listSpecial
  rw [S.listIndent, S.line, S.blkIndent]
  cases s₁.listIndent with
  | none => rfl
  | some li =>
    dsimp only
    unfold BState.off
    rcases S.get s₁.line with ⟨h1, h2⟩ | ⟨o₁, o₂, h1, h2, he⟩
    · rw [h1, h2]
    · rw [h1, h2]
      simp only [bind, Except.bind, he.indent]

theorem list_sim (C : Ctx ρ G) {tok₁ tok₂ : Tok} (TK : TokSim ρ G tok₁ tok₂) {test₁ test₂ : Test}
    (TS : TestSim ρ G test₁ test₂) {f₁ f₂ : Nat} (hf : f₁ ≤ f₂) {s₁ s₂ : BState} (S : SRel ρ G s₁ s₂) (silent : Bool) :
    FRel (ResRel ρ G) (listRule tok₁ test₁ f₁ s₁ silent) (listRule tok₂ test₂ f₂ s₂ silent) := by
  unfold listRule
  rw [listSpecial_eq S, S.nodeKind, S.line, S.lineIndent, S.getLine, S.level]
  split
  · exact frel_pure ⟨rfl, S⟩
  refine frel_bind_same _ ?_
  intro ind _
  split
  · exact frel_pure ⟨rfl, S⟩
  refine frel_bind_same _ ?_
  intro special _
  split
  · exact frel_pure ⟨rfl, S⟩
  refine frel_bind_same _ ?_
  intro cur _
  refine frel_bind_same _ ?_
  intro detected _
  rcases detected with _ | ⟨pos, mv⟩
  · exact frel_pure ⟨rfl, S⟩
  rcases mv with _ | v
  all_goals
    dsimp only
    split
    · exact frel_pure ⟨rfl, S⟩
    refine frel_bind_same _ ?_
    intro emptyItem _
    split
    · exact frel_pure ⟨rfl, S⟩
    split
    · exact frel_pure ⟨rfl, S⟩
    refine frel_bind_same _ ?_
    intro mc _
    refine frel_bind (listLoop_sim C TK TS _ mc f₁ f₂ hf (s₁ := _) (s₂ := _) ?_ _ _ _ _) ?_
    · srelx_fields S
      exact NRelL.nil
    rintro ⟨n₁, t₁, a₁⟩ ⟨n₂, t₂, a₂⟩ ⟨h1, h2, SA⟩
    dsimp only at h1 h2 SA ⊢
    subst h1 h2
    have hch : FRel (NRelL ρ) (if t₁ = true then tightenItems a₁.children else pure a₁.children)
        (if t₁ = true then tightenItems a₂.children else pure a₂.children) := by
      split
      · exact tightenItems_sim SA.children
      · exact frel_pure SA.children
    refine frel_bind hch ?_
    intro ch₁ ch₂ hc
    rw [SA.level]
    refine frel_bind_same _ ?_
    intro lvl _
    refine frel_bind_same _ ?_
    intro e _
    refine frel_bind (SA.getMap _ e) ?_
    intro r₁ r₂ hr
    refine frel_pure ⟨rfl, ?_⟩
    srelx_fields SA
    · exact S.children.push (NRel.mk (KRel.refl _) hr hc)

end MdIt.Block.LX
