/-
  C10 with the sourcepos plugin — the block pass on `src` and on `lfToCrlf src` in lock step, with the
  EXACT offset translation.

      parseBlocks_crlf_exact   '\r' ∉ src  →
          LE.BRes (C10SP.crlfRel src) (parseBlocks cfg src) (parseBlocks cfg (lfToCrlf src))

  i.e. both passes panic alike, or both succeed with roots of the same kind, the same reference map,
  and children that are equal up to source offsets, where EVERY offset `a` of the LF tree (both ends of
  every range, every value of every `InlineRoot` per-line table) corresponds to
  `a + (number of line feeds of src before a)` in the CR LF tree (`LE.NRelL (C10SP.crlfRel src)`).
  `LE.parseBlocks_crlf` (`MdIt/Props/C10Doc.lean`) only has `≤` here, which is too weak for the
  sourcepos plugin (it turns offsets into line:column pairs).

  How: `MdIt/Lemmas/C10SourceposSim{Core,Leaf,Para,Quote,List,Engine,Lines}.lean` (namespace
  `MdIt.Block.LX`) repeat the simulation of `MdIt/Lemmas/C10Doc*.lean` (namespace `MdIt.Block.LE`) with
  an entry relation `LX.ERel` that carries `∀ d ≤ |line|, ρ (line_start₁ + d) (line_start₂ + d)`
  instead of `ρ line_start₁ line_start₂` plus translation invariance of `ρ`.  Every offset the block
  rules ever produce is `line_start + d` of some table entry with `d ≤ line_end - line_start`:
    * `get_map`: `first_nonspace` and `line_end` of an entry (`ERel.first`, `ERel.end_`);
    * `get_lines`: `line_start + first` where `src[line_start + first .. line_end]` was just sliced
      (`getLinesGo_sim`);
    * ATX heading: `first_nonspace + text_pos` where the text `src[first_nonspace .. line_end]` of the
      line was just sliced at `text_pos` (`heading_bound`);
    * paragraph / setext heading / reference / the inline placeholder of `afterChain`:
      `first_nonspace` of an entry.
  No offset outside its line was found.  The fuel alternative of the simulation (`FRel`: side 1 out
  of fuel) is discharged by `Block.parseBlocks_fuel` (`MdIt/Lemmas/BlockTotalFuel.lean`), so the
  theorems below have no fuel hypothesis.

  The same simulation with both sides equal gives a UNARY fact, `parseBlocks_in_lines`: every offset
  of the block tree of `src` lies inside (or at the end of) a line of `src`.
-/
import MdIt.Lemmas.C10SourceposSimEngine
import MdIt.Lemmas.C10SourceposSimLines
import MdIt.Props.C10Doc
import MdIt.Lemmas.BlockTotalFuel

namespace MdIt.Block.LX
open MdIt.Lines (LineOffset linesT lfToCrlf)
open MdIt.Block.LE

/-- **the block pass in lock step, offsets related inside lines only.**  Two sources whose line lists
    are `LX.StartRel` (same lines, offsets at equal distances into a line `ρ`-related), the second
    parsed with at least as much fuel: unless the first run exhausts its fuel, both panic alike or
    return `LE.BlocksRel` results. -/
theorem parseBlocks_rel {ρ : Nat → Nat → Prop} (cfg : Cfg) {s₁ s₂ : List Char}
    (h : StartRel ρ 0 0 (linesT s₁) (linesT s₂)) (hf : fuelFor cfg s₁ ≤ fuelFor cfg s₂) :
    FRel (BlocksRel ρ) (parseBlocks cfg s₁) (parseBlocks cfg s₂) := by
  unfold parseBlocks
  rcases tokenize_sim cfg (ctx_of ρ s₁ s₂) hf (srel_fresh h .root []) with h | ⟨a, b, h1, h2, S⟩ | ⟨e, h1, h2⟩
  · rw [h]; exact frel_fuel _
  · rw [h1, h2]; exact frel_ok ⟨S.nodeKind.symm, S.children, S.refs.symm⟩
  · rw [h1, h2]; exact frel_err _

theorem fuelFor_le (cfg : Cfg) {s₁ s₂ : List Char} {ρ : Nat → Nat → Prop}
    (h : StartRel ρ 0 0 (linesT s₁) (linesT s₂)) (hb : Lines.byteLen s₁ ≤ Lines.byteLen s₂) :
    fuelFor cfg s₁ ≤ fuelFor cfg s₂ := by
  unfold fuelFor
  rw [Lines.splitLines_eq, Lines.splitLines_eq, Lines.offsetsOf_length, Lines.offsetsOf_length, h.length]
  omega

/-- **the block pass, symmetric form**: related results or the same panic (`parseBlocks` never runs
    out of fuel, so no fuel hypothesis) -/
theorem parseBlocks_res {ρ : Nat → Nat → Prop} (cfg : Cfg) {s₁ s₂ : List Char}
    (h : StartRel ρ 0 0 (linesT s₁) (linesT s₂)) (hb : Lines.byteLen s₁ ≤ Lines.byteLen s₂) :
    BRes ρ (parseBlocks cfg s₁) (parseBlocks cfg s₂) := by
  rcases parseBlocks_rel cfg h (fuelFor_le cfg h hb) with hA | hok | herr
  · exact absurd hA (parseBlocks_fuel cfg s₁)
  · exact .inl hok
  · exact .inr herr

/-- **LF ↦ CR LF at the block level, exactly**: the block tree of the CR LF text is the block tree of
    the LF text with every offset `a` moved to `a + #LF of src before a` -/
theorem parseBlocks_crlf_exact (cfg : Cfg) (src : List Char) (h : '\r' ∉ src) :
    LE.BRes (C10SP.crlfRel src) (parseBlocks cfg src) (parseBlocks cfg (Lines.lfToCrlf src)) :=
  parseBlocks_res cfg (linesT_crlf_exact src h) (byteLen_lfToCrlf src)

/-! ### an instance -/

/-- heading, blank line, list item with a lazy continuation: the hypothesis holds, the two trees have
    the ranges the theorem predicts (`crlfRel`: `4 ↦ 4 + 2`, `9 ↦ 9 + 3`) -/
example :
    let src := "# a\n\n- b\nc".toList
    let cfg := (MdIt.Pipeline.exCfg false 100).blockCfg
    '\r' ∉ src ∧
    (parseBlocks cfg src).toOption.map (fun r => r.1.children.map (·.range)) = some [some (0, 3), some (5, 10)] ∧
    (parseBlocks cfg (lfToCrlf src)).toOption.map (fun r => r.1.children.map (·.range)) = some [some (0, 3), some (7, 13)] ∧
    C10SP.crlfRel src 0 0 ∧ C10SP.crlfRel src 3 3 ∧ C10SP.crlfRel src 5 7 ∧ C10SP.crlfRel src 10 13 := by
  simp only [C10SP.crlfRel]
  decide +kernel

/-- `'\r' ∉ src` is needed: in `"a\r\nb"` the LF belongs to a CR LF; rewriting it gives CR CR LF, two
    terminators, and the paragraph falls apart -/
example :
    let cfg := (MdIt.Pipeline.exCfg false 100).blockCfg
    (parseBlocks cfg "a\r\nb".toList).toOption.map (fun r => r.1.children.length) = some 1 ∧
    (parseBlocks cfg (lfToCrlf "a\r\nb".toList)).toOption.map (fun r => r.1.children.length) = some 2 := by
  decide +kernel

/-! ## unary corollary: every offset of the block tree lies in a line -/

/-- `a = b`, and `a` lies between the start and the end (inclusive) of a line of `src` -/
def inLineRel (src : List Char) (a b : Nat) : Prop :=
  a = b ∧ ∃ o ∈ Lines.splitLines src, o.lineStart ≤ a ∧ a ≤ o.lineEnd

/-- a line list is `StartRel` to itself for every relation that holds on the diagonal inside the
    lines of its table -/
theorem startRel_self {ρ : Nat → Nat → Prop} : ∀ (L : List (List Char × List Char)) (st : Nat),
    (∀ o ∈ Lines.offsetsOf st L, ∀ a, o.lineStart ≤ a → a ≤ o.lineEnd → ρ a a) → StartRel ρ st st L L
  | [], _, _ => trivial
  | x :: r, st, h => by
    rw [Lines.offsetsOf_cons] at h
    simp only [StartRel]
    refine ⟨trivial, ?_, startRel_self r _ (fun o ho => h o (List.mem_cons_of_mem _ ho))⟩
    intro d hd
    refine h _ List.mem_cons_self _ ?_ ?_
    · simp [Lines.mkOff]
    · simp [Lines.mkOff]; omega

theorem linesT_in_lines (src : List Char) : StartRel (inLineRel src) 0 0 (linesT src) (linesT src) := by
  apply startRel_self
  intro o ho a h1 h2
  rw [← Lines.splitLines_eq] at ho
  exact ⟨rfl, o, ho, h1, h2⟩

/-- **every offset of the block tree lies in a line**: both ends of every range and every value of
    every `InlineRoot` per-line table of the tree `parseBlocks` returns are between the start and the
    end (inclusive) of a line of the source -/
theorem parseBlocks_in_lines (cfg : Cfg) (src : List Char) :
    ∀ root refs, parseBlocks cfg src = .ok (root, refs) →
      LE.NRelL (inLineRel src) root.children root.children := by
  intro root refs hp
  have := parseBlocks_rel cfg (linesT_in_lines src) (Nat.le_refl _)
  rw [hp] at this
  obtain ⟨b, hb, hr⟩ := frel_ok_left this
  cases hb
  exact hr.2.1

end MdIt.Block.LX
