/-
  C05 for ALL sources (split tabs included), character boundaries — Part 3: the closed form of the
  deliverable (`bd_parseInline_all`: `parseInline_bd` with the contract `bdEmphOK` of
  Lemmas/C05TabsBdEmph.lean plugged in) and worked instances:

    * `bd_ex1_*`  the split-tab placeholder of `"-    ` a\n\t\t`"` (Lemmas/C05TabsTable.lean,
                  C05TabsShift.lean, C05TabsFaith.lean): a code span across three virtual spaces;
    * `bd_ex2_*`  `"-    *a*  \n\t\té"`: emphasis, a hard break whose two blanks are popped off the
                  trailing text (`bd_pop_shift`), the three virtual spaces of the split tab skipped
                  by the newline rule, and a two-byte character behind them;
    * every hypothesis of `parseInline_bd` is needed: `CtxV` (a content that is not an excerpt of the
      document), `SolidMarkers` (a SPACE as emphasis marker: the run of three virtual spaces becomes
      an `EmphMarker` with `remaining = 3` and the EMPTY range `(11, 11)`).
-/
import MdIt.Lemmas.C05TabsBd2
import MdIt.Lemmas.C05TabsBdEmph
import MdIt.Lemmas.C05TabsFaith

namespace MdIt.C05T
open MdIt.Inline
open MdIt.InlineOps (Srcmap getSourcePosFor getMap byteLen slice)
open MdIt.C05R (Cut Bdy)

/-- **the boundary clause of C05 for one inline run, closed form**: for ANY `get_lines` table
    (`CtxV`) and solid single-byte emphasis markers, at every node of whatever `parseInline`
    returns both range ends are character boundaries of the document -/
theorem bd_parseInline_all (cfg : Inline.Cfg) {src0 c : List Char} {m : Srcmap}
    (hctx : CtxV src0 c m) (hmk : SolidMarkers cfg.chain) {ns : List Inline.Node}
    (h : Inline.parseInline cfg c m = .ok ns) : BdL src0 ns :=
  parseInline_bd cfg hctx hmk (bdEmphOK cfg src0) h

theorem bd_ex_solid (n : Nat) : SolidMarkers (exCfg n).chain := by
  intro mk csw hid
  simp only [exCfg, List.mem_cons, RuleId.emph.injEq, reduceCtorEq, false_or, List.mem_nil_iff,
    or_false] at hid
  obtain ⟨rfl, _⟩ := hid
  exact ⟨by decide, by decide, by decide⟩

/-! ## instance 1: a code span across the virtual spaces of a split tab -/

/-- what the examples show of the children of the top-level nodes: value and range -/
def bd_showKids (r : Except Panic (List Node)) :
    Except Panic (List (List (Val × Option (Nat × Nat)))) :=
  r.map (fun cs => cs.map (fun n => n.children.map (fun k => (k.val, k.range))))

/-- the placeholder of `"-    ` a\n\t\t`"`: content `"` a\n   `"`, table `[(0,5),(4,11),(7,11)]` -/
theorem bd_ex1_ctx : CtxV tb_exSrc tb_exC [(0, 5), (4, 11), (7, 11)] :=
  ⟨mapT_of_virt sh_exM_wf sh_exM_monoV sh_exM_keys sh_exM_virt, tf_ex_pfthV⟩

example : ∃ ns, parseInline (exCfg 100) tb_exC [(0, 5), (4, 11), (7, 11)] = .ok ns ∧
    ns.length = 1 ∧ BdL tb_exSrc ns := by
  have hrun : (match parseInline (exCfg 100) tb_exC [(0, 5), (4, 11), (7, 11)] with
      | .ok cs => cs.length == 1
      | .error _ => false) = true := by decide +kernel
  split at hrun
  · next cs hcs =>
    exact ⟨cs, hcs, by simpa using hrun, bd_parseInline_all _ bd_ex1_ctx (bd_ex_solid _) hcs⟩
  · simp at hrun

-- the code span `src[5..12]`; its text child (one padding blank stripped on either side) is the
-- content stretch `[2, 6]`, which ends INSIDE the virtual spaces (content offsets 4 … 7 all sit on
-- the source offset 11 of the closing backtick): `src[7..11] = "a\n\t\t"`
example : C05R.fi_show (parseInline (exCfg 100) tb_exC [(0, 5), (4, 11), (7, 11)])
    = .ok [(.codeInline '`' 1, some (5, 12), 1)] := by
  decide +kernel

example : bd_showKids (parseInline (exCfg 100) tb_exC [(0, 5), (4, 11), (7, 11)])
    = .ok [[(.text ['a', ' ', ' ', ' '], some (7, 11))]] := by
  decide +kernel

/-! ## instance 2: emphasis, popped blanks, skipped virtual spaces, a two-byte character -/

/-- `"-    *a*  \n\t\té"`: item content at column 5; the two tabs of the continuation line reach
    column 8 and leave three virtual spaces in front of the `é` -/
def bd_ex2Src : List Char :=
  ['-', ' ', ' ', ' ', ' ', '*', 'a', '*', ' ', ' ', '\n', '\t', '\t', 'é']

def bd_ex2C : List Char := ['*', 'a', '*', ' ', ' ', '\n', ' ', ' ', ' ', 'é']

def bd_ex2M : Srcmap := [(0, 5), (6, 13), (9, 13)]

example : (Block.parseBlocks (Pipeline.exCfg false 100).blockCfg bd_ex2Src).toOption.map
      (fun r => Pipeline.inlOf r.1) = some [(bd_ex2C, bd_ex2M)] := by
  decide +kernel

theorem bd_ex2_wf : C05.WFMap bd_ex2M := ⟨⟨_, _, rfl⟩, by decide⟩

theorem bd_ex2_monoV : C05.MonoMapV bd_ex2M := by
  intro i k1 v1 k2 v2 h1 h2
  match i with
  | 0 => simp [bd_ex2M] at h1 h2; omega
  | 1 => simp [bd_ex2M] at h1 h2; omega
  | n + 2 => simp [bd_ex2M] at h2

theorem bd_ex2_keys : C05I.KeysLFV bd_ex2C bd_ex2M := by
  intro i k v h
  match i with
  | 0 =>
    simp [bd_ex2M] at h
    obtain ⟨rfl, rfl⟩ := h
    exact .inl ⟨['*', 'a', '*', ' ', ' '], [' ', ' ', ' ', 'é'], rfl, by decide⟩
  | 1 =>
    simp [bd_ex2M] at h
    obtain ⟨rfl, rfl⟩ := h
    exact .inr ⟨6, rfl⟩
  | n + 2 => simp [bd_ex2M] at h

theorem bd_ex2_tbseg : C05I.SegAll (tb_Seg bd_ex2C) bd_ex2M :=
  ⟨fun h => absurd h (by decide),
    fun _ => ⟨['*', 'a', '*', ' ', ' ', '\n'], 3, ['é'], by decide, by decide, by decide,
      .inr ⟨['*', 'a', '*', ' ', ' '], rfl⟩⟩,
    trivial, trivial⟩

/-- every entry is `tf_Seg`: a real one (line 1, `src[5..10]`, line break at 10), a virtual one
    (3 spaces on the source offset 13), a real one (`src[13..15] = "é"`) -/
theorem bd_ex2_seg : C05I.SegAll (tf_Seg bd_ex2Src bd_ex2C) bd_ex2M :=
  ⟨.inr ⟨[], ['*', 'a', '*', ' ', ' '], ['\n', ' ', ' ', ' ', 'é'], by decide, by decide, by decide,
      ⟨['-', ' ', ' ', ' ', ' '], ['\n', '\t', '\t', 'é'], by decide, by decide, by decide⟩,
      [' ', ' ', ' ', 'é'], rfl, by decide, by decide,
      ⟨['-', ' ', ' ', ' ', ' ', '*', 'a', '*', ' ', ' '], '\n', ['\t', '\t', 'é'], by decide, by decide,
        .inl rfl⟩⟩,
    .inl ⟨9, rfl,
      ⟨['-', ' ', ' ', ' ', ' ', '*', 'a', '*', ' ', ' ', '\n', '\t', '\t'], ['é'], by decide, by decide⟩,
      ['*', 'a', '*', ' ', ' ', '\n'], 3, ['é'], by decide, by decide, by decide⟩,
    .inr ⟨['*', 'a', '*', ' ', ' ', '\n', ' ', ' ', ' '], ['é'], [], by decide, by decide, by decide,
      ⟨['-', ' ', ' ', ' ', ' ', '*', 'a', '*', ' ', ' ', '\n', '\t', '\t'], [], by decide, by decide,
        by decide⟩,
      rfl⟩,
    trivial⟩

theorem bd_ex2_ctx : CtxV bd_ex2Src bd_ex2C bd_ex2M :=
  ⟨mapT_of_virt bd_ex2_wf bd_ex2_monoV bd_ex2_keys (tb_virtSp_of_seg bd_ex2_tbseg),
    tf_pfthV_of_seg bd_ex2_wf bd_ex2_monoV (tb_virtSp_of_seg bd_ex2_tbseg) bd_ex2_seg⟩

example : ∃ ns, parseInline (exCfg 100) bd_ex2C bd_ex2M = .ok ns ∧ ns.length = 3 ∧
    BdL bd_ex2Src ns := by
  have hrun : (match parseInline (exCfg 100) bd_ex2C bd_ex2M with
      | .ok cs => cs.length == 3
      | .error _ => false) = true := by decide +kernel
  split at hrun
  · next cs hcs =>
    exact ⟨cs, hcs, by simpa using hrun, bd_parseInline_all _ bd_ex2_ctx (bd_ex_solid _) hcs⟩
  · simp at hrun

-- `<em>` = `src[5..8]`; the hard break covers the two popped blanks, the line feed and the two
-- tabs: `src[8..13]` (its left end `8 = 10 − 2` is where `bd_pop_shift` is used); `é` = `src[13..15]`
example : C05R.fi_show (parseInline (exCfg 100) bd_ex2C bd_ex2M) = .ok
    [(.wrap .em '*', some (5, 8), 1), (.hardbreak, some (8, 13), 0),
     (.text ['é'], some (13, 15), 0)] := by
  decide +kernel

/-! ## the hypotheses are needed -/

-- `CtxV`: against a document the content is NOT an excerpt of, a range end falls inside a character
example : ∃ ns, parseInline (exCfg 100) ['a'] [(0, 0)] = .ok ns ∧ ¬ BdL ['é'] ns := by
  have hrun : C05R.fi_show (parseInline (exCfg 100) ['a'] [(0, 0)])
      = .ok [(.text ['a'], some (0, 1), 0)] := by decide +kernel
  unfold C05R.fi_show at hrun
  cases hp : parseInline (exCfg 100) ['a'] [(0, 0)] with
  | error e => rw [hp] at hrun; simp [Except.map] at hrun
  | ok ns =>
    rw [hp] at hrun
    simp only [Except.map, Except.ok.injEq] at hrun
    refine ⟨ns, rfl, ?_⟩
    intro hbd
    obtain ⟨n, rfl, hn⟩ := List.map_eq_singleton_iff.mp hrun
    simp only [Prod.mk.injEq] at hn
    obtain ⟨_, hr, _⟩ := hn
    obtain ⟨⟨a, b, hab, _, hb, _⟩, _⟩ := (BdN_eq _ _).mp ((bd_bdL_single _ _).mp hbd)
    rw [hr] at hab
    simp only [Option.some.injEq, Prod.mk.injEq] at hab
    obtain ⟨rfl, rfl⟩ := hab
    obtain ⟨p, q, e, hl⟩ := hb
    cases p with
    | nil => simp [byteLen] at hl
    | cons x p' =>
      cases p' with
      | nil =>
        simp only [List.cons_append, List.nil_append, List.cons.injEq] at e
        obtain ⟨rfl, _⟩ := e
        exact absurd hl (by decide)
      | cons y p'' => simp at e

/-- a chain whose only rule takes the SPACE as emphasis marker -/
def bd_spCfg : Cfg := { exCfg 100 with chain := [.emph ' ' false], fns := fun _ _ => none }

-- `SolidMarkers` (`mk ≠ ' '`): on the split-tab placeholder of instance 1 the three virtual spaces
-- become an `EmphMarker` with `remaining = 3` whose range `(11, 11)` is EMPTY (the translation is
-- constant on virtual spaces) — the marker clause of `BdN` fails
example : ∃ ns, parseInline bd_spCfg tb_exC [(0, 5), (4, 11), (7, 11)] = .ok ns ∧
    ¬ BdL tb_exSrc ns := by
  have hrun : C05R.fi_show (parseInline bd_spCfg tb_exC [(0, 5), (4, 11), (7, 11)]) = .ok
      [(.text ['`'], some (5, 6), 0), (.emphMarker ' ' 1 1 true false, some (6, 7), 0),
       (.text ['a', '\n'], some (7, 11), 0), (.emphMarker ' ' 3 3 true false, some (11, 11), 0),
       (.text ['`'], some (11, 12), 0)] := by decide +kernel
  unfold C05R.fi_show at hrun
  cases hp : parseInline bd_spCfg tb_exC [(0, 5), (4, 11), (7, 11)] with
  | error e => rw [hp] at hrun; simp [Except.map] at hrun
  | ok ns =>
    rw [hp] at hrun
    simp only [Except.map, Except.ok.injEq] at hrun
    refine ⟨ns, rfl, ?_⟩
    intro hbd
    have hlen : ns.length = 5 := by simpa using congrArg List.length hrun
    match ns, hlen with
    | [n0, n1, n2, n3, n4], _ =>
      simp only [List.map_cons, List.map_nil, List.cons.injEq, Prod.mk.injEq, and_true] at hrun
      obtain ⟨_, _, _, ⟨hv, hr, _⟩, _⟩ := hrun
      have h3 : BdN tb_exSrc n3 := (bdL_iff _ _).mp hbd n3 (by simp)
      obtain ⟨⟨a, b, hab, _, _, hmk⟩, _⟩ := (BdN_eq _ _).mp h3
      rw [hr] at hab
      simp only [Option.some.injEq, Prod.mk.injEq] at hab
      obtain ⟨rfl, rfl⟩ := hab
      obtain ⟨⟨_, _, _, _, hl⟩, _⟩ := hmk _ _ _ _ _ hv
      simp [byteLen] at hl
      exact absurd hl (by decide)

end MdIt.C05T
