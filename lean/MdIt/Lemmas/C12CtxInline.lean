/-
  Helper development for `Props/C12Ctx.lean` (C12 context agreement for link destination, link title,
  reference definition), INLINE side: a symbolic run of `Inline.linkRule` — and of the whole inline
  parser — on a source  `[` c `]` tail  whose label is ONE plain character `c`:

    * `runRule_quiet'`       a rule met at a character that is not "its own" answers `None` and
                             leaves the state alone, in BOTH modes (`C12.runRule_quiet` is real mode)
    * `skipToken_char`       `skip_token` at the label character: the text scanner (silent mode, level
                             raised and restored) takes it; one memo entry
    * `parseLinkLabel_char`  `parse_link_label`: the loop calls `skip_token` once and stops at `]`
    * `tokStep_char`         the nested `tokenize` on the label window: one `Text` node — through the
                             text scanner when `level + 1 < max_nesting`, through the loop's
                             one-character fall-back otherwise (`max_nesting = 1`)
    * `parseInline_bracket`  `md.inline.parse("[c]" ++ tail)` is `[Link{href, title}[Text c]]` whenever
                             the part of `parse_link` behind the label (`afterLabel`: inline tail
                             `(…)`, else reference lookup) returns `href`, `title` and consumes
                             everything

  Nothing here unfolds the emphasis matcher: an emphasis rule is only met at characters that are not
  its marker.
-/
import MdIt.Lemmas.C12DocInline

set_option linter.unusedSimpArgs false

namespace MdIt.Inline.C12X
open MdIt.InlineOps (Srcmap getSourcePosFor getMap byteLen slice)
open MdIt.C05 (WFMap byteLen_append slice_ok_iff)
open MdIt.Entity (isAsciiPunct nonStop splitRun)
open MdIt.Inline.C12 (trigger runRule_quiet firstRule_only window_of_src wf_single tokLoop_step
  tokLoop_done trimSrc_mid window_slice)

/-! ## every rule looks at the first character, in both modes -/

theorem runRule_quiet' (cfg : Cfg) (skip tok : IState → Except Panic IState) (fuel : Nat)
    (r : RuleId) (st : IState) (c : Char) (w : List Char) (silent : Bool)
    (hw : st.window = .ok (c :: w)) (ht : trigger r c = false) :
    runRule cfg skip tok fuel r st silent = .ok (none, st) := by
  cases silent with
  | false => exact runRule_quiet cfg skip tok fuel r st c w hw ht
  | true =>
    cases r with
    | text =>
      simp only [trigger] at ht
      have hs' : (splitRun nonStop (c :: w)).1 = [] := by simp [splitRun, ht]
      have hs : (splitRun (fun c => !Entity.textStop.contains c) (c :: w)).1 = [] := hs'
      simp only [runRule, ruleText, hw, hs, byteLen]
      rfl
    | newline =>
      simp only [trigger, beq_eq_false_iff_ne, ne_eq] at ht
      simp only [runRule, ruleNewline, hw, ht, not_false_eq_true, if_true, liftR]
      simp [ht]
    | escape =>
      simp only [trigger, beq_eq_false_iff_ne, ne_eq] at ht
      have : Entity.escapeCore (c :: w) = .ok none := by simp [Entity.escapeCore, ht]
      simp only [runRule, ruleEscape, hw, this, liftR]
    | backticks =>
      simp only [trigger, beq_eq_false_iff_ne, ne_eq] at ht
      have hs := (codeSlice_eq _ _ _ _).mpr (window_slice hw)
      simp only [runRule, ruleBackticks, CodePair.run, hs, ht, not_false_eq_true, if_true, liftR]
      simp [ht]
    | emph mk csw =>
      simp only [trigger, beq_eq_false_iff_ne, ne_eq] at ht
      simp only [runRule, ruleEmph, hw]
      simp [ht, liftR]
    | link =>
      simp only [trigger, beq_eq_false_iff_ne, ne_eq] at ht
      simp only [runRule, ruleLink, hw, liftR]
      simp [ht]
    | image =>
      simp only [trigger, beq_eq_false_iff_ne, ne_eq] at ht
      simp only [runRule, ruleImage, hw, liftR]
      split <;> first
        | rfl
        | (rename_i heq; simp only [Except.ok.injEq, List.cons.injEq] at heq; exact absurd heq.1 ht)
        | (rename_i heq; cases heq)
    | linkEnd => rfl
    | autolink =>
      simp only [trigger, beq_eq_false_iff_ne, ne_eq] at ht
      simp only [runRule, ruleAutolink, hw, liftR]
      simp [ht]
    | entity =>
      simp only [trigger, beq_eq_false_iff_ne, ne_eq] at ht
      simp only [runRule, ruleEntity, hw, liftR]
      simp [ht]

/-! ## the chain condition -/

/-- what the label needs: the text scanner is in the chain, emphasis-like rules have ASCII
    punctuation markers -/
structure TextChain (chain : List RuleId) : Prop where
  text : RuleId.text ∈ chain
  emph : ∀ mk csw, RuleId.emph mk csw ∈ chain → isAsciiPunct mk = true

/-- what the link contexts need of the inline chain: the text scanner and the link rule are in it
    (anywhere, any order, any other rules), and every emphasis-like rule has an ASCII punctuation
    marker other than `[` (true of `*`, `_`, `~`) -/
structure LinkChain (chain : List RuleId) : Prop where
  text : RuleId.text ∈ chain
  link : RuleId.link ∈ chain
  emph : ∀ mk csw, RuleId.emph mk csw ∈ chain → isAsciiPunct mk = true ∧ mk ≠ '['

theorem LinkChain.toText {chain : List RuleId} (h : LinkChain chain) : TextChain chain :=
  ⟨h.text, fun mk csw hm => (h.emph mk csw hm).1⟩

/-- the same for images: the image rule instead of the link rule, no emphasis-like rule on `!` -/
structure ImageChain (chain : List RuleId) : Prop where
  text : RuleId.text ∈ chain
  image : RuleId.image ∈ chain
  emph : ∀ mk csw, RuleId.emph mk csw ∈ chain → isAsciiPunct mk = true ∧ mk ≠ '!'

theorem ImageChain.toText {chain : List RuleId} (h : ImageChain chain) : TextChain chain :=
  ⟨h.text, fun mk csw hm => (h.emph mk csw hm).1⟩

/-- a label character: not ASCII punctuation, not a line feed (a letter, a digit, …) -/
structure LabelChar (c : Char) : Prop where
  np : isAsciiPunct c = false
  nl : c ≠ '\n'

theorem LabelChar.ne {c : Char} (h : LabelChar c) {d : Char} (hd : isAsciiPunct d = true) : c ≠ d := by
  intro e; subst e; rw [h.np] at hd; cases hd

theorem trigger_label {chain : List RuleId} (hc : TextChain chain) {c : Char} (h : LabelChar c) :
    ∀ r ∈ chain, r ≠ .text → trigger r c = false := by
  have key : ∀ d : Char, isAsciiPunct d = true → (c == d) = false := by
    intro d hd; rw [beq_eq_false_iff_ne]; exact h.ne hd
  intro r hr hne
  cases r with
  | text => exact absurd rfl hne
  | newline => simp only [trigger, beq_eq_false_iff_ne]; exact h.nl
  | escape => exact key _ (by decide)
  | backticks => exact key _ (by decide)
  | emph mk csw => exact key _ (hc.emph mk csw hr)
  | link => exact key _ (by decide)
  | image => exact key _ (by decide)
  | linkEnd => rfl
  | autolink => exact key _ (by decide)
  | entity => exact key _ (by decide)

theorem trigger_bang {chain : List RuleId} (hc : ImageChain chain) :
    ∀ r ∈ chain, r ≠ .image → trigger r '!' = false := by
  intro r hr hne
  cases r with
  | image => exact absurd rfl hne
  | emph mk csw =>
    simp only [trigger, beq_eq_false_iff_ne]
    exact fun h => (hc.emph mk csw hr).2 h.symm
  | text => decide
  | _ => rfl

theorem trigger_bracket {chain : List RuleId} (hc : LinkChain chain) :
    ∀ r ∈ chain, r ≠ .link → trigger r '[' = false := by
  intro r hr hne
  cases r with
  | link => exact absurd rfl hne
  | emph mk csw =>
    simp only [trigger, beq_eq_false_iff_ne]
    exact fun h => (hc.emph mk csw hr).2 h.symm
  | text => decide
  | _ => rfl

/-! ## `skip_token` at the label character -/

theorem unbump (st : IState) :
    ({ ({ st with level := st.level + 1 } : IState) with level := st.level + 1 - 1 } : IState) = st := by
  cases st; simp

theorem silentBumped_same (run : IState → Bool → RuleRes) (st : IState) (r : Option Nat)
    (h : run { st with level := st.level + 1 } true = .ok (r, { st with level := st.level + 1 })) :
    silentBumped run st = .ok (r, st) := by
  unfold silentBumped
  rw [h]
  simp only [Nat.add_eq_zero_iff, Nat.succ_ne_self, and_false, if_false]
  cases st; simp

theorem splitRun_one (c : Char) (B : List Char) (hc : LabelChar c)
    (hB : ∀ x ∈ B.head?, nonStop x = false) :
    splitRun (fun c => !Entity.textStop.contains c) (c :: B) = ([c], B) :=
  Entity.splitRun_append nonStop [c] B
    (fun x hx => by
      simp only [List.mem_singleton] at hx; subst hx
      exact Entity.nonStop_of_notPunct x hc.np hc.nl) hB

/-- `skip_token` at a label character `c` in front of a stop character (fresh memo at this
    position, level below the limit): the text scanner takes `c` in silent mode -/
theorem skipToken_char {cfg : Cfg} (hc : TextChain cfg.chain) (f : Nat) (st : IState) (c : Char)
    (B : List Char) (hlc : LabelChar c) (hB : ∀ x ∈ B.head?, nonStop x = false)
    (hw : st.window = .ok (c :: B)) (hcache : st.cache.lookup st.pos = none)
    (hlv : st.level < cfg.maxNesting) :
    skipToken cfg (f + 1) st =
      .ok { st with pos := st.pos + byteLen [c],
                    cache := cacheInsert st.cache st.pos (st.pos + byteLen [c]) } := by
  have hwb : ({ st with level := st.level + 1 } : IState).window = .ok (c :: B) := hw
  have hlen : byteLen [c] ≠ 0 := by
    have := Char.utf8Size_pos c; simp only [byteLen]; omega
  have htext : silentBumped (runRule cfg (fun s => skipToken cfg f s) (fun s => tokLoop cfg f s.posMax s) f .text) st =
      .ok (some (byteLen [c]), st) := by
    apply silentBumped_same
    simp only [runRule, ruleText, hwb, splitRun_one c B hlc hB, if_neg hlen, if_true, liftR]
  have hfirst := firstRule_only
    (fun id s => silentBumped (runRule cfg (fun s => skipToken cfg f s) (fun s => tokLoop cfg f s.posMax s) f id) s)
    cfg.chain st .text _ _ hc.text htext
    (fun r hr hne => silentBumped_same _ st none
      (runRule_quiet' cfg _ _ f r _ c B true hwb (trigger_label hc hlc r hr hne)))
  rw [skipToken]
  simp only [hcache, if_pos hlv, skipStep, hfirst]

/-! ## `parse_link_label` on `pre[c]…` (`pre` = nothing for a link, `!` for an image) -/

theorem byteLen_bracket : byteLen ['['] = 1 := by decide
theorem byteLen_rbracket : byteLen [']'] = 1 := by decide
theorem byteLen_cons1 (c : Char) (l : List Char) : byteLen (c :: l) = byteLen [c] + byteLen l := by
  simp only [byteLen]; omega

theorem byteLen_label (pre : List Char) (c : Char) (T : List Char) :
    byteLen (pre ++ '[' :: c :: ']' :: T) = byteLen pre + 1 + byteLen [c] + 1 + byteLen T := by
  have e1 := byteLen_cons1 c (']' :: T)
  have e2 := byteLen_cons1 ']' T
  have e3 := byteLen_cons1 '[' (c :: ']' :: T)
  rw [byteLen_rbracket] at e2
  rw [byteLen_bracket] at e3
  rw [byteLen_append]
  omega

/-- `parse_link_label(state, |pre|, enable_nested)` on a source `pre[c]…` (window up to the end of
    the source, empty memo): the loop calls `skip_token` at `c`, stops at `]`; label end =
    `|pre| + 1 + |c|`, `state.pos` restored, one memo entry -/
theorem parseLinkLabel_char {cfg : Cfg} (hc : TextChain cfg.chain) (f g : Nat) (st : IState)
    (pre : List Char) (c : Char) (T : List Char) (en : Bool) (hlc : LabelChar c)
    (hsrc : st.src = pre ++ '[' :: c :: ']' :: T)
    (hmax : st.posMax = byteLen st.src) (hcache : st.cache = []) (hlv : st.level < cfg.maxNesting) :
    parseLinkLabel (fun s => skipToken cfg (f + 1) s) (g + 2) st (byteLen pre) en =
      .ok (some (byteLen pre + 1 + byteLen [c]),
        { st with cache := [(byteLen pre + 1, byteLen pre + 1 + byteLen [c])] }) := by
  obtain ⟨src, srcmap, pos, posMax, level, linkLevel, cache, bt, ch, bo⟩ := st
  simp only at hsrc hmax hcache hlv
  subst hcache
  have hc1 : c ≠ ']' := hlc.ne (by decide)
  have hc2 : c ≠ '[' := hlc.ne (by decide)
  have hlen : byteLen src = byteLen pre + 1 + byteLen [c] + 1 + byteLen T := by
    rw [hsrc]; exact byteLen_label pre c T
  have e1 := byteLen_cons1 c (']' :: T)
  have e2 := byteLen_cons1 ']' T
  rw [byteLen_rbracket] at e2
  have h1 : (⟨src, srcmap, byteLen pre + 1, posMax, level, linkLevel, [], bt, ch, bo⟩ : IState).window =
      .ok (c :: ']' :: T) :=
    window_of_src (P := pre ++ ['[']) (W := c :: ']' :: T) (B := []) (by simp [hsrc])
      (by simp [byteLen_append, byteLen_bracket])
      (by show posMax = _; rw [hmax, hlen, byteLen_append, byteLen_bracket]; omega)
  have hskip := skipToken_char hc f ⟨src, srcmap, byteLen pre + 1, posMax, level, linkLevel, [], bt, ch, bo⟩
    c (']' :: T) hlc (by intro x hx; simp at hx; subst hx; decide) h1 (by simp) hlv
  simp only [cacheInsert] at hskip
  have h2 : (⟨src, srcmap, byteLen pre + 1 + byteLen [c], posMax, level, linkLevel,
      [(byteLen pre + 1, byteLen pre + 1 + byteLen [c])], bt, ch, bo⟩ : IState).window = .ok (']' :: T) :=
    window_of_src (P := pre ++ ['[', c]) (W := ']' :: T) (B := []) (by simp [hsrc])
      (by show byteLen pre + 1 + byteLen [c] = _
          rw [byteLen_append, byteLen_cons1 '[', byteLen_bracket]; omega)
      (by show posMax = _; rw [hmax, hlen, byteLen_append, byteLen_cons1 '[', byteLen_bracket]; omega)
  unfold parseLinkLabel
  simp only [labelLoop, h1, liftR, hc1, false_and, if_false, hskip, hc2, h2, true_and,
    Int.sub_self, if_true]

/-! ## the nested `tokenize` on the label window -/

theorem byteLen_single (c : Char) : byteLen [c] = c.utf8Size := by simp [byteLen]

/-- one iteration of `tokenize` on a window that holds exactly the label character `c`, no children
    yet: one fresh `Text` node — whether the chain runs (`level < max_nesting`: the text scanner takes
    `c`) or not (the loop's one-character fall-back) -/
theorem tokStep_char {cfg : Cfg} (hc : TextChain cfg.chain) (skip tok : IState → Except Panic IState)
    (fuel : Nat) (st : IState) (P B : List Char) (c : Char) (hlc : LabelChar c)
    (hsrc : st.src = P ++ [c] ++ B) (hpos : st.pos = byteLen P) (hmax : st.posMax = byteLen P + byteLen [c])
    (hwf : WFMap st.srcmap) (hkids : st.children = []) :
    ∃ rg, tokStep cfg skip tok fuel st =
      .ok { st with children := [Node.newText [c] (some rg)], pos := st.pos + byteLen [c] } := by
  have hw : st.window = .ok [c] := window_of_src hsrc hpos hmax
  have hsl : slice st.src st.pos (st.pos + byteLen [c]) = .ok [c] :=
    (slice_ok_iff _ _ _ _).mpr ⟨P, B, hsrc, hpos.symm, rfl⟩
  obtain ⟨x, y, hmap, -, -⟩ := getMap_ok (st := st) hwf (show st.pos ≤ st.pos + byteLen [c] by omega)
  have hmap' : liftOps (getMap st.srcmap st.pos (st.pos + byteLen [c])) = .ok (x, y) := hmap
  have hsl' : liftOps (slice st.src st.pos (st.pos + byteLen [c])) = .ok [c] := by rw [hsl]; rfl
  have hpush : st.pushText st.pos (st.pos + byteLen [c]) =
      .ok { st with children := [Node.newText [c] (some (x, y))] } := by
    unfold IState.pushText trailingTextPush
    simp only [hsl', hmap', hkids, popLast, List.nil_append]
  have hlen : byteLen [c] ≠ 0 := by rw [byteLen_single]; have := Char.utf8Size_pos c; omega
  refine ⟨(x, y), ?_⟩
  unfold tokStep
  by_cases hlv : st.level < cfg.maxNesting
  · have hrun : splitRun (fun c => !Entity.textStop.contains c) [c] = ([c], []) :=
      splitRun_one c [] hlc (by simp)
    have hrule : runRule cfg skip tok fuel .text st false =
        .ok (some (byteLen [c]), { st with children := [Node.newText [c] (some (x, y))] }) := by
      simp only [runRule, ruleText, hw, hrun, if_neg hlen, hpush, liftR]
      rfl
    have hfirst := firstRule_only (fun id s => runRule cfg skip tok fuel id s false) cfg.chain st
      .text _ _ hc.text hrule
      (fun r hr hne => runRule_quiet cfg skip tok fuel r st _ _ hw (trigger_label hc hlc r hr hne))
    simp only [if_pos hlv, hfirst]
  · have hfc : firstChar st = .ok c := by simp only [firstChar, hw, liftR]
    have hb := byteLen_single c
    simp only [if_neg hlv, hfc, ← hb, hpush, liftR]

/-! ## `rule(state, silent = false, …)` of `full_link.rs` on `pre[c]…` -/

/-- the part of `parse_link` behind the label: the inline form `(<dest> "title")`
    (`Link.parseInlineTail` with `unescape_all` as decoder), else the reference lookup -/
def afterLabel (cfg : Cfg) (skip : IState → Except Panic IState) (fuel : Nat) (st1 : IState)
    (labelStart labelEnd : Nat) : Except Panic (Option LinkRes × IState) :=
  match Link.parseInlineTail (Entity.unescapeAll cfg.entity) st1.src (labelEnd + 1) st1.posMax with
  | .error e => .error (.rust (RPanic.ofLink e))
  | .ok (some il) =>
    .ok (some { labelStart := labelStart, labelEnd := labelEnd, href := il.href, title := il.title,
                endPos := il.endPos }, st1)
  | .ok none => parseLinkRef cfg skip fuel st1 labelStart labelEnd

theorem parseLink_eq (cfg : Cfg) (skip : IState → Except Panic IState) (fuel : Nat) (st : IState)
    (pos : Nat) (en : Bool) :
    parseLink cfg skip fuel st pos en =
      match parseLinkLabel skip fuel st pos en with
      | .error e => .error e
      | .ok (none, st1) => .ok (none, st1)
      | .ok (some labelEnd, st1) => afterLabel cfg skip fuel st1 (pos + 1) labelEnd := rfl

/-- **the link / image rule body (real mode) on `pre[c]` ++ tail** at the start of a fresh state
    whose window is the whole source, when the part of `parse_link` behind the label yields `href`,
    `title` and the end of the source: it pushes `mk href title [Text c]` and answers a length that
    reaches the end -/
theorem linkRule_bracket {cfg : Cfg} (hc : TextChain cfg.chain) (f : Nat) (st : IState)
    (pre : List Char) (c : Char) (T : List Char) (mk : List Nat → Option (List Char) → Val) (en : Bool)
    (hlc : LabelChar c) (hsrc : st.src = pre ++ '[' :: c :: ']' :: T) (hpos : st.pos = 0)
    (hmax : st.posMax = byteLen st.src) (hcache : st.cache = []) (hkids : st.children = [])
    (hlv : st.level < cfg.maxNesting) (hwf : WFMap st.srcmap)
    (href : Option (List Nat)) (title : Option (List Char))
    (hafter : ∀ st1 : IState, st1.src = st.src → st1.posMax = st.posMax →
      afterLabel cfg (fun s => skipToken cfg (f + 2) s) (f + 2) st1 (byteLen pre + 1)
          (byteLen pre + 1 + byteLen [c]) =
        .ok (some ⟨byteLen pre + 1, byteLen pre + 1 + byteLen [c], href, title, byteLen st.src⟩, st1)) :
    ∃ n st4 r r', linkRule cfg (fun s => skipToken cfg (f + 2) s) (fun s => tokLoop cfg (f + 2) s.posMax s)
        (f + 2) mk en (byteLen pre) st false = .ok (some n, st4) ∧ st4.pos + n = byteLen st.src ∧
      st4.posMax = st.posMax ∧
      st4.children = [⟨mk (href.getD []) title, some r, [Node.newText [c] (some r')]⟩] := by
  obtain ⟨src, srcmap, pos, posMax, level, linkLevel, cache, bt, ch, bo⟩ := st
  simp only at hsrc hpos hmax hcache hkids hlv hwf hafter
  subst hcache hkids hpos
  have hlen : byteLen src = byteLen pre + 1 + byteLen [c] + 1 + byteLen T := by
    rw [hsrc]; exact byteLen_label pre c T
  have hlabel := parseLinkLabel_char hc (f + 1) f ⟨src, srcmap, 0, posMax, level, linkLevel, [], bt, [], bo⟩
    pre c T en hlc hsrc hmax rfl hlv
  simp only at hlabel
  have haft := hafter ⟨src, srcmap, 0, posMax, level, linkLevel,
    [(byteLen pre + 1, byteLen pre + 1 + byteLen [c])], bt, [], bo⟩ rfl rfl
  -- the nested tokenizer on the label window
  obtain ⟨r', hstep⟩ := tokStep_char hc (fun s => skipToken cfg (f + 1) s)
    (fun s => tokLoop cfg (f + 1) s.posMax s) (f + 1)
    ⟨src, srcmap, byteLen pre + 1, byteLen pre + 1 + byteLen [c], level + 1, linkLevel + 1,
      [(byteLen pre + 1, byteLen pre + 1 + byteLen [c])], bt, [], []⟩
    (pre ++ ['[']) (']' :: T) c hlc (by simp [hsrc]) (by simp [byteLen_append, byteLen_bracket])
    (by simp [byteLen_append, byteLen_bracket]) hwf rfl
  simp only at hstep
  have htok : tokLoop cfg (f + 2) (byteLen pre + 1 + byteLen [c])
      ⟨src, srcmap, byteLen pre + 1, byteLen pre + 1 + byteLen [c], level + 1, linkLevel + 1,
        [(byteLen pre + 1, byteLen pre + 1 + byteLen [c])], bt, [], []⟩ =
      .ok ⟨src, srcmap, byteLen pre + 1 + byteLen [c], byteLen pre + 1 + byteLen [c], level + 1,
        linkLevel + 1, [(byteLen pre + 1, byteLen pre + 1 + byteLen [c])],
        bt, [Node.newText [c] (some r')], []⟩ := by
    have hcpos : 0 < byteLen [c] := by rw [byteLen_single]; exact Char.utf8Size_pos c
    have := tokLoop_step (cfg := cfg) (f := f + 1)
      (st := ⟨src, srcmap, byteLen pre + 1, byteLen pre + 1 + byteLen [c], level + 1, linkLevel + 1,
        [(byteLen pre + 1, byteLen pre + 1 + byteLen [c])], bt, [], []⟩)
      (by show byteLen pre + 1 < byteLen pre + 1 + byteLen [c]; omega) hstep rfl
    simp only at this
    rw [this]
    exact tokLoop_done
      (st := ⟨src, srcmap, byteLen pre + 1 + byteLen [c], byteLen pre + 1 + byteLen [c], level + 1,
        linkLevel + 1, [(byteLen pre + 1, byteLen pre + 1 + byteLen [c])],
        bt, [Node.newText [c] (some r')], []⟩) (by simp)
  obtain ⟨x, y, hmap, -, -⟩ := getMap_ok
    (st := ⟨src, srcmap, byteLen pre + 1 + byteLen [c], byteLen pre + 1 + byteLen [c], level + 1,
        linkLevel + 1, [(byteLen pre + 1, byteLen pre + 1 + byteLen [c])],
        bt, [Node.newText [c] (some r')], []⟩) hwf (show 0 ≤ byteLen src by omega)
  refine ⟨byteLen src - (byteLen pre + 1 + byteLen [c]),
    ⟨src, srcmap, byteLen pre + 1 + byteLen [c], posMax, level + 1 - 1, linkLevel + 1 - 1,
      [(byteLen pre + 1, byteLen pre + 1 + byteLen [c])], bt,
      [⟨mk (href.getD []) title, some (x, y), [Node.newText [c] (some r')]⟩], bo⟩, (x, y), r', ?_, ?_, rfl, rfl⟩
  · simp only [linkRule, Nat.zero_add, parseLink_eq, hlabel, haft, Bool.false_eq_true, if_false, htok,
      Nat.add_eq_zero_iff, Nat.succ_ne_self, and_false, hmap, List.nil_append, liftR]
    rw [if_neg (by omega)]
  · show byteLen pre + 1 + byteLen [c] + (byteLen src - (byteLen pre + 1 + byteLen [c])) = byteLen src
    omega

/-! ## the whole inline parser on `pre[c]` ++ tail -/

/-- **`md.inline.parse(pre ++ "[c]" ++ tail)`** for a rule `r0` of the chain that, on this window,
    is `rule(.., enable_nested, |pre|, mk)` while every other rule of the chain is quiet at the first
    character `c0` (any well-formed per-line table; the source neither starts nor ends with a
    blank): `[mk href title [Text c]]` whenever the part of `parse_link` behind the label yields
    `href` / `title` and consumes the source to its end -/
theorem parseInline_pre {cfg : Cfg} (hc : TextChain cfg.chain) (hmaxn : 0 < cfg.maxNesting)
    (pre : List Char) (c : Char) (T : List Char) (mk : List Nat → Option (List Char) → Val) (en : Bool)
    (r0 : RuleId) (c0 : Char) (W' : List Char) (hW : pre ++ '[' :: c :: ']' :: T = c0 :: W')
    (hc0 : isSpTab c0 = false) (hmem : r0 ∈ cfg.chain) (hq : ∀ r ∈ cfg.chain, r ≠ r0 → trigger r c0 = false)
    (hr0 : ∀ (skip tok : IState → Except Panic IState) (fuel : Nat) (st : IState),
      st.window = .ok (pre ++ '[' :: c :: ']' :: T) →
      runRule cfg skip tok fuel r0 st false = linkRule cfg skip tok fuel mk en (byteLen pre) st false)
    (hlc : LabelChar c)
    (hlast : ∀ x ∈ (pre ++ '[' :: c :: ']' :: T).getLast?, isSpTab x = false)
    (mapping : Srcmap) (hwf : WFMap mapping) (href : Option (List Nat)) (title : Option (List Char))
    (hafter : ∀ (skip : IState → Except Panic IState) (fuel : Nat) (st1 : IState),
      st1.src = pre ++ '[' :: c :: ']' :: T → st1.posMax = byteLen (pre ++ '[' :: c :: ']' :: T) →
      afterLabel cfg skip fuel st1 (byteLen pre + 1) (byteLen pre + 1 + byteLen [c]) =
        .ok (some ⟨byteLen pre + 1, byteLen pre + 1 + byteLen [c], href, title,
          byteLen (pre ++ '[' :: c :: ']' :: T)⟩, st1)) :
    ∃ r r', parseInline cfg (pre ++ '[' :: c :: ']' :: T) mapping =
      .ok [⟨mk (href.getD []) title, some r, [Node.newText [c] (some r')]⟩] := by
  generalize hS : pre ++ '[' :: c :: ']' :: T = S at *
  have hSne : S ≠ [] := by rw [hW]; simp
  have htrim : trimSrc S = (0, byteLen S) := by
    have := trimSrc_mid [] S [] (by simp) (by simp) hSne
      (by intro x hx; rw [hW] at hx; simp at hx; subst hx; exact hc0) hlast
    simpa [byteLen] using this
  have h3 : 3 ≤ byteLen S := by
    have := Char.utf8Size_pos c
    rw [← hS, byteLen_label, byteLen_single]; omega
  obtain ⟨f, hf⟩ : ∃ f, topFuel cfg S = f + 3 := by
    refine ⟨topFuel cfg S - 3, ?_⟩
    unfold topFuel
    have : 1 * 3 ≤ (byteLen S + 2) * (cfg.maxNesting + 2) := Nat.mul_le_mul (by omega) (by omega)
    omega
  let st0 : IState := IState.init S mapping
  have e0 : st0.posMax = byteLen S := by show (trimSrc _).2 = _; rw [htrim]
  have e0' : st0.pos = 0 := by show (trimSrc _).1 = _; rw [htrim]
  have hw0 : st0.window = .ok S :=
    window_of_src (P := []) (W := S) (B := []) (by simp [st0, IState.init]) e0'
      (by rw [e0]; simp [byteLen])
  obtain ⟨n, st4, r, r', hrule, hn, hpm, hkids⟩ := linkRule_bracket hc f st0 pre c T mk en hlc hS.symm e0' e0
    rfl rfl (by show 0 < _; exact hmaxn) hwf href title
    (fun st1 h1 h2 => by
      have := hafter (fun s => skipToken cfg (f + 2) s) (f + 2) st1 h1 (by rw [h2, e0])
      exact this)
  rw [← hr0 _ _ _ st0 hw0] at hrule
  have hw0' : st0.window = .ok (c0 :: W') := by rw [hw0, hW]
  have hfirst := firstRule_only
    (fun id s => runRule cfg (fun s => skipToken cfg (f + 2) s) (fun s => tokLoop cfg (f + 2) s.posMax s)
      (f + 2) id s false) cfg.chain st0 r0 _ _ hmem hrule
    (fun r hr hne => runRule_quiet cfg _ _ (f + 2) r st0 _ _ hw0' (hq r hr hne))
  have hstep : tokStep cfg (fun s => skipToken cfg (f + 2) s) (fun s => tokLoop cfg (f + 2) s.posMax s)
      (f + 2) st0 = .ok { st4 with pos := st4.pos + n } := by
    unfold tokStep
    rw [if_pos (show st0.level < cfg.maxNesting from hmaxn)]
    simp only [hfirst]
  refine ⟨r, r', ?_⟩
  unfold parseInline tokenize
  show (match tokLoop cfg (topFuel cfg S) st0.posMax st0 with
    | .error e => (Except.error e : Except Panic (List Node)) | .ok st => .ok st.children) = _
  rw [hf, tokLoop_step (by rw [e0', e0]; omega) hstep (by show st4.posMax = _; exact hpm),
    tokLoop_done (by show ¬ st4.pos + n < st4.posMax; rw [hpm, e0]; simp only [st0, IState.init] at hn; omega)]
  simp only [hkids]

/-- **`md.inline.parse("[c]" ++ tail)`**: `[Link{href, title}[Text c]]` -/
theorem parseInline_bracket {cfg : Cfg} (hc : LinkChain cfg.chain) (hmaxn : 0 < cfg.maxNesting)
    (c : Char) (T : List Char) (hlc : LabelChar c)
    (hlast : ∀ x ∈ ('[' :: c :: ']' :: T).getLast?, isSpTab x = false)
    (mapping : Srcmap) (hwf : WFMap mapping) (href : Option (List Nat)) (title : Option (List Char))
    (hafter : ∀ (skip : IState → Except Panic IState) (fuel : Nat) (st1 : IState),
      st1.src = '[' :: c :: ']' :: T → st1.posMax = byteLen ('[' :: c :: ']' :: T) →
      afterLabel cfg skip fuel st1 1 (1 + byteLen [c]) =
        .ok (some ⟨1, 1 + byteLen [c], href, title, byteLen ('[' :: c :: ']' :: T)⟩, st1)) :
    ∃ r r', parseInline cfg ('[' :: c :: ']' :: T) mapping =
      .ok [⟨.link (href.getD []) title, some r, [Node.newText [c] (some r')]⟩] := by
  have := parseInline_pre hc.toText hmaxn [] c T Val.link false .link '[' (c :: ']' :: T) rfl (by decide)
    hc.link (trigger_bracket hc)
    (fun skip tok fuel st hw => by
      have hw' : st.window = .ok ('[' :: c :: ']' :: T) := hw
      simp only [runRule, ruleLink, hw', liftR, ne_eq, not_true_eq_false, if_false]
      rfl)
    hlc hlast mapping hwf href title
    (fun skip fuel st1 h1 h2 => by
      have := hafter skip fuel st1 h1 h2
      simpa [byteLen] using this)
  simpa using this

/-- **`md.inline.parse("![c]" ++ tail)`**: `[Image{href, title}[Text c]]` -/
theorem parseInline_image {cfg : Cfg} (hc : ImageChain cfg.chain) (hmaxn : 0 < cfg.maxNesting)
    (c : Char) (T : List Char) (hlc : LabelChar c)
    (hlast : ∀ x ∈ ('!' :: '[' :: c :: ']' :: T).getLast?, isSpTab x = false)
    (mapping : Srcmap) (hwf : WFMap mapping) (href : Option (List Nat)) (title : Option (List Char))
    (hafter : ∀ (skip : IState → Except Panic IState) (fuel : Nat) (st1 : IState),
      st1.src = '!' :: '[' :: c :: ']' :: T → st1.posMax = byteLen ('!' :: '[' :: c :: ']' :: T) →
      afterLabel cfg skip fuel st1 2 (2 + byteLen [c]) =
        .ok (some ⟨2, 2 + byteLen [c], href, title, byteLen ('!' :: '[' :: c :: ']' :: T)⟩, st1)) :
    ∃ r r', parseInline cfg ('!' :: '[' :: c :: ']' :: T) mapping =
      .ok [⟨.image (href.getD []) title, some r, [Node.newText [c] (some r')]⟩] := by
  have hb : byteLen ['!'] = 1 := by decide
  have := parseInline_pre hc.toText hmaxn ['!'] c T Val.image true .image '!' ('[' :: c :: ']' :: T) rfl
    (by decide) hc.image (trigger_bang hc)
    (fun skip tok fuel st hw => by
      have hw' : st.window = .ok ('!' :: '[' :: c :: ']' :: T) := hw
      simp only [runRule, ruleImage, hw', liftR, hb])
    hlc hlast mapping hwf href title
    (fun skip fuel st1 h1 h2 => by
      have := hafter skip fuel st1 h1 h2
      rw [hb]
      simpa using this)
  simpa using this

/-! ## what comes behind the label -/

/-- the inline form: `Link.parseInlineTail` (positions in `Link.byteLen`) finds `(…)` reaching to
    the end of the source -/
theorem afterLabel_inline (cfg : Cfg) (skip : IState → Except Panic IState) (fuel : Nat) (st1 : IState)
    (pre : List Char) (c : Char) (T : List Char) (href : Option (List Nat)) (title : Option (List Char))
    (hsrc : st1.src = pre ++ '[' :: c :: ']' :: T) (hpm : st1.posMax = byteLen (pre ++ '[' :: c :: ']' :: T))
    (htail : Link.parseInlineTail (Entity.unescapeAll cfg.entity) ((pre ++ ['[', c, ']']) ++ T)
      (Link.byteLen (pre ++ ['[', c, ']'])) (Link.byteLen ((pre ++ ['[', c, ']']) ++ T)) =
        .ok (some ⟨href, title, Link.byteLen ((pre ++ ['[', c, ']']) ++ T)⟩)) :
    afterLabel cfg skip fuel st1 (byteLen pre + 1) (byteLen pre + 1 + byteLen [c]) =
      .ok (some ⟨byteLen pre + 1, byteLen pre + 1 + byteLen [c], href, title,
        byteLen (pre ++ '[' :: c :: ']' :: T)⟩, st1) := by
  have h1 : Link.byteLen (pre ++ ['[', c, ']']) = byteLen pre + 1 + byteLen [c] + 1 := by
    rw [linkByteLen_eq]; have := byteLen_label pre c []; simp only [byteLen] at this ⊢; omega
  have hs : (pre ++ ['[', c, ']']) ++ T = pre ++ '[' :: c :: ']' :: T := by simp
  have h2 : Link.byteLen ((pre ++ ['[', c, ']']) ++ T) = byteLen (pre ++ '[' :: c :: ']' :: T) := by
    rw [linkByteLen_eq, hs]
  rw [h1, h2, hs] at htail
  unfold afterLabel
  rw [hsrc, hpm]
  simp only [htail]

/-- the reference form on the source `[c]` alone: no `(`, no second label; the label `c` is looked
    up in the reference map -/
theorem afterLabel_ref (cfg : Cfg) (skip : IState → Except Panic IState) (fuel : Nat) (st1 : IState)
    (c : Char) (refs : Refs.RefMap) (e : Refs.Entry)
    (hsrc : st1.src = ['[', c, ']']) (hpm : st1.posMax = byteLen ['[', c, ']'])
    (hrefs : cfg.refs = some refs) (hlook : Refs.lookup cfg.normRef refs [c.toNat] = some e) :
    afterLabel cfg skip fuel st1 1 (1 + byteLen [c]) =
      .ok (some ⟨1, 1 + byteLen [c], some e.dest, e.title.map (fun t => t.map Char.ofNat),
        byteLen ['[', c, ']']⟩, st1) := by
  have hl := byteLen_label [] c []
  simp only [show byteLen ([] : List Char) = 0 from rfl, Nat.add_zero, Nat.zero_add, List.nil_append] at hl
  have h1 : Link.byteLen ['[', c, ']'] = 1 + byteLen [c] + 1 := by rw [linkByteLen_eq, hl]
  have hs : Link.slice ['[', c, ']'] (1 + byteLen [c] + 1) (1 + byteLen [c] + 1) = .ok [] :=
    (Link.slice_ok_iff _ _ _ _).mpr ⟨['[', c, ']'], [], by simp, h1, by simp [Link.byteLen]⟩
  have hs2 : slice ['[', c, ']'] (1 + byteLen [c] + 1) (1 + byteLen [c] + 1) = .ok [] :=
    (slice_ok_iff _ _ _ _).mpr ⟨['[', c, ']'], [], by simp, hl, by simp [byteLen]⟩
  have hs3 : slice ['[', c, ']'] 1 (1 + byteLen [c]) = .ok [c] :=
    (slice_ok_iff _ _ _ _).mpr ⟨['['], [']'], by simp, byteLen_bracket, rfl⟩
  unfold afterLabel
  rw [hsrc, hpm, hl]
  simp only [Link.parseInlineTail, hs, parseLinkRef, hsrc, hpm, hl, hs2, liftOps, liftR, hrefs, hs3,
    List.map_cons, List.map_nil, hlook]

end MdIt.Inline.C12X
