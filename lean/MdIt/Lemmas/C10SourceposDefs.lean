/-
  C10 with the sourcepos plugin: the one definition shared by the block simulation
  (`Lemmas/C10SourceposSim*.lean`) and the position lemmas (`Lemmas/C10SourceposPos.lean`).
-/
namespace MdIt.C10SP

/-- number of line feeds among the characters of `src` that START at a byte position `< n`
    (byte positions count UTF-8 bytes, `Char.utf8Size`).  Rewriting LF ↦ CR LF moves the byte at
    offset `a` of a CR-free text to offset `a + lfBelow src a`. -/
def lfBelow : List Char → Nat → Nat
  | [], _ => 0
  | c :: r, n => if n = 0 then 0 else (if c = '\n' then 1 else 0) + lfBelow r (n - c.utf8Size)

@[simp] theorem lfBelow_zero (src : List Char) : lfBelow src 0 = 0 := by
  cases src <;> simp [lfBelow]

@[simp] theorem lfBelow_nil (n : Nat) : lfBelow [] n = 0 := rfl

/-- the exact offset relation between a CR-free text and its CR LF rewriting -/
def crlfRel (src : List Char) (a b : Nat) : Prop := b = a + lfBelow src a

end MdIt.C10SP
