/-
  C06, list half — the simulation between the block-parser run on a tab-free document `D` and the run
  nested in a list item on the document `D'` in which every line of `D` (blank ones included) carries a
  prefix of `w` one-byte, tab-free characters (`indentLines pre L`; for the list item: the marker and one
  space on line 0, `w` spaces on the other lines).

  This is the second table relation announced in the OPEN block at the end of `Props/C06.lean`.  The
  shape follows the block-quote development there (`Sim`, the `_sim` lemmas, `tokenize_sim`); what is
  different:

    * entries: `shiftE w d i o` — line `i` starts `w i` bytes later, text and end `w i + w` bytes later,
      and `indent_nonspace` is `d` columns larger; the block indent is `d` columns larger too
      (`blk_indent' = blk_indent + d`), so the `blk_indent`-relative view of a line is the same;
    * `d` is not constant along the run: the list item leaves the table alone (`d = w` under it), the
      block-quote rule rewrites the entries of its lines in absolute columns and sets `blk_indent := 0`
      (`d = 0` inside a quote of `D`, while the lines outside the quote keep `d = w`).  So the indent
      part of the relation holds on a WINDOW `[lo, line_max)` of the table only (`Win`), the geometric
      part (`line_start`, `first_nonspace`, `line_end`) on all lines (`QRel.geo`); rules read indents
      inside the window only;
    * `list_indent`: `none` on the `D` side against `some 0` at the top of the item (`LIRel`); the list
      rule's "special case" test answers alike because entries in a window with `d > 0` have a
      non-negative indent (second half of `Win`);
    * `level' = level + 2` (the list rule raises the level once for the list and once per item).
-/
import MdIt.Props.C06
set_option linter.unusedSimpArgs false
set_option linter.unusedVariables false

namespace MdIt.Block.Li
open MdIt.Lines (LineOffset NoTerm AllBlank lead mkOff)

/-! ### the prefixed lines, the byte map -/

/-- width, per-line prefixes, lines of `D` -/
structure Ctx where
  w : Nat
  pre : Nat → List Char
  L : DLines

/-- every prefix consists of `w` one-byte characters, none a tab -/
structure PreOk (w : Nat) (pre : Nat → List Char) : Prop where
  len : ∀ i, (pre i).length = w
  bytes : ∀ i, Lines.byteLen (pre i) = w
  tabfree : ∀ i, '\t' ∉ pre i

/-- `pre i` in front of line `i` -/
def indentLines (pre : Nat → List Char) (L : DLines) : DLines := L.mapIdx fun i lt => (pre i ++ lt.1, lt.2)

@[simp] theorem indentLines_length (pre : Nat → List Char) (L : DLines) : (indentLines pre L).length = L.length := by
  simp [indentLines]

theorem indentLines_getElem (pre : Nat → List Char) (L : DLines) (i : Nat) (h : i < L.length) :
    (indentLines pre L)[i]'(by rw [indentLines_length]; exact h) = (pre i ++ L[i].1, L[i].2) := by
  simp [indentLines]

theorem startOf_indent {w : Nat} {pre : Nat → List Char} (hp : PreOk w pre) (L : DLines) :
    ∀ i, i ≤ L.length → startOf (indentLines pre L) i = startOf L i + w * i := by
  intro i
  induction i with
  | zero => intro _; simp [startOf_zero]
  | succ i ih =>
    intro h
    have hi : i < L.length := by omega
    rw [startOf_succ _ _ (by rw [indentLines_length]; exact hi), startOf_succ _ _ hi, ih (by omega),
      indentLines_getElem pre L i hi]
    simp only [Lines.byteLen_append, hp.bytes]
    rw [Nat.mul_succ]
    omega

/-- where byte `p` of `D` lands in the prefixed document: `w (i + 1)` further, `i` the line it belongs to -/
def tauGo (w : Nat) : DLines → Nat → Nat → Nat
  | [], _, p => p
  | lt :: r, start, p =>
    if p ≤ start + Lines.byteLen lt.1 then p + w
    else w + tauGo w r (start + Lines.byteLen lt.1 + Lines.byteLen lt.2) p

def tau (w : Nat) (L : DLines) (p : Nat) : Nat := tauGo w L 0 p

theorem tauGo_in_line (w : Nat) : ∀ (L : DLines) (start : Nat) (i : Nat) (h : i < L.length) (x : Nat),
    (∀ j (hj : j + 1 < L.length), 1 ≤ Lines.byteLen (L[j]'(by omega)).2) → x ≤ Lines.byteLen L[i].1 →
    tauGo w L start (start + startOf L i + x) = start + startOf L i + w * i + w + x
  | [], _, i, h, _, _, _ => by simp at h
  | lt :: r, start, 0, _, x, _, hx => by
    simp only [tauGo, startOf_zero, List.getElem_cons_zero] at hx ⊢
    rw [if_pos (by omega)]
    omega
  | lt :: r, start, i + 1, h, x, ht, hx => by
    have hi : i < r.length := by simpa using h
    have h1 := ht 0 (by simp; omega)
    simp only [List.getElem_cons_zero] at h1
    have hs : startOf (lt :: r) (i + 1) = Lines.byteLen lt.1 + Lines.byteLen lt.2 + startOf r i := by
      simp [startOf, Lines.flat, Nat.add_assoc]
    simp only [tauGo, hs, List.getElem_cons_succ] at hx ⊢
    rw [if_neg (by omega)]
    have := tauGo_in_line w r (start + Lines.byteLen lt.1 + Lines.byteLen lt.2) i hi x
      (fun j hj => by have := ht (j + 1) (by simp; omega); simpa using this) hx
    rw [show start + (Lines.byteLen lt.1 + Lines.byteLen lt.2 + startOf r i) + x
        = start + Lines.byteLen lt.1 + Lines.byteLen lt.2 + startOf r i + x by omega, this, Nat.mul_succ]
    omega

theorem tau_in_line (w : Nat) {L : DLines} (hL : LinesOk L) {i : Nat} (h : i < L.length) {x : Nat}
    (hx : x ≤ Lines.byteLen L[i].1) : tau w L (startOf L i + x) = startOf L i + w * i + w + x := by
  have := tauGo_in_line w L 0 i h x hL.term hx
  simpa [tau] using this

theorem tauGo_ge (w : Nat) : ∀ (L : DLines) (start p : Nat), p ≤ tauGo w L start p
  | [], _, _ => Nat.le_refl _
  | lt :: r, start, p => by
    simp only [tauGo]
    split
    · omega
    · have := tauGo_ge w r (start + Lines.byteLen lt.1 + Lines.byteLen lt.2) p; omega

theorem tauGo_mono (w : Nat) : ∀ (L : DLines) (start p q : Nat), p ≤ q → tauGo w L start p ≤ tauGo w L start q
  | [], _, _, _, h => h
  | lt :: r, start, p, q, h => by
    simp only [tauGo]
    split
    · split
      · omega
      · have := tauGo_ge w r (start + Lines.byteLen lt.1 + Lines.byteLen lt.2) q; omega
    · split
      · omega
      · have := tauGo_mono w r (start + Lines.byteLen lt.1 + Lines.byteLen lt.2) p q h; omega

theorem tau_mono (w : Nat) (L : DLines) {p q : Nat} (h : p ≤ q) : tau w L p ≤ tau w L q := tauGo_mono w L 0 p q h

/-! ### entries and tables -/

/-- the entry of line `i` in the run on the prefixed document, from the entry `o` of the run on `D` -/
def shiftE (w : Nat) (d : Int) (i : Nat) (o : LineOffset) : LineOffset :=
  ⟨o.lineStart + w * i, o.lineEnd + w * i + w, o.firstNonspace + w * i + w, o.indentNonspace + d⟩

@[simp] theorem shiftE_indent (w : Nat) (d : Int) (i : Nat) (o : LineOffset) :
    (shiftE w d i o).indentNonspace = o.indentNonspace + d := rfl

/-- the two tables: the geometry of every line -/
structure QRel (w : Nat) (L : DLines) (offs offs' : List LineOffset) : Prop where
  len : offs.length = L.length
  ok : ∀ (i : Nat) (o : LineOffset), offs[i]? = some o → EntryOk L i o
  geo : ∀ i : Nat, ∃ di : Int, offs'[i]? = (offs[i]?).map (shiftE w di i)

theorem QRel.len' {w : Nat} {L : DLines} {offs offs' : List LineOffset} (q : QRel w L offs offs') :
    offs'.length = L.length := by
  obtain ⟨d1, h1⟩ := q.geo offs.length
  obtain ⟨d2, h2⟩ := q.geo (offs.length - 1)
  rw [← q.len]
  by_cases h : offs'.length ≤ offs.length
  · by_cases h0 : offs.length = 0
    · simp [h0] at h ⊢; exact h
    · have : offs.length - 1 < offs.length := by omega
      rw [List.getElem?_eq_getElem this] at h2
      simp at h2
      have := (List.getElem?_eq_some_iff.mp h2).1
      omega
  · have : offs.length < offs'.length := by omega
    rw [List.getElem?_eq_getElem this] at h1
    simp at h1

/-- the window: on lines `a ≤ i < b` the indent of the primed entry is `d` columns larger; if `d > 0`
    those entries have a non-negative indent -/
def Win (w d a b : Nat) (offs offs' : List LineOffset) : Prop :=
  ∀ i, a ≤ i → i < b → offs'[i]? = (offs[i]?).map (shiftE w (d : Int) i) ∧
    (0 < d → ∀ o, offs[i]? = some o → 0 ≤ o.indentNonspace)

theorem Win.mono {w d a b a' b' : Nat} {offs offs' : List LineOffset} (h : Win w d a b offs offs')
    (ha : a ≤ a') (hb : b' ≤ b) : Win w d a' b' offs offs' :=
  fun i h1 h2 => h i (by omega) (by omega)

/-- the two states share a table relation: sources, tables, block indent -/
structure Tbl (C : Ctx) (lo d : Nat) (s s' : BState) : Prop where
  pre : PreOk C.w C.pre
  lines : LinesOk C.L
  src : s.src = Lines.flat C.L
  src' : s'.src = Lines.flat (indentLines C.pre C.L)
  q : QRel C.w C.L s.offs s'.offs
  win : Win C.w d lo s.lineMax s.offs s'.offs
  blk : s'.blkIndent = s.blkIndent + d
  small : s.blkIndent ≤ Lines.byteLen (Lines.flat C.L) + 1
  dsmall : d ≤ C.w
  wsize : Lines.byteLen (Lines.flat C.L) + C.w + 8 < 2147483648

section accessors
variable {C : Ctx} {lo d : Nat} {te : Bool} {s s' : BState}

theorem Tbl.off (T : Tbl C lo d s s') (n : Nat) (h1 : lo ≤ n) (h2 : n < s.lineMax) :
    s'.off n = Except.map (shiftE C.w (d : Int) n) (s.off n) := by
  simp only [BState.off, (T.win n h1 h2).1]
  cases s.offs[n]? <;> rfl

theorem Tbl.lineIndent (T : Tbl C lo d s s') (n : Nat) (h1 : lo ≤ n) (h2 : n < s.lineMax) :
    s'.lineIndent n = s.lineIndent n := by
  simp only [BState.lineIndent, Lines.lineIndent, (T.win n h1 h2).1, T.blk]
  cases s.offs[n]? with
  | none => rfl
  | some o =>
    simp only [Option.map_some, shiftE_indent, liftL]
    congr 1
    push_cast
    omega

theorem Tbl.isEmpty (T : Tbl C lo d s s') (n : Nat) : s'.isEmpty n = s.isEmpty n := by
  obtain ⟨di, h⟩ := T.q.geo n
  simp only [BState.isEmpty, Lines.isEmpty, h]
  cases s.offs[n]? with
  | none => rfl
  | some o => simp [shiftE]

/-- the text of line `i` behind the cut, read from either source -/
theorem entry_text {w : Nat} {pre : Nat → List Char} {L : DLines} (hp : PreOk w pre) {i : Nat} {o : LineOffset}
    (h : EntryOk L i o) (di : Int) :
    ∃ b, Lines.slice (Lines.flat L) o.firstNonspace o.lineEnd = .ok b ∧
      Lines.slice (Lines.flat (indentLines pre L)) (shiftE w di i o).firstNonspace (shiftE w di i o).lineEnd = .ok b := by
  obtain ⟨l, t, a, b, hi, hl, hs, hf, he, _⟩ := h
  have hlt : i < L.length := (List.getElem?_eq_some_iff.mp hi).1
  have hLi : L[i] = (l, t) := (List.getElem?_eq_some_iff.mp hi).2
  refine ⟨b, ?_, ?_⟩
  · rw [hf, he]
    exact slice_in_line L i hlt a b [] (by rw [hLi, hl]; simp)
  · have hlt' : i < (indentLines pre L).length := by rw [indentLines_length]; exact hlt
    have := slice_in_line (indentLines pre L) i hlt' (pre i ++ a) b []
      (by rw [indentLines_getElem pre L i hlt]; simp [hLi, hl])
    rw [startOf_indent hp L i (by omega), Lines.byteLen_append, hp.bytes] at this
    simp only [shiftE, hf, he]
    rw [← this]
    congr 1 <;> omega

theorem Tbl.getLine (T : Tbl C lo d s s') (n : Nat) : s'.getLine n = s.getLine n := by
  obtain ⟨di, hg⟩ := T.q.geo n
  simp only [BState.getLine, Lines.getLine, hg, T.src, T.src']
  cases h : s.offs[n]? with
  | none => rfl
  | some o =>
    obtain ⟨b, h1, h2⟩ := entry_text T.pre (T.q.ok n o h) di
    simp [h1, h2]

/-- a byte of line `i` (between the entry's `line_start` and `line_end`) moves by `w i + w` -/
theorem tau_of_entry (w : Nat) {L : DLines} (hL : LinesOk L) {i : Nat} {o : LineOffset} (h : EntryOk L i o) {p : Nat}
    (h1 : o.lineStart ≤ p) (h2 : p ≤ o.lineEnd) : tau w L p = p + w * i + w := by
  obtain ⟨l, t, a, b, hi, hl, hs, hf, he, _⟩ := h
  have hlt : i < L.length := (List.getElem?_eq_some_iff.mp hi).1
  have hLi : L[i] = (l, t) := (List.getElem?_eq_some_iff.mp hi).2
  have hx : p - startOf L i ≤ Lines.byteLen L[i].1 := by
    rw [hLi, hl]; simp; omega
  have := tau_in_line w hL hlt hx
  rw [show startOf L i + (p - startOf L i) = p by omega] at this
  rw [this]; omega

/-- positions pair of a range -/
def tau2 (w : Nat) (L : DLines) (r : Nat × Nat) : Nat × Nat := (tau w L r.1, tau w L r.2)

theorem Tbl.getMap (T : Tbl C lo d s s') (a b : Nat) :
    s'.getMap a b = Except.map (tau2 C.w C.L) (s.getMap a b) := by
  obtain ⟨da, hga⟩ := T.q.geo a
  obtain ⟨db, hgb⟩ := T.q.geo b
  simp only [BState.getMap, Lines.getMap, hga, hgb]
  split
  · rfl
  · cases ha : s.offs[a]? with
    | none => rfl
    | some oa =>
      cases hb : s.offs[b]? with
      | none => rfl
      | some ob =>
        have ea := T.q.ok a oa ha
        have eb := T.q.ok b ob hb
        have ba := entry_bounds ea
        have bb := entry_bounds eb
        simp only [Option.map_some, liftL, Except.map, tau2, shiftE]
        rw [tau_of_entry C.w T.lines ea ba.1 ba.2, tau_of_entry C.w T.lines eb (by omega) (Nat.le_refl _)]

theorem Tbl.nonneg (T : Tbl C lo d s s') (hd : 0 < d) {n : Nat} (h1 : lo ≤ n) (h2 : n < s.lineMax) {o : LineOffset}
    (ho : s.offs[n]? = some o) : 0 ≤ o.indentNonspace := (T.win n h1 h2).2 hd o ho
end accessors

/-- the mapping `get_lines` returns, relocated -/
def mapTau (w : Nat) (L : DLines) (m : List (Nat × Nat)) : List (Nat × Nat) := m.map fun kv => (kv.1, tau w L kv.2)

section getlines
variable {C : Ctx} {lo d : Nat} {te : Bool} {s s' : BState}

theorem getLinesGo_sim (T : Tbl C lo d s s') (end_ indent : Nat) (keep : Bool)
    (hend : end_ ≤ s.lineMax) (hi : indent + d < 2147483648) :
    ∀ (n line : Nat) (result : List Char) (m : List (Nat × Nat)), end_ - line = n → lo ≤ line →
      Lines.getLinesGo s'.src s'.offs end_ (indent + d) keep line result (mapTau C.w C.L m)
        = Except.map (fun r => (r.1, mapTau C.w C.L r.2))
            (Lines.getLinesGo s.src s.offs end_ indent keep line result m) := by
  intro n
  induction n with
  | zero =>
    intro line result m hn _
    rw [Lines.getLinesGo, Lines.getLinesGo, if_neg (by omega), if_neg (by omega)]
    rfl
  | succ n ih =>
    intro line result m hn hlo
    rw [Lines.getLinesGo, Lines.getLinesGo, if_pos (by omega), if_pos (by omega), (T.win line hlo (by omega)).1]
    cases ho : s.offs[line]? with
    | none => rfl
    | some o =>
      have eo := T.q.ok line o ho
      obtain ⟨l, t, a, b, hLi, hl, hs, hf, he, hind⟩ := eo
      have hlt : line < C.L.length := (List.getElem?_eq_some_iff.mp hLi).1
      have hLe : C.L[line] = (l, t) := (List.getElem?_eq_some_iff.mp hLi).2
      have hlt' : line < (indentLines C.pre C.L).length := by rw [indentLines_length]; exact hlt
      have hLe' : (indentLines C.pre C.L)[line].1 = C.pre line ++ (a ++ b) := by
        rw [indentLines_getElem C.pre C.L line hlt]; simp [hLe, hl]
      have htab : '\t' ∉ a := by
        intro hc
        exact T.lines.tabfree (l, t) (by rw [← hLe]; exact List.getElem_mem hlt) (by rw [hl]; simp [hc])
      have hst' := startOf_indent T.pre C.L line (by omega)
      have hpb := T.pre.bytes line
      -- the blanks
      have hws : Lines.slice (Lines.flat C.L) o.lineStart o.firstNonspace = .ok a := by
        have := slice_in_line C.L line hlt [] a b (by rw [hLe, hl]; simp)
        simpa [hs, hf] using this
      have hws' : Lines.slice (Lines.flat (indentLines C.pre C.L)) (shiftE C.w (d : Int) line o).lineStart
          (shiftE C.w (d : Int) line o).firstNonspace = .ok (C.pre line ++ a) := by
        have := slice_in_line (indentLines C.pre C.L) line hlt' [] (C.pre line ++ a) b (by rw [hLe']; simp)
        rw [hst', Lines.byteLen_append, hpb] at this
        simp only [Lines.byteLen_nil, Nat.add_zero] at this
        simp only [shiftE, hs, hf]
        rw [← this]; congr 1; omega
      -- the cut
      have hcast : Lines.usizeAsI32 (indent + d) = Lines.usizeAsI32 indent + (d : Int) := by
        rw [usizeAsI32_small hi, usizeAsI32_small (by omega)]; push_cast; rfl
      have hreq : (shiftE C.w (d : Int) line o).indentNonspace - Lines.usizeAsI32 (indent + d)
          = o.indentNonspace - Lines.usizeAsI32 indent := by
        rw [hcast, shiftE_indent]; omega
      have hi0 : 0 ≤ Lines.usizeAsI32 indent := by rw [usizeAsI32_small (by omega)]; omega
      have hk : o.indentNonspace - Lines.usizeAsI32 indent ≤ (a.length : Int) := by omega
      obtain ⟨j, hj⟩ : ∃ j, j = a.length - (o.indentNonspace - Lines.usizeAsI32 indent).toNat := ⟨_, rfl⟩
      have hc := calcRight_tabfree [] a htab _ hk
      have hc' := calcRight_tabfree (C.pre line) a htab _ hk
      simp only [List.nil_append, Lines.byteLen_nil, Nat.zero_add, ← hj] at hc
      simp only [← hj, hpb] at hc'
      have hsplit : a = a.take j ++ a.drop j := (List.take_append_drop _ _).symm
      -- the text copied
      have htx : Lines.slice (Lines.flat C.L) (o.lineStart + Lines.byteLen (a.take j)) o.lineEnd
          = .ok (a.drop j ++ b) := by
        have := slice_in_line C.L line hlt (a.take j) (a.drop j ++ b) []
          (by rw [hLe, hl]; simp [← List.append_assoc, ← hsplit])
        rw [← this, hs, he]
        have := congrArg Lines.byteLen hsplit
        simp only [Lines.byteLen_append] at this ⊢
        congr 1; omega
      have htx' : Lines.slice (Lines.flat (indentLines C.pre C.L))
          ((shiftE C.w (d : Int) line o).lineStart + (C.w + Lines.byteLen (a.take j))) (shiftE C.w (d : Int) line o).lineEnd
          = .ok (a.drop j ++ b) := by
        have := slice_in_line (indentLines C.pre C.L) line hlt' (C.pre line ++ a.take j) (a.drop j ++ b) []
          (by rw [hLe']; simp only [List.append_nil, List.append_assoc]; rw [← List.append_assoc (a.take j), ← hsplit])
        rw [← this, hst', Lines.byteLen_append, hpb]
        simp only [shiftE, hs, he]
        have := congrArg Lines.byteLen hsplit
        simp only [Lines.byteLen_append] at this ⊢
        congr 1 <;> omega
      -- the mapping entry
      have hsig : tau C.w C.L (o.lineStart + Lines.byteLen (a.take j))
          = (shiftE C.w (d : Int) line o).lineStart + (C.w + Lines.byteLen (a.take j)) := by
        have hb : Lines.byteLen (a.take j) ≤ Lines.byteLen a := by
          have := congrArg Lines.byteLen hsplit
          simp only [Lines.byteLen_append] at this; omega
        rw [tau_of_entry C.w T.lines ⟨l, t, a, b, hLi, hl, hs, hf, he, hind⟩ (by omega) (by omega)]
        simp only [shiftE]; omega
      simp only [Option.map_some, T.src, T.src', hws, hws', hreq] at hc' ⊢
      simp only [hc, hc', List.replicate_zero, List.append_nil, show ¬ (0 > 0) by omega, if_false, htx, htx']
      have := ih (line + 1)
        (if (decide (line + 1 < end_) || keep) = true then result ++ (a.drop j ++ b) ++ ['\n']
          else result ++ (a.drop j ++ b))
        (m ++ [(Lines.byteLen result, o.lineStart + Lines.byteLen (a.take j))]) (by omega) (by omega)
      simp only [mapTau, List.map_append, List.map_cons, List.map_nil, hsig, T.src, T.src'] at this ⊢
      exact this

theorem Tbl.getLines (T : Tbl C lo d s s') (b e indent : Nat) (keep : Bool) (hb : lo ≤ b) (he : e ≤ s.lineMax)
    (hi : indent + d < 2147483648) :
    s'.getLines b e (indent + d) keep
      = Except.map (fun r => (r.1, mapTau C.w C.L r.2)) (s.getLines b e indent keep) := by
  simp only [BState.getLines, Lines.getLines]
  split
  · rfl
  · have := getLinesGo_sim T e indent keep he hi (e - b) b [] [] rfl hb
    simp only [mapTau, List.map_nil] at this
    rw [this]
    cases Lines.getLinesGo s.src s.offs e indent keep b [] [] with
    | error er => cases er <;> rfl
    | ok v => rfl
end getlines

/-! ### the simulation relation -/

/-- the kinds of the two current nodes: equal — or, at the top of the two runs, `Root` on the `D` side and
    the list item on the other (no rule distinguishes the two) -/
def KindRel (k k' : Kind) : Prop := k' = k ∨ (k = .root ∧ k' = .listItem)

theorem KindRel.isList {k k' : Kind} (h : KindRel k k') : isListKind k' = isListKind k := by
  rcases h with h | ⟨h1, h2⟩
  · rw [h]
  · rw [h1, h2]; rfl

theorem KindRel.eq_of_ne_root {k k' : Kind} (h : KindRel k k') (hk : k ≠ .root) : k' = k := by
  rcases h with h | ⟨h1, _⟩
  · exact h
  · exact absurd h1 hk

/-- `list_indent` on the two sides: `d` apart — or, where the block indent of `D`'s run is 0 (top level,
    or directly inside a block quote), anything against anything when `d = 0` and `None` against
    `Some(0)` (the top of the item) -/
def LIRel (d blk : Nat) (li li' : Option Nat) : Prop :=
  li' = li.map (· + d) ∨ (blk = 0 ∧ d = 0 ∧ li'.isSome = true) ∨ (blk = 0 ∧ li = none ∧ li' = some 0)

/-- `tight` on the two sides: equal, if `te` (the flag is write-only garbage for the rules — the
    tokenizer overwrites it after every block, the list item reads what its own nested run left — so the
    relation is allowed to start without it: the list item starts its run with `tight := true`, the run on
    `D` starts with `false`) -/
def TRel (te : Bool) (a b : Bool) : Prop := te = true → b = a

/-- the run on `D` (state `s`) and the run nested in the list item on the prefixed document (state `s'`) -/
structure Sim (C : Ctx) (lo d : Nat) (te : Bool) (s s' : BState) : Prop where
  tbl : Tbl C lo d s s'
  line : s'.line = s.line
  lineMax : s'.lineMax = s.lineMax
  tight : TRel te s.tight s'.tight
  listIndent : LIRel d s.blkIndent s.listIndent s'.listIndent
  level : s'.level = s.level + 2
  nodeKind : KindRel s.nodeKind s'.nodeKind
  children : s'.children = relocNodes (tau C.w C.L) s.children
  refs : s'.refs = s.refs

section simbasics
variable {C : Ctx} {lo d : Nat} {te : Bool} {s s' : BState}

theorem Tbl.indent_ok (T : Tbl C lo d s s') (k : Nat) (hk : k ≤ 4) : k + s.blkIndent + d < 2147483648 := by
  have := T.small
  have := T.wsize
  have := T.dsmall
  omega

/-- a table relation does not depend on the other fields -/
theorem Tbl.of_eq {t t' : BState} (T : Tbl C lo d s s') (h1 : t.src = s.src) (h2 : t.offs = s.offs)
    (h3 : t.blkIndent = s.blkIndent) (h4 : t.lineMax = s.lineMax) (h1' : t'.src = s'.src) (h2' : t'.offs = s'.offs)
    (h3' : t'.blkIndent = s'.blkIndent) : Tbl C lo d t t' :=
  ⟨T.pre, T.lines, by rw [h1, T.src], by rw [h1', T.src'], by rw [h2, h2']; exact T.q,
   by rw [h2, h2', h4]; exact T.win, by rw [h3, h3', T.blk], by rw [h3]; exact T.small, T.dsmall, T.wsize⟩

theorem Sim.setLine (S : Sim C lo d te s s') (l : Nat) : Sim C lo d te { s with line := l } { s' with line := l } :=
  ⟨S.tbl.of_eq rfl rfl rfl rfl rfl rfl rfl, rfl, S.lineMax, S.tight, S.listIndent, S.level, S.nodeKind,
   S.children, S.refs⟩

theorem Sim.setLineTight (S : Sim C lo d te s s') (l : Nat) (tg : Bool) :
    Sim C lo d te { s with line := l, tight := tg } { s' with line := l, tight := tg } :=
  ⟨S.tbl.of_eq rfl rfl rfl rfl rfl rfl rfl, rfl, S.lineMax, fun _ => rfl, S.listIndent, S.level, S.nodeKind, S.children, S.refs⟩

/-- once both sides have the same flag the relation holds with `te := true` -/
theorem Sim.upgrade (S : Sim C lo d te s s') (h : s'.tight = s.tight) : Sim C lo d true s s' :=
  ⟨S.tbl, S.line, S.lineMax, fun _ => h, S.listIndent, S.level, S.nodeKind, S.children, S.refs⟩
end simbasics

/-- close `Sim C lo d te t t'` where `t`, `t'` are `s`, `s'` with nodes pushed and `line` moved alike -/
syntax "li_close " ident : tactic
macro_rules
| `(tactic| li_close $S:ident) => `(tactic|
    (refine ⟨Tbl.of_eq (Sim.tbl $S) rfl rfl rfl rfl rfl rfl rfl, ?_, ?_, ?_, ?_, ?_, ?_, ?_, ?_⟩ <;>
      simp [BState.push, Sim.line $S, Sim.lineMax $S, Sim.tight $S, Sim.listIndent $S, Sim.level $S,
        Sim.nodeKind $S, Sim.children $S, Sim.refs $S, relocNodes_append, relocNodes, relocNode,
        relocKind, tau2, mapTau]))

/-- re-run the goal (the rule on `s'`) along the path the run on `s` took -/
syntax "replay_li" : tactic
macro_rules
| `(tactic| replay_li) => `(tactic|
    simp only [*, ok_bind, map_ok', ↓reduceIte, ne_eq, not_true_eq_false, not_false_eq_true,
      Bool.false_eq_true, pure, Except.pure, decide_true, decide_false, false_and, and_false, and_true,
      true_and, Classical.not_not, shiftE_indent])

section leaf
variable {C : Ctx} {lo d : Nat} {te : Bool} {s s' : BState}

/-- in a window the sign test of `indent_nonspace` answers alike -/
theorem Tbl.neg_iff (T : Tbl C lo d s s') {n : Nat} (h1 : lo ≤ n) (h2 : n < s.lineMax) {o : LineOffset}
    (ho : s.offs[n]? = some o) : (o.indentNonspace + (d : Int) < 0) ↔ (o.indentNonspace < 0) := by
  by_cases hd : 0 < d
  · have := T.nonneg hd h1 h2 ho
    constructor <;> intro h <;> omega
  · have : d = 0 := by omega
    subst this
    simp

theorem hr_sim (S : Sim C lo d te s s') (hlo : lo ≤ s.line) (hlt : s.line < s.lineMax) {b : Bool} {t : BState}
    (h : hrRule s false = .ok (b, t)) : ∃ t', hrRule s' false = .ok (b, t') ∧ Sim C lo d te t t' := by
  unfold hrRule at h ⊢
  rw [S.line, S.tbl.lineIndent _ hlo hlt, S.tbl.getLine, S.tbl.getMap]
  crack h
  all_goals (try subst_vars)
  all_goals replay_li
  all_goals (first | exact ⟨_, rfl, S⟩ | (refine ⟨_, rfl, ?_⟩; li_close S))

/-- the entry of an existing line, with its text -/
theorem Tbl.entry_of_off (T : Tbl C lo d s s') {n : Nat} {o : LineOffset} (h : s.off n = .ok o) :
    EntryOk C.L n o := T.q.ok n o (off_ok h)

theorem heading_sim (S : Sim C lo d te s s') (hlo : lo ≤ s.line) (hlt : s.line < s.lineMax) {b : Bool} {t : BState}
    (h : headingRule s false = .ok (b, t)) : ∃ t', headingRule s' false = .ok (b, t') ∧ Sim C lo d te t t' := by
  unfold headingRule at h ⊢
  rw [S.line, S.tbl.lineIndent _ hlo hlt, S.tbl.getLine, S.tbl.getMap, S.tbl.off _ hlo hlt]
  crack h
  all_goals (try subst_vars)
  all_goals replay_li
  all_goals (try (exact ⟨_, rfl, S⟩))
  -- the mapping of the inline root
  rename_i ind hind _ line hline _ _ level tp rest hatx content hsl o hoff r hmap
  obtain ⟨p, q, hdec, hp, hq⟩ := Lines.slice_eq_ok_iff.mp (liftL_ok hsl)
  have hlen := getLine_len hoff hline
  have eo := S.tbl.entry_of_off hoff
  have hb := entry_bounds eo
  have htp : tp ≤ Lines.byteLen line := by
    have := congrArg Lines.byteLen hdec
    simp only [Lines.byteLen_append] at this; omega
  have hsig : tau C.w C.L (o.firstNonspace + tp) = o.firstNonspace + C.w * s.line + C.w + tp := by
    rw [tau_of_entry C.w S.tbl.lines eo (by omega) (by omega)]; omega
  refine ⟨_, rfl, ?_⟩
  li_close S
  simp [shiftE, hsig]

theorem codeScan_congr (h1 : s'.lineMax = s.lineMax) (h2 : ∀ n, s'.isEmpty n = s.isEmpty n)
    (h3 : ∀ n, lo ≤ n → n < s.lineMax → s'.lineIndent n = s.lineIndent n) :
    ∀ (k n last : Nat), s.lineMax - n = k → lo ≤ n → codeScan s' n last = codeScan s n last := by
  intro k
  induction k with
  | zero =>
    intro n last hd _
    conv => lhs; rw [codeScan]
    conv => rhs; rw [codeScan]
    rw [h1, if_neg (show ¬ n < s.lineMax by omega), if_neg (show ¬ n < s.lineMax by omega)]
  | succ k ih =>
    intro n last hd hlo
    conv => lhs; rw [codeScan]
    conv => rhs; rw [codeScan]
    rw [h1, if_pos (show n < s.lineMax by omega), if_pos (show n < s.lineMax by omega), h2, h3 n hlo (by omega)]
    split
    · exact ih _ _ (by omega) (by omega)
    · cases s.lineIndent n with
      | error e => rfl
      | ok ind =>
        simp only []
        split
        · exact ih _ _ (by omega) (by omega)
        · rfl

theorem code_sim (S : Sim C lo d te s s') (hlo : lo ≤ s.line) (hlt : s.line < s.lineMax) {b : Bool} {t : BState}
    (h : codeRule s false = .ok (b, t)) : ∃ t', codeRule s' false = .ok (b, t') ∧ Sim C lo d te t t' := by
  unfold codeRule at h ⊢
  rw [S.line, S.tbl.lineIndent _ hlo hlt,
    codeScan_congr S.lineMax S.tbl.isEmpty S.tbl.lineIndent _ _ _ rfl (by omega)]
  crack h
  all_goals (try subst_vars)
  · replay_li
    exact ⟨_, rfl, S⟩
  · rename_i ind hind _ last hscan gl hgl _ m0 tl hmap l1 hl1 o hoff hassert
    have hlast := (codeScan_spec _ _ _ _ hscan (Nat.le_refl _)).2 (by omega)
    have T2 := (S.setLine last).tbl
    have hgl' := T2.getLines s.line last (4 + s.blkIndent) false hlo hlast (S.tbl.indent_ok 4 (by omega))
    obtain ⟨hl1a, rfl⟩ := psub_ok hl1
    have hlast1 := (codeScan_spec _ _ _ _ hscan (Nat.le_refl _)).1
    have hoff' := T2.off (last - 1) (by omega) (show last - 1 < s.lineMax by omega)
    have e4 : 4 + s'.blkIndent = 4 + s.blkIndent + d := by rw [S.tbl.blk]; omega
    simp only [e4]
    replay_li
    simp only [hgl', hgl, map_ok', mapTau, hmap, List.map_cons, hoff', hoff, ok_bind]
    -- the debug assertion
    have eo := T2.entry_of_off hoff
    have hle : tau C.w C.L o.lineEnd = (shiftE C.w (d : Int) (last - 1) o).lineEnd := by
      rw [tau_of_entry C.w S.tbl.lines eo (by have := entry_bounds eo; omega) (Nat.le_refl _)]
      simp [shiftE]
    have hmono := tau_mono C.w C.L (show m0.2 ≤ o.lineEnd by omega)
    rw [hle] at hmono
    rw [if_neg (by omega)]
    refine ⟨_, rfl, ?_⟩
    li_close S
    rw [← hle]

theorem fenceScan_congr (h1 : s'.lineMax = s.lineMax) (h2 : ∀ n, s'.getLine n = s.getLine n)
    (h3 : ∀ n, lo ≤ n → n < s.lineMax → s'.lineIndent n = s.lineIndent n) (marker : Char) (len : Nat) :
    ∀ (k n : Nat), s.lineMax - n = k → lo ≤ n → fenceScan s' marker len n = fenceScan s marker len n := by
  intro k
  induction k with
  | zero =>
    intro n hd _
    conv => lhs; rw [fenceScan]
    conv => rhs; rw [fenceScan]
    rw [h1, if_pos (show n + 1 ≥ s.lineMax by omega), if_pos (show n + 1 ≥ s.lineMax by omega)]
  | succ k ih =>
    intro n hd hlo
    conv => lhs; rw [fenceScan]
    conv => rhs; rw [fenceScan]
    rw [h1]
    by_cases hge : n + 1 ≥ s.lineMax
    · rw [if_pos hge, if_pos hge]
    · rw [if_neg hge, if_neg hge, h2, h3 (n + 1) (by omega) (by omega), ih (n + 1) (by omega) (by omega)]

theorem i32AsUsize_add {x : Int} (hx : 0 ≤ x) (d : Nat) : i32AsUsize (x + (d : Int)) = i32AsUsize x + d := by
  simp only [i32AsUsize, hx, ge_iff_le, if_true, show 0 ≤ x + (d : Int) by omega]
  omega

theorem fence_sim (S : Sim C lo d te s s') (hlo : lo ≤ s.line) (hlt : s.line < s.lineMax) (hi : IndentOk s)
    {b : Bool} {t : BState} (h : fenceRule s false = .ok (b, t)) :
    ∃ t', fenceRule s' false = .ok (b, t') ∧ Sim C lo d te t t' := by
  unfold fenceRule at h ⊢
  simp only [S.line, S.tbl.lineIndent _ hlo hlt, S.tbl.getLine, S.tbl.off _ hlo hlt,
    fenceScan_congr S.lineMax S.tbl.getLine S.tbl.lineIndent _ _ _ _ rfl hlo, S.tbl.getMap]
  crack h
  all_goals (try subst_vars)
  all_goals (try (replay_li; exact ⟨_, rfl, S⟩))
  all_goals (try (rcases ‹(_ : Char) = '`' ∧ _› with ⟨rfl, _⟩))
  all_goals (try (replay_li; exact ⟨_, rfl, S⟩))
  rename_i ind hind _ _ marker rest hline _ _ params hparams _ scan hscan o hoff gl hgl e he r hr
  obtain ⟨i, hi1, hi0⟩ := hi
  have hoi := lineIndent_of_off (off_ok hoff)
  rw [hi1] at hoi
  have hon : 0 ≤ o.indentNonspace := by
    simp only [Except.ok.injEq] at hoi; omega
  have eo := S.tbl.entry_of_off hoff
  have hsz := entry_le_size eo
  have hsize := S.tbl.wsize
  have hdw := S.tbl.dsmall
  have hcast : i32AsUsize o.indentNonspace + d < 2147483648 := by
    simp only [i32AsUsize, hon, ge_iff_le, if_true]
    omega
  obtain ⟨sc1, sc2⟩ := scan
  have hsc := fenceScan_spec _ _ _ _ _ _ hscan hlt
  have hgl' := S.tbl.getLines (s.line + 1) sc1 (i32AsUsize o.indentNonspace) true (by omega) hsc.2.1 hcast
  rw [← i32AsUsize_add hon] at hgl'
  replay_li
  try simp only [shiftE_indent, hgl', hgl, map_ok', ok_bind, he, hr]
  refine ⟨_, rfl, ?_⟩
  li_close S

theorem lineIndent_lt {s : BState} {n : Nat} {i : Int} (h : s.lineIndent n = .ok i) : n < s.offs.length := by
  unfold BState.lineIndent Lines.lineIndent at h
  cases ho : s.offs[n]? with
  | none => simp [ho, liftL] at h
  | some o => exact (List.getElem?_eq_some_iff.mp ho).1

theorem off_lt {s : BState} {n : Nat} {o : LineOffset} (h : s.off n = .ok o) : n < s.offs.length :=
  (List.getElem?_eq_some_iff.mp (off_ok h)).1

theorem Sim.sameLook (S : Sim C lo d te s s') (hlo : lo ≤ s.line) (hlt : s.line < s.lineMax)
    (hex : s.line < s.offs.length) : SameLook s s' := by
  refine ⟨by rw [S.line, S.tbl.lineIndent _ hlo hlt], by rw [S.line, S.tbl.getLine], S.nodeKind.isList, ?_⟩
  unfold listSpecial
  rw [S.line, S.tbl.off _ hlo hlt, S.tbl.blk]
  have ho : s.off s.line = .ok s.offs[s.line] := by simp [BState.off, List.getElem?_eq_getElem hex]
  rw [ho]
  generalize s.offs[s.line] = o at ho
  rcases S.listIndent with h | ⟨hb, hd, hs⟩ | ⟨hb, hn, hs⟩
  · rw [h]
    cases s.listIndent with
    | none => rfl
    | some li =>
      simp only [Option.map_some, map_ok', ok_bind, shiftE_indent, pure, Except.pure, Except.ok.injEq]
      apply decide_eq_decide.mpr
      push_cast
      exact ⟨fun ⟨h1, h2⟩ => ⟨by omega, by omega⟩, fun ⟨h1, h2⟩ => ⟨by omega, by omega⟩⟩
  · cases hli' : s'.listIndent with
    | none => rw [hli'] at hs; cases hs
    | some k' =>
      subst hd
      cases s.listIndent with
      | none =>
        simp only [map_ok', ok_bind, shiftE_indent, pure, Except.pure, Except.ok.injEq]
        rw [hb]; push_cast; apply decide_eq_false; rintro ⟨h1, h2⟩; omega
      | some k =>
        simp only [map_ok', ok_bind, shiftE_indent, pure, Except.pure, Except.ok.injEq]
        apply decide_eq_decide.mpr
        rw [hb]; push_cast
        exact ⟨fun ⟨h1, h2⟩ => by omega, fun ⟨h1, h2⟩ => by omega⟩
  · rw [hn, hs]
    simp only [map_ok', ok_bind, shiftE_indent, pure, Except.pure, Except.ok.injEq]
    rw [hb]
    by_cases hd0 : 0 < d
    · have := S.tbl.nonneg hd0 hlo hlt (off_ok ho)
      push_cast; apply decide_eq_false; rintro ⟨h1, h2⟩; omega
    · have : d = 0 := by omega
      subst this
      push_cast; apply decide_eq_false; rintro ⟨h1, h2⟩; omega

/-- the two look-aheads: pure, and with the same verdict on related states -/
structure TestSim (C : Ctx) (test test' : Test) : Prop where
  pure : TestPure test
  pure' : TestPure test'
  same : ∀ lo d te s s', Sim C lo d te s s' → lo ≤ s.line → s.line < s.lineMax → s.line < s.offs.length →
    verdict (test' s') = verdict (test s)

theorem TestSim.transfer {test test' : Test} (TS : TestSim C test test') (S : Sim C lo d te s s')
    (hlo : lo ≤ s.line) (hlt : s.line < s.lineMax) (hex : s.line < s.offs.length)
    {w : Bool × BState} (h : test s = .ok w) : w.2 = s ∧ test' s' = .ok (w.1, s') := by
  have h1 := TS.pure _ _ h
  have h2 := TS.same _ _ _ _ _ S hlo hlt hex
  rw [h] at h2
  cases h3 : test' s' with
  | error e => rw [h3] at h2; simp [verdict, Except.map] at h2
  | ok w' =>
    have h4 := TS.pure' _ _ h3
    rw [h3] at h2
    simp [verdict, Except.map] at h2
    refine ⟨h1, ?_⟩
    rw [← h2, ← h4]

theorem setextCheck_congr (S : Sim C lo d te s s') (setext : Bool) (ind : Int) (n : Nat) :
    setextCheck setext s' ind n = setextCheck setext s ind n := by
  unfold setextCheck
  rw [S.tbl.getLine]

theorem lazyScan_sim {test test' : Test} (TS : TestSim C test test') (setext : Bool) :
    ∀ (fuel : Nat) (s s' : BState) (n : Nat) (r : Nat × Nat × BState), Sim C lo d te s s' → lo ≤ n →
      lazyScan test setext fuel s n = .ok r → lazyScan test' setext fuel s' n = .ok (r.1, r.2.1, s') := by
  intro fuel
  induction fuel with
  | zero => intro s s' n r _ _ h; simp [lazyScan] at h
  | succ f ih =>
    intro s s' n r S hlo h
    simp only [lazyScan] at h ⊢
    by_cases hge : n + 1 ≥ s.lineMax
    · rw [if_pos (Or.inl hge)] at h
      rw [S.lineMax, if_pos (Or.inl hge)]
      cases h; rfl
    · have hlt : n + 1 < s.lineMax ∧ True := ⟨by omega, trivial⟩
      clear hge
      simp only [S.lineMax, S.tbl.isEmpty, S.tbl.lineIndent _ (show lo ≤ n + 1 by omega) hlt.1, setextCheck_congr S,
        S.tbl.off _ (show lo ≤ n + 1 by omega) hlt.1, S.line]
      crack h
      all_goals (try subst_vars)
      all_goals (try (have hneg := S.tbl.neg_iff (show lo ≤ n + 1 by omega) hlt.1 (off_ok ‹BState.off _ _ = _›)))
      · replay_li
      · replay_li
        exact ih _ _ _ _ S (by omega) h
      · replay_li
      · replay_li
        exact ih _ _ _ _ S (by omega) h
      · obtain ⟨h1, ht⟩ := TS.transfer (S.setLine (n + 1)) (by simp only; omega) hlt.1 (off_lt ‹BState.off _ _ = _›) ‹test _ = _›
        have hb := set_line_back' s' (n + 1) s.line S.line.symm
        simp only [S.lineMax] at ht hb
        replay_li
      · obtain ⟨h1, ht⟩ := TS.transfer (S.setLine (n + 1)) (by simp only; omega) hlt.1 (off_lt ‹BState.off _ _ = _›) ‹test _ = _›
        have hb := set_line_back' s' (n + 1) s.line S.line.symm
        simp only [S.lineMax] at ht hb
        replay_li
        simp only [h1, set_line_back] at h
        exact ih _ _ _ _ S (by omega) h

theorem paragraph_sim {test test' : Test} (TS : TestSim C test test') {fuel : Nat} (S : Sim C lo d te s s')
    (hlo : lo ≤ s.line) (hlt : s.line < s.lineMax)
    {b : Bool} {t : BState} (h : paragraphRule test fuel s false = .ok (b, t)) :
    ∃ t', paragraphRule test' fuel s' false = .ok (b, t') ∧ Sim C lo d te t t' := by
  unfold paragraphRule at h ⊢
  crack h
  rename_i scan hscan gl hgl e he r hr hb
  subst hb
  obtain ⟨h1, _, hle, _⟩ := lazyScan_spec TS.pure false _ _ _ _ hscan
  have hscan' := lazyScan_sim TS false _ _ _ _ _ S hlo hscan
  rw [h1] at hgl hr
  have T2 := (S.setLine scan.1).tbl
  have hgl' := S.tbl.getLines s.line scan.1 s.blkIndent false hlo (hle hlt) (by have := S.tbl.indent_ok 0 (by omega); omega)
  rw [← S.tbl.blk] at hgl'
  have hr' := T2.getMap s.line e
  simp only [Bool.false_eq_true, if_false, S.line, hscan', ok_bind, hgl', hgl, map_ok', he, hr', hr,
    pure, Except.pure, h1]
  refine ⟨_, rfl, ?_⟩
  li_close S

theorem lheading_sim {test test' : Test} (TS : TestSim C test test') {fuel : Nat} (S : Sim C lo d te s s')
    (hlo : lo ≤ s.line) (hlt : s.line < s.lineMax)
    {b : Bool} {t : BState} (h : lheadingRule test fuel s false = .ok (b, t)) :
    ∃ t', lheadingRule test' fuel s' false = .ok (b, t') ∧ Sim C lo d te t t' := by
  unfold lheadingRule at h ⊢
  simp only [S.line, S.tbl.lineIndent _ hlo hlt]
  crack h
  all_goals (try subst_vars)
  · replay_li
    exact ⟨_, rfl, S⟩
  · have hscan := ‹lazyScan _ _ _ _ _ = _›
    have h1 := (lazyScan_spec TS.pure true _ _ _ _ hscan).1
    have hscan' := lazyScan_sim TS true _ _ _ _ _ S hlo hscan
    replay_li
    try simp only [h1]
    exact ⟨_, rfl, S⟩
  · rename_i ind hind _ scan hscan hlvl gl hgl e he r hr
    obtain ⟨h1, _, hle, _⟩ := lazyScan_spec TS.pure true _ _ _ _ hscan
    have hscan' := lazyScan_sim TS true _ _ _ _ _ S hlo hscan
    rw [h1] at hgl hr
    have T2 := (S.setLine (scan.1 + 1)).tbl
    have hgl' := S.tbl.getLines s.line scan.1 s.blkIndent false hlo (hle hlt) (by have := S.tbl.indent_ok 0 (by omega); omega)
    rw [← S.tbl.blk] at hgl'
    have hr' := T2.getMap s.line e
    replay_li
    try simp only [h1]
    refine ⟨_, rfl, ?_⟩
    li_close S

theorem reference_sim {cfg cfg' : Cfg} (hc : cfg'.lookup = cfg.lookup ∧ cfg'.L = cfg.L ∧ cfg'.U = cfg.U)
    {test test' : Test} (TS : TestSim C test test') {fuel : Nat} (S : Sim C lo d te s s')
    (hlo : lo ≤ s.line) (hlt : s.line < s.lineMax)
    {b : Bool} {t : BState} (h : referenceRule cfg test fuel s false = .ok (b, t)) :
    ∃ t', referenceRule cfg' test' fuel s' false = .ok (b, t') ∧ Sim C lo d te t t' := by
  have hparse : ∀ str, refParse cfg' str = refParse cfg str := by
    intro str
    simp only [refParse, refTitle, hc.1]
  unfold referenceRule at h ⊢
  simp only [S.line, S.tbl.lineIndent _ hlo hlt, S.tbl.getLine, hparse, hc.2.1, hc.2.2]
  crack h
  all_goals (try subst_vars)
  all_goals (try (replay_li; exact ⟨_, rfl, S⟩))
  all_goals (
    have hscan := ‹lazyScan _ _ _ _ _ = _›
    have hgl := ‹BState.getLines _ _ _ _ _ = _›
    obtain ⟨h1, _, hle, _⟩ := lazyScan_spec TS.pure false _ _ _ _ hscan
    have hscan' := lazyScan_sim TS false _ _ _ _ _ S hlo hscan
    rw [h1] at hgl
    have hgl' := S.tbl.getLines s.line ‹Nat × Nat × BState›.1 s.blkIndent false hlo (hle hlt)
      (by have := S.tbl.indent_ok 0 (by omega); omega)
    rw [← S.tbl.blk] at hgl'
    replay_li
    try simp only [h1])
  all_goals (first | exact ⟨_, rfl, S⟩ | (refine ⟨_, rfl, ?_⟩; li_close S))

end leaf

/-! ### the containers' rewriting commutes with the prefix -/

section rewrite
variable {w : Nat} {pre : Nat → List Char} {L : DLines}

/-- the line behind entry `i`, from either source -/
theorem entry_line (hp : PreOk w pre) (hL : LinesOk L) {i : Nat} {o : LineOffset} (h : EntryOk L i o) (di : Int) :
    ∃ l, (∃ t, L[i]? = some (l, t)) ∧ '\t' ∉ l ∧
      Lines.slice (Lines.flat L) o.lineStart o.lineEnd = .ok l ∧
      Lines.slice (Lines.flat (indentLines pre L)) (shiftE w di i o).lineStart (shiftE w di i o).lineEnd
        = .ok (pre i ++ l) := by
  obtain ⟨l, t, a, b, hi, hl, hs, hf, he, _⟩ := h
  have hlt : i < L.length := (List.getElem?_eq_some_iff.mp hi).1
  have hLi : L[i] = (l, t) := (List.getElem?_eq_some_iff.mp hi).2
  have hlt' : i < (indentLines pre L).length := by rw [indentLines_length]; exact hlt
  refine ⟨l, ⟨t, hi⟩, ?_, ?_, ?_⟩
  · exact hL.tabfree (l, t) (by rw [← hLi]; exact List.getElem_mem hlt)
  · have := slice_in_line L i hlt [] l [] (by rw [hLi]; simp)
    simp only [Lines.byteLen_nil, Nat.add_zero] at this
    have hbl : Lines.byteLen l = Lines.byteLen a + Lines.byteLen b := by rw [hl]; simp
    rw [hs, he, show startOf L i + Lines.byteLen a + Lines.byteLen b = startOf L i + Lines.byteLen l by omega]
    exact this
  · have := slice_in_line (indentLines pre L) i hlt' [] (pre i ++ l) []
      (by rw [indentLines_getElem pre L i hlt]; simp [hLi])
    simp only [Lines.byteLen_nil, Nat.add_zero] at this
    rw [startOf_indent hp L i (by omega), Lines.byteLen_append, hp.bytes] at this
    have hbl : Lines.byteLen l = Lines.byteLen a + Lines.byteLen b := by rw [hl]; simp
    simp only [shiftE, hs, he]
    rw [show startOf L i + Lines.byteLen a + Lines.byteLen b + w * i + w
        = startOf L i + w * i + (w + Lines.byteLen l) by omega]
    exact this

theorem bqRewrite_sim (hp : PreOk w pre) (hL : LinesOk L) {i : Nat} {o o₂ : LineOffset} {rest : List Char} {le : Bool}
    (eo : EntryOk L i o) (di : Int) (h : bqRewrite (Lines.flat L) o rest = .ok (o₂, le)) :
    bqRewrite (Lines.flat (indentLines pre L)) (shiftE w di i o) rest = .ok (shiftE w ((0 : Nat) : Int) i o₂, le) ∧
      EntryOk L i o₂ := by
  obtain ⟨l, ⟨t, hLi⟩, htab, hsl, hsl'⟩ := entry_line hp hL eo di
  obtain ⟨l0, t0, a, b, hi, hl, hs, hf, he, hind⟩ := eo
  rw [hLi] at hi
  simp only [Option.some.injEq, Prod.mk.injEq] at hi
  obtain ⟨rfl, rfl⟩ := hi
  unfold bqRewrite at h ⊢
  simp only [hsl, hsl', liftL_ok', ok_bind] at h ⊢
  crack h
  rename_i rel hrel fi hfi lineLen hlen ind2 hopt ho2
  obtain ⟨hr1, rfl⟩ := psub_ok hrel
  obtain ⟨hr2, rfl⟩ := psub_ok hlen
  have hfi' := liftL_ok hfi
  obtain ⟨ind, fn⟩ := fi
  obtain ⟨hpre, p, run, rest2, hdec, hp2, hpr, hir, hrun⟩ :=
    findIndent_prefix_tabfree (pre i) l (hp.tabfree i) htab hfi'
  simp only [hp.bytes] at hpre
  -- the primed run
  have hrel' : psub ((shiftE w di i o).firstNonspace + 1) (shiftE w di i o).lineStart
      = .ok (w + (o.firstNonspace + 1 - o.lineStart)) := by
    rw [psub_eq (by simp only [shiftE]; omega)]
    congr 1; simp only [shiftE]; omega
  have hlen' : psub (shiftE w di i o).lineEnd (shiftE w di i o).lineStart = .ok (o.lineEnd - o.lineStart + w) := by
    rw [psub_eq (by simp only [shiftE]; omega)]
    congr 1; simp only [shiftE]; omega
  simp only [hrel', hpre, liftL_ok', hlen', ok_bind, hopt, pure, Except.pure]
  subst ho2
  refine ⟨?_, ?_⟩
  · simp only [Except.ok.injEq, Prod.mk.injEq]
    refine ⟨?_, ?_⟩
    · simp only [shiftE]
      congr 1 <;> omega
    · apply Bool.eq_iff_iff.mpr
      simp only [beq_iff_eq]
      omega
  · -- the new cut
    refine ⟨l, t, p ++ run, rest2, hLi, by rw [hdec], hs, ?_, ?_, ?_⟩
    · simp only; rw [hpr]; omega
    · simp only
      have := congrArg Lines.byteLen hdec
      simp only [Lines.byteLen_append] at this hpr ⊢
      have hbl : Lines.byteLen l = Lines.byteLen a + Lines.byteLen b := by rw [hl]; simp
      omega
    · simp only
      have : (ind2 : Int) ≤ (ind : Int) := by
        unfold bqOptSpace at hopt
        split at hopt
        · split at hopt
          · have := (psub_ok hopt).2; omega
          · simp [pure, Except.pure] at hopt; omega
        · simp [pure, Except.pure] at hopt; omega
      simp only [List.length_append]
      omega
end rewrite

/-! ### writing entries -/

theorem QRel.set {w : Nat} {L : DLines} {offs offs' : List LineOffset} (q : QRel w L offs offs') {m : Nat}
    {o₂ : LineOffset} (eo : EntryOk L m o₂) (di : Int) :
    QRel w L (offs.set m o₂) (offs'.set m (shiftE w di m o₂)) := by
  refine ⟨by simp [q.len], ?_, ?_⟩
  · intro i o ho
    simp only [List.getElem?_set] at ho
    split at ho
    · split at ho
      · simp at ho; subst ho; rename_i h _; subst h; exact eo
      · cases ho
    · exact q.ok i o ho
  · intro i
    by_cases him : m = i
    · subst him
      refine ⟨di, ?_⟩
      simp only [List.getElem?_set, if_true, q.len', q.len]
      split <;> rfl
    · obtain ⟨dj, hj⟩ := q.geo i
      exact ⟨dj, by simp only [List.getElem?_set, if_neg him]; exact hj⟩

theorem Win.set_out {w d a b : Nat} {offs offs' : List LineOffset} (h : Win w d a b offs offs') {m : Nat}
    (hm : m < a ∨ b ≤ m) (x y : LineOffset) : Win w d a b (offs.set m x) (offs'.set m y) := by
  intro i h1 h2
  have : ¬ m = i := by omega
  simp only [List.getElem?_set, if_neg this]
  exact h i h1 h2

theorem Win.set_in {w d a b : Nat} {offs offs' : List LineOffset} (h : Win w d a b offs offs') {m : Nat}
    (hlen : offs'.length = offs.length) {o₂ : LineOffset} (hnn : 0 < d → 0 ≤ o₂.indentNonspace) :
    Win w d a b (offs.set m o₂) (offs'.set m (shiftE w (d : Int) m o₂)) := by
  intro i h1 h2
  by_cases him : m = i
  · subst him
    simp only [List.getElem?_set, if_true, hlen]
    split
    · exact ⟨rfl, fun hd o ho => by simp at ho; subst ho; exact hnn hd⟩
    · exact ⟨rfl, fun hd o ho => by simp at ho⟩
  · simp only [List.getElem?_set, if_neg him]
    exact h i h1 h2

/-- the window of rewritten lines grows by line `m` -/
theorem Win.snoc {w a m : Nat} {offs offs' : List LineOffset} (h : Win w 0 a m offs offs')
    (hlen : offs'.length = offs.length) (o₂ : LineOffset) :
    Win w 0 a (m + 1) (offs.set m o₂) (offs'.set m (shiftE w ((0 : Nat) : Int) m o₂)) := by
  intro i h1 h2
  by_cases him : m = i
  · subst him
    simp only [List.getElem?_set, if_true, hlen]
    split
    · exact ⟨rfl, fun hd => absurd hd (by omega)⟩
    · exact ⟨rfl, fun hd => absurd hd (by omega)⟩
  · simp only [List.getElem?_set, if_neg him]
    exact h i h1 (by omega)

section bq
variable {C : Ctx} {lo d : Nat} {te : Bool}

theorem Tbl.mono_lo {s s' : BState} (T : Tbl C lo d s s') {lo' : Nat} (h : lo ≤ lo') : Tbl C lo' d s s' :=
  ⟨T.pre, T.lines, T.src, T.src', T.q, T.win.mono h (Nat.le_refl _), T.blk, T.small, T.dsmall, T.wsize⟩

theorem Sim.mono_lo {s s' : BState} (S : Sim C lo d te s s') {lo' : Nat} (h : lo ≤ lo') : Sim C lo' d te s s' :=
  ⟨S.tbl.mono_lo h, S.line, S.lineMax, S.tight, S.listIndent, S.level, S.nodeKind, S.children, S.refs⟩

/-- writing an entry in front of the window -/
theorem Sim.setOff_out {s s' s₂ : BState} (S : Sim C lo d te s s') {m : Nat} {o₂ : LineOffset} (hm : m < lo)
    (h : s.setOff m o₂ = .ok s₂) (eo : EntryOk C.L m o₂) (di : Int) :
    ∃ s₂', s'.setOff m (shiftE C.w di m o₂) = .ok s₂' ∧ Sim C lo d te s₂ s₂' ∧
      s₂.offs = s.offs.set m o₂ ∧ s₂'.offs = s'.offs.set m (shiftE C.w di m o₂) := by
  obtain ⟨hml, rfl⟩ := setOff_ok h
  have hm' : m < s'.offs.length := by rw [S.tbl.q.len', ← S.tbl.q.len]; exact hml
  refine ⟨{ s' with offs := s'.offs.set m (shiftE C.w di m o₂) }, by simp [BState.setOff, hm'], ?_, rfl, rfl⟩
  exact ⟨⟨S.tbl.pre, S.tbl.lines, S.tbl.src, S.tbl.src', S.tbl.q.set eo di, S.tbl.win.set_out (.inl hm) _ _,
    S.tbl.blk, S.tbl.small, S.tbl.dsmall, S.tbl.wsize⟩,
    S.line, S.lineMax, S.tight, S.listIndent, S.level, S.nodeKind, S.children, S.refs⟩

/-- writing an entry inside the window -/
theorem Sim.setOff_in {s s' s₂ : BState} (S : Sim C lo d te s s') {m : Nat} {o₂ : LineOffset}
    (h : s.setOff m o₂ = .ok s₂) (eo : EntryOk C.L m o₂) (hnn : 0 < d → 0 ≤ o₂.indentNonspace) :
    ∃ s₂', s'.setOff m (shiftE C.w (d : Int) m o₂) = .ok s₂' ∧ Sim C lo d te s₂ s₂' := by
  obtain ⟨hml, rfl⟩ := setOff_ok h
  have hlen : s'.offs.length = s.offs.length := by rw [S.tbl.q.len', ← S.tbl.q.len]
  have hm' : m < s'.offs.length := by rw [hlen]; exact hml
  refine ⟨{ s' with offs := s'.offs.set m (shiftE C.w (d : Int) m o₂) }, by simp [BState.setOff, hm'], ?_⟩
  exact ⟨⟨S.tbl.pre, S.tbl.lines, S.tbl.src, S.tbl.src', S.tbl.q.set eo _, S.tbl.win.set_in hlen hnn,
    S.tbl.blk, S.tbl.small, S.tbl.dsmall, S.tbl.wsize⟩,
    S.line, S.lineMax, S.tight, S.listIndent, S.level, S.nodeKind, S.children, S.refs⟩

theorem setOff_eq (t : BState) {m : Nat} (hm : m < t.offs.length) (x : LineOffset) :
    t.setOff m x = .ok { t with offs := t.offs.set m x } := by simp [BState.setOff, hm]

theorem shiftE_with_indent (w : Nat) (di : Int) (i : Nat) (o : LineOffset) (x : Int) :
    ({ shiftE w di i o with indentNonspace := x } : LineOffset)
      = shiftE w ((0 : Nat) : Int) i { o with indentNonspace := x } := by
  simp only [shiftE]
  congr 1
  push_cast
  omega

theorem bqScan_sim {test test' : Test} (TS : TestSim C test test') (start : Nat) :
    ∀ (fuel : Nat) (s s' : BState) (m : Nat) (old old' : List LineOffset) (le : Bool)
      (r : Nat × List LineOffset × BState), Sim C m d te s s' → start ≤ m → Win C.w 0 start m s.offs s'.offs →
      bqScan test fuel s m old le = .ok r →
      ∃ old₂' S', bqScan test' fuel s' m old' le = .ok (r.1, old₂', S') ∧
        QRel C.w C.L r.2.2.offs S'.offs ∧ Win C.w 0 start r.1 r.2.2.offs S'.offs := by
  intro fuel
  induction fuel with
  | zero => intro s s' m old old' le r _ _ _ h; simp [bqScan] at h
  | succ f ih =>
    intro s s' m old old' le r S hsm hw h
    simp only [bqScan] at h ⊢
    by_cases hge : ¬ m < s.lineMax
    · rw [if_pos hge] at h
      rw [S.lineMax, if_pos hge]
      cases h
      exact ⟨_, _, rfl, S.tbl.q, hw⟩
    · have hlt : m < s.lineMax ∧ True := ⟨by omega, trivial⟩
      clear hge
      have hlen : s'.offs.length = s.offs.length := by rw [S.tbl.q.len', ← S.tbl.q.len]
      simp only [S.lineMax, S.tbl.lineIndent _ (Nat.le_refl m) hlt.1, S.tbl.getLine,
        S.tbl.off _ (Nat.le_refl m) hlt.1, S.tbl.src']
      crack h
      all_goals (try subst_vars)
      · exact absurd hlt.1 ‹¬ m < s.lineMax›
      · replay_li
        exact ⟨_, _, rfl, S.tbl.q, hw⟩
      · -- inside the quote
        rename_i ind hind line c rest hline hc o hoff rw hrw s₂ hset
        obtain ⟨o₂, le₂⟩ := rw
        rw [S.tbl.src] at hrw
        obtain ⟨hrw', eo₂⟩ := bqRewrite_sim S.tbl.pre S.tbl.lines (S.tbl.entry_of_off hoff) (d : Int) hrw
        obtain ⟨s₂', hset', S₂, ho1, ho2⟩ := (S.mono_lo (Nat.le_succ m)).setOff_out (Nat.lt_succ_self m) hset eo₂
          ((0 : Nat) : Int)
        have hw2 : Win C.w 0 start (m + 1) s₂.offs s₂'.offs := by rw [ho1, ho2]; exact hw.snoc hlen o₂
        replay_li
        exact ih _ _ _ _ _ _ _ S₂ (by omega) hw2 h
      · replay_li
        exact ⟨_, _, rfl, S.tbl.q, hw⟩
      · -- a terminating rule, `blk_indent ≠ 0`
        rename_i ind hind line c rest hline hc hle wt hwt _ hb o hoff s₂ hset
        obtain ⟨h1, ht⟩ := TS.transfer (S.setLine m) (Nat.le_refl m) hlt.1 (lineIndent_lt hind) hwt
        simp only [S.lineMax, S.tbl.src'] at ht
        rw [h1] at hoff hset
        have hoff0 : s.off m = .ok o := hoff
        have hoff' := (S.setLine m).tbl.off m (Nat.le_refl m) hlt.1
        rw [hoff] at hoff'
        simp only [S.lineMax, S.tbl.src', map_ok'] at hoff'
        have Sm := (S.setLine m).mono_lo (Nat.le_succ m)
        obtain ⟨s₂', hset', S₂, ho1, ho2⟩ := Sm.setOff_out (Nat.lt_succ_self m) hset
          ((S.tbl.entry_of_off hoff0).indent (x := o.indentNonspace - (s.blkIndent : Int)) (by omega)) ((0 : Nat) : Int)
        simp only [S.lineMax, S.tbl.src'] at hset'
        have hblk : wt.2.blkIndent ≠ 0 := hb
        rw [h1] at hblk
        have hblk' : s'.blkIndent ≠ 0 := by rw [S.tbl.blk]; simp only at hblk; omega
        have ecast : o.indentNonspace + (d : Int) - ((s'.blkIndent : Nat) : Int)
            = o.indentNonspace - (s.blkIndent : Int) := by
          rw [S.tbl.blk]; push_cast; omega
        replay_li
        try simp only [hoff', hoff0, map_ok', ok_bind, shiftE_indent, ecast, shiftE_with_indent, hset']
        refine ⟨_, _, rfl, ?_, ?_⟩
        · have hq := S₂.tbl.q
          first | exact hq | (rw [ho1] at hq; exact hq)
        · have hq := hw.set_out (m := m) (.inr (Nat.le_refl m))
            ({ o with indentNonspace := o.indentNonspace - (s.blkIndent : Int) })
            (shiftE C.w ((0 : Nat) : Int) m { o with indentNonspace := o.indentNonspace - (s.blkIndent : Int) })
          first | exact hq | (rw [ho2]; exact hq) | (rw [ho1, ho2]; exact hq)
      · -- a terminating rule, `blk_indent = 0` on the `D` side
        rename_i ind hind line c rest hline hc hle wt hwt _ hb
        obtain ⟨h1, ht⟩ := TS.transfer (S.setLine m) (Nat.le_refl m) hlt.1 (lineIndent_lt hind) hwt
        simp only [S.lineMax, S.tbl.src'] at ht
        have hblk : ¬ (wt.2.blkIndent ≠ 0) := hb
        rw [h1] at hblk
        have hb0 : s.blkIndent = 0 := by simp only at hblk; omega
        by_cases hd0 : d = 0
        · have hblk' : ¬ (s'.blkIndent ≠ 0) := by rw [S.tbl.blk]; omega
          replay_li
          refine ⟨_, _, rfl, ?_, ?_⟩
          · exact S.tbl.q
          · exact hw
        · -- the prefixed side rewrites the entry of line `m`
          have hblk' : s'.blkIndent ≠ 0 := by rw [S.tbl.blk]; omega
          have hml : m < s.offs.length := lineIndent_lt hind
          obtain ⟨om, hom⟩ : ∃ om, s.offs[m]? = some om := ⟨_, List.getElem?_eq_getElem hml⟩
          have hoff0 : s.off m = .ok om := by simp [BState.off, hom]
          have hoff' := (S.setLine m).tbl.off m (Nat.le_refl m) hlt.1
          rw [show ({ s with line := m } : BState).off m = .ok om from hoff0] at hoff'
          simp only [S.lineMax, S.tbl.src', map_ok'] at hoff'
          have ecast : om.indentNonspace + (d : Int) - ((s'.blkIndent : Nat) : Int)
              = om.indentNonspace := by
            rw [S.tbl.blk, hb0]; push_cast; omega
          have hself : s.offs.set m om = s.offs := by
            have := (List.getElem?_eq_some_iff.mp hom).2
            rw [← this]; exact List.set_getElem_self _
          replay_li
          try simp only [hoff', hoff0, map_ok', ok_bind, shiftE_indent, ecast, shiftE_with_indent]
          rw [setOff_eq _ (show m < _ by simp only; omega)]
          simp only [ok_bind]
          refine ⟨_, _, rfl, ?_, ?_⟩
          · try rw [h1]
            have := S.tbl.q.set (S.tbl.q.ok m _ hom) ((0 : Nat) : Int)
            rw [hself] at this
            exact this
          · try rw [h1]
            have := hw.set_out (m := m) (.inr (Nat.le_refl m)) om
              (shiftE C.w ((0 : Nat) : Int) m { om with indentNonspace := om.indentNonspace })
            rw [hself] at this
            exact this
      · rename_i ind hind line c rest hline hc hle wt hwt hb o hoff s₂ hset
        obtain ⟨h1, ht⟩ := TS.transfer (S.setLine m) (Nat.le_refl m) hlt.1 (lineIndent_lt hind) hwt
        simp only [S.lineMax, S.tbl.src'] at ht
        have hle' : le = false := by simpa using hle
        subst hle'
        rw [h1] at hoff hset
        have hoff0 : s.off m = .ok o := hoff
        have hoff' := (S.setLine m).tbl.off m (Nat.le_refl m) hlt.1
        rw [hoff] at hoff'
        simp only [S.lineMax, S.tbl.src', map_ok'] at hoff'
        have Sm := (S.setLine m).mono_lo (Nat.le_succ m)
        obtain ⟨s₂', hset', S₂, ho1, ho2⟩ := Sm.setOff_out (Nat.lt_succ_self m) hset
          ((S.tbl.entry_of_off hoff0).indent_neg (x := -1) (by omega)) ((0 : Nat) : Int)
        simp only [S.lineMax, S.tbl.src'] at hset'
        have hw2 : Win C.w 0 start (m + 1) s₂.offs s₂'.offs := by rw [ho1, ho2]; exact hw.snoc hlen _
        replay_li
        try simp only [hoff', hoff0, map_ok', ok_bind, shiftE_with_indent, hset']
        exact ih _ _ _ _ _ _ _ S₂ (by omega) hw2 h

/-- the nested tokenizers correspond -/
def TokSim (C : Ctx) (tok tok' : Tok) : Prop :=
  ∀ lo d te s s' t, Sim C lo d te s s' → lo ≤ s.line → tok s = .ok t → ∃ t', tok' s' = .ok t' ∧ Sim C lo d te t t'

/-- inside a block quote (`blk_indent = 0` on both sides, `d = 0`) -/
theorem LIRel.nest {d blk : Nat} {li li' : Option Nat} (h : LIRel d blk li li') : LIRel 0 0 li li' := by
  rcases h with h | ⟨_, _, h⟩ | ⟨_, h1, h2⟩
  · cases li with
    | none => left; simp [h]
    | some k => right; left; simp [h]
  · right; left; exact ⟨rfl, rfl, h⟩
  · right; left; simp [h2]

theorem blockquote_sim {tok tok' : Tok} {test test' : Test} (hk : TokSpec tok) (hk' : TokSpec tok')
    (TK : TokSim C tok tok') (TS : TestSim C test test') {fuel : Nat} {s s' : BState} (S : Sim C lo d te s s')
    (hlo : lo ≤ s.line) (hlt : s.line < s.lineMax)
    {b : Bool} {t : BState} (h : blockquoteRule tok test fuel s false = .ok (b, t)) :
    ∃ t', blockquoteRule tok' test' fuel s' false = .ok (b, t') ∧ Sim C lo d te t t' := by
  unfold blockquoteRule at h ⊢
  simp only [S.line, S.tbl.lineIndent _ hlo hlt, S.tbl.getLine]
  crack h
  all_goals (try subst_vars)
  · replay_li
    exact ⟨_, rfl, S⟩
  · replay_li
    exact ⟨_, rfl, S⟩
  · rename_i ind hind _ line hline hhead scan hscan s2 htok lvl hlvl offs hoffs e he r hr
    obtain ⟨n, old, S1⟩ := scan
    -- the scans
    obtain ⟨old', S1', hscan', hq1, hw1⟩ := bqScan_sim TS s.line _ _ _ _ _ [] _ _ (S.mono_lo hlo) (Nat.le_refl _)
      (fun i h1 h2 => by omega) hscan
    obtain ⟨hsb, hmn, _, _, _, add, hadd, hrest⟩ := bqScan_spec TS.pure _ _ _ _ _ _ _ _ hscan
    obtain ⟨hsb', _, _, _, _, add', hadd', hrest'⟩ := bqScan_spec TS.pure' _ _ _ _ _ _ _ _ hscan'
    simp only [List.nil_append] at hadd hadd'
    rw [← hadd] at hrest
    rw [← hadd'] at hrest'
    clear hadd hadd'
    simp only at htok hlvl hoffs he hr hq1 hw1
    -- the nested tokenizers
    have S1s : Sim C s.line 0 te (nestBq S1 s.line n) (nestBq S1' s.line n) :=
      ⟨⟨S.tbl.pre, S.tbl.lines, by simp [hsb.src, S.tbl.src], by simp [hsb'.src, S.tbl.src'], hq1, hw1, rfl,
          Nat.zero_le _, Nat.zero_le _, S.tbl.wsize⟩, rfl, rfl, by simp [hsb.tight, hsb'.tight, S.tight],
        by simpa [hsb.listIndent, hsb'.listIndent] using S.listIndent.nest,
        by simp [hsb.level, hsb'.level, S.level], .inl rfl, rfl, by simp [hsb.refs, hsb'.refs, S.refs]⟩
    obtain ⟨s2', htok', S2⟩ := TK _ _ _ _ _ _ S1s (Nat.le_refl _) htok
    have hfr := hk.frame _ _ htok
    have hfr' := hk'.frame _ _ htok'
    have hmono := hk.mono _ _ htok
    -- the tables are restored
    rw [hfr.offs] at hoffs
    try simp only at hoffs
    rw [hrest] at hoffs
    cases hoffs
    have hoffs' : restoreOffs s2'.offs s.line old' = .ok s'.offs := by
      rw [hfr'.offs]; exact hrest'
    obtain ⟨hl1, rfl⟩ := psub_ok hlvl
    have hlvl' : psub s2'.level 1 = .ok (s2'.level - 1) := psub_eq (by rw [S2.level]; omega)
    have he' : psub s2'.line 1 = .ok e := by rw [S2.line]; exact he
    -- the final states
    have Tfin : Tbl C lo d (finBq s2 S1 s.offs) (finBq s2' S1' s'.offs) :=
      S.tbl.of_eq (by simp [hfr.src, hsb.src]) rfl (by simp [hsb.blkIndent]) (by simp [hsb.lineMax])
        (by simp [hfr'.src, hsb'.src]) rfl (by simp [hsb'.blkIndent])
    have hr' := Tfin.getMap s.line e
    rw [hr] at hr'
    replay_li
    refine ⟨_, rfl, ?_⟩
    refine ⟨S.tbl.of_eq (by simp [hfr.src, hsb.src]) rfl (by simp [hsb.blkIndent]) (by simp [hsb.lineMax])
        (by simp [hfr'.src, hsb'.src]) rfl (by simp [hsb'.blkIndent]), ?_, ?_, ?_, ?_, ?_, ?_, ?_, ?_⟩
    · simp [S2.line]
    · simp [hsb.lineMax, hsb'.lineMax, S.lineMax]
    · simp [S2.tight]
    · have h1 : s2.listIndent = s.listIndent := by rw [hfr.listIndent]; simp [hsb.listIndent]
      have h2 : s2'.listIndent = s'.listIndent := by rw [hfr'.listIndent]; simp [hsb'.listIndent]
      simpa [h1, h2, hsb.blkIndent] using S.listIndent
    · simp [S2.level]; omega
    · simpa [hsb.nodeKind, hsb'.nodeKind] using S.nodeKind
    · simp [hsb.children, hsb'.children, S.children, relocNodes_append, relocNodes, relocNode, S2.children,
        hfr'.nodeKind, hfr.nodeKind, relocKind, tau2]
    · simp [S2.refs]
end bq

/-! ### the list rule -/

section item
variable {C : Ctx} {lo d : Nat} {te : Bool}

theorem itemRewrite_sim {w : Nat} {pre : Nat → List Char} {L : DLines} (hp : PreOk w pre) (hL : LinesOk L)
    {i : Nat} {o o₂ : LineOffset} {pos indent : Nat} {re : Bool}
    (eo : EntryOk L i o) (d : Nat) {cur : List Char}
    (hcur : Lines.slice (Lines.flat L) o.firstNonspace o.lineEnd = .ok cur) (hm : MarkerW cur pos)
    (h : itemRewrite (Lines.flat L) o pos = .ok (o₂, indent, re)) :
    itemRewrite (Lines.flat (indentLines pre L)) (shiftE w (d : Int) i o) pos
        = .ok (shiftE w (d : Int) i o₂, indent + d, re) ∧
      EntryOk L i o₂ ∧ indent ≤ Lines.byteLen (Lines.flat L) + 1 ∧ 0 ≤ o₂.indentNonspace := by
  obtain ⟨l, ⟨t, hLi⟩, htab, hsl, hsl'⟩ := entry_line hp hL eo (d : Int)
  have hsz := (entry_le_size eo).1
  obtain ⟨l0, t0, a, b, hi, hl, hs, hf, he, hind⟩ := eo
  rw [hLi] at hi
  simp only [Option.some.injEq, Prod.mk.injEq] at hi
  obtain ⟨rfl, rfl⟩ := hi
  -- `cur = b`
  have hlt : i < L.length := (List.getElem?_eq_some_iff.mp hLi).1
  have hLe : L[i] = (l, t) := (List.getElem?_eq_some_iff.mp hLi).2
  have hcb : cur = b := by
    have := slice_in_line L i hlt a b [] (by rw [hLe, hl]; simp)
    rw [← hf, show o.firstNonspace + Lines.byteLen b = o.lineEnd by omega, hcur] at this
    exact Except.ok.inj this
  subst hcb
  obtain ⟨mk, rest, hmk, hmkl, hmkb⟩ := hm
  unfold itemRewrite at h ⊢
  simp only [shiftE_indent, hsl, hsl', liftL_ok', ok_bind] at h ⊢
  crack h
  rename_i hneg rel hrel fi hfi lineLen hlen ho2 hind2
  obtain ⟨hr1, rfl⟩ := psub_ok hrel
  obtain ⟨hr2, rfl⟩ := psub_ok hlen
  have hfi' := liftL_ok hfi
  obtain ⟨ind0, fn⟩ := fi
  obtain ⟨hpre, p, run, rest2, hdec, hp2, hpr, hir, hrun⟩ :=
    findIndent_prefix_tabfree (pre i) l (hp.tabfree i) htab hfi'
  simp only [hp.bytes] at hpre
  -- `p = a ++ mk`
  have hpa : p = a ++ mk := by
    have h1 : p ++ (run ++ rest2) = (a ++ mk) ++ rest := by rw [← List.append_assoc, ← hdec, hl, hmk]; simp
    exact (Lines.append_inj_byteLen h1 (by simp; omega)).1
  have hrel' : psub (pos + (shiftE w (d : Int) i o).firstNonspace) (shiftE w (d : Int) i o).lineStart
      = .ok (w + (pos + o.firstNonspace - o.lineStart)) := by
    rw [psub_eq (by simp only [shiftE]; omega)]
    congr 1; simp only [shiftE]; omega
  have hlen' : psub (shiftE w (d : Int) i o).lineEnd (shiftE w (d : Int) i o).lineStart
      = .ok (o.lineEnd - o.lineStart + w) := by
    rw [psub_eq (by simp only [shiftE]; omega)]
    congr 1; simp only [shiftE]; omega
  have hbeq : (w + fn == o.lineEnd - o.lineStart + w) = (fn == o.lineEnd - o.lineStart) := by
    apply Bool.eq_iff_iff.mpr
    simp only [beq_iff_eq]
    omega
  have hneg' : ¬ (o.indentNonspace + (d : Int) < 0) := by omega
  have htn : (o.indentNonspace + (d : Int)).toNat = o.indentNonspace.toNat + d := by omega
  rw [if_neg hneg']
  simp only [hrel', hpre, liftL_ok', hlen', ok_bind, pure, Except.pure, hbeq, htn]
  subst ho2 hind2
  refine ⟨?_, ?_, ?_, ?_⟩
  · simp only [Except.ok.injEq, Prod.mk.injEq, and_true]
    refine ⟨?_, by omega⟩
    simp only [shiftE]
    congr 1 <;> (try push_cast) <;> omega
  · refine ⟨l, t, p ++ run, rest2, hLi, by rw [hdec], hs, ?_, ?_, ?_⟩
    · simp only; rw [hpr]; omega
    · simp only
      have := congrArg Lines.byteLen hdec
      simp only [Lines.byteLen_append] at this hpr ⊢
      have hbl : Lines.byteLen l = Lines.byteLen a + Lines.byteLen cur := by rw [hl]; simp
      omega
    · simp only [List.length_append, hpa]
      omega
  · -- the content indent stays within the line, plus one
    have h2 : (if (fn == o.lineEnd - o.lineStart) = true then 1 else if ind0 > 4 then 1 else ind0) ≤ ind0 + 1 := by
      split
      · omega
      · split <;> omega
    generalize (if (fn == o.lineEnd - o.lineStart) = true then 1 else if ind0 > 4 then 1 else ind0) = X at h2
    have hbl : Lines.byteLen l = Lines.byteLen a + Lines.byteLen cur := by rw [hl]; simp
    have h3 := Lines.length_le_byteLen a
    have h4 := hrun.byteLen
    have h5 : Lines.byteLen p = Lines.byteLen a + Lines.byteLen mk := by rw [hpa]; simp
    have h6 := congrArg Lines.byteLen hdec
    simp only [Lines.byteLen_append] at h6 hpr
    omega
  · simp only
    omega

theorem listItemBody_sim {tok tok' : Tok} (TK : TokSim C tok tok') {S2 S2' S3 : BState} (S : Sim C lo d te S2 S2')
    {m : Nat} (hlo : lo ≤ m) {re : Bool} (h : listItemBody tok S2 m re = .ok S3) :
    ∃ S3', listItemBody tok' S2' m re = .ok S3' ∧ Sim C lo d te S3 S3' := by
  unfold listItemBody at h ⊢
  simp only [S.tbl.isEmpty]
  crack h
  all_goals (try subst_vars)
  · replay_li
    refine ⟨_, rfl, ?_⟩
    exact ⟨S.tbl.of_eq rfl rfl rfl rfl rfl rfl rfl, by simp [S.line, S.lineMax], S.lineMax, S.tight, S.listIndent,
      S.level, S.nodeKind, S.children, S.refs⟩
  · rename_i hc s2 htok lvl hlvl
    have Sn : Sim C lo d te { S2 with line := m, level := S2.level + 1 } { S2' with line := m, level := S2'.level + 1 } :=
      ⟨S.tbl.of_eq rfl rfl rfl rfl rfl rfl rfl, rfl, S.lineMax, S.tight, S.listIndent, by simp [S.level],
        S.nodeKind, S.children, S.refs⟩
    obtain ⟨s2', htok', S2s⟩ := TK _ _ _ _ _ _ Sn hlo htok
    obtain ⟨hl1, rfl⟩ := psub_ok hlvl
    have hlvl' : psub s2'.level 1 = .ok (s2'.level - 1) := psub_eq (by rw [S2s.level]; omega)
    replay_li
    refine ⟨_, rfl, ?_⟩
    exact ⟨S2s.tbl.of_eq rfl rfl rfl rfl rfl rfl rfl, S2s.line, S2s.lineMax, S2s.tight, S2s.listIndent,
      by simp [S2s.level]; omega, S2s.nodeKind, S2s.children, S2s.refs⟩

theorem prevEmptyEndOf_sim {s s' : BState} (S : Sim C lo d te s s') (m : Nat) :
    prevEmptyEndOf s' m = prevEmptyEndOf s m := by
  unfold prevEmptyEndOf
  simp only [S.line, S.tbl.isEmpty]

theorem listItem_sim {tok tok' : Tok} (hk : TokSpec tok) (hk' : TokSpec tok') (TK : TokSim C tok tok')
    {s s' : BState} (S : Sim C lo d te s s') {m pos : Nat} {pee tight pee₂ tight₂ : Bool} {t : BState}
    (hmk : ∃ cur, s.getLine m = .ok cur ∧ MarkerW cur pos) (hline : s.line = m) (hlo : lo ≤ m) (hlt : m < s.lineMax)
    (h : listItem tok s m pos pee tight = .ok (t, tight₂, pee₂)) :
    ∃ t', listItem tok' s' m pos pee tight = .ok (t', tight₂, pee₂) ∧ Sim C lo d te t t' := by
  have hspec := listItem_spec hk h hline hlt
  unfold listItem at h ⊢
  simp only [S.tbl.off _ hlo hlt]
  crack h
  rename_i o ho rw hrw S2 hS2 S3 hbody _ li hli S5 hS5 e he r hr hS' htight hpee
  obtain ⟨o₂, indent, re⟩ := rw
  obtain ⟨cur, hcur, hmw⟩ := hmk
  have eo := S.tbl.entry_of_off ho
  have hcur' : Lines.slice (Lines.flat C.L) o.firstNonspace o.lineEnd = .ok cur := by
    simp only [BState.getLine, Lines.getLine, off_ok ho, S.tbl.src] at hcur
    exact liftL_ok hcur
  have hrw0 := hrw
  rw [S.tbl.src] at hrw
  obtain ⟨hrw', eo₂, hbound, hnn₂⟩ := itemRewrite_sim S.tbl.pre S.tbl.lines eo d hcur' hmw hrw
  rw [← S.tbl.src'] at hrw'
  simp only at hS2 hbody
  -- the item's state
  have S1 : Sim C lo d true (nestItem s indent) (nestItem s' (indent + d)) :=
    ⟨⟨S.tbl.pre, S.tbl.lines, S.tbl.src, S.tbl.src', S.tbl.q, S.tbl.win, rfl, hbound, S.tbl.dsmall, S.tbl.wsize⟩,
      S.line, S.lineMax, fun _ => rfl, .inl (by simp [S.tbl.blk]), S.level, .inl rfl, rfl, S.refs⟩
  obtain ⟨S2', hS2', SS2⟩ := S1.setOff_in hS2 eo₂ (fun _ => hnn₂)
  obtain ⟨S3', hbody', SS3⟩ := listItemBody_sim TK SS2 hlo hbody
  -- `li` is the list's own block indent, on both sides
  have hcond : ∀ {T2 : BState} {x : LineOffset} {ind2 : Nat} {re2 : Bool} {src : List Char} {y : LineOffset} {base : BState},
      itemRewrite src y pos = .ok (x, ind2, re2) → base.setOff m x = .ok T2 → base.blkIndent = ind2 →
      T2.isEmpty m = true ∨ IndentOk { T2 with line := m } := by
    intro T2 x ind2 re2 src y base hrwx hsetx hbx
    have := itemRewrite_spec hrwx
    refine item_cond (x := x) (by rw [(setOff_ok hsetx).2]; simp [(setOff_ok hsetx).1]) ?_
    rw [(setOff_ok hsetx).2]
    simp only [hbx]
    exact this.2
  obtain ⟨hfr3, _, _⟩ := listItemBody_spec hk hbody (by rw [(setOff_ok hS2).2]; exact hline)
    (by rw [(setOff_ok hS2).2]; exact hlt) (hcond hrw0 hS2 rfl)
  obtain ⟨hfr3', _, _⟩ := listItemBody_spec hk' hbody' (by rw [(setOff_ok hS2').2]; simp only [S.line]; exact hline)
    (by rw [(setOff_ok hS2').2]; simp only [S.lineMax]; exact hlt) (hcond hrw' hS2' rfl)
  have hlieq : li = s.blkIndent := by
    have : some li = some s.blkIndent := by rw [← hli, hfr3.listIndent, (setOff_ok hS2).2]
    exact Option.some.inj this
  have hli' : S3'.listIndent = some (li + d) := by
    rw [hfr3'.listIndent, (setOff_ok hS2').2, hlieq]
    simp [S.tbl.blk]
  have S4 : Sim C lo d true (afterItem S3 li s.listIndent) (afterItem S3' (li + d) s'.listIndent) :=
    ⟨⟨SS3.tbl.pre, SS3.tbl.lines, SS3.tbl.src, SS3.tbl.src', SS3.tbl.q, SS3.tbl.win, rfl, by rw [hlieq]; exact S.tbl.small,
        SS3.tbl.dsmall, SS3.tbl.wsize⟩, SS3.line,
      SS3.lineMax, SS3.tight, by rw [hlieq]; exact S.listIndent, SS3.level, SS3.nodeKind, SS3.children, SS3.refs⟩
  obtain ⟨S5', hS5', SS5⟩ := S4.setOff_in hS5 eo (fun hd => S.tbl.nonneg hd hlo hlt (off_ok ho))
  have hpee' := prevEmptyEndOf_sim SS3 m
  rw [hpee] at hpee'
  have he' : psub S5'.line 1 = .ok e := by rw [SS5.line]; exact he
  have T6 : Tbl C lo d { S5 with tight := s.tight } { S5' with tight := s'.tight } :=
    SS5.tbl.of_eq rfl rfl rfl rfl rfl rfl rfl
  have hr' := T6.getMap m e
  rw [hr] at hr'
  -- the kind of the node pushed
  have hkind : S5.nodeKind = .listItem := by
    rw [(setOff_ok hS5).2]
    simp only
    rw [hfr3.nodeKind, (setOff_ok hS2).2]
  have hflag : (if ¬S3'.tight = true ∨ pee = true then false else tight)
      = (if ¬S3.tight = true ∨ pee = true then false else tight) := by rw [SS3.tight rfl]
  clear hlieq hspec hcond
  replay_li
  try simp only [hflag]
  subst hS' htight
  refine ⟨_, rfl, ?_⟩
  refine ⟨SS5.tbl.of_eq rfl rfl rfl rfl rfl rfl rfl, SS5.line, SS5.lineMax, by simp [S.tight], SS5.listIndent, SS5.level,
    by simpa using S.nodeKind, ?_, SS5.refs⟩
  have hkind' : S5'.nodeKind = .listItem := by
    rw [SS5.nodeKind.eq_of_ne_root (by rw [hkind]; simp), hkind]
  simp [S.children, relocNodes_append, relocNodes, relocNode, hkind', SS5.children, hkind, relocKind, tau2]

theorem listContinue_sim {test test' : Test} (TS : TestSim C test test') {ordered : Bool} {mc : Char}
    {s s' t : BState} (S : Sim C lo d te s s') (hlo : lo ≤ s.line) {c : Option Nat}
    (h : listContinue test ordered mc s s.line = .ok (c, t)) :
    t = s ∧ listContinue test' ordered mc s' s.line = .ok (c, s') ∧
      (∀ p, c = some p → ∃ cur, s.getLine s.line = .ok cur ∧ MarkerW cur p) := by
  have hpure := (listContinue_spec TS.pure h).1.symm
  subst hpure
  refine ⟨rfl, ?_⟩
  unfold listContinue at h ⊢
  by_cases hge : s.line ≥ s.lineMax
  · rw [if_pos hge] at h
    rw [S.lineMax, if_pos hge]
    simp only [pure, Except.pure, Except.ok.injEq, Prod.mk.injEq] at h
    obtain ⟨rfl, _⟩ := h
    exact ⟨rfl, fun p hp => by cases hp⟩
  · have hlt : s.line < s.lineMax ∧ True := ⟨by omega, trivial⟩
    simp only [S.lineMax, S.tbl.lineIndent _ hlo hlt.1]
    crack h
    all_goals (try subst_vars)
    · replay_li
      first | exact ⟨trivial, fun p hp => by cases hp⟩ | exact fun p hp => by cases hp
    · replay_li
      first | exact ⟨trivial, fun p hp => by cases hp⟩ | exact fun p hp => by cases hp
    · obtain ⟨hc, hst⟩ := h
      subst hc
      obtain ⟨h1, ht⟩ := TS.transfer S hlo hlt.1 (lineIndent_lt ‹BState.lineIndent _ _ = _›) ‹test _ = _›
      have hself : ({ s' with line := s'.line } : BState) = s' := by cases s'; rfl
      replay_li
      try simp only [hself]
      first | exact ⟨trivial, fun p hp => by cases hp⟩ | exact fun p hp => by cases hp
    · obtain ⟨hc, hst⟩ := h
      subst hc
      obtain ⟨h1, ht⟩ := TS.transfer S hlo hlt.1 (lineIndent_lt ‹BState.lineIndent _ _ = _›) ‹test _ = _›
      have hself : ({ s' with line := s'.line } : BState) = s' := by cases s'; rfl
      have hcur := ‹BState.getLine _ _ = _›
      simp only [h1, set_line_back] at hcur
      have hcur2 : s.getLine s.line = _ := hcur
      have hcur' := (show s'.getLine s'.line = s.getLine s.line by rw [S.line, S.tbl.getLine]).trans hcur2
      replay_li
      try simp only [hself, hcur', ok_bind]
      try replay_li
      first | exact ⟨trivial, fun p hp => by cases hp⟩ | exact fun p hp => by cases hp
    · obtain ⟨hc, hst⟩ := h
      subst hc
      obtain ⟨h1, ht⟩ := TS.transfer S hlo hlt.1 (lineIndent_lt ‹BState.lineIndent _ _ = _›) ‹test _ = _›
      have hself : ({ s' with line := s'.line } : BState) = s' := by cases s'; rfl
      have hcur := ‹BState.getLine _ _ = _›
      simp only [h1, set_line_back] at hcur
      have hcur2 : s.getLine s.line = _ := hcur
      have hcur' := (show s'.getLine s'.line = s.getLine s.line by rw [S.line, S.tbl.getLine]).trans hcur2
      replay_li
      try simp only [hself, hcur', ok_bind]
      try replay_li
      first | exact ⟨trivial, fun p hp => by cases hp⟩ | exact fun p hp => by cases hp
    · obtain ⟨hc, hst⟩ := h
      subst hc
      obtain ⟨h1, ht⟩ := TS.transfer S hlo hlt.1 (lineIndent_lt ‹BState.lineIndent _ _ = _›) ‹test _ = _›
      have hself : ({ s' with line := s'.line } : BState) = s' := by cases s'; rfl
      have hcur := ‹BState.getLine _ _ = _›
      simp only [h1, set_line_back] at hcur
      have hcur2 : s.getLine s.line = _ := hcur
      have hcur' := (show s'.getLine s'.line = s.getLine s.line by rw [S.line, S.tbl.getLine]).trans hcur2
      have hskip := ‹(if ordered = true then _ else _) = some _›
      replay_li
      try simp only [hself, hcur', ok_bind]
      try replay_li
      first | refine ⟨trivial, fun p hp => ⟨_, rfl, ?_⟩⟩ | refine fun p hp => ⟨_, rfl, ?_⟩ | refine ⟨trivial, fun p hp => ⟨_, hcur2, ?_⟩⟩ | refine fun p hp => ⟨_, hcur2, ?_⟩
      cases hp
      cases ordered
      · exact skipBullet_marker (by simpa using hskip)
      · exact skipOrdered_marker (by simpa using hskip)

theorem listLoop_sim {tok tok' : Tok} {test test' : Test} (hk : TokSpec tok) (hk' : TokSpec tok')
    (TK : TokSim C tok tok') (TS : TestSim C test test') {ordered : Bool} {mc : Char} :
    ∀ (fuel : Nat) (s s' : BState) (m pos : Nat) (pee tight : Bool) (r : Nat × Bool × BState),
      Sim C lo d te s s' → s.line = m → lo ≤ m → m < s.lineMax → (∃ cur, s.getLine m = .ok cur ∧ MarkerW cur pos) →
      listLoop tok test ordered mc fuel s m pos pee tight = .ok r →
      ∃ S', listLoop tok' test' ordered mc fuel s' m pos pee tight = .ok (r.1, r.2.1, S') ∧ Sim C lo d te r.2.2 S' := by
  intro fuel
  induction fuel with
  | zero => intro s s' m pos pee tight r _ _ _ _ _ h; simp [listLoop] at h
  | succ f ih =>
    intro s s' m pos pee tight r S hline hlo hlt hmk h
    simp only [listLoop] at h ⊢
    simp only [S.lineMax]
    crack h
    all_goals (try subst_vars)
    · rename_i wi wc hc _ hnone _ hitem
      obtain ⟨S1, t1, p1⟩ := wi
      obtain ⟨c, S2⟩ := wc
      obtain ⟨S1', hitem', SS1⟩ := listItem_sim hk hk' TK S hmk rfl hlo hlt hitem
      obtain ⟨hfr, h1, _⟩ := listItem_spec hk hitem rfl hlt
      try simp only at hc hnone h1
      subst hnone
      obtain ⟨rfl, hc', _⟩ := listContinue_sim TS SS1 (by omega) hc
      rw [← SS1.line] at hc'
      replay_li
      rw [SS1.line]
      exact ⟨_, rfl, SS1⟩
    · rename_i wi wc hc _ p hsome _ hitem
      obtain ⟨S1, t1, p1⟩ := wi
      obtain ⟨c, S2⟩ := wc
      obtain ⟨S1', hitem', SS1⟩ := listItem_sim hk hk' TK S hmk rfl hlo hlt hitem
      try simp only at hc hsome h
      subst hsome
      obtain ⟨hfr, h1, _⟩ := listItem_spec hk hitem rfl hlt
      try simp only at h1
      obtain ⟨_, hc2⟩ := listContinue_spec TS.pure hc
      obtain ⟨rfl, hc', hmk2⟩ := listContinue_sim TS SS1 (by omega) hc
      rw [← SS1.line] at hc'
      have hlt2 := hc2 (by simp)
      obtain ⟨S', hrec, SS'⟩ := ih _ _ _ _ _ _ _ SS1 rfl (by omega) hlt2 (hmk2 p rfl) h
      replay_li
      rw [SS1.line]
      exact ⟨_, hrec, SS'⟩

theorem Sim.nestList {s s' : BState} (S : Sim C lo d te s s') (k : Kind) : Sim C lo d te (nestList s k) (nestList s' k) :=
  ⟨S.tbl.of_eq rfl rfl rfl rfl rfl rfl rfl, S.line, S.lineMax, S.tight, S.listIndent, by simp [S.level], .inl rfl,
    rfl, S.refs⟩

theorem lineIndent_err {s : BState} {n : Nat} (h : ¬ n < s.offs.length) : s.lineIndent n = .error .index := by
  have : s.offs[n]? = none := List.getElem?_eq_none (by omega)
  simp [BState.lineIndent, Lines.lineIndent, this, liftL]

theorem list_sim {tok tok' : Tok} {test test' : Test} (hk : TokSpec tok) (hk' : TokSpec tok')
    (TK : TokSim C tok tok') (TS : TestSim C test test') {fuel : Nat} {s s' : BState} (S : Sim C lo d te s s')
    (hlo : lo ≤ s.line) (hl : s.line < s.lineMax) {b : Bool} {t : BState}
    (h : listRule tok test fuel s false = .ok (b, t)) :
    ∃ t', listRule tok' test' fuel s' false = .ok (b, t') ∧ Sim C lo d te t t' := by
  have hex : s.line < s.offs.length := by
    apply Classical.byContradiction
    intro hex
    unfold listRule at h
    simp [lineIndent_err hex, bind, Except.bind] at h
  unfold listRule at h ⊢
  simp only [S.line, S.tbl.lineIndent _ hlo hl, (S.sameLook hlo hl hex).special, S.tbl.getLine]
  crack h
  all_goals (try subst_vars)
  all_goals (try (replay_li; exact ⟨_, rfl, S⟩))
  all_goals (try (have hx := ‹emptyItemCheck _ _ _ = Except.ok true›; simp [emptyItemCheck, pure, Except.pure] at hx))
  all_goals (
    have hE := ‹emptyItemCheck _ _ _ = _›
    simp only [decide_false] at hE
    have hloop := ‹listLoop _ _ _ _ _ _ _ _ _ _ = _›
    have htight := ‹(if _ then tightenItems _ else _) = Except.ok _›
    have hdet := ‹detectMarker _ = _›
    have hcur := ‹s.getLine s.line = _›
    have hmap := ‹BState.getMap _ _ _ = _›
    have hlvl := ‹psub (BState.level _) 1 = _›
    rename_i wl _ cs _ _ _ _ _ _ _
    obtain ⟨n, tg, S1⟩ := wl
    obtain ⟨S1', hloop', SS1⟩ := listLoop_sim hk hk' TK TS _ _ _ _ _ _ _ _ (S.nestList _) rfl hlo hl
      ⟨_, hcur, detectMarker_marker hdet⟩ hloop
    simp only [nestList, S.line] at htight hmap hlvl hloop' SS1
    have htight' : (if tg = true then tightenItems S1'.children else Except.ok S1'.children)
        = .ok (relocNodes (tau C.w C.L) cs) := by
      rw [SS1.children]
      split at htight
      · rw [if_pos ‹_›, tightenItems_reloc, htight]; rfl
      · rw [if_neg ‹_›]
        simp [pure, Except.pure] at htight ⊢
        rw [htight]
    obtain ⟨hl1, rfl⟩ := psub_ok hlvl
    have hlvl' : psub S1'.level 1 = .ok (S1'.level - 1) := psub_eq (by rw [SS1.level]; omega)
    have hmap' := SS1.tbl.getMap s.line
    replay_li
    simp only [Bool.false_and, Bool.false_eq_true, if_false, hloop', ok_bind, htight', hlvl', hmap', hmap, map_ok',
      ‹psub n 1 = _›]
    refine ⟨_, rfl, ?_⟩
    obtain ⟨hfr, _⟩ := listLoop_spec hk TS.pure _ _ _ _ _ _ _ _ _ hloop rfl hl
    refine ⟨SS1.tbl.of_eq rfl rfl rfl rfl rfl rfl rfl, SS1.line, SS1.lineMax, SS1.tight, SS1.listIndent,
      by simp [SS1.level]; omega, by simpa using S.nodeKind, ?_, SS1.refs⟩
    have hk1 : S1.nodeKind ≠ .root := by rw [hfr.nodeKind]; cases ‹Option Nat› <;> simp
    simp [S.children, relocNodes_append, relocNodes, relocNode, SS1.nodeKind.eq_of_ne_root hk1, hfr.nodeKind,
      relocKind, tau2])
end item

/-! ### the tokenizers correspond -/

section tok
variable {C : Ctx}

/-- a chain rule on `D` and on the prefixed document -/
def RunSim (C : Ctx) (run run' : RuleId → BState → Bool → Res) : Prop :=
  ∀ r lo d te s s' b t, Sim C lo d te s s' → lo ≤ s.line → s.line < s.lineMax → IndentOk s → run r s false = .ok (b, t) →
    ∃ t', run' r s' false = .ok (b, t') ∧ Sim C lo d te t t'

theorem runChain_sim {run run' : RuleId → BState → Bool → Res} (hr : RunSpec run) (R : RunSim C run run') {lo d : Nat} {te : Bool} :
    ∀ (chain : List RuleId) (s s' : BState) (b : Bool) (t : BState), Sim C lo d te s s' → lo ≤ s.line →
      s.line < s.lineMax → IndentOk s → runChain run chain s false = .ok (b, t) →
      ∃ t', runChain run' chain s' false = .ok (b, t') ∧ Sim C lo d te t t' := by
  intro chain
  induction chain with
  | nil =>
    intro s s' b t S _ _ _ h
    simp [runChain] at h
    obtain ⟨rfl, rfl⟩ := h
    exact ⟨s', rfl, S⟩
  | cons r rs ih =>
    intro s s' b t S hlo hl hi h
    simp only [runChain] at h ⊢
    split at h
    · cases h
    · rename_i s1 h1
      cases h
      obtain ⟨t', h1', S1⟩ := R _ _ _ _ _ _ _ _ S hlo hl hi h1
      rw [h1']
      exact ⟨t', rfl, S1⟩
    · rename_i s1 h1
      obtain ⟨t', h1', S1⟩ := R _ _ _ _ _ _ _ _ S hlo hl hi h1
      have := hr.false_same _ _ _ h1
      subst this
      rw [h1']
      simp only
      exact ih _ _ _ _ S1 hlo hl hi h

theorem afterChain_sim {lo d : Nat} {te : Bool} {ok : Bool} {s s' t : BState} {prev : Nat} (S : Sim C lo d te s s')
    (hw : ok = false → lo ≤ s.line ∧ s.line < s.lineMax)
    (h : afterChain ok s prev = .ok t) : ∃ t', afterChain ok s' prev = .ok t' ∧ Sim C lo d te t t' := by
  unfold afterChain at h ⊢
  cases ok with
  | true =>
    simp only [if_true, S.line] at h ⊢
    crack h
    all_goals (try subst_vars)
    replay_li
    exact ⟨_, rfl, S⟩
  | false =>
    obtain ⟨hlo, hlt⟩ := hw rfl
    simp only [S.line, S.tbl.getLine, S.tbl.off _ hlo hlt]
    crack h
    all_goals (try subst_vars)
    rename_i line hline o hoff
    have eo := S.tbl.entry_of_off hoff
    have hb := entry_bounds eo
    have hsig : tau C.w C.L o.firstNonspace = (shiftE C.w (d : Int) s.line o).firstNonspace := by
      rw [tau_of_entry C.w S.tbl.lines eo hb.1 hb.2]; simp [shiftE]
    replay_li
    refine ⟨_, rfl, ?_⟩
    li_close S
    rw [← hsig]

theorem tokLoop_sim {cfg cfg' : Cfg} (hc : cfg'.chain = cfg.chain) (hm : cfg'.maxNesting = cfg.maxNesting + 2)
    {run run' : RuleId → BState → Bool → Res} (hr : RunSpec run) (R : RunSim C run run') {lo d : Nat} {te : Bool} :
    ∀ (fuel : Nat) (he : Bool) (s s' t : BState), Sim C lo d te s s' → lo ≤ s.line → tokLoop cfg run fuel he s = .ok t →
      ∃ t', tokLoop cfg' run' fuel he s' = .ok t' ∧ Sim C lo d te t t' := by
  intro fuel
  induction fuel with
  | zero => intro he s s' t _ _ h; simp [tokLoop] at h
  | succ f ih =>
    intro he s s' t S hlo h
    simp only [tokLoop] at h ⊢
    have hl'lo : s.line ≤ Lines.skipEmptyLines s.offs s.lineMax s.line := (skipEmpty_spec _ _ _).1
    generalize hl' : Lines.skipEmptyLines s.offs s.lineMax s.line = l' at h hl'lo
    have hskip : Lines.skipEmptyLines s'.offs s'.lineMax s'.line = l' := by
      rw [S.lineMax, S.line, ← hl']
      exact skipEmpty_congr (fun n => S.tbl.isEmpty n) _ _
    have hc1 : (s'.line < s'.lineMax) = (s.line < s.lineMax) := by rw [S.line, S.lineMax]
    have hc2 : (l' ≥ s'.lineMax) = (l' ≥ s.lineMax) := by rw [S.lineMax]
    have hc3 : (s'.level ≥ cfg'.maxNesting) = (s.level ≥ cfg.maxNesting) := by
      rw [S.level, hm]; simp
    simp only [hskip, hc, hc1, hc2, hc3]
    have Sl := S.setLine l'
    clear hl' hskip
    by_cases hge : l' ≥ s.lineMax
    · crack h
      all_goals (try subst_vars)
      · replay_li
        exact ⟨_, rfl, S⟩
      · replay_li
        exact ⟨_, rfl, Sl⟩
    · have hlt' : l' < s.lineMax := by omega
      have hind' := Sl.tbl.lineIndent l' (by omega) hlt'
      crack h
      · subst_vars
        replay_li
        exact ⟨_, rfl, S⟩
      · subst_vars
        replay_li
        exact ⟨_, rfl, Sl⟩
      · subst_vars
        replay_li
        refine ⟨_, rfl, ?_⟩
        exact ⟨S.tbl.of_eq rfl rfl rfl rfl rfl rfl rfl, S.lineMax, S.lineMax, S.tight, S.listIndent, S.level, S.nodeKind,
          S.children, S.refs⟩
      all_goals (
        have hchain := ‹runChain _ _ _ _ = _›
        have hafter := ‹afterChain _ _ _ = _›
        have hind := ‹BState.lineIndent _ _ = _›
        have hpsub := ‹psub _ 1 = _›
        rename_i w _ s3 _ _ _ _
        obtain ⟨b, s2⟩ := w
        have hiok : IndentOk ({ s with line := l' } : BState) := ⟨_, hind, by omega⟩
        obtain ⟨s2', hchain', Sw⟩ := runChain_sim hr R _ _ _ _ _ Sl (by simp only; omega) (by simp only; omega) hiok hchain
        obtain ⟨hfs, _⟩ := runChain_real hr _ _ _ _ hchain
        obtain ⟨s3', hafter', S3⟩ := afterChain_sim Sw (fun hb => by
          have := hfs hb
          subst this
          exact ⟨by simp only; omega, by simp only; omega⟩) hafter
        obtain ⟨_, hadv, _⟩ := tok_iter hr (s1 := { s with line := l' }) (w := (b, s2)) (s3 := s3) rfl
          (by simp only; omega) hiok hchain hafter
        have T3 : Tbl C lo d { s3 with tight := !he } { s3' with tight := !he } := S3.tbl.of_eq rfl rfl rfl rfl rfl rfl rfl
        have hpsub' := (show psub s3'.line 1 = psub s3.line 1 by rw [S3.line]).trans hpsub
        have hcA : (s3'.line < s3'.lineMax) = (s3.line < s3.lineMax) := by rw [S3.line, S3.lineMax]
        have hemp := T3.isEmpty
        simp only at hchain' hafter' hadv
        replay_li
        simp only [hemp, S3.line]
        replay_li)
      · exact ih _ _ _ _ (by have := S3.setLineTight (s3.line + 1) (!he); simpa using this) (by simp only; omega) h
      · exact ih _ _ _ _ (by have := S3.setLineTight s3.line (!he); simpa using this) (by simp only; omega) h

/-- when the loop runs the chain at least once, the `tight` flags agree at the end whatever they were
    at the start (the loop overwrites the flag after every block) -/
theorem tokLoop_sim_first {cfg cfg' : Cfg} (hc : cfg'.chain = cfg.chain) (hm : cfg'.maxNesting = cfg.maxNesting + 2)
    {run run' : RuleId → BState → Bool → Res} (hr : RunSpec run) (R : RunSim C run run') {lo d : Nat} {te : Bool}
    {fuel : Nat} {he : Bool} {s s' t : BState} (S : Sim C lo d te s s') (hlo : lo ≤ s.line)
    (hlt : s.line < s.lineMax) (hne : s.isEmpty s.line = false) (hi : IndentOk s) (hlv : s.level < cfg.maxNesting)
    (h : tokLoop cfg run fuel he s = .ok t) :
    ∃ t', tokLoop cfg' run' fuel he s' = .ok t' ∧ Sim C lo d true t t' := by
  cases fuel with
  | zero => simp [tokLoop] at h
  | succ f =>
    simp only [tokLoop] at h ⊢
    have hl's : Lines.skipEmptyLines s.offs s.lineMax s.line = s.line := (skipEmpty_spec _ _ _).2.2.1 hne
    generalize hl' : Lines.skipEmptyLines s.offs s.lineMax s.line = l' at h hl's
    have hskip : Lines.skipEmptyLines s'.offs s'.lineMax s'.line = l' := by
      rw [S.lineMax, S.line, ← hl']
      exact skipEmpty_congr (fun n => S.tbl.isEmpty n) _ _
    have hc1 : (s'.line < s'.lineMax) = (s.line < s.lineMax) := by rw [S.line, S.lineMax]
    have hc2 : (l' ≥ s'.lineMax) = (l' ≥ s.lineMax) := by rw [S.lineMax]
    have hc3 : (s'.level ≥ cfg'.maxNesting) = (s.level ≥ cfg.maxNesting) := by
      rw [S.level, hm]; simp
    simp only [hskip, hc, hc1, hc2, hc3]
    have Sl := S.setLine l'
    clear hl' hskip
    have hlt' : l' < s.lineMax := by omega
    have hind' := Sl.tbl.lineIndent l' (by omega) hlt'
    obtain ⟨i0, hi0, hi0'⟩ := hi
    crack h
    all_goals (try (exfalso; omega))
    all_goals (try (
      exfalso
      have hh : s.lineIndent l' = .ok _ := ‹BState.lineIndent _ _ = Except.ok _›
      rw [hl's, hi0] at hh
      cases hh
      omega))
    all_goals (
      have hl'lo : s.line ≤ l' := by omega
      clear hl's
      have hchain := ‹runChain _ _ _ _ = _›
      have hafter := ‹afterChain _ _ _ = _›
      have hind := ‹BState.lineIndent _ _ = _›
      have hpsub := ‹psub _ 1 = _›
      rename_i w _ s3 _ _ _ _
      obtain ⟨b, s2⟩ := w
      have hiok : IndentOk ({ s with line := l' } : BState) := ⟨_, hind, by omega⟩
      obtain ⟨s2', hchain', Sw⟩ := runChain_sim hr R _ _ _ _ _ Sl (by simp only; omega) (by simp only; omega) hiok hchain
      obtain ⟨hfs, _⟩ := runChain_real hr _ _ _ _ hchain
      obtain ⟨s3', hafter', S3⟩ := afterChain_sim Sw (fun hb => by
        have := hfs hb
        subst this
        exact ⟨by simp only; omega, by simp only; omega⟩) hafter
      obtain ⟨_, hadv, _⟩ := tok_iter hr (s1 := { s with line := l' }) (w := (b, s2)) (s3 := s3) rfl
        (by simp only; omega) hiok hchain hafter
      have T3 : Tbl C lo d { s3 with tight := !he } { s3' with tight := !he } := S3.tbl.of_eq rfl rfl rfl rfl rfl rfl rfl
      have hpsub' := (show psub s3'.line 1 = psub s3.line 1 by rw [S3.line]).trans hpsub
      have hcA : (s3'.line < s3'.lineMax) = (s3.line < s3.lineMax) := by rw [S3.line, S3.lineMax]
      have hemp := T3.isEmpty
      simp only at hchain' hafter' hadv
      replay_li
      try simp only [hemp, S3.line]
      try replay_li)
    · exact tokLoop_sim hc hm hr R _ _ _ _ _
        (by have := (S3.setLineTight (s3.line + 1) (!he)).upgrade rfl; simpa using this) (by simp only; omega) h
    · exact tokLoop_sim hc hm hr R _ _ _ _ _
        (by have := (S3.setLineTight s3.line (!he)).upgrade rfl; simpa using this) (by simp only; omega) h

/-- the two configurations: the same chain and tables, two more levels of nesting allowed -/
structure CfgRel (cfg cfg' : Cfg) : Prop where
  chain : cfg'.chain = cfg.chain
  nesting : cfg'.maxNesting = cfg.maxNesting + 2
  lookup : cfg'.lookup = cfg.lookup
  lower : cfg'.L = cfg.L
  upper : cfg'.U = cfg.U

theorem testRules_sim {cfg cfg' : Cfg} (R : CfgRel cfg cfg') (fuel : Nat) :
    TestSim C (testRules cfg fuel) (testRules cfg' fuel) :=
  ⟨testRules_pure cfg fuel, testRules_pure cfg' fuel,
   fun _ _ _ _ _ S hlo hlt hex => testRules_same_view cfg cfg' R.chain fuel (S.sameLook hlo hlt hex)⟩

theorem runRule_sim {cfg cfg' : Cfg} (R : CfgRel cfg cfg') {tok tok' : Tok} {test test' : Test}
    (hk : TokSpec tok) (hk' : TokSpec tok') (TK : TokSim C tok tok') (TS : TestSim C test test') (fuel : Nat) :
    RunSim C (runRule cfg tok test fuel) (runRule cfg' tok' test' fuel) := by
  intro r lo d te s s' b t S hlo hl hi h
  cases r <;> simp only [runRule] at h ⊢
  · exact code_sim S hlo hl h
  · exact fence_sim S hlo hl hi h
  · exact blockquote_sim hk hk' TK TS S hlo hl h
  · exact hr_sim S hlo hl h
  · exact list_sim hk hk' TK TS S hlo hl h
  · exact reference_sim ⟨R.lookup, R.lower, R.upper⟩ TS S hlo hl h
  · exact heading_sim S hlo hl h
  · exact lheading_sim TS S hlo hl h
  · exact paragraph_sim TS S hlo hl h

/-- **the tokenizer nested in the list item on the prefixed document simulates the tokenizer on `D`**,
    for every fuel -/
theorem tokenize_sim {cfg cfg' : Cfg} (R : CfgRel cfg cfg') :
    ∀ fuel : Nat, TokSim C (tokenize cfg fuel) (tokenize cfg' fuel) := by
  intro fuel
  induction fuel with
  | zero => intro lo d te s s' t _ _ h; simp [tokenize, engine] at h
  | succ f ih =>
    intro lo d te s s' t S hlo h
    simp only [tokenize, engine] at h ⊢
    have hk := tokenize_tokSpec cfg f
    have hk' := tokenize_tokSpec cfg' f
    have TS := testRules_sim (C := C) R f
    exact tokLoop_sim R.chain R.nesting (runRule_spec hk TS.pure _)
      (runRule_sim R hk hk' ih TS _) _ _ _ _ _ S hlo h

/-- the same when the run starts on a non-blank line at a non-negative indent below the nesting limit:
    the `tight` flags agree at the end whatever they were at the start -/
theorem tokenize_sim_first {cfg cfg' : Cfg} (R : CfgRel cfg cfg') {fuel lo d : Nat} {te : Bool} {s s' t : BState}
    (S : Sim C lo d te s s') (hlo : lo ≤ s.line) (hlt : s.line < s.lineMax) (hne : s.isEmpty s.line = false)
    (hi : IndentOk s) (hlv : s.level < cfg.maxNesting) (h : tokenize cfg fuel s = .ok t) :
    ∃ t', tokenize cfg' fuel s' = .ok t' ∧ Sim C lo d true t t' := by
  cases fuel with
  | zero => simp [tokenize, engine] at h
  | succ f =>
    simp only [tokenize, engine] at h ⊢
    have hk := tokenize_tokSpec cfg f
    have hk' := tokenize_tokSpec cfg' f
    have TS := testRules_sim (C := C) R f
    exact tokLoop_sim_first R.chain R.nesting (runRule_spec hk TS.pure _)
      (runRule_sim R hk hk' (tokenize_sim R f) TS _) S hlo hlt hne hi hlv h
end tok

end MdIt.Block.Li
