/-
  C11, code SPANS, DOCUMENT level: the core chain behind the block pass and the renderer on a block tree
  `wrapForest w (paraLeaf l …)` — a one-line paragraph `l = pre ++ span ++ post` inside the containers `w`
  (`w = []`: top level) — whose inline run is the one of `C11S.parseInline_span`.

    splice walk     `splice_wrapForest`, `spliceList_placeholder`
    FragmentsJoin   `joinFix_spanNodes` (the `CodeInline` node and its text child stay, the texts on either side are
                    not merged across it), `joinFix_wrapForestN`
    SyntaxPosRule   `sourcepos_spanNodes`, `sourcepos_wrapForestN`
    render          `render_wrapForestN`, `renderList_spanNodes`
    serializer      `out_span`, `blocky_para`, `out_tight_item`, `blocky_spanForest`
  The paragraph is unwrapped by `mark_tight_paragraphs` exactly when the innermost wrapper is a list item
  (`tightOf w`): then the item renders `<li>` + inline HTML + `</li>` (`Wrapper.htmlTight`), else the wrappers stand
  around `<p>` … `</p>` LF (`spanHtmlA`).
-/
import MdIt.Props.C11Nested
import MdIt.Lemmas.C11SpanInline
set_option linter.unusedSimpArgs false
set_option linter.unusedVariables false

namespace MdIt.C11N
open MdIt.Block MdIt.Block.Li MdIt.Pipeline
open MdIt.Lines (NoTerm lead)
open MdIt.Render (Event piece piecesFrom flatten solAfter attrsStr escapeHtml)
open MdIt.NodeRender (aSourcepos tP tCode tBlockquote tUl tOl tLi olAttrs)
open MdIt.C11S (spanOf PlainTxt textNodes codeNode)

/-! ## 1. the inline nodes, as nodes of the document -/

/-- the `Text` node of a stretch `s` at inline offset `p` (table `[(0, x)]`), attributes `att range` — none for
    an empty stretch -/
def txtN (att : Nat × Nat → List (List Char × List Char)) (x p : Nat) (s : List Char) : List Node :=
  if s = [] then []
  else [⟨.inl (.text s), some (x + p, x + (p + Lines.byteLen s)), att (x + p, x + (p + Lines.byteLen s)), []⟩]

/-- the `CodeInline` node over the whole span `` `ᵏ⁺¹ ␠ T ␠ `ᵏ⁺¹ `` at inline offset `p`; its ONE child is the
    text `T` with every line feed turned into a space, ranging over `T` (between the padding spaces) -/
def codeN (att : Nat × Nat → List (List Char × List Char)) (x p k : Nat) (T : List Char) : Node :=
  ⟨.inl (.codeInline '`' (k + 1)), some (x + p, x + (p + (2 * (k + 1) + 2 + Lines.byteLen T))),
    att (x + p, x + (p + (2 * (k + 1) + 2 + Lines.byteLen T))),
    [⟨.inl (.text (CodePair.normalise T)), some (x + (p + (k + 1) + 1), x + (p + (k + 1) + 1 + Lines.byteLen T)),
      att (x + (p + (k + 1) + 1), x + (p + (k + 1) + 1 + Lines.byteLen T)), []⟩]⟩

/-- the children of the paragraph: text of `pre` (if any), the code span, text of `post` (if any) -/
def spanNodes (att : Nat × Nat → List (List Char × List Char)) (x k : Nat) (pre T post : List Char) : List Node :=
  txtN att x 0 pre ++ [codeN att x (Lines.byteLen pre) k T] ++
    txtN att x (Lines.byteLen pre + (2 * (k + 1) + 2 + Lines.byteLen T)) post

theorem ofInlineList_append (a b : List Inline.Node) : ofInlineList (a ++ b) = ofInlineList a ++ ofInlineList b := by
  induction a with
  | nil => rfl
  | cons c r ih => simp [ofInlineList, ih]

theorem ofInlineList_textNodes (x p : Nat) (s : List Char) :
    ofInlineList (textNodes x p s) = txtN (fun _ => []) x p s := by
  unfold textNodes txtN
  split
  · rfl
  · simp [ofInlineList, ofInline, Inline.Node.newText, C05I.linesLen_eq]

theorem ofInline_codeNode (x p k : Nat) (T : List Char) :
    ofInline (codeNode x p k T) = codeN (fun _ => []) x p k T := by
  simp [codeNode, codeN, ofInline, ofInlineList, Inline.Node.newText, C05I.linesLen_eq]

theorem ofInlineList_span (x k : Nat) (pre T post : List Char) :
    ofInlineList (textNodes x 0 pre ++ [codeNode x (InlineOps.byteLen pre) k T] ++
      textNodes x (InlineOps.byteLen pre + (2 * (k + 1) + 2 + InlineOps.byteLen T)) post) =
      spanNodes (fun _ => []) x k pre T post := by
  rw [ofInlineList_append, ofInlineList_append, ofInlineList_textNodes, ofInlineList_textNodes]
  simp only [ofInlineList, ofInline_codeNode, spanNodes, C05I.linesLen_eq]

/-! ## 2. the forest of wrapper nodes in the document tree -/

/-- the wrapper's nodes (attributes `a`) around a list of children -/
def Wrapper.dnodeL (x : Wrapper) (a : List (List Char × List Char)) (r : Nat × Nat) (cs : List Node) : Node :=
  if x.isQuote then ⟨.blk x.kind, some r, a, cs⟩
  else ⟨.blk x.kind, some r, a, [⟨.blk .listItem, some r, a, cs⟩]⟩

/-- the document's wrapper nodes (all up to `E`, attributes `att range`) around the innermost children `leaf` -/
def wrapForestN (att : Nat × Nat → List (List Char × List Char)) (E : Nat) : List Wrapper → Nat → List Node → List Node
  | [], _, leaf => leaf
  | x :: ws, off, leaf => [x.dnodeL (att (off, E)) (off, E) (wrapForestN att E ws (off + x.width) leaf)]

/-- the innermost children: the paragraph (from byte `s` to `E`) over the inline nodes — or, in a tight item, the
    inline nodes themselves -/
def spanLeaf (att : Nat × Nat → List (List Char × List Char)) (s E : Nat) (tg : Bool) (inl : List Node) : List Node :=
  if tg then inl else [⟨.blk .paragraph, some (s, E), att (s, E), inl⟩]

/-! ### the splice walk -/

theorem spliceList_placeholder (icfg : Inline.Cfg) (c : List Char) (m : List (Nat × Nat)) (W : Nat)
    (ns : List Inline.Node) (h : Inline.parseInline icfg c (m.map fun kv => (kv.1, kv.2 + W)) = .ok ns) :
    spliceList icfg [inlineRootAt c m W] = .ok (ofInlineList ns) := by
  simp [spliceList, inlineRootAt, h]

theorem spliceList_paraLeaf (icfg : Inline.Cfg) (c : List Char) (m : List (Nat × Nat)) (a W E : Nat) (tg : Bool)
    (ns : List Inline.Node) (h : Inline.parseInline icfg c (m.map fun kv => (kv.1, kv.2 + W)) = .ok ns) :
    spliceList icfg (paraLeaf c m a W E tg) = .ok (spanLeaf (fun _ => []) (W + a) E tg (ofInlineList ns)) := by
  have h1 := spliceList_placeholder icfg c m W ns h
  cases tg
  · simp [paraLeaf, spanLeaf, spliceList, spliceNode, inlineRootAt, h]
  · simpa only [paraLeaf, spanLeaf, if_true] using h1

theorem splice_wrapForest (icfg : Inline.Cfg) (E : Nat) (leaf : List BNode) (leaf' : List Node)
    (hleaf : spliceList icfg leaf = .ok leaf') :
    ∀ (ws : List Wrapper) (off : Nat),
      spliceList icfg (wrapForest E ws off leaf) = .ok (wrapForestN (fun _ => []) E ws off leaf')
  | [], _ => hleaf
  | x :: ws, off => by
    have ih := splice_wrapForest icfg E leaf leaf' hleaf ws (off + x.width)
    cases x <;>
      simp [wrapForest, wrapForestN, Wrapper.nodeL, Wrapper.dnodeL, Wrapper.isQuote, Wrapper.kind, spliceList,
        spliceNode, ih]

/-! ### `FragmentsJoin` -/

/-- a child vector `fragments_join` and the walk below it leave alone -/
def JoinFix (cs : List Node) : Prop := fragmentsJoin cs = cs ∧ joinList cs = cs

theorem joinNode_of_fix (kd : Pipeline.Kind) (r : Option (Nat × Nat)) (a : List (List Char × List Char))
    (cs : List Node) (h : JoinFix cs) : joinNode ⟨kd, r, a, cs⟩ = ⟨kd, r, a, cs⟩ := by
  rw [joinNode_eq]
  simp only [h.1, h.2]

theorem joinFix_blk (c : Node) (bk : Block.Kind) (hk : c.kind = .blk bk) (hc : joinNode c = c) : JoinFix [c] := by
  refine ⟨?_, by simp [joinList_eq_map, hc]⟩
  simp [fragmentsJoin, pass1, mergeAll, mergeLoop, markerToText, keep, Node.isText, hk]

theorem joinFix_dnodeL (x : Wrapper) (a : List (List Char × List Char)) (r : Nat × Nat) (cs : List Node)
    (h : JoinFix cs) : JoinFix [x.dnodeL a r cs] := by
  unfold Wrapper.dnodeL
  split
  · exact joinFix_blk _ x.kind rfl (joinNode_of_fix _ _ _ _ h)
  · exact joinFix_blk _ x.kind rfl
      (joinNode_of_fix _ _ _ _ (joinFix_blk _ .listItem rfl (joinNode_of_fix _ _ _ _ h)))

theorem joinFix_wrapForestN (att : Nat × Nat → List (List Char × List Char)) (E : Nat) (leaf : List Node)
    (hleaf : JoinFix leaf) : ∀ (ws : List Wrapper) (off : Nat), JoinFix (wrapForestN att E ws off leaf)
  | [], _ => hleaf
  | x :: ws, off => joinFix_dnodeL x _ _ _ (joinFix_wrapForestN att E leaf hleaf ws (off + x.width))

theorem normalise_ne_nil' {T : List Char} (h : T ≠ []) : CodePair.normalise T ≠ [] := by
  cases T with
  | nil => exact absurd rfl h
  | cons c r => simp [CodePair.normalise]

theorem joinNode_text (s : List Char) (r : Option (Nat × Nat)) (a : List (List Char × List Char)) :
    joinNode ⟨.inl (.text s), r, a, []⟩ = ⟨.inl (.text s), r, a, []⟩ := by
  rw [joinNode_eq]
  simp [fragmentsJoin, pass1, mergeAll, joinList_eq_map]

theorem joinNode_codeN (att : Nat × Nat → List (List Char × List Char)) (x p k : Nat) (T : List Char) (hT : T ≠ []) :
    joinNode (codeN att x p k T) = codeN att x p k T := by
  have hn := normalise_ne_nil' hT
  unfold codeN
  refine joinNode_of_fix _ _ _ _ ⟨?_, by simp [joinList_eq_map, joinNode_text]⟩
  simp [fragmentsJoin, pass1, mergeAll, mergeLoop, markerToText, keep, Node.isText, Node.content, hn]

theorem joinList_txtN (att : Nat × Nat → List (List Char × List Char)) (x p : Nat) (s : List Char) :
    joinList (txtN att x p s) = txtN att x p s := by
  unfold txtN
  split
  · simp [joinList_eq_map]
  · simp [joinList_eq_map, joinNode_text]

/-- **the join pass on the paragraph's children**: no marker to turn into text, no two adjacent texts (the
    `CodeInline` node stands between them), no empty text — nothing changes -/
theorem joinFix_spanNodes (att : Nat × Nat → List (List Char × List Char)) (x k : Nat) (pre T post : List Char)
    (hT : T ≠ []) : JoinFix (spanNodes att x k pre T post) := by
  refine ⟨?_, ?_⟩
  · by_cases h1 : pre = [] <;> by_cases h2 : post = [] <;>
      simp [spanNodes, txtN, codeN, h1, h2, fragmentsJoin, pass1, mergeAll, mergeLoop, markerToText, keep, Node.isText,
        Node.content]
  · have hl : ∀ a b : List Node, joinList (a ++ b) = joinList a ++ joinList b := by
      intro a b; simp [joinList_eq_map]
    simp only [spanNodes, hl, joinList_txtN]
    simp [joinList_eq_map, joinNode_codeN att x _ k T hT]

theorem joinFix_spanLeaf (att : Nat × Nat → List (List Char × List Char)) (s E : Nat) (tg : Bool) (inl : List Node)
    (h : JoinFix inl) : JoinFix (spanLeaf att s E tg inl) := by
  cases tg
  · exact joinFix_blk _ .paragraph rfl (joinNode_of_fix _ _ _ _ h)
  · exact h

/-! ### `SyntaxPosRule` -/

theorem sourceposList_append (src : List Char) (marks : List SourceMap.Mark) (a b a' b' : List Node)
    (ha : sourceposList src marks a = .ok a') (hb : sourceposList src marks b = .ok b') :
    sourceposList src marks (a ++ b) = .ok (a' ++ b') := by
  induction a generalizing a' with
  | nil => simp [sourceposList] at ha; subst ha; simpa using hb
  | cons c r ih =>
    rw [sourceposList] at ha
    cases hc : sourceposNode src marks c with
    | error e => rw [hc] at ha; cases ha
    | ok c' =>
      rw [hc] at ha
      cases hr : sourceposList src marks r with
      | error e => rw [hr] at ha; cases ha
      | ok r' =>
        rw [hr] at ha
        simp only [Except.ok.injEq] at ha
        subst ha
        simp only [List.cons_append, sourceposList, hc, ih r' hr]

theorem sourcepos_txtN (src : List Char) (x p : Nat) (s : List Char) :
    sourceposList src (SourceMap.mkMarks src) (txtN (fun _ => []) x p s) = .ok (txtN (spOn src) x p s) := by
  unfold txtN
  split
  · rfl
  · simp [sourceposList, sourceposNode, sourceposAttrs_eq, spOn]

theorem sourcepos_codeN (src : List Char) (x p k : Nat) (T : List Char) :
    sourceposNode src (SourceMap.mkMarks src) (codeN (fun _ => []) x p k T) = .ok (codeN (spOn src) x p k T) := by
  simp [codeN, sourceposList, sourceposNode, sourceposAttrs_eq, spOn]

theorem sourcepos_spanNodes (src : List Char) (x k : Nat) (pre T post : List Char) :
    sourceposList src (SourceMap.mkMarks src) (spanNodes (fun _ => []) x k pre T post) =
      .ok (spanNodes (spOn src) x k pre T post) := by
  unfold spanNodes
  refine sourceposList_append _ _ _ _ _ _ (sourceposList_append _ _ _ _ _ _ (sourcepos_txtN _ _ _ _) ?_)
    (sourcepos_txtN _ _ _ _)
  simp [sourceposList, sourcepos_codeN]

theorem sourcepos_spanLeaf (src : List Char) (s E : Nat) (tg : Bool) (inl inl' : List Node)
    (h : sourceposList src (SourceMap.mkMarks src) inl = .ok inl') :
    sourceposList src (SourceMap.mkMarks src) (spanLeaf (fun _ => []) s E tg inl) = .ok (spanLeaf (spOn src) s E tg inl') := by
  cases tg
  · simp [spanLeaf, sourceposList, sourceposNode, sourceposAttrs_eq, spOn, h]
  · simpa [spanLeaf] using h

theorem sourcepos_wrapForestN (src : List Char) (E : Nat) (leaf leaf' : List Node)
    (hleaf : sourceposList src (SourceMap.mkMarks src) leaf = .ok leaf') :
    ∀ (ws : List Wrapper) (off : Nat),
      sourceposList src (SourceMap.mkMarks src) (wrapForestN (fun _ => []) E ws off leaf) =
        .ok (wrapForestN (spOn src) E ws off leaf')
  | [], _ => hleaf
  | x :: ws, off => by
    have ih := sourcepos_wrapForestN src E leaf leaf' hleaf ws (off + x.width)
    simp only [wrapForestN, Wrapper.dnodeL]
    split <;> simp [sourceposNode, sourceposList, sourceposAttrs_eq, spOn, ih]

/-- **the core chain behind the block pass** on `Root[forest]`: the splice walk (`hsp`), the join pass (identity,
    `hj`), `SyntaxPosRule` (`hs`) -/
theorem afterBlocks_forest (cfg : DocCfg) (src : List Char) (rg : Nat × Nat) (refs : Refs.RefMap)
    (bs : List BNode) (f0 f1 : List Node) (hsp : spliceList (cfg.inlineCfg refs) bs = .ok f0) (hj : JoinFix f0)
    (hoff : cfg.sourcepos = false → f1 = f0)
    (hon : cfg.sourcepos = true → sourceposList src (SourceMap.mkMarks src) f0 = .ok f1) :
    afterBlocks cfg src ⟨.root, some rg, bs⟩ refs = .ok ⟨.blk .root, some rg, spAttrs cfg src rg, f1⟩ := by
  unfold afterBlocks
  rw [spliceNode, hsp]
  simp only [joinNode_of_fix _ _ _ _ hj, ite_self]
  cases hs : cfg.sourcepos with
  | false => simp [spAttrs, hs, hoff hs]
  | true => simp [spAttrs, hs, sourceposNode, sourceposAttrs_eq, hon hs]

/-! ## 3. the renderer -/

/-- the trait calls of a text node: none for an empty stretch -/
def txtE (s : List Char) : List Event := if s = [] then [] else [.text s]

/-- the trait calls of the paragraph's children: `text(pre)`, `open("code", attrs)`, `text(T')`, `close("code")`,
    `text(post)` -/
def spanEvents (a : List (List Char × List Char)) (pre T' post : List Char) : List Event :=
  txtE pre ++ [.open tCode a, .text T', .close tCode] ++ txtE post

theorem renderList_append (lookup : List Char → Option (List Char)) (a b : List NodeRender.Node) (ea eb : List Event)
    (ha : NodeRender.renderList lookup a = .ok ea) (hb : NodeRender.renderList lookup b = .ok eb) :
    NodeRender.renderList lookup (a ++ b) = .ok (ea ++ eb) := by
  induction a generalizing ea with
  | nil => simp [NodeRender.renderList] at ha; subst ha; simpa using hb
  | cons c r ih =>
    rw [NodeRender.renderList] at ha
    cases hc : NodeRender.render lookup c with
    | error e => rw [hc] at ha; cases ha
    | ok c' =>
      rw [hc] at ha
      cases hr : NodeRender.renderList lookup r with
      | error e => rw [hr] at ha; cases ha
      | ok r' =>
        rw [hr] at ha
        simp only [Except.ok.injEq] at ha
        subst ha
        simp only [List.cons_append, NodeRender.renderList, hc, ih r' hr, List.append_assoc]

theorem toRenderList_append (lp : List Char) (a b : List Node) :
    toRenderList lp (a ++ b) = toRenderList lp a ++ toRenderList lp b := by
  induction a with
  | nil => rfl
  | cons c r ih => simp [toRenderList, ih]

theorem renderList_txtN (lookup : List Char → Option (List Char)) (lp : List Char)
    (att : Nat × Nat → List (List Char × List Char)) (x p : Nat) (s : List Char) :
    NodeRender.renderList lookup (toRenderList lp (txtN att x p s)) = .ok (txtE s) := by
  unfold txtN txtE
  split
  · rfl
  · simp [toRenderList, toRender, Kind.toRender, NodeRender.renderList, NodeRender.render]

theorem renderList_spanNodes (lookup : List Char → Option (List Char)) (lp : List Char)
    (att : Nat × Nat → List (List Char × List Char)) (x k : Nat) (pre T post : List Char) :
    NodeRender.renderList lookup (toRenderList lp (spanNodes att x k pre T post)) =
      .ok (spanEvents (att (x + Lines.byteLen pre, x + (Lines.byteLen pre + (2 * (k + 1) + 2 + Lines.byteLen T))))
        pre (CodePair.normalise T) post) := by
  unfold spanNodes spanEvents
  rw [toRenderList_append, toRenderList_append]
  refine renderList_append _ _ _ _ _ (renderList_append _ _ _ _ _ (renderList_txtN _ _ _ _ _ _) ?_)
    (renderList_txtN _ _ _ _ _ _)
  simp [codeN, toRenderList, toRender, Kind.toRender, NodeRender.renderList, NodeRender.render, NodeRender.wrap]

/-- the trait calls of the innermost children -/
def leafEvents (ap : List (List Char × List Char)) (tg : Bool) (inl : List Event) : List Event :=
  if tg then inl else [.cr, .open tP ap] ++ inl ++ [.close tP, .cr]

theorem renderList_spanLeaf (lookup : List Char → Option (List Char)) (lp : List Char)
    (att : Nat × Nat → List (List Char × List Char)) (s E : Nat) (tg : Bool) (inl : List Node) (ev : List Event)
    (h : NodeRender.renderList lookup (toRenderList lp inl) = .ok ev) :
    NodeRender.renderList lookup (toRenderList lp (spanLeaf att s E tg inl)) = .ok (leafEvents (att (s, E)) tg ev) := by
  cases tg
  · simp [spanLeaf, leafEvents, toRenderList, toRender, Kind.toRender, NodeRender.renderList, NodeRender.render,
      NodeRender.wrap, h]
  · simpa [spanLeaf, leafEvents] using h

theorem render_wrapForestN (lookup : List Char → Option (List Char)) (lp : List Char)
    (att : Nat × Nat → List (List Char × List Char)) (E : Nat) (leaf : List Node) (leafE : List Event)
    (hleaf : NodeRender.renderList lookup (toRenderList lp leaf) = .ok leafE) :
    ∀ (ws : List Wrapper) (off : Nat),
      NodeRender.renderList lookup (toRenderList lp (wrapForestN att E ws off leaf)) =
        .ok (wrapEvents att E (fun _ => leafE) ws off)
  | [], _ => hleaf
  | x :: ws, off => by
    have ih := render_wrapForestN lookup lp att E leaf leafE hleaf ws (off + x.width)
    cases x <;>
      simp [wrapForestN, Wrapper.dnodeL, Wrapper.isQuote, Wrapper.kind, toRender, toRenderList, Kind.toRender,
        NodeRender.render, NodeRender.renderList, NodeRender.wrap, ih, wrapEvents, Wrapper.events]

theorem renderEvents_rootL (cfg : DocCfg) (rg : Option (Nat × Nat)) (a0 : List (List Char × List Char)) (cs : List Node)
    (evs : List Event) (h : NodeRender.renderList cfg.entity (toRenderList cfg.langPrefix cs) = .ok evs) :
    renderEvents cfg ⟨.blk .root, rg, a0, cs⟩ = .ok evs := by
  simp [renderEvents, toRender, Kind.toRender, NodeRender.render, h]

/-! ## 4. the serializer -/

/-- the inline HTML: escaped `pre`, `<code ATTRS>`, escaped `T'`, `</code>`, escaped `post` -/
def inlHtml (a : List (List Char × List Char)) (pre T' post : List Char) : List Char :=
  escapeHtml pre ++ openTag tCode a ++ escapeHtml T' ++ closeTag tCode ++ escapeHtml post

theorem out_txtE (x sol : Bool) (s : List Char) (r : List Event) (f : Bool → List Char)
    (hr : ∀ s', out x s' r = f s') :
    out x sol (txtE s ++ r) = escapeHtml s ++ f (solAfter sol (escapeHtml s)) := by
  unfold txtE
  split
  · rename_i h; subst h
    simp [Render.escapeHtml, solAfter, hr]
  · simp only [List.singleton_append, out_cons, piece, hr]

/-- **the serializer on the paragraph's children**: whatever the buffer, they append the inline HTML — no `cr`
    among them — and leave the buffer not at the start of a line -/
theorem out_span (x sol : Bool) (a : List (List Char × List Char)) (pre T' post : List Char) (r : List Event)
    (H : List Char) (hr : ∀ s', out x s' (.close tCode :: (txtE post ++ r)) = closeTag tCode ++ escapeHtml post ++ H) :
    out x sol (spanEvents a pre T' post ++ r) = inlHtml a pre T' post ++ H := by
  unfold spanEvents inlHtml
  rw [List.append_assoc, List.append_assoc,
    out_txtE x sol pre _ (fun s' => openTag tCode a ++ escapeHtml T' ++ closeTag tCode ++ escapeHtml post ++ H)]
  · simp [List.append_assoc]
  · intro s'
    simp only [List.cons_append, List.nil_append, out_cons, hr]
    simp [piece, openTag, List.append_assoc]

theorem out_close_txt (x s' : Bool) (t : List Char) (post : List Event) (r : List Event) (H : List Char)
    (hr : ∀ s'', out x s'' r = H) (P : List Char) (hp : ∀ s'', out x s'' (post ++ r) = P ++ H) :
    out x s' (.close t :: (post ++ r)) = closeTag t ++ P ++ H := by
  simp only [out_cons, hp]
  simp [piece, closeTag, List.append_assoc]

theorem out_txtE_tail (x : Bool) (post : List Char) (r : List Event) (H : List Char) (hr : ∀ s'', out x s'' r = H) :
    ∀ s'', out x s'' (txtE post ++ r) = escapeHtml post ++ H := by
  intro s''
  rw [out_txtE x s'' post r (fun _ => H) hr]

/-- the paragraph: `cr; open p; …; close p; cr` -/
theorem blocky_para (x : Bool) (ap a : List (List Char × List Char)) (pre T' post : List Char) :
    Blocky x (leafEvents ap false (spanEvents a pre T' post))
      (openTag tP ap ++ inlHtml a pre T' post ++ closeTag tP ++ ['\n']) := by
  refine ⟨Block.getLast?_snoc _ _, ?_⟩
  intro sol
  have hpost : ∀ s, out x s [.close tP, .cr] = closeTag tP ++ ['\n'] := by
    intro s
    simp only [out_cons, out_nil, sol_close, piece_cr, List.append_nil]
    simp [piece, closeTag]
  simp only [leafEvents, Bool.false_eq_true, if_false, List.cons_append, List.nil_append, out_cons, piece_cr, sol_open]
  rw [out_span x _ a pre T' post _ (closeTag tP ++ ['\n'])
    (fun s' => by
      rw [out_close_txt x s' tCode (txtE post) _ (closeTag tP ++ ['\n']) hpost (escapeHtml post)
        (out_txtE_tail x post _ _ hpost)])]
  simp [piece, openTag, List.append_assoc]

/-- the tight item: `open li; …; close li; cr` at the start of a line -/
theorem out_tight_item (x : Bool) (al a : List (List Char × List Char)) (pre T' post : List Char) :
    out x true ([.open tLi al] ++ spanEvents a pre T' post ++ [.close tLi, .cr]) =
      openTag tLi al ++ inlHtml a pre T' post ++ closeTag tLi ++ ['\n'] := by
  have hpost : ∀ s, out x s [.close tLi, .cr] = closeTag tLi ++ ['\n'] := by
    intro s
    simp only [out_cons, out_nil, sol_close, piece_cr, List.append_nil]
    simp [piece, closeTag]
  simp only [List.cons_append, List.nil_append, out_cons]
  rw [out_span x _ a pre T' post _ (closeTag tLi ++ ['\n'])
    (fun s' => by
      rw [out_close_txt x s' tCode (txtE post) _ (closeTag tLi ++ ['\n']) hpost (escapeHtml post)
        (out_txtE_tail x post _ _ hpost)])]
  simp [piece, openTag, List.append_assoc]

/-- the HTML of a list wrapper around a TIGHT item: no line feed behind `<li>` -/
def Wrapper.htmlTight (x : Wrapper) (a : List (List Char × List Char)) (inner : List Char) : List Char :=
  match x with
  | .quote => openTag tBlockquote a ++ ['\n'] ++ inner ++ closeTag tBlockquote ++ ['\n']
  | .bullet _ => openTag tUl a ++ ['\n'] ++ (openTag tLi a ++ inner ++ closeTag tLi ++ ['\n']) ++ closeTag tUl ++ ['\n']
  | .ordered ds _ =>
    openTag tOl (olAttrs a (ordValue ds)) ++ ['\n'] ++ (openTag tLi a ++ inner ++ closeTag tLi ++ ['\n']) ++
      closeTag tOl ++ ['\n']

theorem blocky_tight (xh : Bool) (x : Wrapper) (hq : x.isQuote = false) (al a : List (List Char × List Char))
    (pre T' post : List Char) :
    Blocky xh (x.events al (spanEvents a pre T' post)) (x.htmlTight al (inlHtml a pre T' post)) := by
  cases x with
  | quote => cases hq
  | bullet c =>
    have := blocky_frame xh tUl al _ _ (Block.getLast?_snoc _ _) (out_tight_item xh al a pre T' post)
    simpa [Wrapper.events, Wrapper.htmlTight, List.append_assoc] using this
  | ordered ds dl =>
    have := blocky_frame xh tOl (olAttrs al (ordValue ds)) _ _ (Block.getLast?_snoc _ _)
      (out_tight_item xh al a pre T' post)
    simpa [Wrapper.events, Wrapper.htmlTight, List.append_assoc] using this

/-- the HTML of the wrapped paragraph (attributes `att range` on the wrapper nodes): the wrappers' tags around
    the paragraph `paraH` — or, when the innermost wrapper is a list item, around the tight item over `inlH` -/
def spanHtmlA (att : Nat × Nat → List (List Char × List Char)) (E : Nat) (paraH inlH : List Char) :
    List Wrapper → Nat → List Char
  | [], _ => paraH
  | [x], off => if x.isQuote then x.html (att (off, E)) paraH else x.htmlTight (att (off, E)) inlH
  | x :: y :: ws, off => x.html (att (off, E)) (spanHtmlA att E paraH inlH (y :: ws) (off + x.width))

theorem blocky_spanForest (xh : Bool) (att : Nat × Nat → List (List Char × List Char)) (E : Nat)
    (ap a : List (List Char × List Char)) (pre T' post : List Char) :
    ∀ (ws : List Wrapper) (off : Nat),
      Blocky xh (wrapEvents att E (fun _ => leafEvents ap (tightOf ws) (spanEvents a pre T' post)) ws off)
        (spanHtmlA att E (openTag tP ap ++ inlHtml a pre T' post ++ closeTag tP ++ ['\n']) (inlHtml a pre T' post) ws off)
  | [], _ => blocky_para xh ap a pre T' post
  | [x], off => by
    by_cases hq : x.isQuote = true
    · have : tightOf [x] = false := by simp [tightOf, stepTight, hq]
      simp only [this, wrapEvents, spanHtmlA, hq, if_true]
      exact blocky_wrapper xh x _ _ _ (blocky_para xh ap a pre T' post)
    · have hq' : x.isQuote = false := by simpa using hq
      have : tightOf [x] = true := by simp [tightOf, stepTight, hq']
      simp only [this, wrapEvents, spanHtmlA, hq', Bool.false_eq_true, if_false, leafEvents, if_true]
      exact blocky_tight xh x hq' _ a pre T' post
  | x :: y :: ws, off => by
    have ih := blocky_spanForest xh att E ap a pre T' post (y :: ws) (off + x.width)
    have ht : tightOf (x :: y :: ws) = tightOf (y :: ws) := rfl
    rw [ht]
    simp only [wrapEvents, spanHtmlA] at ih ⊢
    exact blocky_wrapper xh x _ _ _ ih

end MdIt.C11N
