/-
  C10 at whole-document level, part 2: the four block rules without call-backs (thematic break, ATX
  heading, indented code, fence) in lock step on related states (`MdIt/Lemmas/C10DocCore.lean`).
-/
import MdIt.Lemmas.C10DocCore

namespace MdIt.Block.LE
open MdIt.Lines (LineOffset)
variable {ρ : Nat → Nat → Prop} {G : Geo} {s₁ s₂ : BState}

theorem hr_sim (C : Ctx ρ G) (S : SRel ρ G s₁ s₂) (silent : Bool) :
    FRel (ResRel ρ G) (hrRule s₁ silent) (hrRule s₂ silent) := by
  unfold hrRule
  rw [S.line, S.lineIndent, S.getLine]
  refine frel_bind_same _ ?_
  intro ind _
  split
  · exact frel_pure ⟨rfl, S⟩
  refine frel_bind_same _ ?_
  intro line _
  split
  · exact frel_pure ⟨rfl, S⟩
  split
  · exact frel_pure ⟨rfl, S⟩
  split
  · exact frel_pure ⟨rfl, S⟩
  split
  · exact frel_pure ⟨rfl, S⟩
  split
  · exact frel_pure ⟨rfl, S⟩
  refine frel_bind (S.getMap C.shift _ _) ?_
  intro r₁ r₂ hr
  refine frel_pure ⟨rfl, ?_⟩
  srel_fields S
  exact S.children.push (NRel.mk (KRel.refl _) hr NRelL.nil)

theorem heading_sim (C : Ctx ρ G) (S : SRel ρ G s₁ s₂) (silent : Bool) :
    FRel (ResRel ρ G) (headingRule s₁ silent) (headingRule s₂ silent) := by
  unfold headingRule
  rw [S.line, S.lineIndent, S.getLine]
  refine frel_bind_same _ ?_
  intro ind _
  split
  · exact frel_pure ⟨rfl, S⟩
  refine frel_bind_same _ ?_
  intro line _
  split
  · exact frel_pure ⟨rfl, S⟩
  split
  · exact frel_pure ⟨rfl, S⟩
  split
  · exact frel_pure ⟨rfl, S⟩
  refine frel_bind_same _ ?_
  intro content _
  refine frel_bind (S.off _) ?_
  intro o₁ o₂ he
  refine frel_bind (S.getMap C.shift _ _) ?_
  intro r₁ r₂ hr
  refine frel_pure ⟨rfl, ?_⟩
  srel_fields S
  exact S.children.push (NRel.mk (KRel.refl _) hr
    (NRelL.single (nrel_inline (MRel.single (C.shift.add _ (he.first C.shift))))))

/-! ## indented code -/

theorem codeScan_sim (S : SRel ρ G s₁ s₂) :
    ∀ (k n last : Nat), s₁.lineMax - n = k → codeScan s₂ n last = codeScan s₁ n last := by
  intro k
  induction k with
  | zero =>
    intro n last hk
    rw [codeScan.eq_1 s₂, codeScan.eq_1 s₁, S.lineMax, if_neg (by omega), if_neg (by omega)]
  | succ k ih =>
    intro n last hk
    rw [codeScan.eq_1 s₂, codeScan.eq_1 s₁, S.lineMax, S.isEmpty, S.lineIndent]
    have hlt : n < s₁.lineMax := by omega
    rw [if_pos hlt, if_pos hlt]
    rw [ih (n + 1) last (by omega), ih (n + 1) (n + 1) (by omega)]

/-- the table passed through the loop of `get_lines` keeps what it already holds -/
theorem getLinesGo_prefix (src : List Char) (offs : List LineOffset) (e indent : Nat) (keep : Bool) :
    ∀ (k line : Nat) (result : List Char) (m : List (Nat × Nat)) (c : List Char) (m' : List (Nat × Nat)),
      e - line = k → Lines.getLinesGo src offs e indent keep line result m = .ok (c, m') → ∃ t, m' = m ++ t := by
  intro k
  induction k with
  | zero =>
    intro line result m c m' hk h
    rw [Lines.getLinesGo, if_neg (by omega)] at h
    cases h; exact ⟨[], by simp⟩
  | succ k ih =>
    intro line result m c m' hk h
    rw [Lines.getLinesGo, if_pos (by omega)] at h
    cases ho : offs[line]? with
    | none => rw [ho] at h; cases h
    | some o =>
      rw [ho] at h; simp only at h
      cases hws : Lines.slice src o.lineStart o.firstNonspace with
      | error e => rw [hws] at h; cases h
      | ok ws =>
        rw [hws] at h; simp only at h
        generalize Lines.calcRightWs ws (o.indentNonspace - Lines.usizeAsI32 indent) = p at h
        obtain ⟨ns, first⟩ := p
        simp only at h
        cases ht : Lines.slice src (o.lineStart + first) o.lineEnd with
        | error e => rw [ht] at h; cases h
        | ok t =>
          rw [ht] at h; simp only at h
          obtain ⟨t', ht'⟩ := ih (line + 1) _ _ _ _ (by omega) h
          by_cases hns : ns > 0
          · rw [if_pos hns] at ht'
            exact ⟨[(Lines.byteLen result, o.lineStart + first)] ++
              [(Lines.byteLen (result ++ List.replicate ns ' '), o.lineStart + first)] ++ t', by
                rw [ht']; simp only [List.append_assoc]⟩
          · rw [if_neg hns] at ht'
            exact ⟨[(Lines.byteLen result, o.lineStart + first)] ++ t', by
              rw [ht']; simp only [List.append_assoc]⟩

/-- the first entry of the table `get_lines` returns lies between `line_start` and `first_nonspace`
    of the first line -/
theorem getLines_head {src : List Char} {offs : List LineOffset} {b e indent : Nat} {keep : Bool}
    {c : List Char} {m0 : Nat × Nat} {rest : List (Nat × Nat)}
    (h : Lines.getLines src offs b e indent keep = .ok (c, m0 :: rest)) :
    b < e ∧ ∃ o, offs[b]? = some o ∧ o.lineStart ≤ m0.2 ∧ (o.lineStart ≤ o.firstNonspace → m0.2 ≤ o.firstNonspace) := by
  unfold Lines.getLines at h
  split at h
  · cases h
  · by_cases hbe : b < e
    · refine ⟨hbe, ?_⟩
      rw [Lines.getLinesGo, if_pos hbe] at h
      cases ho : offs[b]? with
      | none => rw [ho] at h; cases h
      | some o =>
        rw [ho] at h; simp only at h
        refine ⟨o, rfl, ?_⟩
        cases hws : Lines.slice src o.lineStart o.firstNonspace with
        | error e => rw [hws] at h; cases h
        | ok ws =>
          rw [hws] at h; simp only at h
          have hle := Lines.calc_right_le ws (o.indentNonspace - Lines.usizeAsI32 indent)
          generalize Lines.calcRightWs ws (o.indentNonspace - Lines.usizeAsI32 indent) = p at h hle
          obtain ⟨ns, first⟩ := p
          simp only at h hle
          cases ht : Lines.slice src (o.lineStart + first) o.lineEnd with
          | error e => rw [ht] at h; cases h
          | ok t =>
            rw [ht] at h; simp only at h
            obtain ⟨t', ht'⟩ := getLinesGo_prefix src offs e indent keep _ (b + 1) _ _ _ _ rfl h
            have hm0 : m0 = (Lines.byteLen ([] : List Char), o.lineStart + first) := by
              by_cases hns : ns > 0
              · rw [if_pos hns] at ht'; simp at ht'; exact ht'.1
              · rw [if_neg hns] at ht'; simp at ht'; exact ht'.1
            obtain ⟨p, q, _, hp1, hp2⟩ := Lines.slice_eq_ok_iff.mp hws
            rw [hm0]
            simp only
            exact ⟨by omega, fun _ => by omega⟩
    · rw [Lines.getLinesGo, if_neg hbe] at h
      cases h

theorem liftL_ok' {α : Type} {x : Except Lines.Panic α} {a : α} (h : liftL x = .ok a) : x = .ok a := by
  cases x with
  | error e => cases e <;> simp [liftL] at h
  | ok v => simp [liftL] at h; rw [h]

/-- the `debug_assert!` of `get_map_from_offsets` in `code.rs` cannot fire on a table whose lines are
    in increasing order -/
theorem code_assert_ok {T : List (Nat × Nat)} (hT : IncT T) {s : BState} (hg : s.offs.map geom = T)
    (hord : ∀ (n : Nat) (o : LineOffset), s.offs[n]? = some o → o.lineStart ≤ o.firstNonspace ∧ o.firstNonspace ≤ o.lineEnd)
    {b e indent : Nat} {keep : Bool} {c : List Char} {m0 : Nat × Nat} {rest : List (Nat × Nat)}
    (h : s.getLines b e indent keep = .ok (c, m0 :: rest)) {l1 : Nat} (hl : psub e 1 = .ok l1)
    {o : LineOffset} (ho : s.off l1 = .ok o) : ¬ m0.2 > o.lineEnd := by
  obtain ⟨hbe, ob, hob, h1, h2⟩ := getLines_head (liftL_ok' h)
  obtain ⟨_, rfl⟩ := psub_ok hl
  have ho' : s.offs[e - 1]? = some o := by
    unfold BState.off at ho
    split at ho
    · rename_i o' ho'; cases ho; exact ho'
    · cases ho
  have hb := hord b ob hob
  have he := hord (e - 1) o ho'
  by_cases hlt : b < e - 1
  · have g1 : T[b]? = some (geom ob) := by rw [← hg]; simp [hob]
    have g2 : T[e - 1]? = some (geom o) := by rw [← hg]; simp [ho']
    have := hT b (e - 1) _ _ hlt g1 g2
    simp only [geom] at this
    have := h2 hb.1
    omega
  · have : b = e - 1 := by omega
    rw [← this, hob] at ho'
    cases ho'
    have := h2 hb.1
    omega

theorem SRel.ord₁ (S : SRel ρ G s₁ s₂) :
    ∀ (n : Nat) (o : LineOffset), s₁.offs[n]? = some o → o.lineStart ≤ o.firstNonspace ∧ o.firstNonspace ≤ o.lineEnd := by
  intro n o ho
  rcases S.get n with ⟨h1, _⟩ | ⟨o₁, o₂, h1, _, he⟩
  · rw [h1] at ho; cases ho
  · rw [h1] at ho; cases ho
    have := he.nums; omega

theorem SRel.ord₂ (S : SRel ρ G s₁ s₂) :
    ∀ (n : Nat) (o : LineOffset), s₂.offs[n]? = some o → o.lineStart ≤ o.firstNonspace ∧ o.firstNonspace ≤ o.lineEnd := by
  intro n o ho
  rcases S.get n with ⟨_, h2⟩ | ⟨o₁, o₂, _, h2, he⟩
  · rw [h2] at ho; cases ho
  · rw [h2] at ho; cases ho
    have := he.nums; omega

/-- `frel_bind` that remembers where the two values came from -/
theorem frel_bind' {α β γ δ : Type} {R : α → β → Prop} {S : γ → δ → Prop}
    {x : Except Panic α} {y : Except Panic β} {f : α → Except Panic γ} {g : β → Except Panic δ}
    (h : FRel R x y) (hfg : ∀ a b, x = .ok a → y = .ok b → R a b → FRel S (f a) (g b)) :
    FRel S (x >>= f) (y >>= g) := by
  rcases h with rfl | ⟨a, b, rfl, rfl, hab⟩ | ⟨e, rfl, rfl⟩
  · exact .inl rfl
  · exact hfg a b rfl rfl hab
  · exact .inr (.inr ⟨e, rfl, rfl⟩)

theorem code_sim (C : Ctx ρ G) (S : SRel ρ G s₁ s₂) (silent : Bool) :
    FRel (ResRel ρ G) (codeRule s₁ silent) (codeRule s₂ silent) := by
  unfold codeRule
  split
  · exact frel_pure ⟨rfl, S⟩
  rw [S.line, S.lineIndent]
  refine frel_bind_same _ ?_
  intro ind _
  split
  · exact frel_pure ⟨rfl, S⟩
  rw [codeScan_sim S _ _ _ rfl]
  refine frel_bind_same _ ?_
  intro last _
  simp only
  rw [S.blkIndent]
  have S' : SRel ρ G { s₁ with line := last } { s₂ with line := last, blkIndent := s₁.blkIndent } := by
    srel_fields S
    exact S.children
  refine frel_bind' (S'.getLines C.shift _ _ _ _) ?_
  intro p₁ p₂ hp₁ hp₂ hp
  obtain ⟨c₁, m₁⟩ := p₁
  obtain ⟨c₂, m₂⟩ := p₂
  obtain ⟨hc, hm⟩ := hp
  simp only at hc hm ⊢
  subst hc
  match m₁, m₂, hm, hp₁, hp₂ with
  | [], [], _, _, _ => exact frel_err _
  | [], _ :: _, hm, _, _ => exact hm.elim
  | _ :: _, [], hm, _, _ => exact hm.elim
  | x :: r₁, y :: r₂, hm, hp₁, hp₂ =>
    simp only
    refine frel_bind_same _ ?_
    intro l1 hl1
    refine frel_bind' (S'.off _) ?_
    intro o₁ o₂ ho₁ ho₂ he
    have a₁ := code_assert_ok C.inc₁ S'.geo₁ S'.ord₁ hp₁ hl1 ho₁
    have a₂ := code_assert_ok C.inc₂ S'.geo₂ S'.ord₂ hp₂ hl1 ho₂
    rw [if_neg a₁, if_neg a₂]
    refine frel_pure ⟨rfl, ?_⟩
    srel_fields S'
    exact S'.children.push (NRel.mk (KRel.refl _) ⟨hm.head.2, he.end_ C.shift⟩ NRelL.nil)

/-! ## fences -/

theorem fenceScan_sim (S : SRel ρ G s₁ s₂) (marker : Char) (len : Nat) :
    ∀ (k n : Nat), s₁.lineMax - n = k → fenceScan s₂ marker len n = fenceScan s₁ marker len n := by
  intro k
  induction k with
  | zero =>
    intro n hk
    rw [fenceScan.eq_1 s₂, fenceScan.eq_1 s₁, S.lineMax, if_pos (by omega), if_pos (by omega)]
  | succ k ih =>
    intro n hk
    rw [fenceScan.eq_1 s₂, fenceScan.eq_1 s₁, S.lineMax, S.getLine, S.lineIndent]
    by_cases hlt : n + 1 ≥ s₁.lineMax
    · rw [if_pos hlt, if_pos hlt]
    · rw [if_neg hlt, if_neg hlt]
      rw [ih (n + 1) (by omega)]

theorem fence_sim (C : Ctx ρ G) (S : SRel ρ G s₁ s₂) (silent : Bool) :
    FRel (ResRel ρ G) (fenceRule s₁ silent) (fenceRule s₂ silent) := by
  unfold fenceRule
  rw [S.line, S.lineIndent, S.getLine]
  refine frel_bind_same _ ?_
  intro ind _
  split
  · exact frel_pure ⟨rfl, S⟩
  refine frel_bind_same _ ?_
  intro line _
  split
  · exact frel_pure ⟨rfl, S⟩
  split
  · exact frel_pure ⟨rfl, S⟩
  simp only
  split
  · exact frel_pure ⟨rfl, S⟩
  refine frel_bind_same _ ?_
  intro params _
  split
  · exact frel_pure ⟨rfl, S⟩
  split
  · exact frel_pure ⟨rfl, S⟩
  rw [fenceScan_sim S _ _ _ _ rfl]
  refine frel_bind_same _ ?_
  intro p _
  obtain ⟨nextLine, haveEnd⟩ := p
  simp only
  refine frel_bind (S.off _) ?_
  intro o₁ o₂ he
  rw [he.indent]
  refine frel_bind (S.getLines C.shift _ _ _ _) ?_
  intro q₁ q₂ hq
  obtain ⟨c₁, m₁⟩ := q₁
  obtain ⟨c₂, m₂⟩ := q₂
  obtain ⟨hc, _⟩ := hq
  simp only at hc ⊢
  subst hc
  refine frel_bind_same _ ?_
  intro e _
  refine frel_bind (S.getMap C.shift _ _) ?_
  intro r₁ r₂ hr
  refine frel_pure ⟨rfl, ?_⟩
  srel_fields S
  exact S.children.push (NRel.mk (KRel.refl _) hr NRelL.nil)

end MdIt.Block.LE
