/-
  Ingredients of `docH_html_inline_ranges` (`Props/PipelineH.lean`):
  * `InlineH.parseInlineH_ranges_window_raw` — `Props/InlineH.parseInlineH_ranges_window` BEFORE the post pass (the
    document pipeline runs the join pass at document level): the proof text of that theorem without its last step;
  * `InlineH.memoSafeH_flat` — for chains without link / image the memo check passes on every `MapOK` content
    within the size bound;
  * `Block.PUp` / `BlockH.parseBlocksH_upToAll` — every placeholder table of the ten-rule block pass maps
    `[0, |content|]` into `[0, |src|]` (`C05I.UpToAll`; tabs or not).
-/
import MdIt.Lemmas.PipelineHLen
import MdIt.Props.InlineH

namespace MdIt.InlineH
open MdIt.Inline
open MdIt.InlineOps (Srcmap getSourcePosFor getMap byteLen slice)

theorem parseInlineH_ranges_window_raw (cfg : CfgH)
    (hsz : ∀ mk csw, RuleIdH.base (.emph mk csw) ∈ cfg.chain → mk.utf8Size = 1) {content : List Char}
    {mapping : Srcmap} (hm : MapOK content mapping)
    (hsize : 2 * byteLen content + cfg.maxNesting < 2 ^ 31 - 1)
    (hs : memoSafeH cfg content mapping = true) {cs : List Node}
    (h : parseInlineH cfg content mapping = .ok cs) :
    ∃ lo hi, getSourcePosFor mapping (trimSrc content).1 = .ok lo ∧
      getSourcePosFor mapping (trimSrc content).2 = .ok hi ∧
      ∀ n, Desc n cs → ∃ a b, n.range = some (a, b) ∧ lo ≤ a ∧ a ≤ b ∧ b ≤ hi := by
  unfold memoSafeH at hs
  split at hs
  · next cs' hcs' =>
    have hmodel := parseInlineHG_ok hcs'
    unfold parseInlineHG at hcs'
    split at hcs'
    · simp at hcs'
    · next st' hst' =>
      simp only [Except.ok.injEq] at hcs'; subst hcs'
      obtain ⟨lo, hlo, hg⟩ := init_good hm
      obtain ⟨fr, _, hg', _⟩ := (guarded_no_panicH cfg.base cfg.chain (fun mk csw h => hsz mk csw (mem_base h))
        (fun r h => base_mem h) (topFuel cfg.base content) _ hg (memoB_init content mapping)
        (llpos_init content mapping)
        (show 2 * byteLen content + cfg.maxNesting < 2147483647 by simpa using hsize)).2 st' hst'
      obtain ⟨hi0, hhi0, hord⟩ := hg'.ri.ord
      have esm : st'.srcmap = mapping := fr.srcmap
      have epm : st'.posMax = (trimSrc content).2 := fr.posMax
      obtain ⟨hi, hhi⟩ := C05.translate_total mapping hm.wf (trimSrc content).2
      have hle : hi0 ≤ hi := by
        have hm' := hg'.map
        rw [esm] at hm' hhi0
        exact tr_mono hm' (by rw [← epm]; exact hg'.le) hhi0 hhi
      have hord' : OrderedN lo hi st'.children := hord.widen (Nat.le_refl _) hle
      rw [hmodel] at h
      simp only [Except.ok.injEq] at h; subst h
      exact ⟨lo, hi, hlo, hhi, fun n hd => desc_ranges hd lo hi hord' hg'.ri.deep⟩
  · simp at hs

theorem memoSafeH_flat (cfg : CfgH)
    (hfl : RuleIdH.base .link ∉ cfg.chain ∧ RuleIdH.base .image ∉ cfg.chain)
    (hsz : ∀ mk csw, RuleIdH.base (.emph mk csw) ∈ cfg.chain → mk.utf8Size = 1) {content : List Char}
    {mapping : Srcmap} (hm : MapOK content mapping)
    (hsize : 2 * byteLen content + cfg.maxNesting < 2 ^ 31 - 1) : memoSafeH cfg content mapping = true := by
  have heq : parseInlineHG cfg content mapping = parseInlineH cfg content mapping := by
    unfold parseInlineHG parseInlineH tokenizeH
    rw [tokLoopHG_flat cfg.base cfg.chain hfl]
    rfl
  obtain ⟨cs, hcs⟩ := parseInlineH_total_flat cfg hfl hsz hm hsize
  unfold memoSafeH
  rw [heq, hcs]

end MdIt.InlineH

namespace MdIt.Block
open MdIt.Lines (LineOffset)

/-- the claim about a placeholder: its table translates every position of the content into the source -/
def PUp (src0 : List Char) : InlP := fun c m _ _ => C05I.UpToAll c m (Lines.byteLen src0)

theorem inlSpec2_pup (src0 : List Char) : InlSpec2 src0 (PUp src0) := by
  refine ⟨?_, ?_⟩
  · intro s b e c m ob oe hg hgl hbe hob hoe hkept
    have hgl' := C05I.getLines_lift hgl
    obtain ⟨hs, h0⟩ := C05I.getLines_seg (V := True) hg.geo.table (Nat.zero_le _)
      hg.strict.orderD (fun _ => trivial) hbe hgl' hoe
    have hup := C05I.seg_upToAll hs (C05I.seg_wf hs h0)
    have hb := (hg.geo.table _ _ hoe).bounds
    rw [hg.srcEq] at hb
    intro pos x hp hx
    have := hup pos x hp hx
    omega
  · intro s o line content textPos textMax hg ho hline hcontent
    have h1 : Lines.getLine s.src s.offs s.line = .ok line := liftL_ok5 hline
    unfold Lines.getLine at h1
    rw [ho] at h1
    simp only at h1
    obtain ⟨hc, _⟩ := C05R.fa_heading_cut (hg.geo.table _ _ ho) h1 (liftL_ok5 hcontent)
    rw [hg.srcEq] at hc
    obtain ⟨p, q, hsrc, hp, _⟩ := hc
    have hlen := congrArg InlineOps.byteLen hsrc
    rw [C05.byteLen_append, C05.byteLen_append] at hlen
    intro pos x hpos hx
    rw [C05I.single_translate] at hx
    simp only [Except.ok.injEq] at hx
    rw [C05I.linesLen_eq] at hpos ⊢
    omega

end MdIt.Block

namespace MdIt.BlockH
open MdIt.Block

/-- every placeholder table of the ten-rule block pass translates `[0, |content|]` into `[0, |src|]` -/
theorem parseBlocksH_upToAll (cfg : CfgH) (src : List Char)
    (hsmall : 4 * Lines.byteLen src + 8 < 2147483648) (hpara : hasParaH cfg.chain = true)
    {root : BNode} {refs : Refs.RefMap} (hb : parseBlocksH cfg src = .ok (root, refs)) :
    AllInl (fun c m => C05I.UpToAll c m (Lines.byteLen src)) root := by
  obtain ⟨hr, hg⟩ := parseBlocksH_geo2 hpara (inlSpec2_pup src) hsmall hb
  refine hg.allInl (Q := fun c m => C05I.UpToAll c m (Lines.byteLen src)) (fun c m a b (h : PUp src c m a b) => h) ?_
  intro c m _ hnone
  rw [hr] at hnone
  cases hnone

end MdIt.BlockH
