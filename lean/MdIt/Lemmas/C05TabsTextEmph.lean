/-
  C05 for ALL sources, the text clause: the emphasis-marker rule and the delimiter matching
  (`scan_and_match_delimiters`) keep the frame invariant `FIV` of Lemmas/C05TabsDefs3.lean, for ANY
  table (virtual-space entries of split tabs included).

  Template: Lemmas/C05RestEmph.lean (the same code for `C05R.FI` under `C05R.Ctx`), followed lemma
  by lemma; everything about `Adjd` / `StrictTop` / runs of a one-byte marker is reused from there.
  (a) list lemmas about `FthLV` (the exemption flag is a parameter), (b) `te_matchInner` (invariant
  `te_IShape`), (c) `te_matchOuter` (`te_MInv`), (d) `te_scanAndMatch` (`te_LI` = `FIV` without the
  cursor), (e) `te_ruleEmph` and the deliverable `emphOKV : EmphOKV cfg src0`; at the end a worked
  instance (`te_ex_hyps`) and the witness that a space "marker" breaks the contract.

  Differences to the template:
  * `FthN src0` ↦ `FthNV src0 false`: an `EmphMarker` and a `wrap` node are not code spans, so their
    children are again `FthLV src0 false`.
  * the table hypothesis enters at ONE place, the new leaf in `te_ruleEmph`: the run of markers in
    front of the cursor starts with a solid character (`mk ≠ ' '`, `mk ≠ '\n'`) and holds no line
    feed, so `PFthV.copy` lowers it to the document (as in `be_ruleEmph`, Lemmas/C05TabsBdEmph.lean).
    Strictness of the new leaf needs no shift: the lowered run is an exact selection of
    `scanned.length ≥ 1` one-byte characters.
  * the two new fields of `FIV`: after the rule the last child is never a `Text` (`te_LI.notext`) —
    it is the new marker leaf, the closer remainder, or a `wrap` node.  The last alternative needs
    a new clause in the closer invariant (`te_CloserOK`, parameter `cS` = where the closer token
    started): as long as the last member of the list is a `Text` nothing has been matched, the
    closer range still starts at `cS`; a used-up closer has `s = eC > cS`.  So `tanch` is vacuous,
    and `anch` is proved from the marker run itself (a solid character in front of the new cursor).
    The fields `tanch` / `anch` of the incoming `FIV` are not used.
-/
import MdIt.Lemmas.C05TabsDefs3
import MdIt.Lemmas.C05TabsBdEmph

namespace MdIt.C05T
open MdIt.Inline
open MdIt.InlineOps (Srcmap getSourcePosFor getMap byteLen slice)
open MdIt.C05R (Cut Bdy Sel Adj Adjd StrictTop TextLike textOf)

/-! ## (a) sibling lists -/

theorem te_fthL_append {src : List Char} {ex : Bool} {a b : List Node} (ha : FthLV src ex a)
    (hb : FthLV src ex b) : FthLV src ex (a ++ b) := by
  rw [fthLV_iff] at *
  intro n hn
  rcases List.mem_append.mp hn with h | h
  · exact ha n h
  · exact hb n h

theorem te_fthL_left {src : List Char} {ex : Bool} {a b : List Node} (h : FthLV src ex (a ++ b)) :
    FthLV src ex a := by
  rw [fthLV_iff] at *
  exact fun n hn => h n (List.mem_append_left _ hn)

theorem te_fthL_right {src : List Char} {ex : Bool} {a b : List Node} (h : FthLV src ex (a ++ b)) :
    FthLV src ex b := by
  rw [fthLV_iff] at *
  exact fun n hn => h n (List.mem_append_right _ hn)

theorem te_fthL_single {src : List Char} {ex : Bool} {n : Node} (h : FthNV src ex n) :
    FthLV src ex [n] := ⟨h, trivial⟩

theorem te_fthL_mem {src : List Char} {ex : Bool} {l : List Node} (h : FthLV src ex l) {n : Node}
    (hn : n ∈ l) : FthNV src ex n := (fthLV_iff src ex l).mp h n hn

/-- a `wrap` node is not a code span: its children are not exempted -/
theorem te_fthN_wrap {src0 : List Char} {ex : Bool} {w : Wrap} {mk : Char} {a b : Nat}
    {cs : List Node} (ha : Bdy src0 a) (hb : Bdy src0 b) (hadj : Adjd cs) (hf : FthLV src0 false cs) :
    FthNV src0 ex (Node.mk (.wrap w mk) (some (a, b)) cs) := by
  rw [FthNV_eq]
  refine ⟨⟨a, b, rfl, ha, hb, ?_, ?_, ?_, hadj⟩, hf⟩
  · intro _ t ht; cases ht
  · intro ct mu info ht; cases ht
  · intro mk' l rem o c ht; cases ht

/-- an `EmphMarker` is not a code span either -/
theorem te_fthN_marker {src0 : List Char} {ex : Bool} {m : Marker} {a b : Nat} {cs : List Node}
    (hc : Cut src0 a b (List.replicate m.remaining m.marker)) (hu : m.marker.utf8Size = 1)
    (hadj : Adjd cs) (hf : FthLV src0 false cs) : FthNV src0 ex (Node.mk m.toVal (some (a, b)) cs) := by
  rw [FthNV_eq]
  refine ⟨⟨a, b, rfl, hc.bdy_left, hc.bdy_right, ?_, ?_, ?_, hadj⟩, hf⟩
  · intro _ t ht; simp [Marker.toVal] at ht
  · intro ct mu info ht; simp [Marker.toVal] at ht
  · intro mk' l rem o c ht
    simp only [Marker.toVal, Val.emphMarker.injEq] at ht
    obtain ⟨rfl, _, rfl, _, _⟩ := ht
    exact ⟨hc, hu⟩

theorem te_isCode_marker (m : Marker) : isCode m.toVal = false := rfl

theorem te_wrap_not_text (w : Wrap) (mk : Char) (r : Option (Nat × Nat)) (cs : List Node) :
    (Node.mk (.wrap w mk) r cs).isText = false := rfl

theorem te_marker_not_text (m : Marker) (r : Option (Nat × Nat)) (cs : List Node) :
    (Node.mk m.toVal r cs).isText = false := rfl

/-! ## (b) the inner loop -/

/-- the closer part of the matching state: its range `(s, eC)` selects exactly its remaining
    delimiters, a text-like last member of the list ends where the closer starts, and while the
    last member is a `Text` the closer still starts where its token started (`cS`) -/
def te_CloserOK (src0 : List Char) (cS eC s : Nat) (ms : MatchSt) : Prop :=
  ms.closerRange = some (s, eC) ∧
  Cut src0 s eC (List.replicate ms.closer.remaining ms.closer.marker) ∧
  ms.closer.marker.utf8Size = 1 ∧
  (∀ init last, ms.children = init ++ [last] → TextLike last → ∃ a, last.range = some (a, s)) ∧
  (∀ init last, ms.children = init ++ [last] → last.isText = true → s = cS)

/-- the shape of the children while the opener at index `pre.length` (range start `oS`) is being
    matched (`C05R.em_IShape` with the exempting `FthLV … false`) -/
def te_IShape (src0 : List Char) (cS eC : Nat) (pre : List Node) (oS : Nat) (opener : Marker)
    (ms : MatchSt) : Prop :=
  ∃ oE s, te_CloserOK src0 cS eC s ms ∧
    Cut src0 oS oE (List.replicate opener.remaining opener.marker) ∧ opener.marker.utf8Size = 1 ∧
    Adjd ms.children ∧ StrictTop ms.children ∧
    ((0 < opener.remaining ∧ ∃ otok tail, otok.range = some (oS, oE) ∧ Adjd otok.children ∧
        FthLV src0 false otok.children ∧ TextLike otok ∧ ms.children = pre ++ [otok] ++ tail ∧
        FthLV src0 false tail) ∨
     (opener.remaining = 0 ∧ ∃ tail, ms.children = pre ++ tail ∧ FthLV src0 false tail))

theorem te_matchInner {src0 : List Char} {cS eC : Nat} {fns : Nat → Option Wrap} {mk : Char}
    {room : Nat} {pre : List Node} {oS : Nat} :
    ∀ (fuel : Nat) (opener : Marker) (ms : MatchSt) (opener' : Marker) (ms' : MatchSt),
      matchInner fns mk room pre.length fuel opener ms = .ok (opener', ms') →
      te_IShape src0 cS eC pre oS opener ms → te_IShape src0 cS eC pre oS opener' ms' := by
  intro fuel
  induction fuel with
  | zero =>
    intro opener ms opener' ms' h hs
    simp only [matchInner, Except.ok.injEq, Prod.mk.injEq] at h
    obtain ⟨rfl, rfl⟩ := h; exact hs
  | succ fuel ih =>
    intro opener ms opener' ms' h hs
    unfold matchInner at h
    split at h
    · next hpos =>
      split at h
      · simp only [Except.ok.injEq, Prod.mk.injEq] at h
        obtain ⟨rfl, rfl⟩ := h; exact hs
      simp only at h
      split at h
      · simp only [Except.ok.injEq, Prod.mk.injEq] at h
        obtain ⟨rfl, rfl⟩ := h; exact hs
      · next ml w hpick =>
        obtain ⟨hml1, hml2⟩ := pickLen_le hpick
        obtain ⟨oE, s, ⟨hcr, hcc, hcu, hlast, _⟩, hoc, hou, hadj, hstr, hshape⟩ := hs
        rcases hshape with ⟨_, otok, tail, hor, hoa, hof, hotl, hch, hft⟩ | ⟨h0, _⟩
        · split at h
          · simp at h
          · split at h
            · simp at h
            · -- `head = pre ++ [otok]`, `tail` moves into the wrapper
              have hlen : pre.length + 1 = (pre ++ [otok]).length := by simp
              have htake : ms.children.take (pre.length + 1) = pre ++ [otok] := by
                rw [hch, hlen, List.take_left]
              have hdrop : ms.children.drop (pre.length + 1) = tail := by
                rw [hch, hlen, List.drop_left]
              rw [htake, hdrop, popLast_snoc, hcr] at h
              simp only [hor] at h
              split at h
              · simp at h
              · next otok' smp hcut =>
                split at hcut
                · simp at hcut
                · next hnu =>
                  simp only [Except.ok.injEq, Prod.mk.injEq] at hcut
                  obtain ⟨rfl, rfl⟩ := hcut
                  apply ih _ _ _ _ h
                  -- the state after one match
                  obtain ⟨hcE, _, cc2, _, _⟩ := C05R.em_cut_replicate_split hcu hcc
                    (show ml ≤ ms.closer.remaining by omega)
                  obtain ⟨hoE, _, _, oc3, _⟩ := C05R.em_cut_replicate_split hou hoc
                    (show ml ≤ opener.remaining by omega)
                  have hoE' := C05R.em_cut_replicate_len hou oc3
                  rw [hch] at hadj hstr
                  have hnew : FthNV src0 false (Node.mk (.wrap w mk) (some (oE - ml, s + ml)) tail) :=
                    te_fthN_wrap oc3.bdy_right cc2.bdy_left (C05R.em_adjd_right hadj) hft
                  have hnt := C05R.em_wrap_not_textLike w mk (some (oE - ml, s + ml)) tail
                  have hpreA : Adjd pre := C05R.em_adjd_left (C05R.em_adjd_left hadj)
                  have hpreS : StrictTop pre := C05R.em_strict_left (C05R.em_strict_left hstr)
                  have hnS : StrictTop [Node.mk (.wrap w mk) (some (oE - ml, s + ml)) tail] :=
                    C05R.em_strict_single (fun ht => absurd ht hnt)
                  refine ⟨oE - ml, s + ml, ⟨rfl, cc2, hcu, ?_, ?_⟩, oc3, hou, ?_, ?_, ?_⟩
                  · intro init last hl hlt
                    simp only at hl
                    obtain ⟨_, rfl⟩ := snoc_inj hl
                    exact absurd hlt hnt
                  · intro init last hl hlt
                    simp only at hl
                    obtain ⟨_, rfl⟩ := snoc_inj hl
                    rw [te_wrap_not_text] at hlt; cases hlt
                  · simp only
                    apply C05R.em_adjd_snoc_other _ hnt
                    by_cases hz : opener.remaining - ml = 0
                    · simp only [hz, if_true]; exact hpreA
                    · simp only [hz, if_false]
                      apply C05R.em_adjd_set_last (C05R.em_adjd_left hadj)
                      intro p hp tp _
                      obtain ⟨a1, b1, b2, e1, e2⟩ := hp tp hotl
                      rw [hor] at e2
                      simp only [Option.some.injEq, Prod.mk.injEq] at e2
                      exact ⟨a1, b1, oE - ml, e1, by rw [e2.1]⟩
                  · simp only
                    apply C05R.em_strict_append _ hnS
                    by_cases hz : opener.remaining - ml = 0
                    · simp only [hz, if_true]; exact hpreS
                    · simp only [hz, if_false]
                      apply C05R.em_strict_append hpreS
                      apply C05R.em_strict_single
                      intro _
                      exact ⟨oS, oE - ml, rfl, by omega⟩
                  · by_cases hz : opener.remaining - ml = 0
                    · right
                      refine ⟨hz, [_], ?_, te_fthL_single hnew⟩
                      simp only [hz, if_true]
                    · left
                      refine ⟨by simp only; omega, Node.mk otok.val (some (oS, oE - ml)) otok.children,
                        [_], rfl, hoa, hof, hotl, ?_, te_fthL_single hnew⟩
                      simp only [hz, if_false]
        · omega
    · simp only [Except.ok.injEq, Prod.mk.injEq] at h
      obtain ⟨rfl, rfl⟩ := h; exact hs

/-! ## (c) the outer loop -/

/-- the invariant of the outer loop -/
def te_MInv (src0 : List Char) (cS eC : Nat) (ms : MatchSt) : Prop :=
  FthLV src0 false ms.children ∧ Adjd ms.children ∧ StrictTop ms.children ∧
    ∃ s, te_CloserOK src0 cS eC s ms

/-- replacing a member by another one keeps a claim `P last → Q last` about the last member, if it
    carries over from the old member to the new one -/
theorem te_last_set {P Q : Node → Prop} {pre t : List Node} {x y : Node}
    (hxy : (P x → Q x) → P y → Q y)
    (h : ∀ init last, pre ++ [x] ++ t = init ++ [last] → P last → Q last) :
    ∀ init last, pre ++ [y] ++ t = init ++ [last] → P last → Q last := by
  intro init last hl hlt
  rcases List.eq_nil_or_concat t with rfl | ⟨t', z, ht'⟩
  · simp only [List.append_nil] at hl
    obtain ⟨_, rfl⟩ := snoc_inj hl
    exact hxy (h pre x (by simp)) hlt
  · rw [List.concat_eq_append] at ht'; subst ht'
    have e1 : pre ++ [y] ++ (t' ++ [z]) = (pre ++ [y] ++ t') ++ [z] := by simp
    rw [e1] at hl
    obtain ⟨_, rfl⟩ := snoc_inj hl
    exact h (pre ++ [x] ++ t') z (by simp) hlt

theorem te_matchOuter {src0 : List Char} {cS eC : Nat} {fns : Nat → Option Wrap} {mk : Char}
    (room minIdx : Nat) :
    ∀ (k : Nat) (ms ms' : MatchSt), matchOuter fns mk room minIdx k ms = .ok ms' →
      te_MInv src0 cS eC ms → te_MInv src0 cS eC ms' := by
  intro k
  induction k with
  | zero =>
    intro ms ms' h hm
    simp only [matchOuter, Except.ok.injEq] at h; subst h; exact hm
  | succ k ih =>
    intro ms ms' h hm
    unfold matchOuter at h
    simp only at h
    split at h
    · simp at h
    next nxt hnxt =>
    -- the depth bookkeeping does not touch what `te_MInv` / `te_IShape` talk about
    have hm' : te_MInv src0 cS eC { ms with innerDepth := max ms.innerDepth (wrapDepth nxt) } := hm
    split at h
    · simp at h
    · next tok htok =>
      split at h
      · exact ih _ _ h hm'
      · next opener hop =>
        obtain ⟨hfl, hadj, hstr, s, hcl⟩ := hm
        obtain ⟨hsplit, hlen⟩ := split_at_getElem? htok
        obtain ⟨pre, hpredef⟩ : ∃ pre, pre = ms.children.take (minIdx + k) := ⟨_, rfl⟩
        obtain ⟨tl, htldef⟩ : ∃ tl, tl = ms.children.drop (minIdx + k + 1) := ⟨_, rfl⟩
        rw [← hpredef] at hlen
        rw [← hpredef, ← htldef] at hsplit
        -- the three parts of the list
        have hf3 := hfl
        rw [hsplit] at hf3
        have hpre : FthLV src0 false pre := te_fthL_left (te_fthL_left hf3)
        have htlF : FthLV src0 false tl := te_fthL_right hf3
        have htokF : FthNV src0 false tok := te_fthL_mem hfl (List.mem_of_getElem? htok)
        have htokT : TextLike tok := C05R.em_asMarker_textLike hop
        rw [FthNV_eq, C05R.em_asMarker_val hop, te_isCode_marker] at htokF
        obtain ⟨⟨oS, oE, hor, _, _, _, _, hmkc, hoa⟩, hof⟩ := htokF
        obtain ⟨hou, hoc⟩ := hmkc opener.marker opener.length opener.remaining opener.open_
          opener.close rfl
        have hrem : 0 < opener.remaining := by
          obtain ⟨a, b, hab, hlt⟩ := hstr tok (List.mem_of_getElem? htok) htokT
          rw [hor] at hab; simp only [Option.some.injEq, Prod.mk.injEq] at hab
          have := C05R.em_cut_replicate_len hoc hou
          omega
        -- the shape before the inner loop
        have hshape0 : te_IShape src0 cS eC pre oS opener
            { ms with innerDepth := max ms.innerDepth (wrapDepth nxt) } :=
          ⟨oE, s, hcl, hou, hoc, hadj, hstr, Or.inl ⟨hrem, tok, tl, hor, hoa, hof, htokT, hsplit, htlF⟩⟩
        split at h
        · simp at h
        · next opener' ms1 hgo =>
          have hshape : te_IShape src0 cS eC pre oS opener' ms1 := by
            split at hgo
            · rw [← hlen] at hgo
              exact te_matchInner _ _ _ _ _ hgo hshape0
            · simp only [Except.ok.injEq, Prod.mk.injEq] at hgo
              obtain ⟨rfl, rfl⟩ := hgo; exact hshape0
          obtain ⟨oE', s', ⟨hcr', hcc', hcu', hlast', htxt'⟩, hou', hoc', hadj', hstr', hsh⟩ := hshape
          split at h
          · next hpos =>
            split at h
            · simp at h
            · next cs hrep =>
              apply ih _ _ h
              rcases hsh with ⟨_, otok', tail', hor', hoa', hof', hotl', hch', hft'⟩ | ⟨h0, _⟩
              · -- the opener token gets its new value
                unfold replaceAt at hrep
                rw [hch', ← hlen, getElem?_mid] at hrep
                simp only [Except.ok.injEq] at hrep
                rw [set_mid] at hrep
                subst hrep
                have hnewF : FthNV src0 false (Node.mk opener'.toVal otok'.range otok'.children) := by
                  rw [hor']; exact te_fthN_marker hou' hoc' hoa' hof'
                have hrng : (Node.mk opener'.toVal otok'.range otok'.children).range = otok'.range := rfl
                have htxt : TextLike (Node.mk opener'.toVal otok'.range otok'.children) →
                    TextLike otok' := fun _ => hotl'
                rw [hch'] at hadj' hstr' hlast' htxt'
                refine ⟨te_fthL_append (te_fthL_append hpre (te_fthL_single hnewF)) hft', ?_, ?_,
                  s', hcr', hcc', hcu', ?_, ?_⟩
                · exact C05R.em_adjd_set hadj' (fun p => C05R.em_adj_right_congr hrng htxt)
                    (fun q => C05R.em_adj_left_congr hrng htxt)
                · apply C05R.em_strict_append
                    (C05R.em_strict_append (C05R.em_strict_left (C05R.em_strict_left hstr')) _)
                    (C05R.em_strict_right hstr')
                  apply C05R.em_strict_single
                  intro _
                  exact hstr' otok' (by simp) hotl'
                · exact C05R.em_last_set hrng htxt hlast'
                · apply te_last_set (P := fun n => n.isText = true) (Q := fun _ => s' = cS) _ htxt'
                  intro _ ht
                  rw [te_marker_not_text] at ht; cases ht
              · omega
          · next hpos =>
            apply ih _ _ h
            rcases hsh with ⟨hp, _⟩ | ⟨h0, tail', hch', hft'⟩
            · omega
            · exact ⟨by rw [hch']; exact te_fthL_append hpre hft', hadj', hstr', s', hcr', hcc', hcu',
                hlast', htxt'⟩

/-! ## (d) `scan_and_match_delimiters` -/

/-- what the matching works on (`FIV` without the cursor): every member `FthNV … false`, mergeable
    neighbours adjacent, text-like members non-empty, a text-like LAST member ends at `eC`, and the
    last member is not a `Text` -/
structure te_LI (src0 : List Char) (eC : Nat) (cs : List Node) : Prop where
  deep : FthLV src0 false cs
  adj : Adjd cs
  strict : StrictTop cs
  tail : ∀ init last, cs = init ++ [last] → TextLike last → ∃ a, last.range = some (a, eC)
  notext : NoTextLast cs

theorem te_scanAndMatch {src0 : List Char} {eC : Nat} {fns : Nat → Option Wrap} {mk : Char}
    {room : Nat} {cs out : List Node} {b b' : List (Char × List Nat)} (hi : te_LI src0 eC cs)
    (h : scanAndMatch fns mk room cs b = .ok (out, b')) : te_LI src0 eC out := by
  unfold scanAndMatch at h
  split at h
  · simp only [Except.ok.injEq, Prod.mk.injEq] at h; rw [← h.1]; exact hi
  · split at h
    · simp at h
    · next init closerTok hpop =>
      have hcs : cs = init ++ [closerTok] := by
        rcases popLast_spec cs with ⟨hp, _⟩ | ⟨i, l, hp, hl⟩
        · rw [hp] at hpop; simp at hpop
        · rw [hp] at hpop; simp only [Option.some.injEq, Prod.mk.injEq] at hpop
          rw [hl, hpop.1, hpop.2]
      subst hcs
      split at h
      · simp at h
      · next closer hcl =>
        have hcT : TextLike closerTok := C05R.em_asMarker_textLike hcl
        have hcF : FthNV src0 false closerTok := te_fthL_mem hi.deep (by simp)
        rw [FthNV_eq, C05R.em_asMarker_val hcl, te_isCode_marker] at hcF
        obtain ⟨⟨cS, cE, hcr, _, _, _, _, hmkc, hca⟩, hcf⟩ := hcF
        obtain ⟨hcu, hcc⟩ := hmkc closer.marker closer.length closer.remaining closer.open_
          closer.close rfl
        obtain ⟨a0, ha0⟩ := hi.tail init closerTok rfl hcT
        rw [hcr] at ha0; simp only [Option.some.injEq, Prod.mk.injEq] at ha0
        obtain ⟨_, rfl⟩ := ha0
        -- the closer token is not empty
        have hcSE : cS < cE := by
          obtain ⟨a, b, hab, hlt⟩ := hi.strict closerTok (by simp) hcT
          rw [hcr] at hab; simp only [Option.some.injEq, Prod.mk.injEq] at hab
          omega
        simp only at h
        split at h
        · simp at h
        · split at h
          · simp at h
          · split at h
            · simp at h
            · next ms hms =>
              have hm0 : te_MInv src0 cS cE
                  { closer := closer, closerRange := closerTok.range, children := init,
                    newMin := init.length - 1 } := by
                refine ⟨te_fthL_left hi.deep, C05R.em_adjd_left hi.adj, C05R.em_strict_left hi.strict,
                  cS, hcr, hcu, hcc, ?_, fun _ _ _ _ => rfl⟩
                intro i l hl hlt
                simp only at hl; subst hl
                have hlink : Adj l closerTok :=
                  C05R.em_adjd_link (a := i) (x := l) (y := closerTok) (b := []) hi.adj
                obtain ⟨a1, b1, b2, e1, e2⟩ := hlink hlt hcT
                rw [hcr] at e2; simp only [Option.some.injEq, Prod.mk.injEq] at e2
                exact ⟨a1, by rw [e1, e2.1]⟩
              obtain ⟨hfl, hadj, hstr, s, hcr', hcu', hcc', hlast', htxt'⟩ :=
                te_matchOuter _ _ _ _ _ hms hm0
              have hlen := C05R.em_cut_replicate_len hcc' hcu'
              split at h
              · next hpos =>
                simp only [Except.ok.injEq, Prod.mk.injEq] at h; rw [← h.1]
                have hF : FthNV src0 false
                    (Node.mk ms.closer.toVal ms.closerRange closerTok.children) := by
                  rw [hcr']; exact te_fthN_marker hcu' hcc' hca hcf
                refine ⟨te_fthL_append hfl (te_fthL_single hF), C05R.em_adjd_snoc hadj ?_,
                  C05R.em_strict_append hstr (C05R.em_strict_single ?_), ?_, ?_⟩
                · intro i l hl tl _
                  obtain ⟨a, ha⟩ := hlast' i l hl tl
                  exact ⟨a, s, cE, ha, hcr'⟩
                · intro _
                  exact ⟨s, cE, hcr', by omega⟩
                · intro i l hl _
                  obtain ⟨_, rfl⟩ := snoc_inj hl
                  exact ⟨s, hcr'⟩
                · intro i l hl
                  obtain ⟨_, rfl⟩ := snoc_inj hl
                  rfl
              · next hpos =>
                simp only [Except.ok.injEq, Prod.mk.injEq] at h; rw [← h.1]
                have hs : s = cE := by omega
                subst hs
                refine ⟨hfl, hadj, hstr, hlast', ?_⟩
                intro i l hl
                cases hlt : l.isText with
                | false => rfl
                | true => have := htxt' i l hl hlt; omega

/-! ## (e) the rule -/

theorem te_ruleEmph {cfg : Cfg} {src0 : List Char} {mk : Char} {csw : Bool} {st st' : IState}
    {o : Option Nat} (hmk : mk.utf8Size = 1) (hnl : mk ≠ '\n') (hsp : mk ≠ ' ')
    (hc : CtxV src0 st.src st.srcmap)
    (hf : FIV src0 st.src st.srcmap st.posMax st.pos st.children)
    (h : ruleEmph cfg mk csw st false = .ok (o, st')) :
    FIV src0 st.src st.srcmap st.posMax (st'.pos + o.getD 0) st'.children := by
  unfold ruleEmph at h
  simp only [Bool.false_eq_true, if_false] at h
  split at h
  · simp at h
  · simp at h
  · next c w hw =>
    split at h
    · simp only [Except.ok.injEq, Prod.mk.injEq] at h; obtain ⟨rfl, rfl⟩ := h
      simpa using hf
    · next hcm =>
      have hcm' : c = mk := Decidable.not_not.mp hcm
      subst hcm'
      split at h
      · simp at h
      · next scanned hsc =>
        obtain ⟨mk', rest, hsl, _, hlen⟩ := scanDelims_length hsc
        unfold IState.window at hw
        rw [hw] at hsl
        simp only [Except.ok.injEq, List.cons.injEq] at hsl
        obtain ⟨rfl, rfl⟩ := hsl
        have hcut : Cut st.src st.pos st.posMax (c :: w) :=
          (C05R.cut_iff_ops _ _ _ _).mp (liftOps_ok.mp hw)
        have hrun := C05R.em_runLen_cut hmk hcut
        rw [← hlen] at hrun
        split at h
        · simp at h
        · next r hr =>
          obtain ⟨rx, ry⟩ := r
          obtain ⟨e1, e2, _⟩ := getMap_eq hr
          -- the run starts with a solid character and holds no line feed: a copy of source bytes
          have hlen1 : scanned.length = (scanned.length - 1) + 1 := by omega
          have hrun' : Cut st.src st.pos (st.pos + scanned.length)
              (c :: List.replicate (scanned.length - 1) c) := by
            rw [← List.replicate_succ, ← hlen1]; exact hrun
          have hlow : Cut src0 rx ry (List.replicate scanned.length c) :=
            hc.fth.copy _ _ _ _ _ _ _ _ _ hrun' hsp hnl (C05R.em_not_mem_replicate hnl _)
              (Nat.le_refl _) (Nat.le_refl _) hrun e1 e2
          have hrlen := C05R.em_cut_replicate_len hmk hlow
          have hleaf : FthNV src0 false (Node.leaf (.emphMarker c scanned.length scanned.length
              scanned.canOpen scanned.canClose) (some (rx, ry))) :=
            te_fthN_marker (m := ⟨c, scanned.length, scanned.length, scanned.canOpen,
              scanned.canClose⟩) hlow hmk trivial trivial
          have hpushed : te_LI src0 ry (st.children ++ [Node.leaf (.emphMarker c scanned.length
              scanned.length scanned.canOpen scanned.canClose) (some (rx, ry))]) := by
            refine ⟨te_fthL_append hf.deep (te_fthL_single hleaf), C05R.em_adjd_snoc hf.adj ?_,
              C05R.em_strict_append hf.strict (C05R.em_strict_single ?_), ?_, ?_⟩
            · intro i l hil tl _
              obtain ⟨a, b, ha, hb⟩ := hf.tail i l hil tl
              rw [e1] at hb; simp only [Except.ok.injEq] at hb; subst hb
              exact ⟨a, rx, ry, ha, rfl⟩
            · intro _
              exact ⟨rx, ry, rfl, by omega⟩
            · intro i l hil _
              obtain ⟨_, rfl⟩ := snoc_inj hil
              exact ⟨rx, rfl⟩
            · intro i l hil
              obtain ⟨_, rfl⟩ := snoc_inj hil
              rfl
          have hfin : ∀ out, te_LI src0 ry out →
              FIV src0 st.src st.srcmap st.posMax (st.pos + scanned.length) out := by
            intro out hl
            refine ⟨hrun.bdy_right, hl.deep, hl.adj, hl.strict, ?_, ?_, ?_⟩
            · intro i l hil tl
              obtain ⟨a, ha⟩ := hl.tail i l hil tl
              exact ⟨a, ry, ha, e2⟩
            · -- the last child is not a `Text`
              intro i l hil ht
              rw [hl.notext i l hil] at ht; cases ht
            · -- the marker run itself is the anchor
              intro _ _ _
              exact ⟨st.pos, c, _, hrun', hsp, hnl, C05R.em_not_mem_replicate hnl _⟩
          split at h
          · split at h
            · simp at h
            · next cs b hsm =>
              simp only [Except.ok.injEq, Prod.mk.injEq] at h; obtain ⟨rfl, rfl⟩ := h
              simp only [Option.getD_some, IState.push]
              exact hfin _ (te_scanAndMatch hpushed hsm)
          · simp only [Except.ok.injEq, Prod.mk.injEq] at h; obtain ⟨rfl, rfl⟩ := h
            simp only [Option.getD_some, IState.push]
            exact hfin _ hpushed

/-- **the contract of the emphasis-marker rule for any table, with the text clause** -/
theorem emphOKV (cfg : Inline.Cfg) (src0 : List Char) : EmphOKV cfg src0 := by
  intro mk csw st st' o hmk hnl hsp hc hf h
  exact te_ruleEmph hmk hnl hsp hc hf h

/-! ## the contract is not vacuous -/

-- the state of the template (`*a` has been read from `*a*`, the cursor is in front of the closing
-- `*`; the rule fires, matches the opener and wraps the text — see the `example` below): all
-- hypotheses of `EmphOKV` hold of it (identity table), the trailing `Text` `a` is `Within` the solid
-- stretch `a` (`tanch`), and `anch` is vacuous there (the last child IS a `Text`)
theorem te_ex_hyps : ('*' : Char).utf8Size = 1 ∧ ('*' : Char) ≠ '\n' ∧ ('*' : Char) ≠ ' ' ∧
    CtxV ['*', 'a', '*'] C05R.em_exSt.src C05R.em_exSt.srcmap ∧
    FIV ['*', 'a', '*'] C05R.em_exSt.src C05R.em_exSt.srcmap C05R.em_exSt.posMax C05R.em_exSt.pos
      C05R.em_exSt.children := by
  have c01 : Cut ['*', 'a', '*'] 0 1 ['*'] := ⟨[], ['a', '*'], rfl, rfl, rfl⟩
  have c12 : Cut ['*', 'a', '*'] 1 2 ['a'] := ⟨['*'], ['*'], rfl, rfl, rfl⟩
  have hlast : ∀ init last, C05R.em_exSt.children = init ++ [last] →
      last = Node.newText ['a'] (some (1, 2)) := by
    intro init last hl
    have hl' : [Node.leaf (.emphMarker '*' 1 1 true false) (some (0, 1))] ++
        [Node.newText ['a'] (some (1, 2))] = init ++ [last] := hl
    exact (snoc_inj hl').2.symm
  refine ⟨by decide, by decide, by decide, be_ctx_id _,
    ⟨['*', 'a'], ['*'], rfl, rfl⟩, ⟨?_, ?_, trivial⟩, ?_, ?_, ?_, ?_, ?_⟩
  · exact te_fthN_marker (m := ⟨'*', 1, 1, true, false⟩) c01 (by decide) trivial trivial
  · rw [FthNV_eq]
    refine ⟨⟨1, 2, rfl, c12.bdy_left, c12.bdy_right, ?_, ?_, ?_, trivial⟩, trivial⟩
    · intro _ t ht
      simp only [Node.newText, Val.text.injEq] at ht; subst ht; exact Sel.of_cut c12
    · intro ct mu info ht; simp [Node.newText] at ht
    · intro mk l rem o c ht; simp [Node.newText] at ht
  · exact ⟨fun _ _ => ⟨0, 1, 2, rfl, rfl⟩, trivial⟩
  · intro n hn _
    simp only [C05R.em_exSt, List.mem_cons, List.not_mem_nil, or_false] at hn
    rcases hn with rfl | rfl
    · exact ⟨0, 1, rfl, by decide⟩
    · exact ⟨1, 2, rfl, by decide⟩
  · intro init last hl _
    rw [hlast init last hl]
    exact ⟨1, 2, rfl, C05R.em_tr_id 2⟩
  · intro init last hl _ _
    rw [hlast init last hl]
    exact ⟨1, c12, 1, 2, 'a', [], c12, by decide, by decide, by simp, Nat.le_refl _, by decide,
      Nat.le_refl _⟩
  · intro hnt
    have := hnt [Node.leaf (.emphMarker '*' 1 1 true false) (some (0, 1))]
      (Node.newText ['a'] (some (1, 2))) rfl
    simp [Node.newText, Node.isText] at this

example : C05R.em_step (ruleEmph (exCfg 100) '*' true C05R.em_exSt false) = some (some 1, 2) ∧
    C05R.em_show (ruleEmph (exCfg 100) '*' true C05R.em_exSt false) =
      [(.wrap .em '*', some (0, 3), [.text ['a']])] := by decide +kernel

-- the instance of the contract: after the rule (cursor at `2 + 1 = 3`, one `wrap` child) `FIV` holds
example (st' : IState) (o : Option Nat)
    (h : ruleEmph (exCfg 100) '*' true C05R.em_exSt false = .ok (o, st')) :
    FIV ['*', 'a', '*'] C05R.em_exSt.src C05R.em_exSt.srcmap C05R.em_exSt.posMax
      (st'.pos + o.getD 0) st'.children :=
  emphOKV (exCfg 100) _ '*' true _ _ _ te_ex_hyps.1 te_ex_hyps.2.1 te_ex_hyps.2.2.1
    te_ex_hyps.2.2.2.1 te_ex_hyps.2.2.2.2 h

-- `mk ≠ ' '` is needed (beside the two hypotheses of the template, see the witnesses at the end of
-- Lemmas/C05RestEmph.lean): with a virtual-space entry `(0, 1)`, `(2, 1)` in the table the two
-- spaces `c[0..2)` have no bytes in the source, the translation is constant on `[0, 2]`, and the
-- range `(1, 1)` of a "marker" leaf made of them selects nothing — no `FthNV` of the pushed leaf,
-- in whatever document
example : C05R.em_step (ruleEmph (exCfg 100) ' ' true
        { IState.init [' ', ' ', 'a'] [(0, 1), (2, 1)] with pos := 0 } false) = some (some 2, 0) ∧
    C05R.em_show (ruleEmph (exCfg 100) ' ' true
        { IState.init [' ', ' ', 'a'] [(0, 1), (2, 1)] with pos := 0 } false) =
      [(.emphMarker ' ' 2 2 true false, some (1, 1), [])] ∧
    ∀ src0, ¬ Cut src0 1 1 (List.replicate 2 ' ') := by
  refine ⟨by decide +kernel, by decide +kernel, ?_⟩
  rintro src0 ⟨p, q, _, _, hb⟩
  have : (' ' : Char).utf8Size = 1 := by decide
  simp only [List.replicate, byteLen, this] at hb; omega

end MdIt.C05T
