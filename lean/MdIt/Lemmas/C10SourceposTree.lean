/-
  C10 with the sourcepos plugin, part 2: from two document trees to their HTML.

    * `NodeRender.usesAttrs` / `dropA` / `render_dropA`   `render` does not read the attributes of `Root`,
      `Text`, `TextSpecial`, `Softbreak`, `Hardbreak` (`fmt.self_close("br", &[])`), html values and
      placeholders;
    * `Kind.rendersAttrs`, `rmap f nr`   the tree with every range mapped through `f` and (`nr = true`)
      the ranges of the nodes that do not render attributes erased; `rmap_joinNode`: `FragmentsJoin`
      commutes with it (it reads ranges only to compute ranges of `Text` nodes);
    * `spPure`, `sourceposNode_eq`       `SyntaxPosRule` as a total function of the fold `runSt`;
    * `final_stage`   two trees equal up to `rmap` whose attribute-rendering nodes have ranges with the
      same line:column positions give the same events after the sourcepos pass.
-/
import MdIt.Props.C10Doc
import MdIt.Lemmas.C10SourceposPos

namespace MdIt.NodeRender

/-- does `render` of this value read `node.attrs` -/
def usesAttrs : Kind → Bool
  | .root => false
  | .text _ => false
  | .special _ => false
  | .softbreak => false
  | .hardbreak => false
  | .htmlBlock _ => false
  | .htmlInline _ => false
  | .placeholder => false
  | _ => true

mutual
/-- the attributes nobody reads dropped -/
def dropA : Node → Node
  | ⟨k, a, cs⟩ => ⟨k, if usesAttrs k then a else [], dropAList cs⟩
def dropAList : List Node → List Node
  | [] => []
  | c :: cs => dropA c :: dropAList cs
end

mutual
theorem toInl_dropA (n : Node) : toInl (dropA n) = toInl n := by
  match n with
  | ⟨k, a, cs⟩ =>
    cases k <;> simp only [dropA, toInl, toInlList_dropA cs]
theorem toInlList_dropA (cs : List Node) : toInlList (dropAList cs) = toInlList cs := by
  match cs with
  | [] => rfl
  | c :: r => simp only [dropAList, toInlList, toInl_dropA c, toInlList_dropA r]
end

mutual
/-- **`render` does not read the attributes of the values that are not `usesAttrs`** -/
theorem render_dropA (lookup : List Char → Option (List Char)) (n : Node) :
    render lookup (dropA n) = render lookup n := by
  match n with
  | ⟨k, a, cs⟩ =>
    cases k <;>
      simp only [dropA, render, usesAttrs, if_true, renderList_dropA lookup cs, imageAlt, toInlList_dropA cs]
theorem renderList_dropA (lookup : List Char → Option (List Char)) (cs : List Node) :
    renderList lookup (dropAList cs) = renderList lookup cs := by
  match cs with
  | [] => rfl
  | c :: r => simp only [dropAList, renderList, render_dropA lookup c, renderList_dropA lookup r]
end

end MdIt.NodeRender

namespace MdIt.Pipeline
open MdIt.NodeRender (aSourcepos usesAttrs dropA dropAList)
open MdIt.SourceMap (runSt mkMarks getPositions)

/-- the values whose `render` reads `node.attrs` (hence shows `data-sourcepos`): every block value
    except `Root` (and the `InlineRoot` placeholder), and `CodeInline`, `Em` / `Strong` /
    `Strikethrough`, `Link`, `Image`, `Autolink` — NOT `Text`, `TextSpecial`, `Softbreak`, `Hardbreak` -/
def Kind.rendersAttrs : Kind → Bool
  | .blk .root => false
  | .blk (.inlineRoot _ _) => false
  | .inl (.text _) => false
  | .inl (.special _ _ _) => false
  | .inl .softbreak => false
  | .inl .hardbreak => false
  | .inl (.emphMarker _ _ _ _ _) => false
  | _ => true

theorem usesAttrs_toRender (lp : List Char) (k : Kind) : usesAttrs (k.toRender lp) = k.rendersAttrs := by
  cases k with
  | blk b => cases b <;> rfl
  | inl v =>
    cases v with
    | wrap w m => cases w <;> rfl
    | _ => rfl

/-! ## mapping / erasing ranges -/

/-- a range through `f`, end point by end point -/
def mapRange (f : Nat → Nat) (r : Option (Nat × Nat)) : Option (Nat × Nat) := r.map fun p => (f p.1, f p.2)

/-- the range `rmap` leaves at a node of kind `k` -/
def rangeOf (f : Nat → Nat) (nr : Bool) (k : Kind) (r : Option (Nat × Nat)) : Option (Nat × Nat) :=
  if nr && !k.rendersAttrs then none else mapRange f r

mutual
/-- every range through `f`; with `nr` the ranges of the nodes that do not render attributes erased -/
def rmap (f : Nat → Nat) (nr : Bool) : Node → Node
  | ⟨k, r, a, cs⟩ => ⟨k, rangeOf f nr k r, a, rmapList f nr cs⟩
def rmapList (f : Nat → Nat) (nr : Bool) : List Node → List Node
  | [] => []
  | c :: cs => rmap f nr c :: rmapList f nr cs
end

theorem rmap_eq (f : Nat → Nat) (nr : Bool) (n : Node) :
    rmap f nr n = { n with range := rangeOf f nr n.kind n.range, children := rmapList f nr n.children } := by
  cases n; simp [rmap]

theorem rmapList_eq_map (f : Nat → Nat) (nr : Bool) (l : List Node) : rmapList f nr l = l.map (rmap f nr) := by
  induction l with
  | nil => rfl
  | cons c cs ih => simp [rmapList, ih]

theorem rmap_kind (f : Nat → Nat) (nr : Bool) (n : Node) : (rmap f nr n).kind = n.kind := by
  rw [rmap_eq]

theorem rmap_isText (f : Nat → Nat) (nr : Bool) (n : Node) : (rmap f nr n).isText = n.isText := by
  rw [rmap_eq]; rfl

theorem rmap_content (f : Nat → Nat) (nr : Bool) (n : Node) : (rmap f nr n).content = n.content := by
  rw [rmap_eq]; rfl

theorem kind_of_isText {n : Node} (h : n.isText = true) : n.kind.rendersAttrs = false := by
  obtain ⟨k, r, a, cs⟩ := n
  cases k with
  | blk b => simp [Node.isText] at h
  | inl v => cases v <;> simp_all [Node.isText, Kind.rendersAttrs]

@[simp] theorem rendersAttrs_text (c : List Char) : (Kind.inl (.text c)).rendersAttrs = false := rfl

theorem rmap_markerToText (f : Nat → Nat) (nr : Bool) (n : Node) :
    rmap f nr (markerToText n) = markerToText (rmap f nr n) := by
  obtain ⟨k, r, a, cs⟩ := n
  cases k with
  | blk b => simp [markerToText, rmap]
  | inl v => cases v <;> simp [markerToText, rmap, rangeOf, Kind.rendersAttrs]

theorem rmap_emptied (f : Nat → Nat) (nr : Bool) (n : Node) (h : n.isText = true) :
    rmap f nr (emptied n) = emptied (rmap f nr n) := by
  have hk := kind_of_isText h
  obtain ⟨k, r, a, cs⟩ := n
  simp only at hk
  simp [emptied, rmap, rangeOf, hk]

theorem rmap_merged (f : Nat → Nat) (nr : Bool) (a b : Node) (ha : a.isText = true) (hb : b.isText = true) :
    rmap f nr (merged a b) = merged (rmap f nr a) (rmap f nr b) := by
  have hka := kind_of_isText ha
  have hkb := kind_of_isText hb
  obtain ⟨k, r, at_, cs⟩ := a
  obtain ⟨k', r', at', cs'⟩ := b
  simp only at hka hkb
  cases nr
  · cases r <;> cases r' <;> simp [merged, rmap, rangeOf, mapRange, Node.content]
  · simp [merged, rmap, rangeOf, hka, hkb, Node.content]

theorem merged_isText (a b : Node) : (merged a b).isText = true := rfl

theorem rmap_mergeLoop (f : Nat → Nat) (nr : Bool) (cur : Node) (rest : List Node) :
    (mergeLoop cur rest).map (rmap f nr) = mergeLoop (rmap f nr cur) (rest.map (rmap f nr)) := by
  induction rest generalizing cur with
  | nil => simp [mergeLoop]
  | cons nxt rest ih =>
    simp only [mergeLoop, List.map_cons, rmap_isText]
    split
    · rename_i h
      simp only [Bool.and_eq_true] at h
      simp only [List.map_cons, ih, rmap_emptied f nr nxt h.2, rmap_merged f nr cur nxt h.1 h.2]
    · simp only [List.map_cons, ih]

theorem rmap_keep (f : Nat → Nat) (nr : Bool) (n : Node) : keep (rmap f nr n) = keep n := by
  simp [keep, rmap_isText, rmap_content]

theorem rmap_filter_keep (f : Nat → Nat) (nr : Bool) (l : List Node) :
    (l.filter keep).map (rmap f nr) = (l.map (rmap f nr)).filter keep := by
  induction l with
  | nil => rfl
  | cons c r ih =>
    simp only [List.filter_cons, List.map_cons, rmap_keep]
    split <;> simp [ih]

theorem rmap_fragmentsJoin (f : Nat → Nat) (nr : Bool) (cs : List Node) :
    (fragmentsJoin cs).map (rmap f nr) = fragmentsJoin (cs.map (rmap f nr)) := by
  unfold fragmentsJoin
  rw [rmap_filter_keep]
  congr 1
  unfold pass1
  cases cs with
  | nil => rfl
  | cons c r =>
    simp only [List.map_cons, mergeAll, rmap_mergeLoop, rmap_markerToText, List.map_map]
    congr 1
    simp [Function.comp_def, rmap_markerToText]

theorem rmap_joinNode_aux (f : Nat → Nat) (nr : Bool) (k : Nat) : ∀ n : Node, nsize n ≤ k →
    rmap f nr (joinNode n) = joinNode (rmap f nr n) := by
  induction k with
  | zero => intro n hn; rw [nsize_eq] at hn; omega
  | succ k ih =>
    intro n hn
    rw [joinNode_eq, joinNode_eq, joinList_eq_map, joinList_eq_map, rmap_eq, rmap_eq]
    simp only [rmapList_eq_map, ← rmap_fragmentsJoin, List.map_map]
    congr 1
    apply List.map_congr_left
    intro x hx
    obtain ⟨c, hc, hr, _⟩ := fragmentsJoin_mem _ x hx
    have hsz : nsize x ≤ k := by
      have h1 : nsize x = nsize c := by rw [nsize_eq, nsize_eq, hr.1]
      have h2 := nsize_le_of_mem hc
      rw [nsize_eq] at hn
      omega
    simp only [Function.comp]
    exact ih x hsz

/-- **`FragmentsJoin` commutes with mapping / erasing ranges** -/
theorem rmap_joinNode (f : Nat → Nat) (nr : Bool) (n : Node) : rmap f nr (joinNode n) = joinNode (rmap f nr n) :=
  rmap_joinNode_aux f nr _ n (Nat.le_refl _)

/-! ## `SyntaxPosRule` as a function -/

/-- the attribute `SyntaxPosRule` pushes for a range: positions are the states of the fold -/
def posAttr (src : List Char) (r : Nat × Nat) : List Char × List Char :=
  (aSourcepos, sourceposValue (runSt 1 0 src (r.1 + 1), runSt 1 0 src (C10SP.endOff r.2 + 1)))

def pushPos (src : List Char) (r : Option (Nat × Nat)) (a : List (List Char × List Char)) :
    List (List Char × List Char) :=
  match r with
  | none => a
  | some r => a ++ [posAttr src r]

mutual
def spPure (src : List Char) : Node → Node
  | ⟨k, r, a, cs⟩ => ⟨k, r, pushPos src r a, spPureList src cs⟩
def spPureList (src : List Char) : List Node → List Node
  | [] => []
  | c :: cs => spPure src c :: spPureList src cs
end

theorem sourceposAttrs_run (src : List Char) (r : Option (Nat × Nat)) (a : List (List Char × List Char)) :
    sourceposAttrs src (mkMarks src) r a = .ok (pushPos src r a) := by
  unfold sourceposAttrs pushPos
  cases r with
  | none => rfl
  | some r => simp only [C10SP.getPositions_run, posAttr]

mutual
theorem sourceposNode_eq (src : List Char) (t : Node) :
    sourceposNode src (mkMarks src) t = .ok (spPure src t) := by
  match t with
  | ⟨k, r, a, cs⟩ => simp only [sourceposNode, sourceposAttrs_run, sourceposList_eq src cs, spPure]
theorem sourceposList_eq (src : List Char) (cs : List Node) :
    sourceposList src (mkMarks src) cs = .ok (spPureList src cs) := by
  match cs with
  | [] => rfl
  | c :: r => simp only [sourceposList, sourceposNode_eq src c, sourceposList_eq src r, spPureList]
end

/-! ## the last stage -/

mutual
/-- a Boolean predicate at every node -/
def allN (p : Node → Bool) : Node → Bool
  | ⟨k, r, a, cs⟩ => p ⟨k, r, a, cs⟩ && allNList p cs
def allNList (p : Node → Bool) : List Node → Bool
  | [] => true
  | c :: cs => allN p c && allNList p cs
end

/-- the ranges of the attribute-rendering nodes satisfy `q` -/
def rendered (q : Nat × Nat → Bool) (n : Node) : Bool :=
  !n.kind.rendersAttrs ||
    match n.range with
    | none => true
    | some r => q r

mutual
/-- **the last stage.**  `T₂` is `T₁` with every range mapped through `f`, up to the ranges of the
    nodes that do not render attributes; the ranges `r` of the attribute-rendering nodes of `T₁`
    satisfy `q`, and `q r` makes the position attribute of `f r` in `src₂` that of `r` in `src₁`:
    then the two trees project to the same `NodeRender` tree after the sourcepos pass, up to
    attributes nobody reads. -/
theorem final_node (lp : List Char) (src₁ src₂ : List Char) (f : Nat → Nat) (q : Nat × Nat → Bool)
    (hq : ∀ r, q r = true → posAttr src₂ (f r.1, f r.2) = posAttr src₁ r) :
    ∀ (T₁ T₂ : Node), rmap id true T₂ = rmap f true T₁ → allN (rendered q) T₁ = true →
      dropA (toRender lp (spPure src₂ T₂)) = dropA (toRender lp (spPure src₁ T₁))
  | ⟨k₁, r₁, a₁, cs₁⟩, ⟨k₂, r₂, a₂, cs₂⟩, hT, hall => by
    simp only [rmap, Node.mk.injEq] at hT
    obtain ⟨hk, hr, ha, hcs⟩ := hT
    subst hk ha
    simp only [allN, Bool.and_eq_true] at hall
    simp only [spPure, toRender, dropA, usesAttrs_toRender, final_list lp src₁ src₂ f q hq cs₁ cs₂ hcs hall.2]
    congr 1
    by_cases hk : k₂.rendersAttrs = true
    · simp only [hk, if_true]
      simp only [rangeOf, hk, Bool.not_true, Bool.and_false, Bool.false_eq_true, if_false, mapRange,
        id_eq] at hr
      have hrr : r₂ = r₁.map fun p => (f p.1, f p.2) := by
        rw [← hr]; cases r₂ <;> rfl
      subst hrr
      cases r₁ with
      | none => rfl
      | some r =>
        have hqr : q r = true := by
          have := hall.1
          simpa [rendered, hk] using this
        simp only [Option.map_some, pushPos, hq r hqr]
    · simp only [hk, if_false, Bool.false_eq_true]
theorem final_list (lp : List Char) (src₁ src₂ : List Char) (f : Nat → Nat) (q : Nat × Nat → Bool)
    (hq : ∀ r, q r = true → posAttr src₂ (f r.1, f r.2) = posAttr src₁ r) :
    ∀ (c₁ c₂ : List Node), rmapList id true c₂ = rmapList f true c₁ → allNList (rendered q) c₁ = true →
      dropAList (toRenderList lp (spPureList src₂ c₂)) = dropAList (toRenderList lp (spPureList src₁ c₁))
  | [], [], _, _ => rfl
  | [], _ :: _, h, _ => by simp [rmapList] at h
  | _ :: _, [], h, _ => by simp [rmapList] at h
  | x :: xs, y :: ys, h, hall => by
    simp only [rmapList, List.cons.injEq] at h
    simp only [allNList, Bool.and_eq_true] at hall
    simp only [spPureList, toRenderList, dropAList, final_node lp src₁ src₂ f q hq x y h.1 hall.1,
      final_list lp src₁ src₂ f q hq xs ys h.2 hall.2]
end

/-- **the last stage, rendered** -/
theorem final_stage (x : Bool) (cfg : DocCfg) (src₁ src₂ : List Char) (f : Nat → Nat) (q : Nat × Nat → Bool)
    (hq : ∀ r, q r = true → posAttr src₂ (f r.1, f r.2) = posAttr src₁ r)
    (T₁ T₂ : Node) (hT : rmap id true T₂ = rmap f true T₁) (hall : allN (rendered q) T₁ = true) :
    renderOf x cfg (sourceposNode src₂ (mkMarks src₂) T₂) = renderOf x cfg (sourceposNode src₁ (mkMarks src₁) T₁) := by
  rw [sourceposNode_eq, sourceposNode_eq]
  simp only [renderOf, renderEvents]
  rw [← NodeRender.render_dropA cfg.entity (toRender cfg.langPrefix (spPure src₂ T₂)),
    ← NodeRender.render_dropA cfg.entity (toRender cfg.langPrefix (spPure src₁ T₁)),
    final_node cfg.langPrefix src₁ src₂ f q hq T₁ T₂ hT hall]

end MdIt.Pipeline
