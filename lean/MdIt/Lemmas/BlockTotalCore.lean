/-
  No-panic development for the block model, core: the state invariant `BInv`, the predicate
  `NoPanic` ("fails at most with `.fuel`"), and totality of the state accessors under `BInv`.

  `BInv s` only mentions `src`, `offs`, `lineMax` — the part of the state that every rule and every
  nested tokenizer call hands back as it found it (`Frame`, `Props/Block.lean`), so it is preserved
  for free across calls (`BInv.of_frame`); the containers re-establish it for the table they rewrite
  (`BInv.setOff`).
-/
import MdIt.Lemmas.BlockTotalFuel

namespace MdIt.Block
open MdIt.Lines (LineOffset)

/-- fails at most with `.fuel` (which `parseBlocks_fuel` excludes separately) -/
def NoPanic {α : Type} (x : Except Panic α) : Prop := ∀ e, x = .error e → e = .fuel

theorem NoPanic.of_ok {α : Type} {x : Except Panic α} {a : α} (h : x = .ok a) : NoPanic x := by
  intro e he; rw [h] at he; cases he

theorem NoPanic.of_total {α : Type} {x : Except Panic α} (h : ∃ a, x = .ok a) : NoPanic x := by
  obtain ⟨a, h⟩ := h; exact .of_ok h

theorem NoPanic.bind {α β : Type} {x : Except Panic α} {f : α → Except Panic β} (hx : NoPanic x)
    (hf : ∀ a, x = .ok a → NoPanic (f a)) : NoPanic (x >>= f) := by
  intro e he
  rcases bind_err.mp he with h | ⟨a, ha, h⟩
  · exact hx e h
  · exact hf a ha e h

/-- `h : x = .error e` contradicts totality of `x` -/
theorem absurd_err {α : Type} {x : Except Panic α} {e : Panic} {P : Prop} (h : x = .error e)
    (ht : ∃ a, x = .ok a) : P := by
  obtain ⟨a, ha⟩ := ht; rw [ha] at h; cases h

theorem liftL_total {α : Type} {x : Except Lines.Panic α} (h : ∃ a, x = .ok a) : ∃ a, liftL x = .ok a := by
  obtain ⟨a, rfl⟩ := h; exact ⟨a, rfl⟩

theorem liftK_total {α : Type} {x : Except Link.Panic α} (h : ∃ a, x = .ok a) : ∃ a, liftK x = .ok a := by
  obtain ⟨a, rfl⟩ := h; exact ⟨a, rfl⟩

theorem psub_total {a b : Nat} (h : b ≤ a) : ∃ c, psub a b = .ok c := by
  unfold psub; rw [if_pos h]; exact ⟨_, rfl⟩

/-! ## the invariant -/

/-- later lines do not end before earlier ones (containers never touch `line_end`) -/
def EndsMono (offs : List LineOffset) : Prop :=
  ∀ (i j : Nat) (o o' : LineOffset), i ≤ j → offs[i]? = some o → offs[j]? = some o' → o.lineEnd ≤ o'.lineEnd

/-- the bytes between `line_start` and `first_nonspace` (blanks, and the container markers the
    rewritings have moved `first_nonspace` past) are one-byte characters -/
def WsAscii (src : List Char) (o : LineOffset) : Prop :=
  ∃ a, Lines.slice src o.lineStart o.firstNonspace = .ok a ∧ ∀ c ∈ a, c.utf8Size = 1

structure BInv (s : BState) : Prop where
  table : TableOk s
  lineMax : s.lineMax ≤ s.offs.length
  mono : EndsMono s.offs
  ascii : ∀ (k : Nat) (o : LineOffset), s.offs[k]? = some o → WsAscii s.src o

/-- `BInv` reads `src`, `offs`, `lineMax` only -/
theorem BInv.congr {s s' : BState} (h : BInv s) (h1 : s'.src = s.src) (h2 : s'.offs = s.offs)
    (h3 : s'.lineMax ≤ s.offs.length) : BInv s' := by
  refine ⟨?_, by rw [h2]; exact h3, by rw [h2]; exact h.mono, ?_⟩
  · intro k o ho
    rw [h2] at ho; rw [h1]
    exact h.table k o ho
  · intro k o ho
    rw [h2] at ho; rw [h1]
    exact h.ascii k o ho

theorem BInv.of_frame {s s' : BState} (h : BInv s) (hf : Frame s s') : BInv s' :=
  h.congr hf.src hf.offs (by rw [hf.lineMax]; exact h.lineMax)

theorem EndsMono.set {offs : List LineOffset} (h : EndsMono offs) {m : Nat} {o x : LineOffset}
    (ho : offs[m]? = some o) (hx : x.lineEnd = o.lineEnd) : EndsMono (offs.set m x) := by
  have hm : m < offs.length := (List.getElem?_eq_some_iff.mp ho).1
  intro i j a b hij ha hb
  simp only [List.getElem?_set] at ha hb
  split at ha <;> split at hb
  · simp at ha hb; subst ha hb; exact Nat.le_refl _
  · simp at ha; subst ha; subst_vars
    rw [hx]; exact h _ _ _ _ hij ho hb
  · simp at hb; subst hb; subst_vars
    rw [hx]; exact h _ _ _ _ hij ha ho
  · exact h _ _ _ _ hij ha hb

/-- rewriting one entry (same `line_end`, still cutting a line out of the source) -/
theorem BInv.setOff {s s' : BState} {m : Nat} {o x : LineOffset} (h : BInv s)
    (hs : s.setOff m x = .ok s') (ho : s.offs[m]? = some o) (hx : LineOk s.src x)
    (hend : x.lineEnd = o.lineEnd) (hasc : WsAscii s.src x) : BInv s' := by
  have hT := h.table.setOff hs hx
  obtain ⟨hm, rfl⟩ := setOff_ok hs
  refine ⟨hT, by simpa using h.lineMax, h.mono.set ho hend, ?_⟩
  intro k y hy
  simp only [List.getElem?_set] at hy
  split at hy
  · simp at hy; subst hy; exact hasc
  · exact h.ascii k y hy

/-- changing `indent_nonspace` only -/
theorem WsAscii.indent {src : List Char} {o : LineOffset} (h : WsAscii src o) (x : Int) :
    WsAscii src { o with indentNonspace := x } := h

theorem endsMono_of_valid {src : List Char} {offs : List LineOffset} (hv : Lines.OffsetsValid src offs) :
    EndsMono offs := by
  intro i j o o' hij hi hj
  by_cases hEq : i = j
  · subst hEq; rw [hi] at hj; cases hj; exact Nat.le_refl _
  · have := Lines.offsets_increasing hv i j o o' (by omega) hi hj
    have := hv.ordered o' (List.mem_of_getElem? hj)
    omega

/-- `BlockState::new` satisfies the invariant -/
theorem bInv_fresh (src : List Char) (k : Kind) (refs : Refs.RefMap) : BInv (BState.fresh src k refs) := by
  refine ⟨tableOk_fresh src k refs, Nat.le_refl _, endsMono_of_valid (Lines.split_offsets_valid src), ?_⟩
  intro i o ho
  simp only [BState.fresh] at ho ⊢
  obtain ⟨A, lt, B, _, _, rfl, hsrc, hnt, _⟩ := Lines.split_entry ho
  have hl := Lines.lead_append_rest lt.1
  refine ⟨Lines.lead lt.1, ?_, ?_⟩
  · refine Lines.slice_eq_ok_iff.mpr ⟨Lines.flat A, lt.1.dropWhile Lines.isBlank ++ (lt.2 ++ Lines.flat B), ?_, ?_, ?_⟩
    · conv => lhs; rw [hsrc, ← hl]
      simp [List.append_assoc]
    · simp [Lines.mkOff]
    · simp [Lines.mkOff, Lines.byteLen_lead]
  · intro c hc
    rcases Lines.lead_allBlank lt.1 c hc with rfl | rfl <;> decide

/-! ## facts about an entry that cuts a line out of the source -/

theorem LineOk.order {src : List Char} {o : LineOffset} (h : LineOk src o) :
    o.lineStart ≤ o.firstNonspace ∧ o.firstNonspace ≤ o.lineEnd := by
  obtain ⟨p, a, b, q, _, _, h1, h2, _⟩ := h
  omega

theorem LineOk.boundaries {src : List Char} {o : LineOffset} (h : LineOk src o) :
    Lines.onBoundary src o.lineStart = true ∧ Lines.onBoundary src o.firstNonspace = true ∧
      Lines.onBoundary src o.lineEnd = true := by
  obtain ⟨p, a, b, q, hsrc, hp, h1, h2, _⟩ := h
  refine ⟨?_, ?_, ?_⟩
  · exact Lines.onBoundary_iff.mpr ⟨p, a ++ b ++ q, by rw [hsrc]; simp, hp⟩
  · exact Lines.onBoundary_iff.mpr ⟨p ++ a, b ++ q, by rw [hsrc]; simp, by simp; omega⟩
  · exact Lines.onBoundary_iff.mpr ⟨p ++ a ++ b, q, by rw [hsrc], by simp; omega⟩

/-- the two slices every rule takes of a line: `src[line_start..line_end] = a ++ b` and
    `src[first_nonspace..line_end] = b`, with `|a| = first_nonspace - line_start` -/
theorem LineOk.slices {src : List Char} {o : LineOffset} (h : LineOk src o) :
    ∃ a b, Lines.slice src o.lineStart o.lineEnd = .ok (a ++ b) ∧
      Lines.slice src o.firstNonspace o.lineEnd = .ok b ∧
      Lines.slice src o.lineStart o.firstNonspace = .ok a ∧
      o.firstNonspace = o.lineStart + Lines.byteLen a ∧ o.lineEnd = o.firstNonspace + Lines.byteLen b := by
  obtain ⟨p, a, b, q, hsrc, hp, h1, h2, _⟩ := h
  refine ⟨a, b, ?_, ?_, ?_, h1, by omega⟩
  · exact Lines.slice_eq_ok_iff.mpr ⟨p, q, by rw [hsrc]; simp, hp, by simp; omega⟩
  · exact Lines.slice_eq_ok_iff.mpr ⟨p ++ a, q, by rw [hsrc], by simp; omega, by omega⟩
  · exact Lines.slice_eq_ok_iff.mpr ⟨p, b ++ q, by rw [hsrc]; simp, hp, by omega⟩

/-! ## the accessors are total under the invariant -/

theorem off_total {s : BState} {i : Nat} (h : i < s.offs.length) :
    ∃ o, s.off i = .ok o := by
  unfold BState.off
  rw [List.getElem?_eq_getElem h]
  exact ⟨_, rfl⟩

theorem setOff_total {s : BState} {i : Nat} {o : LineOffset} (h : i < s.offs.length) :
    ∃ s', s.setOff i o = .ok s' := by
  unfold BState.setOff
  rw [if_pos h]
  exact ⟨_, rfl⟩

theorem lineIndent_total {s : BState} {i : Nat} (h : i < s.offs.length) : ∃ v, s.lineIndent i = .ok v := by
  unfold BState.lineIndent Lines.lineIndent
  rw [List.getElem?_eq_getElem h]
  exact ⟨_, rfl⟩

theorem getLine_total {s : BState} {i : Nat} (hT : TableOk s) (h : i < s.offs.length) :
    ∃ l, s.getLine i = .ok l := by
  unfold BState.getLine Lines.getLine
  rw [List.getElem?_eq_getElem h]
  obtain ⟨a, b, _, hb, _⟩ := (hT i _ (List.getElem?_eq_getElem h)).slices
  simp only [hb]
  exact ⟨_, rfl⟩

theorem getLines_total {s : BState} {b e ind : Nat} {keep : Bool} (hT : TableOk s) (hbe : b ≤ e)
    (he : e ≤ s.offs.length) : ∃ r, s.getLines b e ind keep = .ok r := by
  unfold BState.getLines
  refine liftL_total (Lines.get_lines_total s.src s.offs b e ind keep hbe he ?_)
  intro k hk _ _
  have hl := hT k _ (List.getElem?_eq_getElem hk)
  exact ⟨hl.order.1, hl.order.2, hl.boundaries⟩

theorem getMap_total {s : BState} {a b : Nat} (hab : a ≤ b) (hb : b < s.offs.length) :
    ∃ r, s.getMap a b = .ok r := by
  unfold BState.getMap Lines.getMap
  rw [if_neg (by omega), List.getElem?_eq_getElem hb, List.getElem?_eq_getElem (by omega : a < s.offs.length)]
  exact ⟨_, rfl⟩

/-- `get_line` is the text `b` of the entry -/
theorem getLine_eq {s : BState} {i : Nat} {o : LineOffset} {l : List Char} (ho : s.offs[i]? = some o)
    (h : s.getLine i = .ok l) : Lines.slice s.src o.firstNonspace o.lineEnd = .ok l := by
  have := liftL_eq_ok h
  simpa [Lines.getLine, ho] using this

/-! ## the rewriting both containers perform -/

theorem slice_unique {s u v : List Char} {a b : Nat} (h1 : Lines.slice s a b = .ok u)
    (h2 : Lines.slice s a b = .ok v) : u = v := by
  rw [h1] at h2; cases h2; rfl

/-- An entry `o` whose text starts with `mid` (the `>` / the list marker).  The whole line is
    `a ++ mid ++ run ++ rest` with `run` the maximal blank run behind `mid`; `find_indent_of` at the
    end of `mid` is total and answers the column width of `run` and the position behind it. -/
theorem rewrite_shape {src : List Char} {o : LineOffset} (hl : LineOk src o) {mid rest' : List Char}
    (hb : Lines.slice src o.firstNonspace o.lineEnd = .ok (mid ++ rest')) :
    ∃ a run rest, rest' = run ++ rest ∧ Lines.AllBlank run ∧
      (∀ c r, rest = c :: r → ¬ (c = ' ' ∨ c = '\t')) ∧
      Lines.slice src o.lineStart o.lineEnd = .ok (a ++ mid ++ run ++ rest) ∧
      Lines.slice src o.lineStart o.firstNonspace = .ok a ∧
      o.firstNonspace = o.lineStart + Lines.byteLen a ∧
      o.lineEnd = o.lineStart + Lines.byteLen (a ++ mid ++ run ++ rest) ∧
      Lines.findIndentOf (a ++ mid ++ run ++ rest) (Lines.byteLen a + Lines.byteLen mid)
        = .ok (Lines.indentWidth (a ++ mid ++ run) - Lines.indentWidth (a ++ mid),
               Lines.byteLen a + Lines.byteLen mid + run.length) ∧
      Lines.slice src o.lineStart (o.lineStart + (Lines.byteLen a + Lines.byteLen mid + run.length))
        = .ok (a ++ mid ++ run) := by
  obtain ⟨a, b, h1, h2, h3, h4, h5⟩ := hl.slices
  have hbb := slice_unique h2 hb
  subst hbb
  obtain ⟨run, rest, rfl, hrun, hrest⟩ := Lines.blank_run_split rest'
  have hspec := Lines.find_indent_spec (a ++ mid) run rest hrun hrest
  refine ⟨a, run, rest, rfl, hrun, hrest, ?_, h3, h4, ?_, ?_, ?_⟩
  · simpa [List.append_assoc] using h1
  · simp at h5 ⊢; omega
  · simpa [List.append_assoc] using hspec
  · obtain ⟨p, q, hsrc, hp, _⟩ := Lines.slice_eq_ok_iff.mp h1
    refine Lines.slice_eq_ok_iff.mpr ⟨p, rest ++ q, ?_, hp, ?_⟩
    · rw [hsrc]; simp [List.append_assoc]
    · simp [hrun.byteLen]; omega

/-- the width of a non-empty blank run is positive -/
theorem indentWidth_run_pos (p run : List Char) (h : run ≠ []) :
    Lines.indentWidth p + 1 ≤ Lines.indentWidth (p ++ run) := by
  cases run with
  | nil => exact absurd rfl h
  | cons c r =>
    rw [Lines.indentWidth_append]
    simp only [Lines.widthFrom, List.foldl_cons]
    have h1 := Lines.colStep_gt (Lines.indentWidth p) c
    have h2 := Lines.widthFrom_ge (Lines.colStep (Lines.indentWidth p) c) r
    simp only [Lines.widthFrom] at h2
    omega

/-- the rewritten entry keeps its leading bytes one byte wide when the marker `mid` is -/
theorem wsAscii_rewrite {src : List Char} {o : LineOffset} (ha : WsAscii src o) {a mid run : List Char}
    (h3 : Lines.slice src o.lineStart o.firstNonspace = .ok a) (hmid : ∀ c ∈ mid, c.utf8Size = 1)
    (hrun : Lines.AllBlank run) {fn : Nat}
    (hs : Lines.slice src o.lineStart (o.lineStart + fn) = .ok (a ++ mid ++ run)) (x : Int) :
    WsAscii src { o with firstNonspace := fn + o.lineStart, indentNonspace := x } := by
  obtain ⟨a', ha', hasc⟩ := ha
  have := slice_unique ha' h3
  subst this
  refine ⟨a' ++ mid ++ run, by simpa [Nat.add_comm] using hs, ?_⟩
  intro c hc
  simp only [List.mem_append] at hc
  rcases hc with (hc | hc) | hc
  · exact hasc c hc
  · exact hmid c hc
  · rcases hrun c hc with rfl | rfl <;> decide

/-! ## what the call-backs must satisfy -/

/-- the look-ahead, on a line that exists -/
def TestOK (test : Test) : Prop := ∀ s, BInv s → s.line < s.lineMax → NoPanic (test s)

/-- the nested tokenizer -/
def TokOK (tok : Tok) : Prop := ∀ s, BInv s → NoPanic (tok s)

/-- slicing a text between two of its boundaries -/
theorem slice_total_of_split {l pre mid suf : List Char} (h : l = pre ++ mid ++ suf) :
    Lines.slice l (Lines.byteLen pre) (Lines.byteLen pre + Lines.byteLen mid) = .ok mid :=
  Lines.slice_eq_ok_iff.mpr ⟨pre, suf, h, rfl, rfl⟩

end MdIt.Block
