/-
  C10 with the sourcepos plugin, full version, part 1: the per-line tables of the two documents.

    * `seg_of_getLines`, `inlSpec3_pseg`, `doc_placeholder_segs`   every placeholder `(c, m)` of the block
      tree of `src` whose table has no virtual-space entry is segmented (`SegAll (fa_Seg src c) m` of
      Lemmas/C05RestFaith.lean: entry by entry a LF-free stretch of `c` that is a copy of source bytes,
      followed by ONE line feed behind which the next key points);
    * `tr_shift`   for such a table and the table `m.map (k, v) ↦ (k, v + #LF before v)` of the CR LF
      document, EVERY position of `c` is translated to `a` and `a + #LF before a`;
    * `tr_onByte`  a position of `c` at which a character other than LF starts is translated to a byte
      of `src` that is not a line feed.
-/
import MdIt.Props.C05Rest
import MdIt.Lemmas.C10SourceposSim
import MdIt.Lemmas.C10SpFullDefs

namespace MdIt.C05R
open MdIt.InlineOps (Srcmap getSourcePosFor byteLen)
open MdIt.Lines (LineOffset calcRightWs usizeAsI32 mapOf Shows)
open MdIt.C05I (SegAll segAll_get NoVirt)

/-- `fa_getLines_pfth_core` stopped one step earlier: the table is segmented -/
theorem seg_of_getLines {src : List Char} {offs : List LineOffset}
    (hT : ∀ (k : Nat) (o : LineOffset), offs[k]? = some o → Block.LineOk src o)
    (hord : Block.SortedS offs) (hterm : TermOk src offs)
    {b e indent : Nat} {c : List Char} {m : Srcmap} (hnv : NoVirt m) (hbe : b < e)
    (h : Lines.getLines src offs b e indent false = .ok (c, m)) :
    C05.WFMap m ∧ SegAll (fa_Seg src c) m := by
  have hlen : e ≤ offs.length := by
    unfold Lines.getLines at h
    rw [if_neg (by omega)] at h
    exact Lines.getLinesGo_ok_len h hbe
  obtain ⟨ovs, hvl, hvs⟩ := fa_ovs_of_tableOk hT (e - b) b (by omega)
  obtain ⟨content, hget, hcontent, _⟩ :=
    Lines.get_lines_faithful src offs b indent false ovs (fun j hj => ⟨(hvs j hj).1, (hvs j hj).2.1⟩)
  rw [hvl, show b + (e - b) = e by omega, h] at hget
  simp only [Except.ok.injEq, Prod.mk.injEq] at hget
  obtain ⟨rfl, hm⟩ := hget
  have hzero := fa_noVirt_zero indent ovs 0 (hm ▸ hnv)
  subst hm
  have hseg := fa_mapOf_seg src indent ovs [] (by
    intro ov hov
    have hz0 := hzero ov hov
    obtain ⟨j, hj, rfl⟩ := List.getElem_of_mem hov
    obtain ⟨_, hs, hn1, hn2⟩ := hvs j hj
    exact ⟨hs, hn1, hn2, hz0⟩) (by
    apply fa_chain_of
    intro j a a' ha ha'
    simp only [List.getElem?_map, Option.map_eq_some_iff] at ha ha'
    obtain ⟨x, hx, rfl⟩ := ha
    obtain ⟨y, hy, rfl⟩ := ha'
    obtain ⟨hj, rfl⟩ := List.getElem?_eq_some_iff.mp hx
    obtain ⟨hj', rfl⟩ := List.getElem?_eq_some_iff.mp hy
    have h1 := hord (b + j) (b + (j + 1)) _ _ (by omega) (hvs j hj).1 (hvs (j + 1) hj').1
    refine ⟨h1, ?_⟩
    rcases hterm _ _ (hvs j hj).1 with h2 | h2
    · exfalso
      have := (hT _ _ (hvs (j + 1) hj').1).bounds
      rw [C05I.linesLen_eq] at this
      omega
    · exact h2)
  simp only [List.nil_append, byteLen] at hseg
  rw [← hcontent] at hseg
  refine ⟨fa_seg_wf hseg ?_, hseg⟩
  cases ovs with
  | nil => simp at hvl; omega
  | cons ov r => exact ⟨_, _, rfl⟩

end MdIt.C05R

namespace MdIt.Block
open MdIt.Lines (LineOffset)

/-- what this development needs of a placeholder: `PFullV`, and a segmented table when no tab is split -/
def PSeg (src0 : List Char) : InlP := fun c m a b =>
  PFullV src0 c m a b ∧ (C05I.NoVirt m → C05.WFMap m ∧ C05I.SegAll (C05R.fa_Seg src0 c) m)

theorem inlSpec3_pseg (src0 : List Char) : InlSpec3 src0 (PSeg src0) := by
  refine ⟨?_, ?_⟩
  · intro s b e c m ob oe hg hgl hbe hob hoe hkept
    refine ⟨(inlSpec3_pfullV src0).lines s b e c m ob oe hg hgl hbe hob hoe hkept, ?_⟩
    intro hnv
    have := C05R.seg_of_getLines hg.g2.geo.table hg.g2.strict hg.term hnv hbe (C05I.getLines_lift hgl)
    rw [hg.g2.srcEq] at this
    exact this
  · intro s o line content textPos textMax hg ho hline hcontent
    refine ⟨(inlSpec3_pfullV src0).heading s o line content textPos textMax hg ho hline hcontent, ?_⟩
    intro _
    have h1 : Lines.getLine s.src s.offs s.line = .ok line := liftL_ok5 hline
    unfold Lines.getLine at h1
    rw [ho] at h1
    simp only at h1
    obtain ⟨hc, hn⟩ := C05R.fa_heading_cut (hg.g2.geo.table _ _ ho) h1 (liftL_ok5 hcontent)
    rw [hg.g2.srcEq] at hc
    exact ⟨(C05I.single_table content _).1, ⟨⟨[], content, [], by simp, rfl, hn, hc, rfl⟩, trivial⟩⟩

end MdIt.Block

namespace MdIt.Pipeline
open MdIt.InlineOps (Srcmap getSourcePosFor byteLen)
open MdIt.C05R
open MdIt.C05I (SegAll segAll_get NoVirt)

/-- what is known of a placeholder whose table has no virtual-space entry -/
structure TabOK (src c : List Char) (m : Srcmap) : Prop where
  wf : C05.WFMap m
  seg : SegAll (fa_Seg src c) m
  map : Inline.MapOK c m
  fth : PFth src c m

/-- **every placeholder of the block tree has a segmented table** (unless one of its tabs is split) -/
theorem doc_placeholder_segs (cfg : DocCfg) (src : List Char)
    (hsmall : 4 * Lines.byteLen src + 8 < 2147483648) (hpara : cfg.hasPara = true)
    {root : Block.BNode} {refs : Refs.RefMap} (hb : Block.parseBlocks cfg.blockCfg src = .ok (root, refs)) :
    Block.AllInl (fun c m => NoVirt m → TabOK src c m) root := by
  obtain ⟨hr, hg⟩ := Block.parseBlocks_geo3 (cfg := cfg.blockCfg) hpara (Block.inlSpec3_pseg src) hsmall hb
  refine hg.allInl (Q := fun c m => NoVirt m → TabOK src c m) ?_ ?_
  · intro c m a b ⟨⟨hp, hf, _⟩, hs⟩ hnv
    obtain ⟨hw, hsg⟩ := hs hnv
    exact ⟨hw, hsg, hp.2.2.2.2.1 hnv, hf hnv⟩
  · intro c m hk hrg
    rw [hr] at hrg; cases hrg

/-! ## translation under the table of the CR LF document -/

theorem lines_sm_len (l : List Char) : Lines.byteLen l = SourceMap.byteLen l := by
  induction l with
  | nil => rfl
  | cons c t ih => simp [Lines.byteLen, SourceMap.byteLen, ih]

/-- a cut without line feed: the line feeds below any offset inside it are those below its start -/
theorem lfBelow_cut {src : List Char} {v e : Nat} {t : List Char} (h : Cut src v e t) (hn : '\n' ∉ t)
    (d : Nat) (hd : d ≤ byteLen t) : C10SP.lfBelow src (v + d) = C10SP.lfBelow src v := by
  obtain ⟨p, q, hsrc, hp, _⟩ := h
  rw [← C05I.linesLen_eq] at hp hd
  have h1 := C10SP.lfBelow_in_line p t q hn d hd
  have h0 := C10SP.lfBelow_in_line p t q hn 0 (Nat.zero_le _)
  rw [hsrc, List.append_assoc, ← hp, h1]
  simpa using h0.symm

/-- the table of the CR LF document: the same keys, every value moved by the line feeds before it -/
def shiftMap (src : List Char) (m : Srcmap) : Srcmap := m.map fun e => (e.1, e.2 + C10SP.lfBelow src e.2)

theorem lfBelow_mono (src : List Char) : ∀ {a b : Nat}, a ≤ b → C10SP.lfBelow src a ≤ C10SP.lfBelow src b := by
  induction src with
  | nil => intro a b _; simp
  | cons ch r ih =>
    intro a b hab
    simp only [C10SP.lfBelow]
    by_cases ha : a = 0
    · simp [ha]
    · have hb : b ≠ 0 := by omega
      rw [if_neg ha, if_neg hb]
      have := ih (a := a - ch.utf8Size) (b := b - ch.utf8Size) (by omega)
      omega

theorem shiftMap_get (src : List Char) (m : Srcmap) (i : Nat) :
    (shiftMap src m)[i]? = (m[i]?).map fun e => (e.1, e.2 + C10SP.lfBelow src e.2) := by
  simp [shiftMap]

theorem shiftMap_keys (src : List Char) (m : Srcmap) : (shiftMap src m).map Prod.fst = m.map Prod.fst := by
  simp [shiftMap, Function.comp_def]

/-- where a position `p ≤ |c|` sits in a segmented table: entry `(k, v)`, stretch `t` -/
theorem seg_locate {src c : List Char} {m : Srcmap} (h : TabOK src c m) {p : Nat} (hp : p ≤ byteLen c) :
    ∃ i k v t, InlineOps.lineOf m p = .ok i ∧ m[i]? = some (k, v) ∧ k ≤ p ∧ p - k ≤ byteLen t ∧
      getSourcePosFor m p = .ok (v + (p - k)) ∧ '\n' ∉ t ∧ Cut src v (v + byteLen t) t ∧
      (∀ k' v', m[i + 1]? = some (k', v') → v + byteLen t < v') ∧
      (∃ pre post, c = pre ++ t ++ post ∧ byteLen pre = k) := by
  obtain ⟨i, k, v, h1, h2, h3, h4, h5⟩ :=
    C05.lineOf_spec_tr m h.wf p (C05.clampFree_of_mono m h.map.mono p)
  obtain ⟨pre, t, post, hcc, hpre, hnt, hsrc, hnext⟩ := segAll_get h.seg h2
  simp only at hpre hsrc hnext
  refine ⟨i, k, v, t, h1, h2, h3, ?_, h5, hnt, hsrc, ?_, ⟨pre, post, hcc, hpre⟩⟩
  · cases hn : m[i + 1]? with
    | none =>
      rw [hn] at hnext
      subst hnext
      rw [hcc] at hp
      simp only [C05.byteLen_append, List.append_nil, byteLen] at hp
      omega
    | some y =>
      rw [hn] at hnext
      obtain ⟨post', _, hk, _, _⟩ := hnext
      have := h4 (i + 1) y.1 y.2 (by omega) hn
      omega
  · intro k' v' hn
    rw [hn] at hnext
    obtain ⟨post', _, _, hv, _⟩ := hnext
    exact hv

/-- **every position of the inline text is translated exactly**: under a segmented table to `a`,
    under the shifted table to `a + #LF before a` -/
theorem tr_shift {src c : List Char} {m : Srcmap} (h : TabOK src c m) {p a : Nat} (hp : p ≤ byteLen c)
    (ha : getSourcePosFor m p = .ok a) :
    getSourcePosFor (shiftMap src m) p = .ok (a + C10SP.lfBelow src a) := by
  obtain ⟨i, k, v, t, h1, h2, h3, hd, h5, hnt, hcut, hnx, _⟩ := seg_locate h hp
  rw [h5] at ha
  simp only [Except.ok.injEq] at ha
  subst ha
  have hlf := lfBelow_cut hcut hnt (p - k) hd
  have hl2 : InlineOps.lineOf (shiftMap src m) p = .ok i := by
    unfold InlineOps.lineOf at h1 ⊢
    rw [shiftMap_keys]; exact h1
  have hg2 : (shiftMap src m)[i]? = some (k, v + C10SP.lfBelow src v) := by
    rw [shiftMap_get, h2]; rfl
  rw [C05.getSourcePosFor_of_line (shiftMap src m) p i k _ hl2 hg2 h3 ?_, hlf]
  · congr 1; omega
  · intro k' v' hn
    rw [shiftMap_get] at hn
    cases hm : m[i + 1]? with
    | none => rw [hm] at hn; simp at hn
    | some y =>
      rw [hm] at hn
      simp only [Option.map_some, Option.some.injEq, Prod.mk.injEq] at hn
      obtain ⟨_, rfl⟩ := hn
      have := hnx y.1 y.2 (by rw [hm])
      have hmono := lfBelow_mono src (a := v) (b := y.2) (by omega)
      omega

/-- a position of the inline text at which a character other than LF starts is translated to a byte
    of the document that is not a line feed -/
theorem tr_onByte {src c : List Char} {m : Srcmap} (h : TabOK src c m) {p a : Nat}
    (hc : C10SP.CharNotLf c p) (ha : getSourcePosFor m p = .ok a) :
    ∃ u ch w, src = u ++ ch :: w ∧ byteLen u = a ∧ ch ≠ '\n' := by
  obtain ⟨u, ch, w, hcc, hu, hch⟩ := hc
  have hcut : Cut c p (p + ch.utf8Size) [ch] := ⟨u, w, by simp [hcc], hu, by simp [byteLen]⟩
  obtain ⟨b, hb⟩ := C05.translate_total m h.wf (p + ch.utf8Size)
  have := h.fth.copy p (p + ch.utf8Size) [ch] a b hcut (by simpa using hch.symm) ha hb
  obtain ⟨u', w', hs, hu', _⟩ := this
  exact ⟨u', ch, w', by simpa using hs, hu', hch⟩

end MdIt.Pipeline
