/-
  Helper development for `Props/TotalTabs.lean` (C01 for ALL sources, split tabs included): the shared
  definitions.

  `Props/InlineTotal.lean` shows that the GUARDED tokenizer never returns a Rust panic from a state that
  is `Good` (Lemmas/InlineNoPanic.lean) — `Good` asks for a `MapOK` per-line table, which the `get_lines`
  table of a paragraph with a split tab is not.  Here the same contracts are stated for tables that are
  only `C05T.MapT` (monotone everywhere, a shift on every line-feed-free stretch that starts with a solid
  character — true of EVERY `get_lines` table, `C05T.mapT_of_virt`), with the frame invariant
  `C05T.RIv` (Lemmas/C05TabsDefs.lean) in place of `Inline.RI`:

    * `GoodT cfg lo st`   — `Good lo st` with `MapT` for `MapOK` and `tv_RInv (tv_NlAct cfg level)` for `RInv`;
    * `TrailOKw st`       — what the newline rule really needs of a trailing text (`TrailOK` asks for
                            `tailSpaces ≤ map_end` even when the whole text is cut, where nothing is
                            subtracted);
    * `FlatStepT`, `StepTT`, `RealTT`, `TokHypTT`, `LoopTT` — the contracts of
      Lemmas/InlineNoPanic.lean / InlineTotalFrame.lean / InlineTotalStep.lean / InlineTotalLoop.lean
      over `GoodT`.

  STATUS: the route these contracts were written for (redo `guarded_total` over `GoodT`) was abandoned in
  favour of the lock-step simulation of Lemmas/TotalTabsSim.lean / TotalTabsSim2.lean, which reuses the
  inline totality theorem as a black box.  Only `TrailOKw` is used by the final development (through
  `TT.trailOKw_of`, Lemmas/TotalTabsRules.lean); `GoodT` and the `…T` contracts are kept as stated, unused.
-/
import MdIt.Lemmas.InlineTotalLoop
import MdIt.Lemmas.C05TabsRanges3

namespace MdIt.Inline.TT
open MdIt.Inline
open MdIt.InlineOps (Srcmap getSourcePosFor getMap byteLen slice)
open MdIt.C05T (MapT RIv tv_RInv tv_NlAct tv_StepRI tv_StepOK tv_RangesFn SolidMarkers)

/-- what the no-panic theorem for `MapT` tables maintains along a run (frame started at source `lo`):
    `Inline.Good` with `MapT` for `MapOK` and `RIv` (in a frame where the newline rule is active a
    trailing `Text` holds no line feed) for `RI` -/
structure GoodT (cfg : Cfg) (lo : Nat) (st : IState) : Prop where
  le : st.pos ≤ st.posMax
  bpos : Boundary st.src st.pos
  bmax : Boundary st.src st.posMax
  map : MapT st.src st.srcmap
  stop : EntStop st.src st.posMax
  ri : tv_RInv (tv_NlAct cfg st.level) lo st
  bottoms : BottomsOK st.bottoms

theorem GoodT.inv {cfg : Cfg} {lo : Nat} {st : IState} (h : GoodT cfg lo st) (hlt : st.pos < st.posMax) :
    InlineInv st :=
  ⟨hlt, h.bpos, h.bmax, h.map.wf⟩

theorem GoodT.linv {cfg : Cfg} {lo : Nat} {st : IState} (h : GoodT cfg lo st) (hm : MemoB st) : LInv st :=
  ⟨h.le, h.bpos, h.bmax, h.map.wf, h.stop, hm⟩

/-- what the newline rule needs from the tree in real mode: `Inline.TrailOK`, the source-offset clause
    only when blanks are cut off a LONGER text (when the whole text goes, `trailing_text_pop` removes
    the node and subtracts nothing) -/
def TrailOKw (st : IState) : Prop :=
  ∀ init last, st.children = init ++ [last] → last.isText = true →
    tailSpaces last.content ≤ st.pos ∧
      ∀ a b, last.range = some (a, b) → tailSpaces last.content < byteLen last.content →
        tailSpaces last.content ≤ b

/-- a successful flat rule in real mode (`Inline.FlatStep` over `RIv`) -/
structure FlatStepT (cfg : Cfg) (lo : Nat) (st : IState) (o : Option Nat) (st' : IState) : Prop where
  frame : Frame st st'
  pos : st'.pos = st.pos
  adv : Advances st o
  ri : tv_StepRI (tv_NlAct cfg st.level) lo st o st'
  bottoms : BottomsOK st'.bottoms

/-- what `tokenize` guarantees on a good state -/
def TokHypTT (cfg : Cfg) (tok : IState → Except Panic IState) : Prop :=
  ∀ lo s, GoodT cfg lo s → MemoB s → TokT s (tok s)

/-- what a rule call in real mode leaves behind (`Inline.StepT` over `GoodT`) -/
structure StepTT (cfg : Cfg) (lo : Nat) (st : IState) (o : Option Nat) (st' : IState) : Prop where
  good : GoodT cfg lo { st' with pos := st'.pos + o.getD 0 }
  memo : MemoB st'
  frame : Frame st st'
  nonePos : o = none → st'.pos = st.pos
  adv : ∀ len, o = some len → st.pos < st'.pos + len

/-- what a rule call in real mode guarantees (`Inline.RealT` over `GoodT`) -/
structure RealTT (cfg : Cfg) (lo : Nat) (st : IState) (r : RuleRes) : Prop where
  noRust : NoRust r
  ok : ∀ o st', r = .ok (o, st') → StepTT cfg lo st o st'

/-- what the guarded `tokenize` loop guarantees from a good state (`Inline.LoopT` over `GoodT`) -/
structure LoopTT (cfg : Cfg) (lo : Nat) (st : IState) (r : Except Panic IState) : Prop where
  noRust : NoRust r
  ok : ∀ st', r = .ok st' → Frame st st' ∧ MemoB st' ∧ GoodT cfg lo st'

theorem LoopTT.tokT {cfg : Cfg} {lo : Nat} {st : IState} {r : Except Panic IState}
    (h : LoopTT cfg lo st r) : TokT st r :=
  ⟨h.noRust, fun st' hr => ⟨(h.ok st' hr).1, (h.ok st' hr).2.1, (h.ok st' hr).2.2.le⟩⟩

end MdIt.Inline.TT
