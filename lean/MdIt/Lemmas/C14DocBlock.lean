/-
  Helper development for `Props/C14Doc.lean` (block side of the text normal form without a join pass).

  When no emphasis-like inline rule is configured there is no `FragmentsJoin` pass, so two `Text`
  nodes that the splice walk puts side by side stay two nodes.  Texts of DIFFERENT `InlineRoot`
  placeholders become siblings exactly when two placeholders are adjacent children of one block node,
  and — with the paragraph rule configured — that can only happen under a list item of a TIGHT list
  (`mark_tight_paragraphs` dissolves the paragraphs).  This file proves that it does not happen when
  the paragraph rule is the LAST rule of the block chain (what `after_all()` in `paragraph::add` makes
  of every plugin order):

    `tokenize_tight`        the nested tokenizer, started on an empty child vector: `state.tight` at the
                            end ⇒ no two adjacent `Paragraph` children.  (Two paragraphs with nothing in
                            between are separated by a blank line — then `has_empty_lines` clears
                            `tight` — or the first one was ended by the look-ahead `test_rules_at_line`;
                            then a rule fires silently at that line, and in real mode the chain claims
                            the line with a rule in front of the paragraph rule: `chain_at_term`, from
                            silent ⇒ real across the different `children` / `tight` of the two states
                            (`sr_rule`), the fact that no line on which a silent rule fires starts a
                            reference definition (`fn_rule`, `reference_firstNot` — the reference rule
                            pushes no node), and `push_rule`.)
    `parseBlocks_noAdjInl`  every node of the block tree has no two adjacent `InlineRoot` children (`NAI`).

  The hypothesis is necessary: with the chain `[list, paragraph, hr]` the source `"- a\n  ***"` gives a
  tight item with two adjacent placeholders (example in `Props/C14Doc.lean`).
-/
import MdIt.Props.Pipeline

namespace MdIt.Block
open MdIt.Lines (LineOffset)
set_option linter.unusedSimpArgs false

/-- the state with other children and another `tight` flag -/
def reset (s : BState) (c : List BNode) (t : Bool) : BState := { s with children := c, tight := t }

@[simp] theorem reset_lineIndent (s : BState) (c : List BNode) (t : Bool) (l : Nat) :
    (reset s c t).lineIndent l = s.lineIndent l := rfl
@[simp] theorem reset_getLine (s : BState) (c : List BNode) (t : Bool) (l : Nat) :
    (reset s c t).getLine l = s.getLine l := rfl
@[simp] theorem reset_listSpecial (s : BState) (c : List BNode) (t : Bool) :
    listSpecial (reset s c t) = listSpecial s := rfl
@[simp] theorem reset_line (s : BState) (c : List BNode) (t : Bool) : (reset s c t).line = s.line := rfl
@[simp] theorem reset_nodeKind (s : BState) (c : List BNode) (t : Bool) : (reset s c t).nodeKind = s.nodeKind := rfl

syntax "views " ident ident : tactic
macro_rules
| `(tactic| views $a:ident $b:ident) => `(tactic|
    simp only [reset_lineIndent, reset_getLine, reset_listSpecial, reset_line, reset_nodeKind] at $a:ident $b:ident)

theorem sr_hr {s s1 s2 : BState} {b : Bool} {c : List BNode} {t : Bool}
    (hs : hrRule s true = .ok (true, s1)) (hr : hrRule (reset s c t) false = .ok (b, s2)) : b = true := by
  unfold hrRule at hs hr
  views hs hr
  crack hs
  replay hr
  crack hr
  all_goals simp_all

theorem sr_heading {s s1 s2 : BState} {b : Bool} {c : List BNode} {t : Bool}
    (hs : headingRule s true = .ok (true, s1)) (hr : headingRule (reset s c t) false = .ok (b, s2)) : b = true := by
  unfold headingRule at hs hr
  views hs hr
  crack hs
  replay hr
  crack hr
  all_goals simp_all

theorem sr_fence {s s1 s2 : BState} {b : Bool} {c : List BNode} {t : Bool}
    (hs : fenceRule s true = .ok (true, s1)) (hr : fenceRule (reset s c t) false = .ok (b, s2)) : b = true := by
  unfold fenceRule at hs hr
  views hs hr
  crack hs
  replay hr
  crack hr
  all_goals simp_all

theorem sr_blockquote {tok tok' : Tok} {test test' : Test} {fuel fuel' : Nat} {s s1 s2 : BState}
    {b : Bool} {c : List BNode} {t : Bool} (hs : blockquoteRule tok test fuel s true = .ok (true, s1))
    (hr : blockquoteRule tok' test' fuel' (reset s c t) false = .ok (b, s2)) : b = true := by
  unfold blockquoteRule at hs hr
  views hs hr
  crack hs
  replay hr
  crack hr
  all_goals simp_all

theorem sr_list {tok tok' : Tok} {test test' : Test} {fuel fuel' : Nat} {s s1 s2 : BState} {b : Bool}
    {c : List BNode} {t : Bool} (hs : listRule tok test fuel s true = .ok (true, s1))
    (hr : listRule tok' test' fuel' (reset s c t) false = .ok (b, s2)) : b = true := by
  unfold listRule at hs hr
  views hs hr
  crack hs
  all_goals (replay hr)
  all_goals (crack hr)
  all_goals (try simp only [emptyItemCheck, Bool.false_eq_true, ↓reduceIte, pure_ok, Except.ok.injEq] at *)
  all_goals (subst_vars; first | rfl | contradiction)


/-! ## a line on which a silent rule fires does not start a reference definition -/

/-- the line under the cursor is not empty and does not start with `[` -/
def FirstNot (s : BState) : Prop := ∃ c rest, s.getLine s.line = .ok (c :: rest) ∧ c ≠ '['

theorem fn_hr {s s1 : BState} (hs : hrRule s true = .ok (true, s1)) : FirstNot s := by
  unfold hrRule at hs
  crack hs
  have hl := ‹BState.getLine _ _ = Except.ok (_ :: _)›
  have hm : ¬ ¬ (_ ∨ _ ∨ _) := ‹_›
  refine ⟨_, _, hl, ?_⟩
  rintro rfl
  simp at hm

theorem fn_fence {s s1 : BState} (hs : fenceRule s true = .ok (true, s1)) : FirstNot s := by
  unfold fenceRule at hs
  crack hs
  have hl := ‹BState.getLine _ _ = Except.ok (_ :: _)›
  have hm : ¬ ¬ (_ ∨ _) := ‹_›
  refine ⟨_, _, hl, ?_⟩
  rintro rfl
  simp at hm

theorem head_first {l : List Char} {x : Char} (h : ¬ l.head? ≠ some x) (hx : x ≠ '[') :
    ∃ c rest, l = c :: rest ∧ c ≠ '[' := by
  cases l with
  | nil => simp at h
  | cons c rest =>
    refine ⟨c, rest, rfl, ?_⟩
    rintro rfl
    simp at h
    exact hx h.symm

theorem fn_heading {s s1 : BState} (hs : headingRule s true = .ok (true, s1)) : FirstNot s := by
  unfold headingRule at hs
  crack hs
  have hl := ‹BState.getLine _ _ = Except.ok _›
  have hm : ¬ _ ≠ some '#' := ‹_›
  obtain ⟨c, rest, rfl, hc⟩ := head_first hm (by decide)
  exact ⟨c, rest, hl, hc⟩

theorem fn_blockquote {tok : Tok} {test : Test} {fuel : Nat} {s s1 : BState}
    (hs : blockquoteRule tok test fuel s true = .ok (true, s1)) : FirstNot s := by
  unfold blockquoteRule at hs
  crack hs
  have hl := ‹BState.getLine _ _ = Except.ok _›
  have hm : ¬ _ ≠ some '>' := ‹_›
  obtain ⟨c, rest, rfl, hc⟩ := head_first hm (by decide)
  exact ⟨c, rest, hl, hc⟩

theorem skipOrdered_first {l : List Char} {p : Nat} (h : skipOrdered l = some p) :
    ∃ c rest, l = c :: rest ∧ c ≠ '[' := by
  cases l with
  | nil => simp [skipOrdered] at h
  | cons c rest =>
    refine ⟨c, rest, rfl, ?_⟩
    rintro rfl
    simp [skipOrdered, isDigit] at h

theorem skipBullet_first {l : List Char} {p : Nat} (h : skipBullet l = some p) :
    ∃ c rest, l = c :: rest ∧ c ≠ '[' := by
  cases l with
  | nil => simp [skipBullet] at h
  | cons c rest =>
    refine ⟨c, rest, rfl, ?_⟩
    rintro rfl
    simp [skipBullet] at h

theorem detectMarker_first {l : List Char} {r : Nat × Option Nat} (h : detectMarker l = .ok (some r)) :
    ∃ c rest, l = c :: rest ∧ c ≠ '[' := by
  unfold detectMarker at h
  split at h
  · exact skipOrdered_first ‹_›
  · split at h
    · exact skipBullet_first ‹_›
    · simp [pure, Except.pure] at h

theorem fn_list {tok : Tok} {test : Test} {fuel : Nat} {s s1 : BState}
    (hs : listRule tok test fuel s true = .ok (true, s1)) : FirstNot s := by
  unfold listRule at hs
  crack hs
  all_goals (
    have hl := ‹BState.getLine _ _ = Except.ok _›
    have hd := ‹detectMarker _ = Except.ok _›
    obtain ⟨c, rest, rfl, hc⟩ := detectMarker_first hd
    exact ⟨c, rest, hl, hc⟩)

theorem fn_rule {cfg : Cfg} {tok : Tok} {test : Test} {fuel : Nat} {r : RuleId} {s s1 : BState}
    (hs : runRule cfg tok test fuel r s true = .ok (true, s1)) : FirstNot s := by
  cases r <;> simp only [runRule] at hs
  · simp [silent_false_code] at hs
  · exact fn_fence hs
  · exact fn_blockquote hs
  · exact fn_hr hs
  · exact fn_list hs
  · simp [silent_false_reference] at hs
  · exact fn_heading hs
  · simp [silent_false_lheading] at hs
  · simp [silent_false_paragraph] at hs

/-- on such a line the reference rule answers `false` -/
theorem reference_firstNot {cfg : Cfg} {test : Test} {fuel : Nat} {s s2 : BState} {b : Bool}
    {c : List BNode} {t : Bool} (hf : FirstNot s)
    (hr : referenceRule cfg test fuel (reset s c t) false = .ok (b, s2)) : b = false := by
  obtain ⟨ch, rest, hl, hne⟩ := hf
  unfold referenceRule at hr
  simp only [reset_lineIndent, reset_getLine, reset_line] at hr
  replay hr
  crack hr
  all_goals (first | (exact Eq.symm ‹false = b›) | (subst_vars; simp_all))


/-! ## what a rule pushes in real mode -/

def BNode.isPara (n : BNode) : Bool :=
  match n.kind with
  | .paragraph => true
  | _ => false
def BNode.isInl (n : BNode) : Bool :=
  match n.kind with
  | .inlineRoot _ _ => true
  | _ => false

/-- the children are `old` plus one node that is not a paragraph -/
def PushedOther (s s' : BState) : Prop := ∃ n, s'.children = s.children ++ [n] ∧ n.isPara = false

theorem push_hr {s s' : BState} (h : hrRule s false = .ok (true, s')) : PushedOther s s' := by
  unfold hrRule at h
  crack h
  exact ⟨_, rfl, rfl⟩

theorem push_code {s s' : BState} (h : codeRule s false = .ok (true, s')) : PushedOther s s' := by
  unfold codeRule at h
  crack h
  exact ⟨_, rfl, rfl⟩

theorem push_fence {s s' : BState} (h : fenceRule s false = .ok (true, s')) : PushedOther s s' := by
  unfold fenceRule at h
  crack h
  exact ⟨_, rfl, rfl⟩

theorem push_heading {s s' : BState} (h : headingRule s false = .ok (true, s')) : PushedOther s s' := by
  unfold headingRule at h
  crack h
  exact ⟨_, rfl, rfl⟩

theorem push_lheading {test : Test} (ht : TestPure test) {fuel : Nat} {s s' : BState}
    (h : lheadingRule test fuel s false = .ok (true, s')) : PushedOther s s' := by
  unfold lheadingRule at h
  crack h
  have h1 := (lazyScan_spec ht true _ _ _ _ ‹lazyScan _ _ _ _ _ = _›).1
  unfold PushedOther
  simp only [BState.push, h1]
  exact ⟨_, rfl, rfl⟩

theorem push_blockquote {tok : Tok} {test : Test} (hk : TokSpec tok) (ht : TestPure test) {fuel : Nat}
    {s s' : BState} (h : blockquoteRule tok test fuel s false = .ok (true, s')) : PushedOther s s' := by
  unfold blockquoteRule at h
  crack h
  have hscan := ‹bqScan _ _ _ _ _ _ = _›
  have htok := ‹tok _ = _›
  obtain ⟨hch, _⟩ := bqScan_children ht hscan
  have hfr := (hk.frame _ _ htok).nodeKind
  simp only at hch hfr
  refine ⟨_, by simp only; rw [hch], ?_⟩
  simp only [BNode.isPara, hfr]

theorem push_list {tok : Tok} {test : Test} (hk : TokSpec tok) (ht : TestPure test) {fuel : Nat}
    {s s' : BState} (h : listRule tok test fuel s false = .ok (true, s')) (hl : s.line < s.lineMax) :
    PushedOther s s' := by
  unfold listRule at h
  crack h
  all_goals (
    have hloop := ‹listLoop _ _ _ _ _ _ _ _ _ _ = _›
    obtain ⟨hfr, _⟩ := listLoop_spec hk ht _ _ _ _ _ _ _ _ _ hloop rfl hl
    have hkind := hfr.nodeKind
    simp only at hkind
    refine ⟨_, rfl, ?_⟩
    simp only [BNode.isPara, hkind])

/-- the reference rule pushes nothing -/
theorem reference_children {cfg : Cfg} {test : Test} (ht : TestPure test) {fuel : Nat} {s s' : BState} {b : Bool}
    (h : referenceRule cfg test fuel s false = .ok (b, s')) : s'.children = s.children := by
  unfold referenceRule at h
  crack h
  all_goals (try (have h1 := (lazyScan_spec ht false _ _ _ _ ‹lazyScan _ _ _ _ _ = _›).1))
  all_goals (try subst_vars)
  all_goals (first | rfl | (simp only [h1]))


/-! ## why a paragraph ends -/

/-- the paragraph that starts in `s` ends before line `L`: at the end of the block, at a blank
    line, or because the look-ahead answered `true` there -/
def ParaExit (test : Test) (s : BState) (L : Nat) : Prop :=
  L ≥ s.lineMax ∨ s.isEmpty L = true ∨ ∃ x, test { s with line := L } = .ok (true, x)

theorem lazyScan_exit {test : Test} (ht : TestPure test) :
    ∀ (fuel : Nat) (s : BState) (n : Nat) (r : Nat × Nat × BState),
      lazyScan test false fuel s n = .ok r → ParaExit test s r.1 := by
  intro fuel
  induction fuel with
  | zero => intro s n r h; simp [lazyScan] at h
  | succ f ih =>
    intro s n r h
    simp only [lazyScan] at h
    crack h
    · have hc : _ ∨ _ := ‹_›
      rcases hc with hc | hc
      · exact .inl hc
      · exact .inr (.inl hc)
    · exact ih _ _ _ h
    · have hs := ‹setextCheck _ _ _ _ = _›
      have hne : ¬ _ = 0 := ‹_›
      simp [setextCheck, pure, Except.pure] at hs
      exact absurd hs.symm hne
    · exact ih _ _ _ h
    · rename_i w hw hb
      obtain ⟨b, s1⟩ := w
      simp only at hb
      subst hb
      exact .inr (.inr ⟨s1, hw⟩)
    · have e := ht _ _ ‹test _ = _›
      simp only [e] at h
      have := ih _ _ _ h
      simpa [ParaExit] using this

/-- the paragraph rule in real mode -/
theorem paragraph_push {test : Test} (ht : TestPure test) {fuel : Nat} {s s' : BState} {b : Bool}
    (h : paragraphRule test fuel s false = .ok (b, s')) :
    ∃ n, n.isPara = true ∧ s' = { s with line := s'.line, children := s.children ++ [n] } ∧
      ParaExit test s s'.line := by
  unfold paragraphRule at h
  crack h
  rename_i w _ cm _ e _ r _ _
  have hscan := ‹lazyScan _ _ _ _ _ = _›
  have h1 := (lazyScan_spec ht false _ _ _ _ hscan).1
  have h2 := lazyScan_exit ht _ _ _ _ hscan
  refine ⟨⟨.paragraph, some r, [⟨.inlineRoot cm.1 cm.2, none, []⟩]⟩, ?_, ?_, ?_⟩
  · rfl
  · simp only [BState.push, h1]
  · simpa [BState.push] using h2


/-! ## no two adjacent … -/

/-- no two adjacent elements both satisfy `p` -/
def NoAdj {α : Type} (p : α → Bool) : List α → Prop
  | [] => True
  | x :: r => (∀ y, r.head? = some y → ¬ (p x = true ∧ p y = true)) ∧ NoAdj p r

theorem noAdj_snoc {α : Type} (p : α → Bool) (l : List α) (x : α) :
    NoAdj p (l ++ [x]) ↔ NoAdj p l ∧ ∀ y, l.getLast? = some y → ¬ (p y = true ∧ p x = true) := by
  induction l with
  | nil => simp [NoAdj]
  | cons a r ih =>
    cases r with
    | nil => simp [NoAdj]
    | cons b r' =>
      have e : (a :: b :: r') ++ [x] = a :: ((b :: r') ++ [x]) := rfl
      rw [e]
      simp only [NoAdj] at ih ⊢
      rw [ih]
      simp only [List.cons_append, List.head?_cons, Option.some.injEq, forall_eq',
        List.getLast?_cons_cons]
      constructor
      · rintro ⟨h1, ⟨h2, h3⟩, h4⟩; exact ⟨⟨h1, h2, h3⟩, h4⟩
      · rintro ⟨⟨h1, h2, h3⟩, h4⟩; exact ⟨h1, ⟨h2, h3⟩, h4⟩

theorem noAdj_of_none {α : Type} (p : α → Bool) : ∀ (l : List α), (∀ x ∈ l, p x = false) → NoAdj p l
  | [], _ => trivial
  | x :: r, h => ⟨fun y _ hc => by rw [h x (by simp)] at hc; exact absurd hc.1 (by simp),
      noAdj_of_none p r (fun y hy => h y (List.mem_cons_of_mem _ hy))⟩

theorem noAdj_snoc_not {α : Type} {p : α → Bool} {l : List α} {x : α} (h : NoAdj p l) (hx : p x = false) :
    NoAdj p (l ++ [x]) :=
  (noAdj_snoc p l x).mpr ⟨h, fun y _ hc => by rw [hx] at hc; exact absurd hc.2 (by simp)⟩

/-! ## the chain at a line where the look-ahead fired -/

/-- some rule of the chain answers `true` in silent mode at `u` (whatever the call-backs are: a silent
    run never reaches them) -/
def SilentFires (cfg : Cfg) (u : BState) : Prop :=
  ∃ (tok0 : Tok) (test0 : Test) (fuel0 : Nat) (r : RuleId) (x : BState),
    r ∈ cfg.chain ∧ runRule cfg tok0 test0 fuel0 r u true = .ok (true, x)

/-- the look-ahead answers `true` only when a rule of the chain fires silently -/
def TestFires (cfg : Cfg) (test : Test) : Prop := ∀ s x, test s = .ok (true, x) → SilentFires cfg s

/-- the state is, up to its children and `tight`, one in which a rule fires silently -/
def Term (cfg : Cfg) (s : BState) : Prop := ∃ u c t, s = reset u c t ∧ SilentFires cfg u

/-- the paragraph rule is the last rule of the chain (and occurs only there): what `after_all()` in
    `paragraph::add` makes of every plugin order -/
def ParaLast (chain : List RuleId) : Prop := ∃ pre, chain = pre ++ [.paragraph] ∧ RuleId.paragraph ∉ pre

theorem sr_rule {cfg : Cfg} {tok0 tok : Tok} {test0 test : Test} {fuel0 fuel : Nat} {r : RuleId}
    {u s1 s2 : BState} {b : Bool} {c : List BNode} {t : Bool}
    (hs : runRule cfg tok0 test0 fuel0 r u true = .ok (true, s1))
    (hr : runRule cfg tok test fuel r (reset u c t) false = .ok (b, s2)) : b = true := by
  cases r <;> simp only [runRule] at hs hr
  · simp [silent_false_code] at hs
  · exact sr_fence hs hr
  · exact sr_blockquote hs hr
  · exact sr_hr hs hr
  · exact sr_list hs hr
  · simp [silent_false_reference] at hs
  · exact sr_heading hs hr
  · simp [silent_false_lheading] at hs
  · simp [silent_false_paragraph] at hs

theorem push_rule {cfg : Cfg} {tok : Tok} {test : Test} (hk : TokSpec tok) (ht : TestPure test) {fuel : Nat}
    {r : RuleId} {s s' : BState} (h : runRule cfg tok test fuel r s false = .ok (true, s'))
    (hl : s.line < s.lineMax) (h1 : r ≠ .paragraph) (h2 : r ≠ .reference) : PushedOther s s' := by
  cases r <;> simp only [runRule] at h
  · exact push_code h
  · exact push_fence h
  · exact push_blockquote hk ht h
  · exact push_hr h
  · exact push_list hk ht h hl
  · exact absurd rfl h2
  · exact push_heading h
  · exact push_lheading ht h
  · exact absurd rfl h1

theorem chain_term {cfg : Cfg} {tok : Tok} {test : Test} (hk : TokSpec tok) (ht : TestPure test) {fuel : Nat}
    {tok0 : Tok} {test0 : Test} {fuel0 : Nat} {r0 : RuleId} {x u : BState} {c : List BNode} {t : Bool}
    (hs : runRule cfg tok0 test0 fuel0 r0 u true = .ok (true, x)) (hl : u.line < u.lineMax) :
    ∀ (pre rest : List RuleId), RuleId.paragraph ∉ pre → r0 ∈ pre → ∀ (b : Bool) (s2 : BState),
      runChain (runRule cfg tok test fuel) (pre ++ rest) (reset u c t) false = .ok (b, s2) →
      PushedOther (reset u c t) s2 := by
  intro pre
  induction pre with
  | nil => intro rest _ hm; simp at hm
  | cons r pre' ih =>
    intro rest hnp hm b s2 h
    have hrp : r ≠ .paragraph := fun e => hnp (by simp [e])
    simp only [List.cons_append, runChain] at h
    split at h
    · cases h
    · rename_i s1 h1
      cases h
      by_cases hre : r = .reference
      · subst hre
        simp only [runRule] at h1
        have := reference_firstNot (fn_rule hs) h1
        cases this
      · exact push_rule hk ht h1 hl hrp hre
    · rename_i s1 h1
      have e := (runRule_spec hk ht fuel).false_same _ _ _ h1
      subst e
      by_cases hr0 : r0 = r
      · subst hr0
        have := sr_rule hs h1
        cases this
      · have hm' : r0 ∈ pre' := by
          rcases List.mem_cons.mp hm with e | e
          · exact absurd e hr0
          · exact e
        exact ih rest (fun hp => hnp (List.mem_cons_of_mem _ hp)) hm' _ _ h

/-- at a state where the look-ahead fired, the chain (paragraph rule last) pushes exactly one node,
    and it is not a paragraph -/
theorem chain_at_term {cfg : Cfg} {tok : Tok} {test : Test} (hk : TokSpec tok) (ht : TestPure test)
    {fuel : Nat} (hlast : ParaLast cfg.chain) {s s2 : BState} {b : Bool} (hterm : Term cfg s)
    (hl : s.line < s.lineMax)
    (h : runChain (runRule cfg tok test fuel) cfg.chain s false = .ok (b, s2)) : PushedOther s s2 := by
  obtain ⟨u, c, t, rfl, tok0, test0, fuel0, r0, x, hmem, hs⟩ := hterm
  obtain ⟨pre, hch, hnp⟩ := hlast
  have hr0 : r0 ∈ pre := by
    rw [hch] at hmem
    rcases List.mem_append.mp hmem with e | e
    · exact e
    · simp only [List.mem_singleton] at e
      subst e
      simp [runRule, silent_false_paragraph] at hs
  rw [hch] at h
  exact chain_term hk ht hs hl pre _ hnp hr0 _ _ h

/-- what the chain does to the children, in general -/
def ChainRes (test : Test) (s s2 : BState) : Prop :=
  s2.children = s.children ∨ PushedOther s s2 ∨
    ∃ n, n.isPara = true ∧ s2 = { s with line := s2.line, children := s.children ++ [n] } ∧
      ParaExit test s s2.line

theorem runChain_result {cfg : Cfg} {tok : Tok} {test : Test} (hk : TokSpec tok) (ht : TestPure test)
    {fuel : Nat} : ∀ (chain : List RuleId) (s : BState) (b : Bool) (s2 : BState),
      runChain (runRule cfg tok test fuel) chain s false = .ok (b, s2) → s.line < s.lineMax →
      ChainRes test s s2 := by
  intro chain
  induction chain with
  | nil => intro s b s2 h _; simp [runChain] at h; rw [← h.2]; exact .inl rfl
  | cons r rs ih =>
    intro s b s2 h hl
    simp only [runChain] at h
    split at h
    · cases h
    · rename_i s1 h1
      cases h
      by_cases hp : r = .paragraph
      · subst hp
        simp only [runRule] at h1
        exact .inr (.inr (paragraph_push ht h1))
      · by_cases hre : r = .reference
        · subst hre
          simp only [runRule] at h1
          exact .inl (reference_children ht h1)
        · exact .inr (.inl (push_rule hk ht h1 hl hp hre))
    · rename_i s1 h1
      have e := (runRule_spec hk ht fuel).false_same _ _ _ h1
      subst e
      exact ih _ _ _ h hl


/-! ## the tokenizer loop: `tight` at the end ⇒ no two adjacent paragraphs -/

/-- the loop invariant (`he` = `has_empty_lines`) -/
structure TInv (cfg : Cfg) (he : Bool) (s : BState) : Prop where
  noAdj : (he = false ∨ s.tight = true) → NoAdj BNode.isPara s.children
  term : he = false → ∀ p, s.children.getLast? = some p → p.isPara = true → s.line < s.lineMax →
    s.isEmpty s.line = false ∧ Term cfg s

theorem set_line_self (s : BState) : { s with line := s.line } = s := by cases s; rfl

theorem append_singleton_ne {α : Type} (l : List α) (x : α) : l ≠ l ++ [x] := by
  intro h
  have := congrArg List.length h
  simp at this

/-- one iteration in which the chain runs, from a state without blank-line history -/
theorem iter_tight {cfg : Cfg} {tok : Tok} {test : Test} (hk : TokSpec tok) (ht : TestPure test)
    (htf : TestFires cfg test) {fuel : Nat} (hlast : ParaLast cfg.chain) {s1 s3 : BState}
    {w : Bool × BState} (hinv : TInv cfg false s1) (hlt : s1.line < s1.lineMax)
    (hc : runChain (runRule cfg tok test fuel) cfg.chain s1 false = .ok w)
    (ha : afterChain w.1 w.2 s1.line = .ok s3) :
    NoAdj BNode.isPara s3.children ∧
    (∀ t p, s3.children.getLast? = some p → p.isPara = true → s3.line < s3.lineMax →
      s3.isEmpty s3.line = false → Term cfg { s3 with tight := t }) := by
  obtain ⟨ok, s2⟩ := w
  have hna := hinv.noAdj (.inl rfl)
  have hres := runChain_result hk ht _ _ _ _ hc hlt
  obtain ⟨hfalse, _⟩ := runChain_real (runRule_spec hk ht fuel) _ _ _ _ hc
  -- the last child is a paragraph: the look-ahead fired here, the chain pushes something else
  have hlastpara : ∀ p, s1.children.getLast? = some p → p.isPara = true → PushedOther s1 s2 := by
    intro p hp hpp
    exact chain_at_term hk ht hlast (hinv.term rfl p hp hpp hlt).2 hlt hc
  cases ok with
  | false =>
    have e := hfalse rfl
    subst e
    unfold afterChain at ha
    crack ha
    simp only [BState.push]
    refine ⟨noAdj_snoc_not hna rfl, ?_⟩
    intro t p hp hpp
    simp only [List.getLast?_append, List.getLast?_singleton, Option.some_or, Option.some.injEq] at hp
    subst hp
    cases hpp
  | true =>
    obtain ⟨e, _⟩ := (afterChain_spec ha).2.1 rfl
    simp only at e
    subst e
    -- is the last old child a paragraph?
    have hcase : (∃ p, s1.children.getLast? = some p ∧ p.isPara = true) ∨
        (∀ p, s1.children.getLast? = some p → p.isPara = false) := by
      cases hl : s1.children.getLast? with
      | none => exact .inr (fun p hp => by cases hp)
      | some p =>
        cases hpp : p.isPara with
        | true => exact .inl ⟨p, rfl, hpp⟩
        | false => exact .inr (fun q hq => by cases hq; exact hpp)
    have other : PushedOther s1 s3 → NoAdj BNode.isPara s3.children ∧
        (∀ t p, s3.children.getLast? = some p → p.isPara = true → s3.line < s3.lineMax →
          s3.isEmpty s3.line = false → Term cfg { s3 with tight := t }) := by
      rintro ⟨n, hn, hnp⟩
      rw [hn]
      refine ⟨noAdj_snoc_not hna hnp, ?_⟩
      intro t p hp hpp
      simp only [List.getLast?_append, List.getLast?_singleton, Option.some_or, Option.some.injEq] at hp
      subst hp
      rw [hnp] at hpp
      cases hpp
    rcases hcase with ⟨p, hp, hpp⟩ | hnot
    · exact other (hlastpara p hp hpp)
    · rcases hres with hsame | hother | ⟨n, hn, hs3, hexit⟩
      · rw [hsame]
        refine ⟨hna, ?_⟩
        intro t p hp hpp
        rw [hnot p hp] at hpp
        cases hpp
      · exact other hother
      · have hch : s3.children = s1.children ++ [n] := by rw [hs3]
        refine ⟨?_, ?_⟩
        · rw [hch]
          refine (noAdj_snoc _ _ _).mpr ⟨hna, ?_⟩
          intro y hy hc
          rw [hnot y hy] at hc
          exact absurd hc.1 (by simp)
        · intro t p _ _ hl3 he3
          have hmax : s3.lineMax = s1.lineMax := by rw [hs3]
          have hemp : s3.isEmpty s3.line = s1.isEmpty s3.line := by rw [hs3]; rfl
          rcases hexit with h1 | h1 | ⟨x, hx⟩
          · omega
          · rw [hemp, h1] at he3; cases he3
          · refine ⟨{ s1 with line := s3.line }, s1.children ++ [n], t, ?_, htf _ _ hx⟩
            rw [hs3]
            rfl


theorem tokLoop_tight {cfg : Cfg} {tok : Tok} {test : Test} (hk : TokSpec tok) (ht : TestPure test)
    (htf : TestFires cfg test) {fuel : Nat} (hlast : ParaLast cfg.chain) :
    ∀ (f : Nat) (he : Bool) (s s' : BState),
      tokLoop cfg (runRule cfg tok test fuel) f he s = .ok s' → TInv cfg he s →
      s'.tight = true → NoAdj BNode.isPara s'.children := by
  intro f
  induction f with
  | zero => intro he s s' h; simp [tokLoop] at h
  | succ f ih =>
    intro he s s' h hinv
    simp only [tokLoop] at h
    obtain ⟨hs1, hs2, hs3, hs4⟩ := skipEmpty_spec s.offs s.lineMax s.line
    generalize Lines.skipEmptyLines s.offs s.lineMax s.line = l' at h hs1 hs2 hs3 hs4
    -- the invariant at the line the chain runs at
    have hinv1 : s.line < s.lineMax → TInv cfg he { s with line := l' } := by
      intro hlt
      refine ⟨hinv.noAdj, ?_⟩
      intro hhe p hp hpp _
      obtain ⟨h1, h2⟩ := hinv.term hhe p hp hpp hlt
      have e : l' = s.line := hs3 h1
      subst e
      exact ⟨h1, h2⟩
    crack h
    · subst_vars; exact fun htight => hinv.noAdj (.inr htight)
    · subst_vars; exact fun htight => hinv.noAdj (.inr htight)
    · subst_vars; exact fun htight => hinv.noAdj (.inr htight)
    · subst_vars; exact fun htight => hinv.noAdj (.inr htight)
    all_goals (
      have hchain := ‹runChain _ _ _ _ = _›
      have hafter := ‹afterChain _ _ _ = _›
      have hlt : s.line < s.lineMax := by
        have : ¬ ¬ s.line < s.lineMax := ‹_›
        omega
      have hlt' : l' < s.lineMax := by
        have : ¬ l' ≥ s.lineMax := ‹_›
        omega
      have hi1 := hinv1 hlt
      apply ih _ _ _ h)
    · cases he with
      | true =>
        refine ⟨?_, fun hc => by simp at hc⟩
        rintro (hc | hc) <;> simp at hc
      | false =>
        obtain ⟨hA, hB⟩ := iter_tight hk ht htf hlast hi1 hlt' hchain hafter
        exact ⟨fun _ => hA, fun hc => by simp at hc⟩
    · cases he with
      | true =>
        refine ⟨?_, fun hc => by simp at hc⟩
        rintro (hc | hc) <;> simp at hc
      | false =>
        obtain ⟨hA, hB⟩ := iter_tight hk ht htf hlast hi1 hlt' hchain hafter
        refine ⟨fun _ => hA, ?_⟩
        intro hhe p hp hpp hl5
        have hcond : ¬ (_ ∧ _) := ‹_›
        simp only [Bool.false_or] at hhe
        simp only [Bool.not_false] at hp hl5 hcond ⊢
        exact ⟨Bool.eq_false_iff.mpr (fun hc => hcond ⟨hl5, hc⟩),
          hB true p hp hpp hl5 (Bool.eq_false_iff.mpr (fun hc => hcond ⟨hl5, hc⟩))⟩


theorem testRules_fires (cfg : Cfg) (fuel : Nat) : TestFires cfg (testRules cfg fuel) := by
  intro s x h
  cases fuel with
  | zero => simp [testRules, engine] at h
  | succ f =>
    simp only [testRules, engine] at h
    -- the first rule that answers `true`
    have key : ∀ (chain : List RuleId) (s x : BState),
        runChain (runRule cfg (engine cfg f).1 (engine cfg f).2 (f + 1)) chain s true = .ok (true, x) →
        ∃ r ∈ chain, ∃ x', runRule cfg (engine cfg f).1 (engine cfg f).2 (f + 1) r s true = .ok (true, x') := by
      intro chain
      induction chain with
      | nil => intro s x h; simp [runChain] at h
      | cons r rs ih =>
        intro s x h
        simp only [runChain] at h
        split at h
        · cases h
        · rename_i s1 h1
          exact ⟨r, by simp, s1, h1⟩
        · rename_i s1 h1
          have e := silent_pure_rule h1
          subst e
          obtain ⟨r', hr', x', hx'⟩ := ih _ _ h
          exact ⟨r', List.mem_cons_of_mem _ hr', x', hx'⟩
    obtain ⟨r, hr, x', hx'⟩ := key _ _ _ h
    exact ⟨_, _, _, r, x', hr, hx'⟩

/-- the nested tokenizer, started on an empty child vector: `tight` at the end means that no two
    paragraphs are adjacent -/
def TokTight (tok : Tok) : Prop :=
  ∀ s s', tok s = .ok s' → s.children = [] → s'.tight = true → NoAdj BNode.isPara s'.children

theorem tokenize_tight (cfg : Cfg) (hlast : ParaLast cfg.chain) (fuel : Nat) : TokTight (tokenize cfg fuel) := by
  intro s s' h hnil
  cases fuel with
  | zero => simp [tokenize, engine] at h
  | succ f =>
    simp only [tokenize, engine] at h
    refine tokLoop_tight (tokenize_tokSpec cfg f) (testRules_pure cfg f) (testRules_fires cfg f) hlast
      _ _ _ _ h ⟨fun _ => by rw [hnil]; trivial, fun _ p hp => by rw [hnil] at hp; cases hp⟩

/-! ## no two adjacent placeholders, at every node -/

/-- no node of the tree has two adjacent `InlineRoot` children -/
inductive NAI : BNode → Prop
  | mk (n : BNode) : NoAdj BNode.isInl n.children → (∀ c ∈ n.children, NAI c) → NAI n

theorem NAI.at {n : BNode} (h : NAI n) : NoAdj BNode.isInl n.children := by cases h; assumption
theorem NAI.child {n : BNode} (h : NAI n) : ∀ c ∈ n.children, NAI c := by cases h; assumption

def AllNAI (cs : List BNode) : Prop := ∀ c ∈ cs, NAI c

theorem AllNAI.nil : AllNAI [] := fun _ h => by simp at h

theorem AllNAI.push {cs : List BNode} {n : BNode} (h : AllNAI cs) (hn : NAI n) : AllNAI (cs ++ [n]) := by
  intro c hc
  rcases List.mem_append.mp hc with h1 | h1
  · exact h c h1
  · simp at h1; subst h1; exact hn

def KeepsNAI (s s' : BState) : Prop := AllNAI s.children → AllNAI s'.children

theorem nai_leaf (k : Kind) (r : Option (Nat × Nat)) : NAI ⟨k, r, []⟩ :=
  .mk _ trivial (fun _ h => by simp at h)

theorem nai_textB (k : Kind) (r : Option (Nat × Nat)) (t : List Char) (m : List (Nat × Nat)) :
    NAI ⟨k, r, [⟨.inlineRoot t m, none, []⟩]⟩ :=
  .mk _ ⟨fun _ h => by simp at h, trivial⟩ (fun c hc => by simp at hc; subst hc; exact nai_leaf _ _)

theorem goodB_not_inl {c : BNode} (h : GoodB true c) : c.isInl = false := by
  unfold BNode.isInl
  split
  · next t m hk => exact absurd hk (h.top.2 rfl t m)
  · rfl

theorem noAdjInl_of_good {cs : List BNode} (h : AllGoodB true cs) : NoAdj BNode.isInl cs :=
  noAdj_of_none _ _ (fun c hc => goodB_not_inl (h c hc))

theorem hr_nai {s s' : BState} {b : Bool} (h : hrRule s false = .ok (b, s')) : KeepsNAI s s' := by
  unfold hrRule at h
  crack h
  all_goals (try subst_vars)
  all_goals (intro hg)
  all_goals (first | exact hg | exact hg.push (nai_leaf _ _))

theorem code_nai {s s' : BState} {b : Bool} (h : codeRule s false = .ok (b, s')) : KeepsNAI s s' := by
  unfold codeRule at h
  crack h
  all_goals (try subst_vars)
  all_goals (intro hg)
  all_goals (first | exact hg | exact hg.push (nai_leaf _ _))

theorem fence_nai {s s' : BState} {b : Bool} (h : fenceRule s false = .ok (b, s')) : KeepsNAI s s' := by
  unfold fenceRule at h
  crack h
  all_goals (try subst_vars)
  all_goals (intro hg)
  all_goals (first | exact hg | exact hg.push (nai_leaf _ _))

theorem heading_nai {s s' : BState} {b : Bool} (h : headingRule s false = .ok (b, s')) : KeepsNAI s s' := by
  unfold headingRule at h
  crack h
  all_goals (try subst_vars)
  all_goals (intro hg)
  all_goals (first | exact hg | exact hg.push (nai_textB _ _ _ _))

theorem paragraph_nai {test : Test} (ht : TestPure test) {fuel : Nat} {s s' : BState} {b : Bool}
    (h : paragraphRule test fuel s false = .ok (b, s')) : KeepsNAI s s' := by
  unfold paragraphRule at h
  crack h
  have h1 := (lazyScan_spec ht false _ _ _ _ ‹lazyScan _ _ _ _ _ = _›).1
  intro hg
  simp only [BState.push, h1]
  exact hg.push (nai_textB _ _ _ _)

theorem lheading_nai {test : Test} (ht : TestPure test) {fuel : Nat} {s s' : BState} {b : Bool}
    (h : lheadingRule test fuel s false = .ok (b, s')) : KeepsNAI s s' := by
  unfold lheadingRule at h
  crack h
  all_goals (try (have h1 := (lazyScan_spec ht true _ _ _ _ ‹lazyScan _ _ _ _ _ = _›).1))
  all_goals (try subst_vars)
  all_goals (intro hg)
  all_goals (first | exact hg | skip)
  exact hg.push (nai_textB _ _ _ _)

theorem reference_nai {cfg : Cfg} {test : Test} (ht : TestPure test) {fuel : Nat}
    {s s' : BState} {b : Bool} (h : referenceRule cfg test fuel s false = .ok (b, s')) :
    KeepsNAI s s' := by
  intro hg
  rw [reference_children ht h]
  exact hg

def TokNAI (tok : Tok) : Prop := ∀ s s', tok s = .ok s' → KeepsNAI s s'

theorem blockquote_nai {tok : Tok} {test : Test} (_hk : TokSpec tok) (hw : TokWF true tok) (hn : TokNAI tok)
    (ht : TestPure test) {fuel : Nat} {s s' : BState} {b : Bool}
    (h : blockquoteRule tok test fuel s false = .ok (b, s')) : KeepsNAI s s' := by
  unfold blockquoteRule at h
  crack h
  all_goals (try subst_vars)
  · exact fun hg => hg
  · exact fun hg => hg
  · have hscan := ‹bqScan _ _ _ _ _ _ = _›
    have htok := ‹tok _ = _›
    obtain ⟨hch, _⟩ := bqScan_children ht hscan
    have hg2 := hw _ _ htok AllGoodB.nil
    have hn2 := hn _ _ htok AllNAI.nil
    intro hg
    simp only at hch hg2 hn2 ⊢
    rw [hch]
    exact hg.push (.mk _ (noAdjInl_of_good hg2) hn2)


/-! ### lists -/

theorem isPara_iff (n : BNode) : n.isPara = true ↔ n.kind = .paragraph := by
  unfold BNode.isPara
  split
  · next h => simp [h]
  · next h => simp; exact h

theorem isInl_of_kind {n : BNode} {k : Kind} (h : n.kind = k) (hk : ∀ t m, k ≠ .inlineRoot t m) :
    n.isInl = false := by
  unfold BNode.isInl
  split
  · next t m e => rw [h] at e; exact absurd e (hk t m)
  · rfl

theorem markTight_head {y : BNode} {r : List BNode} (hy : y.isPara = false) :
    (markTight (y :: r)).head? = some y := by
  have : ¬ y.kind = .paragraph := by
    intro e
    rw [(isPara_iff y).mpr e] at hy
    cases hy
  simp [markTight, this]

theorem markTight_noAdj : ∀ (cs : List BNode), NoAdj BNode.isPara cs → (∀ c ∈ cs, c.isInl = false) →
    (∀ c ∈ cs, c.kind = .paragraph → OneInl c.children) → NoAdj BNode.isInl (markTight cs)
  | [], _, _, _ => trivial
  | n :: r, hna, hni, hone => by
    have ih := markTight_noAdj r hna.2 (fun c hc => hni c (List.mem_cons_of_mem _ hc))
      (fun c hc => hone c (List.mem_cons_of_mem _ hc))
    simp only [markTight]
    split
    · next hp =>
      obtain ⟨t, m, hcs⟩ := hone n (by simp) hp
      rw [hcs]
      refine ⟨?_, ih⟩
      intro y hy hc
      cases r with
      | nil => simp [markTight] at hy
      | cons y' r' =>
        have hy'p : y'.isPara = false := by
          cases hq : y'.isPara with
          | false => rfl
          | true => exact absurd ⟨(isPara_iff n).mpr hp, hq⟩ (hna.1 y' rfl)
        change (markTight (y' :: r')).head? = some y at hy
        rw [markTight_head hy'p] at hy
        cases hy
        rw [hni y (by simp)] at hc
        exact absurd hc.2 (by simp)
    · refine ⟨fun y _ hc => ?_, ih⟩
      rw [hni n (by simp)] at hc
      exact absurd hc.1 (by simp)

theorem markTight_nai : ∀ (cs : List BNode), AllNAI cs → AllNAI (markTight cs)
  | [], _ => by simp [markTight]; exact AllNAI.nil
  | n :: r, h => by
    have ih := markTight_nai r (fun c hc => h c (List.mem_cons_of_mem _ hc))
    simp only [markTight]
    split
    · intro c hc
      rcases List.mem_append.mp hc with h1 | h1
      · exact (h n (by simp)).child c h1
      · exact ih c h1
    · intro c hc
      rcases List.mem_cons.mp hc with rfl | h1
      · exact h c (by simp)
      · exact ih c h1

/-- the items of a list under construction (`tight`: the list is still tight) -/
def ItemsOK (tight : Bool) (cs : List BNode) : Prop :=
  ∀ c ∈ cs, c.kind = .listItem ∧ AllGoodB true c.children ∧ AllNAI c.children ∧
    (tight = true → NoAdj BNode.isPara c.children)

theorem ItemsOK.mono {t t' : Bool} {cs : List BNode} (h : ItemsOK t cs) (ht : t' = true → t = true) :
    ItemsOK t' cs :=
  fun c hc => ⟨(h c hc).1, (h c hc).2.1, (h c hc).2.2.1, fun e => (h c hc).2.2.2 (ht e)⟩

theorem item_nai_loose {c : BNode} (hg : AllGoodB true c.children) (hn : AllNAI c.children) : NAI c :=
  .mk _ (noAdjInl_of_good hg) hn

theorem item_nai_tight {c : BNode} (hg : AllGoodB true c.children) (hn : AllNAI c.children)
    (hp : NoAdj BNode.isPara c.children) : NAI { c with children := markTight c.children } := by
  refine .mk _ ?_ (markTight_nai _ hn)
  refine markTight_noAdj _ hp (fun x hx => goodB_not_inl (hg x hx)) ?_
  intro x hx hk
  have := (hg x hx).wf.at
  rw [hk] at this
  exact this.2

theorem tightenItems_nai : ∀ (cs cs' : List BNode), tightenItems cs = .ok cs' → ItemsOK true cs →
    ∀ c ∈ cs', NAI c ∧ c.kind = .listItem
  | [], cs', h, _ => by simp [tightenItems] at h; subst h; exact fun _ hc => by simp at hc
  | c :: r, cs', h, hi => by
    simp only [tightenItems] at h
    split at h
    · cases h
    · split at h
      · cases h
      · rename_i hk r' hr
        cases h
        have ih := tightenItems_nai r r' hr (fun x hx => hi x (List.mem_cons_of_mem _ hx))
        obtain ⟨hck, hg, hn, hp⟩ := hi c (by simp)
        intro x hx
        simp at hx
        rcases hx with rfl | hx
        · exact ⟨item_nai_tight hg hn (hp rfl), hck⟩
        · exact ih x hx

theorem listItemBody_nai {tok : Tok} (hn : TokNAI tok) {S2 S3 : BState} {m : Nat} {re : Bool}
    (h : listItemBody tok S2 m re = .ok S3) : KeepsNAI S2 S3 := by
  unfold listItemBody at h
  crack h
  · exact fun hg => hg
  · have htok := ‹tok _ = _›
    subst_vars
    have key := hn _ _ htok
    exact fun hg => key hg

theorem listItemBody_tight {tok : Tok} (htt : TokTight tok) {S2 S3 : BState} {m : Nat} {re : Bool}
    (h : listItemBody tok S2 m re = .ok S3) (hnil : S2.children = []) :
    S3.tight = true → NoAdj BNode.isPara S3.children := by
  unfold listItemBody at h
  crack h
  · intro _; simp only [hnil]; trivial
  · have htok := ‹tok _ = _›
    subst_vars
    have key := htt _ _ htok hnil
    exact fun e => key e

theorem listItem_nai {tok : Tok} (hk : TokSpec tok) (hw : TokWF true tok) (hn : TokNAI tok)
    (htt : TokTight tok) {S S' : BState} {m pos : Nat} {pee tight pee' tight' : Bool}
    (h : listItem tok S m pos pee tight = .ok (S', tight', pee')) :
    ItemsOK tight S.children → ItemsOK tight' S'.children := by
  unfold listItem at h
  crack h
  rename_i o ho rw hrw S2 hS2 S3 hbody _ li hli S5 hS5 e _ r _ hS' htight _
  subst hS'
  obtain ⟨hm, hS2eq⟩ := setOff_ok hS2
  obtain ⟨hm5, rfl⟩ := setOff_ok hS5
  have hnil : S2.children = [] := by rw [hS2eq]
  have hg3 := listItemBody_wf hw hbody (by rw [hnil]; exact AllGoodB.nil)
  have hn3 := listItemBody_nai hn hbody (by rw [hnil]; exact AllNAI.nil)
  have ht3 := listItemBody_tight htt hbody hnil
  have hkind : S3.nodeKind = .listItem := by
    unfold listItemBody at hbody
    crack hbody
    · rw [hS2eq]
    · have := (hk.frame _ _ ‹tok _ = _›).nodeKind
      simp only at this ⊢
      rw [this, hS2eq]
  have hmono : tight' = true → tight = true ∧ S3.tight = true := by
    intro e
    rw [e] at htight
    split at htight
    · cases htight
    · next hc =>
      simp only [not_or, Bool.not_eq_true] at hc
      exact ⟨htight, by simpa using hc.1⟩
  intro hi c hc
  simp only at hc
  rcases List.mem_append.mp hc with h1 | h1
  · exact (hi.mono (fun e => (hmono e).1)) c h1
  · simp at h1
    subst h1
    exact ⟨hkind, hg3, hn3, fun e => ht3 (hmono e).2⟩

theorem listLoop_nai {tok : Tok} {test : Test} (hk : TokSpec tok) (hw : TokWF true tok) (hn : TokNAI tok)
    (htt : TokTight tok) (ht : TestPure test) {ordered : Bool} {mc : Char} :
    ∀ (fuel : Nat) (S : BState) (m pos : Nat) (pee tight : Bool) (n : Nat) (tight' : Bool) (S' : BState),
      listLoop tok test ordered mc fuel S m pos pee tight = .ok (n, tight', S') →
      ItemsOK tight S.children → ItemsOK tight' S'.children := by
  intro fuel
  induction fuel with
  | zero => intro S m pos pee tight n tight' S' h; simp [listLoop] at h
  | succ f ih =>
    intro S m pos pee tight n tight' S' h hi
    simp only [listLoop] at h
    crack h
    all_goals (try subst_vars)
    · exact hi
    · rename_i wi hitem wc hc _ hnone
      obtain ⟨S1, t1, p1⟩ := wi
      obtain ⟨c, S2⟩ := wc
      obtain ⟨rfl, _⟩ := listContinue_spec ht hc
      exact listItem_nai hk hw hn htt hitem hi
    · rename_i wi hitem wc hc _ p hsome
      obtain ⟨S1, t1, p1⟩ := wi
      obtain ⟨c, S2⟩ := wc
      obtain ⟨rfl, _⟩ := listContinue_spec ht hc
      exact ih _ _ _ _ _ _ _ _ h (listItem_nai hk hw hn htt hitem hi)


theorem list_rule_nai {tok : Tok} {test : Test} (hk : TokSpec tok) (hw : TokWF true tok) (hn : TokNAI tok)
    (htt : TokTight tok) (ht : TestPure test) {fuel : Nat} {s s' : BState} {b : Bool}
    (h : listRule tok test fuel s false = .ok (b, s')) : KeepsNAI s s' := by
  unfold listRule at h
  crack h
  all_goals (try subst_vars)
  all_goals (try (exact fun hg => hg))
  all_goals (
    have hloop := ‹listLoop _ _ _ _ _ _ _ _ _ _ = _›
    have htight := ‹(if _ then tightenItems _ else _) = Except.ok _›
    rename_i wl _ cs _ _ _ _ _ _ _
    obtain ⟨n, t, S'⟩ := wl
    have hitems := listLoop_nai hk hw hn htt ht _ _ _ _ _ _ _ _ _ hloop (fun _ hc => by simp at hc)
    have hcs : ∀ c ∈ cs, NAI c ∧ c.kind = .listItem := by
      simp only at htight
      split at htight
      · next htrue =>
        subst htrue
        exact tightenItems_nai _ _ htight hitems
      · simp [pure, Except.pure] at htight
        subst htight
        intro c hc
        obtain ⟨h1, h2, h3, _⟩ := hitems c hc
        exact ⟨item_nai_loose h2 h3, h1⟩
    intro hg
    simp only
    refine hg.push (.mk _ ?_ (fun c hc => (hcs c hc).1))
    exact noAdj_of_none _ _ (fun c hc => isInl_of_kind (hcs c hc).2 (by simp)))

theorem runRule_nai {cfg : Cfg} {tok : Tok} {test : Test} (hk : TokSpec tok) (hw : TokWF true tok)
    (hn : TokNAI tok) (htt : TokTight tok) (ht : TestPure test) (fuel : Nat) (r : RuleId) {s s' : BState}
    {b : Bool} (h : runRule cfg tok test fuel r s false = .ok (b, s')) : KeepsNAI s s' := by
  cases r <;> simp only [runRule] at h
  · exact code_nai h
  · exact fence_nai h
  · exact blockquote_nai hk hw hn ht h
  · exact hr_nai h
  · exact list_rule_nai hk hw hn htt ht h
  · exact reference_nai ht h
  · exact heading_nai h
  · exact lheading_nai ht h
  · exact paragraph_nai ht h

theorem runChain_nai {run : RuleId → BState → Bool → Res} (hr : RunSpec run)
    (hsh : ∀ r s b s', run r s false = .ok (b, s') → KeepsNAI s s') :
    ∀ (chain : List RuleId) (s : BState) (b : Bool) (s' : BState),
      runChain run chain s false = .ok (b, s') → KeepsNAI s s' := by
  intro chain
  induction chain with
  | nil => intro s b s' h; simp [runChain] at h; rw [← h.2]; exact fun hg => hg
  | cons r rs ih =>
    intro s b s' h
    simp only [runChain] at h
    split at h
    · cases h
    · rename_i s1 h1
      cases h
      exact hsh _ _ _ _ h1
    · rename_i s1 h1
      have := hr.false_same _ _ _ h1
      subst this
      exact ih _ _ _ h

theorem afterChain_nai {ok : Bool} {s s' : BState} {prev : Nat}
    (h : afterChain ok s prev = .ok s') : KeepsNAI s s' := by
  unfold afterChain at h
  crack h
  · exact fun hg => hg
  · intro hg
    simp only [BState.push]
    exact hg.push (nai_leaf _ _)

theorem tokLoop_nai {cfg : Cfg} {run : RuleId → BState → Bool → Res} (hr : RunSpec run)
    (hsh : ∀ r s b s', run r s false = .ok (b, s') → KeepsNAI s s') :
    ∀ (fuel : Nat) (he : Bool) (s s' : BState), tokLoop cfg run fuel he s = .ok s' → KeepsNAI s s' := by
  intro fuel
  induction fuel with
  | zero => intro he s s' h; simp [tokLoop] at h
  | succ f ih =>
    intro he s s' h
    simp only [tokLoop] at h
    crack h
    all_goals (try subst_vars)
    all_goals (try (exact fun hg => hg))
    all_goals (
      have hchain := ‹runChain _ _ _ _ = _›
      have hafter := ‹afterChain _ _ _ = _›
      have h1 := runChain_nai hr hsh _ _ _ _ hchain
      have h2 := afterChain_nai hafter
      have h3 := ih _ _ _ h
      exact fun hg => h3 (h2 (h1 hg)))

/-- the tokenizer pushes only nodes without adjacent placeholders (paragraph rule last) -/
theorem tokenize_nai (cfg : Cfg) (hlast : ParaLast cfg.chain) : ∀ fuel : Nat, TokNAI (tokenize cfg fuel) := by
  have hpara : cfg.hasPara = true := by
    obtain ⟨pre, hch, _⟩ := hlast
    simp [Cfg.hasPara, hch]
  intro fuel
  induction fuel with
  | zero => intro s s' h; simp [tokenize, engine] at h
  | succ f ih =>
    intro s s' h
    simp only [tokenize, engine] at h
    have hk := tokenize_tokSpec cfg f
    have ht := testRules_pure cfg f
    have hw : TokWF true (tokenize cfg f) := by
      have := tokenize_wf cfg f
      rw [hpara] at this
      exact this
    exact tokLoop_nai (runRule_spec hk ht _)
      (fun r s b s' h => runRule_nai hk hw ih (tokenize_tight cfg hlast f) ht _ r h) _ _ _ _ h

/-- **no two adjacent `InlineRoot` placeholders anywhere in the block tree**, when the paragraph rule
    is the last rule of the chain -/
theorem parseBlocks_noAdjInl {cfg : Cfg} {src : List Char} {root : BNode} {refs : Refs.RefMap}
    (h : parseBlocks cfg src = .ok (root, refs)) (hlast : ParaLast cfg.chain) : NAI root := by
  have hpara : cfg.hasPara = true := by
    obtain ⟨pre, hch, _⟩ := hlast
    simp [Cfg.hasPara, hch]
  unfold parseBlocks at h
  split at h
  · cases h
  · rename_i s hs
    simp only [Except.ok.injEq, Prod.mk.injEq] at h
    obtain ⟨rfl, _⟩ := h
    have hg := tokenize_wf cfg _ _ _ hs AllGoodB.nil
    rw [hpara] at hg
    exact .mk _ (noAdjInl_of_good hg) (tokenize_nai cfg hlast _ _ _ hs AllNAI.nil)

end MdIt.Block
