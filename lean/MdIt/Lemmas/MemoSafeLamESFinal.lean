/-
  Helper development for `Props/MemoSafe.lean`, fifth part (the escape landing, K3): the assembly.

    * `entryP_NF`          — a nested frame entered from the top frame satisfies `ES.NF`;
    * `nestHyps_all`       — the hypotheses of the nested induction for `B := BE cfg`, NO hypothesis on the
                             text;
    * `parseInlineG_eq_zero` — `max_nesting = 0` (which `ES.top_total` leaves out: `StepEP` speaks of steps
                             below the limit): no rule runs, `Inline.over_limit`;
    * `epc_init`           — the start position of the top frame (behind the leading blanks) is not escaped;
    * `parseInlineG_eq_all` — the guard of the guarded parser never trips (guarded run = model run);
    * `parseInline_total`  — **`md.inline.parse` is total for EVERY `ChainCoherent` chain on EVERY content**.
-/
import MdIt.Lemmas.MemoSafeLamESTop
import MdIt.Lemmas.MemoSafeLamESNest
import MdIt.Lemmas.MemoSafeLamESEnd
import MdIt.Lemmas.MemoSafeLamCSFinal

namespace MdIt.Inline.ES
open MdIt.Inline
open MdIt.Inline.CS (Interior MK InsideSub BC MarksHyp AgreeHyp not_interior_after_bracket)
open MdIt.InlineOps (Srcmap getSourcePosFor getMap byteLen slice)

variable {cfg : Cfg} {B : List Char → CodePair.Cache → Prop} {src : List Char} {Mtop : Nat}

/-- **a nested frame entered from the top frame satisfies `ES.NF`** -/
theorem entryP_NF (f : Nat) :
    EntryP cfg B src Mtop (fun s => skipTokenG cfg true f s) (NF cfg B src Mtop) := by
  intro lo st offset en fuel res st1 hg hm htop hb hle hch hpl htop1
  have hq := skipTokenG_calm cfg true f
  have hs := skipTokenG_T cfg f
  have hgr := skip_grow cfg f
  have hi := hg.linv hm
  obtain ⟨hi1, hc1, _, hres⟩ := (parseLink_T (cfg := cfg) hq hs fuel st (st.pos + offset) en hi hb hle).2
    _ _ hpl
  have hR := hres res rfl
  obtain ⟨rx, hrx⟩ := hR.bracket
  obtain ⟨hls, hrec⟩ := parseLink_records (cfg := cfg) hq hs hgr fuel st (st.pos + offset) en hi hb hle
    res st1 hpl
  have hsrc : st.src = src := htop.hsrc
  have hmax : st.posMax = Mtop := htop.hmax
  have h1 : (nestedState st1 res).src = st.src := hc1.src
  have h2 : (nestedState st1 res).pos = st.pos + offset + 1 := hls
  refine ⟨⟨?_, ?_, ?_, htop1.just⟩, htop1.hsrc, htop1.back, ?_, ?_, ?_, htop1.nocut,
    fun hbt => htop1.hmk hbt, ?_, ?_⟩
  · rw [← hsrc, ← hmax]; exact hg.bmax
  · rw [← hsrc, ← hmax]; exact hg.stop
  · intro k v hkv
    have := hi1.memo k v hkv
    rw [htop1.hsrc] at this
    exact this
  · obtain ⟨lo', hg', _⟩ := nested_good (cfg := cfg) hq hs hg hm hb hle hpl
    exact ⟨lo', hg'⟩
  · rw [← hsrc, ← hmax]; exact ⟨rx, hrx⟩
  · have := hrec st1.cache (LookupMono.refl _)
    rw [hsrc, hmax] at this
    refine ⟨en, fuel, 1, Int.le_refl _, ?_⟩
    show pwalk src Mtop st1.cache en fuel 1 res.labelStart = .done (some true) res.labelEnd
    rw [hls]
    exact this
  · intro _ hint
    obtain ⟨r, hr⟩ := hch
    have : Interior st.src (st.pos + offset + 1) := by
      rw [h1, h2] at hint
      exact hint
    exact absurd this (not_interior_after_bracket hr)
  · intro _ _
    obtain ⟨r, hr⟩ := hch
    rw [h2, ← hsrc]
    exact esc_after_bracket hr

/-- the hypotheses of the nested induction for `B := BE cfg` — no hypothesis on the text -/
theorem nestHyps_all (cfg : Cfg) (src : List Char) (Mtop : Nat) (hc : ChainCoherent cfg = true)
    (hone : cfg.chain.count .link ≤ 1 ∧ cfg.chain.count .image ≤ 1)
    (hnc : CodePair.NoCut '`' src Mtop) : NestHyps cfg (BE cfg) src Mtop :=
  { coh := hc
    hB := backOK_BE cfg
    flat := flatL2_holds cfg
    back := fun _ => backL2_BE cfg hnc
    keep := realKeeps_holds cfg
    emph := emphL2_holds cfg
    plLink := fun _ => parseLinkL2Part_link cfg _ src Mtop
    plImage := fun _ => parseLinkL2Part_image cfg _ src Mtop
    one := hone
    hend := endHyp_holds cfg (BE cfg) hnc
    hendep := endEP_holds cfg (BE cfg)
    agree := agreeHyp_BE cfg src
    land := landHyp_holds cfg src }

/-! ## `max_nesting = 0`: no rule runs (`Inline.over_limit`) -/

/-- `max_nesting = 0`: the guarded parser is the model parser -/
theorem parseInlineG_eq_zero (cfg : Cfg) (h0 : ¬ 0 < cfg.maxNesting) (content : List Char)
    (mapping : Srcmap) : parseInlineG cfg content mapping = parseInline cfg content mapping := by
  have := (over_limit cfg true (topFuel cfg content) (IState.init content mapping).posMax
    (IState.init content mapping) h0).1
  unfold parseInlineG parseInline tokenize
  rw [this]
  generalize tokLoop cfg _ _ _ = r
  cases r <;> rfl

/-! ## the main theorem -/

/-- behind a prefix of blanks the position is not escaped -/
theorem esc_prefix_blanks (bl t : List Char) (h : ∀ c ∈ bl, isSpTab c = true) :
    esc (bl ++ t) bl.length = false := by
  rcases List.eq_nil_or_concat bl with rfl | ⟨ini, c, rfl⟩
  · rfl
  · simp only [List.concat_eq_append] at h ⊢
    rw [List.length_append, List.length_singleton]
    apply esc_succ_of_ne
    have hb : byteLen ini = ini.length :=
      CS.byteLen_blanks ini (fun x hx => h x (List.mem_append_left _ hx))
    have := CodePair.charAt_append_add ini ([c] ++ t) 0
    rw [CodePair.charAt_zero, codeByteLen_eq, hb, Nat.add_zero] at this
    rw [List.append_assoc, this]
    have hc := h c (by simp)
    intro e
    simp only [List.singleton_append, List.head?_cons, Option.some.injEq] at e
    rw [e] at hc
    simp [isSpTab] at hc

/-- the start position of the top frame (`trim_src`: behind the leading blanks) is not escaped -/
theorem epc_init (cfg : Cfg) (content : List Char) (mapping : Srcmap) :
    EPc cfg content (IState.init content mapping).pos := by
  intro _
  show esc content (trimSrc content).1 = false
  unfold trimSrc
  simp only
  generalize hr : content.reverse.dropWhile isSpTab = r
  have hsplit : content = (r.drop 1).reverse ++ ((r.take 1).reverse ++
      (content.reverse.takeWhile isSpTab).reverse) := by
    have := List.takeWhile_append_dropWhile (p := isSpTab) (l := content.reverse)
    have h' := congrArg List.reverse this
    simp only [List.reverse_append, List.reverse_reverse] at h'
    rw [← List.append_assoc, ← List.reverse_append, List.take_append_drop, ← hr]
    exact h'.symm
  generalize (r.drop 1).reverse = rest at hsplit
  have h2 := (List.takeWhile_append_dropWhile (p := isSpTab) (l := rest)).symm
  have e : content = rest.takeWhile isSpTab ++ (rest.dropWhile isSpTab ++ ((r.take 1).reverse ++
      (content.reverse.takeWhile isSpTab).reverse)) := by
    rw [← List.append_assoc, ← h2]; exact hsplit
  generalize (rest.dropWhile isSpTab ++ ((r.take 1).reverse ++
      (content.reverse.takeWhile isSpTab).reverse)) = tl at e
  have := esc_prefix_blanks (rest.takeWhile isSpTab) tl (fun c hc => CS.mem_takeWhile_true _ _ hc)
  rw [← e] at this
  exact this

/-- **the guarded inline parser IS the model inline parser** — the guard (a `skip_token` memo hit beyond
    the current `pos_max`) never trips — for every `ChainCoherent` chain on every content -/
theorem parseInlineG_eq_all (cfg : Cfg) (hc : ChainCoherent cfg = true)
    (hone : cfg.chain.count .link ≤ 1 ∧ cfg.chain.count .image ≤ 1) {content : List Char}
    {mapping : Srcmap} (hm : MapOK content mapping) :
    parseInlineG cfg content mapping = parseInline cfg content mapping := by
  by_cases hlev0 : 0 < cfg.maxNesting
  · have hnc := CS.nocut_init content mapping
    have H := nestHyps_all cfg content (IState.init content mapping).posMax hc hone hnc
    exact parseInlineG_eq (B := BE cfg) (backOK_BE cfg) (coherent_hsz hc) hm
      (BE.empty cfg content) hnc (endHyp_holds cfg (BE cfg) hnc) (endEP_holds cfg (BE cfg))
      (stepEP_holds cfg hc) (epc_init cfg content mapping) hlev0 (marksHyp_BE cfg)
      (fun f s hs => nested_tokEq H f s hs) (fun f => entryP_NF f)
  · exact parseInlineG_eq_zero cfg hlev0 content mapping

/-- **`md.inline.parse` is total for EVERY `ChainCoherent` chain — the stock CommonMark chain with
    strikethrough included — on EVERY content** (code spans with any backtick runs, escaped backticks
    anywhere), every `max_nesting`, every reference map, every `MapOK` table. -/
theorem parseInline_total (cfg : Cfg) (hc : ChainCoherent cfg = true)
    (hone : cfg.chain.count .link ≤ 1 ∧ cfg.chain.count .image ≤ 1) {content : List Char}
    {mapping : Srcmap} (hm : MapOK content mapping) :
    ∃ cs, parseInline cfg content mapping = .ok cs := by
  have heq := parseInlineG_eq_all cfg hc hone hm
  have hnr := Inline.parseInlineG_noRust cfg (coherent_hsz hc) hm
  cases h : parseInline cfg content mapping with
  | ok cs => exact ⟨cs, rfl⟩
  | error e =>
    cases e with
    | fuel => exact absurd h (parseInline_fuel cfg content mapping)
    | rust p => exact absurd (heq.trans h) (hnr p)

end MdIt.Inline.ES
