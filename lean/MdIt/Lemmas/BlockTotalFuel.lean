/-
  Fuel sufficiency of the block model (`MdIt.Model.Block`): `parseBlocks` never answers
  `.error .fuel`.

  The model's `engine cfg fuel` spends one unit of fuel per nesting level (the nested tokenizer of the
  block-quote rule and of a list item runs at `fuel - 1`) and gives every loop (`tokLoop`, `lazyScan`,
  `bqScan`, `listLoop`) `fuel` iterations.  The measure that is never exceeded:

      need cfg s = (lineMax - line) + min (maxNesting - level) (Phi offs) + 2

  * every loop advances by at least a line per iteration (`Props/Block.lean`: `lazyScan_spec`,
    `bqScan_spec`, `listItem_spec`, `tok_iter`), so `lineMax - line + 1` iterations suffice;
  * a container raises `level` before it calls the nested tokenizer, and the tokenizer runs no rule
    once `level ≥ maxNesting`;
  * a container consumes at least one byte of its first line (the `>` / the list marker): the
    potential `Phi offs = Σ (line_end - first_nonspace)` strictly decreases (`bqScan_phi_first`,
    `itemRewrite_phi`), and `Phi (splitLines src) ≤ |src|` (`phi_split_le`).

  No table invariant is needed: a state on which anything else goes wrong yields another panic class,
  not `.fuel`.
-/
import MdIt.Props.Block
import MdIt.Lemmas.BlockTotalAttr

namespace MdIt.Block
open MdIt.Lines (LineOffset)

/-! ## 1. taking a failing `do` block apart -/

theorem bind_err {α β : Type} {x : Except Panic α} {f : α → Except Panic β} {e : Panic} :
    (x >>= f) = .error e ↔ x = .error e ∨ ∃ a, x = .ok a ∧ f a = .error e := by
  cases x with
  | error e' => simp [bind, Except.bind]
  | ok a => simp [bind, Except.bind]

theorem pure_err {α : Type} {a : α} {e : Panic} : (pure a : Except Panic α) = .error e ↔ False := by
  simp [pure, Except.pure]

theorem map_err {α β : Type} {x : Except Panic α} {f : α → β} {e : Panic} :
    (f <$> x) = .error e ↔ x = .error e := by
  cases x with
  | error e' => simp [Functor.map, Except.map]
  | ok a => simp [Functor.map, Except.map]

/-- take a hypothesis `h : <do-block> = .error e` apart: one goal per statement that can fail, with
    `h` the failing statement and one anonymous hypothesis per successful `←` before it -/
syntax "crackE " ident : tactic
macro_rules
| `(tactic| crackE $h:ident) => `(tactic|
  repeat' (first
    | contradiction
    | (simp only [bind_err, bind_ok, map_ok, map_err, pure_ok, pure_err, reduceCtorEq, Prod.mk.injEq,
        Bool.false_eq_true, Bool.true_eq_false, false_and, and_false, true_and, and_true, if_false, if_true,
        Except.ok.injEq, Except.error.injEq, or_false, false_or, exists_false, exists_const] at $h:ident)
    | (apply Or.elim $h:ident <;> clear $h:ident <;> intro $h:ident)
    | (apply Exists.elim $h:ident; clear $h:ident; intro _ $h:ident)
    | (refine And.elim ?_ $h:ident; clear $h:ident; intro _ $h:ident)
    | split at $h:ident))


/-- close a goal whose hypothesis `h` says that a statement of the set `blockNF` answered `.fuel` -/
syntax "nf_done " ident : tactic
macro_rules
| `(tactic| nf_done $h:ident) => `(tactic| (simp only [blockNF] at $h:ident))

/-! ## 2. statements that never answer `.fuel` -/

@[blockNF] theorem liftL_nf {α : Type} (x : Except Lines.Panic α) : liftL x = .error .fuel ↔ False := by
  cases x with
  | ok a => simp [liftL]
  | error e => cases e <;> simp [liftL]

@[blockNF] theorem liftK_nf {α : Type} (x : Except Link.Panic α) : liftK x = .error .fuel ↔ False := by
  cases x with
  | ok a => simp [liftK]
  | error e => cases e; simp [liftK]

@[blockNF] theorem psub_nf (a b : Nat) : psub a b = .error .fuel ↔ False := by
  unfold psub; split <;> simp

@[blockNF] theorem off_nf (s : BState) (i : Nat) : s.off i = .error .fuel ↔ False := by
  unfold BState.off; split <;> simp

@[blockNF] theorem setOff_nf (s : BState) (i : Nat) (o : LineOffset) : s.setOff i o = .error .fuel ↔ False := by
  unfold BState.setOff; split <;> simp

@[blockNF] theorem lineIndent_nf (s : BState) (i : Nat) : s.lineIndent i = .error .fuel ↔ False := by
  unfold BState.lineIndent; exact liftL_nf _

@[blockNF] theorem getLine_nf (s : BState) (i : Nat) : s.getLine i = .error .fuel ↔ False := by
  unfold BState.getLine; exact liftL_nf _

@[blockNF] theorem getLines_nf (s : BState) (b e i : Nat) (k : Bool) :
    s.getLines b e i k = .error .fuel ↔ False := by
  unfold BState.getLines; exact liftL_nf _

@[blockNF] theorem getMap_nf (s : BState) (a b : Nat) : s.getMap a b = .error .fuel ↔ False := by
  unfold BState.getMap; exact liftL_nf _

@[blockNF] theorem codeScan_nf (s : BState) (n last : Nat) : codeScan s n last = .error .fuel ↔ False := by
  fun_induction codeScan s n last <;> simp_all [blockNF]
  rintro rfl; simp_all [blockNF]

@[blockNF] theorem fenceScan_nf (s : BState) (m : Char) (len n : Nat) :
    fenceScan s m len n = .error .fuel ↔ False := by
  fun_induction fenceScan s m len n <;> simp_all [blockNF]
  all_goals (rintro rfl; simp_all [blockNF])

/-- a `do` block all of whose statements are in `blockNF` -/
syntax "nf_prim " ident : tactic
macro_rules
| `(tactic| nf_prim $f:ident) => `(tactic|
    (refine ⟨fun h => ?_, False.elim⟩
     unfold $f:ident at h
     crackE h <;> nf_done h))

@[blockNF] theorem setextCheck_nf (b : Bool) (s : BState) (i : Int) (n : Nat) :
    setextCheck b s i n = .error .fuel ↔ False := by nf_prim setextCheck

@[blockNF] theorem bqOptSpace_nf (r : List Char) (n : Nat) : bqOptSpace r n = .error .fuel ↔ False := by
  nf_prim bqOptSpace

@[blockNF] theorem bqRewrite_nf (src : List Char) (o : LineOffset) (r : List Char) :
    bqRewrite src o r = .error .fuel ↔ False := by nf_prim bqRewrite

@[blockNF] theorem restoreOffs_nf : ∀ (add offs : List LineOffset) (i : Nat),
    restoreOffs offs i add = .error .fuel ↔ False
  | [], offs, i => by simp [restoreOffs]
  | o :: r, offs, i => by
    simp only [restoreOffs]
    split
    · exact restoreOffs_nf r _ _
    · simp

@[blockNF] theorem parseU32_nf (ds : List Char) : parseU32 ds = .error .fuel ↔ False := by
  nf_prim parseU32

@[blockNF] theorem markerCharOf_nf (c : List Char) (p : Nat) : markerCharOf c p = .error .fuel ↔ False := by
  nf_prim markerCharOf

@[blockNF] theorem prevEmptyEndOf_nf (s : BState) (n : Nat) : prevEmptyEndOf s n = .error .fuel ↔ False := by
  nf_prim prevEmptyEndOf

@[blockNF] theorem itemRewrite_nf (src : List Char) (o : LineOffset) (p : Nat) :
    itemRewrite src o p = .error .fuel ↔ False := by nf_prim itemRewrite

@[blockNF] theorem tightenItems_nf : ∀ (cs : List BNode), tightenItems cs = .error .fuel ↔ False
  | [] => by simp [tightenItems]
  | c :: r => by
    have ih := tightenItems_nf r
    simp only [tightenItems]
    split
    · simp
    · split
      · rename_i e he
        constructor
        · intro h
          simp only [Except.error.injEq] at h
          subst h
          exact ih.mp he
        · exact False.elim
      · simp

@[blockNF] theorem listSpecial_nf (s : BState) : listSpecial s = .error .fuel ↔ False := by
  nf_prim listSpecial

@[blockNF] theorem detectMarker_nf (c : List Char) : detectMarker c = .error .fuel ↔ False := by
  nf_prim detectMarker

@[blockNF] theorem emptyItemCheck_nf (b : Bool) (c : List Char) (p : Nat) :
    emptyItemCheck b c p = .error .fuel ↔ False := by nf_prim emptyItemCheck

@[blockNF] theorem refTitle_nf (cfg : Cfg) (str : List Char) (a b c d e f : Nat) :
    refTitle cfg str a b c d e f = .error .fuel ↔ False := by nf_prim refTitle

@[blockNF] theorem refTrail_nf (str : List Char) (len : Nat) (t : Option (List Char)) (a b c d : Nat) :
    refTrail str len t a b c d = .error .fuel ↔ False := by nf_prim refTrail

@[blockNF] theorem refParse_nf (cfg : Cfg) (str : List Char) : refParse cfg str = .error .fuel ↔ False := by
  nf_prim refParse

@[blockNF] theorem afterChain_nf (ok : Bool) (s : BState) (p : Nat) :
    afterChain ok s p = .error .fuel ↔ False := by nf_prim afterChain

/-! ### the four leaf rules (both modes) and the silent mode of the other five -/

@[blockNF] theorem hrRule_nf (s : BState) (silent : Bool) : hrRule s silent = .error .fuel ↔ False := by
  nf_prim hrRule

@[blockNF] theorem headingRule_nf (s : BState) (silent : Bool) :
    headingRule s silent = .error .fuel ↔ False := by nf_prim headingRule

@[blockNF] theorem codeRule_nf (s : BState) (silent : Bool) : codeRule s silent = .error .fuel ↔ False := by
  nf_prim codeRule

@[blockNF] theorem fenceRule_nf (s : BState) (silent : Bool) : fenceRule s silent = .error .fuel ↔ False := by
  nf_prim fenceRule

theorem blockquote_silent_nf (tok : Tok) (test : Test) (fuel : Nat) (s : BState) :
    blockquoteRule tok test fuel s true = .error .fuel ↔ False := by nf_prim blockquoteRule

theorem list_silent_nf (tok : Tok) (test : Test) (fuel : Nat) (s : BState) :
    listRule tok test fuel s true = .error .fuel ↔ False := by nf_prim listRule

/-- no rule of the chain answers `.fuel` in silent mode (the look-ahead neither loops nor nests) -/
theorem runRule_silent_nf (cfg : Cfg) (tok : Tok) (test : Test) (fuel : Nat) (r : RuleId) (s : BState) :
    runRule cfg tok test fuel r s true ≠ .error .fuel := by
  intro h
  cases r <;> simp only [runRule] at h
  · nf_done h
  · nf_done h
  · exact (blockquote_silent_nf _ _ _ _).mp h
  · nf_done h
  · exact (list_silent_nf _ _ _ _).mp h
  · simp [silent_false_reference] at h
  · nf_done h
  · simp [silent_false_lheading] at h
  · simp [silent_false_paragraph] at h

theorem runChain_silent_nf {run : RuleId → BState → Bool → Res}
    (hrun : ∀ r s, run r s true ≠ .error .fuel) :
    ∀ (chain : List RuleId) (s : BState), runChain run chain s true ≠ .error .fuel := by
  intro chain
  induction chain with
  | nil => intro s h; simp [runChain] at h
  | cons r rs ih =>
    intro s h
    simp only [runChain] at h
    split at h
    · rename_i e he
      simp only [Except.error.injEq] at h
      subst h
      exact hrun _ _ he
    · cases h
    · exact ih _ h

/-- `test_rules_at_line` at a positive budget never runs out of fuel -/
theorem testRules_nf (cfg : Cfg) (fuel : Nat) (s : BState) : testRules cfg (fuel + 1) s ≠ .error .fuel := by
  simp only [testRules, engine]
  exact runChain_silent_nf (fun r s => runRule_silent_nf cfg _ _ _ r s) _ _

/-! ## 3. the potential `Phi`: bytes between `first_nonspace` and `line_end`, summed over the table -/

def Phi : List LineOffset → Nat
  | [] => 0
  | o :: r => (o.lineEnd - o.firstNonspace) + Phi r

/-- what the tokenizer needs to run on `s` without exhausting its fuel -/
def need (cfg : Cfg) (s : BState) : Nat :=
  (s.lineMax - s.line) + min (cfg.maxNesting - s.level) (Phi s.offs) + 2

theorem Phi_set : ∀ (offs : List LineOffset) (m : Nat) (o o' : LineOffset), offs[m]? = some o →
    Phi (offs.set m o') + (o.lineEnd - o.firstNonspace) = Phi offs + (o'.lineEnd - o'.firstNonspace)
  | [], m, o, o', h => by simp at h
  | x :: r, 0, o, o', h => by
    simp at h; subst h
    simp only [List.set_cons_zero, Phi]; omega
  | x :: r, m + 1, o, o', h => by
    have ih := Phi_set r m o o' (by simpa using h)
    simp only [List.set_cons_succ, Phi]; omega

/-- changing `indent_nonspace` only -/
theorem Phi_set_indent {offs : List LineOffset} {m : Nat} {o : LineOffset} (h : offs[m]? = some o) (x : Int) :
    Phi (offs.set m { o with indentNonspace := x }) = Phi offs := by
  have := Phi_set offs m o { o with indentNonspace := x } h
  simp only at this
  omega

theorem liftL_eq_ok {α : Type} {x : Except Lines.Panic α} {a : α} (h : liftL x = .ok a) : x = .ok a := by
  cases x with
  | error e => cases e <;> simp [liftL] at h
  | ok v => simp [liftL] at h; rw [h]

/-- the block-quote rewriting moves `first_nonspace` forward by at least the `>` -/
theorem bqRewrite_phi {src : List Char} {o o' : LineOffset} {rest : List Char} {le : Bool}
    (h : bqRewrite src o rest = .ok (o', le)) :
    o'.lineEnd = o.lineEnd ∧ o.firstNonspace + 1 ≤ o'.firstNonspace := by
  unfold bqRewrite at h
  crack h
  have hrel := ‹psub (o.firstNonspace + 1) o.lineStart = _›
  have hfi := ‹liftL (Lines.findIndentOf _ _) = _›
  have ho' : _ = o' := ‹_›
  subst ho'
  obtain ⟨hle, rfl⟩ := psub_ok hrel
  obtain ⟨h1, _⟩ := Lines.find_indent_bounds _ _ _ _ (liftL_eq_ok hfi)
  refine ⟨rfl, ?_⟩
  simp only
  omega

/-- the list-item rewriting moves `first_nonspace` forward by at least the marker, which lies inside
    the line -/
theorem itemRewrite_phi {src : List Char} {o o' : LineOffset} {pos indent : Nat} {re : Bool}
    (h : itemRewrite src o pos = .ok (o', indent, re)) (hpos : 1 ≤ pos) :
    o'.lineEnd = o.lineEnd ∧ o.firstNonspace + 1 ≤ o'.firstNonspace ∧ o.firstNonspace < o.lineEnd := by
  unfold itemRewrite at h
  crack h
  rename_i hneg ltxt hltxt rel hrel fi hfi lineLen hlen ho' hind
  subst ho'
  obtain ⟨hle, rfl⟩ := psub_ok hrel
  obtain ⟨hle2, rfl⟩ := psub_ok hlen
  obtain ⟨h1, h2, _⟩ := Lines.find_indent_bounds _ _ fi.1 fi.2 (liftL_eq_ok hfi)
  obtain ⟨p, q, _, hp, hb⟩ := Lines.slice_eq_ok_iff.mp (liftL_eq_ok hltxt)
  refine ⟨rfl, ?_, ?_⟩ <;> (try simp only) <;> omega

theorem Phi_set_lt {offs : List LineOffset} {m : Nat} {o o' : LineOffset} (h : offs[m]? = some o)
    (h1 : o'.lineEnd = o.lineEnd) (h2 : o.firstNonspace + 1 ≤ o'.firstNonspace)
    (h3 : o.firstNonspace < o.lineEnd) : Phi (offs.set m o') + 1 ≤ Phi offs := by
  have := Phi_set offs m o o' h
  omega

theorem Phi_set_le {offs : List LineOffset} {m : Nat} {o o' : LineOffset} (h : offs[m]? = some o)
    (h1 : o'.lineEnd = o.lineEnd) (h2 : o.firstNonspace + 1 ≤ o'.firstNonspace) :
    Phi (offs.set m o') ≤ Phi offs := by
  have := Phi_set offs m o o' h
  omega

/-- the scan of the block-quote rule never raises the potential -/
theorem bqScan_phi {test : Test} (ht : TestPure test) :
    ∀ (fuel : Nat) (S : BState) (m : Nat) (old : List LineOffset) (le : Bool)
      (n : Nat) (old' : List LineOffset) (S' : BState),
      bqScan test fuel S m old le = .ok (n, old', S') → Phi S'.offs ≤ Phi S.offs := by
  intro fuel
  induction fuel with
  | zero => intro S m old le n old' S' h; simp [bqScan] at h
  | succ f ih =>
    intro S m old le n old' S' h
    simp only [bqScan] at h
    crack h
    all_goals (try subst_vars)
    · exact Nat.le_refl _
    · exact Nat.le_refl _
    · obtain ⟨_, rfl⟩ := setOff_ok ‹BState.setOff _ _ _ = _›
      obtain ⟨h1, h2⟩ := bqRewrite_phi ‹bqRewrite _ _ _ = _›
      have := ih _ _ _ _ _ _ _ h
      have := Phi_set_le (off_ok ‹BState.off _ _ = _›) h1 h2
      simp only at *
      omega
    · exact Nat.le_refl _
    · have e := ht _ _ ‹test _ = _›
      simp only [e] at *
      obtain ⟨_, rfl⟩ := setOff_ok ‹BState.setOff _ _ _ = _›
      have := Phi_set_indent (off_ok ‹BState.off _ _ = _›) (‹LineOffset›.indentNonspace - (S.blkIndent : Int))
      simp only at *
      omega
    · have e := ht _ _ ‹test _ = _›
      rw [e]
      exact Nat.le_refl _
    · have e := ht _ _ ‹test _ = _›
      simp only [e] at *
      obtain ⟨_, rfl⟩ := setOff_ok ‹BState.setOff _ _ _ = _›
      have := ih _ _ _ _ _ _ _ h
      have := Phi_set_indent (off_ok ‹BState.off _ _ = _›) (-1)
      simp only at *
      omega

theorem getLine_nonempty {s : BState} {m : Nat} {c : Char} {rest : List Char} {o : LineOffset}
    (hline : s.getLine m = .ok (c :: rest)) (ho : s.offs[m]? = some o) : o.firstNonspace < o.lineEnd := by
  have := liftL_eq_ok hline
  simp only [Lines.getLine, ho] at this
  obtain ⟨p, q, _, hp, hb⟩ := Lines.slice_eq_ok_iff.mp this
  have := Lines.utf8Size_pos' c
  simp at hb
  omega

/-- the first line of a quote loses its `>`: the potential strictly decreases -/
theorem bqScan_phi_first {test : Test} (ht : TestPure test) {fuel : Nat} {S : BState} {m : Nat}
    {old : List LineOffset} {le : Bool} {n : Nat} {old' : List LineOffset} {S' : BState}
    (h : bqScan test fuel S m old le = .ok (n, old', S')) (hlt : m < S.lineMax)
    {i : Int} (hi : S.lineIndent m = .ok i) (hi0 : 0 ≤ i) {line : List Char}
    (hline : S.getLine m = .ok line) (hhead : line.head? = some '>') :
    Phi S'.offs + 1 ≤ Phi S.offs := by
  cases fuel with
  | zero => simp [bqScan] at h
  | succ f =>
    cases line with
    | nil => simp at hhead
    | cons c rest =>
      simp at hhead
      subst hhead
      have hno : ¬ (i < 0) := by omega
      simp only [bqScan, hi, hline, ok_bind, hlt, not_true_eq_false, ↓reduceIte, hno, decide_false,
        Bool.false_eq_true, not_false_eq_true, and_self] at h
      crack h
      have ho := off_ok ‹BState.off _ _ = _›
      obtain ⟨hm, rfl⟩ := setOff_ok ‹BState.setOff _ _ _ = _›
      obtain ⟨h1, h2⟩ := bqRewrite_phi ‹bqRewrite _ _ _ = _›
      have := bqScan_phi ht _ _ _ _ _ _ _ _ h
      have := Phi_set_lt ho h1 h2 (getLine_nonempty hline ho)
      simp only at *
      omega

/-- the potential of the table of `BlockState::new` is at most the length of the source -/
theorem phi_le_of_sorted : ∀ (offs : List LineOffset) (B lo : Nat), lo ≤ B →
    (∀ o ∈ offs, o.lineStart ≤ o.firstNonspace ∧ o.firstNonspace ≤ o.lineEnd ∧ o.lineEnd ≤ B) →
    offs.Pairwise (fun a b => a.lineEnd < b.lineStart) → (∀ o ∈ offs, lo ≤ o.lineStart) →
    Phi offs + lo ≤ B
  | [], B, lo, hlo, _, _, _ => by simpa [Phi] using hlo
  | o :: r, B, lo, hlo, hord, hpw, hge => by
    obtain ⟨h1, h2, h3⟩ := hord o (by simp)
    have h4 := hge o (by simp)
    rw [List.pairwise_cons] at hpw
    have ih := phi_le_of_sorted r B o.lineEnd h3 (fun x hx => hord x (List.mem_cons_of_mem _ hx)) hpw.2
      (fun x hx => Nat.le_of_lt (hpw.1 x hx))
    simp only [Phi]
    omega

theorem phi_split_le (src : List Char) : Phi (Lines.splitLines src) ≤ Lines.byteLen src := by
  have hv := Lines.split_offsets_valid src
  have := phi_le_of_sorted (Lines.splitLines src) (Lines.byteLen src) 0 (Nat.zero_le _) hv.ordered
    (by
      rw [List.pairwise_iff_getElem]
      intro i j hi hj hij
      exact Lines.offsets_increasing hv i j _ _ hij (List.getElem?_eq_getElem hi) (List.getElem?_eq_getElem hj))
    (fun _ _ => Nat.zero_le _)
  omega

/-! ## 4. the loops -/

/-- the look-ahead never runs out of fuel -/
def TestNF (test : Test) : Prop := ∀ s, test s ≠ .error .fuel

/-- the nested tokenizer does not run out of fuel on a state that needs at most `N` -/
def TokNF (cfg : Cfg) (tok : Tok) (N : Nat) : Prop := ∀ s, need cfg s ≤ N → tok s ≠ .error .fuel

theorem lazyScan_nf {test : Test} (ht : TestPure test) (htf : TestNF test) (setext : Bool) :
    ∀ (fuel : Nat) (s : BState) (n : Nat), n < s.lineMax → s.lineMax ≤ n + fuel →
      lazyScan test setext fuel s n ≠ .error .fuel := by
  intro fuel
  induction fuel with
  | zero => intro s n h1 h2; omega
  | succ f ih =>
    intro s n h1 h2 h
    simp only [lazyScan] at h
    crackE h
    all_goals (try (nf_done h; done))
    all_goals (have hc : ¬(_ ∨ _) := ‹_›; simp only [not_or, Nat.not_le] at hc)
    · exact ih _ _ hc.1 (by omega) h
    · exact ih _ _ hc.1 (by omega) h
    · exact htf _ h
    · have e := ht _ _ ‹test _ = _›
      simp only [e] at h
      exact ih _ _ hc.1 (by omega) h

theorem bqScan_nf {test : Test} (ht : TestPure test) (htf : TestNF test) :
    ∀ (fuel : Nat) (S : BState) (m : Nat) (old : List LineOffset) (le : Bool),
      m ≤ S.lineMax → S.lineMax < m + fuel → bqScan test fuel S m old le ≠ .error .fuel := by
  intro fuel
  induction fuel with
  | zero => intro S m old le h1 h2; omega
  | succ f ih =>
    intro S m old le h1 h2 h
    simp only [bqScan] at h
    crackE h
    all_goals (try (nf_done h; done))
    · obtain ⟨_, rfl⟩ := setOff_ok ‹BState.setOff _ _ _ = _›
      exact ih _ _ _ _ (by simp only; omega) (by simp only; omega) h
    · exact htf _ h
    · have e := ht _ _ ‹test _ = _›
      simp only [e] at *
      obtain ⟨_, rfl⟩ := setOff_ok ‹BState.setOff _ _ _ = _›
      exact ih _ _ _ _ (by simp only; omega) (by simp only; omega) h

/-- the budget of the tokenizer nested in a container of `S` that starts at line `m` fits into `N` -/
def Fits (cfg : Cfg) (N : Nat) (S : BState) (m : Nat) : Prop :=
  ∀ phi, phi + 1 ≤ Phi S.offs → (S.lineMax - m) + min (cfg.maxNesting - (S.level + 1)) phi + 2 ≤ N

theorem Fits.mono {cfg : Cfg} {N : Nat} {S S' : BState} {m m' : Nat} (h : Fits cfg N S m)
    (hf : Frame S S') (hm : m ≤ m') : Fits cfg N S' m' := by
  intro phi hphi
  have := h phi (by rw [← hf.offs]; exact hphi)
  rw [hf.lineMax, hf.level]
  omega

theorem listItem_nf {cfg : Cfg} {tok : Tok} {N : Nat} (hkf : TokNF cfg tok N) {S : BState} {m pos : Nat}
    {pee tight : Bool} (hpos : 1 ≤ pos) (hB : Fits cfg N S m) :
    listItem tok S m pos pee tight ≠ .error .fuel := by
  intro h
  unfold listItem at h
  crackE h
  all_goals (try (nf_done h; done))
  have ho := off_ok ‹BState.off _ _ = _›
  have hrw := ‹itemRewrite _ _ _ = _›
  obtain ⟨hm, rfl⟩ := setOff_ok ‹BState.setOff _ _ _ = _›
  obtain ⟨h1, h2, h3⟩ := itemRewrite_phi hrw hpos
  unfold listItemBody at h
  crackE h
  all_goals (try (nf_done h; done))
  refine hkf _ ?_ h
  have := hB _ (Phi_set_lt ho h1 h2 h3)
  simp only [need]
  omega

theorem listContinue_nf {test : Test} (htf : TestNF test) {ordered : Bool} {mc : Char} {S : BState} {n : Nat} :
    listContinue test ordered mc S n ≠ .error .fuel := by
  intro h
  unfold listContinue at h
  crackE h
  all_goals (try (nf_done h; done))
  exact htf _ h

theorem skipBullet_pos {l : List Char} {p : Nat} (h : skipBullet l = some p) : 1 ≤ p := by
  unfold skipBullet at h
  repeat' split at h
  all_goals simp_all

theorem ordLoop_pos : ∀ (l : List Char) (pos p : Nat) (r : List Char), ordLoop l pos = some (p, r) → pos + 1 ≤ p
  | [], _, _, _, h => by simp [ordLoop] at h
  | c :: l, pos, p, r, h => by
    simp only [ordLoop] at h
    repeat' split at h
    all_goals (try (simp at h; done))
    · have := ordLoop_pos l _ _ _ h; omega
    · simp at h; omega

theorem skipOrdered_pos {l : List Char} {p : Nat} (h : skipOrdered l = some p) : 2 ≤ p := by
  unfold skipOrdered at h
  repeat' split at h
  all_goals (try (simp at h; done))
  all_goals (have := ordLoop_pos _ _ _ _ ‹ordLoop _ _ = _›; simp at h; omega)

theorem listContinue_pos {test : Test} {ordered : Bool} {mc : Char} {S S' : BState} {n p : Nat}
    (h : listContinue test ordered mc S n = .ok (some p, S')) : 1 ≤ p := by
  unfold listContinue at h
  crack h
  have hsk : (if _ then _ else _) = some _ := ‹_›
  have hp : some _ = some p := ‹_›
  simp only [Option.some.injEq] at hp
  subst hp
  split at hsk
  · have := skipOrdered_pos hsk; omega
  · exact skipBullet_pos hsk

theorem listLoop_nf {cfg : Cfg} {tok : Tok} {test : Test} {N : Nat} (hk : TokSpec tok) (ht : TestPure test)
    (htf : TestNF test) (hkf : TokNF cfg tok N) {ordered : Bool} {mc : Char} :
    ∀ (fuel : Nat) (S : BState) (m pos : Nat) (pee tight : Bool), S.line = m → m < S.lineMax →
      S.lineMax < m + fuel → 1 ≤ pos → Fits cfg N S m →
      listLoop tok test ordered mc fuel S m pos pee tight ≠ .error .fuel := by
  intro fuel
  induction fuel with
  | zero => intro S m pos pee tight _ h1 h2; omega
  | succ f ih =>
    intro S m pos pee tight hline hlt hfuel hpos hB h
    simp only [listLoop] at h
    crackE h
    · exact listItem_nf hkf hpos hB h
    · exact listContinue_nf htf h
    · rename_i _ wi hitem wc hc _ p hsome
      obtain ⟨S1, t1, p1⟩ := wi
      obtain ⟨c, S2⟩ := wc
      obtain ⟨hfr, h1, h2⟩ := listItem_spec hk hitem hline hlt
      obtain ⟨rfl, hc2⟩ := listContinue_spec ht hc
      simp only at hsome h hc2 hc
      subst hsome
      have hlt2 := hc2 (by simp)
      exact ih _ _ _ _ _ rfl hlt2 (by rw [hfr.lineMax] at *; omega) (listContinue_pos hc)
        (hB.mono hfr (by omega)) h

/-! ## 5. the five rules that loop or nest, real mode -/

theorem paragraph_nf {test : Test} (ht : TestPure test) (htf : TestNF test) {fuel : Nat} {s : BState}
    {silent : Bool} (hl : s.line < s.lineMax) (hf : s.lineMax ≤ s.line + fuel) :
    paragraphRule test fuel s silent ≠ .error .fuel := by
  intro h
  unfold paragraphRule at h
  crackE h
  all_goals (try (nf_done h; done))
  exact lazyScan_nf ht htf _ _ _ _ hl hf h

theorem lheading_nf {test : Test} (ht : TestPure test) (htf : TestNF test) {fuel : Nat} {s : BState}
    {silent : Bool} (hl : s.line < s.lineMax) (hf : s.lineMax ≤ s.line + fuel) :
    lheadingRule test fuel s silent ≠ .error .fuel := by
  intro h
  unfold lheadingRule at h
  crackE h
  all_goals (try (nf_done h; done))
  exact lazyScan_nf ht htf _ _ _ _ hl hf h

theorem reference_nf {cfg : Cfg} {test : Test} (ht : TestPure test) (htf : TestNF test) {fuel : Nat}
    {s : BState} {silent : Bool} (hl : s.line < s.lineMax) (hf : s.lineMax ≤ s.line + fuel) :
    referenceRule cfg test fuel s silent ≠ .error .fuel := by
  intro h
  unfold referenceRule at h
  crackE h
  all_goals (try (nf_done h; done))
  exact lazyScan_nf ht htf _ _ _ _ hl hf h

/-- `need` of a state one level below `s` fits into `N` when `need cfg s ≤ N + 1` -/
theorem fits_of_need {cfg : Cfg} {N : Nat} {s : BState} (hn : need cfg s ≤ N + 1)
    (hlv : s.level < cfg.maxNesting) : Fits cfg N s s.line := by
  intro phi hphi
  unfold need at hn
  omega

theorem blockquote_nf {cfg : Cfg} {tok : Tok} {test : Test} {N : Nat} (ht : TestPure test)
    (htf : TestNF test) (hkf : TokNF cfg tok N) {fuel : Nat} {s : BState} {silent : Bool}
    (hl : s.line < s.lineMax) (hf : s.lineMax < s.line + fuel) (hi : IndentOk s)
    (hn : need cfg s ≤ N + 1) (hlv : s.level < cfg.maxNesting) :
    blockquoteRule tok test fuel s silent ≠ .error .fuel := by
  intro h
  obtain ⟨i, hi, hi0⟩ := hi
  unfold blockquoteRule at h
  crackE h
  all_goals (try (nf_done h; done))
  · exact bqScan_nf ht htf _ _ _ _ _ (Nat.le_of_lt hl) hf h
  · rename_i ind hind _ line hline hhead _ scan hscan
    have hhead : line.head? = some '>' := by simpa using hhead
    obtain ⟨n, old', S'⟩ := scan
    obtain ⟨hsb, hmn, hup, _⟩ := bqScan_spec ht _ _ _ _ _ _ _ _ hscan
    have hphi := bqScan_phi_first ht hscan hl hi hi0 hline hhead
    have := hup (Nat.le_of_lt hl)
    refine hkf _ ?_ h
    have := fits_of_need hn hlv _ hphi
    simp only [need, hsb.level]
    omega

theorem detectMarker_pos {cur : List Char} {p : Nat} {v : Option Nat}
    (h : detectMarker cur = .ok (some (p, v))) : 1 ≤ p := by
  unfold detectMarker at h
  crack h
  · have := skipOrdered_pos ‹skipOrdered _ = _›
    simp_all
    omega
  · have := skipBullet_pos ‹skipBullet _ = _›
    simp_all

theorem list_nf {cfg : Cfg} {tok : Tok} {test : Test} {N : Nat} (hk : TokSpec tok) (ht : TestPure test)
    (htf : TestNF test) (hkf : TokNF cfg tok N) {fuel : Nat} {s : BState} {silent : Bool}
    (hl : s.line < s.lineMax) (hf : s.lineMax < s.line + fuel)
    (hn : need cfg s ≤ N + 1) (hlv : s.level < cfg.maxNesting) :
    listRule tok test fuel s silent ≠ .error .fuel := by
  intro h
  unfold listRule at h
  crackE h
  all_goals (try (nf_done h; done))
  all_goals (
    refine listLoop_nf hk ht htf hkf _ _ _ _ _ _ rfl ?_ ?_ (detectMarker_pos ‹detectMarker _ = _›) ?_ h
    · exact hl
    · exact hf
    intro phi hphi
    have := fits_of_need hn hlv phi hphi
    simp only at hphi ⊢
    omega)

/-- a rule of the chain as the tokenizer calls it -/
theorem runRule_nf {cfg : Cfg} {tok : Tok} {test : Test} {N : Nat} (hk : TokSpec tok) (ht : TestPure test)
    (htf : TestNF test) (hkf : TokNF cfg tok N) {fuel : Nat} (r : RuleId) {s : BState} {silent : Bool}
    (hl : s.line < s.lineMax) (hf : s.lineMax < s.line + fuel) (hi : IndentOk s)
    (hn : need cfg s ≤ N + 1) (hlv : s.level < cfg.maxNesting) :
    runRule cfg tok test fuel r s silent ≠ .error .fuel := by
  cases r <;> simp only [runRule]
  · exact fun h => (codeRule_nf _ _).mp h
  · exact fun h => (fenceRule_nf _ _).mp h
  · exact blockquote_nf ht htf hkf hl hf hi hn hlv
  · exact fun h => (hrRule_nf _ _).mp h
  · exact list_nf hk ht htf hkf hl hf hn hlv
  · exact reference_nf ht htf hl (Nat.le_of_lt hf)
  · exact fun h => (headingRule_nf _ _).mp h
  · exact lheading_nf ht htf hl (Nat.le_of_lt hf)
  · exact paragraph_nf ht htf hl (Nat.le_of_lt hf)

/-! ## 6. the tokenizer -/

theorem runChain_nf {run : RuleId → BState → Bool → Res} (hr : RunSpec run) {s : BState}
    (hrun : ∀ r, run r s false ≠ .error .fuel) :
    ∀ (chain : List RuleId), runChain run chain s false ≠ .error .fuel := by
  intro chain
  induction chain with
  | nil => intro h; simp [runChain] at h
  | cons r rs ih =>
    intro h
    simp only [runChain] at h
    split at h
    · rename_i e he
      simp only [Except.error.injEq] at h
      subst h
      exact hrun _ he
    · cases h
    · rename_i s1 h1
      have := hr.false_same _ _ _ h1
      subst this
      exact ih h

theorem need_mono {cfg : Cfg} {s s' : BState} (hf : Frame s s') (hl : s.line ≤ s'.line) :
    need cfg s' ≤ need cfg s := by
  unfold need
  rw [hf.lineMax, hf.level, hf.offs]
  omega

/-- the rules, as `tokLoop` needs them: no `.fuel` on a state within the budget -/
def RunNF (cfg : Cfg) (run : RuleId → BState → Bool → Res) (N F : Nat) : Prop :=
  ∀ r s, s.line < s.lineMax → s.lineMax < s.line + F → IndentOk s → need cfg s ≤ N + 1 →
    s.level < cfg.maxNesting → run r s false ≠ .error .fuel

theorem tokLoop_nf {cfg : Cfg} {run : RuleId → BState → Bool → Res} {N F : Nat} (hr : RunSpec run)
    (hrun : RunNF cfg run N F) :
    ∀ (k : Nat) (he : Bool) (s : BState), s.lineMax - s.line < k → s.lineMax - s.line < F →
      need cfg s ≤ N + 1 → tokLoop cfg run k he s ≠ .error .fuel := by
  intro k
  induction k with
  | zero => intro he s h1; omega
  | succ k ih =>
    intro he s hk hF hn h
    simp only [tokLoop] at h
    obtain ⟨hs1, hs2, hs3, hs4⟩ := skipEmpty_spec s.offs s.lineMax s.line
    generalize Lines.skipEmptyLines s.offs s.lineMax s.line = l' at h hs1 hs2 hs3 hs4
    crackE h
    all_goals (try (nf_done h; done))
    all_goals (
      have hind := ‹BState.lineIndent _ _ = _›
      have hlv : ¬ s.level ≥ cfg.maxNesting := ‹_›
      have hge : ¬ l' ≥ s.lineMax := ‹_›
      have hfr0 : Frame s { s with line := l' } := frame_line_tight s l' s.tight
      have hn1 : need cfg { s with line := l' } ≤ N + 1 := Nat.le_trans (need_mono hfr0 hs1) hn)
    · refine runChain_nf hr (fun r => hrun r _ ?_ ?_ ⟨_, hind, by omega⟩ hn1 (by simpa using hlv)) _ h
      · simp only; omega
      · simp only; omega
    all_goals (
      have hchain := ‹runChain _ _ _ _ = _›
      have hafter := ‹afterChain _ _ _ = _›
      obtain ⟨h13, hlt3, _⟩ := tok_iter hr (s1 := { s with line := l' }) rfl (by simp only; omega)
        ⟨_, hind, by omega⟩ hchain hafter
      simp only at hlt3
      have hfr := hfr0.trans h13)
    · refine ih _ _ ?_ ?_ ?_ h
      · simp only; rw [hfr.lineMax]; omega
      · simp only; rw [hfr.lineMax]; omega
      · refine Nat.le_trans (need_mono (s := s) ?_ ?_) hn
        · exact hfr.trans (frame_line_tight _ _ _)
        · simp only; omega
    · refine ih _ _ ?_ ?_ ?_ h
      · simp only; rw [hfr.lineMax]; omega
      · simp only; rw [hfr.lineMax]; omega
      · refine Nat.le_trans (need_mono (s := s) ?_ ?_) hn
        · exact hfr.trans (frame_line_tight _ _ _)
        · simp only; omega

/-- **fuel sufficiency of the tokenizer**: on a state that needs at most `f`, `tokenize cfg f` does
    not run out of fuel -/
theorem tokenize_nf (cfg : Cfg) : ∀ (f : Nat), TokNF cfg (tokenize cfg f) f := by
  intro f
  induction f with
  | zero => intro s hn; unfold need at hn; omega
  | succ f ih =>
    intro s hn
    simp only [tokenize, engine]
    have hf : 1 ≤ f := by unfold need at hn; omega
    obtain ⟨g, rfl⟩ : ∃ g, f = g + 1 := ⟨f - 1, by omega⟩
    refine tokLoop_nf (N := g + 1) (F := g + 1 + 1)
      (runRule_spec (tokenize_tokSpec cfg (g + 1)) (testRules_pure cfg (g + 1)) _) ?_ _ _ _ ?_ ?_ hn
    · intro r s' hl hF hi hn' hlv
      exact runRule_nf (tokenize_tokSpec cfg (g + 1)) (testRules_pure cfg (g + 1))
        (fun s => testRules_nf cfg g s) ih r hl hF hi hn' hlv
    · unfold need at hn; omega
    · unfold need at hn; omega

theorem need_fresh (cfg : Cfg) (src : List Char) (k : Kind) (refs : Refs.RefMap) :
    need cfg (BState.fresh src k refs) ≤ fuelFor cfg src := by
  have := phi_split_le src
  simp only [need, BState.fresh, fuelFor]
  omega

/-- **`parseBlocks` never runs out of fuel** (for every configuration and every source) -/
theorem parseBlocks_fuel (cfg : Cfg) (src : List Char) : parseBlocks cfg src ≠ .error .fuel := by
  intro h
  unfold parseBlocks at h
  split at h
  · rename_i e he
    simp only [Except.error.injEq] at h
    subst h
    exact tokenize_nf cfg _ _ (need_fresh cfg src .root []) he
  · cases h

end MdIt.Block
