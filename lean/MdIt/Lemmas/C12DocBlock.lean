/-
  Helper development for `Props/C12Doc.lean` (C12 at whole-document level), BLOCK side
  (namespace `MdIt.Block.C12`): symbolic runs of `Block.parseBlocks` on a ONE-LINE source `w ++ body`
  (`w` = leading blanks of width < 4, `body` without line terminator).

    * `parseBlocks_one_line`    `Plain w body` (the first non-blank character starts no block
                                construct, the text does not begin with an ordered-list marker):
        Root[ Paragraph[ InlineRoot(content = the whole line, mapping = [(0, 0)]) ] ],  no references;
      every rule of the chain other than the paragraph rule answers `false` and hands the state back
      (`runRule_other`), in whatever order the chain lists them; the paragraph rule takes the line.
    * `parseBlocks_fence_line`  `body = "~~~" ++ info` (`PlainG true`), the fence rule in front of the
                                paragraph rule:  Root[ CodeFence{info (raw), '~', 3, content ""} ].
-/
import MdIt.Props.Block

namespace MdIt.Block.C12
open MdIt.Lines (LineOffset byteLen NoTerm AllBlank indentWidth lead)

/-! ## the state at the only line -/

/-- the line table of a one-line source -/
def oneOff (w body : List Char) : LineOffset :=
  ⟨0, byteLen (w ++ body), w.length, (indentWidth w : Int)⟩

/-- a state that sits on the only line of `w ++ body` at top level -/
structure OneLine (s : BState) (w body : List Char) : Prop where
  src : s.src = w ++ body
  offs : s.offs = [oneOff w body]
  blk : s.blkIndent = 0
  line : s.line = 0
  lineMax : s.lineMax = 1
  li : s.listIndent = none

/-- what the rules need of the line: blanks of width < 4, then a terminator-free text whose first
    character is none of the block markers, and which is no ordered-list marker either -/
structure PlainG (fenceOK : Bool) (w body : List Char) : Prop where
  blank : AllBlank w
  width : indentWidth w < 4
  noTerm : NoTerm body
  first : ∃ f rest, body = f :: rest ∧
    f ∉ [' ', '\t', '>', '*', '-', '_', '+', '[', '#'] ∧ (fenceOK = false → f ≠ '~' ∧ f ≠ '`')
  ord : skipOrdered body = none

/-- … and no fence marker either: only the paragraph rule takes such a line -/
abbrev Plain (w body : List Char) : Prop := PlainG false w body

theorem takeWhile_append_stop' {α : Type} (p : α → Bool) (a b : List α) (ha : ∀ x ∈ a, p x = true)
    (hb : ∀ x ∈ b.head?, p x = false) : (a ++ b).takeWhile p = a := by
  induction a with
  | nil =>
    cases b with
    | nil => simp
    | cons x r => have := hb x (by simp); simp [List.takeWhile_cons, this]
  | cons x r ih =>
    have hx := ha x (by simp)
    have := ih (fun y hy => ha y (by simp [hy]))
    simp [List.takeWhile_cons, hx, this]

theorem splitLines_one {b : Bool} {w body : List Char} (h : PlainG b w body) :
    Lines.splitLines (w ++ body) = [oneOff w body] := by
  obtain ⟨f, rest, hb, hf, -⟩ := h.first
  have hnt : NoTerm (w ++ body) := by
    intro c hc
    rcases List.mem_append.mp hc with h1 | h1
    · exact h.blank.noTerm c h1
    · exact h.noTerm c h1
  have hlead : lead (w ++ body) = w := by
    unfold lead
    apply takeWhile_append_stop'
    · intro x hx; exact Lines.isBlank_iff.mpr (h.blank x hx)
    · intro x hx
      rw [hb] at hx; simp at hx; subst hx
      cases hx' : Lines.isBlank f
      · rfl
      · rcases Lines.isBlank_iff.mp hx' with rfl | rfl <;> simp at hf
  obtain ⟨fl, hsp⟩ := Lines.splitGo_line (w ++ body) hnt 0 []
  unfold Lines.splitLines
  rw [List.append_nil] at hsp
  rw [hsp, Lines.splitGo_nil, hlead]
  simp [oneOff]

variable {s : BState} {w body : List Char} {b : Bool}

theorem OneLine.off (hs : OneLine s w body) : s.off s.line = .ok (oneOff w body) := by
  simp [BState.off, hs.offs, hs.line]

theorem OneLine.lineIndent (hs : OneLine s w body) : s.lineIndent s.line = .ok (indentWidth w : Int) := by
  simp [BState.lineIndent, Lines.lineIndent, hs.offs, hs.line, hs.blk, oneOff, liftL]

theorem OneLine.getLine (hs : OneLine s w body) (hp : PlainG b w body) : s.getLine s.line = .ok body := by
  have : Lines.slice (w ++ body) w.length (byteLen w + byteLen body) = .ok body :=
    Lines.slice_eq_ok_iff.mpr ⟨w, [], by simp, hp.blank.byteLen, by simp [hp.blank.byteLen]⟩
  simp [BState.getLine, Lines.getLine, hs.offs, hs.line, hs.src, oneOff, this, liftL]

theorem OneLine.isEmpty (hs : OneLine s w body) (hp : PlainG b w body) : s.isEmpty 0 = false := by
  obtain ⟨f, rest, hb, _⟩ := hp.first
  have := Lines.utf8Size_pos' f
  simp [BState.isEmpty, Lines.isEmpty, hs.offs, oneOff, hp.blank.byteLen, hb]
  omega

theorem OneLine.getMap (hs : OneLine s w body) :
    s.getMap 0 0 = .ok (w.length, byteLen (w ++ body)) := by
  simp [BState.getMap, Lines.getMap, hs.offs, oneOff, liftL]

theorem usizeAsI32_zero : Lines.usizeAsI32 0 = 0 := by decide

theorem OneLine.getLines (hs : OneLine s w body) (hp : PlainG b w body) :
    s.getLines 0 1 0 false = .ok (w ++ body, [(0, 0)]) := by
  have h1 : Lines.slice (w ++ body) 0 w.length = .ok w :=
    Lines.slice_eq_ok_iff.mpr ⟨[], body, by simp, rfl, by simp [hp.blank.byteLen]⟩
  have h2 : Lines.slice (w ++ body) 0 (byteLen w + byteLen body) = .ok (w ++ body) :=
    Lines.slice_eq_ok_iff.mpr ⟨[], [], by simp, rfl, by simp⟩
  have h3 := Lines.cut_full_indent w
  unfold BState.getLines Lines.getLines
  rw [if_neg (by omega)]
  unfold Lines.getLinesGo
  rw [if_pos (by omega)]
  simp only [hs.offs, hs.src, oneOff, List.getElem?_cons_zero, h1, usizeAsI32_zero, Int.sub_zero, h3]
  unfold Lines.getLinesGo
  simp [h2, liftL, Lines.byteLen]

/-! ## the rules on that line -/

theorem lazyScan_one (hs : OneLine s w body) (test : Test) (setext : Bool) (fuel : Nat) :
    lazyScan test setext (fuel + 1) s s.line = .ok (1, 0, s) := by
  simp [lazyScan, hs.line, hs.lineMax]

/-- every rule but the paragraph rule (and, on a line that may open a fence, the fence rule)
    declines the line and hands the state back -/
theorem runRule_other (cfg : Cfg) (tok : Tok) (test : Test) (fuel : Nat) (hs : OneLine s w body)
    (hp : PlainG b w body) (r : RuleId) (hr : r ≠ .paragraph) (hrf : b = true → r ≠ .fence) :
    runRule cfg tok test (fuel + 1) r s false = .ok (false, s) := by
  obtain ⟨f, rest, hb, hf, hff⟩ := hp.first
  have hind := hs.lineIndent
  have hline := hs.getLine hp
  have hw4 : ¬ ((indentWidth w : Int) ≥ 4) := by have := hp.width; omega
  simp only [List.mem_cons, List.not_mem_nil, or_false, not_or] at hf
  obtain ⟨_, _, f3, f4, f5, f6, f7, f8, f9⟩ := hf
  cases r with
  | paragraph => exact absurd rfl hr
  | code =>
    have : (indentWidth w : Int) < 4 := by have := hp.width; omega
    simp [runRule, codeRule, hind, this, pure, Except.pure]
  | fence =>
    cases b with
    | true => exact absurd rfl (hrf rfl)
    | false =>
      obtain ⟨f1, f2⟩ := hff rfl
      simp [runRule, fenceRule, hind, hw4, hline, hb, f1, f2, pure, Except.pure]
  | blockquote =>
    simp [runRule, blockquoteRule, hind, hw4, hline, hb, f3, pure, Except.pure]
  | hr =>
    simp [runRule, hrRule, hind, hw4, hline, hb, f4, f5, f6, pure, Except.pure]
  | list =>
    have hsb : skipBullet (f :: rest) = none := by simp [skipBullet, f4, f5, f7]
    have hord := hp.ord
    rw [hb] at hord
    simp [runRule, listRule, hind, hw4, listSpecial, hs.li, hline, hb, detectMarker, hord, hsb,
      pure, Except.pure]
  | reference =>
    simp [runRule, referenceRule, hind, hw4, hline, hb, f8, pure, Except.pure]
  | heading =>
    simp [runRule, headingRule, hind, hw4, hline, hb, f9, pure, Except.pure]
  | lheading =>
    simp [runRule, lheadingRule, hind, hw4, lazyScan_one hs, pure, Except.pure]

/-- the paragraph rule takes the line -/
theorem runRule_paragraph (cfg : Cfg) (tok : Tok) (test : Test) (fuel : Nat) (hs : OneLine s w body)
    (hp : Plain w body) :
    runRule cfg tok test (fuel + 1) .paragraph s false =
      .ok (true, { s with line := 1, children := s.children ++
        [⟨.paragraph, some (w.length, byteLen (w ++ body)),
          [⟨.inlineRoot (w ++ body) [(0, 0)], none, []⟩]⟩] }) := by
  have h1 := lazyScan_one hs test false fuel
  have h2 := hs.getLines hp
  have h3 := hs.getMap
  simp only [runRule, paragraphRule, h1, ok_bind]
  have h3' : liftL (Lines.getMap s.offs 0 0) = .ok (w.length, byteLen (w ++ body)) := h3
  simp only [hs.line, hs.blk, h2, ok_bind, psub, BState.push]
  simp only [BState.getMap, Bool.false_eq_true, if_false, Nat.le_refl, if_true, Nat.sub_self, ok_bind]
  rw [h3']
  rfl

theorem runChain_only (run : RuleId → BState → Bool → Res) (chain : List RuleId) (s s' : BState)
    (r0 : RuleId) (hmem : r0 ∈ chain) (hfire : run r0 s false = .ok (true, s'))
    (hq : ∀ r ∈ chain, r ≠ r0 → run r s false = .ok (false, s)) :
    runChain run chain s false = .ok (true, s') := by
  induction chain with
  | nil => cases hmem
  | cons r rs ih =>
    by_cases hr : r = r0
    · subst hr; simp only [runChain, hfire]
    · have h1 := hq r (by simp) hr
      simp only [runChain, h1]
      refine ih ?_ (fun r' hr' hne => hq r' (List.mem_cons_of_mem _ hr') hne)
      rcases List.mem_cons.mp hmem with h | h
      · exact absurd h.symm hr
      · exact h

/-! ## the tokenizer and `parseBlocks` -/

/-- the paragraph node the block pass makes of the line -/
def oneParagraph (w body : List Char) : BNode :=
  ⟨.paragraph, some (w.length, byteLen (w ++ body)), [⟨.inlineRoot (w ++ body) [(0, 0)], none, []⟩]⟩

theorem fresh_oneLine (hp : PlainG b w body) (k : Kind) (refs : Refs.RefMap) :
    OneLine (BState.fresh (w ++ body) k refs) w body := by
  refine ⟨rfl, ?_, rfl, rfl, ?_, rfl⟩
  · simp [BState.fresh, splitLines_one hp]
  · simp [BState.fresh, splitLines_one hp]

theorem skipEmpty_one (hs : OneLine s w body) (hp : PlainG b w body) :
    Lines.skipEmptyLines s.offs s.lineMax s.line = 0 := by
  have := hs.isEmpty hp
  unfold BState.isEmpty at this
  rw [Lines.skipEmptyLines, hs.line]
  simp [this]

theorem tokLoop_one (cfg : Cfg) (hpar : RuleId.paragraph ∈ cfg.chain) (tok : Tok) (test : Test)
    (f : Nat) (hs : OneLine s w body) (hp : Plain w body) (hlv : s.level < cfg.maxNesting) :
    tokLoop cfg (runRule cfg tok test (f + 2)) (f + 2) false s =
      .ok { s with line := 1, children := s.children ++ [oneParagraph w body], tight := true } := by
  have hchain := runChain_only (runRule cfg tok test (f + 2)) cfg.chain s _ .paragraph hpar
    (runRule_paragraph cfg tok test (f + 1) hs hp)
    (fun r _ hne => runRule_other cfg tok test (f + 1) hs hp r hne (by simp))
  have hskip : Lines.skipEmptyLines s.offs 1 0 = 0 := by
    have := skipEmpty_one hs hp; rwa [hs.line, hs.lineMax] at this
  have hind : Lines.lineIndent s.offs 0 0 = .ok (indentWidth w : Int) := by
    simp [Lines.lineIndent, hs.offs, oneOff]
  have hlvl : ¬ (s.level ≥ cfg.maxNesting) := by omega
  have hemp : Lines.isEmpty s.offs 0 = false := hs.isEmpty hp
  obtain ⟨h1, h2, h3, h4, h5, h6⟩ := hs
  obtain ⟨src, offs, blk, line, lineMax, tight, li, level, nk, ch, refs⟩ := s
  simp only at h1 h2 h3 h4 h5 h6 hchain hskip hind hlvl hemp
  subst h1 h3 h4 h5 h6
  rw [tokLoop]
  simp [hskip, BState.lineIndent, hind, liftL, hlvl, hchain, afterChain, psub,
    BState.isEmpty, hemp, pure, Except.pure, bind, Except.bind]
  rw [tokLoop]
  simp [pure, Except.pure, oneParagraph]

/-- **the block pass on a one-line plain source**: one paragraph holding the whole line, no
    reference definitions; for every chain that contains the paragraph rule, every `max_nesting > 0` -/
theorem parseBlocks_one_line (cfg : Cfg) (hpar : RuleId.paragraph ∈ cfg.chain) (hmax : 0 < cfg.maxNesting)
    (w body : List Char) (hp : Plain w body) :
    parseBlocks cfg (w ++ body) =
      .ok (⟨.root, some (0, byteLen (w ++ body)), [oneParagraph w body]⟩, []) := by
  obtain ⟨f, hf⟩ : ∃ f, fuelFor cfg (w ++ body) = f + 2 :=
    ⟨(Lines.splitLines (w ++ body)).length + min cfg.maxNesting (byteLen (w ++ body)) + 6, by
      unfold fuelFor; omega⟩
  have hs := fresh_oneLine hp .root []
  have htok := tokLoop_one cfg hpar (engine cfg (f + 1)).1 (engine cfg (f + 1)).2 f hs hp
    (by show 0 < _; exact hmax)
  unfold parseBlocks tokenize
  rw [hf, show (engine cfg (f + 2)).1 = tokLoop cfg (runRule cfg (engine cfg (f + 1)).1
    (engine cfg (f + 1)).2 (f + 2)) (f + 2) false from rfl, htok]
  rfl

/-! ## a one-line source that opens a `~~~` fence -/

/-- the fence node of a one-line source  blanks ++ `~~~` ++ info -/
def oneFence (w body info : List Char) : BNode :=
  ⟨.codeFence info '~' 3 [], some (w.length, byteLen (w ++ body)), []⟩

theorem countRun_stop (m : Char) (l : List Char) (h : ∀ c ∈ l.head?, c ≠ m) : countRun m l = 0 := by
  cases l with
  | nil => rfl
  | cons c r => simp [countRun, h c (by simp)]

/-- the fence rule on `~~~info` (no closing fence: the block runs to the end of the document) -/
theorem runRule_fence (cfg : Cfg) (tok : Tok) (test : Test) (fuel : Nat) (hs : OneLine s w body)
    (hp : PlainG true w body) (info : List Char) (hb : body = '~' :: '~' :: '~' :: info)
    (hi : ∀ c ∈ info.head?, c ≠ '~') :
    runRule cfg tok test fuel .fence s false =
      .ok (true, { s with line := 1, children := s.children ++ [oneFence w body info] }) := by
  have hind := hs.lineIndent
  have hline := hs.getLine hp
  have hoff : s.off 0 = .ok (oneOff w body) := by have := hs.off; rwa [hs.line] at this
  have hmap : liftL (Lines.getMap s.offs 0 0) = .ok (w.length, byteLen (w ++ body)) := hs.getMap
  have hw4 : ¬ ((indentWidth w : Int) ≥ 4) := by have := hp.width; omega
  have hcr : countRun '~' ('~' :: '~' :: info) = 2 := by
    simp [countRun, countRun_stop '~' info hi]
  have hsl : Lines.slice ('~' :: '~' :: '~' :: info) 3 (byteLen ('~' :: '~' :: '~' :: info)) = .ok info :=
    Lines.slice_eq_ok_iff.mpr ⟨['~', '~', '~'], [], by simp, by decide, by
      simp only [Lines.byteLen_cons]
      have : ('~' : Char).utf8Size = 1 := by decide
      omega⟩
  have hscan : fenceScan s '~' 3 0 = .ok (1, false) := by
    rw [fenceScan]; simp [hs.lineMax]
  have hgl : s.getLines 1 1 (i32AsUsize (oneOff w body).indentNonspace) true = .ok ([], []) := by
    simp [BState.getLines, Lines.getLines, liftL]
    rw [Lines.getLinesGo]; simp
  simp only [runRule, fenceRule, hind, ok_bind, hw4, if_false, hline, hb]
  simp only [hcr, hsl, liftL, ok_bind]
  have hb' : '~' :: '~' :: '~' :: info = body := hb.symm
  simp only [hb', hscan, hoff, hgl, ok_bind, psub, BState.getMap, hs.line]
  simp [pure, Except.pure, hmap, BState.push, oneFence, bind, Except.bind]

theorem runChain_first (run : RuleId → BState → Bool → Res) (pre post : List RuleId) (s s' : BState)
    (r0 : RuleId) (hfire : run r0 s false = .ok (true, s'))
    (hq : ∀ r ∈ pre, run r s false = .ok (false, s)) :
    runChain run (pre ++ r0 :: post) s false = .ok (true, s') := by
  induction pre with
  | nil => simp only [List.nil_append, runChain, hfire]
  | cons r rs ih =>
    have h1 := hq r (by simp)
    simp only [List.cons_append, runChain, h1]
    exact ih (fun r' hr' => hq r' (List.mem_cons_of_mem _ hr'))

theorem tokLoop_fence (cfg : Cfg) (pre post : List RuleId) (hchain : cfg.chain = pre ++ .fence :: post)
    (hpre : RuleId.paragraph ∉ pre) (hnf : RuleId.fence ∉ pre) (tok : Tok) (test : Test)
    (f : Nat) (hs : OneLine s w body) (hp : PlainG true w body) (info : List Char)
    (hb : body = '~' :: '~' :: '~' :: info) (hi : ∀ c ∈ info.head?, c ≠ '~')
    (hlv : s.level < cfg.maxNesting) :
    tokLoop cfg (runRule cfg tok test (f + 2)) (f + 2) false s =
      .ok { s with line := 1, children := s.children ++ [oneFence w body info], tight := true } := by
  have hfire := runRule_fence cfg tok test (f + 2) hs hp info hb hi
  have hq : ∀ r ∈ pre, runRule cfg tok test (f + 2) r s false = .ok (false, s) := fun r hr =>
    runRule_other cfg tok test (f + 1) hs hp r (fun h => hpre (h ▸ hr)) (fun _ h => hnf (h ▸ hr))
  have hchain' := runChain_first (runRule cfg tok test (f + 2)) pre post s _ .fence hfire hq
  rw [← hchain] at hchain'
  have hskip : Lines.skipEmptyLines s.offs 1 0 = 0 := by
    have := skipEmpty_one hs hp; rwa [hs.line, hs.lineMax] at this
  have hind : Lines.lineIndent s.offs 0 0 = .ok (indentWidth w : Int) := by
    simp [Lines.lineIndent, hs.offs, oneOff]
  have hlvl : ¬ (s.level ≥ cfg.maxNesting) := by omega
  have hemp : Lines.isEmpty s.offs 0 = false := hs.isEmpty hp
  obtain ⟨h1, h2, h3, h4, h5, h6⟩ := hs
  obtain ⟨src, offs, blk, line, lineMax, tight, li, level, nk, ch, refs⟩ := s
  simp only at h1 h2 h3 h4 h5 h6 hchain' hskip hind hlvl hemp
  subst h1 h3 h4 h5 h6
  rw [tokLoop]
  simp [hskip, BState.lineIndent, hind, liftL, hlvl, hchain', afterChain, psub,
    BState.isEmpty, hemp, pure, Except.pure, bind, Except.bind]
  rw [tokLoop]
  simp [pure, Except.pure]

/-- **the block pass on a one-line source  blanks ++ `~~~` ++ info**: one `CodeFence` with that info
    string (raw), empty content; for every chain in which the fence rule comes before the paragraph
    rule -/
theorem parseBlocks_fence_line (cfg : Cfg) (pre post : List RuleId)
    (hchain : cfg.chain = pre ++ .fence :: post) (hpre : RuleId.paragraph ∉ pre)
    (hnf : RuleId.fence ∉ pre) (hmax : 0 < cfg.maxNesting)
    (w body : List Char) (hp : PlainG true w body) (info : List Char)
    (hb : body = '~' :: '~' :: '~' :: info) (hi : ∀ c ∈ info.head?, c ≠ '~') :
    parseBlocks cfg (w ++ body) =
      .ok (⟨.root, some (0, byteLen (w ++ body)), [oneFence w body info]⟩, []) := by
  obtain ⟨f, hf⟩ : ∃ f, fuelFor cfg (w ++ body) = f + 2 :=
    ⟨(Lines.splitLines (w ++ body)).length + min cfg.maxNesting (byteLen (w ++ body)) + 6, by
      unfold fuelFor; omega⟩
  have hs := fresh_oneLine hp .root []
  have htok := tokLoop_fence cfg pre post hchain hpre hnf (engine cfg (f + 1)).1 (engine cfg (f + 1)).2
    f hs hp info hb hi (by show 0 < _; exact hmax)
  unfold parseBlocks tokenize
  rw [hf, show (engine cfg (f + 2)).1 = tokLoop cfg (runRule cfg (engine cfg (f + 1)).1
    (engine cfg (f + 1)).2 (f + 2)) (f + 2) false from rfl, htok]
  rfl

end MdIt.Block.C12
