/-
  Properties of the two raw-HTML rules (`MdIt/Model/Html.lean`).

  Matchers
    * `tagRest_spec`, `tagMatch_spec` : a match of `HTML_TAG_RE` is a non-empty PREFIX of the text that
      starts with `<`; its length is positive, at most the length of the text, and the length of
      that prefix (so its end is a character boundary); `tagText` is that prefix.
  Inline rule (`HtmlInlineScanner::run`)
    * `htmlInline_no_panic` (C01)       : under `InlineInv` and `i32Min < link_level < i32Max` no panic;
    * `inline_rule_progress_html` (C01) : … and `some n ⇒ 1 ≤ n`, `pos + n ≤ posMax`, `pos + n` a boundary;
    * `htmlInline_link_level` (C01)     : `link_level` moves by at most one per call, and only on a
                                          match of at least three bytes (hence `|link_level| ≤ len / 3`
                                          along any run: the `i32` cannot overflow below 6 GiB of text);
    * `htmlInline_only_overflow`        : the ONLY panic under `InlineInv` is that overflow, in real mode,
                                          and it does fire at the ends of the `i32` range (witnesses);
    * `html_inline_silent_quiet`, `html_inline_silent_real`, `html_inline_real_silent` (C16);
    * `htmlInline_node` (C05)           : the pushed node carries the matched source text verbatim and
                                          the range `get_map(pos, pos + n)`, start ≤ end.
  Block rule (`HtmlBlockScanner::run`)
    * `htmlBlock_no_panic` (C01)        : under `BInv` on an existing line: total, both modes;
    * `block_rule_progress_html` (C01)  : real success ⇒ `line < line' ≤ lineMax`, nothing else changes;
    * `html_block_silent_quiet`, `html_block_silent_real`, `html_block_real_silent` (C16);
    * `htmlBlock_node` (C05)            : content = `get_lines(line, line', blk_indent, true)`, range =
                                          `get_map(line, line' - 1)` = (first_nonspace of the first line,
                                          line_end of the last), start ≤ end ≤ |src|;
    * `htmlBlock_line_views` (C10)      : verdict and consumed extent depend on the source only through
                                          `line_indent` / `get_line` of the line table (no terminator is
                                          ever looked at): two states that agree on those agree on both.
-/
import MdIt.Model.Html
import MdIt.Lemmas.BlockTotalLeaf
import MdIt.Lemmas.InlineRules2

namespace MdIt.Html
open MdIt.InlineOps (byteLen slice getSourcePosFor)
open MdIt.C05 (byteLen_append WFMap)
open MdIt.Inline (IState InlineInv Boundary Advances)

/-! ## matchers: what is left is a suffix -/

theorem stripPrefix_eq {pat s r : List Char} (h : stripPrefix pat s = some r) : s = pat ++ r := by
  induction pat generalizing s with
  | nil => simp [stripPrefix] at h; simp [h]
  | cons p ps ih =>
    cases s with
    | nil => simp [stripPrefix] at h
    | cons c t =>
      simp only [stripPrefix] at h
      split at h
      · rename_i hc; subst hc; rw [ih h]; rfl
      · cases h

theorem findSub_suffix {pat s r : List Char} (h : findSub pat s = some r) : ∃ pre, s = pre ++ pat ++ r := by
  induction s with
  | nil =>
    simp only [findSub] at h
    exact ⟨[], by simpa using stripPrefix_eq h⟩
  | cons c t ih =>
    simp only [findSub] at h
    split at h
    · rename_i rest hs
      injection h with h; subst h
      exact ⟨[], by simpa using stripPrefix_eq hs⟩
    · obtain ⟨pre, hp⟩ := ih h
      exact ⟨c :: pre, by rw [hp]; simp⟩

theorem mem_splits_suffix {p : Char → Bool} {s r : List Char} (h : r ∈ splits p s) : r <:+ s := by
  induction s with
  | nil => simp [splits] at h; subst h; exact List.suffix_refl _
  | cons c t ih =>
    simp only [splits] at h
    split at h
    · simp only [List.mem_append, List.mem_singleton] at h
      rcases h with h | h
      · exact (ih h).trans (List.suffix_cons _ _)
      · subst h; exact List.suffix_refl _
    · simp at h; subst h; exact List.suffix_refl _

theorem mem_quotedEnd_suffix {q : Char} {t r : List Char} (h : r ∈ quotedEnd q t) : r <:+ t := by
  unfold quotedEnd at h
  split at h
  · rename_i x r' hd
    simp at h; subst h
    have := List.dropWhile_suffix (l := t) (fun x => x != q)
    rw [hd] at this
    exact (List.suffix_cons _ _).trans this
  · simp at h

theorem mem_valueAt_suffix {s r : List Char} (h : r ∈ valueAt s) : r <:+ s := by
  cases s with
  | nil => simp [valueAt] at h
  | cons c t =>
    simp only [valueAt] at h
    split at h
    · exact (mem_splits_suffix h).trans (List.suffix_cons _ _)
    · split at h
      · exact (mem_quotedEnd_suffix h).trans (List.suffix_cons _ _)
      · split at h
        · exact (mem_quotedEnd_suffix h).trans (List.suffix_cons _ _)
        · simp at h

theorem mem_valueEnds_suffix {s r : List Char} (h : r ∈ valueEnds s) : r <:+ s := by
  unfold valueEnds at h
  split at h
  · rename_i c t hd
    split at h
    · simp only [List.mem_flatMap] at h
      obtain ⟨m, hm, hr⟩ := h
      have h3 := List.dropWhile_suffix (l := s) isWs
      rw [hd] at h3
      exact (mem_valueAt_suffix hr).trans ((mem_splits_suffix hm).trans ((List.suffix_cons _ _).trans h3))
    · simp at h
  · simp at h

theorem attrHead_suffix {s r : List Char} (h : attrHead s = some r) : r <:+ s := by
  cases s with
  | nil => simp [attrHead] at h
  | cons w t =>
    simp only [attrHead] at h
    split at h
    · split at h
      · rename_i c r' hd
        split at h
        · injection h with h; subst h
          have h2 := List.dropWhile_suffix (l := t) isWs
          rw [hd] at h2
          exact (List.dropWhile_suffix _).trans ((List.suffix_cons _ _).trans (h2.trans (List.suffix_cons _ _)))
        · cases h
      · cases h
    · cases h

/-- `closeK` consumed `\s*/?>`: a proper suffix, and the continuation accepted it -/
theorem closeK_spec {k : List Char → Bool} {s r : List Char} (h : closeK k s = some r) :
    r <:+ s ∧ r.length < s.length ∧ k r = true := by
  unfold closeK at h
  have hd := List.dropWhile_suffix (l := s) isWs
  have hl := length_dropWhile_le isWs s
  split at h
  · rename_i r' he
    split at h
    · injection h with h; subst h
      rw [he] at hd hl
      exact ⟨(List.suffix_cons _ _).trans hd, by simp at hl; omega, by assumption⟩
    · cases h
  · rename_i r' he
    split at h
    · injection h with h; subst h
      rw [he] at hd hl
      exact ⟨(List.suffix_cons _ _).trans ((List.suffix_cons _ _).trans hd), by simp at hl; omega, by assumption⟩
    · cases h
  · cases h

theorem attrsK_spec (k : List Char → Bool) : ∀ (n : Nat) (s r : List Char), s.length ≤ n →
    attrsK k s = some r → r <:+ s ∧ r.length < s.length ∧ k r = true := by
  intro n
  induction n with
  | zero =>
    intro s r hn h
    have : s = [] := List.length_eq_zero_iff.mp (by omega)
    subst this
    rw [attrsK] at h
    simp only [attrHead] at h
    exact closeK_spec h
  | succ n ih =>
    intro s r hn h
    rw [attrsK] at h
    simp only at h
    split at h
    · rename_i r0 hv
      injection h with h; subst h
      split at hv
      · cases hv
      · rename_i s2 hs2
        have hs2s := attrHead_suffix hs2
        have hs2l := attrHead_lt hs2
        split at hv
        · rename_i r1 hf
          injection hv with hv; subst hv
          obtain ⟨⟨x, hx⟩, _, hfx⟩ := List.exists_of_findSome?_eq_some hf
          have hxl := mem_valueEnds_lt hx
          obtain ⟨a, b, c⟩ := ih x _ (by omega) hfx
          exact ⟨a.trans ((mem_valueEnds_suffix hx).trans hs2s), by omega, c⟩
        · obtain ⟨a, b, c⟩ := ih s2 _ (by omega) hv
          exact ⟨a.trans hs2s, by omega, c⟩
    · exact closeK_spec h

/-- a match of `open_tag` followed by `k`: `<`, at least one more character, then what is left -/
theorem openTagK_spec {k : List Char → Bool} {s r : List Char} (h : openTagK k s = some r) :
    ∃ mid, s = '<' :: mid ++ r ∧ k r = true := by
  unfold openTagK at h
  split at h
  · rename_i c t
    split at h
    · obtain ⟨a, b, c'⟩ := attrsK_spec k _ _ _ (Nat.le_refl _) h
      obtain ⟨m1, hm1⟩ := a
      obtain ⟨m2, hm2⟩ := List.dropWhile_suffix (l := t) isTagChar
      exact ⟨c :: (m2 ++ m1), by rw [← hm2, ← hm1]; simp, c'⟩
    · cases h
  · cases h

theorem closeTagK_spec {k : List Char → Bool} {s r : List Char} (h : closeTagK k s = some r) :
    ∃ mid, s = '<' :: mid ++ r ∧ k r = true := by
  unfold closeTagK at h
  split at h
  · rename_i c t
    split at h
    · split at h
      · rename_i r' he
        split at h
        · injection h with h; subst h
          obtain ⟨m1, hm1⟩ := List.dropWhile_suffix (l := t.dropWhile isTagChar) isWs
          obtain ⟨m2, hm2⟩ := List.dropWhile_suffix (l := t) isTagChar
          rw [he] at hm1
          exact ⟨'/' :: c :: (m2 ++ m1 ++ ['>']), by rw [← hm2, ← hm1]; simp, by assumption⟩
        · cases h
      · cases h
    · cases h
  · cases h

theorem commentBody_suffix : ∀ (n : Nat) (s r : List Char), s.length ≤ n → commentBody s = some r →
    r <:+ s := by
  intro n
  induction n with
  | zero =>
    intro s r hn h
    have : s = [] := List.length_eq_zero_iff.mp (by omega)
    subst this; simp [commentBody] at h
  | succ n ih =>
    intro s r hn h
    cases s with
    | nil => simp [commentBody] at h
    | cons c t =>
      rw [commentBody.eq_def] at h; simp only at h
      split at h
      · split at h
        · cases h
        · rename_i d r'
          split at h
          · split at h
            · injection h with h; subst h
              exact (List.suffix_cons _ _).trans ((List.suffix_cons _ _).trans (List.suffix_cons _ _))
            · cases h
          · exact (ih r' r (by simp at hn; omega) h).trans ((List.suffix_cons _ _).trans (List.suffix_cons _ _))
      · exact (ih t r (by simp at hn; omega) h).trans (List.suffix_cons _ _)

theorem commentRest_suffix {s r : List Char} (h : commentRest s = some r) : r <:+ s := by
  unfold commentRest at h
  split at h
  · injection h with h; subst h
    exact (List.suffix_cons _ _).trans ((List.suffix_cons _ _).trans (List.suffix_cons _ _))
  · split at h
    · cases h
    · split at h
      · split at h
        · cases h
        · split at h
          · exact (commentBody_suffix _ _ _ (Nat.le_refl _) h).trans
              ((List.suffix_cons _ _).trans (List.suffix_cons _ _))
          · cases h
      · split at h
        · exact (commentBody_suffix _ _ _ (Nat.le_refl _) h).trans (List.suffix_cons _ _)
        · cases h

theorem declRest_suffix {s r : List Char} (h : declRest s = some r) : ∃ mid, s = mid ++ r := by
  cases s with
  | nil => simp [declRest] at h
  | cons c t =>
    simp only [declRest] at h
    split at h
    · split at h
      · rename_i w r' he
        split at h
        · split at h
          · rename_i x r'' he2
            injection h with h; subst h
            obtain ⟨m1, hm1⟩ := List.dropWhile_suffix (l := t) isUpper
            obtain ⟨m2, hm2⟩ := List.dropWhile_suffix (l := r') (fun x => x != '>')
            rw [he] at hm1; rw [he2] at hm2
            exact ⟨c :: (m1 ++ w :: (m2 ++ [x])), by rw [← hm1, ← hm2]; simp⟩
          · cases h
        · cases h
      · cases h
    · cases h

theorem specialRest_spec {s r : List Char} (h : specialRest s = some r) : ∃ mid, s = '<' :: mid ++ r := by
  unfold specialRest at h
  split at h
  · obtain ⟨m, hm⟩ := commentRest_suffix h
    exact ⟨'!' :: '-' :: '-' :: m, by rw [← hm]; simp⟩
  · obtain ⟨m, hm⟩ := findSub_suffix h
    exact ⟨'?' :: (m ++ ['?', '>']), by rw [hm]; simp⟩
  · obtain ⟨m, hm⟩ := findSub_suffix h
    exact ⟨'!' :: '[' :: 'C' :: 'D' :: 'A' :: 'T' :: 'A' :: '[' :: (m ++ [']', ']', '>']), by rw [hm]; simp⟩
  · obtain ⟨m, hm⟩ := declRest_suffix h
    exact ⟨'!' :: m, by rw [hm]; simp⟩
  · cases h

/-- **`HTML_TAG_RE`**: a match is a prefix `<…` of the text, what `tagRest` returns is the rest -/
theorem tagRest_spec {s r : List Char} (h : tagRest s = some r) : ∃ mid, s = '<' :: mid ++ r := by
  unfold tagRest at h
  split at h
  · rename_i r' ho
    injection h with h; subst h
    obtain ⟨m, hm, _⟩ := openTagK_spec ho
    exact ⟨m, hm⟩
  · split at h
    · rename_i r' hc
      injection h with h; subst h
      obtain ⟨m, hm, _⟩ := closeTagK_spec hc
      exact ⟨m, hm⟩
    · exact specialRest_spec h

theorem byteLen_lt_one : ('<' : Char).utf8Size = 1 := by decide

/-- **match length of `HTML_TAG_RE`**: positive, at most the length of the text, the byte length of a
    prefix of the text (so its end is a character boundary) that starts with `<` -/
theorem tagMatch_spec {s : List Char} {n : Nat} (h : tagMatch s = some n) :
    0 < n ∧ n ≤ byteLen s ∧ s.head? = some '<' ∧
      ∃ pre rest, s = pre ++ rest ∧ byteLen pre = n ∧ pre.head? = some '<' ∧ tagText s = some pre := by
  unfold tagMatch at h
  split at h
  · rename_i r hr
    injection h with h
    obtain ⟨m, hm⟩ := tagRest_spec hr
    have hb : byteLen s = byteLen ('<' :: m) + byteLen r := by rw [hm, ← byteLen_append]
    have h1 : byteLen ('<' :: m) = 1 + byteLen m := by simp [byteLen, byteLen_lt_one]
    refine ⟨by omega, by omega, by rw [hm]; rfl, '<' :: m, r, hm, by omega, rfl, ?_⟩
    have : s.length - r.length = ('<' :: m).length := by rw [hm]; simp; omega
    simp only [tagText, hr, this]
    rw [hm]
    simp
  · cases h

theorem tagMatch_none {s : List Char} (h : tagRest s = none) : tagMatch s = none ∧ tagText s = none := by
  simp [tagMatch, tagText, h]

/-- the quick test on the second character never rejects a string the pattern matches (so the stream
    may read `HTML_TAG_RE` off the silent rule) -/
theorem tagRest_quick {c : Char} {rest r : List Char} (h : tagRest (c :: rest) = some r) :
    c = '<' ∧ quickSecond rest.head? = true := by
  unfold tagRest at h
  split at h
  · rename_i r' ho
    unfold openTagK at ho
    split at ho
    · rename_i c' t heq
      injection heq with h1 h2
      subst h1 h2
      split at ho
      · rename_i ha
        exact ⟨rfl, by simp [quickSecond, ha]⟩
      · cases ho
    · cases ho
  · split at h
    · rename_i r' hc
      unfold closeTagK at hc
      split at hc
      · rename_i c' t heq
        injection heq with h1 h2
        subst h1 h2
        exact ⟨rfl, by simp [quickSecond]⟩
      · cases hc
    · unfold specialRest at h
      split at h
      all_goals (first | (cases h; done) | skip)
      all_goals (rename_i heq; injection heq with h1 h2; subst h1 h2; exact ⟨rfl, by simp [quickSecond]⟩)

/-! ## the inline rule -/

/-- the shape of every successful run of `HtmlInlineScanner::run` -/
theorem htmlInlineRule_ok {st : IState} {silent : Bool} {o : Option Nat} {st' : IState}
    {nd : Option InlineNode} (h : htmlInlineRule st silent = .ok (o, st', nd)) :
    ∃ c rest, st.window = .ok (c :: rest) ∧
      ((o = none ∧ st' = st ∧ nd = none ∧
          (c ≠ '<' ∨ quickSecond rest.head? = false ∨ tagRest (c :: rest) = none)) ∨
       (∃ r, c = '<' ∧ quickSecond rest.head? = true ∧ tagRest (c :: rest) = some r ∧
          o = some (byteLen (c :: rest) - byteLen r) ∧
          ((silent = true ∧ st' = st ∧ nd = none) ∨
           (silent = false ∧ ∃ ll rg,
              linkLevelStep ((c :: rest).take ((c :: rest).length - r.length)) st.linkLevel = .ok ll ∧
              st.getMap st.pos (st.pos + (byteLen (c :: rest) - byteLen r)) = .ok rg ∧
              st' = { st with linkLevel := ll } ∧
              nd = some ⟨(c :: rest).take ((c :: rest).length - r.length), rg⟩)))) := by
  unfold htmlInlineRule at h
  split at h
  · cases h
  · cases h
  · rename_i c rest hw
    refine ⟨c, rest, hw, ?_⟩
    split at h
    · rename_i hc
      simp only [Except.ok.injEq, Prod.mk.injEq] at h
      obtain ⟨rfl, rfl, rfl⟩ := h
      exact .inl ⟨rfl, rfl, rfl, .inl hc⟩
    · rename_i hc
      have hc' : c = '<' := by simpa using hc
      split at h
      · rename_i hq
        simp only [Except.ok.injEq, Prod.mk.injEq] at h
        obtain ⟨rfl, rfl, rfl⟩ := h
        exact .inl ⟨rfl, rfl, rfl, .inr (.inl (by simpa using hq))⟩
      · rename_i hq
        have hq' : quickSecond rest.head? = true := by simpa using hq
        split at h
        · rename_i hr
          simp only [Except.ok.injEq, Prod.mk.injEq] at h
          obtain ⟨rfl, rfl, rfl⟩ := h
          exact .inl ⟨rfl, rfl, rfl, .inr (.inr hr)⟩
        · rename_i r hr
          refine .inr ⟨r, hc', hq', hr, ?_⟩
          simp only at h
          split at h
          · rename_i hs
            simp only [Except.ok.injEq, Prod.mk.injEq] at h
            obtain ⟨rfl, rfl, rfl⟩ := h
            exact ⟨rfl, .inl ⟨hs, rfl, rfl⟩⟩
          · rename_i hs
            split at h
            · cases h
            · rename_i ll hll
              split at h
              · cases h
              · rename_i rg hrg
                simp only [Except.ok.injEq, Prod.mk.injEq] at h
                obtain ⟨rfl, rfl, rfl⟩ := h
                exact ⟨rfl, .inr ⟨by simpa using hs, ll, rg, hll, hrg, rfl, rfl⟩⟩

theorem linkLevelStep_total (content : List Char) {ll : Int} (h : i32Min < ll ∧ ll < i32Max) :
    ∃ ll', linkLevelStep content ll = .ok ll' := by
  unfold linkLevelStep
  split
  · rw [if_neg (by omega)]; exact ⟨_, rfl⟩
  · split
    · rw [if_neg (by omega)]; exact ⟨_, rfl⟩
    · exact ⟨_, rfl⟩

/-- `link_level` moves by at most one (never out of `i32`), and only for a text of at least three bytes -/
theorem linkLevelStep_spec {content : List Char} {ll ll' : Int} (h : linkLevelStep content ll = .ok ll') :
    ll' = ll ∨ ((ll' = ll + 1 ∧ ll' ≤ i32Max ∨ ll' = ll - 1 ∧ i32Min ≤ ll') ∧ 3 ≤ byteLen content) := by
  unfold linkLevelStep at h
  have pos := Char.utf8Size_pos
  split at h
  · rename_i ho
    split at h
    · cases h
    · injection h with h; subst h
      refine .inr ⟨.inl ⟨rfl, by omega⟩, ?_⟩
      unfold linkOpen at ho
      split at ho
      · rename_i c t; simp only [byteLen]; have := pos '<'; have := pos 'a'; have := pos c; omega
      · cases ho
  · split at h
    · rename_i hc
      split at h
      · cases h
      · injection h with h; subst h
        refine .inr ⟨.inr ⟨rfl, by omega⟩, ?_⟩
        unfold linkClose at hc
        split at hc
        · simp only [byteLen]; have := pos '<'; have := pos 'a'; have := pos '/'; omega
        · cases hc
    · injection h with h; exact .inl h.symm

/-- **C01, inline rule.**  Called as the tokenizer calls it (window non-empty, on character boundaries,
    well-formed table) with `link_level` strictly inside the `i32` range, the rule does not panic,
    and a match advances by at least one byte, stays inside the window and ends on a boundary. -/
theorem inline_rule_progress_html {st : IState} (hi : InlineInv st) (silent : Bool)
    (hll : i32Min < st.linkLevel ∧ st.linkLevel < i32Max) :
    ∃ o st' nd, htmlInlineRule st silent = .ok (o, st', nd) ∧ Advances st o := by
  obtain ⟨pre, w, post, hsrc, hpre, hlen, hw, hne⟩ := Inline.window_ok hi
  have hsl := Inline.window_eq hw
  cases w with
  | nil => exact absurd rfl hne
  | cons c rest =>
    unfold htmlInlineRule
    rw [hw]
    simp only
    split
    · exact ⟨_, _, _, rfl, by intro len hl; simp at hl⟩
    · split
      · exact ⟨_, _, _, rfl, by intro len hl; simp at hl⟩
      · cases hr : tagRest (c :: rest) with
        | none => exact ⟨_, _, _, rfl, by intro len hl; simp at hl⟩
        | some r =>
          simp only
          obtain ⟨m, hm⟩ := tagRest_spec hr
          have hb : byteLen (c :: rest) = byteLen ('<' :: m) + byteLen r := by rw [hm, ← byteLen_append]
          have h1 : byteLen ('<' :: m) = 1 + byteLen m := by simp [byteLen, byteLen_lt_one]
          have hadv : Advances st (some (byteLen (c :: rest) - byteLen r)) := by
            intro len hl
            simp only [Option.some.injEq] at hl; subst hl
            refine ⟨by omega, by omega, ?_⟩
            have : byteLen (c :: rest) - byteLen r = byteLen ('<' :: m) := by omega
            rw [this]
            exact Inline.boundary_in_slice (by rw [← hm]; exact hsl)
          split
          · exact ⟨_, _, _, rfl, hadv⟩
          · obtain ⟨ll', hl'⟩ := linkLevelStep_total
              ((c :: rest).take ((c :: rest).length - r.length)) hll
            rw [hl']
            simp only
            obtain ⟨x, y, hg, _, _⟩ := Inline.getMap_ok (st := st) hi.wf (a := st.pos)
              (b := st.pos + (byteLen (c :: rest) - byteLen r)) (by omega)
            rw [hg]
            exact ⟨_, _, _, rfl, hadv⟩

/-- **C01**: no panic (the statement without the extent) -/
theorem htmlInline_no_panic {st : IState} (hi : InlineInv st) (silent : Bool)
    (hll : i32Min < st.linkLevel ∧ st.linkLevel < i32Max) :
    ∃ res, htmlInlineRule st silent = .ok res := by
  obtain ⟨o, st', nd, h, _⟩ := inline_rule_progress_html hi silent hll
  exact ⟨_, h⟩

/-- under the invariant ALONE the only possible failure is the `i32` overflow of `link_level`, in real
    mode, at an end of the `i32` range -/
theorem htmlInline_only_overflow {st : IState} (hi : InlineInv st) (silent : Bool) {e : IPanic}
    (h : htmlInlineRule st silent = .error e) :
    e = .overflow ∧ silent = false ∧ (st.linkLevel ≤ i32Min ∨ i32Max ≤ st.linkLevel) := by
  obtain ⟨pre, w, post, hsrc, hpre, hlen, hw, hne⟩ := Inline.window_ok hi
  cases w with
  | nil => exact absurd rfl hne
  | cons c rest =>
    unfold htmlInlineRule at h
    rw [hw] at h
    simp only at h
    split at h
    · cases h
    · split at h
      · cases h
      · split at h
        · cases h
        · rename_i r hr
          split at h
          · cases h
          · rename_i hs
            have hsil : silent = false := by simpa using hs
            split at h
            · rename_i e' hl
              injection h with h; subst h
              unfold linkLevelStep at hl
              split at hl
              · split at hl
                · injection hl with hl; exact ⟨hl.symm, hsil, .inr (by omega)⟩
                · cases hl
              · split at hl
                · split at hl
                  · injection hl with hl; exact ⟨hl.symm, hsil, .inl (by omega)⟩
                  · cases hl
                · cases hl
            · obtain ⟨m, hm⟩ := tagRest_spec hr
              have hb : byteLen (c :: rest) = byteLen ('<' :: m) + byteLen r := by
                rw [hm, ← byteLen_append]
              obtain ⟨x, y, hg, _, _⟩ := Inline.getMap_ok (st := st) hi.wf (a := st.pos)
                (b := st.pos + (byteLen (c :: rest) - byteLen r)) (by omega)
              rw [hg] at h
              cases h

/-- **C01, `link_level`.**  One call moves `link_level` by at most one, and only when it consumed at
    least three bytes; the new value is inside `i32`.  Along a run of the tokenizer that starts at
    `link_level = 0` (`InlineState::new`) the html rule therefore keeps `|link_level| ≤ len / 3`:
    the hypothesis of `inline_rule_progress_html` holds for every text shorter than `3 · (2^31 - 1)`
    bytes. -/
theorem htmlInline_link_level {st st' : IState} {silent : Bool} {o : Option Nat} {nd : Option InlineNode}
    (h : htmlInlineRule st silent = .ok (o, st', nd)) :
    st'.linkLevel = st.linkLevel ∨
      ((st'.linkLevel = st.linkLevel + 1 ∧ st'.linkLevel ≤ i32Max ∨
        st'.linkLevel = st.linkLevel - 1 ∧ i32Min ≤ st'.linkLevel) ∧
       silent = false ∧ ∃ n, o = some n ∧ 3 ≤ n) := by
  obtain ⟨c, rest, hw, hcase⟩ := htmlInlineRule_ok h
  rcases hcase with ⟨_, rfl, _, _⟩ | ⟨r, hc, hq, hr, ho, hmode⟩
  · exact .inl rfl
  · rcases hmode with ⟨_, rfl, _⟩ | ⟨hs, ll, rg, hl, hg, rfl, _⟩
    · exact .inl rfl
    · simp only
      obtain ⟨m, hm⟩ := tagRest_spec hr
      have hb : byteLen (c :: rest) = byteLen ('<' :: m) + byteLen r := by rw [hm, ← byteLen_append]
      have htk : (c :: rest).take ((c :: rest).length - r.length) = '<' :: m := by
        have : (c :: rest).length - r.length = ('<' :: m).length := by rw [hm]; simp; omega
        rw [this, hm]; simp
      rw [htk] at hl
      rcases linkLevelStep_spec hl with hsame | ⟨hpm, h3⟩
      · exact .inl hsame
      · exact .inr ⟨hpm, hs, _, ho, by omega⟩

/-- **C16, silent mode is quiet**: no state change, no node -/
theorem html_inline_silent_quiet {st st' : IState} {o : Option Nat} {nd : Option InlineNode}
    (h : htmlInlineRule st true = .ok (o, st', nd)) : st' = st ∧ nd = none := by
  obtain ⟨c, rest, hw, hcase⟩ := htmlInlineRule_ok h
  rcases hcase with ⟨_, h1, h2, _⟩ | ⟨r, _, _, _, _, hmode⟩
  · exact ⟨h1, h2⟩
  · rcases hmode with ⟨_, h1, h2⟩ | ⟨hs, _⟩
    · exact ⟨h1, h2⟩
    · cases hs

/-- **C16, silent ⇒ real**: when silent mode answers `some n`, real mode — unless it panics, which
    `inline_rule_progress_html` excludes — answers `some n` too, pushes a node, and changes nothing
    but `link_level` -/
theorem html_inline_silent_real {st st1 : IState} {n : Nat} {nd1 : Option InlineNode}
    (hs : htmlInlineRule st true = .ok (some n, st1, nd1)) :
    ∀ o st2 nd2, htmlInlineRule st false = .ok (o, st2, nd2) →
      o = some n ∧ st2 = { st with linkLevel := st2.linkLevel } ∧ ∃ node, nd2 = some node := by
  intro o st2 nd2 hr
  obtain ⟨c, rest, hw, hcase⟩ := htmlInlineRule_ok hs
  obtain ⟨c', rest', hw', hcase'⟩ := htmlInlineRule_ok hr
  rw [hw] at hw'
  injection hw' with hw'
  injection hw' with e1 e2
  subst e1 e2
  rcases hcase with ⟨h0, _⟩ | ⟨r, hc, hq, htr, ho, _⟩
  · cases h0
  · rcases hcase' with ⟨_, _, _, hno⟩ | ⟨r', _, _, htr', ho', hmode⟩
    · rcases hno with hno | hno | hno
      · exact absurd hc hno
      · rw [hq] at hno; cases hno
      · rw [htr] at hno; cases hno
    · rw [htr] at htr'
      injection htr' with htr'
      subst htr'
      rcases hmode with ⟨hs', _⟩ | ⟨_, ll, rg, _, _, rfl, rfl⟩
      · cases hs'
      · exact ⟨by rw [ho', ho], rfl, _, rfl⟩

/-- **C16, real ⇒ silent**: the two modes agree on the verdict and the extent -/
theorem html_inline_real_silent {st st2 : IState} {o : Option Nat} {nd2 : Option InlineNode}
    (hr : htmlInlineRule st false = .ok (o, st2, nd2)) : htmlInlineRule st true = .ok (o, st, none) := by
  obtain ⟨c, rest, hw, hcase⟩ := htmlInlineRule_ok hr
  unfold htmlInlineRule
  rw [hw]
  simp only
  rcases hcase with ⟨rfl, _, _, hno⟩ | ⟨r, hc, hq, htr, ho, _⟩
  · rcases hno with hno | hno | hno
    · rw [if_pos hno]
    · split
      · rfl
      · rw [hno]; rfl
    · split
      · rfl
      · split
        · rfl
        · rw [hno]
  · subst hc
    rw [if_neg (by simp), hq, htr, ho]
    simp

/-- **C05, inline node**: the node pushed in real mode carries the matched source text verbatim
    (`src[pos .. pos + n]`), its range is `get_map(pos, pos + n)`, i.e. the two ends translated by
    `get_source_pos_for`, and start ≤ end on every monotone table -/
theorem htmlInline_node {st st2 : IState} {n : Nat} {nd : InlineNode}
    (hr : htmlInlineRule st false = .ok (some n, st2, some nd)) :
    slice st.src st.pos (st.pos + n) = .ok nd.content ∧ byteLen nd.content = n ∧
    nd.content.head? = some '<' ∧
    getSourcePosFor st.srcmap st.pos = .ok nd.range.1 ∧
    getSourcePosFor st.srcmap (st.pos + n) = .ok nd.range.2 ∧
    (WFMap st.srcmap → C05.MonoMapV st.srcmap → nd.range.1 ≤ nd.range.2) := by
  obtain ⟨c, rest, hw, hcase⟩ := htmlInlineRule_ok hr
  rcases hcase with ⟨h0, _⟩ | ⟨r, hc, hq, htr, ho, hmode⟩
  · cases h0
  · rcases hmode with ⟨hs, _⟩ | ⟨_, ll, rg, _, hg, _, hnd⟩
    · cases hs
    · injection ho with ho
      injection hnd with hnd
      obtain ⟨m, hm⟩ := tagRest_spec htr
      have hb : byteLen (c :: rest) = byteLen ('<' :: m) + byteLen r := by rw [hm, ← byteLen_append]
      have htk : (c :: rest).take ((c :: rest).length - r.length) = '<' :: m := by
        have : (c :: rest).length - r.length = ('<' :: m).length := by rw [hm]; simp; omega
        rw [this, hm]; simp
      rw [htk] at hnd
      have hn : n = byteLen ('<' :: m) := by omega
      obtain ⟨p, q, hsrc, hp, hlen⟩ := (C05.slice_ok_iff _ _ _ _).mp (Inline.window_eq hw)
      have hgm : getSourcePosFor st.srcmap st.pos = .ok rg.1 ∧
          getSourcePosFor st.srcmap (st.pos + n) = .ok rg.2 := by
        rw [← ho] at hg
        unfold IState.getMap InlineOps.getMap at hg
        split at hg
        · cases hg
        · split at hg
          · cases hg
          · rename_i a ha
            split at hg
            · cases hg
            · rename_i b hb'
              simp only [Inline.liftOps, Except.ok.injEq] at hg
              subst hg
              exact ⟨ha, hb'⟩
      subst hnd
      simp only
      refine ⟨?_, hn.symm, rfl, hgm.1, hgm.2, ?_⟩
      · apply (C05.slice_ok_iff _ _ _ _).mpr
        exact ⟨p, r ++ q, by rw [hsrc, hm]; simp, hp, by omega⟩
      · intro hwf hmono
        exact C05.translate_mono_all _ hwf hmono _ _ (by omega) _ _ hgm.1 hgm.2

/-! ## the block rule -/

section block
open MdIt.Block (BState BInv TableOk LineOk EndsMono psub)
open MdIt.Lines (LineOffset)

theorem getMap_ok' {s : BState} {a b : Nat} {r : Nat × Nat} (h : s.getMap a b = .ok r) :
    ∃ oa ob, s.offs[a]? = some oa ∧ s.offs[b]? = some ob ∧ r = (oa.firstNonspace, ob.lineEnd) := by
  unfold BState.getMap Lines.getMap at h
  split at h
  · cases h
  · split at h
    · rename_i oa ob ha hb
      simp only [Block.liftL, Except.ok.injEq] at h
      exact ⟨oa, ob, ha, hb, h.symm⟩
    · cases h

/-- the roll-down loop only moves forward and stops at `line_max` at the latest -/
theorem blockScan_bounds (s : BState) (i : Nat) : ∀ (k n m : Nat), s.lineMax - n ≤ k →
    blockScan s i n = .ok m → n ≤ m ∧ (n ≤ s.lineMax → m ≤ s.lineMax) := by
  intro k
  induction k with
  | zero =>
    intro n m hk h
    rw [blockScan, if_neg (by omega)] at h
    injection h with h; subst h
    exact ⟨Nat.le_refl _, fun h => h⟩
  | succ k ih =>
    intro n m hk h
    rw [blockScan] at h
    split at h
    · rename_i hlt
      split at h
      · cases h
      · split at h
        · injection h with h; subst h
          exact ⟨Nat.le_refl _, fun h => h⟩
        · split at h
          · cases h
          · split at h
            · injection h with h; subst h
              exact ⟨by split <;> omega, fun _ => by split <;> omega⟩
            · obtain ⟨h1, h2⟩ := ih (n + 1) m (by omega) h
              exact ⟨by omega, fun _ => h2 (by omega)⟩
    · injection h with h; subst h
      exact ⟨Nat.le_refl _, fun h => h⟩

/-- … and cannot fail on a table that covers `line_max` -/
theorem blockScan_total (s : BState) (i : Nat) (hT : TableOk s) (hlen : s.lineMax ≤ s.offs.length) :
    ∀ (k n : Nat), s.lineMax - n ≤ k → ∃ m, blockScan s i n = .ok m := by
  intro k
  induction k with
  | zero =>
    intro n hk
    rw [blockScan, if_neg (by omega)]
    exact ⟨_, rfl⟩
  | succ k ih =>
    intro n hk
    rw [blockScan]
    split
    · rename_i hlt
      obtain ⟨ind, hind⟩ := Block.lineIndent_total (s := s) (i := n) (by omega)
      obtain ⟨t, ht⟩ := Block.getLine_total hT (i := n) (by omega)
      rw [hind]
      simp only
      split
      · exact ⟨_, rfl⟩
      · rw [ht]
        simp only
        split
        · exact ⟨_, rfl⟩
        · exact ih (n + 1) (by omega)
    · exact ⟨_, rfl⟩

/-- the shape of every successful run of `HtmlBlockScanner::run` -/
theorem htmlBlockRule_ok {s : BState} {silent : Bool} {b : Bool} {s' : BState} {nd : Option BlockNode}
    (h : htmlBlockRule s silent = .ok (b, s', nd)) :
    (b = false ∧ s' = s ∧ nd = none ∧
      ((∃ ind, s.lineIndent s.line = .ok ind ∧ ind ≥ 4) ∨
       (∃ lt, s.getLine s.line = .ok lt ∧ (lt.head? ≠ some '<' ∨ openSeq lt = none)))) ∨
    (∃ ind lt i, s.lineIndent s.line = .ok ind ∧ ind < 4 ∧ s.getLine s.line = .ok lt ∧
      lt.head? = some '<' ∧ openSeq lt = some i ∧
      ((silent = true ∧ b = canTerminate i ∧ s' = s ∧ nd = none) ∨
       (silent = false ∧ b = true ∧ ∃ nextLine content mp e1 r,
          (if closeMatch i lt then .ok (s.line + 1) else blockScan s i (s.line + 1)) = .ok nextLine ∧
          s' = { s with line := nextLine } ∧
          s'.getLines s.line nextLine s.blkIndent true = .ok (content, mp) ∧
          psub nextLine 1 = .ok e1 ∧ s'.getMap s.line e1 = .ok r ∧ nd = some ⟨content, r⟩))) := by
  unfold htmlBlockRule at h
  split at h
  · cases h
  · rename_i ind hind
    split at h
    · rename_i h4
      simp only [Except.ok.injEq, Prod.mk.injEq] at h
      obtain ⟨rfl, rfl, rfl⟩ := h
      exact .inl ⟨rfl, rfl, rfl, .inl ⟨ind, hind, h4⟩⟩
    · rename_i h4
      split at h
      · cases h
      · rename_i lt hlt
        split at h
        · rename_i hh
          simp only [Except.ok.injEq, Prod.mk.injEq] at h
          obtain ⟨rfl, rfl, rfl⟩ := h
          exact .inl ⟨rfl, rfl, rfl, .inr ⟨lt, hlt, .inl hh⟩⟩
        · rename_i hh
          have hh' : lt.head? = some '<' := Classical.not_not.mp hh
          split at h
          · rename_i ho
            simp only [Except.ok.injEq, Prod.mk.injEq] at h
            obtain ⟨rfl, rfl, rfl⟩ := h
            exact .inl ⟨rfl, rfl, rfl, .inr ⟨lt, hlt, .inr ho⟩⟩
          · rename_i i ho
            refine .inr ⟨ind, lt, i, hind, by omega, hlt, hh', ho, ?_⟩
            split at h
            · rename_i hs
              simp only [Except.ok.injEq, Prod.mk.injEq] at h
              obtain ⟨rfl, rfl, rfl⟩ := h
              exact .inl ⟨hs, rfl, rfl, rfl⟩
            · rename_i hs
              simp only at h
              split at h
              · cases h
              · rename_i nextLine hscan
                split at h
                · cases h
                · rename_i content mp hgl
                  split at h
                  · cases h
                  · rename_i e1 he1
                    split at h
                    · cases h
                    · rename_i r hr
                      simp only [Except.ok.injEq, Prod.mk.injEq] at h
                      obtain ⟨rfl, rfl, rfl⟩ := h
                      exact .inr ⟨by simpa using hs, rfl, nextLine, content, mp, e1, r, hscan, rfl, hgl,
                        he1, hr, rfl⟩

/-- **C01, block rule.**  On an existing line of a state that satisfies the block invariant the rule
    is total in both modes (no fuel is involved: the roll-down loop is bounded by `line_max`). -/
theorem htmlBlock_no_panic {s : BState} (hI : BInv s) (hl : s.line < s.lineMax) (silent : Bool) :
    ∃ b s' nd, htmlBlockRule s silent = .ok (b, s', nd) := by
  have hlen := hI.lineMax
  obtain ⟨ind, hind⟩ := Block.lineIndent_total (s := s) (i := s.line) (by omega)
  obtain ⟨lt, hlt⟩ := Block.getLine_total hI.table (i := s.line) (by omega)
  unfold htmlBlockRule
  rw [hind]
  simp only
  split
  · exact ⟨_, _, _, rfl⟩
  · rw [hlt]
    simp only
    split
    · exact ⟨_, _, _, rfl⟩
    · split
      · exact ⟨_, _, _, rfl⟩
      · rename_i i ho
        split
        · exact ⟨_, _, _, rfl⟩
        · have hscan : ∃ nl, (if closeMatch i lt then (.ok (s.line + 1) : Except Block.Panic Nat)
              else blockScan s i (s.line + 1)) = .ok nl ∧ s.line + 1 ≤ nl ∧ nl ≤ s.lineMax := by
            split
            · exact ⟨_, rfl, Nat.le_refl _, by omega⟩
            · obtain ⟨m, hm⟩ := blockScan_total s i hI.table hlen _ (s.line + 1) (Nat.le_refl _)
              obtain ⟨h1, h2⟩ := blockScan_bounds s i _ _ _ (Nat.le_refl _) hm
              exact ⟨m, hm, h1, h2 (by omega)⟩
          obtain ⟨nl, hnl, h1, h2⟩ := hscan
          rw [hnl]
          simp only
          obtain ⟨⟨content, mp⟩, hgl⟩ := Block.getLines_total (s := { s with line := nl }) (b := s.line)
            (e := nl) (ind := s.blkIndent) (keep := true) hI.table (by omega) (by show nl ≤ s.offs.length; omega)
          rw [hgl]
          simp only
          obtain ⟨e1, he1⟩ := Block.psub_total (a := nl) (b := 1) (by omega)
          rw [he1]
          simp only
          obtain ⟨_, rfl⟩ := Block.psub_ok he1
          obtain ⟨r, hr⟩ := Block.getMap_total (s := { s with line := nl }) (a := s.line) (b := nl - 1)
            (by omega) (by show nl - 1 < s.offs.length; omega)
          rw [hr]
          exact ⟨_, _, _, rfl⟩

/-- **C01, progress** (the tokenizer's `assert!(state.line > prev_line)`): a successful real run moves
    `line` forward, not beyond `line_max`, changes nothing else, and pushes exactly one node -/
theorem block_rule_progress_html {s s' : BState} {nd : Option BlockNode}
    (h : htmlBlockRule s false = .ok (true, s', nd)) :
    s.line < s'.line ∧ (s.line < s.lineMax → s'.line ≤ s.lineMax) ∧ s' = { s with line := s'.line } ∧
      ∃ node, nd = some node := by
  rcases htmlBlockRule_ok h with ⟨h0, _⟩ | ⟨ind, lt, i, _, _, _, _, _, hmode⟩
  · cases h0
  · rcases hmode with ⟨hs, _⟩ | ⟨_, _, nl, content, mp, e1, r, hscan, rfl, _, _, _, rfl⟩
    · cases hs
    · refine ⟨?_, ?_, rfl, _, rfl⟩
      · split at hscan
        · injection hscan with hscan; subst hscan; simp
        · have := (blockScan_bounds s i _ _ _ (Nat.le_refl _) hscan).1
          simp only; omega
      · intro hl
        split at hscan
        · injection hscan with hscan; subst hscan; simp only; omega
        · exact (blockScan_bounds s i _ _ _ (Nat.le_refl _) hscan).2 (by omega)

/-- **C16, silent mode is quiet** -/
theorem html_block_silent_quiet {s s' : BState} {b : Bool} {nd : Option BlockNode}
    (h : htmlBlockRule s true = .ok (b, s', nd)) : s' = s ∧ nd = none := by
  rcases htmlBlockRule_ok h with ⟨_, h1, h2, _⟩ | ⟨ind, lt, i, _, _, _, _, _, hmode⟩
  · exact ⟨h1, h2⟩
  · rcases hmode with ⟨_, _, h1, h2⟩ | ⟨hs, _⟩
    · exact ⟨h1, h2⟩
    · cases hs

/-- **C16, silent ⇒ real**: a line silent mode accepts (as the terminator of a paragraph) is accepted
    in real mode — which cannot panic under `BInv` (`htmlBlock_no_panic`) -/
theorem html_block_silent_real {s s1 : BState} {nd1 : Option BlockNode}
    (hs : htmlBlockRule s true = .ok (true, s1, nd1)) :
    ∀ b s2 nd2, htmlBlockRule s false = .ok (b, s2, nd2) → b = true := by
  intro b s2 nd2 hr
  rcases htmlBlockRule_ok hs with ⟨h0, _⟩ | ⟨ind, lt, i, hind, h4, hlt, hh, ho, _⟩
  · cases h0
  · rcases htmlBlockRule_ok hr with ⟨_, _, _, hwhy⟩ | ⟨_, _, _, _, _, _, _, _, hmode⟩
    · rcases hwhy with ⟨ind', hind', h4'⟩ | ⟨lt', hlt', hno⟩
      · rw [hind] at hind'; injection hind' with e; subst e; omega
      · rw [hlt] at hlt'; injection hlt' with e; subst e
        rcases hno with hno | hno
        · exact absurd hh hno
        · rw [ho] at hno; cases hno
    · rcases hmode with ⟨hs', _⟩ | ⟨_, hb, _⟩
      · cases hs'
      · exact hb

/-- **C16, real ⇒ silent**: the silent verdict is the real one, except for the seventh sequence (a
    complete open or close tag alone on its line), which opens a block but cannot interrupt a
    paragraph -/
theorem html_block_real_silent {s s2 : BState} {b : Bool} {nd2 : Option BlockNode}
    (hr : htmlBlockRule s false = .ok (b, s2, nd2)) :
    ∃ b1, htmlBlockRule s true = .ok (b1, s, none) ∧ (b1 = true → b = true) ∧
      (b = true → b1 = false → ∃ lt, s.getLine s.line = .ok lt ∧ openSeq lt = some 6) := by
  rcases htmlBlockRule_ok hr with ⟨rfl, _, _, hwhy⟩ | ⟨ind, lt, i, hind, h4, hlt, hh, ho, hmode⟩
  · refine ⟨false, ?_, by simp, by simp⟩
    unfold htmlBlockRule
    rcases hwhy with ⟨ind, hind, h4⟩ | ⟨lt, hlt, hno⟩
    · rw [hind]; simp only; rw [if_pos h4]
    · split
      · rename_i e he
        unfold BState.getLine Lines.getLine at hlt
        unfold BState.lineIndent Lines.lineIndent at he
        split at he
        · rename_i hnone; rw [hnone] at hlt; cases hlt
        · cases he
      · split
        · rfl
        · rw [hlt]
          simp only
          rcases hno with hno | hno
          · rw [if_pos hno]
          · split
            · rfl
            · rw [hno]
  · rcases hmode with ⟨hs, _⟩ | ⟨_, rfl, _⟩
    · cases hs
    · refine ⟨canTerminate i, ?_, fun _ => rfl, ?_⟩
      · unfold htmlBlockRule
        rw [hind]; simp only
        rw [if_neg (by omega), hlt]; simp only
        rw [if_neg (by simp [hh]), ho]
        simp
      · intro _ hc
        refine ⟨lt, hlt, ?_⟩
        have : i = 6 := by simpa [canTerminate] using hc
        rw [ho, this]

/-- **C05, block node**: content = `get_lines(line, line', blk_indent, true)`, range =
    `get_map(line, line' - 1)` = (`first_nonspace` of the first line, `line_end` of the last one);
    under the invariant start ≤ end ≤ |src| -/
theorem htmlBlock_node {s s' : BState} {node : BlockNode}
    (h : htmlBlockRule s false = .ok (true, s', some node)) :
    (∃ mp, s'.getLines s.line s'.line s.blkIndent true = .ok (node.content, mp)) ∧
    (∃ o1 o2, s.offs[s.line]? = some o1 ∧ s.offs[s'.line - 1]? = some o2 ∧
        node.range = (o1.firstNonspace, o2.lineEnd)) ∧
    (BInv s → node.range.1 ≤ node.range.2 ∧ node.range.2 ≤ Lines.byteLen s.src) := by
  have hprog := block_rule_progress_html h
  rcases htmlBlockRule_ok h with ⟨h0, _⟩ | ⟨ind, lt, i, _, _, _, _, _, hmode⟩
  · cases h0
  · rcases hmode with ⟨hs, _⟩ | ⟨_, _, nl, content, mp, e1, r, hscan, rfl, hgl, he1, hr, hnd⟩
    · cases hs
    · injection hnd with hnd
      subst hnd
      obtain ⟨_, rfl⟩ := Block.psub_ok he1
      obtain ⟨o1, o2, h1, h2, hrg⟩ := getMap_ok' hr
      simp only at h1 h2 hprog ⊢
      refine ⟨⟨mp, hgl⟩, ⟨o1, o2, h1, h2, hrg⟩, ?_⟩
      intro hI
      subst hrg
      simp only
      have hl1 := hI.table _ _ h1
      have hl2 := hI.table _ _ h2
      have hm := hI.mono s.line (nl - 1) o1 o2 (by omega) h1 h2
      have ho := hl1.order
      refine ⟨by omega, ?_⟩
      obtain ⟨p, a, b', q, hsrc, hp, hf, he, _⟩ := hl2
      rw [hsrc]
      simp only [Lines.byteLen_append]
      omega

/-- the roll-down loop reads the state only through `line_max`, `line_indent` and `get_line` -/
theorem blockScan_congr {s t : BState} (hmax : s.lineMax = t.lineMax)
    (hi : ∀ n, s.lineIndent n = t.lineIndent n) (hg : ∀ n, s.getLine n = t.getLine n) (i : Nat) :
    ∀ (k n : Nat), s.lineMax - n ≤ k → blockScan s i n = blockScan t i n := by
  intro k
  induction k with
  | zero =>
    intro n hk
    unfold blockScan
    rw [if_neg (by omega), if_neg (by omega)]
  | succ k ih =>
    intro n hk
    unfold blockScan
    rw [hi n, hg n, ← hmax]
    split
    · split
      · rfl
      · split
        · rfl
        · split
          · rfl
          · split
            · rfl
            · exact ih (n + 1) (by omega)
    · rfl

/-- **C10-flavoured: the rule looks at the source through the line table only.**  Two states that
    agree on `line`, `line_max` and on the answers of `line_indent` / `get_line` (which never contain a
    line terminator: the matchers are applied to `get_line` texts, nothing else) get the same silent
    verdict, and in real mode the same verdict and the same consumed extent.  (The node content and
    range are `get_lines` / `get_map` of that extent: `htmlBlock_node`.) -/
theorem htmlBlock_line_views {s t : BState} (hline : s.line = t.line) (hmax : s.lineMax = t.lineMax)
    (hi : ∀ n, s.lineIndent n = t.lineIndent n) (hg : ∀ n, s.getLine n = t.getLine n)
    {silent : Bool} {b b' : Bool} {s' t' : BState} {nd nd' : Option BlockNode}
    (hs : htmlBlockRule s silent = .ok (b, s', nd)) (ht : htmlBlockRule t silent = .ok (b', t', nd')) :
    b = b' ∧ s'.line = t'.line := by
  have hi0 : s.lineIndent s.line = t.lineIndent t.line := by rw [hi, hline]
  have hg0 : s.getLine s.line = t.getLine t.line := by rw [hg, hline]
  rcases htmlBlockRule_ok hs with ⟨rfl, rfl, _, hwhy⟩ | ⟨ind, lt, i, hind, h4, hlt, hh, ho, hmode⟩
  · rcases htmlBlockRule_ok ht with ⟨rfl, rfl, _, _⟩ | ⟨ind', lt', i', hind', h4', hlt', hh', ho', _⟩
    · exact ⟨rfl, hline⟩
    · exfalso
      rcases hwhy with ⟨ind, hind, h4⟩ | ⟨lt, hlt, hno⟩
      · rw [hi0, hind'] at hind; injection hind with e; omega
      · rw [hg0, hlt'] at hlt; injection hlt with e; subst e
        rcases hno with hno | hno
        · exact hno hh'
        · rw [ho'] at hno; cases hno
  · rcases htmlBlockRule_ok ht with ⟨rfl, rfl, _, hwhy⟩ | ⟨ind', lt', i', hind', h4', hlt', hh', ho', hmode'⟩
    · exfalso
      rcases hwhy with ⟨ind', hind', h4'⟩ | ⟨lt', hlt', hno⟩
      · rw [hi0, hind'] at hind; injection hind with e; omega
      · rw [hg0, hlt'] at hlt; injection hlt with e; subst e
        rcases hno with hno | hno
        · exact hno hh
        · rw [ho] at hno; cases hno
    · rw [hg0, hlt'] at hlt; injection hlt with e; subst e
      rw [ho'] at ho; injection ho with e; subst e
      rcases hmode with ⟨hsil, rfl, rfl, _⟩ | ⟨hsil, rfl, nl, _, _, _, _, hscan, rfl, _⟩
      · rcases hmode' with ⟨_, rfl, rfl, _⟩ | ⟨hsil', _⟩
        · exact ⟨rfl, hline⟩
        · rw [hsil] at hsil'; cases hsil'
      · rcases hmode' with ⟨hsil', _⟩ | ⟨_, rfl, nl', _, _, _, _, hscan', rfl, _⟩
        · rw [hsil] at hsil'; cases hsil'
        · refine ⟨rfl, ?_⟩
          simp only
          rw [blockScan_congr hmax hi hg i' _ _ (Nat.le_refl _), hline] at hscan
          rw [hscan] at hscan'
          injection hscan'

end block

/-! ## instances (non-vacuity, and the hypotheses are needed) -/

section examples
open MdIt.Block (BState)

-- the pattern alternatives, incl. the degenerate comments
example : tagMatch "<a href='x' b=\"y\" c=d e>rest".toList = some 24 := by decide +kernel
example : tagMatch "</a >x".toList = some 5 := by decide +kernel
example : tagMatch "<!---->x".toList = some 7 ∧ tagMatch "<!-->".toList = none ∧ tagMatch "<!--->".toList = none ∧
    tagMatch "<!--a--b-->".toList = none ∧ tagMatch "<!--a-b-->".toList = some 10 := by decide +kernel
example : tagMatch "<?php ?>x".toList = some 8 ∧ tagMatch "<!DOCTYPE html>x".toList = some 15 ∧
    tagMatch "<![CDATA[ a ]] ]]>x".toList = some 18 := by decide +kernel
-- backtracking is needed: U+00A0 is white space AND an unquoted-value character.  The greedy value
-- `x y` is followed by `=`, so the engine gives the white space back and reads a second attribute
-- `y='>'` (the crate answers 14 as well: stream `html`)
example : tagMatch "<a b=x y='>'>z".toList = some 14 := by decide +kernel
example : tagMatch "<a b= >".toList = some 8 := by decide +kernel
-- `(?i)` is Unicode simple case folding: U+017F matches `s`, U+212A matches `k`
example : openSeq "<ſcript>".toList = some 0 ∧ openSeq "<blocKquote".toList = some 5 ∧
    closeMatch 0 "x</ſTYLE>".toList = true := by decide +kernel
example : openSeq "<a>  ".toList = some 6 ∧ openSeq "<a> x".toList = none ∧ openSeq "<pre".toList = some 0 ∧
    openSeq "<p".toList = some 5 ∧ openSeq "<!x".toList = none ∧ openSeq "<!X".toList = some 3 := by decide +kernel

/-- `InlineState::new(src, [(0, 0)])` with `link_level` overwritten (the texts below have no outer blanks) -/
def exI (src : String) (ll : Int) : IState := { IState.init src.toList [(0, 0)] with linkLevel := ll }

def iview : IRes → Except IPanic (Option Nat × Nat × Int × Option InlineNode)
  | .ok (o, st, nd) => .ok (o, st.pos, st.linkLevel, nd)
  | .error e => .error e

def exLink : String := "<a href='x'>t</a>"

theorem exI_inv : InlineInv (exI exLink 0) := by
  refine ⟨by decide +kernel, ⟨[], exLink.toList, rfl, by decide +kernel⟩,
    ⟨exLink.toList, [], by decide +kernel, by decide +kernel⟩, ⟨⟨0, [], rfl⟩, by decide +kernel⟩⟩

-- `inline_rule_progress_html`, `html_inline_silent_real`, `htmlInline_node`, `htmlInline_link_level`:
-- the opening tag in both modes (`link_level` 0 ↦ 1) …
example : iview (htmlInlineRule (exI exLink 0) true) = .ok (some 12, 0, 0, none) ∧
    iview (htmlInlineRule (exI exLink 0) false) = .ok (some 12, 0, 1, some ⟨"<a href='x'>".toList, (0, 12)⟩) := by
  decide +kernel
-- … and the closing one (1 ↦ 0)
example : iview (htmlInlineRule { exI exLink 1 with pos := 13 } false)
    = .ok (some 4, 13, 0, some ⟨"</a>".toList, (13, 17)⟩) := by decide +kernel
-- the hypothesis on `link_level` is needed (the crate panics in the same way in a build with overflow
-- checks: stream `html`, counter `inl:panic-overflow`) …
example : iview (htmlInlineRule (exI "<a>" 2147483647) false) = .error .overflow ∧
    iview (htmlInlineRule (exI "</a>" (-2147483648)) false) = .error .overflow := by decide +kernel
-- … but only in real mode, and only for the two link forms
example : iview (htmlInlineRule (exI "<a>" 2147483647) true) = .ok (some 3, 0, 2147483647, none) ∧
    iview (htmlInlineRule (exI "<b>" 2147483647) false) = .ok (some 3, 0, 2147483647, some ⟨"<b>".toList, (0, 3)⟩) := by
  decide +kernel
-- `InlineInv` is needed: an empty window is `chars.next().unwrap()` on `None`, a window that starts
-- inside a character is a slice panic
example : iview (htmlInlineRule { exI "<a>" 0 with pos := 3 } true) = .error (.rust .unwrap) ∧
    iview (htmlInlineRule { exI "é<a>" 0 with pos := 1 } true) = .error (.rust .slice) := by decide +kernel

def bview : BRes → Except Block.Panic (Bool × Nat × Option BlockNode)
  | .ok (b, s, nd) => .ok (b, s.line, nd)
  | .error e => .error e

def exB (src : String) : BState := BState.fresh src.toList .root []

example (src : String) : Block.BInv (exB src) := Block.bInv_fresh _ _ _

-- `htmlBlock_no_panic`, `block_rule_progress_html`, `htmlBlock_node`: sequence 6 (`<div`) ends at the
-- blank line, which is not consumed
example : bview (htmlBlockRule (exB "<div>\nfoo\n\nbar") true) = .ok (true, 0, none) ∧
    bview (htmlBlockRule (exB "<div>\nfoo\n\nbar") false) = .ok (true, 2, some ⟨"<div>\nfoo\n".toList, (0, 9)⟩) := by
  decide +kernel
-- a comment ends with the line that holds `-->` (consumed), CR LF line ends, unclosed: runs to the end
example : bview (htmlBlockRule (exB "  <!-- x\r\nfoo -->z\r\nbar") false)
      = .ok (true, 2, some ⟨"  <!-- x\nfoo -->z\n".toList, (2, 18)⟩) ∧
    bview (htmlBlockRule (exB "<?php\nfoo") false) = .ok (true, 2, some ⟨"<?php\nfoo\n".toList, (0, 9)⟩) := by
  decide +kernel
-- `html_block_real_silent`: the seventh sequence opens a block but does not interrupt a paragraph
example : bview (htmlBlockRule (exB "<a>\nfoo") true) = .ok (false, 0, none) ∧
    bview (htmlBlockRule (exB "<a>\nfoo") false) = .ok (true, 2, some ⟨"<a>\nfoo\n".toList, (0, 7)⟩) := by
  decide +kernel
-- the roll-down stops in front of a line that is indented less than the block (`line_indent < 0`)
example : bview (htmlBlockRule { exB "  <pre>\n x\ny" with blkIndent := 2 } false)
    = .ok (true, 1, some ⟨"<pre>\n".toList, (2, 7)⟩) := by decide +kernel
-- the hypothesis `line < line_max ≤ #lines` is needed: `line_offsets[line]` out of bounds
example : bview (htmlBlockRule { exB "<div>" with line := 1 } true) = .error .index ∧
    bview (htmlBlockRule { exB "<div>" with lineMax := 2 } false) = .error .index := by decide +kernel

end examples

end MdIt.Html
