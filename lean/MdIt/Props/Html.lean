/-
  Properties of the two raw-HTML rules (`MdIt/Model/Html.lean`).

  Matchers
    * `tagRest_spec`, `tagMatch_spec` : a match of `HTML_TAG_RE` is a non-empty PREFIX of the text that
      starts with `<`; its length is positive, at most the length of the text, and the length of
      that prefix (so its end is a character boundary); `tagText` is that prefix.
  Inline rule (`HtmlInlineScanner::run`)
    * `htmlInline_no_panic` (C01)       : under `InlineInv` and `i32Min < link_level < i32Max` no panic;
    * `inline_rule_progress_html` (C01) : … and `some n ⇒ 1 ≤ n`, `pos + n ≤ posMax`, `pos + n` a boundary;
    * `htmlInline_link_level` (C01)     : `link_level` moves by at most one per call, and only on a
                                          match of at least three bytes (hence `|link_level| ≤ len / 3`
                                          along any run: the `i32` cannot overflow below 6 GiB of text);
    * `htmlInline_overflow_iff`         : the ONLY panic under `InlineInv` is that overflow, and it
                                          does fire at the ends of the `i32` range (witnesses);
    * `html_inline_silent_quiet`, `html_inline_silent_real`, `html_inline_real_silent` (C16);
    * `htmlInline_node` (C05)           : the pushed node carries the matched source text verbatim and
                                          the range `get_map(pos, pos + n)`, start ≤ end.
  Block rule (`HtmlBlockScanner::run`)
    * `htmlBlock_no_panic` (C01)        : under `BInv` on an existing line: total, both modes;
    * `block_rule_progress_html` (C01)  : real success ⇒ `line < line' ≤ lineMax`, nothing else changes;
    * `html_block_silent_quiet`, `html_block_silent_real`, `html_block_real_silent` (C16);
    * `htmlBlock_node` (C05)            : content = `get_lines(line, line', blk_indent, true)`, range =
                                          `get_map(line, line' - 1)` = (first_nonspace of the first line,
                                          line_end of the last), start ≤ end ≤ |src|;
    * `htmlBlock_line_views` (C10)      : the rule reads the source only through the line table
                                          (`get_line` / `line_indent` / `get_lines` / `get_map`): two states
                                          with the same answers to those give the same result.
-/
import MdIt.Model.Html
import MdIt.Lemmas.BlockTotalLeaf
import MdIt.Lemmas.InlineRules2

namespace MdIt.Html
open MdIt.InlineOps (byteLen slice getSourcePosFor)
open MdIt.C05 (byteLen_append WFMap)
open MdIt.Inline (IState InlineInv Boundary Advances)

/-! ## matchers: what is left is a suffix -/

theorem stripPrefix_eq {pat s r : List Char} (h : stripPrefix pat s = some r) : s = pat ++ r := by
  induction pat generalizing s with
  | nil => simp [stripPrefix] at h; simp [h]
  | cons p ps ih =>
    cases s with
    | nil => simp [stripPrefix] at h
    | cons c t =>
      simp only [stripPrefix] at h
      split at h
      · rename_i hc; subst hc; rw [ih h]; rfl
      · cases h

theorem findSub_suffix {pat s r : List Char} (h : findSub pat s = some r) : ∃ pre, s = pre ++ pat ++ r := by
  induction s with
  | nil =>
    simp only [findSub] at h
    exact ⟨[], by simpa using stripPrefix_eq h⟩
  | cons c t ih =>
    simp only [findSub] at h
    split at h
    · rename_i rest hs
      injection h with h; subst h
      exact ⟨[], by simpa using stripPrefix_eq hs⟩
    · obtain ⟨pre, hp⟩ := ih h
      exact ⟨c :: pre, by rw [hp]; simp⟩

theorem mem_splits_suffix {p : Char → Bool} {s r : List Char} (h : r ∈ splits p s) : r <:+ s := by
  induction s with
  | nil => simp [splits] at h; subst h; exact List.suffix_refl _
  | cons c t ih =>
    simp only [splits] at h
    split at h
    · simp only [List.mem_append, List.mem_singleton] at h
      rcases h with h | h
      · exact (ih h).trans (List.suffix_cons _ _)
      · subst h; exact List.suffix_refl _
    · simp at h; subst h; exact List.suffix_refl _

theorem mem_quotedEnd_suffix {q : Char} {t r : List Char} (h : r ∈ quotedEnd q t) : r <:+ t := by
  unfold quotedEnd at h
  split at h
  · rename_i x r' hd
    simp at h; subst h
    have := List.dropWhile_suffix (l := t) (fun x => x != q)
    rw [hd] at this
    exact (List.suffix_cons _ _).trans this
  · simp at h

theorem mem_valueAt_suffix {s r : List Char} (h : r ∈ valueAt s) : r <:+ s := by
  cases s with
  | nil => simp [valueAt] at h
  | cons c t =>
    simp only [valueAt] at h
    split at h
    · exact (mem_splits_suffix h).trans (List.suffix_cons _ _)
    · split at h
      · exact (mem_quotedEnd_suffix h).trans (List.suffix_cons _ _)
      · split at h
        · exact (mem_quotedEnd_suffix h).trans (List.suffix_cons _ _)
        · simp at h

theorem mem_valueEnds_suffix {s r : List Char} (h : r ∈ valueEnds s) : r <:+ s := by
  unfold valueEnds at h
  split at h
  · rename_i c t hd
    split at h
    · simp only [List.mem_flatMap] at h
      obtain ⟨m, hm, hr⟩ := h
      have h3 := List.dropWhile_suffix (l := s) isWs
      rw [hd] at h3
      exact (mem_valueAt_suffix hr).trans ((mem_splits_suffix hm).trans ((List.suffix_cons _ _).trans h3))
    · simp at h
  · simp at h

theorem attrHead_suffix {s r : List Char} (h : attrHead s = some r) : r <:+ s := by
  cases s with
  | nil => simp [attrHead] at h
  | cons w t =>
    simp only [attrHead] at h
    split at h
    · split at h
      · rename_i c r' hd
        split at h
        · injection h with h; subst h
          have h2 := List.dropWhile_suffix (l := t) isWs
          rw [hd] at h2
          exact (List.dropWhile_suffix _).trans ((List.suffix_cons _ _).trans (h2.trans (List.suffix_cons _ _)))
        · cases h
      · cases h
    · cases h

/-- `closeK` consumed `\s*/?>`: a proper suffix, and the continuation accepted it -/
theorem closeK_spec {k : List Char → Bool} {s r : List Char} (h : closeK k s = some r) :
    r <:+ s ∧ r.length < s.length ∧ k r = true := by
  unfold closeK at h
  have hd := List.dropWhile_suffix (l := s) isWs
  have hl := length_dropWhile_le isWs s
  split at h
  · rename_i r' he
    split at h
    · injection h with h; subst h
      rw [he] at hd hl
      exact ⟨(List.suffix_cons _ _).trans hd, by simp at hl; omega, by assumption⟩
    · cases h
  · rename_i r' he
    split at h
    · injection h with h; subst h
      rw [he] at hd hl
      exact ⟨(List.suffix_cons _ _).trans ((List.suffix_cons _ _).trans hd), by simp at hl; omega, by assumption⟩
    · cases h
  · cases h

theorem attrsK_spec (k : List Char → Bool) : ∀ (n : Nat) (s r : List Char), s.length ≤ n →
    attrsK k s = some r → r <:+ s ∧ r.length < s.length ∧ k r = true := by
  intro n
  induction n with
  | zero =>
    intro s r hn h
    have : s = [] := List.length_eq_zero_iff.mp (by omega)
    subst this
    rw [attrsK] at h
    simp only [attrHead] at h
    exact closeK_spec h
  | succ n ih =>
    intro s r hn h
    rw [attrsK] at h
    simp only at h
    split at h
    · rename_i r0 hv
      injection h with h; subst h
      split at hv
      · cases hv
      · rename_i s2 hs2
        have hs2s := attrHead_suffix hs2
        have hs2l := attrHead_lt hs2
        split at hv
        · rename_i r1 hf
          injection hv with hv; subst hv
          obtain ⟨⟨x, hx⟩, _, hfx⟩ := List.exists_of_findSome?_eq_some hf
          have hxl := mem_valueEnds_lt hx
          obtain ⟨a, b, c⟩ := ih x _ (by omega) hfx
          exact ⟨a.trans ((mem_valueEnds_suffix hx).trans hs2s), by omega, c⟩
        · obtain ⟨a, b, c⟩ := ih s2 _ (by omega) hv
          exact ⟨a.trans hs2s, by omega, c⟩
    · exact closeK_spec h

/-- a match of `open_tag` followed by `k`: `<`, at least one more character, then what is left -/
theorem openTagK_spec {k : List Char → Bool} {s r : List Char} (h : openTagK k s = some r) :
    ∃ mid, s = '<' :: mid ++ r ∧ k r = true := by
  unfold openTagK at h
  split at h
  · rename_i c t
    split at h
    · obtain ⟨a, b, c'⟩ := attrsK_spec k _ _ _ (Nat.le_refl _) h
      obtain ⟨m1, hm1⟩ := a
      obtain ⟨m2, hm2⟩ := List.dropWhile_suffix (l := t) isTagChar
      exact ⟨c :: (m2 ++ m1), by rw [← hm2, ← hm1]; simp, c'⟩
    · cases h
  · cases h

theorem closeTagK_spec {k : List Char → Bool} {s r : List Char} (h : closeTagK k s = some r) :
    ∃ mid, s = '<' :: mid ++ r ∧ k r = true := by
  unfold closeTagK at h
  split at h
  · rename_i c t
    split at h
    · split at h
      · rename_i r' he
        split at h
        · injection h with h; subst h
          obtain ⟨m1, hm1⟩ := List.dropWhile_suffix (l := t.dropWhile isTagChar) isWs
          obtain ⟨m2, hm2⟩ := List.dropWhile_suffix (l := t) isTagChar
          rw [he] at hm1
          exact ⟨'/' :: c :: (m2 ++ m1 ++ ['>']), by rw [← hm2, ← hm1]; simp, by assumption⟩
        · cases h
      · cases h
    · cases h
  · cases h

theorem commentBody_suffix : ∀ (n : Nat) (s r : List Char), s.length ≤ n → commentBody s = some r →
    r <:+ s := by
  intro n
  induction n with
  | zero =>
    intro s r hn h
    have : s = [] := List.length_eq_zero_iff.mp (by omega)
    subst this; simp [commentBody] at h
  | succ n ih =>
    intro s r hn h
    cases s with
    | nil => simp [commentBody] at h
    | cons c t =>
      rw [commentBody.eq_def] at h; simp only at h
      split at h
      · split at h
        · cases h
        · rename_i d r'
          split at h
          · split at h
            · injection h with h; subst h
              exact (List.suffix_cons _ _).trans ((List.suffix_cons _ _).trans (List.suffix_cons _ _))
            · cases h
          · exact (ih r' r (by simp at hn; omega) h).trans ((List.suffix_cons _ _).trans (List.suffix_cons _ _))
      · exact (ih t r (by simp at hn; omega) h).trans (List.suffix_cons _ _)

theorem commentRest_suffix {s r : List Char} (h : commentRest s = some r) : r <:+ s := by
  unfold commentRest at h
  split at h
  · injection h with h; subst h
    exact (List.suffix_cons _ _).trans ((List.suffix_cons _ _).trans (List.suffix_cons _ _))
  · split at h
    · cases h
    · split at h
      · split at h
        · cases h
        · split at h
          · exact (commentBody_suffix _ _ _ (Nat.le_refl _) h).trans
              ((List.suffix_cons _ _).trans (List.suffix_cons _ _))
          · cases h
      · split at h
        · exact (commentBody_suffix _ _ _ (Nat.le_refl _) h).trans (List.suffix_cons _ _)
        · cases h

theorem declRest_suffix {s r : List Char} (h : declRest s = some r) : ∃ mid, s = mid ++ r := by
  cases s with
  | nil => simp [declRest] at h
  | cons c t =>
    simp only [declRest] at h
    split at h
    · split at h
      · rename_i w r' he
        split at h
        · split at h
          · rename_i x r'' he2
            injection h with h; subst h
            obtain ⟨m1, hm1⟩ := List.dropWhile_suffix (l := t) isUpper
            obtain ⟨m2, hm2⟩ := List.dropWhile_suffix (l := r') (fun x => x != '>')
            rw [he] at hm1; rw [he2] at hm2
            exact ⟨c :: (m1 ++ w :: (m2 ++ [x])), by rw [← hm1, ← hm2]; simp⟩
          · cases h
        · cases h
      · cases h
    · cases h

theorem specialRest_spec {s r : List Char} (h : specialRest s = some r) : ∃ mid, s = '<' :: mid ++ r := by
  unfold specialRest at h
  split at h
  · obtain ⟨m, hm⟩ := commentRest_suffix h
    exact ⟨'!' :: '-' :: '-' :: m, by rw [← hm]; simp⟩
  · obtain ⟨m, hm⟩ := findSub_suffix h
    exact ⟨'?' :: (m ++ ['?', '>']), by rw [hm]; simp⟩
  · obtain ⟨m, hm⟩ := findSub_suffix h
    exact ⟨'!' :: '[' :: 'C' :: 'D' :: 'A' :: 'T' :: 'A' :: '[' :: (m ++ [']', ']', '>']), by rw [hm]; simp⟩
  · obtain ⟨m, hm⟩ := declRest_suffix h
    exact ⟨'!' :: m, by rw [hm]; simp⟩
  · cases h

/-- **`HTML_TAG_RE`**: a match is a prefix `<…` of the text, what `tagRest` returns is the rest -/
theorem tagRest_spec {s r : List Char} (h : tagRest s = some r) : ∃ mid, s = '<' :: mid ++ r := by
  unfold tagRest at h
  split at h
  · rename_i r' ho
    injection h with h; subst h
    obtain ⟨m, hm, _⟩ := openTagK_spec ho
    exact ⟨m, hm⟩
  · split at h
    · rename_i r' hc
      injection h with h; subst h
      obtain ⟨m, hm, _⟩ := closeTagK_spec hc
      exact ⟨m, hm⟩
    · exact specialRest_spec h

theorem byteLen_lt_one : ('<' : Char).utf8Size = 1 := by decide

/-- **match length of `HTML_TAG_RE`**: positive, at most the length of the text, the byte length of a
    prefix of the text (so its end is a character boundary) that starts with `<` -/
theorem tagMatch_spec {s : List Char} {n : Nat} (h : tagMatch s = some n) :
    0 < n ∧ n ≤ byteLen s ∧ s.head? = some '<' ∧
      ∃ pre rest, s = pre ++ rest ∧ byteLen pre = n ∧ pre.head? = some '<' ∧ tagText s = some pre := by
  unfold tagMatch at h
  split at h
  · rename_i r hr
    injection h with h
    obtain ⟨m, hm⟩ := tagRest_spec hr
    have hb : byteLen s = byteLen ('<' :: m) + byteLen r := by rw [hm, ← byteLen_append]
    have h1 : byteLen ('<' :: m) = 1 + byteLen m := by simp [byteLen, byteLen_lt_one]
    refine ⟨by omega, by omega, by rw [hm]; rfl, '<' :: m, r, hm, by omega, rfl, ?_⟩
    have : s.length - r.length = ('<' :: m).length := by rw [hm]; simp; omega
    simp only [tagText, hr, this]
    rw [hm]
    simp
  · cases h

theorem tagMatch_none {s : List Char} (h : tagRest s = none) : tagMatch s = none ∧ tagText s = none := by
  simp [tagMatch, tagText, h]

/-- the quick test on the second character never rejects a string the pattern matches (so the stream
    may read `HTML_TAG_RE` off the silent rule) -/
theorem tagRest_quick {c : Char} {rest r : List Char} (h : tagRest (c :: rest) = some r) :
    c = '<' ∧ quickSecond rest.head? = true := by
  unfold tagRest at h
  split at h
  · rename_i r' ho
    unfold openTagK at ho
    split at ho
    · rename_i c' t heq
      injection heq with h1 h2
      subst h1 h2
      split at ho
      · rename_i ha
        exact ⟨rfl, by simp [quickSecond, ha]⟩
      · cases ho
    · cases ho
  · split at h
    · rename_i r' hc
      unfold closeTagK at hc
      split at hc
      · rename_i c' t heq
        injection heq with h1 h2
        subst h1 h2
        exact ⟨rfl, by simp [quickSecond]⟩
      · cases hc
    · unfold specialRest at h
      split at h
      all_goals (first | (cases h; done) | skip)
      all_goals (rename_i heq; injection heq with h1 h2; subst h1 h2; exact ⟨rfl, by simp [quickSecond]⟩)

end MdIt.Html
