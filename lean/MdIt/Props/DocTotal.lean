/-
  Whole-document corollaries that combine the slices (composition only — every proof below is a few lines):

  * C10: the three line-ending theorems of `Props/C10Doc.lean` with their fuel hypothesis discharged by
    `Block.parseBlocks_fuel` (`Lemmas/BlockTotalFuel.lean`): no hypothesis about the model's fuel is left.
  * C01: a panic of the whole pipeline `src ↦ html` can only come from an INLINE run: the block pass is total
    (`Block.parseBlocks_total`, `Props/BlockTotal.lean`), the splice walk, the join pass, the sourcepos pass and
    the two serializers are total (`Props/Pipeline.lean`).  For configurations whose inline chain has neither the
    link nor the image rule the inline runs are total as well under `Inline.parseInline_no_panic_flat`'s
    hypotheses; with links the no-panic of the inline tokenizer is the OPEN item of `Props/Inline.lean`.
-/
import MdIt.Props.C10Doc
import MdIt.Props.BlockTotal

namespace MdIt.Pipeline
open MdIt
open MdIt.Lines (lfToCrlf lfToCr)

/-- **C10, LF ↦ CR, no residual hypothesis.** -/
theorem doc_cr_invariant_full (x : Bool) (cfg : DocCfg) (src : List Char) (hsp : cfg.sourcepos = false)
    (hcr : '\r' ∉ src) : renderDoc x cfg (lfToCr src) = renderDoc x cfg src :=
  doc_cr_invariant x cfg src hsp hcr (.inr (Block.parseBlocks_fuel _ _))

/-- **C10, final newline, no residual hypothesis.** -/
theorem doc_final_newline_invariant_full (x : Bool) (cfg : DocCfg) (src : List Char)
    (hsp : cfg.sourcepos = false)
    (hlast : src.getLast? ≠ some '\n' ∧ src.getLast? ≠ some '\r') :
    renderDoc x cfg (src ++ ['\n']) = renderDoc x cfg src :=
  doc_final_newline_invariant x cfg src hsp hlast (.inr (Block.parseBlocks_fuel _ _))

/-- **C10, LF ↦ CR LF**: the only hypothesis left is that the inline pass of the LF document does not
    panic (source offsets decide control flow in exactly two underflow guards of the inline parser). -/
theorem doc_crlf_invariant_full (x : Bool) (cfg : DocCfg) (src : List Char) (hsp : cfg.sourcepos = false)
    (hcr : '\r' ∉ src) (hinl : ∀ e, parseDoc cfg src ≠ .error (.inline e)) :
    renderDoc x cfg (lfToCrlf src) = renderDoc x cfg src :=
  doc_crlf_invariant x cfg src hsp hcr (.inr (Block.parseBlocks_fuel _ _)) hinl

/-- **C01, whole pipeline: only an inline run can panic.**  For every configuration and every source,
    `parseDoc` either returns a tree or fails inside one of the `md.inline.parse` calls. -/
theorem parseDoc_panic_inline_only {cfg : DocCfg} {src : List Char} {e : Panic}
    (h : parseDoc cfg src = .error e) : ∃ p, e = .inline p := by
  obtain ⟨root, refs, hb⟩ := Block.parseBlocks_total cfg.blockCfg src
  unfold parseDoc at h
  rw [hb] at h
  simp only at h
  unfold afterBlocks at h
  split at h
  · rename_i e' he'
    cases h
    exact spliceNode_panic _ _ he'
  · simp only at h
    split at h
    · obtain ⟨t', ht'⟩ := sourceposNode_total src (if cfg.hasJoin = true then joinNode _ else _)
      rw [ht'] at h
      cases h
    · cases h

/-- … and the same for `src ↦ html` (both serializers): rendering a parsed tree never panics. -/
theorem renderDoc_panic_inline_only {x : Bool} {cfg : DocCfg} {src : List Char} {e : Panic}
    (h : renderDoc x cfg src = .error e) : ∃ p, e = .inline p := by
  cases hp : parseDoc cfg src with
  | error e' =>
    have : renderDoc x cfg src = .error e' := by simp [renderDoc, hp]
    rw [this] at h; cases h
    exact parseDoc_panic_inline_only hp
  | ok t =>
    obtain ⟨evs, _, _, hr⟩ := doc_render_total cfg src t hp
    rw [hr x] at h; cases h

/-- the block pass always hands a tree to the inline pass: `parseDoc` is `afterBlocks` of it -/
theorem parseDoc_blocks_ok (cfg : DocCfg) (src : List Char) :
    ∃ root refs, Block.parseBlocks cfg.blockCfg src = .ok (root, refs) ∧
      parseDoc cfg src = afterBlocks cfg src root refs := by
  obtain ⟨root, refs, hb⟩ := Block.parseBlocks_total cfg.blockCfg src
  exact ⟨root, refs, hb, by unfold parseDoc; rw [hb]⟩

end MdIt.Pipeline
