/-
  C04 / C03: the item left OPEN by `Props/HrefConverse.lean` — **no tag of the rendered document carries two
  attributes of the same name**, so the HTML tokenizer's duplicate-attribute rule ("if there is already an
  attribute on the token with the exact same name, … the new attribute must be removed") never fires and the
  attribute list the tokenizer reads (`doc_attrs_exact`) is the one the tree builder keeps.

    `NodeRender.frameT_nodup`, `NodeRender.render_nodup`   per node kind / for every tree: when `node.attrs` holds at
        most the one `data-sourcepos` attribute, every `open` / `self_close` call carries pairwise distinct names
        (`class`, `start`, `href`, `title`, `src`, `alt` are pushed once each, after the node's own);
    `Pipeline.doc_attr_names_nodup`                       for EVERY configuration and EVERY source: every trait call
        of the rendering has pairwise distinct attribute names;
    `Pipeline.doc_tokens_nodup`                           on the token stream: every tag token the tokenizer reads
        off the output string has pairwise distinct attribute names.
-/
import MdIt.Props.HrefConverse

set_option autoImplicit false

namespace MdIt.NodeRender
open MdIt.Render

/-- the attribute names of a trait call are pairwise distinct -/
def NodupEv : Event → Prop
  | .open _ a => (a.map Prod.fst).Nodup
  | .selfClose _ a => (a.map Prod.fst).Nodup
  | _ => True

/-- `node.attrs` as the shipped plugins leave it: nothing, or the one `data-sourcepos` attribute -/
def SpOnce (attrs : List (List Char × List Char)) : Prop :=
  attrs.length ≤ 1 ∧ ∀ nv ∈ attrs, nv.1 = aSourcepos

theorem SpOnce.cases {attrs : List (List Char × List Char)} (h : SpOnce attrs) :
    attrs = [] ∨ ∃ v, attrs = [(aSourcepos, v)] := by
  obtain ⟨hl, hn⟩ := h
  match attrs, hl, hn with
  | [], _, _ => exact .inl rfl
  | [(n, v)], _, hn =>
    have : n = aSourcepos := hn (n, v) (by simp)
    subst this
    exact .inr ⟨v, rfl⟩
  | _ :: _ :: _, hl, _ => simp at hl

theorem frameT_nodup (lookup : List Char → Option (List Char)) (k : Kind)
    (attrs : List (List Char × List Char)) (alt : List Char) (ha : SpOnce attrs) :
    ∀ e ∈ (frameT lookup k attrs alt).1 ++ (frameT lookup k attrs alt).2, NodupEv e := by
  rcases ha.cases with rfl | ⟨v, rfl⟩
  all_goals
    cases k
    all_goals
      simp only [frameT, List.cons_append, List.nil_append, List.append_nil, List.mem_cons,
        List.not_mem_nil, or_false, forall_eq_or_imp, forall_eq, NodupEv, List.map_nil,
        List.nodup_nil, List.map_cons, and_true, true_and, and_self]
  all_goals try trivial
  all_goals
    try simp only [fenceAttrsT, olAttrs, linkAttrs, imageAttrs, pushTitle]
    repeat' split
    all_goals try simp only [List.map_cons, List.map_nil, List.nil_append, List.cons_append]
    all_goals first | decide | (intro e h; exact h.elim)

/-- **`render_nodup`.**  For every tree without html nodes whose `node.attrs` hold at most the one
    `data-sourcepos` attribute, every trait call of `render` carries pairwise distinct attribute names. -/
theorem render_nodup (lookup : List Char → Option (List Char)) (t : Node)
    (ha : ∀ m ∈ visited t, SpOnce m.attrs) (evs : List Event) (h : render lookup t = .ok evs) :
    ∀ e ∈ evs, NodupEv e := by
  refine render_induction lookup (fun m => SpOnce m.attrs) (fun _ evs => ∀ e ∈ evs, NodupEv e)
    (by simp) ?_ ?_ t ha evs h
  · intro v₁ a v₂ b h1 h2 e he
    rcases List.mem_append.mp he with he | he
    · exact h1 e he
    · exact h2 e he
  · intro n vb b hq _ hb e he
    have hfr := frameT_nodup lookup n.kind n.attrs (imageAlt n.children) hq
    rcases List.mem_append.mp he with he | he
    · rcases List.mem_append.mp he with he | he
      · exact hfr e (List.mem_append_left _ he)
      · exact hb e he
    · exact hfr e (List.mem_append_right _ he)

end MdIt.NodeRender

namespace MdIt.Pipeline
open MdIt.Render MdIt.NodeRender MdIt.HtmlTok

mutual
theorem toRender_attrs (Q : List (List Char × List Char) → Prop) (lp : List Char) (t : Node)
    (he : Every (fun n => Q n.attrs) t) : ∀ m ∈ NodeRender.nodes (toRender lp t), Q m.attrs := by
  match t with
  | ⟨k, r, a, cs⟩ =>
    intro m hm
    simp only [toRender, NodeRender.nodes, List.mem_cons] at hm
    rcases hm with rfl | hm
    · exact he.here
    · exact toRenderList_attrs Q lp cs he.child m hm
theorem toRenderList_attrs (Q : List (List Char × List Char) → Prop) (lp : List Char) (cs : List Node)
    (he : ∀ c ∈ cs, Every (fun n => Q n.attrs) c) :
    ∀ m ∈ NodeRender.nodesList (toRenderList lp cs), Q m.attrs := by
  match cs with
  | [] => simp [toRenderList, NodeRender.nodesList]
  | c :: r =>
    intro m hm
    simp only [toRenderList, NodeRender.nodesList, List.mem_append] at hm
    rcases hm with hm | hm
    · exact toRender_attrs Q lp c (he c (by simp)) m hm
    · exact toRenderList_attrs Q lp r (fun y hy => he y (List.mem_cons_of_mem _ hy)) m hm
end

/-- in every parsed tree `node.attrs` is empty or the one `data-sourcepos` attribute -/
theorem doc_attrs_spOnce (cfg : DocCfg) (src : List Char) (t : Node) (h : parseDoc cfg src = .ok t) :
    Every (fun n => SpOnce n.attrs) t := by
  have := doc_sourcepos_spec cfg src t h
  split at this
  · refine Every.imp ?_ this
    intro n hn
    unfold SpAttr at hn
    rw [hn]
    split
    · exact ⟨by simp, by simp⟩
    · exact ⟨by simp, by simp⟩
  · refine Every.imp ?_ this
    intro n hn
    rw [hn]
    exact ⟨by simp, by simp⟩

/-- **`doc_attr_names_nodup`.**  For EVERY configuration and EVERY source the parser accepts: every
    `open` / `self_close` call the rendering issues carries pairwise distinct attribute names. -/
theorem doc_attr_names_nodup (cfg : DocCfg) (src : List Char) (t : Node) (h : parseDoc cfg src = .ok t) :
    ∃ evs, renderEvents cfg t = .ok evs ∧ (∀ x, renderDoc x cfg src = .ok (serialize x evs)) ∧
      ∀ e ∈ evs, NodupEv e := by
  obtain ⟨evs, hev, hx, _, _⟩ := doc_events cfg src t h
  refine ⟨evs, hev, hx, ?_⟩
  have hall := toRender_attrs SpOnce cfg.langPrefix t (doc_attrs_spOnce cfg src t h)
  unfold renderEvents at hev
  split at hev
  · cases hev
  · next evs' hr =>
    cases hev
    exact render_nodup cfg.entity _ (fun m hm => hall m (visited_subset_nodes _ m hm)) _ hr


theorem attrNames_nul : ∀ n ∈ allAttrNames, Render.nulStr n = n := by decide

/-- on pairwise distinct names the tokenizer's duplicate-attribute rule drops nothing -/
theorem dropDupNames_of_nodup : ∀ (l : List (List Char × List Char)), (l.map Prod.fst).Nodup →
    dropDupNames l = l
  | [], _ => rfl
  | nv :: r, h => by
    simp only [List.map_cons, List.nodup_cons] at h
    simp only [dropDupNames, dropDupNames_of_nodup r h.2]
    congr 1
    apply List.filter_eq_self.mpr
    intro x hx
    simp only [ne_eq, decide_eq_true_eq]
    intro e
    exact h.1 (List.mem_map.mpr ⟨x, hx, e⟩)

/-- **`doc_tokens_nodup`.**  On what the browser sees, for EVERY configuration, EVERY source and both
    modes: every tag token the HTML tokenizer reads off the returned string has pairwise distinct
    attribute names, so the duplicate-attribute rule of the tokenizer removes nothing: the attribute
    list of `doc_attrs_exact` / `doc_no_smuggled_href` is the one the element gets. -/
theorem doc_tokens_nodup (x : Bool) (cfg : DocCfg) (src : List Char) (out : List Char)
    (h : renderDoc x cfg src = .ok out) :
    ∀ tg : HtmlTok.Tag, Tok.tag tg ∈ (htmlTokens out).1 →
      (tg.attrs.map Prod.fst).Nodup ∧ dropDupNames tg.attrs = tg.attrs := by
  cases hp : parseDoc cfg src with
  | error e => simp [renderDoc, hp] at h
  | ok t =>
    obtain ⟨evs, hre, hx, hv, hvn, _⟩ := doc_events_nul cfg src t hp
    obtain ⟨evs2, hre2, _, hnd⟩ := doc_attr_names_nodup cfg src t hp
    have hsame : evs2 = evs := by
      rw [hre] at hre2
      cases hre2
      rfl
    subst hsame
    rw [hx x] at h
    cases h
    obtain ⟨_, htags⟩ := tokens_of_events shippedVocab_low x evs2 hv
    intro tg htg
    rw [mem_tagsOf, htags] at htg
    have key : (tg.attrs.map Prod.fst).Nodup := by
      rcases mem_filterMap_evTag htg with ⟨_, hattrs, _⟩ | ⟨_, a, hattrs, hmem⟩
      · rw [hattrs]; simp
      · -- the call is `nulEvent e0` for a call `e0` of the rendering
        have hnames : ∀ nv ∈ a, nv.1 ∈ attrsFor tg.name := by
          rcases hmem with hm | hm
          · exact fun nv hnv => ((hvn _ hm).2 nv hnv).2
          · exact fun nv hnv => ((hvn _ hm).2 nv hnv).2
        have hnod : (a.map Prod.fst).Nodup := by
          have aux : ∀ e0 ∈ evs2, ∀ tgn, (nulEvent e0 = .open tgn a ∨ nulEvent e0 = .selfClose tgn a) →
              (a.map Prod.fst).Nodup := by
            intro e0 he0 tgn hshape
            have hn0 := hnd e0 he0
            have hok0 := hv e0 he0
            cases e0 with
            | «open» t0 a0 =>
              rcases hshape with e | e <;> simp only [nulEvent, Event.open.injEq, reduceCtorEq] at e
              obtain ⟨_, rfl⟩ := e
              have : (Render.nulAttrs a0).map Prod.fst = a0.map Prod.fst := by
                simp only [Render.nulAttrs, List.map_map]
                apply List.map_congr_left
                intro nv hnv
                exact attrNames_nul _ (NodeRender.attrsFor_subset t0 _ (hok0.2 nv hnv).2)
              rw [this]; exact hn0
            | selfClose t0 a0 =>
              rcases hshape with e | e <;> simp only [nulEvent, Event.selfClose.injEq, reduceCtorEq] at e
              obtain ⟨_, rfl⟩ := e
              have : (Render.nulAttrs a0).map Prod.fst = a0.map Prod.fst := by
                simp only [Render.nulAttrs, List.map_map]
                apply List.map_congr_left
                intro nv hnv
                exact attrNames_nul _ (NodeRender.attrsFor_subset t0 _ (hok0.2 nv hnv).2)
              rw [this]; exact hn0
            | _ => rcases hshape with e | e <;> simp [nulEvent] at e
          rcases hmem with hm | hm
          · obtain ⟨e0, he0, hE⟩ := List.mem_map.mp hm
            exact aux e0 he0 _ (.inl hE)
          · obtain ⟨e0, he0, hE⟩ := List.mem_map.mp hm
            exact aux e0 he0 _ (.inr hE)
        rw [hattrs]
        have : (escAttrs a).map Prod.fst = a.map Prod.fst := by
          simp only [escAttrs, List.map_map]
          apply List.map_congr_left
          intro nv hnv
          exact attrsFor_plain (hnames nv hnv)
        rw [this]; exact hnod
    exact ⟨key, dropDupNames_of_nodup _ key⟩

end MdIt.Pipeline

/-! non-vacuity: an image with a title inside a link, `sourcepos` on — the tokenizer reads four distinct
    names on `img` (`data-sourcepos src alt title`) and three on `a` -/
example :
    (match MdIt.Pipeline.renderDoc true (MdIt.Pipeline.exCfg true 100) "[![a](b \"t\")](c \"u\")".toList with
     | .ok out => (MdIt.HtmlTok.tagsOf (MdIt.HtmlTok.htmlTokens out).1).map (fun tg => tg.attrs.length)
     | .error _ => []) = [1, 3, 4, 0, 0] := by
  decide +kernel
