/-
  Property C02 on the REAL parser models (`Model/Block.lean`, `Model/Inline.lean`,
  `Model/Pipeline.lean`): for every nesting limit `N = max_nesting`, every configuration of the model
  and every source, the depth of the tree `parseDoc` builds — not counting the emphasis wrappers
  `Em` / `Strong` / `Strikethrough`, which the delimiter matcher creates without any level counter
  (the recorded known finding `emph-depth`) — and the nesting of the recursive calls the two
  tokenizers need are bounded by a function of `N` alone.  (`Props/C02.lean` proves the same for the
  abstract recursion skeleton `Model/Nesting.lean`; the constants found here agree with it.)

  Weighted depth `wdepth cb ci t`: a block node weighs `cb`, an inline node `ci`, an emphasis
  wrapper 0.  For every `cfg`, `src`, `t` with `parseDoc cfg src = .ok t` (N = `cfg.maxNesting`):

    1 `doc_block_depth`    `blockDepth t = wdepth 1 0 t ≤ N + 2`     (`= 1` for `N = 0`)
                           root, ≤ N − 1 quotes, a list and its (empty) item: the list rule raises the
                           level twice but only the TOKENIZER checks it, so at level `N − 1` a list and
                           an item are still created and only the item's body is refused
    2 `doc_inline_depth`   `inlineDepth t = wdepth 0 1 t ≤ N + 1`    links / images nest through
                           `state.level`; at the limit only text is produced
    3 `doc_depth_bounded`  `depthNoEmph t = wdepth 1 1 t ≤ 2 N + 2`  (`= 1` for `N = 0`) — NOT
                           `(N + 2) + (N + 1)`: the deepest block chain ends in an empty item
      tightness: `decide +kernel` examples reaching `N + 2`, `N + 1`, `2 N + 2` for N = 1, 2, 3;
      the known finding: `depth` (wrappers counted) exceeds `2 N + 2` (`emph_exceeds`)
    4 recursion (`Lemmas/C02DocCalls.lean`, restated here): `block_call_depth`,
      `inline_call_depth` — see there.

  Intermediate results of independent use: `Block.parseBlocks_depth` (`Lemmas/C02DocBlock.lean`),
  `Inline.depth_induction`, `parseInline_depth` (`Lemmas/C02DocInline.lean`).
-/
import MdIt.Props.Pipeline
import MdIt.Lemmas.C02DocBlock
import MdIt.Lemmas.C02DocInline
import MdIt.Lemmas.C02DocCalls

namespace MdIt.Inline

/-- the children `md.inline.parse` returns have wrapper-free depth `≤ max_nesting + 1` -/
theorem parseInline_depth (cfg : Cfg) {content : List Char} {mapping : InlineOps.Srcmap}
    {ns : List Node} (h : parseInline cfg content mapping = .ok ns) :
    idepthList ns ≤ cfg.maxNesting + 1 := by
  unfold parseInline at h
  split at h
  · cases h
  · next st hst =>
    simp only [Except.ok.injEq] at h; subst h
    unfold tokenize at hst
    exact ((depth_induction cfg _ _ _ _ hst).2 (cfg.maxNesting + 1)
      (by simp [IState.init]) (by simp [IState.init, DL])).list

end MdIt.Inline

namespace MdIt.Pipeline
open MdIt.Block (bdepth bdepthList bdepth_eq)
open MdIt.Inline (idepth idepthList)

/-! ## the depth measures on document trees -/

/-- weight of a node: block node `cb`, inline node `ci`, emphasis wrapper 0 -/
def Kind.weight (cb ci : Nat) : Kind → Nat
  | .blk _ => cb
  | .inl (.wrap _ _) => 0
  | .inl _ => ci

mutual
def wdepth (cb ci : Nat) : Node → Nat
  | ⟨k, _, _, cs⟩ => k.weight cb ci + wdepthList cb ci cs
def wdepthList (cb ci : Nat) : List Node → Nat
  | [] => 0
  | c :: cs => max (wdepth cb ci c) (wdepthList cb ci cs)
end

mutual
/-- plain depth: every node counts, the root included (a bare root has depth 1) -/
def depth : Node → Nat
  | ⟨_, _, _, cs⟩ => 1 + depthList cs
def depthList : List Node → Nat
  | [] => 0
  | c :: cs => max (depth c) (depthList cs)
end

/-- depth not counting emphasis wrappers -/
abbrev depthNoEmph (t : Node) : Nat := wdepth 1 1 t
/-- depth of the block part: only block nodes count -/
abbrev blockDepth (t : Node) : Nat := wdepth 1 0 t
/-- depth of the inline part not counting emphasis wrappers: only inline nodes count -/
abbrev inlineDepth (t : Node) : Nat := wdepth 0 1 t

theorem wdepth_eq (cb ci : Nat) (n : Node) :
    wdepth cb ci n = n.kind.weight cb ci + wdepthList cb ci n.children := by
  cases n; simp [wdepth]

theorem wdepthList_le_iff (cb ci B : Nat) (cs : List Node) :
    wdepthList cb ci cs ≤ B ↔ ∀ c ∈ cs, wdepth cb ci c ≤ B := by
  induction cs with
  | nil => simp [wdepthList]
  | cons c cs ih => simp [wdepthList, Nat.max_le, ih]

theorem wdepth_le_of_mem {cb ci : Nat} {c : Node} {cs : List Node} (h : c ∈ cs) :
    wdepth cb ci c ≤ wdepthList cb ci cs :=
  (wdepthList_le_iff cb ci _ cs).mp (Nat.le_refl _) c h

theorem wdepthList_append (cb ci : Nat) (a b : List Node) :
    wdepthList cb ci (a ++ b) = max (wdepthList cb ci a) (wdepthList cb ci b) := by
  induction a with
  | nil => simp [wdepthList]
  | cons c cs ih => simp only [List.cons_append, wdepthList, ih]; omega

/-! ## step 1: the splice walk -/

theorem weight_inl (cb ci : Nat) (v : Inline.Val) : (Kind.inl v).weight cb ci = ci * v.wcost := by
  cases v <;> simp [Kind.weight, Inline.Val.wcost]

mutual
theorem ofInline_wdepth (cb ci : Nat) (n : Inline.Node) :
    wdepth cb ci (ofInline n) ≤ ci * idepth n := by
  match n with
  | ⟨v, r, cs⟩ =>
    unfold ofInline
    rw [wdepth_eq]
    simp only [idepth, weight_inl, Nat.mul_add]
    have := ofInlineList_wdepth cb ci cs
    omega
theorem ofInlineList_wdepth (cb ci : Nat) (cs : List Inline.Node) :
    wdepthList cb ci (ofInlineList cs) ≤ ci * idepthList cs := by
  match cs with
  | [] => simp [ofInlineList, wdepthList]
  | c :: r =>
    simp only [ofInlineList, wdepthList, idepthList]
    have h1 := ofInline_wdepth cb ci c
    have h2 := ofInlineList_wdepth cb ci r
    have h3 : ci * idepth c ≤ ci * max (idepth c) (idepthList r) :=
      Nat.mul_le_mul_left _ (Nat.le_max_left _ _)
    have h4 : ci * idepthList r ≤ ci * max (idepth c) (idepthList r) :=
      Nat.mul_le_mul_left _ (Nat.le_max_right _ _)
    omega
end

/-- the depth of the spliced tree is the depth of the block tree in which every placeholder weighs
    as much as the deepest list of children the inline parser can return -/
def InlineBound (icfg : Inline.Cfg) (ci I : Nat) : Prop :=
  ∀ content mapping ns, Inline.parseInline icfg content mapping = .ok ns → ci * idepthList ns ≤ I

mutual
theorem spliceNode_wdepth {icfg : Inline.Cfg} {cb ci I : Nat} (hI : InlineBound icfg ci I)
    (b : Block.BNode) (hk : b.kind.isInl = false) (t : Node) (h : spliceNode icfg b = .ok t) :
    wdepth cb ci t ≤ bdepth cb I b := by
  match b with
  | ⟨k, r, cs⟩ =>
    simp only [spliceNode] at h
    split at h
    · cases h
    · rename_i cs' hcs
      cases h
      rw [wdepth_eq, bdepth_eq]
      simp only at hk
      simp only [hk, Bool.false_eq_true, ↓reduceIte, Kind.weight]
      have := spliceList_wdepth (cb := cb) hI cs cs' hcs
      omega
theorem spliceList_wdepth {icfg : Inline.Cfg} {cb ci I : Nat} (hI : InlineBound icfg ci I)
    (cs : List Block.BNode) (out : List Node) (h : spliceList icfg cs = .ok out) :
    wdepthList cb ci out ≤ bdepthList cb I cs := by
  match cs with
  | [] => simp [spliceList] at h; subst h; simp [wdepthList]
  | c :: rest =>
    simp only [spliceList] at h
    split at h
    · -- an `InlineRoot`: the children the inline parser returns
      rename_i content mapping hck
      split at h
      · cases h
      · rename_i ns hns
        split at h
        · cases h
        · rename_i rest' hr
          cases h
          rw [wdepthList_append]
          simp only [bdepthList]
          have h1 := ofInlineList_wdepth cb ci ns
          have h2 := hI _ _ _ hns
          have h3 := spliceList_wdepth (cb := cb) hI rest rest' hr
          have h4 : bdepth cb I c = I := by rw [bdepth_eq, hck]; rfl
          omega
    · -- any other child: walked
      rename_i hne
      split at h
      · cases h
      · rename_i c' hc
        split at h
        · cases h
        · rename_i rest' hr
          cases h
          simp only [wdepthList, bdepthList]
          have hk : c.kind.isInl = false := by
            cases hck : c.kind <;> first | rfl | exact absurd hck (hne _ _)
          have h1 := spliceNode_wdepth (cb := cb) hI c hk c' hc
          have h3 := spliceList_wdepth (cb := cb) hI rest rest' hr
          omega
end

/-! ## step 2: the join pass never deepens anything -/

/-- `c'` is `c` with, possibly, a lighter value: what `fragments_join` does to a child it keeps -/
def Lighter (cb ci : Nat) (c c' : Node) : Prop :=
  c'.children = c.children ∧ c'.kind.weight cb ci ≤ c.kind.weight cb ci

theorem Lighter.refl {cb ci : Nat} (c : Node) : Lighter cb ci c c := ⟨rfl, Nat.le_refl _⟩

theorem Lighter.trans {cb ci : Nat} {a b c : Node} (h1 : Lighter cb ci a b) (h2 : Lighter cb ci b c) :
    Lighter cb ci a c := ⟨h2.1.trans h1.1, Nat.le_trans h2.2 h1.2⟩

theorem Lighter.wdepth {cb ci : Nat} {c c' : Node} (h : Lighter cb ci c c') :
    wdepth cb ci c' ≤ wdepth cb ci c := by
  rw [wdepth_eq, wdepth_eq, h.1]; have := h.2; omega

theorem isText_weight {cb ci : Nat} {n : Node} (h : n.isText = true) : n.kind.weight cb ci = ci := by
  unfold Node.isText at h
  split at h
  · next heq => rw [heq]; rfl
  · cases h

theorem markerToText_lighter (cb ci : Nat) (c : Node) : Lighter cb ci c (markerToText c) := by
  unfold markerToText
  split
  · next heq => exact ⟨rfl, by rw [heq]; simp [Kind.weight]⟩
  · exact Lighter.refl c

theorem mergeLoop_lighter (cb ci : Nat) (cur : Node) (rest : List Node) :
    ∀ x ∈ mergeLoop cur rest, ∃ c ∈ cur :: rest, Lighter cb ci c x := by
  induction rest generalizing cur with
  | nil => intro x hx; simp [mergeLoop] at hx; subst hx; exact ⟨_, by simp, Lighter.refl _⟩
  | cons nxt rest ih =>
    intro x hx
    simp only [mergeLoop] at hx
    split at hx
    · next htt =>
      simp only [Bool.and_eq_true] at htt
      rcases List.mem_cons.mp hx with rfl | hx
      · exact ⟨nxt, by simp, ⟨rfl, by rw [isText_weight htt.2]; simp [emptied, Kind.weight]⟩⟩
      · obtain ⟨c, hc, hr⟩ := ih _ x hx
        rcases List.mem_cons.mp hc with rfl | hc
        · exact ⟨cur, by simp, Lighter.trans
            (show Lighter cb ci cur (merged cur nxt) from
              ⟨rfl, by rw [isText_weight htt.1]; simp [merged, Kind.weight]⟩) hr⟩
        · exact ⟨c, by simp [hc], hr⟩
    · rcases List.mem_cons.mp hx with rfl | hx
      · exact ⟨_, by simp, Lighter.refl _⟩
      · obtain ⟨c, hc, hr⟩ := ih _ x hx
        exact ⟨c, List.mem_cons_of_mem _ hc, hr⟩

theorem fragmentsJoin_lighter (cb ci : Nat) (cs : List Node) :
    ∀ x ∈ fragmentsJoin cs, ∃ c ∈ cs, Lighter cb ci c x := by
  intro x hx
  unfold fragmentsJoin at hx
  have hx := (List.mem_filter.mp hx).1
  have key : ∃ c' ∈ pass1 cs, Lighter cb ci c' x := by
    cases hp : pass1 cs with
    | nil => rw [hp] at hx; simp [mergeAll] at hx
    | cons c r => rw [hp] at hx; exact mergeLoop_lighter cb ci c r x hx
  obtain ⟨c', hc', hr⟩ := key
  unfold pass1 at hc'
  obtain ⟨c, hc, rfl⟩ := List.mem_map.mp hc'
  exact ⟨c, hc, (markerToText_lighter cb ci c).trans hr⟩

theorem joinNode_wdepth_aux (cb ci : Nat) (k : Nat) : ∀ n : Node, nsize n ≤ k →
    wdepth cb ci (joinNode n) ≤ wdepth cb ci n := by
  induction k with
  | zero => intro n hn; rw [nsize_eq] at hn; omega
  | succ k ih =>
    intro n hn
    rw [joinNode_eq, joinList_eq_map, wdepth_eq, wdepth_eq]
    simp only
    have : wdepthList cb ci ((fragmentsJoin n.children).map joinNode) ≤ wdepthList cb ci n.children := by
      rw [wdepthList_le_iff]
      intro y hy
      obtain ⟨x, hx, rfl⟩ := List.mem_map.mp hy
      obtain ⟨c, hc, hr⟩ := fragmentsJoin_lighter cb ci _ x hx
      have hsz : nsize x ≤ k := by
        have h1 : nsize x = nsize c := by rw [nsize_eq, nsize_eq, hr.1]
        have h2 := nsize_le_of_mem hc
        rw [nsize_eq] at hn
        omega
      exact Nat.le_trans (ih x hsz) (Nat.le_trans hr.wdepth (wdepth_le_of_mem hc))
    omega

/-- `FragmentsJoin::run` never deepens the tree (in any of the weighted depths) -/
theorem joinNode_wdepth (cb ci : Nat) (n : Node) : wdepth cb ci (joinNode n) ≤ wdepth cb ci n :=
  joinNode_wdepth_aux cb ci _ n (Nat.le_refl _)

/-! ## step 3: the sourcepos pass only adds attributes -/

mutual
theorem sourceposNode_wdepth {cb ci : Nat} {src : List Char} {marks : List SourceMap.Mark} (t t' : Node)
    (h : sourceposNode src marks t = .ok t') : wdepth cb ci t' = wdepth cb ci t := by
  match t with
  | ⟨k, r, a, cs⟩ =>
    simp only [sourceposNode] at h
    split at h
    · cases h
    · split at h
      · cases h
      · rename_i cs' hcs
        cases h
        simp only [wdepth]
        rw [sourceposList_wdepth cs cs' hcs]
theorem sourceposList_wdepth {cb ci : Nat} {src : List Char} {marks : List SourceMap.Mark}
    (cs cs' : List Node) (h : sourceposList src marks cs = .ok cs') :
    wdepthList cb ci cs' = wdepthList cb ci cs := by
  match cs with
  | [] => simp [sourceposList] at h; subst h; rfl
  | c :: rest =>
    simp only [sourceposList] at h
    split at h
    · cases h
    · rename_i c' hc
      split at h
      · cases h
      · rename_i rest' hr
        cases h
        simp only [wdepthList]
        rw [sourceposNode_wdepth c c' hc, sourceposList_wdepth rest rest' hr]
end

/-! ## the composition -/

/-- the weighted depth of the document is at most the depth of its block tree with every
    placeholder weighing what the inline parser can return -/
theorem parseDoc_wdepth {cfg : DocCfg} {src : List Char} {t : Node} (cb ci I : Nat)
    (hI : ∀ refs, InlineBound (cfg.inlineCfg refs) ci I) (h : parseDoc cfg src = .ok t) :
    ∃ root refs, Block.parseBlocks cfg.blockCfg src = .ok (root, refs) ∧
      wdepth cb ci t ≤ bdepth cb I root := by
  unfold parseDoc at h
  split at h
  · cases h
  · rename_i root refs hb
    refine ⟨root, refs, hb, ?_⟩
    have hroot : root.kind.isInl = false := by
      rw [(Block.parseBlocks_wf hb).1]; rfl
    unfold afterBlocks at h
    split at h
    · cases h
    · rename_i t0 hs
      have h0 := spliceNode_wdepth (cb := cb) (hI refs) root hroot t0 hs
      have h1 : wdepth cb ci (if cfg.hasJoin then joinNode t0 else t0) ≤ wdepth cb ci t0 := by
        split
        · exact joinNode_wdepth cb ci t0
        · exact Nat.le_refl _
      simp only at h
      split at h
      · rw [sourceposNode_wdepth _ _ h]; omega
      · cases h; omega

mutual
theorem bdepth_zero_le (I : Nat) (b : Block.BNode) : bdepth 0 I b ≤ I := by
  match b with
  | ⟨k, r, cs⟩ =>
    rw [bdepth_eq]
    simp only
    split
    · exact Nat.le_refl _
    · have := bdepthList_zero_le I cs; omega
theorem bdepthList_zero_le (I : Nat) (cs : List Block.BNode) : bdepthList 0 I cs ≤ I := by
  match cs with
  | [] => simp [bdepthList]
  | c :: r =>
    simp only [bdepthList]
    have := bdepth_zero_le I c
    have := bdepthList_zero_le I r
    omega
end

theorem inlineBound_one (cfg : DocCfg) (refs : Refs.RefMap) :
    InlineBound (cfg.inlineCfg refs) 1 (cfg.maxNesting + 1) := by
  intro content mapping ns h
  have := Inline.parseInline_depth _ h
  simp only [DocCfg.inlineCfg] at this
  omega

theorem inlineBound_zero (cfg : DocCfg) (refs : Refs.RefMap) : InlineBound (cfg.inlineCfg refs) 0 0 := by
  intro content mapping ns h; simp

/-! ## the property theorems -/

/-- **`doc_block_depth`.**  The block part of every parsed document (root, block quotes, lists,
    items, leaf blocks; inline nodes not counted) has depth `≤ max_nesting + 2`, the root included
    (`1` when `max_nesting = 0`: the tokenizer refuses at once).  The bound is reached
    (`block_depth_tight`): the list rule raises `state.level` once for the list and once for the
    item body, but only the tokenizer tests it, so at level `N − 1` a list and an (empty) item are
    still created. -/
theorem doc_block_depth (cfg : DocCfg) (src : List Char) (t : Node) (h : parseDoc cfg src = .ok t) :
    blockDepth t ≤ (if cfg.maxNesting = 0 then 1 else cfg.maxNesting + 2) := by
  obtain ⟨root, refs, hb, hle⟩ := parseDoc_wdepth 1 0 0 (inlineBound_zero cfg) h
  have : bdepth 1 0 root ≤ (if cfg.maxNesting = 0 then 1 else cfg.maxNesting + 1 + 1) :=
    Block.parseBlocks_depth (I := 0) (J := 1) (Nat.le_refl _) (Nat.zero_le _) hb
  unfold blockDepth
  by_cases h0 : cfg.maxNesting = 0
  · rw [if_pos h0] at this ⊢; omega
  · rw [if_neg h0] at this ⊢; omega

/-- **`doc_inline_depth`.**  In the inline part of every parsed document the depth NOT counting
    emphasis wrappers is `≤ max_nesting + 1`: links and images nest through `state.level`, code spans
    and autolinks (one `Text` child) are only made below the limit, at the limit only text is. -/
theorem doc_inline_depth (cfg : DocCfg) (src : List Char) (t : Node) (h : parseDoc cfg src = .ok t) :
    inlineDepth t ≤ cfg.maxNesting + 1 := by
  obtain ⟨root, refs, _, hle⟩ := parseDoc_wdepth 0 1 (cfg.maxNesting + 1) (inlineBound_one cfg) h
  exact Nat.le_trans hle (bdepth_zero_le _ root)

/-- **`doc_depth_bounded`.**  The depth of every parsed document, the root included and emphasis
    wrappers not counted, is `≤ 2 · max_nesting + 2` (`1` when `max_nesting = 0`) — a function of the
    limit alone.  (Not the sum `(N + 2) + (N + 1)` of 1 and 2: the deepest block chain ends in an
    item without content.)  Reached for every small `N` tried (`depth_tight`); with the wrappers
    counted the bound `2 N + 2` fails (`emph_exceeds`), by an amount that `max_nesting` bounds
    (`emph_limited`, `Props/EmphDepth.lean`). -/
theorem doc_depth_bounded (cfg : DocCfg) (src : List Char) (t : Node) (h : parseDoc cfg src = .ok t) :
    depthNoEmph t ≤ (if cfg.maxNesting = 0 then 1 else 2 * cfg.maxNesting + 2) := by
  obtain ⟨root, refs, hb, hle⟩ := parseDoc_wdepth 1 1 (cfg.maxNesting + 1) (inlineBound_one cfg) h
  have : bdepth 1 (cfg.maxNesting + 1) root ≤
      (if cfg.maxNesting = 0 then 1 else cfg.maxNesting + 1 + (cfg.maxNesting + 1)) :=
    Block.parseBlocks_depth (I := cfg.maxNesting + 1) (J := cfg.maxNesting + 1)
      (by omega) (Nat.le_refl _) hb
  unfold depthNoEmph
  by_cases h0 : cfg.maxNesting = 0
  · rw [if_pos h0] at this ⊢; omega
  · rw [if_neg h0] at this ⊢; omega

/-- the uniform form: `≤ 2 N + 2` for every `N` -/
theorem doc_depth_bounded' (cfg : DocCfg) (src : List Char) (t : Node) (h : parseDoc cfg src = .ok t) :
    depthNoEmph t ≤ 2 * cfg.maxNesting + 2 := by
  have := doc_depth_bounded cfg src t h
  split at this <;> omega

/-! ## examples: non-vacuity, tightness, the known finding

  Every document below was also run through the real crate (scratch cargo project on `/repo`,
  `md.max_nesting = N`, cmark + strikethrough): same trees, same plain depths (3, 4, 6, 4, 8, 3, 4,
  7 and 1 for `N = 0`). -/

/-- the three measures and the plain depth of a parse result -/
def measures (r : Except Panic Node) : Option (Nat × Nat × Nat × Nat) :=
  match r with
  | .ok t => some (blockDepth t, inlineDepth t, depthNoEmph t, depth t)
  | .error _ => none

/-- N = 1: `- a` is root / list / item — the item body is refused: block depth `N + 2 = 3` -/
example : measures (parseDoc (exCfg false 1) "- a".toList) = some (3, 0, 3, 3) := by decide +kernel

/-- N = 1: a link in a paragraph: inline depth `N + 1 = 2`, whole depth `2 N + 2 = 4` -/
example : measures (parseDoc (exCfg false 1) "[a](b)".toList) = some (2, 2, 4, 4) := by decide +kernel

/-- N = 2: quote / paragraph / image / image / text: `2 N + 2 = 6`; block depth of `> - a` is
    `N + 2 = 4`; inline depth `N + 1 = 3` -/
theorem depth_tight_2 :
    measures (parseDoc (exCfg false 2) ">![![a](b)](c)".toList) = some (3, 3, 6, 6) ∧
    measures (parseDoc (exCfg false 2) ">- a".toList) = some (4, 0, 4, 4) := by decide +kernel

/-- N = 3: two quotes, paragraph, three nested images, text: `2 N + 2 = 8` -/
theorem depth_tight_3 :
    measures (parseDoc (exCfg false 3) ">>![![![a](b)](c)](d)".toList) = some (4, 4, 8, 8) := by
  decide +kernel

/-- beyond the limit nothing deeper is built: the same document under N = 2 and N = 1 -/
example : measures (parseDoc (exCfg false 2) ">>![![![a](b)](c)](d)".toList) = some (3, 0, 3, 3) ∧
    measures (parseDoc (exCfg false 1) ">>![![![a](b)](c)](d)".toList) = some (2, 0, 2, 2) := by
  decide +kernel

/-- **the former known finding** (`emph-depth`), after the `fix:` that limits emphasis nesting by
    `max_nesting` (`scan_and_match_delimiters`: `state.level + inner_depth >= max_nesting` ⇒ break):
    with `max_nesting = 1` this document used to reach plain depth 7 (four nested wrappers); now one
    wrapper level fits (`room = max_nesting - level = 1`) and the plain depth is 4. -/
theorem emph_limited :
    measures (parseDoc (exCfg false 1) "*a **b _c ~~d~~_***".toList) = some (2, 1, 3, 4) ∧
    measures (parseDoc (exCfg false 2) "*a **b _c ~~d~~_***".toList) = some (2, 1, 3, 5) := by
  decide +kernel

/-- with the wrappers counted the bound `2 N + 2` still FAILS — but by a bounded amount: per level
    `l` at most `max_nesting - l` wrappers are nested (`Props/EmphDepth.lean`:
    `inline_emph_depth_bounded`, `inline_tree_depth_bounded`: the inline part of a tree has height
    `≤ 1 + N (N + 3) / 2`).  `N = 1`: root / paragraph / em / link / text = 5 > 4;
    `N = 2`: root / quote / paragraph / em / em / image / em / link / text = 9 > 6. -/
theorem emph_exceeds :
    measures (parseDoc (exCfg false 1) "*[a](b)*".toList) = some (2, 2, 4, 5) ∧
    measures (parseDoc (exCfg false 2) ">*a *b ![*c [t](u) c*](i) b* a*".toList) = some (3, 3, 6, 9) := by
  decide +kernel

/-- the hypotheses of the three theorems are satisfiable -/
example : ∃ t, parseDoc (exCfg true 3) ">>![![![a](b)](c)](d)".toList = .ok t ∧ depthNoEmph t ≤ 8 := by
  have h : (parseDoc (exCfg true 3) ">>![![![a](b)](c)](d)".toList).toOption.isSome = true := by
    decide +kernel
  cases hp : parseDoc (exCfg true 3) ">>![![![a](b)](c)](d)".toList with
  | ok t => exact ⟨t, rfl, doc_depth_bounded' _ _ t hp⟩
  | error e => rw [hp] at h; cases h

/-! ## 4. recursion: the nesting of tokenizer calls is bounded by the limit

  (`Lemmas/C02DocCalls.lean`.)  The level discipline — every recursive call site passes a strictly
  larger level, every entry is guarded by `level < N` — is the content of
  `Block.blockquote_monoL` / `Block.list_monoL` / `Block.tokLoop_monoL` and
  `Inline.linkRule_congr` / `Inline.skipStep_congr` / `Inline.tokStep_congr`; its consequence for
  the evaluation is stated with the budgeted twins `Block.tokD`, `Inline.tokLoopD` /
  `Inline.skipTokenD`, whose second counter is spent by NESTED calls only. -/

/-- the block pass run with a budget of `d` simultaneously active tokenizer calls -/
def parseBlocksD (cfg : Block.Cfg) (d : Nat) (src : List Char) : Except Block.Panic (Block.BNode × Refs.RefMap) :=
  match Block.tokD cfg d (Block.fuelFor cfg src) (Block.BState.fresh src .root []) with
  | .error e => .error e
  | .ok s => .ok (⟨s.nodeKind, some (0, Lines.byteLen src), s.children⟩, s.refs)

/-- one inline run with a budget of `d` simultaneously active `tokenize` / `skip_token` calls -/
def parseInlineD (cfg : Inline.Cfg) (d : Nat) (content : List Char) (mapping : InlineOps.Srcmap) :
    Except Inline.Panic (List Inline.Node) :=
  match Inline.tokLoopD cfg d (Inline.topFuel cfg content) (Inline.IState.init content mapping).posMax
      (Inline.IState.init content mapping) with
  | .error e => .error e
  | .ok st => .ok st.children

/-- **`block_recursion_bounded`.**  Every result of the block pass is obtained with at most
    `max_nesting + 1` simultaneously active tokenizer calls, whatever the input (the general form,
    for a tokenizer entered at any level: `Block.block_call_depth`). -/
theorem block_recursion_bounded (cfg : Block.Cfg) (src : List Char) (r : Block.BNode × Refs.RefMap)
    (h : Block.parseBlocks cfg src = .ok r) : parseBlocksD cfg (cfg.maxNesting + 1) src = .ok r := by
  unfold Block.parseBlocks at h
  unfold parseBlocksD
  split at h
  · cases h
  · next s hs => rw [Block.parseBlocks_call_depth hs]; exact h

/-- **`inline_recursion_bounded`.**  Every inline run computes — result or panic — exactly what it
    computes with at most `max_nesting + 2` simultaneously active `tokenize` / `skip_token` calls,
    whatever the input (general form: `Inline.inline_call_depth`). -/
theorem inline_recursion_bounded (cfg : Inline.Cfg) (content : List Char) (mapping : InlineOps.Srcmap) :
    parseInlineD cfg (cfg.maxNesting + 2) content mapping = Inline.parseInline cfg content mapping := by
  unfold parseInlineD Inline.parseInline
  rw [Inline.tokenize_call_depth]
  rfl

/-- does the run end in the model's out-of-budget error -/
def outOfBudget {ε α : Type} (isFuel : ε → Bool) : Except ε α → Bool
  | .error e => isFuel e
  | .ok _ => false

def blockFuel : Block.Panic → Bool
  | .fuel => true
  | _ => false

def inlineFuel : Inline.Panic → Bool
  | .fuel => true
  | _ => false

/-- the two budgets are tight: `N` tokenizer calls do not suffice for `N` nested quotes, `N + 1`
    inline calls do not suffice for `N + 1` nested brackets (N = 2) -/
theorem recursion_tight :
    outOfBudget blockFuel (parseBlocksD (exCfg false 2).blockCfg 3 ">>a".toList) = false ∧
    outOfBudget blockFuel (parseBlocksD (exCfg false 2).blockCfg 2 ">>a".toList) = true ∧
    outOfBudget inlineFuel (parseInlineD ((exCfg false 2).inlineCfg []) 4 "[[[a]]](b)".toList [(0, 0)]) = false ∧
    outOfBudget inlineFuel (parseInlineD ((exCfg false 2).inlineCfg []) 3 "[[[a]]](b)".toList [(0, 0)]) = true := by
  decide +kernel

/-
  OPEN: tightness for EVERY limit.  `depth_tight_2/3`, `recursion_tight` and the examples reach the
  four bounds for N = 1, 2, 3 by evaluation; the general statement
      ∀ N ≥ 1, ∃ src t, parseDoc (exCfg false N) src = .ok t ∧ depthNoEmph t = 2 * N + 2
  (witness: N − 1 `>`, then N nested `![`…`](u)` around one letter) needs a symbolic run of both
  tokenizers on a parametric document — missing lemma: `parseInline` on `"![" ^ k ++ "a" ++ "](u)" ^ k`
  returns `k` nested images for `k ≤ N` (label look-ahead succeeds exactly when the bracket depth
  stays below the limit; for `k = N + 1` the whole construct degrades to ONE text node, see the
  example "beyond the limit nothing deeper is built").
  OPEN (minor): `Block.block_call_depth` is stated for successful runs (`.ok`); that a PANIC of the
  real tokenizer is reproduced by the budgeted twin as well (full equality, as proved for the inline
  side) needs the error-preserving version of the `*_mono` lemmas of `Props/Block.lean` §11.
-/

end MdIt.Pipeline
