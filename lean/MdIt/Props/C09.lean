/-
  C09 — Rule ordering honours every constraint, is canonical, rejects cycles loudly.

  All theorems are about `compile false` (the repaired lookup: `idhash.get(v)` in the `Before`/`After`
  arms) and quantify over ALL rule lists: no bound on the number of rules, marks, aliases or
  constraints.  `compile true` (pinned tree, phantom `idhash` entries) is only used for the negation
  witness `phantom_require_accepted`.
-/
import MdIt.Lemmas.Ruler

namespace MdIt.Ruler
open Relation (TransGen)

/-! ## Specification (read off the items only — no mutable graph, no `idhash`) -/

/-- `edge rs i j`: item `i` must run before item `j` — item `i` says `before m` for a mark (or alias)
    `m` of item `j`, or item `j` says `after m` for a mark (or alias) `m` of item `i`. -/
def edge (rs : List RuleItem) (i j : Nat) : Prop :=
  ∃ a b, rs[i]? = some a ∧ rs[j]? = some b ∧
    ((∃ m, Cons.before m ∈ a.cons ∧ m ∈ b.marks) ∨ (∃ m, Cons.after m ∈ b.cons ∧ m ∈ a.marks))

/-- executable `edge` -/
def edgeB (rs : List RuleItem) (i j : Nat) : Bool :=
  match rs[i]?, rs[j]? with
  | some a, some b =>
    a.cons.any (fun c => match c with | .before m => b.marks.contains m | _ => false) ||
    b.cons.any (fun c => match c with | .after m => a.marks.contains m | _ => false)
  | _, _ => false

theorem edgeB_iff (rs : List RuleItem) (i j : Nat) : edgeB rs i j = true ↔ edge rs i j := by
  unfold edgeB edge
  cases hi : rs[i]? with
  | none => simp
  | some a =>
    cases hj : rs[j]? with
    | none => simp
    | some b =>
      simp only [Bool.or_eq_true, List.any_eq_true, Option.some.injEq]
      constructor
      · rintro (⟨c, hc, h⟩ | ⟨c, hc, h⟩)
        · cases c <;> simp at h
          exact ⟨a, b, rfl, rfl, Or.inl ⟨_, hc, h⟩⟩
        · cases c <;> simp at h
          exact ⟨a, b, rfl, rfl, Or.inr ⟨_, hc, h⟩⟩
      · rintro ⟨a', b', rfl, rfl, (⟨m, hc, h⟩ | ⟨m, hc, h⟩)⟩
        · exact Or.inl ⟨_, hc, by simpa using h⟩
        · exact Or.inr ⟨_, hc, by simpa using h⟩

instance (rs : List RuleItem) (i j : Nat) : Decidable (edge rs i j) :=
  decidable_of_iff _ (edgeB_iff rs i j)

theorem edge_lt {rs : List RuleItem} {i j : Nat} (h : edge rs i j) : i < rs.length ∧ j < rs.length := by
  obtain ⟨a, b, hi, hj, _⟩ := h
  exact ⟨(List.getElem?_eq_some_iff.1 hi).1, (List.getElem?_eq_some_iff.1 hj).1⟩

/-- priority of item `i` -/
def prioAt (rs : List RuleItem) (i : Nat) : Option Prio := (rs[i]?).map (·.prio)

/-- indices `< k` of priority class `p`, in insertion order -/
def classIdx (rs : List RuleItem) (p : Prio) (k : Nat) : List Nat :=
  (List.range k).filter (fun i => prioAt rs i == some p)

/-- the ranking: all `before_all` items, then the normal ones, then the `after_all` ones,
    each class in insertion order -/
def rankOrder (rs : List RuleItem) : List Nat :=
  classIdx rs .beforeAll rs.length ++ classIdx rs .normal rs.length ++ classIdx rs .afterAll rs.length

/-- `j` is unplaced and every `edge`-predecessor of `j` is placed -/
def ready (rs : List RuleItem) (placed : List Nat) (j : Nat) : Bool :=
  !placed.contains j && (List.range rs.length).all (fun i => !edgeB rs i j || placed.contains i)

/-- `k` more rounds of "append the rank-least ready item"; `none` when no item is ready -/
def greedyLoop (rs : List RuleItem) : Nat → List Nat → Option (List Nat)
  | 0, placed => some placed
  | k + 1, placed =>
    match (rankOrder rs).find? (ready rs placed) with
    | none => none
    | some j => greedyLoop rs k (placed ++ [j])

/-- the canonical order: repeatedly take the highest-ranked unplaced item whose predecessors are all placed -/
def greedy (rs : List RuleItem) : Option (List Nat) := greedyLoop rs rs.length []

/-- every `require m` names a mark (or alias) held by some item -/
def RequiresPresent (rs : List RuleItem) : Prop :=
  ∀ it ∈ rs, ∀ m, Cons.require m ∈ it.cons → ∃ jt ∈ rs, m ∈ jt.marks

/-- no non-empty `edge`-path from an item to itself -/
def Acyclic (rs : List RuleItem) : Prop := ∀ i, ¬ TransGen (edge rs) i i

/-- `result_idx` honours every constraint -/
def Respects (rs : List RuleItem) (r : List Nat) : Prop :=
  ∀ i j, edge rs i j → j ∈ r → i ∈ r ∧ r.idxOf i < r.idxOf j

theorem ready_iff (rs : List RuleItem) (placed : List Nat) (j : Nat) :
    ready rs placed j = true ↔ j ∉ placed ∧ ∀ i, edge rs i j → i ∈ placed := by
  unfold ready
  simp only [Bool.and_eq_true, Bool.not_eq_true', List.all_eq_true, List.mem_range, Bool.or_eq_true,
    List.contains_eq_mem, decide_eq_false_iff_not, decide_eq_true_eq]
  constructor
  · rintro ⟨h1, h2⟩
    refine ⟨h1, fun i he => ?_⟩
    rcases h2 i (edge_lt he).1 with h | h
    · have := (edgeB_iff rs i j).2 he; simp [this] at h
    · exact h
  · rintro ⟨h1, h2⟩
    refine ⟨h1, fun i _ => ?_⟩
    by_cases he : edgeB rs i j = true
    · exact Or.inr (h2 i ((edgeB_iff rs i j).1 he))
    · exact Or.inl (by simpa using he)

/-! ## First loop: `deps_order` and `idhash` -/

theorem classIdx_succ (rs : List RuleItem) (p : Prio) (k : Nat) :
    classIdx rs p (k + 1) = classIdx rs p k ++ (if prioAt rs k = some p then [k] else []) := by
  unfold classIdx
  rw [List.range_succ, List.filter_append]
  by_cases h : prioAt rs k = some p <;> simp [h]

theorem mem_classIdx (rs : List RuleItem) (p : Prio) (k i : Nat) :
    i ∈ classIdx rs p k ↔ i < k ∧ prioAt rs i = some p := by
  simp [classIdx]

/-- `idhash` after the first `k` items: holders of `m` are exactly the items `< k` with `m` among
    their marks, and there is no empty entry -/
def IdOK (rs : List RuleItem) (k : Nat) (h : IdHash) : Prop :=
  ∀ m, (∀ x, x ∈ Hd h m ↔ x < k ∧ ∃ d, rs[x]? = some d ∧ m ∈ d.marks) ∧ idGet h m ≠ some []

structure PrepInv (rs : List RuleItem) (k : Nat) (st : Prep) : Prop where
  order : st.order = classIdx rs .beforeAll k ++ classIdx rs .normal k ++ classIdx rs .afterAll k
  bLen : st.bLen = (classIdx rs .beforeAll k).length
  aLen : st.aLen = (classIdx rs .afterAll k).length
  idok : IdOK rs k st.idhash

theorem IdOK_step (rs : List RuleItem) (k : Nat) (h : IdHash) (dep : RuleItem)
    (hk : rs[k]? = some dep) (hok : IdOK rs k h) :
    IdOK rs (k + 1) (dep.marks.foldl (fun h m => idPush h m k) h) := by
  intro m
  obtain ⟨h1, h2⟩ := idPush_foldl dep.marks k h m
  obtain ⟨o1, o2⟩ := hok m
  refine ⟨fun x => ?_, h2 o2⟩
  rw [h1, o1]
  constructor
  · rintro (⟨hx, d, hd, hm⟩ | ⟨rfl, hm⟩)
    · exact ⟨by omega, d, hd, hm⟩
    · exact ⟨by omega, dep, hk, hm⟩
  · rintro ⟨hx, d, hd, hm⟩
    by_cases hxk : x = k
    · subst hxk; rw [hk] at hd; cases hd; exact Or.inr ⟨rfl, hm⟩
    · exact Or.inl ⟨by omega, d, hd, hm⟩

theorem prepStep_normal (st : Prep) (idx : Nat) (dep : RuleItem) (o' : List Nat)
    (hprio : dep.prio = .normal) (hle : st.aLen ≤ st.order.length)
    (hins : insertAt? st.order (st.order.length - st.aLen) idx = some o') :
    prepStep st idx dep =
      .ok ⟨o', st.bLen, st.aLen, dep.marks.foldl (fun h m => idPush h m idx) st.idhash⟩ := by
  simp [prepStep, hprio, hle, hins]

theorem prepStep_beforeAll (st : Prep) (idx : Nat) (dep : RuleItem) (o' : List Nat)
    (hprio : dep.prio = .beforeAll) (hins : insertAt? st.order st.bLen idx = some o') :
    prepStep st idx dep =
      .ok ⟨o', st.bLen + 1, st.aLen, dep.marks.foldl (fun h m => idPush h m idx) st.idhash⟩ := by
  simp [prepStep, hprio, hins]

theorem prepStep_afterAll (st : Prep) (idx : Nat) (dep : RuleItem) (o' : List Nat)
    (hprio : dep.prio = .afterAll) (hins : insertAt? st.order st.order.length idx = some o') :
    prepStep st idx dep =
      .ok ⟨o', st.bLen, st.aLen + 1, dep.marks.foldl (fun h m => idPush h m idx) st.idhash⟩ := by
  simp [prepStep, hprio, hins]

theorem prepStep_spec (rs : List RuleItem) (k : Nat) (st : Prep) (dep : RuleItem)
    (hk : rs[k]? = some dep) (inv : PrepInv rs k st) :
    ∃ st', prepStep st k dep = .ok st' ∧ PrepInv rs (k + 1) st' := by
  obtain ⟨ho, hb, ha, hid⟩ := inv
  have hp : prioAt rs k = some dep.prio := by simp [prioAt, hk]
  have hidok := IdOK_step rs k st.idhash dep hk hid
  cases hprio : dep.prio with
  | normal =>
    have h1 : st.aLen ≤ st.order.length := by rw [ho, ha]; simp; omega
    have h2 : st.order.length - st.aLen =
        (classIdx rs .beforeAll k ++ classIdx rs .normal k).length := by
      rw [ho, ha]; simp; omega
    have h3 := insertAt?_append (classIdx rs .beforeAll k ++ classIdx rs .normal k)
      (classIdx rs .afterAll k) k
    rw [← h2, ← ho] at h3
    refine ⟨_, prepStep_normal st k dep _ hprio h1 h3, ⟨?_, ?_, ?_, hidok⟩⟩ <;>
      simp [classIdx_succ, hp, hprio, hb, ha]
  | beforeAll =>
    have h3 := insertAt?_append (classIdx rs .beforeAll k)
      (classIdx rs .normal k ++ classIdx rs .afterAll k) k
    rw [← List.append_assoc, ← hb, ← ho] at h3
    refine ⟨_, prepStep_beforeAll st k dep _ hprio h3, ⟨?_, ?_, ?_, hidok⟩⟩ <;>
      simp [classIdx_succ, hp, hprio, hb, ha]
  | afterAll =>
    have h3 : insertAt? st.order st.order.length k = some (st.order ++ [k]) := by
      simpa using insertAt?_append st.order [] k
    refine ⟨_, prepStep_afterAll st k dep _ hprio h3, ⟨?_, ?_, ?_, hidok⟩⟩ <;>
      simp [classIdx_succ, hp, hprio, hb, ha, ho]

theorem prepGo_spec (rs : List RuleItem) :
    ∀ (rest pre : List RuleItem) (st : Prep), rs = pre ++ rest → PrepInv rs pre.length st →
      ∃ st', prepGo pre.length rest st = .ok st' ∧ PrepInv rs rs.length st' := by
  intro rest
  induction rest with
  | nil =>
    intro pre st hrs inv
    refine ⟨st, by simp [prepGo], ?_⟩
    simpa [hrs] using inv
  | cons dep rest ih =>
    intro pre st hrs inv
    have hk : rs[pre.length]? = some dep := by simp [hrs]
    obtain ⟨st1, h1, inv1⟩ := prepStep_spec rs pre.length st dep hk inv
    obtain ⟨st2, h2, inv2⟩ := ih (pre ++ [dep]) st1 (by simp [hrs]) (by simpa using inv1)
    refine ⟨st2, ?_, inv2⟩
    simp only [prepGo, h1]
    simpa using h2

theorem prepare_spec (rs : List RuleItem) :
    ∃ p, prepare rs = .ok p ∧ p.order = rankOrder rs ∧ IdOK rs rs.length p.idhash := by
  obtain ⟨p, h1, inv⟩ := prepGo_spec rs rs [] ⟨[], 0, 0, []⟩ (by simp)
    ⟨by simp [classIdx], by simp [classIdx], by simp [classIdx], by intro m; simp [Hd, idGet]⟩
  exact ⟨p, h1, inv.order, inv.idok⟩

/-- **C09 (`deps_order_spec`).** The three `insert` formulas (`len - afterall_len`, `beforeall_len`,
    `len`) never panic and produce exactly: all `before_all` items, then the normal ones, then the
    `after_all` ones, each class in insertion order. -/
theorem deps_order_spec (rs : List RuleItem) : depsOrder rs = .ok (rankOrder rs) := by
  obtain ⟨p, h1, h2, _⟩ := prepare_spec rs
  simp [depsOrder, h1, h2]

theorem mem_rankOrder (rs : List RuleItem) (i : Nat) : i ∈ rankOrder rs ↔ i < rs.length := by
  simp only [rankOrder, List.mem_append, mem_classIdx]
  constructor
  · rintro ((h | h) | h) <;> exact h.1
  · intro h
    have : prioAt rs i = some (rs[i]).prio := by simp [prioAt, h]
    cases hp : (rs[i]).prio <;> simp [this, hp, h]

/-! ## Second loop: the dependency graph and the `Require` checks (repaired lookup) -/

/-- the second loop's work list: `(idx, deps[idx], constraint)` in evaluation order -/
def work (rs : List RuleItem) (order : List Nat) : List (Nat × RuleItem × Cons) :=
  order.flatMap (fun idx =>
    match rs[idx]? with
    | some dep => dep.cons.map (fun c => (idx, dep, c))
    | none => [])

def consStep (ph : Bool) (st : IdHash × Graph) (p : Nat × RuleItem × Cons) :
    Except CompileErr (IdHash × Graph) :=
  applyCons ph p.2.1 p.1 st p.2.2

theorem buildGraph_eq_work (ph : Bool) (rs : List RuleItem) (order : List Nat)
    (hlt : ∀ i ∈ order, i < rs.length) (st : IdHash × Graph) :
    buildGraph ph rs order st = foldE (consStep ph) st (work rs order) := by
  induction order generalizing st with
  | nil => simp [buildGraph, work, foldE]
  | cons idx order ih =>
    obtain ⟨dep, hidx⟩ : ∃ dep, rs[idx]? = some dep :=
      ⟨rs[idx]'(hlt idx (by simp)), List.getElem?_eq_getElem _⟩
    have hw : work rs (idx :: order) =
        dep.cons.map (fun c => (idx, dep, c)) ++ work rs order := by
      simp [work, hidx]
    rw [hw, foldE_append, foldE_map]
    simp only [buildGraph, foldE, itemStep, hidx]
    have hf : (fun s a => consStep ph s (idx, dep, a)) = applyCons ph dep idx := rfl
    rw [hf]
    cases foldE (applyCons ph dep idx) st dep.cons with
    | error e => rfl
    | ok t => exact ih (fun i hi => hlt i (by simp [hi])) t

theorem mem_work (rs : List RuleItem) (order : List Nat) (i : Nat) (dep : RuleItem) (c : Cons) :
    (i, dep, c) ∈ work rs order ↔ i ∈ order ∧ rs[i]? = some dep ∧ c ∈ dep.cons := by
  simp only [work, List.mem_flatMap]
  constructor
  · rintro ⟨idx, hidx, hm⟩
    cases h : rs[idx]? with
    | none => simp [h] at hm
    | some d =>
      simp [h] at hm
      obtain ⟨c', hc', rfl, rfl, rfl⟩ := hm
      exact ⟨hidx, h, hc'⟩
  · rintro ⟨hi, hd, hc⟩
    exact ⟨i, hi, by simp [hd, hc]⟩

/-- the graph edge a processed work item contributes: `x ∈ deps_graph[j]` -/
def Produces (h : IdHash) (p : Nat × RuleItem × Cons) (x j : Nat) : Prop :=
  (∃ v, p.2.2 = .before v ∧ x = p.1 ∧ j ∈ Hd h v) ∨ (∃ v, p.2.2 = .after v ∧ j = p.1 ∧ x ∈ Hd h v)

/-- state of the second loop after the work items `D` (repaired lookup: `idhash` unchanged) -/
def GInv (h : IdHash) (n : Nat) (D : List (Nat × RuleItem × Cons)) (st : IdHash × Graph) : Prop :=
  st.1 = h ∧ st.2.length = n ∧ (∀ j x, G st.2 j x ↔ ∃ p ∈ D, Produces h p x j) ∧
    ∀ p ∈ D, ∀ v, p.2.2 = .require v → (idGet h v).isSome = true

theorem consStep_ok (rs : List RuleItem) (h : IdHash) (hid : IdOK rs rs.length h)
    (D : List (Nat × RuleItem × Cons)) (st : IdHash × Graph) (p : Nat × RuleItem × Cons)
    (inv : GInv h rs.length D st) (hp : p.1 < rs.length)
    (hreq : ∀ v, p.2.2 = .require v → (idGet h v).isSome = true) :
    ∃ st', consStep false st p = .ok st' ∧ GInv h rs.length (D ++ [p]) st' := by
  obtain ⟨i, dep, c⟩ := p
  obtain ⟨h1, hlen, hG, hR⟩ := inv
  simp only at hp hreq
  have hR' : ∀ q ∈ D ++ [(i, dep, c)], ∀ v, q.2.2 = .require v → (idGet h v).isSome = true := by
    intro q hq v hv
    rcases List.mem_append.1 hq with hq | hq
    · exact hR q hq v hv
    · simp at hq; subst hq; exact hreq v hv
  cases c with
  | before v =>
    have hlt : ∀ d ∈ Hd h v, d < st.2.length := by
      intro d hd; rw [hlen]; exact (((hid v).1 d).1 hd).1
    obtain ⟨g', e1, l1, G1⟩ := foldE_before_spec i (Hd h v) st.2 hlt
    refine ⟨(st.1, g'), ?_, h1, (by show g'.length = _; omega), ?_, hR'⟩
    · simp only [consStep, applyCons, Bool.false_eq_true, if_false]
      rw [h1]; rw [Hd] at e1; rw [e1]
    · intro j x
      rw [G1, hG]
      simp only [List.mem_append, List.mem_singleton]
      constructor
      · rintro (⟨q, hq, hP⟩ | ⟨rfl, hj⟩)
        · exact ⟨q, Or.inl hq, hP⟩
        · exact ⟨_, Or.inr rfl, Or.inl ⟨v, rfl, rfl, hj⟩⟩
      · rintro ⟨q, hq | rfl, hP⟩
        · exact Or.inl ⟨q, hq, hP⟩
        · rcases hP with ⟨v', hv', hx, hj⟩ | ⟨v', hv', _⟩
          · cases hv'; exact Or.inr ⟨hx, hj⟩
          · cases hv'
  | after v =>
    obtain ⟨g', e1, l1, G1⟩ := foldE_after_spec i (Hd h v) st.2 (by omega)
    refine ⟨(st.1, g'), ?_, h1, (by show g'.length = _; omega), ?_, hR'⟩
    · simp only [consStep, applyCons, Bool.false_eq_true, if_false]
      rw [h1]; rw [Hd] at e1; rw [e1]
    · intro j x
      rw [G1, hG]
      simp only [List.mem_append, List.mem_singleton]
      constructor
      · rintro (⟨q, hq, hP⟩ | ⟨rfl, hj⟩)
        · exact ⟨q, Or.inl hq, hP⟩
        · exact ⟨_, Or.inr rfl, Or.inr ⟨v, rfl, rfl, hj⟩⟩
      · rintro ⟨q, hq | rfl, hP⟩
        · exact Or.inl ⟨q, hq, hP⟩
        · rcases hP with ⟨v', hv', _⟩ | ⟨v', hv', hj, hx⟩
          · cases hv'
          · cases hv'; exact Or.inr ⟨hj, hx⟩
  | require v =>
    refine ⟨st, ?_, h1, hlen, ?_, hR'⟩
    · have := hreq v rfl
      simp only [consStep, applyCons]
      rw [h1, this]; simp
    · intro j x
      rw [hG]
      simp only [List.mem_append, List.mem_singleton]
      constructor
      · rintro ⟨q, hq, hP⟩; exact ⟨q, Or.inl hq, hP⟩
      · rintro ⟨q, hq | rfl, hP⟩
        · exact ⟨q, hq, hP⟩
        · rcases hP with ⟨v', hv', _⟩ | ⟨v', hv', _⟩ <;> cases hv'

/-- the panic of a failed `assert!(idhash.contains_key(v), …)` -/
def missingErr (dep : RuleItem) (v : Nat) : CompileErr :=
  match dep.marks.head? with
  | none => .internal
  | some r => .missing r v

theorem consStep_absent (h : IdHash) (st : IdHash × Graph) (i : Nat) (dep : RuleItem) (v : Nat)
    (h1 : st.1 = h) (habs : (idGet h v).isSome = false) :
    consStep false st (i, dep, .require v) = .error (missingErr dep v) := by
  simp only [consStep, applyCons, missingErr]
  rw [h1, habs]
  cases dep.marks.head? <;> simp

theorem IdOK_isSome (rs : List RuleItem) (h : IdHash) (hid : IdOK rs rs.length h) (v : Nat) :
    (idGet h v).isSome = true ↔ ∃ jt ∈ rs, v ∈ jt.marks := by
  obtain ⟨h1, h2⟩ := hid v
  constructor
  · intro hs
    cases hg : idGet h v with
    | none => simp [hg] at hs
    | some l =>
      cases l with
      | nil => exact absurd hg h2
      | cons x l =>
        have : x ∈ Hd h v := by simp [Hd, hg]
        obtain ⟨_, d, hd, hm⟩ := (h1 x).1 this
        exact ⟨d, List.mem_of_getElem? hd, hm⟩
  · rintro ⟨jt, hjt, hm⟩
    obtain ⟨x, hx, rfl⟩ := List.getElem_of_mem hjt
    have : x ∈ Hd h v := (h1 x).2 ⟨hx, _, List.getElem?_eq_getElem hx, hm⟩
    cases hg : idGet h v with
    | none => simp [Hd, hg] at this
    | some l => rfl

theorem work_allPresent_iff (rs : List RuleItem) (h : IdHash) (hid : IdOK rs rs.length h)
    (order : List Nat) (hord : ∀ i, i ∈ order ↔ i < rs.length) :
    (∀ p ∈ work rs order, ∀ v, p.2.2 = .require v → (idGet h v).isSome = true) ↔
      RequiresPresent rs := by
  constructor
  · intro hw it hit m hm
    obtain ⟨x, hx, rfl⟩ := List.getElem_of_mem hit
    have := hw (x, rs[x], .require m)
      ((mem_work rs order x _ _).2 ⟨(hord x).2 hx, List.getElem?_eq_getElem hx, hm⟩) m rfl
    exact (IdOK_isSome rs h hid m).1 this
  · intro hrp p hp v hv
    obtain ⟨i, dep, c⟩ := p
    simp only at hv; subst hv
    obtain ⟨_, hd, hc⟩ := (mem_work rs order i dep _).1 hp
    exact (IdOK_isSome rs h hid v).2 (hrp dep (List.mem_of_getElem? hd) v hc)

theorem work_edge (rs : List RuleItem) (h : IdHash) (hid : IdOK rs rs.length h)
    (order : List Nat) (hord : ∀ i, i ∈ order ↔ i < rs.length) (j x : Nat) :
    (∃ p ∈ work rs order, Produces h p x j) ↔ edge rs x j := by
  constructor
  · rintro ⟨⟨i, dep, c⟩, hp, hP⟩
    obtain ⟨_, hd, hc⟩ := (mem_work rs order i dep c).1 hp
    rcases hP with ⟨v, hv, hx, hj⟩ | ⟨v, hv, hj, hx⟩
    · simp only at hv hx; subst hv hx
      obtain ⟨_, d, hd', hm⟩ := ((hid v).1 j).1 hj
      exact ⟨dep, d, hd, hd', Or.inl ⟨v, hc, hm⟩⟩
    · simp only at hv hj; subst hv hj
      obtain ⟨_, d, hd', hm⟩ := ((hid v).1 x).1 hx
      exact ⟨d, dep, hd', hd, Or.inr ⟨v, hc, hm⟩⟩
  · rintro ⟨a, b, ha, hb, (⟨m, hc, hm⟩ | ⟨m, hc, hm⟩)⟩
    · have hxl := (List.getElem?_eq_some_iff.1 ha).1
      have hjl := (List.getElem?_eq_some_iff.1 hb).1
      exact ⟨(x, a, .before m), (mem_work rs order x a _).2 ⟨(hord x).2 hxl, ha, hc⟩,
        Or.inl ⟨m, rfl, rfl, ((hid m).1 j).2 ⟨hjl, b, hb, hm⟩⟩⟩
    · have hxl := (List.getElem?_eq_some_iff.1 ha).1
      have hjl := (List.getElem?_eq_some_iff.1 hb).1
      exact ⟨(j, b, .after m), (mem_work rs order j b _).2 ⟨(hord j).2 hjl, hb, hc⟩,
        Or.inr ⟨m, rfl, rfl, ((hid m).1 x).2 ⟨hxl, a, ha, hm⟩⟩⟩

theorem GInv_init (h : IdHash) (n : Nat) : GInv h n [] (h, List.replicate n []) := by
  refine ⟨rfl, by simp, ?_, by simp⟩
  intro j x
  simp only [G, List.getElem?_replicate, List.not_mem_nil, false_and, exists_false, iff_false]
  rintro ⟨s, hs, hx⟩
  split at hs <;> simp at hs
  subst hs; simp at hx

theorem work_lt (rs : List RuleItem) (order : List Nat) (p : Nat × RuleItem × Cons)
    (hp : p ∈ work rs order) : p.1 < rs.length := by
  obtain ⟨i, dep, c⟩ := p
  exact (List.getElem?_eq_some_iff.1 ((mem_work rs order i dep c).1 hp).2.1).1

/-- second loop, success case -/
theorem buildGraph_ok (rs : List RuleItem) (h : IdHash) (hid : IdOK rs rs.length h)
    (order : List Nat) (hord : ∀ i, i ∈ order ↔ i < rs.length) (hrp : RequiresPresent rs) :
    ∃ g, buildGraph false rs order (h, List.replicate rs.length []) = .ok (h, g) ∧
      g.length = rs.length ∧ ∀ j x, G g j x ↔ edge rs x j := by
  rw [buildGraph_eq_work false rs order (fun i hi => (hord i).1 hi)]
  have hall := (work_allPresent_iff rs h hid order hord).2 hrp
  obtain ⟨st', e, inv⟩ := foldE_total (consStep false) (GInv h rs.length) (work rs order)
    (h, List.replicate rs.length []) (GInv_init h rs.length)
    (fun pre a t ha hI => consStep_ok rs h hid pre t a hI (work_lt rs order a ha) (hall a ha))
  obtain ⟨h1, hlen, hG, _⟩ := inv
  obtain ⟨s1, g⟩ := st'
  simp only at h1 hlen hG; subst h1
  exact ⟨g, e, hlen, fun j x => by rw [hG, work_edge rs s1 hid order hord]⟩

/-- second loop: success implies every requirement is present -/
theorem buildGraph_ok_requires (rs : List RuleItem) (h : IdHash) (hid : IdOK rs rs.length h)
    (order : List Nat) (hord : ∀ i, i ∈ order ↔ i < rs.length) (st' : IdHash × Graph)
    (e : buildGraph false rs order (h, List.replicate rs.length []) = .ok st') :
    RequiresPresent rs := by
  rw [buildGraph_eq_work false rs order (fun i hi => (hord i).1 hi)] at e
  rw [← work_allPresent_iff rs h hid order hord]
  have inv := foldE_inv (consStep false) (GInv h rs.length) (work rs order) _ st' e
    (GInv_init h rs.length) (fun pre a t t' ha hI hf => by
      obtain ⟨i, dep, c⟩ := a
      by_cases hreq : ∀ v, c = .require v → (idGet h v).isSome = true
      · obtain ⟨t'', e'', inv''⟩ := consStep_ok rs h hid pre t (i, dep, c) hI (work_lt rs order _ ha) hreq
        rw [e''] at hf; cases hf; exact inv''
      · exfalso
        have hex : ∃ v, c = .require v ∧ (idGet h v).isSome = false :=
          Classical.byContradiction fun hne => hreq fun v hv => by
            cases hs : (idGet h v).isSome with
            | true => rfl
            | false => exact absurd ⟨v, hv, hs⟩ hne
        obtain ⟨v, rfl, habs⟩ := hex
        rw [consStep_absent h t i dep v hI.1 habs] at hf
        cases hf)
  exact inv.2.2.2

/-- second loop, failure case: the error is the `missing dependency` panic of a requirement whose
    mark nobody holds -/
theorem buildGraph_error (rs : List RuleItem) (h : IdHash) (hid : IdOK rs rs.length h)
    (order : List Nat) (hord : ∀ i, i ∈ order ↔ i < rs.length) (err : CompileErr)
    (e : buildGraph false rs order (h, List.replicate rs.length []) = .error err) :
    ∃ (i : Nat) (dep : RuleItem) (v : Nat), rs[i]? = some dep ∧ Cons.require v ∈ dep.cons ∧
      (¬ ∃ jt ∈ rs, v ∈ jt.marks) ∧ err = missingErr dep v ∧
      ∃ pre post, work rs order = pre ++ (i, dep, .require v) :: post ∧
        ∀ q ∈ pre, ∀ w, q.2.2 = .require w → ∃ jt ∈ rs, w ∈ jt.marks := by
  rw [buildGraph_eq_work false rs order (fun i hi => (hord i).1 hi)] at e
  obtain ⟨pre, a, post, t, hl, hpre, hfa⟩ := foldE_error _ _ _ _ e
  have hsub : ∀ q ∈ pre ++ [a], q ∈ work rs order := by
    intro q hq; rw [hl]; simp at hq ⊢; rcases hq with hq | hq <;> simp [hq]
  have inv : GInv h rs.length pre t := foldE_inv (consStep false) (GInv h rs.length) pre _ t hpre
    (GInv_init h rs.length) (fun pre' b u u' hb hI hf => by
      obtain ⟨i, dep, c⟩ := b
      have hbw := hsub _ (List.mem_append_left _ hb)
      by_cases hreq : ∀ v, c = .require v → (idGet h v).isSome = true
      · obtain ⟨t'', e'', inv''⟩ := consStep_ok rs h hid pre' u (i, dep, c) hI (work_lt rs order _ hbw) hreq
        rw [e''] at hf; cases hf; exact inv''
      · exfalso
        have hex : ∃ v, c = .require v ∧ (idGet h v).isSome = false :=
          Classical.byContradiction fun hne => hreq fun v hv => by
            cases hs : (idGet h v).isSome with
            | true => rfl
            | false => exact absurd ⟨v, hv, hs⟩ hne
        obtain ⟨v, rfl, habs⟩ := hex
        rw [consStep_absent h u i dep v hI.1 habs] at hf
        cases hf)
  obtain ⟨i, dep, c⟩ := a
  have haw := hsub (i, dep, c) (by simp)
  by_cases hreq : ∀ v, c = .require v → (idGet h v).isSome = true
  · obtain ⟨t'', e'', _⟩ := consStep_ok rs h hid pre t (i, dep, c) inv (work_lt rs order _ haw) hreq
    rw [e''] at hfa; cases hfa
  · have hex : ∃ v, c = .require v ∧ (idGet h v).isSome = false :=
      Classical.byContradiction fun hne => hreq fun v hv => by
        cases hs : (idGet h v).isSome with
        | true => rfl
        | false => exact absurd ⟨v, hv, hs⟩ hne
    obtain ⟨v, rfl, habs⟩ := hex
    rw [consStep_absent h t i dep v inv.1 habs] at hfa
    obtain ⟨_, hd, hc⟩ := (mem_work rs order i dep _).1 haw
    refine ⟨i, dep, v, hd, hc, ?_, by cases hfa; rfl, pre, post, hl, ?_⟩
    · intro hex
      have := (IdOK_isSome rs h hid v).2 hex
      rw [habs] at this; cases this
    · intro q hq w hw
      exact (IdOK_isSome rs h hid w).1 (inv.2.2.2 q hq w hw)

/-! ## Third loop: selection -/

/-- loop invariant of `'outer: while deps_remaining > 0` -/
structure SelInv (rs : List RuleItem) (g : Graph) (ins : List Bool) (rem : Nat) (res : List Nat) :
    Prop where
  glen : g.length = rs.length
  ilen : ins.length = rs.length
  ins_eq : ∀ i, i < rs.length → ins[i]? = some (decide (i ∈ res))
  nodup : res.Nodup
  lt : ∀ i ∈ res, i < rs.length
  count : rem + res.length = rs.length
  graph : ∀ j x, G g j x ↔ edge rs x j ∧ x ∉ res
  resp : Respects rs res

theorem scan_spec (rs : List RuleItem) (g : Graph) (ins : List Bool) (rem : Nat) (res : List Nat)
    (inv : SelInv rs g ins rem res) (l : List Nat) (hl : ∀ i ∈ l, i < rs.length) :
    scan ins g l = .ok (l.find? (ready rs res)) := by
  induction l with
  | nil => simp [scan]
  | cons idx rest ih =>
    have hidx := hl idx (by simp)
    have ih' := ih (fun i hi => hl i (by simp [hi]))
    simp only [scan, List.find?_cons, inv.ins_eq idx hidx]
    by_cases hmem : idx ∈ res
    · have hr : ready rs res idx = false := by
        cases h : ready rs res idx with
        | false => rfl
        | true => exact absurd hmem ((ready_iff rs res idx).1 h).1
      simp [hmem, hr, ih']
    · obtain ⟨gi, hg⟩ : ∃ gi, g[idx]? = some gi :=
        ⟨g[idx]'(by rw [inv.glen]; exact hidx), List.getElem?_eq_getElem _⟩
      simp only [hmem, decide_false]
      cases hs : gi with
      | nil =>
        have hr : ready rs res idx = true := by
          rw [ready_iff]
          refine ⟨hmem, fun i he => Classical.byContradiction fun hi => ?_⟩
          obtain ⟨s, h1, h2⟩ := (inv.graph idx i).2 ⟨he, hi⟩
          rw [hg, hs] at h1; cases h1; simp at h2
        simp [hg, hs, hr]
      | cons y s' =>
        have hr : ready rs res idx = false := by
          cases h : ready rs res idx with
          | false => rfl
          | true =>
            have hy : G g idx y := ⟨_, hg, by simp [hs]⟩
            obtain ⟨he, hny⟩ := (inv.graph idx y).1 hy
            exact absurd (((ready_iff rs res idx).1 h).2 y he) hny
        simp [hg, hs, hr, ih']

theorem SelInv_step (rs : List RuleItem) (g : Graph) (ins : List Bool) (k : Nat) (res : List Nat)
    (inv : SelInv rs g ins (k + 1) res) (idx : Nat) (hidx : idx < rs.length)
    (hready : ready rs res idx = true) :
    SelInv rs (graphRemove g idx) (ins.set idx true) k (res ++ [idx]) := by
  obtain ⟨hnm, hpred⟩ := (ready_iff rs res idx).1 hready
  refine ⟨by simp [graphRemove, inv.glen], by simp [inv.ilen], ?_, ?_, ?_, ?_, ?_, ?_⟩
  · intro i hi
    rw [List.getElem?_set]
    by_cases h : idx = i
    · subst h; simp [inv.ilen, hi]
    · have h' : ¬ i = idx := fun e => h e.symm
      simp [h, h', inv.ins_eq i hi]
  · rw [List.nodup_append]
    exact ⟨inv.nodup, by simp, fun a ha b hb => by simp at hb; subst hb; exact fun e => hnm (e ▸ ha)⟩
  · intro i hi
    rcases List.mem_append.1 hi with hi | hi
    · exact inv.lt i hi
    · simp at hi; subst hi; exact hidx
  · have := inv.count; simp; omega
  · intro j x
    rw [G_graphRemove, inv.graph]
    simp only [List.mem_append, List.mem_singleton, not_or]
    constructor
    · rintro ⟨⟨h1, h2⟩, h3⟩; exact ⟨h1, h2, h3⟩
    · rintro ⟨h1, h2, h3⟩; exact ⟨⟨h1, h2⟩, h3⟩
  · intro i j he hj
    rcases List.mem_append.1 hj with hj | hj
    · obtain ⟨hi, hlt⟩ := inv.resp i j he hj
      refine ⟨List.mem_append_left _ hi, ?_⟩
      rw [List.idxOf_append, List.idxOf_append]
      simp [hi, hj, hlt]
    · simp at hj; subst hj
      have hi := hpred i he
      refine ⟨List.mem_append_left _ hi, ?_⟩
      rw [List.idxOf_append, List.idxOf_append]
      simp only [hi, hnm, if_true, if_false]
      have := List.idxOf_lt_length_of_mem hi
      omega

/-- stuck ⇒ cycle: when no unplaced item is dependency-free, the static relation has a cycle -/
theorem stuck_cycle (rs : List RuleItem) (g : Graph) (ins : List Bool) (k : Nat) (res : List Nat)
    (inv : SelInv rs g ins (k + 1) res)
    (hnone : (rankOrder rs).find? (ready rs res) = none) : ¬ Acyclic rs := by
  intro hac
  -- some item is unplaced
  have hex : ∃ u, u < rs.length ∧ u ∉ res := by
    apply Classical.byContradiction
    intro hne
    have hsub : List.range rs.length ⊆ res := by
      intro u hu
      apply Classical.byContradiction
      intro hnu
      exact hne ⟨u, List.mem_range.1 hu, hnu⟩
    have := List.nodup_range.length_le_of_subset hsub
    have := inv.count
    simp at *; omega
  obtain ⟨u, hu, hnu⟩ := hex
  let U := (List.range rs.length).filter (fun j => decide (j ∉ res))
  have hmemU : ∀ j, j ∈ U ↔ j < rs.length ∧ j ∉ res := by
    intro j; simp [U]
  obtain ⟨m, hm, hmin⟩ := exists_minimal (edge rs) hac U u ((hmemU u).2 ⟨hu, hnu⟩)
  obtain ⟨hml, hmr⟩ := (hmemU m).1 hm
  have hready : ready rs res m = true := by
    rw [ready_iff]
    refine ⟨hmr, fun i he => Classical.byContradiction fun hi => ?_⟩
    exact hmin i ((hmemU i).2 ⟨(edge_lt he).1, hi⟩) he
  rw [List.find?_eq_none] at hnone
  exact hnone m ((mem_rankOrder rs m).2 hml) hready

/-- what a finished selection loop guarantees -/
structure Final (rs : List RuleItem) (r : List Nat) : Prop where
  nodup : r.Nodup
  lt : ∀ i ∈ r, i < rs.length
  length : r.length = rs.length
  resp : Respects rs r

theorem selectLoop_spec (rs : List RuleItem) :
    ∀ (rem : Nat) (g : Graph) (ins : List Bool) (res : List Nat), SelInv rs g ins rem res →
      (∃ r, selectLoop (rankOrder rs) g ins rem res = .ok r ∧ greedyLoop rs rem res = some r ∧
        Final rs r) ∨
      (selectLoop (rankOrder rs) g ins rem res = .error .cyclic ∧ greedyLoop rs rem res = none ∧
        ¬ Acyclic rs) := by
  intro rem
  induction rem with
  | zero =>
    intro g ins res inv
    refine Or.inl ⟨res, by simp [selectLoop], by simp [greedyLoop], inv.nodup, inv.lt, ?_, inv.resp⟩
    have := inv.count; omega
  | succ k ih =>
    intro g ins res inv
    have hscan := scan_spec rs g ins (k + 1) res inv (rankOrder rs)
      (fun i hi => (mem_rankOrder rs i).1 hi)
    simp only [selectLoop, greedyLoop, hscan]
    cases hf : (rankOrder rs).find? (ready rs res) with
    | none => exact Or.inr ⟨rfl, rfl, stuck_cycle rs g ins k res inv hf⟩
    | some idx =>
      have hmem := List.mem_of_find?_eq_some hf
      have hready := List.find?_some hf
      have hidx := (mem_rankOrder rs idx).1 hmem
      exact ih _ _ _ (SelInv_step rs g ins k res inv idx hidx hready)

theorem SelInv_init (rs : List RuleItem) (g : Graph) (hlen : g.length = rs.length)
    (hG : ∀ j x, G g j x ↔ edge rs x j) :
    SelInv rs g (List.replicate rs.length false) rs.length [] := by
  refine ⟨hlen, by simp, ?_, by simp, by simp, by simp, by simpa using hG, ?_⟩
  · intro i hi; simp [hi]
  · intro i j _ hj; simp at hj

/-! ## Consequences of `Final` -/

theorem Final.mem {rs : List RuleItem} {r : List Nat} (hf : Final rs r) (c : Nat)
    (hc : c < rs.length) : c ∈ r := by
  apply Classical.byContradiction
  intro hnc
  have hnd : (c :: r).Nodup := List.nodup_cons.2 ⟨hnc, hf.nodup⟩
  have hsub : (c :: r) ⊆ List.range rs.length := by
    intro x hx
    rcases List.mem_cons.1 hx with rfl | hx
    · exact List.mem_range.2 hc
    · exact List.mem_range.2 (hf.lt x hx)
  have := hnd.length_le_of_subset hsub
  have := hf.length
  simp at *; omega

theorem Final.perm {rs : List RuleItem} {r : List Nat} (hf : Final rs r) :
    r.Perm (List.range rs.length) :=
  (List.perm_ext_iff_of_nodup hf.nodup List.nodup_range).2 fun a =>
    ⟨fun h => List.mem_range.2 (hf.lt a h), fun h => hf.mem a (List.mem_range.1 h)⟩

theorem Respects.transGen {rs : List RuleItem} {r : List Nat} (hr : Respects rs r) {a b : Nat}
    (h : TransGen (edge rs) a b) (hb : b ∈ r) : a ∈ r ∧ r.idxOf a < r.idxOf b := by
  induction h with
  | single he => exact hr _ _ he hb
  | tail _ he ih =>
    obtain ⟨h1, h2⟩ := hr _ _ he hb
    obtain ⟨h3, h4⟩ := ih h1
    exact ⟨h3, by omega⟩

theorem Final.acyclic {rs : List RuleItem} {r : List Nat} (hf : Final rs r) : Acyclic rs := by
  intro c hc
  have hlt : c < rs.length := by
    cases hc with
    | single he => exact (edge_lt he).2
    | tail _ he => exact (edge_lt he).2
  have := (hf.resp.transGen hc (hf.mem c hlt)).2
  omega

/-! ## The whole of `compile` -/

/-- Complete case analysis of `compile false`: exactly one of
    (1) every requirement present, the constraint relation acyclic: the answer is the canonical order;
    (2) every requirement present, the relation cyclic: `cyclic`;
    (3) some requirement absent: the `missing dependency` panic for such a requirement. -/
theorem compile_cases (rs : List RuleItem) :
    (RequiresPresent rs ∧ ∃ r, compile false rs = .ok r ∧ greedy rs = some r ∧ Final rs r) ∨
    (RequiresPresent rs ∧ compile false rs = .error .cyclic ∧ greedy rs = none ∧ ¬ Acyclic rs) ∨
    (¬ RequiresPresent rs ∧ ∃ (i : Nat) (dep : RuleItem) (v : Nat), rs[i]? = some dep ∧
      Cons.require v ∈ dep.cons ∧ (¬ ∃ jt ∈ rs, v ∈ jt.marks) ∧
      compile false rs = .error (missingErr dep v) ∧
      ∃ pre post, work rs (rankOrder rs) = pre ++ (i, dep, .require v) :: post ∧
        ∀ q ∈ pre, ∀ w, q.2.2 = .require w → ∃ jt ∈ rs, w ∈ jt.marks) := by
  obtain ⟨p, hp, hord, hid⟩ := prepare_spec rs
  have hmem : ∀ i, i ∈ p.order ↔ i < rs.length := by rw [hord]; exact mem_rankOrder rs
  by_cases hrp : RequiresPresent rs
  · obtain ⟨g, hb, hlen, hG⟩ := buildGraph_ok rs p.idhash hid p.order hmem hrp
    have hc : compile false rs =
        selectLoop (rankOrder rs) g (List.replicate rs.length false) rs.length [] := by
      simp only [compile, hp, hb]; rw [hord]
    rcases selectLoop_spec rs rs.length g _ [] (SelInv_init rs g hlen hG) with
      ⟨r, h1, h2, h3⟩ | ⟨h1, h2, h3⟩
    · exact Or.inl ⟨hrp, r, by rw [hc, h1], h2, h3⟩
    · exact Or.inr (Or.inl ⟨hrp, by rw [hc, h1], h2, h3⟩)
  · refine Or.inr (Or.inr ⟨hrp, ?_⟩)
    cases hb : buildGraph false rs p.order (p.idhash, List.replicate rs.length []) with
    | ok st => exact absurd (buildGraph_ok_requires rs p.idhash hid p.order hmem st hb) hrp
    | error err =>
      obtain ⟨i, dep, v, h1, h2, h3, h4, h5⟩ := buildGraph_error rs p.idhash hid p.order hmem err hb
      rw [hord] at h5
      exact ⟨i, dep, v, h1, h2, h3, by simp only [compile, hp, hb, h4], h5⟩

/-! ## Property theorems -/

/-- the doc-comment example of `ruler.rs` (`[ hello, world! ]`), marks numbered
    hello=0 world=1 open_bracket=2 close_bracket=3 comma=4 bang=5 -/
def docRules : List RuleItem :=
  [ ⟨[0], .normal, []⟩,                              -- hello
    ⟨[1], .normal, []⟩,                              -- world
    ⟨[2], .normal, [.before 0]⟩,                     -- open_bracket.before(hello)
    ⟨[3], .normal, [.after 1]⟩,                      -- close_bracket.after(world)
    ⟨[4], .normal, [.after 0, .before 1]⟩,           -- comma.after(hello).before(world)
    ⟨[5], .beforeAll, [.require 1, .after 1]⟩ ]      -- bang.require(world).after(world).before_all()

/-- open_bracket, hello, comma, world, bang, close_bracket -/
theorem docRules_order : compile false docRules = .ok [2, 0, 4, 1, 5, 3] := by rfl

/-- **C09 (`compile_perm`).** The execution order is a permutation of the rules: never partial,
    never a duplicate. -/
theorem compile_perm (rs : List RuleItem) (r : List Nat) (h : compile false rs = .ok r) :
    r.Perm (List.range rs.length) := by
  rcases compile_cases rs with ⟨_, r', h1, _, hf⟩ | ⟨_, h1, _⟩ | ⟨_, _, _, _, _, _, _, h1, _⟩
  · rw [h1] at h; cases h; exact hf.perm
  · rw [h1] at h; cases h
  · rw [h1] at h; cases h

example : ∃ r, compile false docRules = .ok r ∧ r.Perm (List.range docRules.length) :=
  ⟨_, docRules_order, compile_perm _ _ docRules_order⟩

/-- **C09 (`compile_respects`).** Every `before` / `after` constraint, direct or through an alias,
    is honoured by the execution order. -/
theorem compile_respects (rs : List RuleItem) (r : List Nat) (h : compile false rs = .ok r)
    (i j : Nat) (he : edge rs i j) : r.idxOf i < r.idxOf j := by
  rcases compile_cases rs with ⟨_, r', h1, _, hf⟩ | ⟨_, h1, _⟩ | ⟨_, _, _, _, _, _, _, h1, _⟩
  · rw [h1] at h; cases h
    exact (hf.resp i j he (hf.mem j (edge_lt he).2)).2
  · rw [h1] at h; cases h
  · rw [h1] at h; cases h

-- comma (4) must come after hello (0) and before world (1): both are `edge`s, so the theorem applies
example : edge docRules 0 4 ∧ edge docRules 4 1 ∧ edge docRules 2 0 ∧ edge docRules 1 5 := by decide

/-- **C09 (`compile_greedy`).** The order is the canonical one: the one obtained from the static
    relation by repeatedly taking the highest-ranked (before-all, then normal, then after-all;
    insertion order inside a class) unplaced rule whose predecessors are all placed. -/
theorem compile_greedy (rs : List RuleItem) (r : List Nat) (h : compile false rs = .ok r) :
    greedy rs = some r := by
  rcases compile_cases rs with ⟨_, r', h1, hg, _⟩ | ⟨_, h1, _⟩ | ⟨_, _, _, _, _, _, _, h1, _⟩
  · rw [h1] at h; cases h; exact hg
  · rw [h1] at h; cases h
  · rw [h1] at h; cases h

/-- stronger form: when every requirement is present, `compile` IS the specification function -/
theorem compile_eq_greedy (rs : List RuleItem) (hrp : RequiresPresent rs) :
    compile false rs = match greedy rs with
      | some r => .ok r
      | none => .error .cyclic := by
  rcases compile_cases rs with ⟨_, r', h1, hg, _⟩ | ⟨_, h1, hg, _⟩ | ⟨hn, _⟩
  · rw [h1, hg]
  · rw [h1, hg]
  · exact absurd hrp hn

/-- declarative reading of `greedy`: at every position, the item placed there is the first one in
    rank order that is unplaced and has all its `edge`-predecessors among the items placed before -/
def IsGreedy (rs : List RuleItem) (r : List Nat) : Prop :=
  ∀ pre j post, r = pre ++ j :: post → (rankOrder rs).find? (ready rs pre) = some j

theorem greedyLoop_decl (rs : List RuleItem) :
    ∀ (k : Nat) (placed r : List Nat), greedyLoop rs k placed = some r →
      ∃ suf, r = placed ++ suf ∧ ∀ pre j post, r = pre ++ j :: post → placed.length ≤ pre.length →
        (rankOrder rs).find? (ready rs pre) = some j := by
  intro k
  induction k with
  | zero =>
    intro placed r h
    simp [greedyLoop] at h; subst h
    refine ⟨[], by simp, fun pre j post he hle => ?_⟩
    have := congrArg List.length he
    simp at this; omega
  | succ k ih =>
    intro placed r h
    simp only [greedyLoop] at h
    cases hf : (rankOrder rs).find? (ready rs placed) with
    | none => simp [hf] at h
    | some j0 =>
      simp only [hf] at h
      obtain ⟨suf, hr, hdecl⟩ := ih _ _ h
      refine ⟨j0 :: suf, by simp [hr], fun pre j post he hle => ?_⟩
      by_cases hlen : pre.length = placed.length
      · have he' : placed ++ j0 :: suf = pre ++ j :: post := by rw [← he, hr]; simp
        obtain ⟨h1, h2⟩ := List.append_inj he' hlen.symm
        cases h2; subst h1; exact hf
      · exact hdecl pre j post he (by simp; omega)

theorem compile_isGreedy (rs : List RuleItem) (r : List Nat) (h : compile false rs = .ok r) :
    IsGreedy rs r := by
  have hg := compile_greedy rs r h
  obtain ⟨_, _, hdecl⟩ := greedyLoop_decl rs rs.length [] r hg
  exact fun pre j post he => hdecl pre j post he (by simp)

example : greedy docRules = some [2, 0, 4, 1, 5, 3] := by decide

/-- **C09 (missing requirement is loud).** If some `require m` names a mark that no rule holds, the
    result is the `missing dependency` panic for such a requirement — namely the first one in
    evaluation order (`work`: items in rank order, constraints in the order written) — never an order.
    (`missingErr dep v = .missing dep.marks[0] v`; items built by `Ruler::add` always have a mark.) -/
theorem compile_missing (rs : List RuleItem) (h : ¬ RequiresPresent rs) :
    ∃ (i : Nat) (dep : RuleItem) (v : Nat), rs[i]? = some dep ∧ Cons.require v ∈ dep.cons ∧
      (¬ ∃ jt ∈ rs, v ∈ jt.marks) ∧ compile false rs = .error (missingErr dep v) ∧
      ∃ pre post, work rs (rankOrder rs) = pre ++ (i, dep, .require v) :: post ∧
        ∀ q ∈ pre, ∀ w, q.2.2 = .require w → ∃ jt ∈ rs, w ∈ jt.marks := by
  rcases compile_cases rs with ⟨hrp, _⟩ | ⟨hrp, _⟩ | ⟨_, h3⟩
  · exact absurd hrp h
  · exact absurd hrp h
  · exact h3

/-- with a first mark on every item (always true for rules built through the API) the panic is
    `missing dependency: {marks[0]} requires {v}` -/
theorem compile_missing' (rs : List RuleItem) (hm : ∀ it ∈ rs, it.marks ≠ [])
    (h : ¬ RequiresPresent rs) :
    ∃ (dep : RuleItem) (r v : Nat), dep ∈ rs ∧ dep.marks.head? = some r ∧
      Cons.require v ∈ dep.cons ∧ (¬ ∃ jt ∈ rs, v ∈ jt.marks) ∧
      compile false rs = .error (.missing r v) := by
  obtain ⟨i, dep, v, h1, h2, h3, h4, _⟩ := compile_missing rs h
  have hdep := List.mem_of_getElem? h1
  cases hmk : dep.marks with
  | nil => exact absurd hmk (hm dep hdep)
  | cons r t =>
    refine ⟨dep, r, v, hdep, by simp [hmk], h2, h3, ?_⟩
    rw [h4]; simp [missingErr, hmk]

/-- unit test `missing_require`: A; B.require(A); C.require(Z)  (A=0 B=1 C=2 Z=25) -/
def missingRules : List RuleItem :=
  [⟨[0], .normal, []⟩, ⟨[1], .normal, [.require 0]⟩, ⟨[2], .normal, [.require 25]⟩]

example : ¬ RequiresPresent missingRules := by
  intro h
  obtain ⟨jt, hjt, hm⟩ := h ⟨[2], .normal, [.require 25]⟩ (by simp [missingRules]) 25 (by simp)
  simp [missingRules] at hjt
  rcases hjt with rfl | rfl | rfl <;> simp at hm

example : compile false missingRules = .error (.missing 2 25) := by rfl

/-- **C09 (cycle is loud).** A cyclic constraint set is never answered by an order. -/
theorem compile_cyclic (rs : List RuleItem) (h : ¬ Acyclic rs) (r : List Nat) :
    compile false rs ≠ .ok r := by
  intro hc
  rcases compile_cases rs with ⟨_, r', h1, _, hf⟩ | ⟨_, h1, _⟩ | ⟨_, _, _, _, _, _, _, h1, _⟩
  · exact h hf.acyclic
  · rw [h1] at hc; cases hc
  · rw [h1] at hc; cases hc

/-- more precisely: the `cyclic dependency` panic, unless a missing requirement is reported first -/
theorem compile_cyclic' (rs : List RuleItem) (hrp : RequiresPresent rs) (h : ¬ Acyclic rs) :
    compile false rs = .error .cyclic := by
  rcases compile_cases rs with ⟨_, r', h1, _, hf⟩ | ⟨_, h1, _⟩ | ⟨hn, _⟩
  · exact absurd hf.acyclic h
  · exact h1
  · exact absurd hrp hn

/-- unit test `cyclic_dependency`: A.after(B); B.after(C); C.after(A) -/
def cyclicRules : List RuleItem :=
  [⟨[0], .normal, [.after 1]⟩, ⟨[1], .normal, [.after 2]⟩, ⟨[2], .normal, [.after 0]⟩]

example : ¬ Acyclic cyclicRules := fun h =>
  h 0 (.tail (.tail (.single (by decide : edge cyclicRules 0 2)) (by decide : edge cyclicRules 2 1))
    (by decide : edge cyclicRules 1 0))

example : compile false cyclicRules = .error .cyclic := by rfl

/-- unit test `cyclic_dependency_debug` (%=0 A=1 B=2 C=3 D=4 E=5 F=6) -/
def cyclicRulesDebug : List RuleItem :=
  [⟨[0], .normal, [.after 4]⟩, ⟨[1], .normal, [.after 2]⟩, ⟨[5], .normal, [.after 6]⟩,
   ⟨[3], .normal, [.after 4]⟩, ⟨[2], .normal, [.after 3]⟩, ⟨[4], .normal, [.after 5]⟩,
   ⟨[6], .normal, [.after 1]⟩]

example : compile false cyclicRulesDebug = .error .cyclic := by rfl

/-- **C09 (`compile_ok_iff`).** `compile` answers with an order exactly when every requirement names
    a held mark and the constraint relation has no cycle; otherwise it panics (`compile_missing`,
    `compile_cyclic'`).  (⇐ is the "stuck ⇒ cycle" direction: `stuck_cycle`.) -/
theorem compile_ok_iff (rs : List RuleItem) :
    (∃ r, compile false rs = .ok r) ↔ RequiresPresent rs ∧ Acyclic rs := by
  rcases compile_cases rs with ⟨hrp, r', h1, _, hf⟩ | ⟨hrp, h1, _, hcyc⟩ | ⟨hn, _, _, _, _, _, _, h1, _⟩
  · exact ⟨fun _ => ⟨hrp, hf.acyclic⟩, fun _ => ⟨r', h1⟩⟩
  · exact ⟨fun ⟨r, h⟩ => (by rw [h1] at h; cases h), fun ⟨_, h⟩ => absurd h hcyc⟩
  · exact ⟨fun ⟨r, h⟩ => (by rw [h1] at h; cases h), fun ⟨h, _⟩ => absurd h hn⟩

example : RequiresPresent docRules ∧ Acyclic docRules :=
  (compile_ok_iff docRules).1 ⟨_, docRules_order⟩

/-- **C09 (`compile_total`).** None of the `unwrap`s, `Vec::insert`s or the `usize` subtraction in
    `compile` can panic: the only panics are the two intended ones. -/
theorem compile_total (rs : List RuleItem) (hm : ∀ it ∈ rs, it.marks ≠ []) :
    compile false rs ≠ .error .internal := by
  intro hc
  rcases compile_cases rs with ⟨_, r', h1, _⟩ | ⟨_, h1, _⟩ | ⟨hn, _⟩
  · rw [h1] at hc; cases hc
  · rw [h1] at hc; cases hc
  · obtain ⟨dep, r, v, _, _, _, _, h1⟩ := compile_missing' rs hm hn
    rw [h1] at hc; cases hc

example : ∀ it ∈ docRules, it.marks ≠ [] := by decide

/-- "the order is the same on every use": `compile` is a function of the rule list alone
    (no hash-iteration order is observable in the model; the cache is C08's subject). -/
theorem compile_deterministic (rs rs' : List RuleItem) (h : rs = rs') :
    compile false rs = compile false rs' := by rw [h]

/-! ### the other doc-comment examples -/

/-- `before`: a; b.before(a)  →  b a -/
example : compile false [⟨[0], .normal, []⟩, ⟨[1], .normal, [.before 0]⟩] = .ok [1, 0] := by rfl

/-- `before_all`: a; c.after(a); b.after(a).before_all()  →  a b c -/
example : compile false [⟨[0], .normal, []⟩, ⟨[2], .normal, [.after 0]⟩,
    ⟨[1], .beforeAll, [.after 0]⟩] = .ok [0, 2, 1] := by rfl

/-- `alias`: b.alias(BorC); c.alias(BorC); a.before(BorC)  →  a b c -/
example : compile false [⟨[1, 9], .normal, []⟩, ⟨[2, 9], .normal, []⟩,
    ⟨[0], .normal, [.before 9]⟩] = .ok [2, 0, 1] := by rfl

/-! ### negation witness on the pinned tree (`phantom = true`) -/

/-- `A.before(Z); B.require(Z)` with no holder of `Z` (A=0 B=1 Z=25) -/
def phantomRules : List RuleItem :=
  [⟨[0], .normal, [.before 25]⟩, ⟨[1], .normal, [.require 25]⟩]

/-- Pinned tree: `idhash.entry(Z).or_default()` in the `Before` arm leaves a phantom empty entry, the
    later `Require(Z)` is accepted although no rule holds `Z` — an order instead of the panic. -/
theorem phantom_require_accepted : compile true phantomRules = .ok [0, 1] := by rfl

/-- Repaired lookup: the same rules panic as documented. -/
theorem phantom_require_repaired : compile false phantomRules = .error (.missing 1 25) := by rfl

/-- and on the pinned tree the outcome depends on evaluation order: the same requirement written on
    the earlier rule panics -/
example : compile true [⟨[0], .normal, [.require 25]⟩, ⟨[1], .normal, [.before 25]⟩] =
    .error (.missing 0 25) := by rfl

/-! ### history API: every item has a first mark -/

def Ruler.WF (r : Ruler) : Prop := ∀ it ∈ r.deps, it.marks ≠ []

theorem modifyLast_forall (P : RuleItem → Prop) (f : RuleItem → RuleItem)
    (hf : ∀ d, P d → P (f d)) (l : List RuleItem) (hl : ∀ d ∈ l, P d) :
    ∀ d ∈ Ruler.modifyLast f l, P d := by
  induction l with
  | nil => simp [Ruler.modifyLast]
  | cons a t ih =>
    cases t with
    | nil => simp [Ruler.modifyLast]; exact hf a (hl a (by simp))
    | cons b t =>
      intro d hd
      simp only [Ruler.modifyLast, List.mem_cons] at hd
      rcases hd with rfl | hd
      · exact hl _ (by simp)
      · exact ih (fun d hd => hl d (by simp [hd])) d (by simpa using hd)

theorem Ruler.WF_new : Ruler.new.WF := by simp [Ruler.WF, Ruler.new]

theorem Ruler.WF_add (r : Ruler) (m : Nat) (h : r.WF) : (r.add m).WF := by
  intro it hit
  simp only [Ruler.add, List.mem_append, List.mem_singleton] at hit
  rcases hit with hit | rfl
  · exact h it hit
  · simp

theorem Ruler.WF_remove (r : Ruler) (m : Nat) (h : r.WF) : (r.remove m).WF := by
  intro it hit
  simp only [Ruler.remove, List.mem_filter] at hit
  exact h it hit.1

theorem Ruler.WF_builder (r : Ruler) (m : Nat) (h : r.WF) :
    (r.before m).WF ∧ (r.after m).WF ∧ (r.require m).WF ∧ (r.alias m).WF ∧ r.beforeAll.WF ∧
      r.afterAll.WF := by
  refine ⟨?_, ?_, ?_, ?_, ?_, ?_⟩ <;>
    exact modifyLast_forall (fun d => d.marks ≠ []) _ (fun d hd => by simp at hd ⊢ <;> exact hd) _ h

/-- for every ruler built through the API, `iter()` on a cold cache never hits an unintended panic -/
theorem Ruler.compile_total (r : Ruler) (h : r.WF) : r.compile ≠ .error .internal :=
  MdIt.Ruler.compile_total r.deps h

end MdIt.Ruler
