/-
  C11, third context — code SPANS — at WHOLE-DOCUMENT level: the two contexts `Props/C11SpanMulti.lean` left OPEN.

  Property C11: "text enclosed in a backtick span longer than every backtick run in it reappears in the output
  character for character — HTML-escaped, line endings turned into spaces and one pair of padding spaces removed",
  quantified over all payloads and NESTING INSIDE BLOCK QUOTES AND LIST ITEMS.

  PART 1 — the MULTI-LINE span INSIDE containers (block quotes and list items, any nesting, any order).
    The document is `wrapAll w (docOf Ls)`: the lines `Ls` of `C11M.doc_span_multiline` (`SpanLines`: ONE top-level
    paragraph `pre ++ `ᵏ⁺¹ R `ᵏ⁺¹ ++ post`, the span opening on the first line and closing on the last), TAB-FREE,
    every line prefixed, per wrapper from the inside out, by `"> "` (block quote) or by the item's marker and a space
    on the first line / as many spaces on the others (bullet or ordered item) — `C11N.wrapAll`, `C11N.Wrapper`.
    Hypotheses as in `C11M.doc_span_raw_nested` (C06's): markers the rules recognise (`Wrapper.Ok`), the chain
    condition `ChainFor`, `depthCost w < max_nesting`, source below 2 GiB.
      `blocks_nested_lines`                 the block pass: the wrapper nodes around `Paragraph[InlineRoot]` (the bare
                                            placeholder when the innermost wrapper is a list item) with the SAME inline
                                            text `docOf Ls` and the table `lineTable Ls (wrapAllLines w Ls)` moved by
                                            `widthAll w`: one entry per line
      `nested_tr_line`, `nested_tr_spec`    what that table translates to: byte `x` of line `i` of the text is byte
                                            `widthAll w + x` of line `i` of the source, i.e. inline offset
                                            `+ (i + 1) · widthAll w`
      `doc_span_multiline_nested_sp`, `doc_span_multiline_nested`
                                            the tree, exactly: wrapper nodes around `Text pre`, ONE
                                            `CodeInline[Text (spanContent R)]`, `Text post`, every range translated
      `doc_span_multiline_render_nested_sp`, `doc_span_multiline_render_nested`
                                            `render` / `xrender`: the wrappers' HTML around
                                            `pre<code>` escaped content `</code>post`
      `doc_span_padded_lines_nested`, `doc_span_padded_lines_render_nested`
                                            the padded payload `t₁ ⏎ … ⏎ t_m` spelled out: content `t₁ ␠ … ␠ t_m`
    Quotes AND list items are covered, in any combination: C06's `quote_commutes` / `item_commutes_gen` hold for any
    tab-free document, so no new block induction was needed (`Lemmas/C11SpanCtxBlock.lean`).
    NOT covered: lazy continuation lines (`> a ``x⏎y```, no marker on line 2) — by evaluation in section 3.

  PART 2 — paragraph lines IN FRONT OF the opening line and BEHIND the closing line (`MidLines`, section 4): the
    paragraph reads `A₁ ⏎ … ⏎ A_a `ᵏ⁺¹ R `ᵏ⁺¹ B₁ ⏎ … ⏎ B_b` with plain pieces `A_i`, `B_j` (`A_a`, `B₁` may be empty: the span
    may open at the start / close at the end of a line) and SOFT line breaks outside the span (`SoftOk`: no space
    in front of such a line feed, no blank behind it).  At top level AND inside any wrappers `w`:
      `parseInline_mid` (Lemmas/C11SpanCtxInline.lean)  the inline parser: `Text`, `Softbreak`, …, ONE `CodeInline`, …
      `doc_span_midparagraph_nested_sp`, `doc_span_midparagraph_nested`, `doc_span_midparagraph`
                                            the tree, exactly (`midNodes`)
      `doc_span_midparagraph_render_nested_sp`, `doc_span_midparagraph_render_nested`, `doc_span_midparagraph_render`
                                            the rendering: every soft break outside the span is ONE line feed, every
                                            line ending inside it ONE space: `<p>` `A₁ ⏎ … A_a` `<code>` content `</code>`
                                            `B₁ ⏎ … B_b` `</p>` LF inside the wrappers' HTML
    NOT covered: HARD breaks in front of / behind the span (two spaces or a backslash in front of a line feed) and
    blanks at the start of a continuation line outside the span (the `newline` rule skips them) — OPEN at the end.
-/
import MdIt.Props.C11SpanMulti
import MdIt.Lemmas.C11SpanCtxTable
import MdIt.Lemmas.C11SpanCtxDoc
set_option linter.unusedSimpArgs false
set_option linter.unusedVariables false

namespace MdIt.C11X
open MdIt.Block MdIt.Block.Li MdIt.Pipeline MdIt.C11N MdIt.C11M
open MdIt.Lines (NoTerm lead)
open MdIt.Render (Event piece piecesFrom flatten solAfter attrsStr escapeHtml)
open MdIt.NodeRender (aSourcepos tP tCode tBlockquote tUl tOl tLi olAttrs)
open MdIt.C11S (PlainTxt QuietTick)

/-! ## 1. the multi-line span inside containers -/

section nested
variable (cfg : DocCfg) (Ls : List (List Char)) (pre R post : List Char) (k : Nat) (h : SpanLines Ls pre R post k)
  (htab : ∀ l ∈ Ls, '\t' ∉ l)
  (c1 c2 : List Inline.RuleId) (hic : cfg.inlineChain = .text :: (c1 ++ .backticks :: c2))
  (hq : ∀ r ∈ c1, QuietTick r)
  (bpre bpost : List Block.RuleId) (hbc : cfg.blockChain = bpre ++ .paragraph :: bpost) (hbp : .paragraph ∉ bpre)
  (w : List Wrapper) (hw : ∀ x ∈ w, x.Ok) (hch : ChainFor cfg.blockChain w)
  (hmn : depthCost w < cfg.maxNesting)
  (hsize : Lines.byteLen (wrapAll w (docOf Ls)) + 20 < 2147483648)

include h htab in
omit hsize hmn hch hw hbp hbc hq hic in
/-- the lines form a `Good` document -/
theorem good_lines : Good Ls := by
  obtain ⟨c, r, rest, hL, hc⟩ := h.first
  refine ⟨by rw [hL]; simp, h.noTerm, ?_, htab⟩
  intro hl
  have hm := List.mem_of_getLast? hl
  rw [hL] at hm
  rcases List.mem_cons.mp hm with e | hm'
  · cases e
  · have : [] ∈ Ls.tail := by rw [hL]; exact hm'
    exact Block.contLine_ne_nil (h.cont _ this) rfl

omit h hic hq in
include htab hbc hbp hw hch hmn hsize in
/-- **the block pass, any paragraph**: `Ls` the lines of ONE top-level paragraph (first character `ParaFirst`, every
    further line `ContLine`), tab-free: inside the wrappers `w` the block tree is the wrapper nodes around that
    paragraph (around the bare placeholder when the innermost wrapper is a list item); the inline text is
    `docOf Ls` — no prefix in it —, the table has one entry per line -/
theorem blocks_nested_para (hfirst : ∃ c r rest, Ls = (c :: r) :: rest ∧ ParaFirst c) (hnt : ∀ l ∈ Ls, NoTerm l)
    (hcont : ∀ l ∈ Ls.tail, ContLine l) :
    parseBlocks cfg.blockCfg (wrapAll w (docOf Ls)) =
      .ok (⟨.root, some (0, Lines.byteLen (wrapAll w (docOf Ls))),
        wrapForest (Lines.byteLen (wrapAll w (docOf Ls))) w 0
          (paraLeaf (docOf Ls) (lineTable Ls (wrapAllLines w Ls)) 0 (widthAll w)
            (Lines.byteLen (wrapAll w (docOf Ls))) (tightOf w))⟩, []) := by
  obtain ⟨c, r, rest, hL, hpf⟩ := hfirst
  have g : Good Ls := by
    refine ⟨by rw [hL]; simp, hnt, ?_, htab⟩
    intro hl
    have hm := List.mem_of_getLast? hl
    rw [hL] at hm
    rcases List.mem_cons.mp hm with e | hm'
    · cases e
    · have : [] ∈ Ls.tail := by rw [hL]; exact hm'
      exact Block.contLine_ne_nil (hcont _ this) rfl
  rw [wrapAll_docOf hw g] at hsize ⊢
  subst hL
  have hld := lead_nonblank_cons r hpf.notBlank
  have hf : FirstLineOk (c :: r) := ⟨by rw [hld.2]; simp, .inl (by rw [hld.1]; rfl)⟩
  have hmn' : 0 < ({ cfg.blockCfg with maxNesting := cfg.maxNesting - depthCost w } : Block.Cfg).maxNesting := by
    show 0 < cfg.maxNesting - depthCost w; omega
  have hbase := parseBlocks_lines hnt hpf hcont
    (cfg := { cfg.blockCfg with maxNesting := cfg.maxNesting - depthCost w }) hbc hbp hmn'
  have htight := fun t => tokenize_lines_tight hnt hpf hcont
    (cfg := { cfg.blockCfg with maxNesting := cfg.maxNesting - depthCost w }) hbc hbp hmn' t
  rw [idTable_eq] at hbase
  have := parseBlocks_para_nested_lines { cfg.blockCfg with maxNesting := cfg.maxNesting - depthCost w } hmn'
    (docOf ((c :: r) :: rest)) (starts 0 ((c :: r) :: rest)) 0 (c :: r) rest g hf (Nat.zero_le _) hbase htight w hw hch
    (fun _ => hrFree_of_mem (x := c) (by simp)
      ⟨hpf.1, hpf.2.1, hpf.2.2.2.2.2.2.1, hpf.2.2.2.2.2.1, hpf.2.2.2.2.2.2.2.1⟩ w) hsize
  rw [blockCfg_nest cfg _ hmn] at this
  exact this

include h htab hbc hbp hw hch hmn hsize

omit hic hq in
/-- **the block pass**: the wrapper nodes around ONE paragraph over all the lines; the inline text is the text of the
    top-level paragraph (no prefix in it), the table has one entry per line -/
theorem blocks_nested_lines :
    parseBlocks cfg.blockCfg (wrapAll w (docOf Ls)) =
      .ok (⟨.root, some (0, Lines.byteLen (wrapAll w (docOf Ls))),
        wrapForest (Lines.byteLen (wrapAll w (docOf Ls))) w 0
          (paraLeaf (pre ++ rawSpan k R ++ post) (lineTable Ls (wrapAllLines w Ls)) 0 (widthAll w)
            (Lines.byteLen (wrapAll w (docOf Ls))) (tightOf w))⟩, []) := by
  rw [← h.doc]
  exact blocks_nested_para cfg Ls htab bpre bpost hbc hbp w hw hch hmn hsize h.first h.noTerm h.cont

omit hw hbc hbp hch hmn hsize hic hq in
/-- the table is total; `trOf` is its translation -/
theorem table_nested (a : Nat) :
    InlineOps.getSourcePosFor ((lineTable Ls (wrapAllLines w Ls)).map fun kv => (kv.1, kv.2 + widthAll w)) a =
      .ok (trOf (widthAll w) Ls (wrapAllLines w Ls) a) :=
  trOf_ok (wrapAllLines_length w Ls) (good_lines Ls pre R post k h htab).ne a

omit hbc hbp hch hmn hsize hic hq in
/-- **the translation**: byte `x` of line `i` of the paragraph text (`(starts 0 Ls)[i]`: where line `i` starts in
    `docOf Ls`; `x ≤` the line's length, the position of the line's end included) comes from byte `widthAll w + x` of
    line `i` of the source … -/
theorem nested_tr_line (i : Nat) (hi : i < Ls.length) (x : Nat) (hx : x ≤ Lines.byteLen Ls[i]) :
    trOf (widthAll w) Ls (wrapAllLines w Ls) ((starts 0 Ls)[i]'(by rw [starts_length]; exact hi) + x) =
      (starts 0 (wrapAllLines w Ls))[i]'(by rw [starts_length, wrapAllLines_length]; exact hi) + widthAll w + x :=
  trOf_line (prefixed_wrapAllLines hw Ls) (good_lines Ls pre R post k h htab).ne i hi x hx

omit hbc hbp hch hmn hsize hic hq in
/-- … that is: source offset = inline offset `+ (i + 1) · widthAll w` (the prefixes of the lines `0 … i`) -/
theorem nested_tr_spec (i : Nat) (hi : i < Ls.length) (x : Nat) (hx : x ≤ Lines.byteLen Ls[i]) :
    trOf (widthAll w) Ls (wrapAllLines w Ls) ((starts 0 Ls)[i]'(by rw [starts_length]; exact hi) + x) =
      (starts 0 Ls)[i]'(by rw [starts_length]; exact hi) + x + (i + 1) * widthAll w :=
  trOf_spec (prefixed_wrapAllLines hw Ls) (good_lines Ls pre R post k h htab).ne i hi x hx

include hic hq

/-- **`doc_span_multiline_nested`, any `sourcepos`.**  The lines `Ls` of `C11M.doc_span_multiline_sp` (`SpanLines`),
    tab-free, inside any list `w` of wrappers — EVERY line prefixed by every wrapper —: the wrapper nodes (one per
    block quote, list + item per list wrapper, each over the whole source from its marker's column) around the
    `Paragraph` — or, innermost wrapper a list item, around nothing — over the SAME three inline nodes as at top
    level: `Text pre`, ONE `CodeInline` over the whole span (all its lines) whose single child is
    `Text (spanContent R)` (`C11M.strip_char`: every line ending ONE space, one pair of padding spaces removed; no
    prefix character in it), `Text post`.  Ranges: inline offsets through `trOf` (`nested_tr_spec`). -/
theorem doc_span_multiline_nested_sp :
    parseDoc cfg (wrapAll w (docOf Ls)) =
      .ok ⟨.blk .root, some (0, Lines.byteLen (wrapAll w (docOf Ls))),
        spAttrs cfg (wrapAll w (docOf Ls)) (0, Lines.byteLen (wrapAll w (docOf Ls))),
        wrapForestN (spAttrs cfg (wrapAll w (docOf Ls))) (Lines.byteLen (wrapAll w (docOf Ls))) w 0
          (spanLeaf (spAttrs cfg (wrapAll w (docOf Ls))) (widthAll w) (Lines.byteLen (wrapAll w (docOf Ls))) (tightOf w)
            (rawNodes (spAttrs cfg (wrapAll w (docOf Ls))) (trOf (widthAll w) Ls (wrapAllLines w Ls)) k pre R post))⟩ :=
  parseDoc_of_blocks_raw cfg _ pre R post k h.plainPre h.plainPost h.raw h.trim c1 c2 hic hq (by omega) w _ _
    (lineTable Ls (wrapAllLines w Ls)) _ (table_nested Ls pre R post k h htab w)
    (blocks_nested_lines cfg Ls pre R post k h htab bpre bpost hbc hbp w hw hch hmn hsize)

/-- **`doc_span_multiline_nested`** (no `sourcepos` plugin): the tree, exactly, no attributes anywhere -/
theorem doc_span_multiline_nested (hsp : cfg.sourcepos = false) :
    parseDoc cfg (wrapAll w (docOf Ls)) =
      .ok ⟨.blk .root, some (0, Lines.byteLen (wrapAll w (docOf Ls))), [],
        wrapForestN (fun _ => []) (Lines.byteLen (wrapAll w (docOf Ls))) w 0
          (spanLeaf (fun _ => []) (widthAll w) (Lines.byteLen (wrapAll w (docOf Ls))) (tightOf w)
            (rawNodes (fun _ => []) (trOf (widthAll w) Ls (wrapAllLines w Ls)) k pre R post))⟩ := by
  have := doc_span_multiline_nested_sp cfg Ls pre R post k h htab c1 c2 hic hq bpre bpost hbc hbp w hw hch hmn hsize
  rw [spAttrs_off hsp] at this
  exact this

/-- **`doc_span_multiline_render_nested`, any `sourcepos`** -/
theorem doc_span_multiline_render_nested_sp (x : Bool) :
    renderDoc x cfg (wrapAll w (docOf Ls)) =
      .ok (Render.replaceNul (spanHtmlA (spAttrs cfg (wrapAll w (docOf Ls))) (Lines.byteLen (wrapAll w (docOf Ls)))
        (openTag tP (spAttrs cfg (wrapAll w (docOf Ls)) (widthAll w, Lines.byteLen (wrapAll w (docOf Ls)))) ++
          inlHtml (spAttrs cfg (wrapAll w (docOf Ls)) (spanRange (trOf (widthAll w) Ls (wrapAllLines w Ls)) k pre R))
            pre (spanContent R) post ++ closeTag tP ++ ['\n'])
        (inlHtml (spAttrs cfg (wrapAll w (docOf Ls)) (spanRange (trOf (widthAll w) Ls (wrapAllLines w Ls)) k pre R))
          pre (spanContent R) post) w 0)) :=
  renderDoc_of_blocks_raw cfg _ pre R post k h.plainPre h.plainPost h.raw h.trim c1 c2 hic hq (by omega) w _ _
    (lineTable Ls (wrapAllLines w Ls)) _ (table_nested Ls pre R post k h htab w)
    (blocks_nested_lines cfg Ls pre R post k h htab bpre bpost hbc hbp w hw hch hmn hsize) x

/-- **`doc_span_multiline_render_nested`** (no `sourcepos` plugin), both serializers: the wrappers' HTML
    (`spanHtml w`: `<blockquote>` LF `<p>` … `</p>` LF `</blockquote>` LF; `<ul>` LF `<li>` … `</li>` LF `</ul>` LF, the
    paragraph tags dropped directly inside an item) around `pre` `<code>` content `</code>` `post` — ONE code element,
    content = `spanContent R`: the characters of `R`, every line ending turned into one space, one pair of padding
    spaces removed, exactly `& < > "` escaped, NUL replaced by U+FFFD; no prefix character, nothing interpreted -/
theorem doc_span_multiline_render_nested (hsp : cfg.sourcepos = false) (x : Bool) :
    renderDoc x cfg (wrapAll w (docOf Ls)) =
      .ok (spanHtml w (codeHtml (Render.nulStr pre) (Render.nulStr (spanContent R)) (Render.nulStr post))) :=
  plain_html cfg _ hsp x _ _ _ pre (spanContent R) post w _
    (doc_span_multiline_render_nested_sp cfg Ls pre R post k h htab c1 c2 hic hq bpre bpost hbc hbp w hw hch hmn hsize x)

end nested

/-! ## 2. the padded multi-line payload inside containers, spelled out -/

section payload
variable (cfg : DocCfg) (pre post : List Char) (k : Nat) (ts : List (List Char))
  (h : SpanLines (paddedLines pre k ts post) pre (' ' :: docOf ts ++ [' ']) post k)
  (htab : ∀ l ∈ paddedLines pre k ts post, '\t' ∉ l)
  (hts : ∀ t ∈ ts, NoTerm t) (hne : docOf ts ≠ [])
  (c1 c2 : List Inline.RuleId) (hic : cfg.inlineChain = .text :: (c1 ++ .backticks :: c2))
  (hq : ∀ r ∈ c1, QuietTick r)
  (bpre bpost : List Block.RuleId) (hbc : cfg.blockChain = bpre ++ .paragraph :: bpost) (hbp : .paragraph ∉ bpre)
  (w : List Wrapper) (hw : ∀ x ∈ w, x.Ok) (hch : ChainFor cfg.blockChain w)
  (hmn : depthCost w < cfg.maxNesting)
  (hsize : Lines.byteLen (wrapAll w (docOf (paddedLines pre k ts post))) + 20 < 2147483648)
  (hsp : cfg.sourcepos = false)
include h htab hts hne hic hq hbc hbp hw hch hmn hsize hsp

/-- **`doc_span_padded_lines_nested`** (no `sourcepos` plugin).  The lines
    `pre `ᵏ⁺¹ ␠ t₁ ⏎ t₂ ⏎ … ⏎ t_m ␠ `ᵏ⁺¹ post` (`C11M.paddedLines`, hypotheses `C11M.spanLines_padded`), tab-free, inside
    the wrappers `w`: the wrapper nodes around `Text pre`, ONE `CodeInline` node whose text child is `t₁ ␠ t₂ ␠ … ␠ t_m`
    (`spaced ts`: each line ending ONE space, every payload line whole, no prefix character), `Text post` -/
theorem doc_span_padded_lines_nested :
    parseDoc cfg (wrapAll w (docOf (paddedLines pre k ts post))) =
      .ok ⟨.blk .root, some (0, Lines.byteLen (wrapAll w (docOf (paddedLines pre k ts post)))), [],
        wrapForestN (fun _ => []) (Lines.byteLen (wrapAll w (docOf (paddedLines pre k ts post)))) w 0
          (spanLeaf (fun _ => []) (widthAll w) (Lines.byteLen (wrapAll w (docOf (paddedLines pre k ts post)))) (tightOf w)
            (txtR (fun _ => []) (trOf (widthAll w) (paddedLines pre k ts post) (wrapAllLines w (paddedLines pre k ts post)) 0,
                trOf (widthAll w) (paddedLines pre k ts post) (wrapAllLines w (paddedLines pre k ts post))
                  (Lines.byteLen pre)) pre ++
              [codeR (fun _ => []) k
                (spanRange (trOf (widthAll w) (paddedLines pre k ts post) (wrapAllLines w (paddedLines pre k ts post))) k pre
                  (' ' :: docOf ts ++ [' ']))
                (innerRange (trOf (widthAll w) (paddedLines pre k ts post) (wrapAllLines w (paddedLines pre k ts post))) k pre
                  (' ' :: docOf ts ++ [' ']))
                (spaced ts)] ++
              txtR (fun _ => [])
                (trOf (widthAll w) (paddedLines pre k ts post) (wrapAllLines w (paddedLines pre k ts post))
                  (Lines.byteLen pre + (2 * (k + 1) + Lines.byteLen (' ' :: docOf ts ++ [' ']))),
                 trOf (widthAll w) (paddedLines pre k ts post) (wrapAllLines w (paddedLines pre k ts post))
                  (Lines.byteLen pre + (2 * (k + 1) + Lines.byteLen (' ' :: docOf ts ++ [' '])) + Lines.byteLen post))
                post))⟩ := by
  have := doc_span_multiline_nested cfg _ pre _ post k h htab c1 c2 hic hq bpre bpost hbc hbp w hw hch hmn hsize hsp
  rw [this]
  simp only [rawNodes, (strip_lines ts hts hne).1]

/-- **`doc_span_padded_lines_render_nested`**, both serializers: the wrappers' HTML around
    `pre` `<code>` `t₁ ␠ t₂ ␠ … ␠ t_m` `</code>` `post`, with exactly `& < > "` escaped and NUL replaced by U+FFFD -/
theorem doc_span_padded_lines_render_nested (x : Bool) :
    renderDoc x cfg (wrapAll w (docOf (paddedLines pre k ts post))) =
      .ok (spanHtml w (codeHtml (Render.nulStr pre) (Render.nulStr (spaced ts)) (Render.nulStr post))) := by
  have := doc_span_multiline_render_nested cfg _ pre _ post k h htab c1 c2 hic hq bpre bpost hbc hbp w hw hch hmn
    hsize hsp x
  rw [(strip_lines ts hts hne).1] at this
  exact this

end payload

/-! ## 3. instances on the stock chains, and the limits -/

section examples

/-- the two-line paragraph ``a ``x ⏎ y <b>`` z``: `pre = "a "`, `R = "x⏎y <b>"`, `post = " z"` -/
def exLs2 : List (List Char) := ["a ``x".toList, "y <b>`` z".toList]
def exR2 : List Char := "x\ny <b>".toList

theorem exLines2 : SpanLines exLs2 "a ".toList exR2 " z".toList 1 :=
  ⟨⟨'a', _, _, rfl, by decide⟩, by decide +kernel, by decide +kernel, by decide +kernel, by decide, by decide,
    by decide, by decide +kernel⟩

/-- `doc_span_multiline_render_nested` applies: the two lines in a block quote, `> a ``x ⏎ > y <b>`` z` … -/
example (x : Bool) : renderDoc x (exCfg false 100) (wrapAll [.quote] (docOf exLs2)) =
    .ok (spanHtml [.quote] (codeHtml (Render.nulStr "a ".toList) (Render.nulStr (spanContent exR2)) (Render.nulStr " z".toList))) :=
  doc_span_multiline_render_nested (exCfg false 100) _ _ _ _ 1 exLines2 (by decide +kernel) [.newline, .escape] _ rfl
    quietTick_stock stockPre [] rfl (by decide) [.quote] (by decide) (chainFor_stock _) (by decide) (by decide +kernel) rfl x

/-- … and that is: the document, and the output — the line ending one space, `<b>` escaped, no `>` from the prefix -/
example : wrapAll [.quote] (docOf exLs2) = "> a ``x\n> y <b>`` z".toList ∧
    spanHtml [.quote] (codeHtml (Render.nulStr "a ".toList) (Render.nulStr (spanContent exR2)) (Render.nulStr " z".toList)) =
      "<blockquote>\n<p>a <code>x y &lt;b&gt;</code> z</p>\n</blockquote>\n".toList := by
  decide +kernel

/-- the span ``a ``x ⏎ y`` `` in a bullet item, `- a ``x ⏎ ␠␠y```: the paragraph tags are dropped (tight item) -/
def exLs3 : List (List Char) := ["a ``x".toList, "y``".toList]

theorem exLines3 : SpanLines exLs3 "a ".toList "x\ny".toList [] 1 :=
  ⟨⟨'a', _, _, rfl, by decide⟩, by decide +kernel, by decide +kernel, by decide +kernel, by decide, by decide,
    by decide, by decide +kernel⟩

example (x : Bool) : renderDoc x (exCfg false 100) (wrapAll [.bullet '-'] (docOf exLs3)) =
    .ok (spanHtml [.bullet '-'] (codeHtml (Render.nulStr "a ".toList) (Render.nulStr (spanContent "x\ny".toList)) (Render.nulStr []))) :=
  doc_span_multiline_render_nested (exCfg false 100) _ _ _ _ 1 exLines3 (by decide +kernel) [.newline, .escape] _ rfl
    quietTick_stock stockPre [] rfl (by decide) [.bullet '-'] (by decide) (chainFor_stock _) (by decide) (by decide +kernel) rfl x

example : wrapAll [.bullet '-'] (docOf exLs3) = "- a ``x\n  y``".toList ∧
    spanHtml [.bullet '-'] (codeHtml (Render.nulStr "a ".toList) (Render.nulStr (spanContent "x\ny".toList)) (Render.nulStr [])) =
      "<ul>\n<li>a <code>x y</code></li>\n</ul>\n".toList := by
  decide +kernel

/-- three levels — an ordered item in a block quote in a bullet item — around the three-line paragraph of
    `Props/C11SpanMulti.lean` (`exLs`): every line carries all three prefixes -/
example (x : Bool) :
    renderDoc x (exCfg false 100) (wrapAll [.bullet '-', .quote, .ordered ['1'] '.'] (docOf exLs)) =
      .ok (spanHtml [.bullet '-', .quote, .ordered ['1'] '.']
        (codeHtml (Render.nulStr "a ".toList) (Render.nulStr (spanContent exR)) (Render.nulStr " w".toList))) :=
  doc_span_multiline_render_nested (exCfg false 100) _ _ _ _ 1 exLines (by decide +kernel) [.newline, .escape] _ rfl
    quietTick_stock stockPre [] rfl (by decide) [.bullet '-', .quote, .ordered ['1'] '.'] (by decide) (chainFor_stock _)
    (by decide) (by decide +kernel) rfl x

example : wrapAll [.bullet '-', .quote, .ordered ['1'] '.'] (docOf exLs) =
      "- > 1. a ``x\n  >    y <b>\n  >    z`` w".toList ∧
    spanHtml [.bullet '-', .quote, .ordered ['1'] '.']
        (codeHtml (Render.nulStr "a ".toList) (Render.nulStr (spanContent exR)) (Render.nulStr " w".toList)) =
      "<ul>\n<li>\n<blockquote>\n<ol>\n<li>a <code>x y &lt;b&gt; z</code> w</li>\n</ol>\n</blockquote>\n</li>\n</ul>\n".toList := by
  decide +kernel

/-- the PADDED payload of `Props/C11SpanMulti.lean` (`exTs`: three lines, the second indented and with trailing
    blanks, the third markup, an entity and emphasis) in an ordered item in a block quote:
    `doc_span_padded_lines_render_nested` applies -/
example (x : Bool) :
    renderDoc x (exCfg false 100)
        (wrapAll [.quote, .ordered ['7'] ')'] (docOf (paddedLines "a ".toList 1 exTs " w".toList))) =
      .ok (spanHtml [.quote, .ordered ['7'] ')']
        (codeHtml (Render.nulStr "a ".toList) (Render.nulStr (spaced exTs)) (Render.nulStr " w".toList))) :=
  doc_span_padded_lines_render_nested (exCfg false 100) _ _ 1 exTs
    (spanLines_padded _ _ 1 exTs ⟨'a', _, rfl, by decide⟩ (by decide) (by decide) (by decide) (by decide) (by decide)
      (by decide +kernel) (by decide +kernel) (by decide +kernel) (by decide +kernel))
    (by decide +kernel) (by decide +kernel) (by decide +kernel) [.newline, .escape] _ rfl quietTick_stock stockPre [] rfl
    (by decide) [.quote, .ordered ['7'] ')'] (by decide +kernel) (chainFor_stock _) (by decide) (by decide +kernel) rfl x

example : wrapAll [.quote, .ordered ['7'] ')'] (docOf (paddedLines "a ".toList 1 exTs " w".toList)) =
      "> 7) a `` x\n>       y  \n>    <b>&amp;*z* `` w".toList ∧
    spanHtml [.quote, .ordered ['7'] ')']
        (codeHtml (Render.nulStr "a ".toList) (Render.nulStr (spaced exTs)) (Render.nulStr " w".toList)) =
      "<blockquote>\n<ol start=\"7\">\n<li>a <code>x    y   &lt;b&gt;&amp;amp;*z*</code> w</li>\n</ol>\n</blockquote>\n".toList := by
  decide +kernel

/-- with the `sourcepos` plugin (`doc_span_multiline_render_nested_sp`; by evaluation here): the `CodeInline` node
    carries the position of the whole two-line span inside the quote, 1:5 – 2:9 -/
example : renderDoc false (exCfg true 100) (wrapAll [.quote] (docOf exLs2)) =
    .ok ("<blockquote data-sourcepos=\"1:1-2:11\">\n<p data-sourcepos=\"1:3-2:11\">a " ++
      "<code data-sourcepos=\"1:5-2:9\">x y &lt;b&gt;</code> z</p>\n</blockquote>\n").toList := by
  decide +kernel

/-- the tree of `doc_span_multiline_nested` for `> a ``x ⏎ > y <b>`` z`: the span ranges over bytes 4 .. 17 of the
    source (both lines, the second line's `"> "` inside the range), the content over bytes 6 .. 15 — while the
    content itself, `x y <b>`, holds no prefix character -/
example : parseDoc (exCfg false 100) (wrapAll [.quote] (docOf exLs2)) =
    .ok ⟨.blk .root, some (0, 19), [],
      [⟨.blk .blockquote, some (0, 19), [],
        [⟨.blk .paragraph, some (2, 19), [],
          [⟨.inl (.text ['a', ' ']), some (2, 4), [], []⟩,
           ⟨.inl (.codeInline '`' 2), some (4, 17), [],
             [⟨.inl (.text ['x', ' ', 'y', ' ', '<', 'b', '>']), some (6, 15), [], []⟩]⟩,
           ⟨.inl (.text [' ', 'z']), some (17, 19), [], []⟩]⟩]⟩]⟩ := by
  have h := doc_span_multiline_nested (exCfg false 100) _ _ _ _ 1 exLines2 (by decide +kernel) [.newline, .escape] _ rfl
    quietTick_stock stockPre [] rfl (by decide) [.quote] (by decide) (chainFor_stock _) (by decide) (by decide +kernel) rfl
  have hE : Lines.byteLen (wrapAll [.quote] (docOf exLs2)) = 19 := by decide +kernel
  have e0 : "a ".toList = ['a', ' '] ∧ " z".toList = [' ', 'z'] := by decide
  have e1 : Lines.byteLen ['a', ' '] = 2 ∧ Lines.byteLen exR2 = 7 ∧ Lines.byteLen [' ', 'z'] = 2 := by
    decide +kernel
  have e2 : spanContent exR2 = ['x', ' ', 'y', ' ', '<', 'b', '>'] ∧ padW exR2 = 0 := by decide +kernel
  have e3 : (List.range 16).map (trOf 2 exLs2 (wrapAllLines [.quote] exLs2)) =
      [2, 3, 4, 5, 6, 7, 10, 11, 12, 13, 14, 15, 16, 17, 18, 19] := by decide +kernel
  have t : ∀ a v, ((List.range 16).map (trOf 2 exLs2 (wrapAllLines [.quote] exLs2)))[a]? = some v →
      trOf 2 exLs2 (wrapAllLines [.quote] exLs2) a = v := by
    intro a v hv
    rw [List.getElem?_map] at hv
    cases hr : (List.range 16)[a]? with
    | none => rw [hr] at hv; cases hv
    | some b =>
      rw [hr] at hv
      have : b = a := by
        have := List.getElem?_eq_some_iff.mp hr
        obtain ⟨hlt, hb⟩ := this
        simpa using hb.symm
      subst this
      simpa using hv
  rw [e3] at t
  rw [h, hE, e0.1, e0.2]
  simp [rawNodes, txtR, codeR, spanRange, innerRange, e1.1, e1.2.1, e1.2.2, e2.1, e2.2, wrapForestN, spanLeaf, tightOf,
    stepTight, Wrapper.isQuote, widthAll, Wrapper.width, Wrapper.mk, Wrapper.dnodeL, Wrapper.kind,
    t 0 2 rfl, t 2 4 rfl, t 4 6 rfl, t 11 15 rfl, t 13 17 rfl, t 15 19 rfl]

/-- the translation on that document (`nested_tr_spec`): line 0 starts at 0, line 1 at 6 of the text
    (`a ``x⏎y <b>`` z`); offsets on line 0 move by 2, on line 1 by 4 -/
example : starts 0 exLs2 = [0, 6] ∧
    (List.range 16).map (trOf 2 exLs2 (wrapAllLines [.quote] exLs2)) =
      [2, 3, 4, 5, 6, 7, 10, 11, 12, 13, 14, 15, 16, 17, 18, 19] := by
  decide +kernel

/-- tabs are excluded by hypothesis (C06's simulation is for tab-free documents), and "character for character"
    does fail for one: a tab of which the quote marker's optional space takes one column (`>⇥y`) reaches the payload
    as the remaining two columns of SPACES; a tab behind the complete prefix stays a tab — by evaluation: -/
example : renderDoc false (exCfg false 100) "> a ``x\n>\ty``".toList =
      .ok "<blockquote>\n<p>a <code>x   y</code></p>\n</blockquote>\n".toList ∧
    renderDoc false (exCfg false 100) "> a ``x\n> \ty``".toList =
      .ok "<blockquote>\n<p>a <code>x \ty</code></p>\n</blockquote>\n".toList := by
  decide +kernel

/-- NOT covered: lazy continuation lines (no marker on the second line).  By evaluation the result is the same
    paragraph — for a block quote and for a list item: -/
example : renderDoc false (exCfg false 100) "> a ``x\ny <b>`` z".toList =
      .ok "<blockquote>\n<p>a <code>x y &lt;b&gt;</code> z</p>\n</blockquote>\n".toList ∧
    renderDoc false (exCfg false 100) "- a ``x\ny``".toList = .ok "<ul>\n<li>a <code>x y</code></li>\n</ul>\n".toList := by
  decide +kernel

/-- `ContLine` per line is needed inside containers too: a second line that opens a list ends paragraph and span -/
example : renderDoc false (exCfg false 100) "> a ``x\n> - y``".toList =
    .ok "<blockquote>\n<p>a ``x</p>\n<ul>\n<li>y``</li>\n</ul>\n</blockquote>\n".toList := by
  decide +kernel

end examples

/-! ## 4. paragraph lines in front of the opening line and behind the closing line -/

/-- the lines `Ls` form ONE top-level paragraph, and that paragraph reads
    `A₁ ⏎ … ⏎ A_a ++ `ᵏ⁺¹ R `ᵏ⁺¹ ++ B₁ ⏎ … ⏎ B_b` (`As`, `Bs` the pieces): plain pieces, soft line breaks between them -/
structure MidLines (Ls As : List (List Char)) (R : List Char) (Bs : List (List Char)) (k : Nat) : Prop where
  /-- the first line starts with a character no block rule but `paragraph` claims -/
  first : ∃ c r rest, Ls = (c :: r) :: rest ∧ ParaFirst c
  noTerm : ∀ l ∈ Ls, NoTerm l
  /-- every further line continues the paragraph -/
  cont : ∀ l ∈ Ls.tail, ContLine l
  /-- the text of the paragraph -/
  doc : docOf Ls = docOf As ++ rawSpan k R ++ docOf Bs
  neA : As ≠ []
  neB : Bs ≠ []
  /-- the pieces are plain text (no character of the text rule's stop set); no piece in front of a line feed ends
      with a space (no hard break, nothing to pop), nothing behind a line feed starts with a blank -/
  softA : SoftOk As ['`']
  softB : SoftOk Bs []
  /-- no empty piece between two line feeds (implied by `cont`: a paragraph has no empty line; asked for directly
      — it is what the serializer needs: a `cr` at the start of a line appends nothing) -/
  outA : OutOk false As
  outB : OutOk false Bs
  /-- the last line does not end with a blank -/
  postEnd : ∀ c ∈ (docOf Bs).getLast?, Inline.isSpTab c = false
  /-- `R` (line feeds allowed): not empty, no backtick at either end, no run of `k + 1` backticks -/
  raw : CodePair.RawOk '`' k R

section midcore
variable (cfg : DocCfg) (src : List Char) (As Bs : List (List Char)) (R : List Char) (k : Nat)
  (hAs : As ≠ []) (hBs : Bs ≠ []) (hpre : SoftOk As ['`']) (hpost : SoftOk Bs [])
  (hoA : OutOk false As) (hoB : OutOk false Bs) (hR : CodePair.RawOk '`' k R)
  (htrim : Inline.trimSrc (docOf As ++ rawSpan k R ++ docOf Bs) =
    (0, InlineOps.byteLen (docOf As ++ rawSpan k R ++ docOf Bs)))
  (c1 c2 : List Inline.RuleId) (hic : cfg.inlineChain = .text :: .newline :: (c1 ++ .backticks :: c2))
  (hq : ∀ r ∈ c1, QuietTick r) (hmn : 0 < cfg.maxNesting)
  (w : List Wrapper) (E W : Nat) (m : List (Nat × Nat)) (tr : Nat → Nat)
  (hm : ∀ a, InlineOps.getSourcePosFor (m.map fun kv => (kv.1, kv.2 + W)) a = .ok (tr a))
  (hb : parseBlocks cfg.blockCfg src =
    .ok (⟨.root, some (0, E), wrapForest E w 0 (paraLeaf (docOf As ++ rawSpan k R ++ docOf Bs) m 0 W E (tightOf w))⟩, []))
include hAs hBs hpre hpost hR htrim hic hq hmn hm hb

omit hoA hoB in
/-- the document tree, given the block tree -/
theorem parseDoc_of_blocks_mid :
    parseDoc cfg src =
      .ok ⟨.blk .root, some (0, E), spAttrs cfg src (0, E),
        wrapForestN (spAttrs cfg src) E w 0
          (spanLeaf (spAttrs cfg src) W E (tightOf w) (midNodes (spAttrs cfg src) tr k As R Bs))⟩ := by
  have hpi := parseInline_mid (cfg.inlineCfg []) hmn c1 c2 hic hq As Bs R k _ tr hm hAs hBs hpre hpost hR htrim
  have hsl := spliceList_paraLeaf (cfg.inlineCfg []) (docOf As ++ rawSpan k R ++ docOf Bs) m 0 W E (tightOf w) _ hpi
  rw [ofInlineList_mid, Nat.add_zero] at hsl
  have hsf := splice_wrapForest (cfg.inlineCfg []) E _ _ hsl w 0
  unfold parseDoc
  rw [hb]
  refine afterBlocks_forest cfg src (0, E) [] _ _ _ hsf
    (joinFix_wrapForestN _ E _ (joinFix_spanLeaf _ _ _ _ _ (joinFix_midNodes _ tr k As R Bs hR.ne)) w 0) ?_ ?_
  · intro hs; rw [spAttrs_off hs]
  · intro hs
    rw [spAttrs_on hs]
    exact sourcepos_wrapForestN src E _ _ (sourcepos_spanLeaf src W E _ _ _ (sourcepos_midNodes src tr k As R Bs)) w 0

include hoA hoB in
/-- the rendering, given the block tree -/
theorem renderDoc_of_blocks_mid (x : Bool) :
    renderDoc x cfg src =
      .ok (Render.replaceNul (spanHtmlA (spAttrs cfg src) E
        (openTag tP (spAttrs cfg src (W, E)) ++
          inlHtml (spAttrs cfg src (spanRange tr k (docOf As) R)) (docOf As) (spanContent R) (docOf Bs) ++
          closeTag tP ++ ['\n'])
        (inlHtml (spAttrs cfg src (spanRange tr k (docOf As) R)) (docOf As) (spanContent R) (docOf Bs)) w 0)) := by
  have hp := parseDoc_of_blocks_mid cfg src As Bs R k hAs hBs hpre hpost hR htrim c1 c2 hic hq hmn w E W m tr hm hb
  have hev := render_wrapForestN cfg.entity cfg.langPrefix (spAttrs cfg src) E _ _
    (renderList_spanLeaf cfg.entity cfg.langPrefix (spAttrs cfg src) W E (tightOf w) _ _
      (renderList_midNodes cfg.entity cfg.langPrefix (spAttrs cfg src) tr k As R Bs)) w 0
  have hbl := blocky_inlForest x (spAttrs cfg src) E (spAttrs cfg src (W, E))
    (inlOut_mid x (spAttrs cfg src (spanRange tr k (docOf As) R)) As (spanContent R) Bs hoA hoB) w 0
  unfold renderDoc
  rw [hp]
  simp only [renderEvents_rootL cfg _ _ _ _ hev, serialize_blocky hbl]

end midcore

section midlines
variable {Ls As Bs : List (List Char)} {R : List Char} {k : Nat} (h : MidLines Ls As R Bs k)
include h

/-- the text in front of the span is not empty: it starts with the first line's first character -/
theorem MidLines.pre_cons : ∃ c r, docOf As = c :: r ∧ ParaFirst c := by
  obtain ⟨c, r, rest, hL, hc⟩ := h.first
  obtain ⟨t, ht⟩ := docOf_cons_cons c r rest
  have hd := h.doc
  rw [hL, ht] at hd
  cases hp : docOf As with
  | nil =>
    obtain ⟨r0, hr0⟩ := rawSpan_head k R
    rw [hp, hr0] at hd
    simp only [List.nil_append, List.cons_append, List.cons.injEq] at hd
    exact absurd hd.1 hc.2.2.1
  | cons d t' =>
    rw [hp] at hd
    simp only [List.cons_append, List.cons.injEq] at hd
    exact ⟨d, t', rfl, hd.1 ▸ hc⟩

theorem MidLines.trim :
    Inline.trimSrc (docOf As ++ rawSpan k R ++ docOf Bs) =
      (0, InlineOps.byteLen (docOf As ++ rawSpan k R ++ docOf Bs)) := by
  obtain ⟨c, r, hp, hc⟩ := h.pre_cons
  exact trim_of_ends (docOf As) _ (docOf Bs) c r hp hc (fun a => getLast?_rawSpan a k R) h.postEnd

end midlines

section mid
variable (cfg : DocCfg) (Ls As Bs : List (List Char)) (R : List Char) (k : Nat) (h : MidLines Ls As R Bs k)
  (htab : ∀ l ∈ Ls, '\t' ∉ l)
  (c1 c2 : List Inline.RuleId) (hic : cfg.inlineChain = .text :: .newline :: (c1 ++ .backticks :: c2))
  (hq : ∀ r ∈ c1, QuietTick r)
  (bpre bpost : List Block.RuleId) (hbc : cfg.blockChain = bpre ++ .paragraph :: bpost) (hbp : .paragraph ∉ bpre)
  (w : List Wrapper) (hw : ∀ x ∈ w, x.Ok) (hch : ChainFor cfg.blockChain w)
  (hmn : depthCost w < cfg.maxNesting)
  (hsize : Lines.byteLen (wrapAll w (docOf Ls)) + 20 < 2147483648)
include h htab hic hq hbc hbp hw hch hmn hsize

omit hic hq in
theorem blocks_mid_nested :
    parseBlocks cfg.blockCfg (wrapAll w (docOf Ls)) =
      .ok (⟨.root, some (0, Lines.byteLen (wrapAll w (docOf Ls))),
        wrapForest (Lines.byteLen (wrapAll w (docOf Ls))) w 0
          (paraLeaf (docOf As ++ rawSpan k R ++ docOf Bs) (lineTable Ls (wrapAllLines w Ls)) 0 (widthAll w)
            (Lines.byteLen (wrapAll w (docOf Ls))) (tightOf w))⟩, []) := by
  rw [← h.doc]
  exact blocks_nested_para cfg Ls htab bpre bpost hbc hbp w hw hch hmn hsize h.first h.noTerm h.cont

omit hw hbc hbp hch hmn hsize hic hq htab in
theorem table_mid (a : Nat) :
    InlineOps.getSourcePosFor ((lineTable Ls (wrapAllLines w Ls)).map fun kv => (kv.1, kv.2 + widthAll w)) a =
      .ok (trOf (widthAll w) Ls (wrapAllLines w Ls) a) := by
  obtain ⟨c, r, rest, hL, _⟩ := h.first
  exact trOf_ok (wrapAllLines_length w Ls) (by rw [hL]; simp) a

/-- **`doc_span_midparagraph_nested`, any `sourcepos`.**  The lines `Ls` (`MidLines`: one paragraph
    `A₁ ⏎ … ⏎ A_a `ᵏ⁺¹ R `ᵏ⁺¹ B₁ ⏎ … ⏎ B_b`), tab-free, inside any wrappers `w`: the wrapper nodes around the `Paragraph`
    (around nothing when the innermost wrapper is a list item) over `midNodes`: `Text A₁`, `Softbreak`, …, `Text A_a`
    (none for an empty piece), ONE `CodeInline` over the whole span whose single child is `Text (spanContent R)`,
    `Text B₁`, `Softbreak`, …, `Text B_b`; a `Softbreak` ranges over its line feed; every range through `trOf`
    (`nested_tr_spec`). -/
theorem doc_span_midparagraph_nested_sp :
    parseDoc cfg (wrapAll w (docOf Ls)) =
      .ok ⟨.blk .root, some (0, Lines.byteLen (wrapAll w (docOf Ls))),
        spAttrs cfg (wrapAll w (docOf Ls)) (0, Lines.byteLen (wrapAll w (docOf Ls))),
        wrapForestN (spAttrs cfg (wrapAll w (docOf Ls))) (Lines.byteLen (wrapAll w (docOf Ls))) w 0
          (spanLeaf (spAttrs cfg (wrapAll w (docOf Ls))) (widthAll w) (Lines.byteLen (wrapAll w (docOf Ls))) (tightOf w)
            (midNodes (spAttrs cfg (wrapAll w (docOf Ls))) (trOf (widthAll w) Ls (wrapAllLines w Ls)) k As R Bs))⟩ :=
  parseDoc_of_blocks_mid cfg _ As Bs R k h.neA h.neB h.softA h.softB h.raw h.trim c1 c2 hic hq (by omega) w _ _
    (lineTable Ls (wrapAllLines w Ls)) _ (table_mid Ls As Bs R k h w)
    (blocks_mid_nested cfg Ls As Bs R k h htab bpre bpost hbc hbp w hw hch hmn hsize)

/-- **`doc_span_midparagraph_nested`** (no `sourcepos` plugin): the tree, exactly, no attributes anywhere -/
theorem doc_span_midparagraph_nested (hsp : cfg.sourcepos = false) :
    parseDoc cfg (wrapAll w (docOf Ls)) =
      .ok ⟨.blk .root, some (0, Lines.byteLen (wrapAll w (docOf Ls))), [],
        wrapForestN (fun _ => []) (Lines.byteLen (wrapAll w (docOf Ls))) w 0
          (spanLeaf (fun _ => []) (widthAll w) (Lines.byteLen (wrapAll w (docOf Ls))) (tightOf w)
            (midNodes (fun _ => []) (trOf (widthAll w) Ls (wrapAllLines w Ls)) k As R Bs))⟩ := by
  have := doc_span_midparagraph_nested_sp cfg Ls As Bs R k h htab c1 c2 hic hq bpre bpost hbc hbp w hw hch hmn hsize
  rw [spAttrs_off hsp] at this
  exact this

/-- **`doc_span_midparagraph_render_nested`, any `sourcepos`** -/
theorem doc_span_midparagraph_render_nested_sp (x : Bool) :
    renderDoc x cfg (wrapAll w (docOf Ls)) =
      .ok (Render.replaceNul (spanHtmlA (spAttrs cfg (wrapAll w (docOf Ls))) (Lines.byteLen (wrapAll w (docOf Ls)))
        (openTag tP (spAttrs cfg (wrapAll w (docOf Ls)) (widthAll w, Lines.byteLen (wrapAll w (docOf Ls)))) ++
          inlHtml (spAttrs cfg (wrapAll w (docOf Ls))
              (spanRange (trOf (widthAll w) Ls (wrapAllLines w Ls)) k (docOf As) R))
            (docOf As) (spanContent R) (docOf Bs) ++ closeTag tP ++ ['\n'])
        (inlHtml (spAttrs cfg (wrapAll w (docOf Ls))
            (spanRange (trOf (widthAll w) Ls (wrapAllLines w Ls)) k (docOf As) R))
          (docOf As) (spanContent R) (docOf Bs)) w 0)) :=
  renderDoc_of_blocks_mid cfg _ As Bs R k h.neA h.neB h.softA h.softB h.outA h.outB h.raw h.trim c1 c2 hic hq
    (by omega) w _ _ (lineTable Ls (wrapAllLines w Ls)) _ (table_mid Ls As Bs R k h w)
    (blocks_mid_nested cfg Ls As Bs R k h htab bpre bpost hbc hbp w hw hch hmn hsize) x

/-- **`doc_span_midparagraph_render_nested`** (no `sourcepos` plugin), both serializers: the wrappers' HTML around
    the text in front — its soft breaks as line feeds —, `<code>` content `</code>`, the text behind: the source's
    line endings OUTSIDE the span stay line feeds, those INSIDE it are spaces (`spanContent R`) -/
theorem doc_span_midparagraph_render_nested (hsp : cfg.sourcepos = false) (x : Bool) :
    renderDoc x cfg (wrapAll w (docOf Ls)) =
      .ok (spanHtml w (codeHtml (Render.nulStr (docOf As)) (Render.nulStr (spanContent R)) (Render.nulStr (docOf Bs)))) :=
  plain_html cfg _ hsp x _ _ _ (docOf As) (spanContent R) (docOf Bs) w _
    (doc_span_midparagraph_render_nested_sp cfg Ls As Bs R k h htab c1 c2 hic hq bpre bpost hbc hbp w hw hch hmn hsize x)

end mid

section midtop
variable (cfg : DocCfg) (Ls As Bs : List (List Char)) (R : List Char) (k : Nat) (h : MidLines Ls As R Bs k)
  (c1 c2 : List Inline.RuleId) (hic : cfg.inlineChain = .text :: .newline :: (c1 ++ .backticks :: c2))
  (hq : ∀ r ∈ c1, QuietTick r)
  (bpre bpost : List Block.RuleId) (hbc : cfg.blockChain = bpre ++ .paragraph :: bpost) (hbp : .paragraph ∉ bpre)
  (hmn : 0 < cfg.maxNesting)
include h hic hq hbc hbp hmn

omit hic hq in
theorem blocks_mid_top :
    parseBlocks cfg.blockCfg (docOf Ls) =
      .ok (⟨.root, some (0, Lines.byteLen (docOf Ls)),
        wrapForest (Lines.byteLen (docOf Ls)) [] 0
          (paraLeaf (docOf As ++ rawSpan k R ++ docOf Bs) (idTable 0 Ls) 0 0 (Lines.byteLen (docOf Ls)) (tightOf []))⟩, []) := by
  obtain ⟨c, r, rest, hL, hc⟩ := h.first
  have hnt := h.noTerm
  have hcont := h.cont
  rw [← h.doc]
  subst hL
  have := parseBlocks_lines hnt hc hcont (cfg := cfg.blockCfg) hbc hbp hmn
  simpa [wrapForest, paraLeaf, tightOf, inlineRootAt, map_add_zero] using this

omit hbc hbp hmn hic hq in
theorem table_mid_top (a : Nat) :
    InlineOps.getSourcePosFor ((idTable 0 Ls).map fun kv => (kv.1, kv.2 + 0)) a = .ok a := by
  obtain ⟨c, r, rest, hL, hc⟩ := h.first
  rw [map_add_zero, hL]
  exact idTable_translate _ _ a

/-- **`doc_span_midparagraph`** (top level, tabs allowed, any `sourcepos`): `Root[Paragraph[midNodes]]`, root and
    paragraph over the whole source, every range the byte range in the source: `Text A₁`, `Softbreak` (over the line
    feed), …, `Text A_a`, ONE `CodeInline` over the whole span with the single child `Text (spanContent R)`, `Text B₁`,
    `Softbreak`, …, `Text B_b` -/
theorem doc_span_midparagraph :
    parseDoc cfg (docOf Ls) =
      .ok ⟨.blk .root, some (0, Lines.byteLen (docOf Ls)), spAttrs cfg (docOf Ls) (0, Lines.byteLen (docOf Ls)),
        [⟨.blk .paragraph, some (0, Lines.byteLen (docOf Ls)), spAttrs cfg (docOf Ls) (0, Lines.byteLen (docOf Ls)),
          midNodes (spAttrs cfg (docOf Ls)) (fun a => a) k As R Bs⟩]⟩ := by
  have := parseDoc_of_blocks_mid cfg _ As Bs R k h.neA h.neB h.softA h.softB h.raw h.trim c1 c2 hic hq hmn [] _ 0
    (idTable 0 Ls) (fun a => a) (table_mid_top Ls As Bs R k h)
    (blocks_mid_top cfg Ls As Bs R k h bpre bpost hbc hbp hmn)
  simpa [wrapForestN, spanLeaf, tightOf] using this

/-- **`doc_span_midparagraph_render`** (top level, tabs allowed, no `sourcepos` plugin), both serializers:
    `<p>` `A₁ ⏎ … ⏎ A_a` `<code>` content `</code>` `B₁ ⏎ … ⏎ B_b` `</p>` LF — ONE paragraph, ONE code element; the line
    endings outside the span are line feeds, those inside it spaces; exactly `& < > "` escaped, NUL replaced -/
theorem doc_span_midparagraph_render (hsp : cfg.sourcepos = false) (x : Bool) :
    renderDoc x cfg (docOf Ls) =
      .ok ("<p>".toList ++
        codeHtml (Render.nulStr (docOf As)) (Render.nulStr (spanContent R)) (Render.nulStr (docOf Bs)) ++
        "</p>\n".toList) := by
  have := renderDoc_of_blocks_mid cfg _ As Bs R k h.neA h.neB h.softA h.softB h.outA h.outB h.raw h.trim c1 c2 hic hq
    hmn [] _ 0 (idTable 0 Ls) (fun a => a) (table_mid_top Ls As Bs R k h)
    (blocks_mid_top cfg Ls As Bs R k h bpre bpost hbc hbp hmn) x
  have := plain_html cfg _ hsp x _ 0 _ (docOf As) (spanContent R) (docOf Bs) [] _ this
  simpa [spanHtml] using this

end midtop

/-! ## 5. instances of part 2, and the limits -/

section examples2

/-- the four-line paragraph `p q ⏎ a ``x ⏎ y <b>`` z ⏎ r s`: a line in front of the opening line, one behind the closing
    line; `As = ["p q", "a "]`, `R = "x⏎y <b>"`, `Bs = [" z", "r s"]` -/
def exLs4 : List (List Char) := ["p q".toList, "a ``x".toList, "y <b>`` z".toList, "r s".toList]
def exAs : List (List Char) := ["p q".toList, "a ".toList]
def exBs : List (List Char) := [" z".toList, "r s".toList]

theorem exMid : MidLines exLs4 exAs exR2 exBs 1 :=
  ⟨⟨'p', _, _, rfl, by decide⟩, by decide +kernel, by decide +kernel, by decide +kernel, by decide, by decide,
    by decide +kernel, by decide +kernel, by decide +kernel, by decide +kernel, by decide +kernel, by decide +kernel⟩

/-- `doc_span_midparagraph_render` applies on the stock configuration (both serializers) … -/
example (x : Bool) : renderDoc x (exCfg false 100) (docOf exLs4) =
    .ok ("<p>".toList ++ codeHtml (Render.nulStr (docOf exAs)) (Render.nulStr (spanContent exR2))
      (Render.nulStr (docOf exBs)) ++ "</p>\n".toList) :=
  doc_span_midparagraph_render (exCfg false 100) _ _ _ _ 1 exMid [.escape] _ rfl
    (fun r hr => quietTick_stock r (List.mem_cons_of_mem _ hr)) stockPre [] rfl (by decide) (by decide) rfl x

/-- … and that is: the line endings OUTSIDE the span are line feeds, the one INSIDE it is a space -/
example : docOf exLs4 = "p q\na ``x\ny <b>`` z\nr s".toList ∧
    "<p>".toList ++ codeHtml (Render.nulStr (docOf exAs)) (Render.nulStr (spanContent exR2))
      (Render.nulStr (docOf exBs)) ++ "</p>\n".toList = "<p>p q\na <code>x y &lt;b&gt;</code> z\nr s</p>\n".toList := by
  decide +kernel

/-- the span closing at the end of a line, `p ⏎ a``x`` ⏎ q`: the piece behind the span is empty
    (`As = ["p", "a"]`, `Bs = ["", "q"]`) -/
def exLs5 : List (List Char) := ["p".toList, "a``x``".toList, "q".toList]

theorem exMid2 : MidLines exLs5 ["p".toList, "a".toList] "x".toList [[], "q".toList] 1 :=
  ⟨⟨'p', _, _, rfl, by decide⟩, by decide +kernel, by decide +kernel, by decide +kernel, by decide, by decide,
    by decide +kernel, by decide +kernel, by decide +kernel, by decide +kernel, by decide +kernel, by decide +kernel⟩

example (x : Bool) : renderDoc x (exCfg false 100) (docOf exLs5) = .ok "<p>p\na<code>x</code>\nq</p>\n".toList := by
  have := doc_span_midparagraph_render (exCfg false 100) _ _ _ _ 1 exMid2 [.escape] _ rfl
    (fun r hr => quietTick_stock r (List.mem_cons_of_mem _ hr)) stockPre [] rfl (by decide) (by decide) rfl x
  rw [this]
  decide +kernel

/-- the tree of `doc_span_midparagraph` for that document (`p⏎a``x``⏎q`): `Text p`, `Softbreak` over byte 1 .. 2,
    `Text a`, the span over 3 .. 8 (content over 5 .. 6), `Softbreak` over 8 .. 9, `Text q` -/
example : parseDoc (exCfg false 100) (docOf exLs5) =
    .ok ⟨.blk .root, some (0, 10), [],
      [⟨.blk .paragraph, some (0, 10), [],
        [⟨.inl (.text ['p']), some (0, 1), [], []⟩,
         ⟨.inl .softbreak, some (1, 2), [], []⟩,
         ⟨.inl (.text ['a']), some (2, 3), [], []⟩,
         ⟨.inl (.codeInline '`' 2), some (3, 8), [], [⟨.inl (.text ['x']), some (5, 6), [], []⟩]⟩,
         ⟨.inl .softbreak, some (8, 9), [], []⟩,
         ⟨.inl (.text ['q']), some (9, 10), [], []⟩]⟩]⟩ := by
  have h := doc_span_midparagraph (exCfg false 100) _ _ _ _ 1 exMid2 [.escape] _ rfl
    (fun r hr => quietTick_stock r (List.mem_cons_of_mem _ hr)) stockPre [] rfl (by decide) (by decide)
  have hE : Lines.byteLen (docOf exLs5) = 10 := by decide +kernel
  have e1 : Lines.byteLen (docOf [['p'], ['a']]) = 3 ∧ 'p'.utf8Size = 1 ∧ 'a'.utf8Size = 1 ∧ 'x'.utf8Size = 1 ∧
      'q'.utf8Size = 1 := by decide +kernel
  have e2 : spanContent ['x'] = ['x'] ∧ padW ['x'] = 0 := by decide +kernel
  rw [h, hE, spAttrs_off rfl]
  simp [midNodes, linesR, sbR, txtR, codeR, spanRange, innerRange, e1.1, e1.2.1, e1.2.2.1, e1.2.2.2.1, e1.2.2.2.2,
    e2.1, e2.2, Lines.byteLen]

/-- inside containers (`doc_span_midparagraph_render_nested`): `> p q ⏎ > a ``x ⏎ > y <b>`` z ⏎ > r s` and the same in a
    bullet item -/
example (x : Bool) : renderDoc x (exCfg false 100) (wrapAll [.quote] (docOf exLs4)) =
      .ok "<blockquote>\n<p>p q\na <code>x y &lt;b&gt;</code> z\nr s</p>\n</blockquote>\n".toList ∧
    renderDoc x (exCfg false 100) (wrapAll [.bullet '-'] (docOf exLs4)) =
      .ok "<ul>\n<li>p q\na <code>x y &lt;b&gt;</code> z\nr s</li>\n</ul>\n".toList := by
  have h1 := doc_span_midparagraph_render_nested (exCfg false 100) _ _ _ _ 1 exMid (by decide +kernel) [.escape] _ rfl
    (fun r hr => quietTick_stock r (List.mem_cons_of_mem _ hr)) stockPre [] rfl (by decide) [.quote] (by decide)
    (chainFor_stock _) (by decide) (by decide +kernel) rfl x
  have h2 := doc_span_midparagraph_render_nested (exCfg false 100) _ _ _ _ 1 exMid (by decide +kernel) [.escape] _ rfl
    (fun r hr => quietTick_stock r (List.mem_cons_of_mem _ hr)) stockPre [] rfl (by decide) [.bullet '-'] (by decide)
    (chainFor_stock _) (by decide) (by decide +kernel) rfl x
  rw [h1, h2]
  decide +kernel

example : wrapAll [.quote] (docOf exLs4) = "> p q\n> a ``x\n> y <b>`` z\n> r s".toList ∧
    wrapAll [.bullet '-'] (docOf exLs4) = "- p q\n  a ``x\n  y <b>`` z\n  r s".toList := by
  decide +kernel

/-- `SoftOk` is needed for the statement as it stands — OUTSIDE the span the line ending is not always a bare line
    feed: two spaces or a backslash in front of it make a HARD break (`<br>`, the spaces are dropped), one space is
    dropped, blanks behind it are skipped.  The span itself is not affected in any of these (by evaluation): -/
example : ¬ SoftOk ["p  ".toList, "a ".toList] ['`'] ∧ ¬ SoftOk ["p".toList, "  a ".toList] ['`'] ∧
    renderDoc false (exCfg false 100) "p  \na ``x\ny``".toList = .ok "<p>p<br>\na <code>x y</code></p>\n".toList ∧
    renderDoc false (exCfg false 100) "p\\\na ``x\ny``".toList = .ok "<p>p<br>\na <code>x y</code></p>\n".toList ∧
    renderDoc false (exCfg false 100) "p \na ``x\ny``".toList = .ok "<p>p\na <code>x y</code></p>\n".toList ∧
    renderDoc false (exCfg false 100) "p\n  a ``x\ny``".toList = .ok "<p>p\na <code>x y</code></p>\n".toList ∧
    renderDoc false (exCfg false 100) "a ``x\ny``  \nq".toList = .ok "<p>a <code>x y</code><br>\nq</p>\n".toList := by
  decide +kernel

/-- a restriction of the STATEMENT (inherited from `Block.ContLine`, Lemmas/C11SpanMultiDefs.lean), not of the
    behaviour: a continuation line that starts with a backtick — the span on a line of its own, or the closing run
    at the start of a line — is not `ContLine` (a backtick is not `ParaFirst`: three of them open a fence), so
    `SpanLines` / `MidLines` do not cover it; by evaluation (model = crate) the paragraph and the span go on: -/
example : ¬ ContLine "``x``".toList ∧ ¬ ContLine "`` b".toList ∧
    renderDoc false (exCfg false 100) "p\n``x``\nq".toList = .ok "<p>p\n<code>x</code>\nq</p>\n".toList ∧
    renderDoc false (exCfg false 100) "a ``x\n`` b".toList = .ok "<p>a <code>x </code> b</p>\n".toList := by
  decide +kernel

end examples2

/-
OPEN:
  1. LAZY continuation lines inside containers (`> a ``x⏎y```: no marker on line 2).  `wrapAll` prefixes every line;
     C06's `quote_commutes` / `item_commutes_gen` are about that document only.  Missing lemma: a C06-style
     simulation for the document in which some paragraph continuation lines lack the prefix (`bqScan` /
     `listLoop` reach them through `lazyScan` = the paragraph rule's `test_rules_at_line` with `blk_indent` of the
     container), giving the table entry `(p_j, start of line j)` WITHOUT `+ width` for those lines; the rest of the
     chain (`trOf_ok` on any well-formed table, `parseDoc_of_blocks_raw`) is table-agnostic.  By evaluation
     (section 3) the rendering is the same.
  2. HARD breaks and skipped blanks outside the span (`MidLines.softA/softB` exclude them): pieces ending with one
     or more spaces / a backslash in front of the line feed, continuation lines indented by 1–3 columns (or more)
     outside the span.  Missing lemma: `ruleNewline_soft` with `tailSize ≠ 0` (`trailingTextPop` shortening the text
     node: content and range end − tailSize; `Hardbreak` for `tailSize ≥ 2`) and with `(rest.takeWhile isSpTab).length
     ≠ 0` (the break's range then covers the blanks); `ruleEscape` on `\⏎`; then `Hardbreak` → `selfClose br; cr` in
     `out_linesE`.  The span's own node and content are unaffected (examples above).
  3. continuation lines that start with a backtick (fewer than three, so no fence): excluded by `Block.ContLine`
     (first non-blank character `ParaFirst`).  Missing lemma: `Block.quiet_silent` / `quiet_real` (Lemmas/
     C11SpanMultiPara.lean) for a line starting with one or two backticks followed by a non-backtick — only the fence
     rule looks at a backtick, and it wants three.
  4. tabs inside containers (`htab`): C06's simulations are for tab-free documents.  With a tab that the quote
     marker's optional space splits (`>⇥y`) the payload is NOT reproduced character for character (section 3).
-/

end MdIt.C11X
