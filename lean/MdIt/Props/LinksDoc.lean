/-
  C04, C13, C18 at WHOLE-DOCUMENT level: theorems about `MdIt.Pipeline.parseDoc` / `renderDoc`
  (`Model/Pipeline.lean`, checked against `md.parse(src)` / `.render()` by the stream `pipeline`),
  composed from the slices `Props/C04` (validator), `Props/Inline` (`parseInline_vals`, `HrefOK`),
  `Props/Block` (the induction scheme of `tokenize_wf`), `Props/Pipeline` (`Every`, `parseDoc_final`),
  `Props/NodeRender` (`render_induction`, `image_alt_is_display`), `Props/C13`, `Props/C18`,
  `Props/HtmlDecode`.  Every statement is for ALL configurations of the model (any subset / order of
  the nine block and ten html-free inline rules, any `max_nesting`, any case tables and entity
  table, with and without `sourcepos`) and ALL sources, conditional only on `parseDoc … = .ok t`.

  Part A (namespace `MdIt.Block`) — the reference map is an invariant of the block tokenizer:
    `reference_step`         the reference rule, real mode: children and kind untouched; the map is
                             unchanged or got exactly one `Refs.addDef` of the definition it parsed
    `tokenize_refs`          every tokenizer call (any depth) only `Extends` the map: a fold of
                             `Refs.addDef` over definitions the rule parsed (`IsDef`), in order
    `reference_no_node`      C13: the rule pushes no node
    `refs_first_wins`, `rule_first_wins`   C13: a present key keeps its entry (tokenizer / one rule)
    `parseBlocks_refs`       the final map is `Refs.buildMap N defs` (fold from the EMPTY map)
    `parseBlocks_refs_good`  C04 (i): every stored destination is `normalize_link` of something and
                             was accepted by `validate_link`
  Part B (namespace `MdIt.Pipeline`):
    `parseDoc_every_kind`    a predicate on node VALUES that the inline rules establish survives the
                             splice, join and sourcepos passes (C04 (iii))
    `doc_urls_safe`(`'`)     C04: every Link / Image / Autolink url anywhere in the tree is `SafeUrl`
    `doc_href_safe`          C04, output side: every `href` / `src` attribute of every trait call of
                             the rendering is such a url; how it is written; what the browser decodes
    `doc_href_output`        the same on the returned string: it is the concatenation of the pieces,
                             a tag piece is `<tag` attributes `>`, each `href` / `src` among them is
                             ` href="escape_html u"` with `u` safe
    `doc_link_render`        … and these are exactly the nodes' urls (`a` elements)
    `doc_reference_position_irrelevant`, `doc_reference_first_match`, `doc_reference_real_tables`
                             C13: ONE inline configuration, built from the FINAL map, for every
                             `InlineRoot`; a use resolves to the first matching definition of the
                             whole document
    `doc_image_alt`, `doc_img_events`   C18: the `alt` of every Image node / every `img` call is the
                             Alt model's `display` of the description = `docAltList`
  OPEN blocks (end of file): `defs` characterised by source lines; occurrences of `href=` by position.
-/
import MdIt.Props.Pipeline
import MdIt.Props.C04
import MdIt.Props.C13
import MdIt.Props.C18
import MdIt.Props.HtmlDecode

/-! # Part A: the reference map the block pass builds -/

namespace MdIt.Block
open MdIt.Lines (LineOffset)

/-- `normalize_reference` of a block configuration -/
def Cfg.N (cfg : Cfg) : List Nat → List Nat := Refs.normalize cfg.L cfg.U

/-- a destination the reference rule stores: an output of `normalize_link` that `validate_link`
    accepted -/
def GoodDest (u : List Nat) : Prop :=
  (∃ cs : List Char, u = Link.normalizeLink (Link.utf8 cs)) ∧ Link.validateLink u = true

/-- `d` is a definition the reference rule read off some text: label, destination and title are
    what `refParse` (everything in `ReferenceScanner::run` behind `get_lines(..).trim()`) returned -/
def IsDef (cfg : Cfg) (d : Refs.Def) : Prop :=
  ∃ str lines, refParse cfg str = .ok (some (d.label, d.entry.dest, d.entry.title, lines))

/-- `m'` is `m` after a sequence of definitions was met, in order: the fold of `Refs.addDef`
    (= "insert under the twice-normalised label if absent and the label is not blank") -/
def Extends (cfg : Cfg) (m m' : Refs.RefMap) : Prop :=
  ∃ defs : List Refs.Def, (∀ d ∈ defs, IsDef cfg d) ∧ m' = defs.foldl (Refs.addDef cfg.N) m

theorem Extends.refl (cfg : Cfg) (m : Refs.RefMap) : Extends cfg m m := ⟨[], by simp, rfl⟩

theorem Extends.trans {cfg : Cfg} {a b c : Refs.RefMap} (h1 : Extends cfg a b) (h2 : Extends cfg b c) :
    Extends cfg a c := by
  obtain ⟨d1, g1, rfl⟩ := h1
  obtain ⟨d2, g2, rfl⟩ := h2
  refine ⟨d1 ++ d2, ?_, by rw [List.foldl_append]⟩
  intro d hd
  rcases List.mem_append.mp hd with h | h
  · exact g1 d h
  · exact g2 d h

/-- the relation between the state a rule / tokenizer call gets and the one it hands back -/
def KeepsRefs (cfg : Cfg) (s s' : BState) : Prop := Extends cfg s.refs s'.refs

theorem KeepsRefs.of_eq {cfg : Cfg} {s s' : BState} (h : s'.refs = s.refs) : KeepsRefs cfg s s' := by
  unfold KeepsRefs; rw [h]; exact Extends.refl _ _

/-! ### the nine rules -/

theorem hr_refs {s s' : BState} {b : Bool} (h : hrRule s false = .ok (b, s')) : s'.refs = s.refs := by
  unfold hrRule at h
  crack h
  all_goals (subst_vars; rfl)

theorem code_refs {s s' : BState} {b : Bool} (h : codeRule s false = .ok (b, s')) : s'.refs = s.refs := by
  unfold codeRule at h
  crack h
  all_goals (subst_vars; rfl)

theorem fence_refs {s s' : BState} {b : Bool} (h : fenceRule s false = .ok (b, s')) : s'.refs = s.refs := by
  unfold fenceRule at h
  crack h
  all_goals (subst_vars; rfl)

theorem heading_refs {s s' : BState} {b : Bool} (h : headingRule s false = .ok (b, s')) :
    s'.refs = s.refs := by
  unfold headingRule at h
  crack h
  all_goals (subst_vars; rfl)

theorem paragraph_refs {test : Test} (ht : TestPure test) {fuel : Nat} {s s' : BState} {b : Bool}
    (h : paragraphRule test fuel s false = .ok (b, s')) : s'.refs = s.refs := by
  unfold paragraphRule at h
  crack h
  have h1 := (lazyScan_spec ht false _ _ _ _ ‹lazyScan _ _ _ _ _ = _›).1
  subst_vars
  rfl

theorem lheading_refs {test : Test} (ht : TestPure test) {fuel : Nat} {s s' : BState} {b : Bool}
    (h : lheadingRule test fuel s false = .ok (b, s')) : s'.refs = s.refs := by
  unfold lheadingRule at h
  crack h
  all_goals (try (have h1 := (lazyScan_spec ht true _ _ _ _ ‹lazyScan _ _ _ _ _ = _›).1))
  all_goals (subst_vars; rfl)

/-- the destination `refParse` hands out is `normalize_link` of the decoded raw destination, and
    `validate_link` accepted it (`if !validate_link(&href) { return false; }`) -/
theorem refParse_good {cfg : Cfg} {str : List Char} {raw href : List Nat} {title : Option (List Nat)}
    {lines : Nat} (h : refParse cfg str = .ok (some (raw, href, title, lines))) : GoodDest href := by
  unfold refParse at h
  crack h
  subst_vars
  refine ⟨⟨_, rfl⟩, ?_⟩
  have hv : ¬ ¬ Link.validateLink _ = true := ‹_›
  exact Decidable.not_not.mp hv

theorem IsDef.good {cfg : Cfg} {d : Refs.Def} (h : IsDef cfg d) : GoodDest d.entry.dest := by
  obtain ⟨str, lines, h⟩ := h
  exact refParse_good h

/-- **The reference rule.**  In real mode it never touches `children` (`reference_no_node`), and it
    either leaves the map alone or performs exactly one `Refs.addDef` with the definition it parsed. -/
theorem reference_step {cfg : Cfg} {test : Test} (ht : TestPure test) {fuel : Nat}
    {s s' : BState} {b : Bool} (h : referenceRule cfg test fuel s false = .ok (b, s')) :
    s'.children = s.children ∧ s'.nodeKind = s.nodeKind ∧
    (s'.refs = s.refs ∨
      ∃ d : Refs.Def, IsDef cfg d ∧ b = true ∧ s'.refs = Refs.addDef cfg.N s.refs d) := by
  unfold referenceRule at h
  crack h
  all_goals (try (have h1 := (lazyScan_spec ht false _ _ _ _ ‹lazyScan _ _ _ _ _ = _›).1))
  all_goals (subst_vars)
  all_goals (first | exact ⟨rfl, rfl, .inl rfl⟩ | skip)
  rename_i raw href title lines hparse hne _ _ _ _
  refine ⟨rfl, rfl, .inr ⟨⟨raw, ⟨href, title⟩⟩, ⟨_, _, hparse⟩, rfl, ?_⟩⟩
  have hne' : (Refs.normalize cfg.L cfg.U raw).isEmpty = false := by simpa using hne
  simp [Refs.addDef, Cfg.N, hne']

theorem reference_refs {cfg : Cfg} {test : Test} (ht : TestPure test) {fuel : Nat}
    {s s' : BState} {b : Bool} (h : referenceRule cfg test fuel s false = .ok (b, s')) :
    KeepsRefs cfg s s' := by
  rcases (reference_step ht h).2.2 with e | ⟨d, hd, _, e⟩
  · exact .of_eq e
  · exact ⟨[d], by simpa using hd, by simpa using e⟩

/-- the nested tokenizer only extends the map -/
def TokRefs (cfg : Cfg) (tok : Tok) : Prop := ∀ s s', tok s = .ok s' → KeepsRefs cfg s s'

theorem blockquote_refs {cfg : Cfg} {tok : Tok} {test : Test} (hsh : TokRefs cfg tok)
    (ht : TestPure test) {fuel : Nat} {s s' : BState} {b : Bool}
    (h : blockquoteRule tok test fuel s false = .ok (b, s')) : KeepsRefs cfg s s' := by
  unfold blockquoteRule at h
  crack h
  all_goals (try subst_vars)
  · exact .of_eq rfl
  · exact .of_eq rfl
  · have hscan := ‹bqScan _ _ _ _ _ _ = _›
    have htok := ‹tok _ = _›
    rename_i scan _ s2 _ _ _ _ _ _ _ _ _
    obtain ⟨n, old', S'⟩ := scan
    have hrefs := (bqScan_spec ht _ _ _ _ _ _ _ _ hscan).1.refs
    have := hsh _ _ htok
    unfold KeepsRefs at this ⊢
    simp only at this hrefs ⊢
    rw [hrefs] at this
    exact this

theorem listItemBody_refs {cfg : Cfg} {tok : Tok} (hsh : TokRefs cfg tok) {S2 S3 : BState} {m : Nat}
    {re : Bool} (h : listItemBody tok S2 m re = .ok S3) : KeepsRefs cfg S2 S3 := by
  unfold listItemBody at h
  crack h
  · exact .of_eq rfl
  · have htok := ‹tok _ = _›
    subst_vars
    have key := hsh _ _ htok
    exact key

theorem listItem_refs {cfg : Cfg} {tok : Tok} (hsh : TokRefs cfg tok) {S S' : BState}
    {m pos : Nat} {pee tight pee' tight' : Bool}
    (h : listItem tok S m pos pee tight = .ok (S', tight', pee')) : KeepsRefs cfg S S' := by
  unfold listItem at h
  crack h
  rename_i o ho rw hrw S2 hS2 S3 hbody _ li hli S5 hS5 e _ r _ hS' _ _
  subst hS'
  obtain ⟨hm, hS2eq⟩ := setOff_ok hS2
  obtain ⟨hm5, rfl⟩ := setOff_ok hS5
  have := listItemBody_refs hsh hbody
  unfold KeepsRefs at this ⊢
  rw [hS2eq] at this
  exact this

theorem listLoop_refs {cfg : Cfg} {tok : Tok} {test : Test} (hsh : TokRefs cfg tok)
    (ht : TestPure test) {ordered : Bool} {mc : Char} :
    ∀ (fuel : Nat) (S : BState) (m pos : Nat) (pee tight : Bool) (n : Nat) (tight' : Bool) (S' : BState),
      listLoop tok test ordered mc fuel S m pos pee tight = .ok (n, tight', S') → KeepsRefs cfg S S' := by
  intro fuel
  induction fuel with
  | zero => intro S m pos pee tight n tight' S' h; simp [listLoop] at h
  | succ f ih =>
    intro S m pos pee tight n tight' S' h
    simp only [listLoop] at h
    crack h
    all_goals (try subst_vars)
    · exact .of_eq rfl
    · have hc := ‹listContinue _ _ _ _ _ = _›
      have hitem := ‹listItem _ _ _ _ _ _ = _›
      have e := (listContinue_spec ht hc).1
      have key := listItem_refs hsh hitem
      unfold KeepsRefs at key ⊢
      rw [e]
      exact key
    · have hc := ‹listContinue _ _ _ _ _ = _›
      have hitem := ‹listItem _ _ _ _ _ _ = _›
      have e := (listContinue_spec ht hc).1
      have key := listItem_refs hsh hitem
      have key2 := ih _ _ _ _ _ _ _ _ h
      unfold KeepsRefs at key key2 ⊢
      rw [e] at key2
      exact key.trans key2

theorem list_rule_refs {cfg : Cfg} {tok : Tok} {test : Test} (hsh : TokRefs cfg tok)
    (ht : TestPure test) {fuel : Nat} {s s' : BState} {b : Bool}
    (h : listRule tok test fuel s false = .ok (b, s')) : KeepsRefs cfg s s' := by
  unfold listRule at h
  crack h
  all_goals (try subst_vars)
  all_goals (try (exact .of_eq rfl))
  all_goals (
    have hloop := ‹listLoop _ _ _ _ _ _ _ _ _ _ = _›
    rename_i wl _ cs _ _ _ _ _ _ _
    obtain ⟨n, t, S'⟩ := wl
    have key := listLoop_refs hsh ht _ _ _ _ _ _ _ _ _ hloop
    exact key)

theorem runRule_refs {cfg : Cfg} {tok : Tok} {test : Test} (hsh : TokRefs cfg tok) (ht : TestPure test)
    (fuel : Nat) (r : RuleId) {s s' : BState} {b : Bool}
    (h : runRule cfg tok test fuel r s false = .ok (b, s')) : KeepsRefs cfg s s' := by
  cases r <;> simp only [runRule] at h
  · exact .of_eq (code_refs h)
  · exact .of_eq (fence_refs h)
  · exact blockquote_refs hsh ht h
  · exact .of_eq (hr_refs h)
  · exact list_rule_refs hsh ht h
  · exact reference_refs ht h
  · exact .of_eq (heading_refs h)
  · exact .of_eq (lheading_refs ht h)
  · exact .of_eq (paragraph_refs ht h)

theorem runChain_refs {cfg : Cfg} {run : RuleId → BState → Bool → Res}
    (hsh : ∀ r s b s', run r s false = .ok (b, s') → KeepsRefs cfg s s') :
    ∀ (chain : List RuleId) (s : BState) (b : Bool) (s' : BState),
      runChain run chain s false = .ok (b, s') → KeepsRefs cfg s s' := by
  intro chain
  induction chain with
  | nil => intro s b s' h; simp [runChain] at h; rw [← h.2]; exact .of_eq rfl
  | cons r rs ih =>
    intro s b s' h
    simp only [runChain] at h
    split at h
    · cases h
    · rename_i s1 h1
      cases h
      exact hsh _ _ _ _ h1
    · rename_i s1 h1
      exact (hsh _ _ _ _ h1).trans (ih _ _ _ h)

theorem afterChain_refs {ok : Bool} {s s' : BState} {prev : Nat}
    (h : afterChain ok s prev = .ok s') : s'.refs = s.refs := by
  unfold afterChain at h
  crack h
  all_goals (subst_vars; rfl)

theorem tokLoop_refs {cfg : Cfg} {run : RuleId → BState → Bool → Res}
    (hsh : ∀ r s b s', run r s false = .ok (b, s') → KeepsRefs cfg s s') :
    ∀ (fuel : Nat) (he : Bool) (s s' : BState), tokLoop cfg run fuel he s = .ok s' → KeepsRefs cfg s s' := by
  intro fuel
  induction fuel with
  | zero => intro he s s' h; simp [tokLoop] at h
  | succ f ih =>
    intro he s s' h
    simp only [tokLoop] at h
    crack h
    all_goals (try subst_vars)
    all_goals (try (exact .of_eq rfl))
    all_goals (
      have hchain := ‹runChain _ _ _ _ = _›
      have hafter := ‹afterChain _ _ _ = _›
      have h1 := runChain_refs hsh _ _ _ _ hchain
      have h2 := afterChain_refs hafter
      have h3 := ih _ _ _ h
      unfold KeepsRefs at h1 h3 ⊢
      simp only at h1 h3 ⊢
      rw [← h2] at h1
      exact h1.trans h3)

/-- **The block tokenizer only ever extends the reference map, by validated definitions, in the
    order it meets them** — at any nesting depth (the nested tokenizer calls of block quotes and list
    items work on the same map). -/
theorem tokenize_refs (cfg : Cfg) : ∀ fuel : Nat, TokRefs cfg (tokenize cfg fuel) := by
  intro fuel
  induction fuel with
  | zero => intro s s' h; simp [tokenize, engine] at h
  | succ f ih =>
    intro s s' h
    simp only [tokenize, engine] at h
    have ht := testRules_pure cfg f
    exact tokLoop_refs (fun r s b s' h => runRule_refs ih ht _ r h) _ _ _ _ h

/-! ### what follows for the map -/

theorem mem_insertFirst {m : Refs.RefMap} {k : List Nat} {e : Refs.Entry} {x : List Nat × Refs.Entry}
    (h : x ∈ Refs.insertFirst m k e) : x ∈ m ∨ x = (k, e) := by
  unfold Refs.insertFirst at h
  split at h
  · exact .inl h
  · rcases List.mem_append.mp h with h | h
    · exact .inl h
    · simp at h; exact .inr h

theorem mem_addDef {N : List Nat → List Nat} {m : Refs.RefMap} {d : Refs.Def}
    {x : List Nat × Refs.Entry} (h : x ∈ Refs.addDef N m d) :
    x ∈ m ∨ (x = (N (N d.label), d.entry) ∧ N d.label ≠ []) := by
  unfold Refs.addDef at h
  simp only at h
  split at h
  · exact .inl h
  · rename_i hne
    rcases mem_insertFirst h with h | h
    · exact .inl h
    · exact .inr ⟨h, by simpa using hne⟩

theorem mem_foldl_addDef {N : List Nat → List Nat} (defs : List Refs.Def) (m : Refs.RefMap)
    {x : List Nat × Refs.Entry} (h : x ∈ defs.foldl (Refs.addDef N) m) :
    x ∈ m ∨ ∃ d ∈ defs, x = (N (N d.label), d.entry) ∧ N d.label ≠ [] := by
  induction defs generalizing m with
  | nil => exact .inl h
  | cons d r ih =>
    rcases ih _ h with h | ⟨d', hd', hx⟩
    · rcases mem_addDef h with h | h
      · exact .inl h
      · exact .inr ⟨d, by simp, h⟩
    · exact .inr ⟨d', by simp [hd'], hx⟩

/-- an entry of the extended map is an old one or the entry of one of the definitions met -/
theorem Extends.entries {cfg : Cfg} {m m' : Refs.RefMap} (h : Extends cfg m m') {k : List Nat}
    {e : Refs.Entry} (hm : (k, e) ∈ m') :
    (k, e) ∈ m ∨ ∃ d, IsDef cfg d ∧ k = cfg.N (cfg.N d.label) ∧ e = d.entry ∧ cfg.N d.label ≠ [] := by
  obtain ⟨defs, hd, rfl⟩ := h
  rcases mem_foldl_addDef defs m hm with h | ⟨d, hdm, hx, hne⟩
  · exact .inl h
  · simp only [Prod.mk.injEq] at hx
    exact .inr ⟨d, hd d hdm, hx.1, hx.2, hne⟩

/-- **first definition wins, as an invariant**: once a key is present, its entry never changes -/
theorem Extends.get_stable {cfg : Cfg} {m m' : Refs.RefMap} (h : Extends cfg m m') {k : List Nat}
    {e : Refs.Entry} (hk : m.get k = some e) : m'.get k = some e := by
  obtain ⟨defs, _, rfl⟩ := h
  rw [Refs.get_foldl_addDef, hk]
  rfl

/-- every entry of the map is validated, if every old one was -/
theorem Extends.good {cfg : Cfg} {m m' : Refs.RefMap} (h : Extends cfg m m')
    (hm : ∀ k e, (k, e) ∈ m → GoodDest e.dest) : ∀ k e, (k, e) ∈ m' → GoodDest e.dest := by
  intro k e hke
  rcases h.entries hke with h | ⟨d, hd, _, rfl, _⟩
  · exact hm k e h
  · exact hd.good

/-- **C13 `reference_no_node`.**  The reference rule pushes no node: when it runs in real mode —
    whether it accepts a definition or not — the children (and the kind) of the node under
    construction are what they were. -/
theorem reference_no_node {cfg : Cfg} {fuel : Nat} {s s' : BState} {b : Bool}
    (h : ruleAt cfg fuel .reference s false = .ok (b, s')) :
    s'.children = s.children ∧ s'.nodeKind = s.nodeKind := by
  simp only [ruleAt, runRule] at h
  have := reference_step (testRules_pure cfg fuel) h
  exact ⟨this.1, this.2.1⟩

/-- **C13 `refs_first_wins`** (invariant of the block tokenizer, nested containers included): a call
    of the tokenizer — at any depth — changes the map only by `Refs.addDef` steps for definitions
    the reference rule parsed, in the order it met them; hence a key that is present keeps its
    entry, and every entry is validated if the old ones were. -/
theorem refs_first_wins {cfg : Cfg} {fuel : Nat} {s s' : BState} (h : tokenize cfg fuel s = .ok s') :
    (∃ defs : List Refs.Def, (∀ d ∈ defs, IsDef cfg d) ∧ s'.refs = defs.foldl (Refs.addDef cfg.N) s.refs) ∧
    (∀ k e, s.refs.get k = some e → s'.refs.get k = some e) := by
  have := tokenize_refs cfg fuel s s' h
  exact ⟨this, fun k e hk => this.get_stable hk⟩

/-- the same for one rule of the chain, as the tokenizer calls it -/
theorem rule_first_wins {cfg : Cfg} {fuel : Nat} {r : RuleId} {s s' : BState} {b : Bool}
    (h : ruleAt cfg fuel r s false = .ok (b, s')) :
    ∀ k e, s.refs.get k = some e → s'.refs.get k = some e := by
  have := runRule_refs (tokenize_refs cfg fuel) (testRules_pure cfg fuel) _ r h
  exact fun k e hk => this.get_stable hk

/-- **The map `parseBlocks` returns** is `Refs.buildMap` — the fold "insert under the
    twice-normalised label if absent" from the EMPTY map — over the definitions the reference rule
    parsed, in the order the block pass met them (nested containers included). -/
theorem parseBlocks_refs {cfg : Cfg} {src : List Char} {root : BNode} {refs : Refs.RefMap}
    (h : parseBlocks cfg src = .ok (root, refs)) :
    ∃ defs : List Refs.Def, (∀ d ∈ defs, IsDef cfg d) ∧ refs = Refs.buildMap cfg.N defs := by
  unfold parseBlocks at h
  split at h
  · cases h
  · rename_i s hs
    simp only [Except.ok.injEq, Prod.mk.injEq] at h
    obtain ⟨_, rfl⟩ := h
    exact tokenize_refs cfg _ _ _ hs

/-- **(i) of `doc_urls_safe`.**  Every destination in the reference map of a document is an output
    of `normalize_link` that `validate_link` accepted. -/
theorem parseBlocks_refs_good {cfg : Cfg} {src : List Char} {root : BNode} {refs : Refs.RefMap}
    (h : parseBlocks cfg src = .ok (root, refs)) : ∀ k e, (k, e) ∈ refs → GoodDest e.dest := by
  obtain ⟨defs, hd, rfl⟩ := parseBlocks_refs h
  exact Extends.good ⟨defs, hd, rfl⟩ (fun _ _ hm => by simp at hm)

end MdIt.Block

/-! # Part B: the document -/

namespace MdIt.Pipeline
open MdIt.NodeRender (aSourcepos aHref aSrc aAlt aTitle)

/-! ## a predicate on node VALUES through the three passes -/

/-- `n` is `t` or a node below it, at any depth -/
inductive Within : Node → Node → Prop
  | self (t : Node) : Within t t
  | under {n c t : Node} : c ∈ t.children → Within n c → Within n t

theorem Every.within {P : Node → Prop} {t n : Node} (h : Every P t) (hw : Within n t) : P n := by
  induction hw with
  | self => exact h.here
  | under hc _ ih => exact ih (h.child _ hc)

section KindPred
variable (Q : Kind → Prop)

mutual
theorem ofInline_everyK (n : Inline.Node) (h : Inline.AllVals (fun v => Q (.inl v)) n) :
    Every (fun m => Q m.kind) (ofInline n) := by
  match n with
  | ⟨v, r, cs⟩ =>
    rw [Inline.AllVals_eq] at h
    unfold ofInline
    exact .mk _ h.1 (ofInlineList_everyK cs h.2)
theorem ofInlineList_everyK (cs : List Inline.Node)
    (h : Inline.AllValsList (fun v => Q (.inl v)) cs) :
    ∀ c ∈ ofInlineList cs, Every (fun m => Q m.kind) c := by
  match cs with
  | [] => simp [ofInlineList]
  | c :: r =>
    simp only [Inline.AllValsList] at h
    intro x hx
    simp only [ofInlineList, List.mem_cons] at hx
    rcases hx with rfl | hx
    · exact ofInline_everyK c h.1
    · exact ofInlineList_everyK r h.2 x hx
end

mutual
theorem spliceNode_everyK {icfg : Inline.Cfg} (hb : ∀ b, Q (.blk b))
    (hg : Inline.GoodP icfg (fun v => Q (.inl v))) (b : Block.BNode) (t : Node)
    (h : spliceNode icfg b = .ok t) : Every (fun m => Q m.kind) t := by
  match b with
  | ⟨k, r, cs⟩ =>
    simp only [spliceNode] at h
    split at h
    · cases h
    · rename_i cs' hcs
      cases h
      exact .mk _ (hb _) (spliceList_everyK hb hg cs cs' hcs)
theorem spliceList_everyK {icfg : Inline.Cfg} (hb : ∀ b, Q (.blk b))
    (hg : Inline.GoodP icfg (fun v => Q (.inl v))) (cs : List Block.BNode) (out : List Node)
    (h : spliceList icfg cs = .ok out) : ∀ c ∈ out, Every (fun m => Q m.kind) c := by
  match cs with
  | [] => simp [spliceList] at h; subst h; simp
  | c :: rest =>
    simp only [spliceList] at h
    split at h
    · split at h
      · cases h
      · rename_i ns hns
        split at h
        · cases h
        · rename_i rest' hr
          cases h
          have hv := Inline.parseInline_vals icfg hg hns
          intro x hx
          rcases List.mem_append.mp hx with h1 | h1
          · exact ofInlineList_everyK Q ns hv x h1
          · exact spliceList_everyK hb hg rest rest' hr x h1
    · split at h
      · cases h
      · rename_i c' hc
        split at h
        · cases h
        · rename_i rest' hr
          cases h
          intro x hx
          rcases List.mem_cons.mp hx with rfl | hx
          · exact spliceNode_everyK hb hg c _ hc
          · exact spliceList_everyK hb hg rest rest' hr x hx
end

theorem joinNode_everyK_aux (htext : ∀ c, Q (.inl (.text c))) (k : Nat) : ∀ n : Node, nsize n ≤ k →
    Every (fun m => Q m.kind) n → Every (fun m => Q m.kind) (joinNode n) := by
  have hT : ∀ x : Node, x.isText = true → Q x.kind := by
    intro x hx
    unfold Node.isText at hx
    split at hx
    · next c heq => rw [heq]; exact htext c
    · cases hx
  induction k with
  | zero => intro n hn; rw [nsize_eq] at hn; omega
  | succ k ih =>
    intro n hn he
    rw [joinNode_eq, joinList_eq_map]
    refine .mk _ he.here ?_
    intro y hy
    simp only at hy
    obtain ⟨x, hx, rfl⟩ := List.mem_map.mp hy
    obtain ⟨c, hc, hr, _⟩ := fragmentsJoin_mem _ x hx
    have hec := he.child c hc
    have hpx : Q x.kind := by
      rcases hr.2.2 with e | ⟨e, _⟩
      · rw [e]; exact hec.here
      · exact hT x e
    have hsz : nsize x ≤ k := by
      have h1 : nsize x = nsize c := by rw [nsize_eq, nsize_eq, hr.1]
      have h2 := nsize_le_of_mem hc
      rw [nsize_eq] at hn
      omega
    exact ih x hsz (hr.every (P := fun m => Q m.kind) hpx hec)

mutual
theorem sourceposNode_everyK {src : List Char} {marks : List SourceMap.Mark} (t t' : Node)
    (he : Every (fun m => Q m.kind) t) (h : sourceposNode src marks t = .ok t') :
    Every (fun m => Q m.kind) t' := by
  match t with
  | ⟨k, r, a, cs⟩ =>
    simp only [sourceposNode] at h
    split at h
    · cases h
    · split at h
      · cases h
      · rename_i cs' hcs
        cases h
        exact .mk _ he.here (sourceposList_everyK cs cs' he.child hcs)
theorem sourceposList_everyK {src : List Char} {marks : List SourceMap.Mark} (cs cs' : List Node)
    (he : ∀ c ∈ cs, Every (fun m => Q m.kind) c) (h : sourceposList src marks cs = .ok cs') :
    ∀ c ∈ cs', Every (fun m => Q m.kind) c := by
  match cs with
  | [] => simp [sourceposList] at h; subst h; simp
  | c :: r =>
    simp only [sourceposList] at h
    split at h
    · cases h
    · rename_i c' hc
      split at h
      · cases h
      · rename_i r' hr
        cases h
        intro x hx
        rcases List.mem_cons.mp hx with rfl | hx
        · exact sourceposNode_everyK c _ (he c (by simp)) hc
        · exact sourceposList_everyK r r' (fun y hy => he y (List.mem_cons_of_mem _ hy)) hr x hx
end

/-- **(iii): the passes behind the inline runs do not touch node values** (except that the join pass
    makes `Text`s).  A predicate on values that holds of every block value, of every `Text` and of
    whatever the configured inline rules create under the document's reference map (`Inline.GoodP`)
    holds at every node of the parsed tree. -/
theorem parseDoc_every_kind {cfg : DocCfg} {src : List Char} {t : Node} (h : parseDoc cfg src = .ok t)
    (hb : ∀ b, Q (.blk b)) (htext : ∀ c, Q (.inl (.text c)))
    (hg : ∀ root refs, Block.parseBlocks cfg.blockCfg src = .ok (root, refs) →
      Inline.GoodP (cfg.inlineCfg refs) (fun v => Q (.inl v))) :
    Every (fun m => Q m.kind) t := by
  unfold parseDoc at h
  split at h
  · cases h
  · rename_i root refs hbk
    unfold afterBlocks at h
    split at h
    · cases h
    · rename_i t0 hs
      have he0 := spliceNode_everyK Q hb (hg root refs hbk) root t0 hs
      have h1 : Every (fun m => Q m.kind) (if cfg.hasJoin = true then joinNode t0 else t0) := by
        split
        · exact joinNode_everyK_aux Q htext _ t0 (Nat.le_refl _) he0
        · exact he0
      simp only at h
      split at h
      · exact sourceposNode_everyK Q _ _ h1 h
      · cases h
        exact h1

end KindPred

/-! ## C04 at document level: `doc_urls_safe` -/

/-- what is guaranteed of a url stored in a parsed tree -/
structure SafeUrl (u : List Nat) : Prop where
  /-- it is an output of `normalize_link` -/
  normalized : ∃ cs : List Char, u = Link.normalizeLink (Link.utf8 cs)
  /-- hence over the safe alphabet: every byte is visible ASCII, 33..126 — no control character, no
      blank, nothing a browser strips or decodes before it looks for the scheme -/
  visible : Link.Visible u
  /-- `validate_link` accepted it -/
  valid : Link.validateLink u = true
  /-- hence no browser treats it as `javascript:` / `vbscript:` / `file:` or as a `data:` url other
      than an image of type gif / png / jpeg / webp -/
  harmless : Link.dangerous u = false

theorem SafeUrl.of_good {u : List Nat} (h : Block.GoodDest u) : SafeUrl u := by
  obtain ⟨⟨cs, rfl⟩, hv⟩ := h
  have hvis := Link.normalized_alphabet_chars cs
  exact ⟨⟨cs, rfl⟩, hvis, hv, Link.validate_sound _ hvis hv⟩

/-- the url of a `Link` / `Image` / `Autolink` value -/
def Kind.url? : Kind → Option (List Nat)
  | .inl (.link u _) => some u
  | .inl (.image u _) => some u
  | .inl (.autolink u) => some u
  | _ => none

/-- **(ii)**: what an inline rule stores is the empty default, an accepted result of one of the two
    pipelines, or a destination of the reference map -/
theorem goodDest_of_fromPipeline {icfg : Inline.Cfg} {u : List Nat} (h : Inline.FromPipeline icfg u)
    (hrefs : ∀ m k e, icfg.refs = some m → (k, e) ∈ m → Block.GoodDest e.dest) :
    Block.GoodDest u := by
  rcases h with rfl | ⟨raw, hraw⟩ | ⟨b, url, hurl⟩ | ⟨m, k, e, hm, hmem, rfl⟩
  · exact ⟨⟨[], by decide +kernel⟩, by decide +kernel⟩
  · unfold Link.inlineDest at hraw
    simp only at hraw
    split at hraw
    · next hv => cases hraw; exact ⟨⟨_, rfl⟩, hv⟩
    · cases hraw
  · unfold Link.autolinkDest at hurl
    cases b <;> simp only [Bool.false_eq_true, if_false, if_true] at hurl <;> split at hurl
    · next hv => cases hurl; exact ⟨⟨_, rfl⟩, hv⟩
    · cases hurl
    · next hv => cases hurl; exact ⟨⟨_, rfl⟩, hv⟩
    · cases hurl
  · exact hrefs m k e hm hmem

theorem inlineCfg_refs {cfg : DocCfg} {refs m : Refs.RefMap} (h : (cfg.inlineCfg refs).refs = some m) :
    m = refs := by
  unfold DocCfg.inlineCfg at h
  simp only at h
  split at h
  · cases h
  · cases h; rfl

/-- the property of node values `doc_urls_safe` is about -/
def UrlSafeK (k : Kind) : Prop := ∀ u, k.url? = some u → SafeUrl u

theorem urlSafeK_good {cfg : DocCfg} {refs : Refs.RefMap}
    (hrefs : ∀ k e, (k, e) ∈ refs → Block.GoodDest e.dest) :
    Inline.GoodP (cfg.inlineCfg refs) (fun v => UrlSafeK (.inl v)) := by
  have key : ∀ u, Inline.FromPipeline (cfg.inlineCfg refs) u → SafeUrl u := fun u h =>
    .of_good (goodDest_of_fromPipeline h (fun m k e hm hke => by
      rw [inlineCfg_refs hm] at hke; exact hrefs k e hke))
  have triv : ∀ v : Inline.Val, Kind.url? (.inl v) = none → UrlSafeK (.inl v) := by
    intro v hv u hu; rw [hv] at hu; cases hu
  refine ⟨fun _ => triv _ rfl, fun _ _ _ => triv _ rfl, triv _ rfl, triv _ rfl, fun _ _ => triv _ rfl,
    ?_, ?_, ?_, fun _ _ _ _ _ _ _ => triv _ rfl, fun _ _ _ _ => triv _ rfl,
    fun _ _ _ _ _ _ _ => triv _ rfl⟩
  · intro b url u h u' hu'
    simp only [Kind.url?, Option.some.injEq] at hu'
    subst hu'
    exact key _ (Or.inr (Or.inr (Or.inl ⟨b, url, h⟩)))
  · intro href t h u' hu'
    simp only [Kind.url?, Option.some.injEq] at hu'
    subst hu'
    exact key _ (Inline.hrefOK_fromPipeline h)
  · intro href t h u' hu'
    simp only [Kind.url?, Option.some.injEq] at hu'
    subst hu'
    exact key _ (Inline.hrefOK_fromPipeline h)

/-- **`doc_urls_safe` (C04 for documents).**  For EVERY configuration of the model and EVERY source
    the parser accepts: every `Link`, `Image` and `Autolink` node ANYWHERE in the tree (`Every`: at
    any depth, inside block quotes, list items, emphasis, link texts, image descriptions) carries
    a url that is an output of `normalize_link`, lies over the visible-ASCII alphabet, was accepted
    by `validate_link`, and is therefore (`Link.validate_sound`) not a `javascript:` / `vbscript:` /
    `file:` url nor a `data:` url other than the four image types — whether it was written inline,
    as an autolink, or came from a reference definition anywhere in the document.
    (i) `Block.parseBlocks_refs_good`: the reference map holds validated destinations only (an
    invariant of the block tokenizer); (ii) `Inline.parseInline_vals` with `urlSafeK_good`: each
    inline run stores the empty default, a pipeline result or an entry of that map; (iii)
    `parseDoc_every_kind`: splice, join and sourcepos passes leave the values alone. -/
theorem doc_urls_safe (cfg : DocCfg) (src : List Char) (t : Node) (h : parseDoc cfg src = .ok t) :
    Every (fun n => ∀ u, n.kind.url? = some u → SafeUrl u) t :=
  parseDoc_every_kind UrlSafeK h (fun b u hu => by cases hu) (fun c u hu => by cases hu)
    (fun _ _ hb => urlSafeK_good (Block.parseBlocks_refs_good hb))

/-- the same, node by node -/
theorem doc_urls_safe' (cfg : DocCfg) (src : List Char) (t : Node) (h : parseDoc cfg src = .ok t)
    (n : Node) (hn : Within n t) :
    (∀ u title, n.kind = .inl (.link u title) → SafeUrl u) ∧
    (∀ u title, n.kind = .inl (.image u title) → SafeUrl u) ∧
    (∀ u, n.kind = .inl (.autolink u) → SafeUrl u) := by
  have := (doc_urls_safe cfg src t h).within hn
  refine ⟨fun u title hk => this u ?_, fun u title hk => this u ?_, fun u hk => this u ?_⟩ <;>
    rw [hk] <;> rfl

/-! ## C04 at document level: `doc_href_safe` -/

open MdIt.HtmlDecode (asChars browserDecode FourEntities)
open MdIt.Render (Event escapeHtml attrStr)

theorem Every.sub {P : Node → Prop} {t n : Node} (h : Every P t) (hw : Within n t) : Every P n := by
  induction hw with
  | self => exact h
  | under hc _ ih => exact ih (h.child _ hc)

/-- on ASCII the general UTF-8 decoder of `toRender` is `map Char.ofNat` -/
theorem utf8Decode_ascii (u : List Nat) (hu : ∀ b ∈ u, b < 128) : utf8Decode u = asChars u := by
  unfold utf8Decode asChars
  induction u with
  | nil => rfl
  | cons b r ih =>
    have hb : b < 0x80 := hu b (by simp)
    simp only [utf8Go, List.map_cons, if_pos hb]
    rw [ih (fun c hc => hu c (by simp [hc]))]

theorem SafeUrl.decode {u : List Nat} (h : SafeUrl u) : utf8Decode u = asChars u :=
  utf8Decode_ascii u (fun b hb => by have := h.visible b hb; omega)

mutual
/-- every node of the projection is the projection of a node of the tree -/
theorem toRender_nodes_within (lp : List Char) (t : Node) :
    ∀ m ∈ NodeRender.nodes (toRender lp t), ∃ n, Within n t ∧ m = toRender lp n := by
  match t with
  | ⟨k, r, a, cs⟩ =>
    intro m hm
    simp only [toRender, NodeRender.nodes, List.mem_cons] at hm
    rcases hm with rfl | hm
    · exact ⟨⟨k, r, a, cs⟩, .self _, by simp only [toRender]⟩
    · obtain ⟨n, c, hc, hw, e⟩ := toRenderList_nodes_within lp cs m hm
      exact ⟨n, .under hc hw, e⟩
theorem toRenderList_nodes_within (lp : List Char) (cs : List Node) :
    ∀ m ∈ NodeRender.nodesList (toRenderList lp cs), ∃ n c, c ∈ cs ∧ Within n c ∧ m = toRender lp n := by
  match cs with
  | [] => simp [toRenderList, NodeRender.nodesList]
  | c :: r =>
    intro m hm
    simp only [toRenderList, NodeRender.nodesList, List.mem_append] at hm
    rcases hm with hm | hm
    · obtain ⟨n, hw, e⟩ := toRender_nodes_within lp c m hm
      exact ⟨n, c, by simp, hw, e⟩
    · obtain ⟨n, c', hc', hw, e⟩ := toRenderList_nodes_within lp r m hm
      exact ⟨n, c', List.mem_cons_of_mem _ hc', hw, e⟩
end

theorem toRender_eq (lp : List Char) (n : Node) :
    toRender lp n = ⟨n.kind.toRender lp, n.attrs, toRenderList lp n.children⟩ := by
  cases n; simp only [toRender]

/-- the url a `Link` / `Image` / `Autolink` render value carries (a `String`) -/
def rurl? : NodeRender.Kind → Option (List Char)
  | .link u _ => some u
  | .image u _ => some u
  | .autolink u => some u
  | _ => none

/-- an attribute of a trait call: if it is `href` or `src`, its value is a safe url (as characters) -/
def UrlAttr (nv : List Char × List Char) : Prop :=
  (nv.1 = aHref ∨ nv.1 = aSrc) → ∃ u, SafeUrl u ∧ nv.2 = asChars u

def EvUrls : Event → Prop
  | .open _ attrs => ∀ nv ∈ attrs, UrlAttr nv
  | .selfClose _ attrs => ∀ nv ∈ attrs, UrlAttr nv
  | _ => True

theorem urlAttr_other {nv : List Char × List Char} (h1 : nv.1 ≠ aHref) (h2 : nv.1 ≠ aSrc) : UrlAttr nv := by
  intro h; rcases h with h | h
  · exact absurd h h1
  · exact absurd h h2

theorem urlAttrs_sp {attrs : List (List Char × List Char)} (ha : ∀ nv ∈ attrs, nv.1 = aSourcepos) :
    ∀ nv ∈ attrs, UrlAttr nv := by
  intro nv hnv
  refine urlAttr_other ?_ ?_ <;> rw [ha nv hnv] <;> decide

theorem urlAttrs_push {attrs : List (List Char × List Char)} (h : ∀ nv ∈ attrs, UrlAttr nv)
    {x : List Char × List Char} (hx : UrlAttr x) : ∀ nv ∈ attrs ++ [x], UrlAttr nv := by
  intro nv hnv
  rcases List.mem_append.mp hnv with h' | h'
  · exact h nv h'
  · simp only [List.mem_singleton] at h'; subst h'; exact hx

theorem urlAttrs_pushTitle {attrs : List (List Char × List Char)} (h : ∀ nv ∈ attrs, UrlAttr nv)
    (title : Option (List Char)) : ∀ nv ∈ NodeRender.pushTitle attrs title, UrlAttr nv := by
  cases title with
  | none => exact h
  | some t =>
    exact urlAttrs_push h (urlAttr_other (show aTitle ≠ aHref by decide) (show aTitle ≠ aSrc by decide))

theorem urlAttr_url (n : List Char) {u : List Nat} (hs : SafeUrl u) : UrlAttr (n, asChars u) :=
  fun _ => ⟨u, hs, rfl⟩

open MdIt.NodeRender in
theorem frameT_urls (lookup : List Char → Option (List Char)) (k : NodeRender.Kind)
    (attrs : List (List Char × List Char)) (alt : List Char)
    (ha : ∀ nv ∈ attrs, nv.1 = aSourcepos)
    (hu : ∀ url, rurl? k = some url → ∃ u, SafeUrl u ∧ url = asChars u) :
    ∀ e ∈ (frameT lookup k attrs alt).1 ++ (frameT lookup k attrs alt).2, EvUrls e := by
  have sp := urlAttrs_sp ha
  have hno : ∀ nv ∈ ([] : List (List Char × List Char)), UrlAttr nv := by simp
  have hother : ∀ n v, n ≠ aHref → n ≠ aSrc → UrlAttr (n, v) := fun n v h1 h2 => urlAttr_other h1 h2
  cases k
  case link url title =>
    obtain ⟨u, hs, rfl⟩ := hu url rfl
    simp only [frameT, List.cons_append, List.nil_append]
    refine all_cons ?_ (all_cons trivial all_nil)
    exact urlAttrs_pushTitle (urlAttrs_push sp (urlAttr_url _ hs)) _
  case image url title =>
    obtain ⟨u, hs, rfl⟩ := hu url rfl
    simp only [frameT, List.append_nil]
    refine all_cons ?_ all_nil
    exact urlAttrs_pushTitle
      (urlAttrs_push (urlAttrs_push sp (urlAttr_url _ hs)) (hother _ _ (by decide) (by decide))) _
  case autolink url =>
    obtain ⟨u, hs, rfl⟩ := hu url rfl
    simp only [frameT, List.cons_append, List.nil_append]
    refine all_cons ?_ (all_cons trivial all_nil)
    exact urlAttrs_push sp (urlAttr_url _ hs)
  case codeFence info content lp =>
    simp only [frameT, List.append_nil]
    repeat' (first | exact all_nil | refine all_cons ?_ ?_)
    all_goals first
      | exact trivial
      | exact hno
      | (unfold fenceAttrsT; split
         · exact sp
         · exact urlAttrs_push sp (hother _ _ (by decide) (by decide)))
  case orderedList start =>
    simp only [frameT, List.cons_append, List.nil_append]
    repeat' (first | exact all_nil | refine all_cons ?_ ?_)
    all_goals first
      | exact trivial
      | (unfold olAttrs; split
         · exact urlAttrs_push sp (hother _ _ (by decide) (by decide))
         · exact sp)
  all_goals simp only [frameT, List.cons_append, List.nil_append, List.append_nil]
  all_goals repeat' (first | exact all_nil | refine all_cons ?_ ?_)
  all_goals first
    | exact trivial
    | exact sp
    | exact hno

/-- what the browser makes of an `href` / `src` attribute the renderer wrote for a safe url -/
theorem safeUrl_attr {u : List Nat} (hs : SafeUrl u) (name : List Char) :
    attrStr (name, asChars u) =
      ' ' :: (escapeHtml name ++ ('=' :: '"' :: (escapeHtml (asChars u) ++ ['"']))) ∧
    '"' ∉ escapeHtml (asChars u) ∧
    ∀ named, FourEntities named →
      browserDecode named (escapeHtml (asChars u)) = asChars u ∧
      Link.utf8 (browserDecode named (escapeHtml (asChars u))) = u ∧
      Link.dangerous (Link.utf8 (browserDecode named (escapeHtml (asChars u)))) = false := by
  refine ⟨rfl, fun hm => ((Render.escape_sound (asChars u)).2.1 _ hm).2.2 rfl, fun named h => ?_⟩
  exact HtmlDecode.browser_sees_validated_url h u hs.visible hs.valid

/-- the hypotheses of the render induction, for a parsed tree -/
theorem doc_render_nodes {cfg : DocCfg} {src : List Char} {t : Node} (h : parseDoc cfg src = .ok t) :
    ∀ m ∈ NodeRender.nodes (toRender cfg.langPrefix t),
      (∀ nv ∈ m.attrs, nv.1 = aSourcepos) ∧
      (∀ url, rurl? m.kind = some url → ∃ u, SafeUrl u ∧ url = asChars u) := by
  intro m hm
  obtain ⟨n, hw, rfl⟩ := toRender_nodes_within _ t m hm
  have hfin := ((parseDoc_final h).1.within hw).1
  have hsafe := (doc_urls_safe cfg src t h).within hw
  rw [toRender_eq]
  refine ⟨hfin, ?_⟩
  intro url hurl
  simp only at hurl
  cases hk : n.kind with
  | blk b => rw [hk] at hurl; cases b <;> simp [Kind.toRender, rurl?] at hurl
  | inl v =>
    rw [hk] at hurl hsafe
    cases v with
    | link u title =>
      simp only [Kind.toRender, rurl?, Option.some.injEq] at hurl
      have hs := hsafe u rfl
      exact ⟨u, hs, by rw [← hurl, hs.decode]⟩
    | image u title =>
      simp only [Kind.toRender, rurl?, Option.some.injEq] at hurl
      have hs := hsafe u rfl
      exact ⟨u, hs, by rw [← hurl, hs.decode]⟩
    | autolink u =>
      simp only [Kind.toRender, rurl?, Option.some.injEq] at hurl
      have hs := hsafe u rfl
      exact ⟨u, hs, by rw [← hurl, hs.decode]⟩
    | wrap w mk => cases w <;> simp [Kind.toRender, rurl?] at hurl
    | _ => simp [Kind.toRender, rurl?] at hurl

/-- **`doc_href_safe` (C04 for documents, the output side).**  For every configuration and every
    source the parser accepts, rendering succeeds (`doc_render_total`) and in the sequence of trait
    calls the rendering issues — of which the returned HTML / XHTML string is the serialisation,
    one piece per call (`Render.serialize_events`) — EVERY `href` and EVERY `src` attribute, of any
    element, has as its value a `SafeUrl` `u` of the tree, as characters.  The serializer writes it as
    ` href="escape_html(u)"` (`Render.attrStr`), the written value contains no `"`, and a browser that
    decodes every character reference in it (`HtmlDecode.browserDecode`, any entity table with the
    four names) gets `u` back byte for byte — which is not dangerous
    (`HtmlDecode.browser_sees_validated_url`). -/
theorem doc_href_safe (cfg : DocCfg) (src : List Char) (t : Node) (h : parseDoc cfg src = .ok t) :
    ∃ evs, renderEvents cfg t = .ok evs ∧ (∀ x, renderDoc x cfg src = .ok (Render.serialize x evs)) ∧
      ∀ e ∈ evs, ∀ tag attrs, (e = .open tag attrs ∨ e = .selfClose tag attrs) →
        ∀ nv ∈ attrs, (nv.1 = aHref ∨ nv.1 = aSrc) →
          ∃ u, SafeUrl u ∧ nv.2 = asChars u ∧
            attrStr nv = ' ' :: (nv.1 ++ ('=' :: '"' :: (escapeHtml (asChars u) ++ ['"']))) ∧
            '"' ∉ escapeHtml (asChars u) ∧
            ∀ named, FourEntities named →
              browserDecode named (escapeHtml (asChars u)) = asChars u ∧
              Link.utf8 (browserDecode named (escapeHtml (asChars u))) = u ∧
              Link.dangerous (Link.utf8 (browserDecode named (escapeHtml (asChars u)))) = false := by
  obtain ⟨evs, he, hev, hx⟩ := doc_render_total cfg src t h
  refine ⟨evs, hev, hx, ?_⟩
  have hnodes := doc_render_nodes h
  have key : ∀ e ∈ evs, EvUrls e := by
    refine NodeRender.render_induction cfg.entity
      (fun m => (∀ nv ∈ m.attrs, nv.1 = aSourcepos) ∧
        (∀ url, rurl? m.kind = some url → ∃ u, SafeUrl u ∧ url = asChars u))
      (fun _ evs => ∀ e ∈ evs, EvUrls e) (by simp) ?_ ?_ (toRender cfg.langPrefix t)
      (fun m hm => hnodes m (NodeRender.visited_subset_nodes _ m hm)) evs he
    · intro _ a _ b h₁ h₂ e he
      rcases List.mem_append.mp he with he | he
      · exact h₁ e he
      · exact h₂ e he
    · intro n _ b hq _ hb e he
      have hfr := frameT_urls cfg.entity n.kind n.attrs (NodeRender.imageAlt n.children) hq.1 hq.2
      simp only [List.mem_append] at he hfr
      rcases he with (he | he) | he
      · exact hfr e (.inl he)
      · exact hb e he
      · exact hfr e (.inr he)
  intro e he tag attrs hshape nv hnv hname
  have hE := key e he
  have hattr : UrlAttr nv := by
    rcases hshape with rfl | rfl
    · exact hE nv hnv
    · exact hE nv hnv
  obtain ⟨u, hs, hval⟩ := hattr hname
  have hesc : escapeHtml nv.1 = nv.1 := by
    rcases hname with e | e <;> rw [e] <;> decide
  obtain ⟨h1, h2, h3⟩ := safeUrl_attr hs nv.1
  refine ⟨u, hs, hval, ?_, h2, h3⟩
  have : nv = (nv.1, asChars u) := by rw [← hval]
  rw [this, h1, hesc]

/-! ### the same on the returned string -/

theorem ascii_ne_nul : ∀ b < 127, 32 < b → Char.ofNat b ≠ '\x00' := by decide +kernel

theorem nulStr_asChars {u : List Nat} (hu : Link.Visible u) : Render.nulStr (asChars u) = asChars u := by
  unfold Render.nulStr asChars
  rw [List.map_map]
  apply List.map_congr_left
  intro b hb
  have := hu b hb
  simp [Render.nulChar, ascii_ne_nul b this.2 this.1]

theorem attrsStr_mem {attrs : List (List Char × List Char)} {nv : List Char × List Char}
    (h : nv ∈ attrs) : ∃ pre post, Render.attrsStr attrs = pre ++ attrStr nv ++ post := by
  induction attrs with
  | nil => simp at h
  | cons a r ih =>
    rcases List.mem_cons.mp h with rfl | h
    · exact ⟨[], Render.attrsStr r, by simp [Render.attrsStr]⟩
    · obtain ⟨pre, post, e⟩ := ih h
      exact ⟨attrStr a ++ pre, post, by simp [Render.attrsStr, e]⟩

/-- the NUL replacement of the final `String` conversion leaves a safe `href` / `src` attribute alone -/
theorem evUrls_nul {e : Event} (h : EvUrls e) : EvUrls (Render.nulEvent e) := by
  have key : ∀ attrs : List (List Char × List Char), (∀ nv ∈ attrs, UrlAttr nv) →
      ∀ nv ∈ Render.nulAttrs attrs, UrlAttr nv := by
    intro attrs ha nv hnv
    unfold Render.nulAttrs at hnv
    obtain ⟨nv0, h0, rfl⟩ := List.mem_map.mp hnv
    intro hname
    simp only at hname
    by_cases h1 : nv0.1 = aHref ∨ nv0.1 = aSrc
    · obtain ⟨u, hs, hv⟩ := ha nv0 h0 h1
      exact ⟨u, hs, by simp only; rw [hv, nulStr_asChars hs.visible]⟩
    · -- a name that BECOMES `href` / `src` by the replacement: impossible (neither contains U+FFFD)
      exfalso
      apply h1
      have hn : ∀ (s t : List Char), '\uFFFD' ∉ t → '\x00' ∉ t → Render.nulStr s = t → s = t := by
        intro s
        induction s with
        | nil => intro t _ _ h; exact h
        | cons c r ih =>
          intro t h1 h2 h
          cases t with
          | nil => simp [Render.nulStr] at h
          | cons d t' =>
            simp only [Render.nulStr, List.map_cons, List.cons.injEq] at h
            have hd1 : d ≠ '\uFFFD' := fun e => h1 (by simp [e])
            have hd2 : d ≠ '\x00' := fun e => h2 (by simp [e])
            have hc : c = d := by
              have := h.1
              unfold Render.nulChar at this
              split at this
              · exact absurd this.symm hd1
              · exact this
            rw [hc, ih t' (fun hm => h1 (List.mem_cons_of_mem _ hm))
              (fun hm => h2 (List.mem_cons_of_mem _ hm)) h.2]
      rcases hname with hname | hname
      · exact .inl (hn _ _ (by decide) (by decide) hname)
      · exact .inr (hn _ _ (by decide) (by decide) hname)
  cases e with
  | «open» t a => exact key a h
  | selfClose t a => exact key a h
  | _ => trivial

/-- **`doc_href_output`: C04 on the returned string.**  Whatever `renderDoc` returns (HTML or XHTML)
    is the concatenation of one piece per trait call of a sequence `evs'` (the rendering's calls
    with U+0000 → U+FFFD in the payloads: `Render.serialize_nul_payload`); the piece of every `open`
    / `self_close` call is `<tag` ++ attributes ++ `>` (` />`), and every `href` / `src` attribute
    among them is written ` href="escape_html(u)"` for a `SafeUrl` `u`.  (That `<`, `>`, `"` occur in
    the string ONLY at these structural places is `doc_safe_output`.) -/
theorem doc_href_output (x : Bool) (cfg : DocCfg) (src : List Char) (out : List Char)
    (h : renderDoc x cfg src = .ok out) :
    ∃ evs' : List Event, out = Render.flatten (Render.pieces x evs') ∧
      ∃ hlen : (Render.pieces x evs').length = evs'.length,
      ∀ (i : Nat) (hi : i < evs'.length) (tag : List Char) (attrs : List (List Char × List Char)),
        (evs'[i] = .open tag attrs ∨ evs'[i] = .selfClose tag attrs) →
        ∃ close, (Render.pieces x evs')[i]'(by rw [hlen]; exact hi) =
            '<' :: (tag ++ (Render.attrsStr attrs ++ close)) ∧
          ∀ nv ∈ attrs, (nv.1 = aHref ∨ nv.1 = aSrc) →
            ∃ u pre post, SafeUrl u ∧
              Render.attrsStr attrs =
                pre ++ (' ' :: (nv.1 ++ ('=' :: '"' :: (escapeHtml (asChars u) ++ ['"'])))) ++ post := by
  cases hp : parseDoc cfg src with
  | error e => simp [renderDoc, hp] at h
  | ok t =>
    obtain ⟨evs, _, hx, hsafe⟩ := doc_href_safe cfg src t hp
    rw [hx x] at h
    cases h
    refine ⟨evs.map Render.nulEvent, ?_, Render.pieces_length _ _, ?_⟩
    · rw [Render.serialize_nul_payload, Render.serializeRaw_events]
    · intro i hi tag attrs hshape
      have hmem : (evs.map Render.nulEvent)[i] ∈ evs.map Render.nulEvent := List.getElem_mem hi
      obtain ⟨e0, he0, he0'⟩ := List.mem_map.mp hmem
      have hE0 : EvUrls e0 := by
        cases e0 with
        | «open» t a =>
          show ∀ nv ∈ a, UrlAttr nv
          intro nv hnv hn
          obtain ⟨u, hs, hv, _⟩ := hsafe _ he0 t a (.inl rfl) nv hnv hn
          exact ⟨u, hs, hv⟩
        | selfClose t a =>
          show ∀ nv ∈ a, UrlAttr nv
          intro nv hnv hn
          obtain ⟨u, hs, hv, _⟩ := hsafe _ he0 t a (.inr rfl) nv hnv hn
          exact ⟨u, hs, hv⟩
        | _ => trivial
      have hE := evUrls_nul hE0
      rw [he0'] at hE
      have hpiece := Render.pieces_getElem x (evs.map Render.nulEvent) i hi
      have hattrs : ∀ nv ∈ attrs, UrlAttr nv := by
        rcases hshape with e | e <;> rw [e] at hE <;> exact hE
      have hclose : ∃ close, (Render.pieces x (evs.map Render.nulEvent))[i]'(by
            rw [Render.pieces_length]; exact hi) = '<' :: (tag ++ (Render.attrsStr attrs ++ close)) := by
        rcases hshape with e | e
        · exact ⟨['>'], by rw [hpiece, e]; rfl⟩
        · exact ⟨(if x then [' ', '/'] else []) ++ ['>'], by rw [hpiece, e]; rfl⟩
      obtain ⟨close, hc⟩ := hclose
      refine ⟨close, hc, ?_⟩
      intro nv hnv hname
      obtain ⟨u, hs, hv⟩ := hattrs nv hnv hname
      obtain ⟨pre, post, e⟩ := attrsStr_mem hnv
      have hesc : escapeHtml nv.1 = nv.1 := by
        rcases hname with e | e <;> rw [e] <;> decide
      refine ⟨u, pre, post, hs, ?_⟩
      rw [e]
      have : nv = (nv.1, asChars u) := by rw [← hv]
      rw [this, (safeUrl_attr hs nv.1).1, hesc]

/-! ## C13 at document level: `doc_reference_position_irrelevant` -/

/-- one inline run as a total function (`[]` where the run panics: then `parseDoc` has no result) -/
def inlineRun (icfg : Inline.Cfg) (content : List Char) (mapping : List (Nat × Nat)) : List Node :=
  match Inline.parseInline icfg content mapping with
  | .ok ns => ofInlineList ns
  | .error _ => []

mutual
/-- the block tree with every `InlineRoot`, at any depth, replaced by `f content mapping` -/
def spliceWith (f : List Char → List (Nat × Nat) → List Node) : Block.BNode → Node
  | ⟨k, r, cs⟩ => ⟨.blk k, r, [], spliceWithList f cs⟩
termination_by structural b => b
def spliceWithList (f : List Char → List (Nat × Nat) → List Node) : List Block.BNode → List Node
  | [] => []
  | c :: rest =>
    match c.kind with
    | .inlineRoot content mapping => f content mapping ++ spliceWithList f rest
    | _ => spliceWith f c :: spliceWithList f rest
termination_by structural l => l
end

mutual
/-- the `(content, mapping)` of every `InlineRoot` below the node, in document order -/
def inlineRoots : Block.BNode → List (List Char × List (Nat × Nat))
  | ⟨_, _, cs⟩ => inlineRootsList cs
termination_by structural b => b
def inlineRootsList : List Block.BNode → List (List Char × List (Nat × Nat))
  | [] => []
  | c :: rest =>
    match c.kind with
    | .inlineRoot content mapping => (content, mapping) :: inlineRootsList rest
    | _ => inlineRoots c ++ inlineRootsList rest
termination_by structural l => l
end

mutual
/-- the splice walk is a function of the block tree and ONE inline configuration: every
    placeholder, wherever it sits, is replaced by the result of `Inline.parseInline icfg` — and
    every one of these runs succeeded -/
theorem spliceNode_spec {icfg : Inline.Cfg} (b : Block.BNode) (t : Node)
    (h : spliceNode icfg b = .ok t) :
    t = spliceWith (inlineRun icfg) b ∧
    ∀ cm ∈ inlineRoots b, ∃ ns, Inline.parseInline icfg cm.1 cm.2 = .ok ns := by
  match b with
  | ⟨k, r, cs⟩ =>
    simp only [spliceNode] at h
    split at h
    · cases h
    · rename_i cs' hcs
      cases h
      obtain ⟨h1, h2⟩ := spliceList_spec cs cs' hcs
      simp only [spliceWith, inlineRoots]
      exact ⟨by rw [h1], h2⟩
theorem spliceList_spec {icfg : Inline.Cfg} (cs : List Block.BNode) (out : List Node)
    (h : spliceList icfg cs = .ok out) :
    out = spliceWithList (inlineRun icfg) cs ∧
    ∀ cm ∈ inlineRootsList cs, ∃ ns, Inline.parseInline icfg cm.1 cm.2 = .ok ns := by
  match cs with
  | [] => simp [spliceList] at h; subst h; simp [spliceWithList, inlineRootsList]
  | c :: rest =>
    simp only [spliceList] at h
    split at h
    · rename_i content mapping hk
      split at h
      · cases h
      · rename_i ns hns
        split at h
        · cases h
        · rename_i rest' hr
          cases h
          obtain ⟨h1, h2⟩ := spliceList_spec rest rest' hr
          simp only [spliceWithList, inlineRootsList, hk]
          refine ⟨by rw [h1, inlineRun, hns], ?_⟩
          intro cm hcm
          rcases List.mem_cons.mp hcm with rfl | hcm
          · exact ⟨ns, hns⟩
          · exact h2 cm hcm
    · rename_i hne
      split at h
      · cases h
      · rename_i c' hc
        split at h
        · cases h
        · rename_i rest' hr
          cases h
          obtain ⟨h1, h2⟩ := spliceList_spec rest rest' hr
          obtain ⟨h3, h4⟩ := spliceNode_spec c c' hc
          have e1 : spliceWithList (inlineRun icfg) (c :: rest) =
              spliceWith (inlineRun icfg) c :: spliceWithList (inlineRun icfg) rest := by
            rw [spliceWithList]
            split
            · rename_i content mapping hk; exact absurd hk (hne content mapping)
            · rfl
          have e2 : inlineRootsList (c :: rest) = inlineRoots c ++ inlineRootsList rest := by
            rw [inlineRootsList]
            split
            · rename_i content mapping hk; exact absurd hk (hne content mapping)
            · rfl
          rw [e1, e2]
          refine ⟨by rw [h1, h3], ?_⟩
          intro cm hcm
          rcases List.mem_append.mp hcm with hcm | hcm
          · exact h4 cm hcm
          · exact h2 cm hcm
end

/-- the passes behind the splice walk -/
def postPasses (cfg : DocCfg) (src : List Char) (t0 : Node) : Except Panic Node :=
  let t := if cfg.hasJoin then joinNode t0 else t0
  if cfg.sourcepos then sourceposNode src (SourceMap.mkMarks src) t else .ok t

/-- **`doc_reference_position_irrelevant` (C13 for documents).**  For every parsed document there
    are the block tree `root`, the FINAL reference map `refs` of the block pass and the list `defs`
    of ALL definitions the reference rule parsed, in the order the block pass met them (nested
    containers included), such that
    * `refs = Refs.buildMap N defs`: the fold "insert under the normalised label if absent" from the
      empty map (`Block.parseBlocks_refs`) — definitions leave nothing else behind
      (`Block.reference_no_node`);
    * the inline configuration `icfg = cfg.inlineCfg refs` is ONE value, built from that final map,
      and EVERY `InlineRoot` of the document — at any depth, before or after any definition — is
      parsed under it: each of these runs succeeded and the tree is the block tree with each
      placeholder replaced by the result of `Inline.parseInline icfg` (`spliceWith`), followed by
      the join / sourcepos passes;
    * under `icfg` a reference use with label `l` (`Inline.parseLinkRef`: `Refs.lookup icfg.normRef`
      in `icfg.refs`, nothing if the map is absent) resolves to the entry of the FIRST definition of
      the whole document whose stored key is `N l`, and to nothing if there is none
      (`Refs.first_wins_raw`) — the position of the use relative to the definition does not occur. -/
theorem doc_reference_position_irrelevant (cfg : DocCfg) (src : List Char) (t : Node)
    (h : parseDoc cfg src = .ok t) :
    ∃ (root : Block.BNode) (refs : Refs.RefMap) (defs : List Refs.Def) (icfg : Inline.Cfg),
      Block.parseBlocks cfg.blockCfg src = .ok (root, refs) ∧
      (∀ d ∈ defs, Block.IsDef cfg.blockCfg d) ∧ refs = Refs.buildMap cfg.blockCfg.N defs ∧
      icfg = cfg.inlineCfg refs ∧
      (∀ cm ∈ inlineRoots root, ∃ ns, Inline.parseInline icfg cm.1 cm.2 = .ok ns) ∧
      postPasses cfg src (spliceWith (inlineRun icfg) root) = .ok t ∧
      ∀ label : List Nat,
        (match icfg.refs with
         | none => none
         | some m => Refs.lookup icfg.normRef m label) =
        (defs.find? (Refs.defHasKey cfg.blockCfg.N (cfg.blockCfg.N label))).map (·.entry) := by
  unfold parseDoc at h
  split at h
  · cases h
  · rename_i root refs hb
    obtain ⟨defs, hd, hrefs⟩ := Block.parseBlocks_refs hb
    refine ⟨root, refs, defs, cfg.inlineCfg refs, hb, hd, hrefs, rfl, ?_⟩
    unfold afterBlocks at h
    split at h
    · cases h
    · rename_i t0 hs
      obtain ⟨h1, h2⟩ := spliceNode_spec root t0 hs
      refine ⟨h2, ?_, ?_⟩
      · rw [← h1]; exact h
      · intro label
        have hfw := Refs.first_wins_raw cfg.blockCfg.N defs label
        rw [← hrefs] at hfw
        rw [← hfw]
        show (match (if refs.isEmpty then none else some refs) with
              | none => none
              | some m => Refs.lookup (Refs.normalize cfg.L cfg.U) m label) = _
        split
        · rename_i hnone
          split at hnone
          · rename_i he
            have : refs = [] := by simpa using he
            rw [this]; rfl
          · cases hnone
        · rename_i m hsome
          split at hsome
          · cases hsome
          · cases hsome; rfl

/-- with an idempotent label normalisation (`Refs.normalize_idem`: any case tables closed under
    `Refs.Closure`, in particular the generated Unicode tables, `Refs.table_normalize_idem`) the
    stored key is the normal form itself: a use resolves to the first definition of the document
    whose label has the same non-empty normal form -/
theorem doc_reference_first_match (cfg : DocCfg)
    (hN : ∀ s, cfg.blockCfg.N (cfg.blockCfg.N s) = cfg.blockCfg.N s) (defs : List Refs.Def)
    (label : List Nat) :
    (defs.find? (Refs.defHasKey cfg.blockCfg.N (cfg.blockCfg.N label))).map (·.entry) =
      (defs.find? (Refs.labelMatches cfg.blockCfg.N label)).map (·.entry) := by
  rw [← Refs.first_wins_raw, Refs.first_wins _ hN]

/-- **C13 for documents with the real Unicode case tables** (`Refs.Lt` / `Refs.Ut`, the generated
    tables of `char::to_lowercase` / `to_uppercase`): every reference use of the document — before
    or after the definition, in whatever container — resolves to the entry of the FIRST definition
    of the document whose label has the same non-empty normal form, and to nothing if there is
    none. -/
theorem doc_reference_real_tables (cfg : DocCfg) (hL : cfg.L = Refs.Lt) (hU : cfg.U = Refs.Ut)
    (src : List Char) (t : Node) (h : parseDoc cfg src = .ok t) :
    ∃ (root : Block.BNode) (refs : Refs.RefMap) (defs : List Refs.Def),
      Block.parseBlocks cfg.blockCfg src = .ok (root, refs) ∧
      (∀ d ∈ defs, Block.IsDef cfg.blockCfg d) ∧
      ∀ label : List Nat,
        (match (cfg.inlineCfg refs).refs with
         | none => none
         | some m => Refs.lookup (cfg.inlineCfg refs).normRef m label) =
        (defs.find? (Refs.labelMatches Refs.Nt label)).map (·.entry) := by
  obtain ⟨root, refs, defs, icfg, hb, hd, _, rfl, _, _, hl⟩ :=
    doc_reference_position_irrelevant cfg src t h
  refine ⟨root, refs, defs, hb, hd, fun label => ?_⟩
  have hN : cfg.blockCfg.N = Refs.Nt := by
    show Refs.normalize cfg.L cfg.U = Refs.normalize Refs.Lt Refs.Ut
    rw [hL, hU]
  rw [hl label, doc_reference_first_match cfg (by rw [hN]; exact Refs.table_normalize_idem) defs label, hN]

/-! ## C18 at document level: `doc_image_alt` -/

/-- what a node value contributes to the alt text of an image it sits in: `Text` and `TextSpecial`
    their content, both breaks a line feed, everything else nothing of its own -/
def Kind.ownAlt : Kind → List Char
  | .inl (.text c) => c
  | .inl (.special c _ _) => c
  | .inl .softbreak => ['\n']
  | .inl .hardbreak => ['\n']
  | _ => []

mutual
/-- what a subtree of the document displays as plain text -/
def docAlt : Node → List Char
  | ⟨k, _, _, cs⟩ => k.ownAlt ++ docAltList cs
termination_by structural n => n
def docAltList : List Node → List Char
  | [] => []
  | c :: cs => docAlt c ++ docAltList cs
termination_by structural l => l
end

theorem ownAlt_toRender (lp : List Char) (k : Kind) : NodeRender.ownAlt (k.toRender lp) = k.ownAlt := by
  cases k with
  | blk b => cases b <;> rfl
  | inl v =>
    cases v with
    | wrap w m => cases w <;> rfl
    | _ => rfl

mutual
theorem altText_toRender (lp : List Char) (n : Node) : NodeRender.altText (toRender lp n) = docAlt n := by
  match n with
  | ⟨k, r, a, cs⟩ =>
    simp only [toRender, NodeRender.altText, docAlt, ownAlt_toRender, altTextList_toRender lp cs]
theorem altTextList_toRender (lp : List Char) (cs : List Node) :
    NodeRender.altTextList (toRenderList lp cs) = docAltList cs := by
  match cs with
  | [] => simp only [toRenderList, NodeRender.altTextList, docAltList]
  | c :: r =>
    simp only [toRenderList, NodeRender.altTextList, docAltList, altText_toRender lp c,
      altTextList_toRender lp r]
end

open MdIt.NodeRender (tImg imageAttrs) in
/-- **`doc_image_alt` (C18 for documents).**  For every `Image` node ANYWHERE in a parsed tree (also
    one nested in another image's description or in a link text): its `render` issues exactly one
    trait call, `self_close("img", attrs)`, whose attribute list is the node's own attributes, then
    `src` (the safe url), then `alt`, then the title; the `alt` value is what the render model
    assembles by the walk of `Image::render` (`NodeRender.imageAlt`) on the projected children,
    which IS the Alt model on the converted children — `Alt.altOf (toInlList ..)` by definition,
    `= Alt.display (toInlList ..)` by `Alt.alt_is_display` (C18) — and equals `docAltList`, the plain
    text the description displays, computed directly on the document tree: every `Text` and
    `TextSpecial` content and one line feed per break, in document order, at any depth. -/
theorem doc_image_alt (cfg : DocCfg) (src : List Char) (t : Node) (h : parseDoc cfg src = .ok t)
    (n : Node) (hn : Within n t) (u : List Nat) (title : Option (List Char))
    (hk : n.kind = .inl (.image u title)) :
    let cs' := toRenderList cfg.langPrefix n.children
    NodeRender.render cfg.entity (toRender cfg.langPrefix n) =
        .ok [.selfClose tImg (imageAttrs n.attrs (asChars u) (docAltList n.children) title)] ∧
      (aAlt, docAltList n.children) ∈ imageAttrs n.attrs (asChars u) (docAltList n.children) title ∧
      (∀ nv ∈ imageAttrs n.attrs (asChars u) (docAltList n.children) title, nv.1 = aAlt →
        nv.2 = docAltList n.children) ∧
      NodeRender.imageAlt cs' = MdIt.Alt.altOf (NodeRender.toInlList cs') ∧
      MdIt.Alt.altOf (NodeRender.toInlList cs') = MdIt.Alt.display (NodeRender.toInlList cs') ∧
      MdIt.Alt.display (NodeRender.toInlList cs') = docAltList n.children := by
  intro cs'
  have hs : SafeUrl u := ((doc_urls_safe' cfg src t h n hn).2.1) u title hk
  have hfin := ((parseDoc_final h).1.within hn).1
  have halt : NodeRender.imageAlt cs' = docAltList n.children := by
    rw [NodeRender.image_alt_is_display, altTextList_toRender]
  have hdisp : MdIt.Alt.display (NodeRender.toInlList cs') = docAltList n.children := by
    rw [NodeRender.display_toInlList, altTextList_toRender]
  refine ⟨?_, ?_, ?_, rfl, MdIt.Alt.alt_is_display _, hdisp⟩
  · rw [toRender_eq, hk]
    simp only [Kind.toRender, NodeRender.render]
    rw [hs.decode, halt]
  · unfold NodeRender.imageAttrs
    cases title with
    | none => simp [NodeRender.pushTitle]
    | some tt => simp [NodeRender.pushTitle]
  · intro nv hnv hname
    unfold NodeRender.imageAttrs at hnv
    have hmem : nv ∈ (n.attrs ++ [(aSrc, asChars u)]) ++ [(aAlt, docAltList n.children)] ∨
        nv.1 = aTitle := by
      cases title with
      | none => exact .inl hnv
      | some tt =>
        simp only [NodeRender.pushTitle] at hnv
        rcases List.mem_append.mp hnv with h' | h'
        · exact .inl h'
        · simp only [List.mem_singleton] at h'; subst h'; exact .inr rfl
    rcases hmem with hmem | hmem
    · rcases List.mem_append.mp hmem with h' | h'
      · rcases List.mem_append.mp h' with h'' | h''
        · have := hfin nv h''
          rw [this] at hname
          exact absurd hname (by decide)
        · simp only [List.mem_singleton] at h''; subst h''
          exact absurd hname (show aSrc ≠ aAlt by decide)
      · simp only [List.mem_singleton] at h'; subst h'; rfl
    · rw [hmem] at hname
      exact absurd hname (by decide)

open MdIt.NodeRender (tImg tA imageAttrs linkAttrs) in
/-- **the `href` / `src` values are EXACTLY the urls of the tree**: a `Link` node anywhere in a parsed
    tree renders as `open("a", node.attrs ++ [href = u] ++ [title])`, its children, `close("a")`; an
    `Autolink` as `open("a", node.attrs ++ [href = u])`, children, `close("a")` (for `Image` see
    `doc_image_alt`) — `u` being the node's (safe) url as characters, unchanged. -/
theorem doc_link_render (cfg : DocCfg) (src : List Char) (t : Node) (h : parseDoc cfg src = .ok t)
    (n : Node) (hn : Within n t) :
    (∀ u title, n.kind = .inl (.link u title) → SafeUrl u ∧ ∃ body,
      NodeRender.render cfg.entity (toRender cfg.langPrefix n) =
        .ok ([.open tA (linkAttrs n.attrs (asChars u) title)] ++ body ++ [.close tA])) ∧
    (∀ u, n.kind = .inl (.autolink u) → SafeUrl u ∧ ∃ body,
      NodeRender.render cfg.entity (toRender cfg.langPrefix n) =
        .ok ([.open tA (n.attrs ++ [(aHref, asChars u)])] ++ body ++ [.close tA])) := by
  have hsafe := doc_urls_safe' cfg src t h n hn
  have hren := (final_hyps cfg.langPrefix n ((parseDoc_final h).1.sub hn)).1
  obtain ⟨evs, hevs⟩ := (NodeRender.render_total cfg.entity _).mpr hren
  obtain ⟨b, _, hb⟩ := NodeRender.render_ok_frameT hevs
  rw [toRender_eq] at hb
  constructor
  · intro u title hk
    have hs := hsafe.1 u title hk
    refine ⟨hs, b, ?_⟩
    rw [hevs, hb, hk]
    simp only [Kind.toRender, NodeRender.frameT, hs.decode]
  · intro u hk
    have hs := hsafe.2.2 u hk
    refine ⟨hs, b, ?_⟩
    rw [hevs, hb, hk]
    simp only [Kind.toRender, NodeRender.frameT, hs.decode]

open MdIt.NodeRender (tImg tHr tBr imageAttrs) in
/-- every `img` element of the rendered document is the rendering of an `Image` node of the tree:
    with that node's url as `src` and the displayed text of ITS description as `alt` -/
theorem doc_img_events (cfg : DocCfg) (src : List Char) (t : Node) (h : parseDoc cfg src = .ok t) :
    ∃ evs, renderEvents cfg t = .ok evs ∧ (∀ x, renderDoc x cfg src = .ok (Render.serialize x evs)) ∧
      ∀ attrs, Event.selfClose tImg attrs ∈ evs →
        ∃ n u title, Within n t ∧ n.kind = .inl (.image u title) ∧ SafeUrl u ∧
          attrs = imageAttrs n.attrs (asChars u) (docAltList n.children) title := by
  obtain ⟨evs, he, hev, hx⟩ := doc_render_total cfg src t h
  refine ⟨evs, hev, hx, ?_⟩
  have key : ∀ attrs, Event.selfClose tImg attrs ∈ evs →
      ∃ m ∈ NodeRender.visited (toRender cfg.langPrefix t), ∃ url title, m.kind = .image url title ∧
        attrs = imageAttrs m.attrs url (NodeRender.imageAlt m.children) title := by
    refine NodeRender.render_induction cfg.entity (fun _ => True)
      (fun vs evs => ∀ attrs, Event.selfClose tImg attrs ∈ evs →
        ∃ m ∈ vs, ∃ url title, m.kind = NodeRender.Kind.image url title ∧
          attrs = imageAttrs m.attrs url (NodeRender.imageAlt m.children) title)
      (by simp) ?_ ?_ (toRender cfg.langPrefix t) (fun _ _ => trivial) evs he
    · intro v₁ a v₂ b h₁ h₂ attrs hmem
      rcases List.mem_append.mp hmem with hmem | hmem
      · obtain ⟨m, hm, r⟩ := h₁ attrs hmem
        exact ⟨m, List.mem_append_left _ hm, r⟩
      · obtain ⟨m, hm, r⟩ := h₂ attrs hmem
        exact ⟨m, List.mem_append_right _ hm, r⟩
    · intro n vb b _ _ hb attrs hmem
      simp only [List.mem_append] at hmem
      have hframe : Event.selfClose tImg attrs ∈
            (NodeRender.frameT cfg.entity n.kind n.attrs (NodeRender.imageAlt n.children)).1 ∨
          Event.selfClose tImg attrs ∈
            (NodeRender.frameT cfg.entity n.kind n.attrs (NodeRender.imageAlt n.children)).2 →
          ∃ url title, n.kind = .image url title ∧
            attrs = imageAttrs n.attrs url (NodeRender.imageAlt n.children) title := by
        intro hf
        cases hk : n.kind <;> rw [hk] at hf <;>
          simp [NodeRender.frameT, tImg, tHr, tBr] at hf
        case image url title => exact ⟨url, title, rfl, hf⟩
      rcases hmem with (hmem | hmem) | hmem
      · obtain ⟨url, title, r⟩ := hframe (.inl hmem)
        exact ⟨n, by simp, url, title, r⟩
      · obtain ⟨m, hm, r⟩ := hb attrs hmem
        exact ⟨m, List.mem_cons_of_mem _ hm, r⟩
      · obtain ⟨url, title, r⟩ := hframe (.inr hmem)
        exact ⟨n, by simp, url, title, r⟩
  intro attrs hmem
  obtain ⟨m, hm, url, title, hkm, hattrs⟩ := key attrs hmem
  obtain ⟨n, hw, rfl⟩ := toRender_nodes_within _ t m (NodeRender.visited_subset_nodes _ m hm)
  rw [toRender_eq] at hkm hattrs
  simp only at hkm hattrs
  cases hk : n.kind with
  | blk b => rw [hk] at hkm; cases b <;> simp [Kind.toRender] at hkm
  | inl v =>
    rw [hk] at hkm
    cases v with
    | image u ttl =>
      simp only [Kind.toRender, NodeRender.Kind.image.injEq] at hkm
      have hs : SafeUrl u := (doc_urls_safe' cfg src t h n hw).2.1 u ttl hk
      refine ⟨n, u, ttl, hw, hk, hs, ?_⟩
      rw [hattrs, ← hkm.1, ← hkm.2, hs.decode, NodeRender.image_alt_is_display, altTextList_toRender]
    | wrap w mk => cases w <;> simp [Kind.toRender] at hkm
    | _ => simp [Kind.toRender] at hkm

/-! ## non-vacuity, and what the hypotheses / the validation are needed for -/

mutual
/-- the urls of a tree in pre-order (for examples) -/
def urlsOf : Node → List (List Nat)
  | ⟨k, _, _, cs⟩ => (match k.url? with | some u => [u] | none => []) ++ urlsOfList cs
def urlsOfList : List Node → List (List Nat)
  | [] => []
  | c :: cs => urlsOf c ++ urlsOfList cs
end

/-- an ASCII string as bytes (for examples) -/
def bytesOf (s : String) : List Nat := s.toList.map Char.toNat

/-- the block pass on three definitions, two of them in containers, one duplicate (`[R]` after
    `[r]`: the first wins, the key is the normalised label), one with angle brackets and a title -/
example : (Block.parseBlocks (exCfg false 100).blockCfg "[r]: /a\n> [R]: /b\n\n- [s]: <c> 't'".toList).toOption.map (·.2) =
    some [([82], ⟨[47, 97], none⟩), ([83], ⟨[99], some [116]⟩)] := by decide +kernel

/-- reference link, autolink and image: the three url-carrying kinds, one url from the map -/
example : (parseDoc (exCfg false 100) "[r]: /u\n\n[r] <xx:y> ![i](/w)".toList).toOption.map urlsOf =
    some [[47, 117], [120, 120, 58, 121], [47, 119]] := by decide +kernel

/-- `doc_urls_safe` / `doc_href_safe` / `doc_reference_position_irrelevant` on the document of
    `Props/Pipeline` with every inline kind (a definition, a reference use, link, image, autolink) -/
example : ∃ t, parseDoc (exCfg true 100) exInlines = .ok t ∧
    Every (fun n => ∀ u, n.kind.url? = some u → SafeUrl u) t := by
  obtain ⟨t, ht⟩ := exInlines_parses
  exact ⟨t, ht, doc_urls_safe _ _ t ht⟩

example : ∃ t evs, parseDoc (exCfg true 100) exInlines = .ok t ∧ renderEvents (exCfg true 100) t = .ok evs := by
  obtain ⟨t, ht⟩ := exInlines_parses
  obtain ⟨evs, he, _⟩ := doc_href_safe _ _ t ht
  exact ⟨t, evs, ht, he⟩

/-- the hypotheses of `doc_reference_position_irrelevant` and `doc_img_events` hold on that document
    (it has a definition, a use, and an image) -/
example : ∃ root refs defs, Block.parseBlocks (exCfg true 100).blockCfg exInlines = .ok (root, refs) ∧
    refs = Refs.buildMap (exCfg true 100).blockCfg.N defs := by
  obtain ⟨t, ht⟩ := exInlines_parses
  obtain ⟨root, refs, defs, _, hb, _, hr, _⟩ := doc_reference_position_irrelevant _ _ t ht
  exact ⟨root, refs, defs, hb, hr⟩

example : ∃ evs, ∀ x, renderDoc x (exCfg true 100) exInlines = .ok (Render.serialize x evs) := by
  obtain ⟨t, ht⟩ := exInlines_parses
  obtain ⟨evs, _, hx, _⟩ := doc_img_events _ _ t ht
  exact ⟨evs, hx⟩

/-- a use BEFORE its definition, the definition inside a block quote, a later duplicate at top
    level: the use resolves to the first definition in document order -/
example : (parseDoc (exCfg false 100) "[r]\n\n> [r]: /a\n\n[R]: /b".toList).toOption.map urlsOf =
    some [[47, 97]] := by decide +kernel

/-- use before = use after -/
example : (renderDoc false (exCfg false 100) "[r]\n\n[r]: /a".toList).toOption.map (·.take 22) =
    (renderDoc false (exCfg false 100) "[r]: /a\n\n[r]".toList).toOption.map (·.take 22) := by decide +kernel

/-- **why the validation is needed** (the theorem has no hypothesis to drop; this is the step its
    proof rests on): the four destinations below ARE dangerous, and none of them reaches the tree —
    neither inline, nor as an autolink, nor through a definition (which then is no definition: it
    stays a paragraph, `[r]` stays text) -/
example : (parseDoc (exCfg false 100) "[a](javascript:x) <vbscript:x> ![i](data:text/html,x)".toList).toOption.map urlsOf =
    some [] := by decide +kernel
example : (parseDoc (exCfg false 100) "[r]: file:x\n\n[r]".toList).toOption.map urlsOf = some [] := by
  decide +kernel
example : Link.dangerous (bytesOf "javascript:x") = true ∧
    Link.dangerous (bytesOf "vbscript:x") = true ∧
    Link.dangerous (bytesOf "data:text/html,x") = true ∧
    Link.dangerous (bytesOf "file:x") = true := by decide +kernel
/-- … while an image `data:` url of an allowed type, and a scheme that merely CONTAINS a bad one, pass -/
example : (parseDoc (exCfg false 100) "![j](data:image/png;,x) [b](x:javascript:y)".toList).toOption.map urlsOf =
    some [bytesOf "data:image/png;,x", bytesOf "x:javascript:y"] := by
  decide +kernel

/-- `SafeUrl` is not vacuous, and `validate_link` alone would not be enough for `harmless`: off the
    normalised alphabet (a raw TAB inside the scheme, which a browser strips) the validator accepts
    a url a browser runs as `javascript:` — the `visible` clause is what excludes it -/
example : SafeUrl (bytesOf "http://x?a=1&b=2") :=
  .of_good ⟨⟨"http://x?a=1&b=2".toList, by decide +kernel⟩, by decide +kernel⟩
example : Link.validateLink Link.exJavaTab = true ∧ Link.dangerous Link.exJavaTab = true ∧
    ¬ Link.Visible Link.exJavaTab := by decide +kernel

/-- `doc_image_alt`: emphasis, a nested image and a soft break inside a description -/
example : renderDoc false (exCfg false 100) "![a *b* ![d](e)\nf](g)".toList =
    .ok "<p><img src=\"g\" alt=\"a b d\nf\"></p>\n".toList := by decide +kernel

/-- a definition's url and title, with source positions: the definition itself leaves no output -/
example : renderDoc false (exCfg true 100) "[r]: /u 't'\n[r]".toList =
    .ok ("<p data-sourcepos=\"2:1-2:3\"><a data-sourcepos=\"2:1-2:3\" ".toList ++
         "href=\"/u\" title=\"t\">r</a></p>\n".toList) := by decide +kernel

/-
OPEN: `doc_definitions_are_the_documents` — the list `defs` of `doc_reference_position_irrelevant` /
`Block.parseBlocks_refs` is characterised by what the reference rule DID (`Block.IsDef`: each
element is a result of `refParse` on the text the rule read, in execution order, nested containers
included), not yet by the SOURCE: "`defs` is exactly the list of the link reference definitions of
the document in source order, `d.label` / `d.entry` being the text between the brackets / the
normalised destination and the title of the definition that starts on line `i`".
Missing lemma: a relational specification of the block pass that ties each successful
`referenceRule` call to the source lines it consumed (`s.line .. s'.line`, through
`BState.getLines` and the container views of `Props/C06`), i.e. a `tokenize_trace` theorem giving the
ordered list of (rule, start line, end line) of a run; `Block.reference_step` is the per-call half.

OPEN: `doc_href_occurrences` — `doc_href_output` goes from the trait calls to the string (every
`href` / `src` attribute of every tag piece is written ` href="escape_html u"`, `u` safe).  The
converse by POSITION — "every occurrence of the five characters ` src=` / the six characters
` href=` in the output string lies in the attribute part of a tag piece and starts one of these
attributes" — is not proved: text pieces may contain the letters `href=` (never the `"` or `<`:
`doc_safe_output`), so the statement has to be about occurrences inside tag pieces, and needs
`Props/C03.lt_only_in_tags` / `tag_piece_delims` extended from `<` / `>` to attribute boundaries.
Missing lemma: `attr_boundaries : p.isTag → p.str = '<' :: tag ++ attrsStr a ++ close →
(every ' ' of `attrsStr a` outside a quoted value starts an `attrStr nv`, nv ∈ a)`.
-/

end MdIt.Pipeline
